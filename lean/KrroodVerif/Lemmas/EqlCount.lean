import KrroodVerif.Lemmas.EqlCover
/-!
Totality of true cells on `F2` and the counting argument behind `C02_multiplicity`:
on `F2`, with duplicate-free domains, the true result cells of `eval w (build c) []` are in bijection
with the satisfying total assignments. Core Lean only.
-/
namespace KrroodVerif.Eql

/-! ## 8. Totality of true cells on `F2` -/

/-- `env` binds every variable in `vs` -/
def Binds (env : Env) (vs : List VarId) : Prop := ∀ v ∈ vs, (env.lookup (.var v)).isSome = true

theorem Term.mem_nodes_var {t : Term} {v : VarId} : Key.var v ∈ t.nodes ↔ v ∈ t.vars := by
  induction t with
  | var u => simp [Term.nodes, Term.vars]
  | lit i x => simp [Term.nodes, Term.vars]
  | attr t n ih => simpa [Term.nodes, Term.vars] using ih
  | index t i ih => simpa [Term.nodes, Term.vars] using ih
  | flatten t ih => simpa [Term.nodes, Term.vars] using ih

theorem Expr.mem_nodes_var {e : Expr} {v : VarId} : Key.var v ∈ e.nodes ↔ v ∈ e.vars := by
  induction e with
  | cmp op l r => simp [Expr.nodes, Expr.vars, Term.mem_nodes_var]
  | contains c i => simp [Expr.nodes, Expr.vars, Term.mem_nodes_var]
  | truth t => simp [Expr.nodes, Expr.vars, Term.mem_nodes_var]
  | hasType t c => simp [Expr.nodes, Expr.vars, Term.mem_nodes_var]
  | and l r ihl ihr => simp [Expr.nodes, Expr.vars, ihl, ihr]
  | elseIf l r ihl ihr => simp [Expr.nodes, Expr.vars, ihl, ihr]
  | union l r ihl ihr => simp [Expr.nodes, Expr.vars, ihl, ihr]
  | not e ih => simpa [Expr.nodes, Expr.vars] using ih
  | exists_ u e ih => simp [Expr.nodes, Expr.vars, ih]
  | forAll u e ih => simp [Expr.nodes, Expr.vars, ih]

theorem sameSet_iff {a b : List VarId} (h : sameSet a b = true) : (∀ x ∈ a, x ∈ b) ∧ (∀ x ∈ b, x ∈ a) := by
  simpa [sameSet, List.all_eq_true] using h

/-- every result (true or false) of an atom binds all the atom's variables -/
theorem atom_binds {w : World} {e : Expr} (ha : e.isAtom = true) {env : Env} {rs : List (Env × Bool)}
    (h : eval w e env = .ok rs) : ∀ p ∈ rs, Binds p.1 e.vars := by
  intro p hp v hv
  cases e with
  | cmp op l r =>
    simp only [eval] at h
    exact evalCmp_binds h p hp _ (by
      simp only [Expr.vars, List.mem_append] at hv
      exact List.mem_append.mpr (hv.imp Term.mem_nodes_var.mpr Term.mem_nodes_var.mpr))
  | contains c i =>
    simp only [eval] at h
    exact evalCmp_binds h p hp _ (by
      simp only [Expr.vars, List.mem_append] at hv
      exact List.mem_append.mpr (hv.imp Term.mem_nodes_var.mpr Term.mem_nodes_var.mpr))
  | truth t =>
    obtain ⟨rs0, h0, rfl⟩ := eval_truth_inv h
    simp only [List.mem_map] at hp; obtain ⟨r, hr, rfl⟩ := hp
    exact evalTerm_binds w t true env rs0 h0 r hr _ (Term.mem_nodes_var.mpr hv)
  | hasType t c =>
    obtain ⟨rs0, h0, rfl⟩ := eval_hasType_inv h
    simp only [List.mem_map] at hp; obtain ⟨r, hr, rfl⟩ := hp
    exact evalTerm_binds w t false env rs0 h0 r hr _ (Term.mem_nodes_var.mpr hv)
  | _ => simp [Expr.isAtom] at ha

/-- **totality**: on `F2` every *true* result cell binds all variables of the expression -/
theorem eval_total (w : World) (e : Expr) :
    e.F2 = true → ∀ env rs, eval w e env = .ok rs → ∀ p ∈ rs, p.2 = true → Binds p.1 e.vars := by
  induction e with
  | cmp op l r => intro hF env rs h p hp _; exact atom_binds (e := .cmp op l r) hF h p hp
  | contains c i => intro hF env rs h p hp _; exact atom_binds (e := .contains c i) hF h p hp
  | truth t => intro hF env rs h p hp _; exact atom_binds (e := .truth t) hF h p hp
  | hasType t c => intro hF env rs h p hp _; exact atom_binds (e := .hasType t c) hF h p hp
  | not e _ =>
    intro hF env rs h p hp _
    simp only [Expr.F2] at hF
    obtain ⟨rs0, h0, rfl⟩ := eval_not_inv h
    simp only [List.mem_map] at hp; obtain ⟨r, hr, rfl⟩ := hp
    exact atom_binds hF h0 r hr
  | and l r ihl ihr =>
    intro hF env rs h p hp hpt
    simp only [Expr.F2, Bool.and_eq_true] at hF
    obtain ⟨ls, g, h0, rfl, hg⟩ := eval_and_inv h
    simp only [List.mem_flatMap] at hp; obtain ⟨a, ha, hp⟩ := hp
    cases ha2 : a.2 with
    | true =>
      have hr := (hg a ha).1 ha2
      have hx := eval_ext w r (Expr.F2_Fc hF.2) a.1 _ hr p hp
      intro v hv
      simp only [Expr.vars, List.mem_append] at hv
      rcases hv with hv | hv
      · exact hx.isSome (ihl hF.1 env ls h0 a ha ha2 v hv)
      · exact ihr hF.2 a.1 _ hr p hp hpt v hv
    | false =>
      rw [(hg a ha).2 ha2, List.mem_singleton] at hp; subst hp; cases hpt
  | elseIf l r ihl ihr =>
    intro hF env rs h p hp hpt
    simp only [Expr.F2, Bool.and_eq_true] at hF
    obtain ⟨hlr, hrl⟩ := sameSet_iff hF.2
    obtain ⟨ls, g, h0, rfl, hg⟩ := eval_elseIf_inv h
    simp only [List.mem_flatMap] at hp; obtain ⟨a, ha, hp⟩ := hp
    cases ha2 : a.2 with
    | true =>
      rw [(hg a ha).1 ha2, List.mem_singleton] at hp; subst hp
      intro v hv
      simp only [Expr.vars, List.mem_append] at hv
      rcases hv with hv | hv
      · exact ihl hF.1.1 env ls h0 a ha ha2 v hv
      · exact ihl hF.1.1 env ls h0 a ha ha2 v (hrl v hv)
    | false =>
      have hr := (hg a ha).2 ha2
      intro v hv
      simp only [Expr.vars, List.mem_append] at hv
      rcases hv with hv | hv
      · exact ihr hF.1.2 a.1 _ hr p hp hpt v (hlr v hv)
      · exact ihr hF.1.2 a.1 _ hr p hp hpt v hv
  | union l r _ _ => intro hF; simp [Expr.F2] at hF
  | exists_ v e _ => intro hF; simp [Expr.F2] at hF
  | forAll v e _ => intro hF; simp [Expr.F2] at hF

/-- what is known about a true result cell of a top-level evaluation (empty input environment) on `F2` -/
theorem trueCell_facts {w : World} {e : Expr} (hF : e.F2 = true) {rs : List (Env × Bool)}
    (h : eval w e [] = .ok rs) {p : Env × Bool} (hp : p ∈ rs) (hpt : p.2 = true) :
    (keys p.1).Nodup ∧ (∀ v x, (Key.var v, x) ∈ p.1 → v ∈ e.vars ∧ x ∈ w.dom v) ∧ Binds p.1 e.vars := by
  obtain ⟨pre, hpre, hprop, hnod⟩ := eval_ext w e (Expr.F2_Fc hF) [] rs h p hp
  refine ⟨hnod List.nodup_nil, ?_, eval_total w e hF [] rs h p hp hpt⟩
  intro v x hm
  rw [hpre, List.append_nil] at hm
  exact ⟨Expr.mem_nodes_var.mp (hprop _ hm).1, (hprop _ hm).2 v rfl⟩

/-! ## 9. Assignments -/

theorem mem_assignments {w : World} {vs : List VarId} :
    ∀ {σ : Asg}, σ ∈ assignments w vs ↔ σ.map (·.1) = vs ∧ ∀ p ∈ σ, p.2 ∈ w.dom p.1 := by
  induction vs with
  | nil =>
    intro σ
    simp only [assignments, List.mem_singleton, List.map_eq_nil_iff]
    constructor
    · rintro rfl; simp
    · exact fun h => h.1
  | cons v rest ih =>
    intro σ
    simp only [assignments, List.mem_flatMap, List.mem_map]
    constructor
    · rintro ⟨x, hx, σ', hσ', rfl⟩
      obtain ⟨h1, h2⟩ := ih.mp hσ'
      refine ⟨by simp [h1], ?_⟩
      intro p hp
      rcases List.mem_cons.mp hp with rfl | hp
      · exact hx
      · exact h2 p hp
    · rintro ⟨h1, h2⟩
      cases σ with
      | nil => simp at h1
      | cons p σ' =>
        obtain ⟨v', x⟩ := p
        simp only [List.map_cons, List.cons.injEq] at h1
        obtain ⟨hv, h1⟩ := h1
        subst hv
        exact ⟨x, h2 (v', x) (List.mem_cons_self), σ',
          ih.mpr ⟨h1, fun p hp => h2 p (List.mem_cons_of_mem _ hp)⟩, rfl⟩

theorem assignments_nodup {w : World} (hnd : ∀ v, (w.dom v).Nodup) (vs : List VarId) :
    (assignments w vs).Nodup := by
  induction vs with
  | nil => simp [assignments]
  | cons v rest ih =>
    simp only [assignments, List.Nodup, List.pairwise_flatMap]
    constructor
    · intro x _
      exact List.Pairwise.map _ (fun a b hab h => hab (by simpa using h)) ih
    · exact List.Pairwise.imp (fun {x y} hxy a ha b hb hab => by
        simp only [List.mem_map] at ha hb
        obtain ⟨a', _, rfl⟩ := ha
        obtain ⟨b', _, rfl⟩ := hb
        simp only [List.cons.injEq, Prod.mk.injEq, true_and] at hab
        exact hxy hab.1) (hnd v)

theorem lookup_map_self {β} (f : VarId → β) (vs : List VarId) (v : VarId) :
    (vs.map fun u => (u, f u)).lookup v = if v ∈ vs then some (f v) else none := by
  induction vs with
  | nil => simp
  | cons u rest ih =>
    simp only [List.map_cons, List.lookup_cons, List.mem_cons]
    by_cases h : v = u
    · subst h; simp
    · have : (v == u) = false := by simp [h]
      simp [this, ih, h]

/-- an association list with duplicate-free keys `vs` is determined by its lookups -/
theorem asg_eq_map : ∀ {σ : Asg} {vs : List VarId}, σ.map (·.1) = vs → vs.Nodup →
    σ = vs.map fun v => (v, (σ.lookup v).getD .none) := by
  intro σ
  induction σ with
  | nil => intro vs h _; subst h; rfl
  | cons p t ih =>
    intro vs h hn
    obtain ⟨u, x⟩ := p
    subst h
    have hn' : u ∉ t.map (·.1) ∧ (t.map (·.1)).Nodup := by simpa using hn
    have iht := ih rfl hn'.2
    show (u, x) :: t = (u, (((u, x) :: t).lookup u).getD .none) ::
      (t.map (·.1)).map (fun v => (v, (((u, x) :: t).lookup v).getD .none))
    have h1 : (((u, x) :: t).lookup u).getD .none = x := by simp
    rw [h1]
    congr 1
    conv => lhs; rw [iht]
    apply List.map_congr_left
    intro v hv
    have hne : (v == u) = false := by
      simp only [beq_eq_false_iff_ne, ne_eq]; rintro rfl; exact hn'.1 hv
    simp [List.lookup_cons, hne]

theorem lookup_of_mem_nodup {env : Env} {k : Key} {x : Val} (hn : (keys env).Nodup) (hm : (k, x) ∈ env) :
    env.lookup k = some x := by
  induction env with
  | nil => cases hm
  | cons p t ih =>
    obtain ⟨k', x'⟩ := p
    simp only [keys, List.map_cons, List.nodup_cons] at hn
    rcases List.mem_cons.mp hm with h | h
    · cases h; simp
    · have hne : (k == k') = false := by
        simp only [beq_eq_false_iff_ne, ne_eq]
        intro heq
        subst heq
        exact hn.1 (List.mem_map.mpr ⟨(k, x), h, rfl⟩)
      rw [List.lookup_cons, hne]
      exact ih hn.2 h

/-- the total assignment over `vs` read off an environment -/
def toAsg (vs : List VarId) (env : Env) : Asg := vs.map fun v => (v, (env.lookup (.var v)).getD .none)

/-- projection of an environment / an assignment onto the selected variables -/
def projEnv (svs : List VarId) (env : Env) : List Val := svs.map fun v => (env.lookup (.var v)).getD .none
def projAsg (svs : List VarId) (σ : Asg) : List Val := svs.map fun v => (σ.lookup v).getD .none

theorem projAsg_toAsg {svs vs : List VarId} (hs : ∀ v ∈ svs, v ∈ vs) (env : Env) :
    projAsg svs (toAsg vs env) = projEnv svs env := by
  apply List.map_congr_left
  intro v hv
  simp [toAsg, lookup_map_self, hs v hv]

theorem toAsg_mem_assignments {w : World} {vs : List VarId} {env : Env} (hb : Binds env vs)
    (hd : ∀ v x, (Key.var v, x) ∈ env → x ∈ w.dom v) : toAsg vs env ∈ assignments w vs := by
  rw [mem_assignments]
  refine ⟨by simp [toAsg, List.map_map, Function.comp_def], ?_⟩
  intro p hp
  simp only [toAsg, List.mem_map] at hp
  obtain ⟨v, hv, rfl⟩ := hp
  have := hb v hv
  cases hl : env.lookup (.var v) with
  | none => rw [hl] at this; cases this
  | some x => exact hd v x (lookup_mem' hl)

/-- for a cell that binds exactly the variables `vs`: compatible with `σ` iff it *is* `σ` -/
theorem agrees_eq_toAsg {vs : List VarId} {env : Env} {σ : Asg} (hk : (keys env).Nodup)
    (hv : ∀ v x, (Key.var v, x) ∈ env → v ∈ vs) (hb : Binds env vs) (hσ : σ.map (·.1) = vs)
    (hn : vs.Nodup) : agreesB σ env = (toAsg vs env == σ) := by
  rw [Bool.eq_iff_iff, agreesB_iff, beq_iff_eq]
  constructor
  · intro h
    rw [asg_eq_map hσ hn]
    apply List.map_congr_left
    intro v hv'
    have := hb v hv'
    cases hl : env.lookup (.var v) with
    | none => rw [hl] at this; cases this
    | some x => rw [h v x (lookup_mem' hl)]
  · intro h v x hm
    rw [← h]
    simp [toAsg, lookup_map_self, hv v x hm, lookup_of_mem_nodup hk hm]

/-! ## 10. `dedupNat` -/

theorem dedup_foldl (xs : List VarId) : ∀ acc : List VarId, acc.Nodup →
    (xs.foldl (fun acc x => if acc.contains x then acc else acc ++ [x]) acc).Nodup ∧
    ∀ x, x ∈ xs.foldl (fun acc x => if acc.contains x then acc else acc ++ [x]) acc ↔ x ∈ acc ∨ x ∈ xs := by
  induction xs with
  | nil => intro acc h; simp [h]
  | cons y ys ih =>
    intro acc h
    simp only [List.foldl_cons]
    by_cases hy : y ∈ acc
    · have : acc.contains y = true := by simpa using hy
      simp only [this, if_true]
      refine ⟨(ih acc h).1, fun x => ?_⟩
      rw [(ih acc h).2 x, List.mem_cons]
      constructor
      · rintro (h1 | h1)
        · exact Or.inl h1
        · exact Or.inr (Or.inr h1)
      · rintro (h1 | rfl | h1)
        · exact Or.inl h1
        · exact Or.inl hy
        · exact Or.inr h1
    · have : acc.contains y = false := by simpa using hy
      simp only [this, Bool.false_eq_true, if_false]
      have hn : (acc ++ [y]).Nodup := by
        rw [List.nodup_append]
        refine ⟨h, by simp, ?_⟩
        intro a ha b hb
        simp only [List.mem_singleton] at hb
        subst hb
        exact fun heq => hy (heq ▸ ha)
      refine ⟨(ih _ hn).1, fun x => ?_⟩
      rw [(ih _ hn).2 x, List.mem_append, List.mem_singleton, List.mem_cons]
      constructor
      · rintro ((h1 | h1) | h1)
        · exact Or.inl h1
        · exact Or.inr (Or.inl h1)
        · exact Or.inr (Or.inr h1)
      · rintro (h1 | h1 | h1)
        · exact Or.inl (Or.inl h1)
        · exact Or.inl (Or.inr h1)
        · exact Or.inr h1

theorem dedupNat_nodup (xs : List VarId) : (dedupNat xs).Nodup := (dedup_foldl xs [] List.nodup_nil).1

theorem mem_dedupNat {xs : List VarId} {x : VarId} : x ∈ dedupNat xs ↔ x ∈ xs := by
  have := (dedup_foldl xs [] List.nodup_nil).2 x
  simpa [dedupNat] using this

/-! ## 11. Queries -/

def Term.isVar : Term → Bool
  | .var _ => true
  | _ => false

/-- the selection consists of plain variables, each of which occurs in the condition `c` -/
def selOK (sel : List Term) (c : SExpr) : Bool :=
  sel.all Term.isVar && (sel.flatMap Term.vars).all (c.freeVars.contains ·)

theorem sel_plain {sel : List Term} (h : sel.all Term.isVar = true) :
    sel = (sel.flatMap Term.vars).map Term.var := by
  induction sel with
  | nil => rfl
  | cons t r ih =>
    simp only [List.all_cons, Bool.and_eq_true] at h
    cases t with
    | var v => simp only [List.flatMap_cons, Term.vars, List.cons_append, List.nil_append, List.map_cons]
               rw [← ih h.2]
    | _ => have h1 := h.1; simp [Term.isVar] at h1

theorem flatMap_var (svs : List VarId) : (svs.map Term.var).flatMap Term.vars = svs := by
  induction svs with
  | nil => rfl
  | cons v r ih => simp [Term.vars, ih]

theorem product_singletons {α β} (f : α → β) (xs : List α) :
    product (xs.map fun x => [f x]) = [xs.map f] := by
  induction xs with
  | nil => rfl
  | cons x r ih => simp [product, ih]

theorem flatMap_eq_map {α β} {l : List α} {g : α → List β} {f : α → β} (h : ∀ x ∈ l, g x = [f x]) :
    l.flatMap g = l.map f := by
  induction l with
  | nil => rfl
  | cons x r ih =>
    rw [List.flatMap_cons, List.map_cons, h x (List.mem_cons_self),
      ih (fun y hy => h y (List.mem_cons_of_mem _ hy))]
    rfl

/-- the row the descriptor builds from a cell that binds every selected variable -/
theorem selRow (w : World) (env : Env) (svs : List VarId) (hb : Binds env svs) :
    (svs.map Term.var).mapM (fun s => do
        let rs ← evalTerm w false s env
        pure (rs.map fun r : Env × Val × Bool => r.2.1)) =
      .ok (svs.map fun v => [(env.lookup (Key.var v)).getD .none]) := by
  induction svs with
  | nil => rfl
  | cons v r ih =>
    rw [List.map_cons, List.mapM_cons, ih (fun u hu => hb u (List.mem_cons_of_mem _ hu))]
    have := hb v (List.mem_cons_self)
    cases hl : env.lookup (.var v) with
    | none => rw [hl] at this; cases this
    | some x =>
      simp only [evalTerm, evalVarAt, hl, List.map_cons, Option.getD_some]
      rfl

theorem selTval (w : World) (σ : Asg) (svs : List VarId) (hb : ∀ v ∈ svs, (σ.lookup v).isSome = true) :
    (svs.map Term.var).mapM (tval w σ) = .ok (projAsg svs σ) := by
  induction svs with
  | nil => rfl
  | cons v r ih =>
    rw [List.map_cons, List.mapM_cons, ih (fun u hu => hb u (List.mem_cons_of_mem _ hu))]
    have := hb v (List.mem_cons_self)
    cases hl : σ.lookup v with
    | none => rw [hl] at this; cases this
    | some x =>
      simp only [tval, hl, projAsg, List.map_cons, Option.getD_some]
      rfl

theorem count_true_cells {σ : Asg} {rs : List (Env × Bool)} {b : Bool}
    (h : (rs.filter fun p => agreesB σ p.1).map (·.2) = [b]) :
    ((rs.filter (·.2)).filter fun p => agreesB σ p.1).length = if b then 1 else 0 := by
  obtain ⟨a, ha, hab⟩ := map_eq_single h
  have : (rs.filter (·.2)).filter (fun p => agreesB σ p.1) =
      (rs.filter fun p => agreesB σ p.1).filter (·.2) := by
    rw [List.filter_filter, List.filter_filter]
    apply List.filter_congr
    intro p _
    exact Bool.and_comm _ _
  rw [this, ha]
  subst hab
  cases h2 : a.2 <;> simp [h2]

/-- **counting core of C02**: with plain selected variables `svs` that occur in the `F2` condition `c`,
evaluation and the first-order specification agree as multisets of rows -/
theorem multiplicity_core (w : World) (svs : List VarId) (c : SExpr) (hF : c.F2 = true)
    (hocc : ∀ v ∈ svs, v ∈ c.freeVars)
    (hnd : ∀ v, (w.dom v).Nodup) (hlit : LitNodup (build c))
    {rows rows' : List (List Val)}
    (h1 : evalQuery w { sel := svs.map Term.var, cond := some (build c) } = .ok rows)
    (h2 : solutions w { sel := svs.map Term.var, cond := some c } = .ok rows') :
    rows.Perm rows' := by
  have heF := build_F2 hF
  have hev := build_vars hF
  -- the variables of the query
  obtain ⟨vs, hvs⟩ : ∃ vs, vs = SQuery.vars { sel := svs.map Term.var, cond := some c } := ⟨_, rfl⟩
  have hvsn : vs.Nodup := by rw [hvs]; exact dedupNat_nodup _
  have hvsm : ∀ v, v ∈ vs ↔ v ∈ (build c).vars := by
    intro v
    rw [hvs, SQuery.vars, mem_dedupNat, flatMap_var, hev, List.mem_append]
    exact ⟨fun h => h.elim (hocc v) id, Or.inr⟩
  have hsv : ∀ v ∈ svs, v ∈ vs := fun v hv => (hvsm v).mpr (hev ▸ hocc v hv)
  -- the evaluation side
  unfold evalQuery at h1
  obtain ⟨rs, hrs, h1⟩ := bind_ok h1
  obtain ⟨T, hT, h1⟩ := bind_ok h1
  have hT := (pure_ok hT).symm
  obtain ⟨gF, hgF, rfl⟩ := flatMapM_ok h1
  have hTfacts : ∀ env ∈ T, (keys env).Nodup ∧ (∀ v x, (Key.var v, x) ∈ env → v ∈ vs ∧ x ∈ w.dom v) ∧
      Binds env vs := by
    intro env henv
    rw [hT] at henv
    simp only [List.mem_map, List.mem_filter] at henv
    obtain ⟨p, ⟨hp, hpt⟩, rfl⟩ := henv
    obtain ⟨f1, f2, f3⟩ := trueCell_facts heF hrs hp hpt
    exact ⟨f1, fun v x hm => ⟨(hvsm v).mpr (f2 v x hm).1, (f2 v x hm).2⟩,
      fun v hv => f3 v ((hvsm v).mp hv)⟩
  have hrows : T.flatMap gF = (T.map (toAsg vs)).map (projAsg svs) := by
    rw [List.map_map]
    apply flatMap_eq_map
    intro env henv
    have hb : Binds env svs := fun v hv => (hTfacts env henv).2.2 v (hsv v hv)
    have := hgF env henv
    simp only [selRow w env svs hb] at this
    rw [← pure_ok this, product_singletons]
    show [projEnv svs env] = _
    rw [Function.comp, projAsg_toAsg hsv]
  rw [hrows]
  -- the specification side
  unfold solutions at h2
  obtain ⟨sols, hsols, h2⟩ := bind_ok h2
  rw [← hvs] at hsols
  obtain ⟨pred, hpred, hsolsEq⟩ := filterM_ok hsols
  obtain ⟨g', hg', rfl⟩ := mapM_ok h2
  have hsolsMem : ∀ σ ∈ sols, σ ∈ assignments w vs := by
    intro σ hσ; rw [hsolsEq] at hσ; exact (List.mem_filter.mp hσ).1
  have hlook : ∀ σ ∈ assignments w vs, ∀ v ∈ vs, ∃ x, σ.lookup v = some x ∧ x ∈ w.dom v := by
    intro σ hσ v hv
    obtain ⟨hm1, hm2⟩ := mem_assignments.mp hσ
    have heq := asg_eq_map hm1 hvsn
    refine ⟨(σ.lookup v).getD .none, ?_, ?_⟩
    · conv => lhs; rw [heq]
      rw [lookup_map_self]; simp [hv]
    · have hmem : (v, (σ.lookup v).getD .none) ∈ vs.map (fun v => (v, (σ.lookup v).getD .none)) :=
        List.mem_map.mpr ⟨v, hv, rfl⟩
      rw [← heq] at hmem
      exact hm2 _ hmem
  have hrows' : sols.map g' = sols.map (projAsg svs) := by
    apply List.map_congr_left
    intro σ hσ
    have := hg' σ hσ
    rw [selTval w σ svs (fun v hv => by
      obtain ⟨x, hx, _⟩ := hlook σ (hsolsMem σ hσ) v (hsv v hv); simp [hx])] at this
    exact (Except.ok.inj this).symm
  rw [hrows']
  apply List.Perm.map
  -- the bijection between true cells and satisfying assignments
  rw [List.perm_iff_count]
  intro σ
  by_cases hσ : σ ∈ assignments w vs
  · obtain ⟨hm1, _⟩ := mem_assignments.mp hσ
    have hcov : Covers w σ (build c).vars := by
      intro v hv
      obtain ⟨x, hx, hxd⟩ := hlook σ hσ v ((hvsm v).mpr hv)
      exact ⟨x, hx, by rw [(hnd v).count]; simp [hxd]⟩
    have hsat : satE w (build c) σ = .ok (pred σ) := by
      rw [← satE_build]; exact hpred σ hσ
    have hcover := cover w σ (build c) (Expr.F2_Fc heF) hcov hlit [] rs (pred σ)
      (fun _ _ => rfl) (agreesB_nil σ) hrs hsat
    have hL : (T.map (toAsg vs)).count σ = if pred σ then 1 else 0 := by
      rw [List.count_eq_countP, List.countP_map, List.countP_eq_length_filter, hT, List.filter_map,
        List.length_map, ← count_true_cells hcover]
      congr 1
      apply List.filter_congr
      intro p hp
      have hpT : p.1 ∈ T := by rw [hT]; exact List.mem_map.mpr ⟨p, hp, rfl⟩
      obtain ⟨f1, f2, f3⟩ := hTfacts p.1 hpT
      simp only [Function.comp]
      rw [agrees_eq_toAsg f1 (fun v x hm => (f2 v x hm).1) f3 hm1 hvsn]
    have hR : sols.count σ = if pred σ then 1 else 0 := by
      rw [hsolsEq]
      cases hp : pred σ with
      | true =>
        rw [List.count_filter (by simpa using hp), (assignments_nodup hnd vs).count]; simp [hσ]
      | false =>
        simp only [Bool.false_eq_true, if_false]
        rw [List.count_eq_zero]
        intro hm; rw [(List.mem_filter.mp hm).2] at hp; cases hp
    rw [hL, hR]
  · have hL : (T.map (toAsg vs)).count σ = 0 := by
      rw [List.count_eq_zero]
      intro hm
      obtain ⟨env, henv, rfl⟩ := List.mem_map.mp hm
      obtain ⟨_, f2, f3⟩ := hTfacts env henv
      exact hσ (toAsg_mem_assignments f3 (fun v x hm => (f2 v x hm).2))
    have hR : sols.count σ = 0 := by
      rw [List.count_eq_zero]; exact fun hm => hσ (hsolsMem σ hm)
    rw [hL, hR]

/-! ## 12. Observations used by the tests in `Props/C01.lean`, `Props/C02.lean` -/

deriving instance DecidableEq for Except

/-- the two outcomes are the same *set* of rows (or the same error) -/
def sameAnswers (a b : Except Err (List (List Val))) : Bool :=
  match a, b with
  | .ok x, .ok y => x.all (y.contains ·) && y.all (x.contains ·)
  | .error e, .error f => e == f
  | _, _ => false

/-- object of the test class used by the recorded witnesses: `(o 0 <veq> (a _) (f _) (items _) (m_dbl _))` -/
def cexObj (veq : Bool) (a : Int) (f : Bool) (items : List Int) (m : Int) : Obj :=
  { cls := 0, veq := veq,
    fields := [("a", .int a), ("f", .bool f), ("items", .list items), ("m_dbl", .int m)] }

end KrroodVerif.Eql
