import KrroodVerif.Lemmas.EqlUnion
/-!
A simple, decidable **type discipline** for M-EQL (`Model/Eql.lean`, frozen) and the two *progress* theorems it
buys: on well-typed worlds and well-typed quantifier-free queries neither the evaluator (`eval`, `evalQuery`) nor
the first-order specification (`sat`, `solutions`) can return an error. Core Lean only.

The theorems of `Props/C01.lean`, `Props/C02.lean`, `Props/C01Union.lean` are conditional on both sides returning
`.ok`; `Props/C01Typed.lean` discharges these hypotheses with the lemmas of this file.

Contents: (T1) types, value typing `hasTy`, signatures, `World.wt`; (T2) `termTy`, `Expr.wt`, `SExpr.wt`,
`SQuery.wt`, `build_wt`; (T3) introduction lemmas for the `Except Err` combinators; (T4) value-level progress
(`getAttr`, `getIndex`, `applyCmp`, `applyContains`); (T5) `evalTerm_ok`, `evalCmp_ok`, `eval_ok`, `evalQuery_ok`;
(T6) `tval_ok`, `sat_ok`, `solutions_ok`; (T7) inference of the literal context.
-/
namespace KrroodVerif.Eql

/-! ## T1. Types, value typing, signatures, well-typed worlds -/

/-- types of values. `list n` / `objs c n`: a list of numbers / of objects of class `c` with **at least** `n`
elements (`list 0` = any list), which is what makes `Index` typable; `opt t`: `None` or a `t` -/
inductive Ty where
  | num                              -- `int`
  | bool                             -- `bool` (a number for `<`, `<=`, `>`, `>=`, exactly as `asNum`)
  | list (minLen : Nat)              -- list of numbers, length ≥ `minLen`
  | obj (cls : Nat)                  -- instance of `cls` (or of a subclass of it, `World.subclass`)
  | objs (cls : Nat) (minLen : Nat)  -- list of instances of `cls`, length ≥ `minLen`
  | none                             -- `None`
  | opt (t : Ty)                     -- `Optional[t]`
  deriving DecidableEq, Repr

/-- the operand types `<`, `<=`, `>`, `>=` accept (`asNum` is defined) -/
def Ty.isNum : Ty → Bool
  | .num => true
  | .bool => true
  | _ => false

/-- the container types `operator.contains` accepts -/
def Ty.isColl : Ty → Bool
  | .list _ => true
  | .objs _ _ => true
  | _ => false

/-- class signature: class id ↦ attribute types -/
abbrev Sig := List (Nat × List (AttrName × Ty))
/-- variable typing -/
abbrev VarCtx := List (VarId × Ty)
/-- literal-node typing (literal id ↦ type): a `Literal` is a `Variable` node of the engine and can be met bound -/
abbrev LitCtx := List (Nat × Ty)

/-- value typing (a relation: `.objs []` has every type `objs c 0`) -/
def hasTy (w : World) (v : Val) : Ty → Bool
  | .num => match v with | .int _ => true | _ => false
  | .bool => match v with | .bool _ => true | _ => false
  | .list n => match v with | .list xs => decide (n ≤ xs.length) | _ => false
  | .obj c => match v with | .obj i => isInstance w (.obj i) c | _ => false
  | .objs c n => match v with
    | .objs is => decide (n ≤ is.length) && is.all fun i => isInstance w (.obj i) c
    | _ => false
  | .none => match v with | .none => true | _ => false
  | .opt t => (match v with | .none => true | _ => false) || hasTy w v t

/-- the object has every attribute the signature declares for its class and for the superclasses of its class,
with a value of the declared type (classes the signature does not mention are unconstrained) -/
def Obj.wt (sig : Sig) (w : World) (o : Obj) : Bool :=
  sig.all fun cf =>
    !(o.cls == cf.1 || w.subclass.contains (o.cls, cf.1)) ||
      cf.2.all fun nt =>
        match o.fields.lookup nt.1 with
        | some x => hasTy w x nt.2
        | none => false

/-- **well-typed world**: every object conforms to the signature, every domain value of a variable typed by `Γ`
has that type -/
def World.wt (sig : Sig) (Γ : VarCtx) (w : World) : Bool :=
  w.objs.all (Obj.wt sig w) && Γ.all fun vt => (w.dom vt.1).all fun x => hasTy w x vt.2

/-! ## T2. Typing of terms, expressions, queries -/

/-- type synthesis for terms. `index t i` is typable when the list type guarantees `i` in range; `flatten` is not
typable (it is outside every fragment of the C01/C02 theorems) -/
def termTy (sig : Sig) (w : World) (Γ : VarCtx) (Λ : LitCtx) : Term → Option Ty
  | .var v => Γ.lookup v
  | .lit id x =>
    match Λ.lookup id with
    | some ty => if hasTy w x ty then some ty else none
    | none => none
  | .attr t n =>
    match termTy sig w Γ Λ t with
    | some (.obj c) =>
      match sig.lookup c with
      | some fs => fs.lookup n
      | none => none
    | _ => none
  | .index t i =>
    match termTy sig w Γ Λ t with
    | some (.list n) => if i < n then some .num else none
    | some (.objs c n) => if i < n then some (.obj c) else none
    | _ => none
  | .flatten _ => none

def cmpTyOK (op : CmpOp) (a b : Ty) : Bool :=
  match op with
  | .eq => true
  | .ne => true
  | _ => a.isNum && b.isNum

/-- typing of quantifier-free core expressions -/
def Expr.wt (sig : Sig) (w : World) (Γ : VarCtx) (Λ : LitCtx) : Expr → Bool
  | .cmp op l r =>
    match termTy sig w Γ Λ l, termTy sig w Γ Λ r with
    | some a, some b => cmpTyOK op a b
    | _, _ => false
  | .contains c i =>
    match termTy sig w Γ Λ c, termTy sig w Γ Λ i with
    | some a, some _ => a.isColl
    | _, _ => false
  | .truth t => (termTy sig w Γ Λ t).isSome
  | .hasType t _ => (termTy sig w Γ Λ t).isSome
  | .and l r => l.wt sig w Γ Λ && r.wt sig w Γ Λ
  | .elseIf l r => l.wt sig w Γ Λ && r.wt sig w Γ Λ
  | .union l r => l.wt sig w Γ Λ && r.wt sig w Γ Λ
  | .not e => e.wt sig w Γ Λ
  | .exists_ _ _ => false
  | .forAll _ _ => false

/-- typing of quantifier-free surface expressions -/
def SExpr.wt (sig : Sig) (w : World) (Γ : VarCtx) (Λ : LitCtx) : SExpr → Bool
  | .cmp op l r =>
    match termTy sig w Γ Λ l, termTy sig w Γ Λ r with
    | some a, some b => cmpTyOK op a b
    | _, _ => false
  | .contains c i =>
    match termTy sig w Γ Λ c, termTy sig w Γ Λ i with
    | some a, some _ => a.isColl
    | _, _ => false
  | .truth t => (termTy sig w Γ Λ t).isSome
  | .hasType t _ => (termTy sig w Γ Λ t).isSome
  | .and l r => l.wt sig w Γ Λ && r.wt sig w Γ Λ
  | .or l r => l.wt sig w Γ Λ && r.wt sig w Γ Λ
  | .not e => e.wt sig w Γ Λ
  | .exists_ _ _ => false
  | .forAll _ _ => false

/-- the typability of the selected terms -/
def selWt (sig : Sig) (w : World) (Γ : VarCtx) (Λ : LitCtx) (sel : List Term) : Bool :=
  sel.all fun s => (termTy sig w Γ Λ s).isSome

/-- **well-typed query**: every selected term is typable, the condition (if any) is well-typed -/
def SQuery.wt (sig : Sig) (w : World) (Γ : VarCtx) (Λ : LitCtx) (q : SQuery) : Bool :=
  selWt sig w Γ Λ q.sel &&
    (match q.cond with | some c => c.wt sig w Γ Λ | none => true)

theorem Expr.wt_invert {sig : Sig} {w : World} {Γ : VarCtx} {Λ : LitCtx} {e : Expr}
    (h : e.wt sig w Γ Λ = true) : invert e = .not e := by
  cases e <;> simp_all [Expr.wt, invert]

/-- the construction-time rewrites preserve typing -/
theorem build_wt {sig : Sig} {w : World} {Γ : VarCtx} {Λ : LitCtx} {s : SExpr}
    (h : s.wt sig w Γ Λ = true) : (build s).wt sig w Γ Λ = true := by
  induction s with
  | cmp op l r => simpa [SExpr.wt, build, Expr.wt] using h
  | contains c i => simpa [SExpr.wt, build, Expr.wt] using h
  | truth t => simpa [SExpr.wt, build, Expr.wt] using h
  | hasType t c => simpa [SExpr.wt, build, Expr.wt] using h
  | and l r ihl ihr =>
    simp only [SExpr.wt, Bool.and_eq_true] at h
    simp [build, Expr.wt, ihl h.1, ihr h.2]
  | or l r ihl ihr =>
    simp only [SExpr.wt, Bool.and_eq_true] at h
    simp only [build, mkOr]
    split <;> simp [Expr.wt, ihl h.1, ihr h.2]
  | not e ih =>
    simp only [SExpr.wt] at h
    simp only [build, Expr.wt_invert (ih h), Expr.wt]
    exact ih h
  | exists_ v e _ => simp [SExpr.wt] at h
  | forAll v e _ => simp [SExpr.wt] at h

/-- typable terms contain no `flatten` -/
theorem termTy_noFlat {sig : Sig} {w : World} {Γ : VarCtx} {Λ : LitCtx} {t : Term} {ty : Ty}
    (h : termTy sig w Γ Λ t = some ty) : t.noFlat = true := by
  induction t generalizing ty with
  | var v => rfl
  | lit i x => rfl
  | attr t n ih =>
    simp only [termTy] at h
    cases ht : termTy sig w Γ Λ t with
    | none => simp [ht] at h
    | some a => exact ih ht
  | index t i ih =>
    simp only [termTy] at h
    cases ht : termTy sig w Γ Λ t with
    | none => simp [ht] at h
    | some a => exact ih ht
  | flatten t _ => simp [termTy] at h

/-! ## T3. Introduction lemmas for the `Except Err` combinators -/

theorem ok_okOr {β} (d : β) {x : Except Err β} (h : ∃ y, x = .ok y) : x = .ok (okOr d x) := by
  obtain ⟨y, rfl⟩ := h; rfl

theorem mapM_okP {α β} {xs : List α} {f : α → Except Err β} {Q : β → Prop}
    (h : ∀ x ∈ xs, ∃ y, f x = .ok y ∧ Q y) : ∃ ys, xs.mapM f = .ok ys ∧ ∀ y ∈ ys, Q y := by
  induction xs with
  | nil => exact ⟨[], by simp [List.mapM_nil, pure, Except.pure], by simp⟩
  | cons x r ih =>
    obtain ⟨y, hy, hq⟩ := h x List.mem_cons_self
    obtain ⟨ys, hys, hqs⟩ := ih fun z hz => h z (List.mem_cons_of_mem _ hz)
    refine ⟨y :: ys, ?_, ?_⟩
    · rw [List.mapM_cons, hy, hys]; rfl
    · intro z hz
      rcases List.mem_cons.mp hz with rfl | hz
      · exact hq
      · exact hqs z hz

theorem flatMapM_okP {α β} {xs : List α} {f : α → Except Err (List β)} {Q : β → Prop}
    (h : ∀ x ∈ xs, ∃ ys, f x = .ok ys ∧ ∀ y ∈ ys, Q y) : ∃ zs, flatMapM xs f = .ok zs ∧ ∀ z ∈ zs, Q z := by
  induction xs with
  | nil => exact ⟨[], rfl, by simp⟩
  | cons x r ih =>
    obtain ⟨ys, hy, hq⟩ := h x List.mem_cons_self
    obtain ⟨zs, hzs, hqs⟩ := ih fun z hz => h z (List.mem_cons_of_mem _ hz)
    refine ⟨ys ++ zs, ?_, ?_⟩
    · simp only [flatMapM, hy, hzs]; rfl
    · intro z hz
      rcases List.mem_append.mp hz with hz | hz
      · exact hq z hz
      · exact hqs z hz

theorem filterAuxM_of_ok {α} {xs : List α} {f : α → Except Err Bool} {g : α → Bool}
    (h : ∀ x ∈ xs, f x = .ok (g x)) (acc : List α) :
    List.filterAuxM f xs acc = .ok ((xs.filter g).reverse ++ acc) := by
  induction xs generalizing acc with
  | nil => rfl
  | cons x r ih =>
    have hx := h x List.mem_cons_self
    have hr := fun z hz => h z (List.mem_cons_of_mem _ hz)
    simp only [List.filterAuxM, hx]
    show List.filterAuxM f r (cond (g x) (x :: acc) acc) = _
    rw [ih hr, List.filter_cons]
    cases g x <;> simp

theorem filterM_of_ok {α} {xs : List α} {f : α → Except Err Bool} {g : α → Bool}
    (h : ∀ x ∈ xs, f x = .ok (g x)) : xs.filterM f = .ok (xs.filter g) := by
  unfold List.filterM
  rw [filterAuxM_of_ok h []]
  simp [bind, Except.bind, pure, Except.pure]

/-! ## T4. Value-level progress -/

theorem hasTy_num_inv {w : World} {v : Val} (h : hasTy w v .num = true) : ∃ n, v = .int n := by
  cases v <;> simp [hasTy] at h; exact ⟨_, rfl⟩

theorem hasTy_bool_inv {w : World} {v : Val} (h : hasTy w v .bool = true) : ∃ b, v = .bool b := by
  cases v <;> simp [hasTy] at h; exact ⟨_, rfl⟩

theorem hasTy_list_inv {w : World} {v : Val} {n : Nat} (h : hasTy w v (.list n) = true) :
    ∃ xs, v = .list xs ∧ n ≤ xs.length := by
  cases v <;> simp [hasTy] at h; exact ⟨_, rfl, h⟩

theorem hasTy_obj_inv {w : World} {v : Val} {c : Nat} (h : hasTy w v (.obj c) = true) :
    ∃ i, v = .obj i ∧ isInstance w (.obj i) c = true := by
  cases v <;> simp [hasTy] at h; exact ⟨_, rfl, h⟩

theorem hasTy_objs_inv {w : World} {v : Val} {c n : Nat} (h : hasTy w v (.objs c n) = true) :
    ∃ is, v = .objs is ∧ n ≤ is.length ∧ ∀ i ∈ is, isInstance w (.obj i) c = true := by
  cases v <;> simp [hasTy] at h; exact ⟨_, rfl, h.1, h.2⟩

theorem asNum_of_isNum {w : World} {v : Val} {ty : Ty} (h : hasTy w v ty = true) (hn : ty.isNum = true) :
    ∃ n, asNum v = some n := by
  cases ty <;> simp [Ty.isNum] at hn
  · obtain ⟨n, rfl⟩ := hasTy_num_inv h; exact ⟨_, rfl⟩
  · obtain ⟨b, rfl⟩ := hasTy_bool_inv h; exact ⟨_, rfl⟩

/-- comparisons of well-typed operands do not raise -/
theorem applyCmp_ok {w : World} {op : CmpOp} {a b : Val} {ta tb : Ty} (ha : hasTy w a ta = true)
    (hb : hasTy w b tb = true) (hop : cmpTyOK op ta tb = true) : ∃ c, applyCmp w op a b = .ok c := by
  cases op with
  | eq => simp only [applyCmp]; split <;> exact ⟨_, rfl⟩
  | ne => simp only [applyCmp]; split <;> exact ⟨_, rfl⟩
  | lt | le | gt | ge =>
    simp only [cmpTyOK, Bool.and_eq_true] at hop
    obtain ⟨x, hx⟩ := asNum_of_isNum ha hop.1
    obtain ⟨y, hy⟩ := asNum_of_isNum hb hop.2
    cases a <;> simp only [asNum, reduceCtorEq] at hx <;> cases b <;> simp only [asNum, reduceCtorEq] at hy <;>
      simp only [applyCmp, asNum] <;> exact ⟨_, rfl⟩

/-- membership in a well-typed container does not raise -/
theorem applyContains_ok {w : World} {a b : Val} {ta : Ty} (ha : hasTy w a ta = true)
    (hc : ta.isColl = true) : ∃ c, applyContains w a b = .ok c := by
  cases ta <;> simp [Ty.isColl] at hc
  · obtain ⟨xs, rfl, _⟩ := hasTy_list_inv ha; exact ⟨_, rfl⟩
  · obtain ⟨is, rfl, _⟩ := hasTy_objs_inv ha; exact ⟨_, rfl⟩

theorem World.wt_dom {sig : Sig} {Γ : VarCtx} {w : World} (hw : World.wt sig Γ w = true) {v : VarId} {ty : Ty}
    (hv : Γ.lookup v = some ty) {x : Val} (hx : x ∈ w.dom v) : hasTy w x ty = true := by
  simp only [World.wt, Bool.and_eq_true, List.all_eq_true] at hw
  exact hw.2 (v, ty) (lookup_mem' hv) x hx

/-- attribute access on a well-typed object does not raise and is type-preserving -/
theorem getAttr_ok {sig : Sig} {Γ : VarCtx} {w : World} (hw : World.wt sig Γ w = true) {v : Val} {c : Nat}
    (hv : hasTy w v (.obj c) = true) {fs : List (AttrName × Ty)} (hc : sig.lookup c = some fs) {n : AttrName}
    {ty : Ty} (hn : fs.lookup n = some ty) : ∃ x, getAttr w v n = .ok x ∧ hasTy w x ty = true := by
  obtain ⟨i, rfl, hi⟩ := hasTy_obj_inv hv
  simp only [World.wt, Bool.and_eq_true, List.all_eq_true] at hw
  simp only [isInstance] at hi
  cases ho : w.objs[i]? with
  | none => simp [ho] at hi
  | some o =>
    simp only [ho] at hi
    have hmem : o ∈ w.objs := List.mem_of_getElem? ho
    have h1 := hw.1 o hmem
    simp only [Obj.wt, List.all_eq_true] at h1
    have h2 := h1 (c, fs) (lookup_mem' hc)
    simp only [hi, Bool.not_true, Bool.false_or, List.all_eq_true] at h2
    have h3 := h2 (n, ty) (lookup_mem' hn)
    simp only [getAttr, ho]
    cases hf : o.fields.lookup n with
    | none => simp [hf] at h3
    | some x => simp only [hf] at h3; exact ⟨x, rfl, h3⟩

theorem getIndex_list_ok {w : World} {v : Val} {n i : Nat} (hv : hasTy w v (.list n) = true) (hi : i < n) :
    ∃ x, getIndex v i = .ok x ∧ hasTy w x .num = true := by
  obtain ⟨xs, rfl, hl⟩ := hasTy_list_inv hv
  have : i < xs.length := Nat.lt_of_lt_of_le hi hl
  simp only [getIndex, List.getElem?_eq_getElem this]
  exact ⟨_, rfl, rfl⟩

theorem getIndex_objs_ok {w : World} {v : Val} {c n i : Nat} (hv : hasTy w v (.objs c n) = true) (hi : i < n) :
    ∃ x, getIndex v i = .ok x ∧ hasTy w x (.obj c) = true := by
  obtain ⟨is, rfl, hl, hall⟩ := hasTy_objs_inv hv
  have : i < is.length := Nat.lt_of_lt_of_le hi hl
  simp only [getIndex, List.getElem?_eq_getElem this]
  exact ⟨_, rfl, by simpa [hasTy] using hall _ (List.getElem_mem this)⟩

/-! ## T5. Progress of the evaluator -/

/-- declared type of a binding key -/
def keyTy (Γ : VarCtx) (Λ : LitCtx) : Key → Option Ty
  | .var v => Γ.lookup v
  | .lit id => Λ.lookup id

/-- **well-typed environment**: every binding of a key the contexts declare holds a value of the declared type
(bindings of undeclared keys are unconstrained) -/
def EnvWt (w : World) (Γ : VarCtx) (Λ : LitCtx) (env : Env) : Prop :=
  ∀ k y ty, (k, y) ∈ env → keyTy Γ Λ k = some ty → hasTy w y ty = true

theorem EnvWt.nil (w : World) (Γ : VarCtx) (Λ : LitCtx) : EnvWt w Γ Λ [] := by
  intro k y ty h; cases h

theorem EnvWt.cons {w : World} {Γ : VarCtx} {Λ : LitCtx} {env : Env} {k : Key} {y : Val}
    (hy : ∀ ty, keyTy Γ Λ k = some ty → hasTy w y ty = true) (h : EnvWt w Γ Λ env) :
    EnvWt w Γ Λ ((k, y) :: env) := by
  intro k' y' ty hm hk
  rcases List.mem_cons.mp hm with heq | hm
  · cases heq; exact hy ty hk
  · exact h k' y' ty hm hk

theorem EnvWt.lookup {w : World} {Γ : VarCtx} {Λ : LitCtx} {env : Env} (h : EnvWt w Γ Λ env) {k : Key}
    {y : Val} (hl : env.lookup k = some y) {ty : Ty} (hk : keyTy Γ Λ k = some ty) : hasTy w y ty = true :=
  h k y ty (lookup_mem' hl) hk

/-- what `evalTerm_ok` guarantees of every operand result: a well-typed environment and a value of the term's type -/
def ResWt (w : World) (Γ : VarCtx) (Λ : LitCtx) (ty : Ty) (p : Env × Val × Bool) : Prop :=
  EnvWt w Γ Λ p.1 ∧ hasTy w p.2.1 ty = true

theorem mapVal_okP {sig : Sig} {w : World} {Γ : VarCtx} {Λ : LitCtx} {cp : Bool} {op : Val → Except Err Val}
    {ty ty' : Ty} (hop : ∀ v, hasTy w v ty = true → ∃ x, op v = .ok x ∧ hasTy w x ty' = true)
    {rs0 : List (Env × Val × Bool)} (h0 : ∀ p ∈ rs0, ResWt w Γ Λ ty p) :
    ∃ rs, mapVal cp op rs0 = .ok rs ∧ ∀ p ∈ rs, ResWt w Γ Λ ty' p := by
  have _ := sig
  unfold mapVal
  apply mapM_okP
  intro r hr
  obtain ⟨x, hx, hxt⟩ := hop r.2.1 (h0 r hr).2
  exact ⟨(r.1, x, if cp then truthy x else true), by rw [hx]; rfl, (h0 r hr).1, hxt⟩

/-- **progress for terms**: a typable term evaluates without error in a well-typed environment of a well-typed
world; every result carries a well-typed environment and a value of the term's type -/
theorem evalTerm_ok {sig : Sig} {Γ : VarCtx} {Λ : LitCtx} {w : World} (hw : World.wt sig Γ w = true) (t : Term) :
    ∀ (ty : Ty), termTy sig w Γ Λ t = some ty → ∀ (cp : Bool) (env : Env), EnvWt w Γ Λ env →
      ∃ rs, evalTerm w cp t env = .ok rs ∧ ∀ p ∈ rs, ResWt w Γ Λ ty p := by
  induction t with
  | var v =>
    intro ty ht cp env henv
    simp only [termTy] at ht
    refine ⟨evalVarAt w cp v env, rfl, ?_⟩
    intro p hp
    rcases evalVar_mem hp with ⟨y, hy, rfl⟩ | ⟨_, y, hy, rfl⟩
    · exact ⟨henv, henv.lookup hy (k := .var v) ht⟩
    · have hyt := World.wt_dom hw ht hy
      refine ⟨EnvWt.cons ?_ henv, hyt⟩
      intro ty' hk
      simp only [keyTy] at hk
      rw [ht] at hk; cases hk; exact hyt
  | lit id x =>
    intro ty ht cp env henv
    simp only [termTy] at ht
    cases hΛ : Λ.lookup id with
    | none => simp [hΛ] at ht
    | some ty0 =>
      simp only [hΛ] at ht
      by_cases hx : hasTy w x ty0 = true
      · simp only [hx, if_true, Option.some.injEq] at ht
        subst ht
        rcases evalLit_cases w cp id x env with ⟨y, hy, he⟩ | ⟨_, he⟩
        · refine ⟨_, he, ?_⟩
          intro p hp
          simp only [List.mem_singleton] at hp; subst hp
          exact ⟨henv, henv.lookup hy (k := .lit id) hΛ⟩
        · refine ⟨_, he, ?_⟩
          intro p hp
          simp only [List.mem_singleton] at hp; subst hp
          refine ⟨EnvWt.cons ?_ henv, hx⟩
          intro ty' hk
          simp only [keyTy] at hk
          rw [hΛ] at hk; cases hk; exact hx
      · simp [hx] at ht
  | attr t n ih =>
    intro ty ht cp env henv
    simp only [termTy] at ht
    cases ht0 : termTy sig w Γ Λ t with
    | none => simp [ht0] at ht
    | some a =>
      cases a with
      | obj c =>
        simp only [ht0] at ht
        cases hc : sig.lookup c with
        | none => simp [hc] at ht
        | some fs =>
          simp only [hc] at ht
          obtain ⟨rs0, h0, hres⟩ := ih _ ht0 false env henv
          obtain ⟨rs, hrs, hres'⟩ := mapVal_okP (sig := sig) (cp := cp) (op := fun x => getAttr w x n)
            (fun v hv => getAttr_ok hw hv hc ht) hres
          exact ⟨rs, by rw [evalTerm_attr, h0]; exact hrs, hres'⟩
      | _ => simp [ht0] at ht
  | index t i ih =>
    intro ty ht cp env henv
    simp only [termTy] at ht
    cases ht0 : termTy sig w Γ Λ t with
    | none => simp [ht0] at ht
    | some a =>
      cases a with
      | list n =>
        simp only [ht0] at ht
        by_cases hi : i < n
        · simp only [hi, if_true, Option.some.injEq] at ht
          subst ht
          obtain ⟨rs0, h0, hres⟩ := ih _ ht0 false env henv
          obtain ⟨rs, hrs, hres'⟩ := mapVal_okP (sig := sig) (cp := cp) (op := fun x => getIndex x i)
            (fun v hv => getIndex_list_ok hv hi) hres
          exact ⟨rs, by rw [evalTerm_index, h0]; exact hrs, hres'⟩
        · simp [hi] at ht
      | objs c n =>
        simp only [ht0] at ht
        by_cases hi : i < n
        · simp only [hi, if_true, Option.some.injEq] at ht
          subst ht
          obtain ⟨rs0, h0, hres⟩ := ih _ ht0 false env henv
          obtain ⟨rs, hrs, hres'⟩ := mapVal_okP (sig := sig) (cp := cp) (op := fun x => getIndex x i)
            (fun v hv => getIndex_objs_ok hv hi) hres
          exact ⟨rs, by rw [evalTerm_index, h0]; exact hrs, hres'⟩
        · simp [hi] at ht
      | _ => simp [ht0] at ht
  | flatten t _ => intro ty ht; simp [termTy] at ht

/-- progress for `Comparator` with the order of evaluation made explicit -/
theorem evalCmpCore_ok {sig : Sig} {Γ : VarCtx} {Λ : LitCtx} {w : World} (hw : World.wt sig Γ w = true)
    {f s : Term} {tf ts : Ty} (hf : termTy sig w Γ Λ f = some tf) (hs : termTy sig w Γ Λ s = some ts)
    {cmb : Val → Val → Except Err Bool}
    (hcmb : ∀ a b, hasTy w a tf = true → hasTy w b ts = true → ∃ c, cmb a b = .ok c)
    {env : Env} (henv : EnvWt w Γ Λ env) :
    ∃ rs, evalCmpCore w f s cmb env = .ok rs ∧ ∀ p ∈ rs, EnvWt w Γ Λ p.1 := by
  obtain ⟨r1, h1, hres1⟩ := evalTerm_ok hw f tf hf false env henv
  unfold evalCmpCore
  rw [h1]
  show ∃ rs, flatMapM _ _ = .ok rs ∧ _
  apply flatMapM_okP
  intro p1 hp1
  have hp1' := hres1 p1 (List.mem_filter.mp hp1).1
  obtain ⟨r2, h2, hres2⟩ := evalTerm_ok hw s ts hs false p1.1 hp1'.1
  rw [h2]
  show ∃ ys, List.mapM _ _ = Except.ok ys ∧ _
  apply mapM_okP
  intro p2 hp2
  have hp2' := hres2 p2 (List.mem_filter.mp hp2).1
  obtain ⟨c, hc⟩ := hcmb _ _ hp1'.2 hp2'.2
  exact ⟨(p2.1, c), by rw [hc]; rfl, hp2'.1⟩

theorem evalCmp_ok {sig : Sig} {Γ : VarCtx} {Λ : LitCtx} {w : World} (hw : World.wt sig Γ w = true)
    {l r : Term} {tl tr : Ty} (hl : termTy sig w Γ Λ l = some tl) (hr : termTy sig w Γ Λ r = some tr)
    {op : Val → Val → Except Err Bool}
    (hop : ∀ a b, hasTy w a tl = true → hasTy w b tr = true → ∃ c, op a b = .ok c)
    {env : Env} (henv : EnvWt w Γ Λ env) :
    ∃ rs, evalCmp w l r op env = .ok rs ∧ ∀ p ∈ rs, EnvWt w Γ Λ p.1 := by
  rcases evalCmp_eq w l r op env with he | he
  · rw [he]; exact evalCmpCore_ok hw hl hr hop henv
  · rw [he]; exact evalCmpCore_ok hw hr hl (fun a b ha hb => hop b a hb ha) henv

/-- **progress for expressions** (type safety of the evaluator on the quantifier-free language): a well-typed
expression evaluates without error in a well-typed environment of a well-typed world, and every result
environment is again well-typed -/
theorem eval_ok {sig : Sig} {Γ : VarCtx} {Λ : LitCtx} {w : World} (hw : World.wt sig Γ w = true) (e : Expr) :
    e.wt sig w Γ Λ = true → ∀ env, EnvWt w Γ Λ env →
      ∃ rs, eval w e env = .ok rs ∧ ∀ p ∈ rs, EnvWt w Γ Λ p.1 := by
  induction e with
  | cmp op l r =>
    intro he env henv
    simp only [Expr.wt] at he
    cases hl : termTy sig w Γ Λ l with
    | none => simp [hl] at he
    | some a =>
      cases hr : termTy sig w Γ Λ r with
      | none => simp [hl, hr] at he
      | some b =>
        simp only [hl, hr] at he
        simp only [eval]
        exact evalCmp_ok hw hl hr (fun x y hx hy => applyCmp_ok hx hy he) henv
  | contains c i =>
    intro he env henv
    simp only [Expr.wt] at he
    cases hl : termTy sig w Γ Λ c with
    | none => simp [hl] at he
    | some a =>
      cases hr : termTy sig w Γ Λ i with
      | none => simp [hl, hr] at he
      | some b =>
        simp only [hl, hr] at he
        simp only [eval]
        exact evalCmp_ok hw hl hr (fun x y hx _ => applyContains_ok hx he) henv
  | truth t =>
    intro he env henv
    simp only [Expr.wt, Option.isSome_iff_exists] at he
    obtain ⟨ty, ht⟩ := he
    obtain ⟨rs0, h0, hres⟩ := evalTerm_ok hw t ty ht true env henv
    refine ⟨rs0.map fun r => (r.1, r.2.2), by simp only [eval, h0]; rfl, ?_⟩
    intro p hp
    simp only [List.mem_map] at hp; obtain ⟨r, hr, rfl⟩ := hp
    exact (hres r hr).1
  | hasType t c =>
    intro he env henv
    simp only [Expr.wt, Option.isSome_iff_exists] at he
    obtain ⟨ty, ht⟩ := he
    obtain ⟨rs0, h0, hres⟩ := evalTerm_ok hw t ty ht false env henv
    refine ⟨rs0.map fun r => (r.1, isInstance w r.2.1 c), by simp only [eval, h0]; rfl, ?_⟩
    intro p hp
    simp only [List.mem_map] at hp; obtain ⟨r, hr, rfl⟩ := hp
    exact (hres r hr).1
  | and l r ihl ihr =>
    intro he env henv
    simp only [Expr.wt, Bool.and_eq_true] at he
    obtain ⟨ls, h0, hls⟩ := ihl he.1 env henv
    simp only [eval, h0]
    show ∃ rs, flatMapM _ _ = .ok rs ∧ _
    apply flatMapM_okP
    intro p hp
    cases hp2 : p.2 with
    | true => simpa using ihr he.2 p.1 (hls p hp)
    | false =>
      refine ⟨[(p.1, false)], by simp; rfl, ?_⟩
      intro q hq; simp only [List.mem_singleton] at hq; subst hq; exact hls p hp
  | elseIf l r ihl ihr =>
    intro he env henv
    simp only [Expr.wt, Bool.and_eq_true] at he
    obtain ⟨ls, h0, hls⟩ := ihl he.1 env henv
    simp only [eval, h0]
    show ∃ rs, flatMapM _ _ = .ok rs ∧ _
    apply flatMapM_okP
    intro p hp
    cases hp2 : p.2 with
    | false => simpa using ihr he.2 p.1 (hls p hp)
    | true =>
      refine ⟨[(p.1, true)], by simp; rfl, ?_⟩
      intro q hq; simp only [List.mem_singleton] at hq; subst hq; exact hls p hp
  | union l r ihl ihr =>
    intro he env henv
    simp only [Expr.wt, Bool.and_eq_true] at he
    obtain ⟨ls, h0, hls⟩ := ihl he.1 env henv
    obtain ⟨b, hb, hbs⟩ := ihr he.2 env henv
    have ha : ∃ a, flatMapM ls (fun p => if p.2 then pure [(p.1, true)] else eval w r p.1) = .ok a ∧
        ∀ q ∈ a, EnvWt w Γ Λ q.1 := by
      apply flatMapM_okP
      intro p hp
      cases hp2 : p.2 with
      | false => simpa using ihr he.2 p.1 (hls p hp)
      | true =>
        refine ⟨[(p.1, true)], by simp; rfl, ?_⟩
        intro q hq; simp only [List.mem_singleton] at hq; subst hq; exact hls p hp
    obtain ⟨a, ha, has⟩ := ha
    refine ⟨a ++ b, by simp only [eval, h0, hb]; show (flatMapM _ _ >>= _) = _; rw [ha]; rfl, ?_⟩
    intro q hq
    rcases List.mem_append.mp hq with hq | hq
    · exact has q hq
    · exact hbs q hq
  | not e ih =>
    intro he env henv
    simp only [Expr.wt] at he
    obtain ⟨rs0, h0, hres⟩ := ih he env henv
    refine ⟨rs0.map fun p => (p.1, !p.2), by simp only [eval, h0]; rfl, ?_⟩
    intro p hp
    simp only [List.mem_map] at hp; obtain ⟨r, hr, rfl⟩ := hp
    exact hres r hr
  | exists_ v e _ => intro he; simp [Expr.wt] at he
  | forAll v e _ => intro he; simp [Expr.wt] at he

/-- the selection step of `evalQuery` does not raise on well-typed rows -/
theorem select_ok {sig : Sig} {Γ : VarCtx} {Λ : LitCtx} {w : World} (hw : World.wt sig Γ w = true)
    {sel : List Term} (hsel : selWt sig w Γ Λ sel = true) {rows : List Env}
    (hres : ∀ env ∈ rows, EnvWt w Γ Λ env) :
    ∃ out, flatMapM rows (fun env => do
      let per ← sel.mapM fun s => do
        let rs ← evalTerm w false s env
        pure (rs.map (·.2.1))
      pure (product per)) = .ok out := by
  simp only [selWt, List.all_eq_true] at hsel
  have hfm : ∃ out, flatMapM rows (fun env => do
      let per ← sel.mapM fun s => do
        let rs ← evalTerm w false s env
        pure (rs.map (·.2.1))
      pure (product per)) = .ok out ∧ ∀ r ∈ out, True := by
    apply flatMapM_okP
    intro env henv
    have hper : ∃ per, (sel.mapM (m := Except Err) fun s => do
        let rs ← evalTerm w false s env
        pure (rs.map (·.2.1))) = .ok per ∧ ∀ x ∈ per, True := by
      apply mapM_okP
      intro s hs
      obtain ⟨ty, hty⟩ := Option.isSome_iff_exists.mp (hsel s hs)
      obtain ⟨rs, hrs, _⟩ := evalTerm_ok hw s ty hty false env (hres env henv)
      exact ⟨rs.map (·.2.1), by rw [hrs]; rfl, trivial⟩
    obtain ⟨per, hper, _⟩ := hper
    exact ⟨product per, by rw [hper]; rfl, fun _ _ => trivial⟩
  obtain ⟨out, hout, _⟩ := hfm
  exact ⟨out, hout⟩

/-- **progress for queries**: a well-typed query evaluates without error in a well-typed world -/
theorem evalQuery_ok {sig : Sig} {Γ : VarCtx} {Λ : LitCtx} {w : World} (hw : World.wt sig Γ w = true)
    {q : SQuery} (hq : q.wt sig w Γ Λ = true) : ∃ rows, evalQuery w q.toQuery = .ok rows := by
  obtain ⟨sel, cond⟩ := q
  simp only [SQuery.wt, Bool.and_eq_true] at hq
  obtain ⟨hsel, hcond⟩ := hq
  cases cond with
  | none =>
    exact select_ok hw hsel (rows := [[]]) (by
      intro env henv; simp only [List.mem_singleton] at henv; subst henv; exact EnvWt.nil _ _ _)
  | some c =>
    obtain ⟨rs, hrs, hres⟩ := eval_ok hw (build c) (build_wt hcond) [] (EnvWt.nil _ _ _)
    obtain ⟨out, hout⟩ := select_ok hw hsel (rows := (rs.filter (fun p : Env × Bool => p.2)).map (fun p => p.1)) (by
      intro env henv
      simp only [List.mem_map] at henv; obtain ⟨p, hp, rfl⟩ := henv
      exact hres p (List.mem_filter.mp hp).1)
    refine ⟨out, ?_⟩
    simp only [evalQuery, SQuery.toQuery, Option.map, hrs]
    exact hout

/-! ## T6. Progress of the first-order specification -/

/-- **well-typed assignment**: every variable the context declares is given a value of the declared type -/
def AsgWt (w : World) (Γ : VarCtx) (σ : Asg) : Prop :=
  ∀ v x ty, σ.lookup v = some x → Γ.lookup v = some ty → hasTy w x ty = true

/-- the assignment gives a value to every variable in `vs` -/
def AsgBinds (σ : Asg) (vs : List VarId) : Prop := ∀ v ∈ vs, (σ.lookup v).isSome = true

/-- **progress for term values**: a typable term has a value of its type under a well-typed assignment that binds
its variables -/
theorem tval_ok {sig : Sig} {Γ : VarCtx} {Λ : LitCtx} {w : World} (hw : World.wt sig Γ w = true) {σ : Asg}
    (hσ : AsgWt w Γ σ) (t : Term) :
    ∀ ty, termTy sig w Γ Λ t = some ty → AsgBinds σ t.vars → ∃ x, tval w σ t = .ok x ∧ hasTy w x ty = true := by
  induction t with
  | var v =>
    intro ty ht hb
    simp only [termTy] at ht
    obtain ⟨x, hx⟩ := Option.isSome_iff_exists.mp (hb v (by simp [Term.vars]))
    exact ⟨x, by simp only [tval, hx], hσ v x ty hx ht⟩
  | lit id x =>
    intro ty ht _
    simp only [termTy] at ht
    cases hΛ : Λ.lookup id with
    | none => simp [hΛ] at ht
    | some ty0 =>
      simp only [hΛ] at ht
      by_cases hx : hasTy w x ty0 = true
      · simp only [hx, if_true, Option.some.injEq] at ht
        subst ht
        exact ⟨x, rfl, hx⟩
      · simp [hx] at ht
  | attr t n ih =>
    intro ty ht hb
    simp only [termTy] at ht
    cases ht0 : termTy sig w Γ Λ t with
    | none => simp [ht0] at ht
    | some a =>
      cases a with
      | obj c =>
        simp only [ht0] at ht
        cases hc : sig.lookup c with
        | none => simp [hc] at ht
        | some fs =>
          simp only [hc] at ht
          obtain ⟨x0, hx0, hty0⟩ := ih _ ht0 hb
          obtain ⟨x, hx, hty⟩ := getAttr_ok hw hty0 hc ht
          exact ⟨x, by simp only [tval, hx0]; exact hx, hty⟩
      | _ => simp [ht0] at ht
  | index t i ih =>
    intro ty ht hb
    simp only [termTy] at ht
    cases ht0 : termTy sig w Γ Λ t with
    | none => simp [ht0] at ht
    | some a =>
      cases a with
      | list n =>
        simp only [ht0] at ht
        by_cases hi : i < n
        · simp only [hi, if_true, Option.some.injEq] at ht
          subst ht
          obtain ⟨x0, hx0, hty0⟩ := ih _ ht0 hb
          obtain ⟨x, hx, hty⟩ := getIndex_list_ok hty0 hi
          exact ⟨x, by simp only [tval, hx0]; exact hx, hty⟩
        · simp [hi] at ht
      | objs c n =>
        simp only [ht0] at ht
        by_cases hi : i < n
        · simp only [hi, if_true, Option.some.injEq] at ht
          subst ht
          obtain ⟨x0, hx0, hty0⟩ := ih _ ht0 hb
          obtain ⟨x, hx, hty⟩ := getIndex_objs_ok hty0 hi
          exact ⟨x, by simp only [tval, hx0]; exact hx, hty⟩
        · simp [hi] at ht
      | _ => simp [ht0] at ht
  | flatten t _ => intro ty ht; simp [termTy] at ht

theorem tvals_ok {sig : Sig} {Γ : VarCtx} {Λ : LitCtx} {w : World} (hw : World.wt sig Γ w = true) {σ : Asg}
    (hσ : AsgWt w Γ σ) {t : Term} {ty : Ty} (ht : termTy sig w Γ Λ t = some ty) (hb : AsgBinds σ t.vars) :
    ∃ x, tvals w σ t = .ok [x] ∧ hasTy w x ty = true := by
  obtain ⟨x, hx, hty⟩ := tval_ok hw hσ t ty ht hb
  exact ⟨x, by rw [tvals_noFlat w σ t (termTy_noFlat ht), hx]; rfl, hty⟩

theorem satCmp_ok {w : World} {σ : Asg} {l r : Term} {op : Val → Val → Except Err Bool} {a b : Val} {c : Bool}
    (hl : tvals w σ l = .ok [a]) (hr : tvals w σ r = .ok [b]) (hc : op a b = .ok c) :
    ∃ c', (do let ls ← tvals w σ l; let rs ← tvals w σ r
              anyM ls fun a => anyM rs fun b => op a b) = .ok c' := by
  rw [hl, hr]
  show ∃ c', anyM [a] (fun a => anyM [b] fun b => op a b) = .ok c'
  simp only [anyM, hc]
  exact ⟨_, rfl⟩

theorem AsgBinds.left {σ : Asg} {a b : List VarId} (h : AsgBinds σ (a ++ b)) : AsgBinds σ a :=
  fun v hv => h v (List.mem_append_left _ hv)

theorem AsgBinds.right {σ : Asg} {a b : List VarId} (h : AsgBinds σ (a ++ b)) : AsgBinds σ b :=
  fun v hv => h v (List.mem_append_right _ hv)

/-- **progress for the specification**: a well-typed condition has a truth value under every well-typed
assignment that binds its free variables -/
theorem sat_ok {sig : Sig} {Γ : VarCtx} {Λ : LitCtx} {w : World} (hw : World.wt sig Γ w = true) {σ : Asg}
    (hσ : AsgWt w Γ σ) (s : SExpr) :
    s.wt sig w Γ Λ = true → AsgBinds σ s.freeVars → ∃ b, sat w s σ = .ok b := by
  induction s with
  | cmp op l r =>
    intro hs hb
    simp only [SExpr.wt] at hs
    simp only [SExpr.freeVars] at hb
    cases hl : termTy sig w Γ Λ l with
    | none => simp [hl] at hs
    | some a =>
      cases hr : termTy sig w Γ Λ r with
      | none => simp [hl, hr] at hs
      | some b =>
        simp only [hl, hr] at hs
        obtain ⟨x, hx, hxt⟩ := tvals_ok hw hσ hl hb.left
        obtain ⟨y, hy, hyt⟩ := tvals_ok hw hσ hr hb.right
        obtain ⟨c, hc⟩ := applyCmp_ok hxt hyt hs
        simp only [sat]
        exact satCmp_ok hx hy hc
  | contains c i =>
    intro hs hb
    simp only [SExpr.wt] at hs
    simp only [SExpr.freeVars] at hb
    cases hl : termTy sig w Γ Λ c with
    | none => simp [hl] at hs
    | some a =>
      cases hr : termTy sig w Γ Λ i with
      | none => simp [hl, hr] at hs
      | some b =>
        simp only [hl, hr] at hs
        obtain ⟨x, hx, hxt⟩ := tvals_ok hw hσ hl hb.left
        obtain ⟨y, hy, _⟩ := tvals_ok hw hσ hr hb.right
        obtain ⟨c, hc⟩ := applyContains_ok (b := y) hxt hs
        simp only [sat]
        exact satCmp_ok hx hy hc
  | truth t =>
    intro hs hb
    simp only [SExpr.wt, Option.isSome_iff_exists] at hs
    obtain ⟨ty, ht⟩ := hs
    obtain ⟨x, hx, _⟩ := tvals_ok hw hσ ht hb
    exact ⟨_, by simp only [sat, hx]; rfl⟩
  | hasType t c =>
    intro hs hb
    simp only [SExpr.wt, Option.isSome_iff_exists] at hs
    obtain ⟨ty, ht⟩ := hs
    obtain ⟨x, hx, _⟩ := tvals_ok hw hσ ht hb
    exact ⟨_, by simp only [sat, hx]; rfl⟩
  | and l r ihl ihr =>
    intro hs hb
    simp only [SExpr.wt, Bool.and_eq_true] at hs
    simp only [SExpr.freeVars] at hb
    obtain ⟨bl, hbl⟩ := ihl hs.1 hb.left
    obtain ⟨br, hbr⟩ := ihr hs.2 hb.right
    exact ⟨_, by simp only [sat, hbl, hbr]; rfl⟩
  | or l r ihl ihr =>
    intro hs hb
    simp only [SExpr.wt, Bool.and_eq_true] at hs
    simp only [SExpr.freeVars] at hb
    obtain ⟨bl, hbl⟩ := ihl hs.1 hb.left
    obtain ⟨br, hbr⟩ := ihr hs.2 hb.right
    exact ⟨_, by simp only [sat, hbl, hbr]; rfl⟩
  | not e ih =>
    intro hs hb
    simp only [SExpr.wt] at hs
    simp only [SExpr.freeVars] at hb
    obtain ⟨b, hb'⟩ := ih hs hb
    exact ⟨_, by simp only [sat, hb']; rfl⟩
  | exists_ v e _ => intro hs; simp [SExpr.wt] at hs
  | forAll v e _ => intro hs; simp [SExpr.wt] at hs

/-- progress for the first-order reading of core expressions (`satE`, `Lemmas/EqlCover.lean`) -/
theorem satE_ok {sig : Sig} {Γ : VarCtx} {Λ : LitCtx} {w : World} (hw : World.wt sig Γ w = true) {σ : Asg}
    (hσ : AsgWt w Γ σ) (e : Expr) :
    e.wt sig w Γ Λ = true → AsgBinds σ e.vars → ∃ b, satE w e σ = .ok b := by
  induction e with
  | cmp op l r =>
    intro hs hb
    simp only [Expr.wt] at hs
    simp only [Expr.vars] at hb
    cases hl : termTy sig w Γ Λ l with
    | none => simp [hl] at hs
    | some a =>
      cases hr : termTy sig w Γ Λ r with
      | none => simp [hl, hr] at hs
      | some b =>
        simp only [hl, hr] at hs
        obtain ⟨x, hx, hxt⟩ := tvals_ok hw hσ hl hb.left
        obtain ⟨y, hy, hyt⟩ := tvals_ok hw hσ hr hb.right
        obtain ⟨c, hc⟩ := applyCmp_ok hxt hyt hs
        simp only [satE]
        exact satCmp_ok hx hy hc
  | contains c i =>
    intro hs hb
    simp only [Expr.wt] at hs
    simp only [Expr.vars] at hb
    cases hl : termTy sig w Γ Λ c with
    | none => simp [hl] at hs
    | some a =>
      cases hr : termTy sig w Γ Λ i with
      | none => simp [hl, hr] at hs
      | some b =>
        simp only [hl, hr] at hs
        obtain ⟨x, hx, hxt⟩ := tvals_ok hw hσ hl hb.left
        obtain ⟨y, hy, _⟩ := tvals_ok hw hσ hr hb.right
        obtain ⟨c, hc⟩ := applyContains_ok (b := y) hxt hs
        simp only [satE]
        exact satCmp_ok hx hy hc
  | truth t =>
    intro hs hb
    simp only [Expr.wt, Option.isSome_iff_exists] at hs
    obtain ⟨ty, ht⟩ := hs
    obtain ⟨x, hx, _⟩ := tvals_ok hw hσ ht hb
    exact ⟨_, by simp only [satE, hx]; rfl⟩
  | hasType t c =>
    intro hs hb
    simp only [Expr.wt, Option.isSome_iff_exists] at hs
    obtain ⟨ty, ht⟩ := hs
    obtain ⟨x, hx, _⟩ := tvals_ok hw hσ ht hb
    exact ⟨_, by simp only [satE, hx]; rfl⟩
  | and l r ihl ihr =>
    intro hs hb
    simp only [Expr.wt, Bool.and_eq_true] at hs
    simp only [Expr.vars] at hb
    obtain ⟨bl, hbl⟩ := ihl hs.1 hb.left
    obtain ⟨br, hbr⟩ := ihr hs.2 hb.right
    exact ⟨_, by simp only [satE, hbl, hbr]; rfl⟩
  | elseIf l r ihl ihr =>
    intro hs hb
    simp only [Expr.wt, Bool.and_eq_true] at hs
    simp only [Expr.vars] at hb
    obtain ⟨bl, hbl⟩ := ihl hs.1 hb.left
    obtain ⟨br, hbr⟩ := ihr hs.2 hb.right
    exact ⟨_, by simp only [satE, hbl, hbr]; rfl⟩
  | union l r ihl ihr =>
    intro hs hb
    simp only [Expr.wt, Bool.and_eq_true] at hs
    simp only [Expr.vars] at hb
    obtain ⟨bl, hbl⟩ := ihl hs.1 hb.left
    obtain ⟨br, hbr⟩ := ihr hs.2 hb.right
    exact ⟨_, by simp only [satE, hbl, hbr]; rfl⟩
  | not e ih =>
    intro hs hb
    simp only [Expr.wt] at hs
    simp only [Expr.vars] at hb
    obtain ⟨b, hb'⟩ := ih hs hb
    exact ⟨_, by simp only [satE, hb']; rfl⟩
  | exists_ v e _ => intro hs; simp [Expr.wt] at hs
  | forAll v e _ => intro hs; simp [Expr.wt] at hs

/-- the total assignments of `vs` over a well-typed world are well-typed -/
theorem assignments_wt {sig : Sig} {Γ : VarCtx} {w : World} (hw : World.wt sig Γ w = true) {vs : List VarId}
    {σ : Asg} (hσ : σ ∈ assignments w vs) : AsgWt w Γ σ := by
  intro v x ty hx hty
  exact World.wt_dom hw hty ((mem_assignments.mp hσ).2 (v, x) (lookup_mem' hx))

theorem assignments_binds {w : World} {vs : List VarId} (hn : vs.Nodup) {σ : Asg} (hσ : σ ∈ assignments w vs) :
    AsgBinds σ vs := by
  intro v hv
  obtain ⟨x, hx, _⟩ := assignments_lookup hn hσ hv
  simp [hx]

theorem mem_sel_vars {sel : List Term} {s : Term} (hs : s ∈ sel) : ∀ v ∈ s.vars, v ∈ sel.flatMap Term.vars :=
  fun _ hv => List.mem_flatMap.mpr ⟨s, hs, hv⟩

/-- **progress for `solutions`**: the first-order specification of a well-typed query over a well-typed world
returns a list of rows -/
theorem solutions_ok {sig : Sig} {Γ : VarCtx} {Λ : LitCtx} {w : World} (hw : World.wt sig Γ w = true)
    {q : SQuery} (hq : q.wt sig w Γ Λ = true) : ∃ rows', solutions w q = .ok rows' := by
  simp only [SQuery.wt, Bool.and_eq_true, selWt, List.all_eq_true] at hq
  obtain ⟨hsel, hcond⟩ := hq
  have hnd : q.vars.Nodup := dedupNat_nodup _
  have hfilter : ∀ σ ∈ assignments w q.vars,
      ∃ b, (match q.cond with | some c => sat w c σ | none => pure true) = Except.ok b := by
    intro σ hσ
    cases hc : q.cond with
    | none => exact ⟨true, rfl⟩
    | some c =>
      simp only [hc] at hcond
      refine sat_ok hw (assignments_wt hw hσ) c hcond ?_
      intro v hv
      exact assignments_binds hnd hσ v (by
        simp only [SQuery.vars, hc, mem_dedupNat]; exact List.mem_append_right _ hv)
  have hf := filterM_of_ok (xs := assignments w q.vars)
    (f := fun σ => match q.cond with | some c => sat w c σ | none => pure true)
    (g := fun σ => okOr false (match q.cond with | some c => sat w c σ | none => pure true))
    (fun σ hσ => ok_okOr false (hfilter σ hσ))
  have hrows : ∃ rows', ((assignments w q.vars).filter fun σ =>
      okOr false (match q.cond with | some c => sat w c σ | none => pure true)).mapM
        (fun σ => q.sel.mapM (tval w σ)) = Except.ok rows' ∧ ∀ r ∈ rows', True := by
    apply mapM_okP
    intro σ hσ
    have hσ' := (List.mem_filter.mp hσ).1
    have hrow : ∃ row, q.sel.mapM (tval w σ) = Except.ok row ∧ ∀ x ∈ row, True := by
      apply mapM_okP
      intro s hs
      obtain ⟨ty, hty⟩ := Option.isSome_iff_exists.mp (hsel s hs)
      obtain ⟨x, hx, _⟩ := tval_ok hw (assignments_wt hw hσ') s ty hty (by
        intro v hv
        exact assignments_binds hnd hσ' v (by
          simp only [SQuery.vars, mem_dedupNat]
          exact List.mem_append_left _ (mem_sel_vars hs v hv)))
      exact ⟨x, hx, trivial⟩
    obtain ⟨row, hrow, _⟩ := hrow
    exact ⟨row, hrow, trivial⟩
  obtain ⟨rows', hrows, _⟩ := hrows
  refine ⟨rows', ?_⟩
  have h2 : solutions w q = ((assignments w q.vars).filterM
      (fun σ => match q.cond with | some c => sat w c σ | none => pure true) >>=
        fun sols => sols.mapM fun σ => q.sel.mapM (tval w σ)) := rfl
  rw [h2, hf]
  exact hrows

/-! ## T7. Inference of the literal context (convenience: the theorems hold for every `Λ`) -/

/-- the most specific type of a literal value (`none` for a dangling object reference, which `termTy` then rejects) -/
def inferTy (w : World) : Val → Ty
  | .int _ => .num
  | .bool _ => .bool
  | .list xs => .list xs.length
  | .obj i => match w.objs[i]? with | some o => .obj o.cls | none => .none
  | .objs is =>
    match is with
    | [] => .objs 0 0
    | i :: _ => match w.objs[i]? with | some o => .objs o.cls is.length | none => .none
  | .none => .none
  | .set _ => .none

def Term.litCtx (w : World) : Term → LitCtx
  | .var _ => []
  | .lit id x => [(id, inferTy w x)]
  | .attr t _ => t.litCtx w
  | .index t _ => t.litCtx w
  | .flatten t => t.litCtx w

def SExpr.litCtx (w : World) : SExpr → LitCtx
  | .cmp _ l r => l.litCtx w ++ r.litCtx w
  | .contains c i => c.litCtx w ++ i.litCtx w
  | .truth t => t.litCtx w
  | .hasType t _ => t.litCtx w
  | .and l r => l.litCtx w ++ r.litCtx w
  | .or l r => l.litCtx w ++ r.litCtx w
  | .not e => e.litCtx w
  | .exists_ _ e => e.litCtx w
  | .forAll _ e => e.litCtx w

/-- the literal context read off the query: each literal node gets the most specific type of its value -/
def SQuery.litCtx (w : World) (q : SQuery) : LitCtx :=
  q.sel.flatMap (Term.litCtx w) ++ (match q.cond with | some c => c.litCtx w | none => [])

/-- well-typedness with the inferred literal context -/
def SQuery.wtInfer (sig : Sig) (w : World) (Γ : VarCtx) (q : SQuery) : Bool := q.wt sig w Γ (q.litCtx w)

end KrroodVerif.Eql
