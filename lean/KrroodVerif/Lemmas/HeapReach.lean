import KrroodVerif.Model.SymbolGraph
/-!
Reachability in the heap of `Model/SymbolGraph.lean`: the inductive relation `Reach`, soundness and completeness of the
fuelled worklist `Heap.reach` (fuel `live.length + 1` is adequate as soon as roots and field values are live),
`Heap.collect` leaves a heap without garbage (idempotence), and the monotonicity lemmas used by the run-level theorem
`C20_no_garbage_run` (Props/C20Run.lean).
-/
namespace KrroodVerif.SG

/-- `o` is reachable from `roots` along strong references held in field contents -/
inductive Reach (h : Heap) (roots : List Obj) : Obj → Prop
  | root {o : Obj} : o ∈ roots → Reach h roots o
  | step {o o' : Obj} : Reach h roots o → o' ∈ h.succ o → Reach h roots o'

theorem mem_succ {h : Heap} {o o' : Obj} : o' ∈ h.succ o ↔ ∃ e ∈ h.fields, e.owner = o ∧ e.val = o' := by
  simp only [Heap.succ, List.mem_map, List.mem_filter, beq_iff_eq]
  constructor
  · rintro ⟨e, ⟨h1, h2⟩, h3⟩; exact ⟨e, h1, h2, h3⟩
  · rintro ⟨e, h1, h2, h3⟩; exact ⟨e, ⟨h1, h2⟩, h3⟩

/-- more roots (or roots that are reachable) and more field contents: more is reachable -/
theorem Reach.mono {h h' : Heap} {r r' : List Obj} (hr : ∀ o ∈ r, Reach h' r' o)
    (hf : ∀ e ∈ h.fields, e ∈ h'.fields) {o : Obj} (ho : Reach h r o) : Reach h' r' o := by
  induction ho with
  | root h1 => exact hr _ h1
  | step _ h2 ih =>
    obtain ⟨e, he, h3, h4⟩ := mem_succ.1 h2
    exact .step ih (mem_succ.2 ⟨e, hf e he, h3, h4⟩)

theorem Reach.nil {h : Heap} {o : Obj} (ho : Reach h [] o) : False := by
  induction ho with
  | root h1 => cases h1
  | step _ _ ih => exact ih

/-- one round of the worklist adds only reachable labels -/
theorem reach_round {h : Heap} {seen : List Obj} {x : Obj}
    (hx : x ∈ seen ++ ((seen.flatMap h.succ).filter (fun x => !seen.contains x)).eraseDups) : Reach h seen x := by
  rcases List.mem_append.1 hx with h1 | h1
  · exact .root h1
  · have h2 := List.mem_eraseDups.1 h1
    obtain ⟨h3, _⟩ := List.mem_filter.1 h2
    obtain ⟨y, hy, hxy⟩ := List.mem_flatMap.1 h3
    exact .step (.root hy) hxy

/-- **soundness of `Heap.reach`** (any fuel): what the worklist returns is reachable from what it started with -/
theorem reach_sound (h : Heap) : ∀ (n : Nat) (seen : List Obj) (o : Obj), o ∈ h.reach n seen → Reach h seen o
  | 0, _, _, ho => .root ho
  | n + 1, seen, o, ho => by
    simp only [Heap.reach] at ho
    split at ho
    · exact .root ho
    · exact Reach.mono (fun x hx => reach_round hx) (fun _ he => he) (reach_sound h n _ o ho)

theorem filter_length_le_of_imp {α : Type} (p p' : α → Bool) (himp : ∀ x, p' x = true → p x = true) :
    ∀ (L : List α), (L.filter p').length ≤ (L.filter p).length
  | [] => by simp
  | z :: L => by
    have ih := filter_length_le_of_imp p p' himp L
    simp only [List.filter_cons]
    cases h1 : p' z
    · cases h2 : p z
      · simpa using ih
      · simp only [Bool.false_eq_true, if_false, if_true, List.length_cons]; omega
    · simp only [himp z h1, if_true, List.length_cons]; omega

theorem filter_length_lt {α : Type} (p p' : α → Bool) (himp : ∀ x, p' x = true → p x = true) (y : α)
    (hp : p y = true) (hp' : p' y = false) : ∀ (L : List α), y ∈ L → (L.filter p').length < (L.filter p).length
  | [], hy => by cases hy
  | x :: L, hy => by
    have hle := filter_length_le_of_imp p p' himp L
    rcases List.mem_cons.1 hy with h1 | h1
    · subst h1
      simp only [List.filter_cons, hp, hp', if_true, Bool.false_eq_true, if_false, List.length_cons]
      omega
    · have ih := filter_length_lt p p' himp y hp hp' L h1
      simp only [List.filter_cons]
      cases h1 : p' x
      · cases h2 : p x
        · simpa using ih
        · simp only [Bool.false_eq_true, if_false, if_true, List.length_cons]; omega
      · simp only [himp x h1, if_true, List.length_cons]; omega

/-- **completeness of `Heap.reach`** (fuel adequacy): if everything reachable lies in a list `L` and the fuel exceeds
the number of elements of `L` not yet seen, the worklist returns everything reachable — every round but the last adds a
new element of `L` -/
theorem reach_complete (h : Heap) (L : List Obj) : ∀ (n : Nat) (seen : List Obj),
    (∀ o, Reach h seen o → o ∈ L) → (L.filter (fun x => !seen.contains x)).length < n →
    ∀ o, Reach h seen o → o ∈ h.reach n seen
  | 0, _, _, hn, _, _ => absurd hn (Nat.not_lt_zero _)
  | n + 1, seen, hL, hn, o, ho => by
    simp only [Heap.reach]
    split
    · rename_i hnil
      induction ho with
      | root h1 => exact h1
      | @step o1 o2 _ h2 ih =>
        apply Classical.byContradiction
        intro hc
        have hmem : o2 ∈ (seen.flatMap h.succ).filter (fun x => !seen.contains x) :=
          List.mem_filter.2 ⟨List.mem_flatMap.2 ⟨o1, ih, h2⟩, by simpa using hc⟩
        rw [List.isEmpty_iff.1 hnil] at hmem
        cases hmem
    · rename_i hne
      have hback : ∀ x, Reach h (seen ++ ((seen.flatMap h.succ).filter (fun x => !seen.contains x)).eraseDups) x →
          Reach h seen x := fun x hx => Reach.mono (fun y hy => reach_round hy) (fun _ he => he) hx
      apply reach_complete h L n
      · intro x hx; exact hL x (hback x hx)
      · obtain ⟨y, hy⟩ : ∃ y, y ∈ (seen.flatMap h.succ).filter (fun x => !seen.contains x) := by
          cases hl : (seen.flatMap h.succ).filter (fun x => !seen.contains x) with
          | nil => rw [hl] at hne; simp at hne
          | cons y _ => exact ⟨y, List.mem_cons_self⟩
        have hy2 : y ∈ seen ++ ((seen.flatMap h.succ).filter (fun x => !seen.contains x)).eraseDups :=
          List.mem_append_right _ (List.mem_eraseDups.2 hy)
        have hyL : y ∈ L := hL y (reach_round hy2)
        have hyns : (!seen.contains y) = true := (List.mem_filter.1 hy).2
        have := filter_length_lt (fun x => !seen.contains x)
          (fun x => !(seen ++ ((seen.flatMap h.succ).filter (fun x => !seen.contains x)).eraseDups).contains x)
          (by
            intro x hx
            simp only [Bool.not_eq_eq_eq_not, Bool.not_true, List.contains_eq_mem, decide_eq_false_iff_not] at hx ⊢
            exact fun h1 => hx (List.mem_append_left _ h1))
          y hyns (by rw [Bool.not_eq_eq_eq_not, Bool.not_false, List.contains_iff_mem]; exact hy2) L hyL
        omega
      · exact Reach.mono (fun x hx => .root (List.mem_append_left _ hx)) (fun _ he => he) ho

theorem isLive_iff' (h : Heap) (o : Obj) : h.isLive o = true ↔ ∃ x ∈ h.live, x.obj = o := by
  simp [Heap.isLive, List.any_eq_true]

theorem mem_roots {q : Quirks} {h : Heap} {o : Obj} :
    o ∈ h.roots q ↔ o ∈ h.held ∨ ∃ v ∈ h.qvars, (v.held || q.exprTableLeak) = true ∧ o ∈ v.cache.getD [] := by
  simp only [Heap.roots, List.mem_append, List.mem_flatMap, List.mem_filter]
  constructor
  · rintro (h1 | ⟨v, ⟨h1, h2⟩, h3⟩)
    · exact Or.inl h1
    · exact Or.inr ⟨v, h1, h2, h3⟩
  · rintro (h1 | ⟨v, h1, h2, h3⟩)
    · exact Or.inl h1
    · exact Or.inr ⟨v, ⟨h1, h2⟩, h3⟩

/-- everything the heap mentions is alive: roots (the user's references and the cached domains of the query objects
that are still referenced), owners and values of field contents; and every query object in the table is referenced -/
structure Heap.WF (q : Quirks) (h : Heap) : Prop where
  roots : ∀ o ∈ h.roots q, h.isLive o = true
  owner : ∀ e ∈ h.fields, h.isLive e.owner = true
  val : ∀ e ∈ h.fields, h.isLive e.val = true
  qheld : ∀ v ∈ h.qvars, (v.held || q.exprTableLeak) = true

/-- no garbage, stated with the inductive relation -/
def Heap.Tight (q : Quirks) (h : Heap) : Prop := ∀ x ∈ h.live, Reach h (h.roots q) x.obj

theorem Heap.WF.reach_live {q : Quirks} {h : Heap} (hw : h.WF q) {o : Obj} (ho : Reach h (h.roots q) o) :
    h.isLive o = true := by
  induction ho with
  | root h1 => exact hw.roots _ h1
  | step _ h2 _ =>
    obtain ⟨e, he, _, h4⟩ := mem_succ.1 h2
    exact h4 ▸ hw.val e he

/-- **fuel adequacy**: in a well-formed heap the worklist with fuel `live.length + 1` computes exactly `Reach` -/
theorem Heap.WF.reach_iff {q : Quirks} {h : Heap} (hw : h.WF q) (o : Obj) :
    o ∈ h.reach (h.live.length + 1) (h.roots q) ↔ Reach h (h.roots q) o := by
  refine ⟨reach_sound h _ _ o, reach_complete h (h.live.map (·.obj)) _ _ ?_ ?_ o⟩
  · intro x hx
    obtain ⟨y, hy, hxy⟩ := (isLive_iff' _ _).1 (hw.reach_live hx)
    exact List.mem_map.2 ⟨y, hy, hxy⟩
  · have := List.length_filter_le (fun x => !(h.roots q).contains x) (h.live.map (·.obj))
    simp only [List.length_map] at this
    omega

theorem garbage_nil_iff (q : Quirks) (h : Heap) :
    h.garbage q = [] ↔ ∀ x ∈ h.live, x.obj ∈ h.reach (h.live.length + 1) (h.roots q) := by
  simp [Heap.garbage]

/-- in a well-formed heap "no garbage" is "every live instance is reachable from the roots" -/
theorem Heap.WF.garbage_nil_iff {q : Quirks} {h : Heap} (hw : h.WF q) : h.garbage q = [] ↔ h.Tight q := by
  rw [SG.garbage_nil_iff]
  constructor
  · intro hg x hx; exact (hw.reach_iff _).1 (hg x hx)
  · intro hg x hx; exact (hw.reach_iff _).2 (hg x hx)

theorem mem_garbage {q : Quirks} {h : Heap} (hw : h.WF q) (o : Obj) :
    o ∈ h.garbage q ↔ h.isLive o = true ∧ ¬ Reach h (h.roots q) o := by
  rw [← hw.reach_iff, isLive_iff']
  simp only [Heap.garbage, List.mem_map, List.mem_filter, Bool.not_eq_eq_eq_not, Bool.not_true,
    List.contains_eq_mem, decide_eq_false_iff_not]
  constructor
  · rintro ⟨x, ⟨h1, h2⟩, rfl⟩; exact ⟨⟨x, h1, rfl⟩, h2⟩
  · rintro ⟨⟨x, h1, rfl⟩, h2⟩; exact ⟨x, ⟨h1, h2⟩, rfl⟩

theorem kill_isLive' (h : Heap) (D : List Obj) (o : Obj) :
    (h.kill D).isLive o = true ↔ h.isLive o = true ∧ o ∉ D := by
  simp only [isLive_iff', Heap.kill, List.mem_filter, Bool.not_eq_eq_eq_not, Bool.not_true, List.contains_eq_mem,
    decide_eq_false_iff_not]
  constructor
  · rintro ⟨x, ⟨h1, h2⟩, rfl⟩; exact ⟨⟨x, h1, rfl⟩, h2⟩
  · rintro ⟨⟨x, h1, rfl⟩, h2⟩; exact ⟨x, ⟨h1, h2⟩, rfl⟩

/-- what is reachable stays reachable in the collected heap: the field contents of reachable owners survive -/
theorem Heap.WF.reach_collect {q : Quirks} {h : Heap} (hw : h.WF q) {o : Obj} (ho : Reach h (h.roots q) o) :
    Reach (h.collect q) ((h.collect q).roots q) o := by
  induction ho with
  | root h1 => exact .root h1
  | @step o1 o2 h1 h2 ih =>
    obtain ⟨e, he, h3, h4⟩ := mem_succ.1 h2
    refine .step ih (mem_succ.2 ⟨e, ?_, h3, h4⟩)
    show e ∈ (h.kill (h.garbage q)).fields
    simp only [Heap.kill, List.mem_filter, Bool.not_eq_eq_eq_not, Bool.not_true, List.contains_eq_mem,
      decide_eq_false_iff_not]
    refine ⟨he, ?_⟩
    rw [mem_garbage hw, h3]
    exact fun hc => hc.2 h1

theorem collect_isLive_iff {q : Quirks} {h : Heap} (hw : h.WF q) (o : Obj) :
    (h.collect q).isLive o = true ↔ h.isLive o = true ∧ Reach h (h.roots q) o := by
  unfold Heap.collect
  rw [kill_isLive', mem_garbage hw]
  constructor
  · rintro ⟨h1, h2⟩; exact ⟨h1, Classical.byContradiction fun hc => h2 ⟨h1, hc⟩⟩
  · rintro ⟨h1, h2⟩; exact ⟨h1, fun hc => hc.2 h2⟩

/-- `gc.collect()` keeps a well-formed heap well-formed … -/
theorem Heap.WF.collect {q : Quirks} {h : Heap} (hw : h.WF q) : (h.collect q).WF q := by
  constructor
  · intro o ho
    have ho' : o ∈ h.roots q := ho
    exact (collect_isLive_iff hw o).2 ⟨hw.roots o ho', .root ho'⟩
  · intro e he
    have he' : e ∈ (h.kill (h.garbage q)).fields := he
    simp only [Heap.kill, List.mem_filter, Bool.not_eq_eq_eq_not, Bool.not_true, List.contains_eq_mem,
      decide_eq_false_iff_not] at he'
    rw [collect_isLive_iff hw]
    refine ⟨hw.owner e he'.1, Classical.byContradiction fun hc => he'.2 ((mem_garbage hw _).2 ⟨hw.owner e he'.1, hc⟩)⟩
  · intro e he
    have he' : e ∈ (h.kill (h.garbage q)).fields := he
    simp only [Heap.kill, List.mem_filter, Bool.not_eq_eq_eq_not, Bool.not_true, List.contains_eq_mem,
      decide_eq_false_iff_not] at he'
    rw [collect_isLive_iff hw]
    have hown : Reach h (h.roots q) e.owner :=
      Classical.byContradiction fun hc => he'.2 ((mem_garbage hw _).2 ⟨hw.owner e he'.1, hc⟩)
    exact ⟨hw.val e he'.1, .step hown (mem_succ.2 ⟨e, he'.1, rfl, rfl⟩)⟩
  · exact hw.qheld

/-- … and leaves no garbage -/
theorem Heap.WF.collect_tight {q : Quirks} {h : Heap} (hw : h.WF q) : (h.collect q).Tight q := by
  intro x hx
  have hl : (h.collect q).isLive x.obj = true := (isLive_iff' _ _).2 ⟨x, hx, rfl⟩
  exact hw.reach_collect ((collect_isLive_iff hw _).1 hl).2

/-- **`Heap.collect` is idempotent**: after a collection nothing is garbage -/
theorem collect_garbage_nil {q : Quirks} {h : Heap} (hw : h.WF q) : (h.collect q).garbage q = [] :=
  hw.collect.garbage_nil_iff.2 hw.collect_tight

theorem Heap.Tight.live_nil {q : Quirks} {h : Heap} (ht : h.Tight q) (hr : h.roots q = []) : h.live = [] := by
  cases hl : h.live with
  | nil => rfl
  | cons x l =>
    have := ht x (hl ▸ List.mem_cons_self)
    rw [hr] at this
    exact this.nil.elim

/-- monotonicity: a heap that keeps the live instances, in which the old roots are still reachable, the old field
contents are still there and every new live instance is reachable, has no garbage either (a new root, a new field edge, a
new held instance) -/
theorem Heap.Tight.of {q : Quirks} {h h' : Heap} (ht : h.Tight q) (hr : ∀ o ∈ h.roots q, Reach h' (h'.roots q) o)
    (hf : ∀ e ∈ h.fields, e ∈ h'.fields) (hl : ∀ x ∈ h'.live, x ∈ h.live ∨ Reach h' (h'.roots q) x.obj) :
    h'.Tight q := by
  intro x hx
  rcases hl x hx with h1 | h1
  · exact Reach.mono hr hf (ht x h1)
  · exact h1

theorem isLive_mono' {h h' : Heap} (hsub : ∀ x ∈ h.live, x ∈ h'.live) {o : Obj} (ho : h.isLive o = true) :
    h'.isLive o = true := by
  rw [isLive_iff'] at ho ⊢
  obtain ⟨x, hx, rfl⟩ := ho
  exact ⟨x, hsub x hx, rfl⟩

/-- well-formedness is kept when live instances stay, the roots are live and new field contents join live instances -/
theorem Heap.WF.of {q : Quirks} {h h' : Heap} (hw : h.WF q) (hl : ∀ x ∈ h.live, x ∈ h'.live)
    (hr : ∀ o ∈ h'.roots q, o ∈ h.roots q ∨ h'.isLive o = true)
    (hf : ∀ e ∈ h'.fields, e ∈ h.fields ∨ (h'.isLive e.owner = true ∧ h'.isLive e.val = true))
    (hq : ∀ v ∈ h'.qvars, (v.held || q.exprTableLeak) = true) : h'.WF q := by
  constructor
  · intro o ho
    rcases hr o ho with h1 | h1
    · exact isLive_mono' hl (hw.roots o h1)
    · exact h1
  · intro e he
    rcases hf e he with h1 | h1
    · exact isLive_mono' hl (hw.owner e h1)
    · exact h1.1
  · intro e he
    rcases hf e he with h1 | h1
    · exact isLive_mono' hl (hw.val e h1)
    · exact h1.2
  · exact hq

end KrroodVerif.SG
