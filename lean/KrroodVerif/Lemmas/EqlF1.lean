import KrroodVerif.Lemmas.EqlCount
import KrroodVerif.Model.EqlFindings
/-!
Soundness and completeness (as sets of rows) on the larger fragment **F1**: conditions built from atoms with
`and_`, `or_` between conditions over the same variables and **arbitrarily nested** `not_`; selections of
attribute/index chains over variables, including variables that do not occur in the condition, provided no
variable feeds two selected expressions (the negation of the trigger of F-C01-2). Core Lean only.
-/
namespace KrroodVerif.Eql

/-! ## 13. Fragment F1 -/

/-- the leaf of the term is a variable (no literal node) -/
def Term.noLit : Term → Bool
  | .var _ => true
  | .lit _ _ => false
  | .attr t _ => t.noLit
  | .index t _ => t.noLit
  | .flatten t => t.noLit

/-- surface fragment F1: `F2` with `not_` allowed on arbitrary sub-conditions -/
def SExpr.F1 : SExpr → Bool
  | .cmp _ l r => l.noFlat && r.noFlat
  | .contains c i => c.noFlat && i.noFlat
  | .hasType t _ => t.noFlat
  | .truth t => t.isChain
  | .and l r => l.F1 && r.F1
  | .or l r => l.F1 && r.F1 && sameSet l.freeVars r.freeVars
  | .not e => e.F1
  | .exists_ _ _ => false
  | .forAll _ _ => false

/-- the selected expressions are `flatten`-free chains over variables -/
def selF1 (sel : List Term) : Bool := sel.all fun s => s.noFlat && s.noLit

theorem SExpr.F2_F1 {s : SExpr} (h : s.F2 = true) : s.F1 = true := by
  induction s with
  | and l r ihl ihr => simp only [SExpr.F2, Bool.and_eq_true] at h; simp [SExpr.F1, ihl h.1, ihr h.2]
  | or l r ihl ihr =>
    simp only [SExpr.F2, Bool.and_eq_true] at h; simp [SExpr.F1, ihl h.1.1, ihr h.1.2, h.2]
  | not e _ => simp only [SExpr.F2] at h; cases e <;> simp_all [SExpr.isAtom, SExpr.F1]
  | _ => simp_all [SExpr.F2, SExpr.F1]

theorem invert_Fc {e : Expr} (h : e.Fc = true) : invert e = .not e := by
  cases e <;> simp_all [Expr.Fc, invert]

theorem build_F1 {s : SExpr} (h : s.F1 = true) : (build s).Fc = true ∧ (build s).vars = s.freeVars := by
  induction s with
  | and l r ihl ihr =>
    simp only [SExpr.F1, Bool.and_eq_true] at h
    simp [build, Expr.Fc, Expr.vars, SExpr.freeVars, ihl h.1, ihr h.2]
  | or l r ihl ihr =>
    simp only [SExpr.F1, Bool.and_eq_true] at h
    have hv : sameSet (build l).vars (build r).vars = true := by
      rw [(ihl h.1.1).2, (ihr h.1.2).2]; exact h.2
    simp only [build, mkOr, hv, if_true]
    simp [Expr.Fc, Expr.vars, SExpr.freeVars, ihl h.1.1, ihr h.1.2]
  | not e ih =>
    simp only [SExpr.F1] at h
    simp only [build, invert_Fc (ih h).1, Expr.Fc, Expr.vars, SExpr.freeVars]
    exact ih h
  | _ => simp_all [SExpr.F1, build, Expr.Fc, Expr.vars, SExpr.freeVars]

theorem hasDup_false_iff {xs : List VarId} : hasDup xs = false ↔ xs.Nodup := by
  induction xs with
  | nil => simp [hasDup]
  | cons x r ih => simp [hasDup, ih]

theorem Term.nodes_noLit {t : Term} (h : t.noLit = true) {k : Key} (hk : k ∈ t.nodes) :
    ∃ u, k = .var u ∧ u ∈ t.vars := by
  induction t with
  | var v => simp only [Term.nodes, List.mem_singleton] at hk; exact ⟨v, hk, by simp [Term.vars]⟩
  | lit i x => simp [Term.noLit] at h
  | attr t n ih => exact ih h hk
  | index t i ih => exact ih h hk
  | flatten t ih => exact ih h hk

/-! ## 14. The selection -/

theorem mem_product_nil {α} {r : List α} : r ∈ product ([] : List (List α)) ↔ r = [] := by
  simp [product]

theorem mem_product_cons {α} {l : List α} {ls : List (List α)} {r : List α} :
    r ∈ product (l :: ls) ↔ ∃ x r', r = x :: r' ∧ x ∈ l ∧ r' ∈ product ls := by
  simp only [product, List.mem_flatMap, List.mem_map]
  constructor
  · rintro ⟨x, hx, r', hr', rfl⟩; exact ⟨x, r', rfl, hx, hr'⟩
  · rintro ⟨x, r', rfl, hx, hr'⟩; exact ⟨x, hx, r', hr', rfl⟩

/-- the values the descriptor computes for one selected expression from the bindings of a row -/
def selVals (w : World) (env : Env) (s : Term) : Except Err (List Val) := do
  let rs ← evalTerm w false s env
  pure (rs.map fun r => r.2.1)

theorem agreesB_sub {τ : Asg} {a b c : Env} (h : agreesB τ (a ++ (b ++ c)) = true) :
    agreesB τ (a ++ c) = true ∧ agreesB τ (b ++ c) = true := by
  simp only [agreesB_append, Bool.and_eq_true] at h ⊢
  exact ⟨⟨h.1, h.2.2⟩, h.2⟩

theorem litFresh_noLit {t : Term} (h : t.noLit = true) (env : Env) : LitFresh t.nodes env := by
  intro i hi
  obtain ⟨u, hu, _⟩ := Term.nodes_noLit h hi
  cases hu

/-- **selection, soundness**: if no variable feeds two selected expressions, every row of the product comes from
one consistent extension of the cell's bindings -/
theorem select_sound (w : World) : ∀ (sel : List Term) (env : Env) (per : List (List Val)) (r : List Val),
    (∀ s ∈ sel, s.noFlat = true ∧ s.noLit = true) → (sel.flatMap Term.vars).Nodup → (keys env).Nodup →
    sel.mapM (selVals w env) = .ok per → r ∈ product per →
    ∃ pre : Env, (keys (pre ++ env)).Nodup ∧
      (∀ p ∈ pre, ∃ u, p.1 = .var u ∧ u ∈ sel.flatMap Term.vars ∧ p.2 ∈ w.dom u) ∧
      ∀ τ, agreesB τ (pre ++ env) = true → Covers w τ (sel.flatMap Term.vars) →
        ∀ ys, sel.mapM (tval w τ) = .ok ys → ys = r := by
  intro sel
  induction sel with
  | nil =>
    intro env per r _ _ hk hper hr
    rw [List.mapM_nil] at hper
    rw [← pure_ok hper, mem_product_nil] at hr
    subst hr
    refine ⟨[], hk, by simp, ?_⟩
    intro τ _ _ ys hys
    rw [List.mapM_nil] at hys
    exact (pure_ok hys).symm
  | cons s rest ih =>
    intro env per r hsel hnd hk hper hr
    rw [List.mapM_cons] at hper
    obtain ⟨vs, hvs, hper⟩ := bind_ok hper
    obtain ⟨per', hper', hper⟩ := bind_ok hper
    rw [← pure_ok hper, mem_product_cons] at hr
    obtain ⟨x, r', rfl, hx, hr'⟩ := hr
    obtain ⟨rs, hrs, hvs⟩ := bind_ok hvs
    rw [← pure_ok hvs, List.mem_map] at hx
    obtain ⟨p, hp, rfl⟩ := hx
    rw [List.flatMap_cons, List.nodup_append] at hnd
    obtain ⟨hs1, hs2⟩ := hsel s (List.mem_cons_self)
    obtain ⟨pre', hk', hpre', hτ'⟩ :=
      ih env per' r' (fun t ht => hsel t (List.mem_cons_of_mem _ ht)) hnd.2.1 hk hper' hr'
    obtain ⟨pre, hpe, hpre, hkp⟩ := evalTerm_ext w s false env rs hrs p hp
    have hprev : ∀ q ∈ pre, ∃ u, q.1 = Key.var u ∧ u ∈ s.vars ∧ q.2 ∈ w.dom u := by
      intro q hq
      obtain ⟨u, hu, hus⟩ := Term.nodes_noLit hs2 (hpre q hq).1
      exact ⟨u, hu, hus, (hpre q hq).2 u hu⟩
    refine ⟨pre ++ pre', ?_, ?_, ?_⟩
    · have h1 : (keys (pre ++ env)).Nodup := hpe ▸ hkp hk
      simp only [keys, List.map_append, List.nodup_append, List.mem_map, List.mem_append] at h1 hk' ⊢
      refine ⟨⟨h1.1, hk'.1, ?_⟩, h1.2.1, ?_⟩
      · rintro a ⟨q, hq, rfl⟩ b ⟨q', hq', rfl⟩ heq
        obtain ⟨u, hu, hus, _⟩ := hprev q hq
        obtain ⟨u', hu', hus', _⟩ := hpre' q' hq'
        rw [hu, hu'] at heq
        cases heq
        exact hnd.2.2 u hus u hus' rfl
      · rintro a (⟨q, hq, rfl⟩ | ⟨q, hq, rfl⟩) b hb heq
        · exact h1.2.2 _ ⟨q, hq, rfl⟩ b hb heq
        · exact hk'.2.2 _ ⟨q, hq, rfl⟩ b hb heq
    · intro q hq
      rcases List.mem_append.mp hq with hq | hq
      · obtain ⟨u, hu, hus, hd⟩ := hprev q hq
        exact ⟨u, hu, List.mem_append_left _ hus, hd⟩
      · obtain ⟨u, hu, hus, hd⟩ := hpre' q hq
        exact ⟨u, hu, List.mem_append_right _ hus, hd⟩
    · intro τ hag hcov ys hys
      rw [List.append_assoc] at hag
      obtain ⟨hag1, hag2⟩ := agreesB_sub hag
      rw [List.mapM_cons] at hys
      obtain ⟨y, hy, hys⟩ := bind_ok hys
      obtain ⟨ys', hys', hys⟩ := bind_ok hys
      rw [← pure_ok hys]
      have hcs : Covers w τ s.vars := fun v hv => hcov v (List.mem_append_left _ hv)
      have hcr : Covers w τ (rest.flatMap Term.vars) := fun v hv => hcov v (List.mem_append_right _ hv)
      have hagenv : agreesB τ env = true := by
        rw [agreesB_append, Bool.and_eq_true] at hag1; exact hag1.2
      have hc := evalTerm_cover w τ s false env rs y hs1 hcs (litFresh_noLit hs2 env) hagenv hrs hy
      have hpc : p ∈ cells τ rs := List.mem_filter.mpr ⟨hp, by rw [hpe]; exact hag1⟩
      have : p.2.1 ∈ (cells τ rs).map (·.2.1) := List.mem_map.mpr ⟨p, hpc, rfl⟩
      rw [hc, List.mem_singleton] at this
      rw [this, hτ' τ hag2 hcr ys' hys']

/-- **selection, completeness**: the projection of any assignment compatible with the cell is among the rows of
the product -/
theorem select_complete (w : World) (τ : Asg) : ∀ (sel : List Term) (env : Env) (per : List (List Val))
    (ys : List Val), (∀ s ∈ sel, s.noFlat = true ∧ s.noLit = true) → agreesB τ env = true →
    Covers w τ (sel.flatMap Term.vars) → sel.mapM (selVals w env) = .ok per →
    sel.mapM (tval w τ) = .ok ys → ys ∈ product per := by
  intro sel
  induction sel with
  | nil =>
    intro env per ys _ _ _ hper hys
    rw [List.mapM_nil] at hper hys
    rw [← pure_ok hper, ← pure_ok hys, mem_product_nil]
  | cons s rest ih =>
    intro env per ys hsel hag hcov hper hys
    rw [List.mapM_cons] at hper hys
    obtain ⟨vs, hvs, hper⟩ := bind_ok hper
    obtain ⟨per', hper', hper⟩ := bind_ok hper
    obtain ⟨y, hy, hys⟩ := bind_ok hys
    obtain ⟨ys', hys', hys⟩ := bind_ok hys
    obtain ⟨rs, hrs, hvs⟩ := bind_ok hvs
    obtain ⟨hs1, hs2⟩ := hsel s (List.mem_cons_self)
    have hcs : Covers w τ s.vars := fun v hv => hcov v (List.mem_append_left _ hv)
    have hcr : Covers w τ (rest.flatMap Term.vars) := fun v hv => hcov v (List.mem_append_right _ hv)
    obtain ⟨a, _, hav, ham, _⟩ :=
      cells_single (evalTerm_cover w τ s false env rs y hs1 hcs (litFresh_noLit hs2 env) hag hrs hy)
    rw [← pure_ok hper, ← pure_ok hys, mem_product_cons]
    refine ⟨y, ys', rfl, ?_, ih env per' ys' (fun t ht => hsel t (List.mem_cons_of_mem _ ht)) hag hcr hper' hys'⟩
    rw [← pure_ok hvs]
    exact List.mem_map.mpr ⟨a, ham, hav⟩

/-! ## 15. Soundness and completeness on F1 -/

theorem assignments_lookup {w : World} {vs : List VarId} (hn : vs.Nodup) {σ : Asg}
    (hσ : σ ∈ assignments w vs) {v : VarId} (hv : v ∈ vs) : ∃ x, σ.lookup v = some x ∧ x ∈ w.dom v := by
  obtain ⟨hm1, hm2⟩ := mem_assignments.mp hσ
  have heq := asg_eq_map hm1 hn
  refine ⟨(σ.lookup v).getD .none, ?_, ?_⟩
  · conv => lhs; rw [heq]
    rw [lookup_map_self]; simp [hv]
  · have hmem : (v, (σ.lookup v).getD .none) ∈ vs.map (fun v => (v, (σ.lookup v).getD .none)) :=
      List.mem_map.mpr ⟨v, hv, rfl⟩
    rw [← heq] at hmem
    exact hm2 _ hmem

theorem headD_mem {α} {l : List α} (h : l ≠ []) (d : α) : l.headD d ∈ l := by
  cases l with
  | nil => exact absurd rfl h
  | cons a t => simp

/-- **soundness and completeness on F1** (as sets of rows) -/
theorem sound_complete_F1 (w : World) (sel : List Term) (c : SExpr)
    (hF : c.F1 = true) (hsel : selF1 sel = true) (hms : (sel.flatMap Term.vars).Nodup)
    (hnd : ∀ v, (w.dom v).Nodup)
    (hne : ∀ v ∈ SQuery.vars { sel := sel, cond := some c }, w.dom v ≠ [])
    (hlit : LitNodup (build c))
    {rows rows' : List (List Val)}
    (h1 : evalQuery w { sel := sel, cond := some (build c) } = .ok rows)
    (h2 : solutions w { sel := sel, cond := some c } = .ok rows') :
    ∀ r, r ∈ rows ↔ r ∈ rows' := by
  obtain ⟨heF, hev⟩ := build_F1 hF
  have hselp : ∀ s ∈ sel, s.noFlat = true ∧ s.noLit = true := by
    intro s hs
    have := List.all_eq_true.mp hsel s hs
    simpa using this
  obtain ⟨vs, hvs⟩ : ∃ vs, vs = SQuery.vars { sel := sel, cond := some c } := ⟨_, rfl⟩
  rw [← hvs] at hne
  have hvsn : vs.Nodup := by rw [hvs]; exact dedupNat_nodup _
  have hvsm : ∀ v, v ∈ vs ↔ v ∈ sel.flatMap Term.vars ∨ v ∈ (build c).vars := by
    intro v; rw [hvs, SQuery.vars, mem_dedupNat, hev, List.mem_append]
  -- the evaluation side
  unfold evalQuery at h1
  obtain ⟨rs, hrs, h1⟩ := bind_ok h1
  obtain ⟨T, hT, h1⟩ := bind_ok h1
  have hT := (pure_ok hT).symm
  obtain ⟨gF, hgF, rfl⟩ := flatMapM_ok h1
  have hgF' : ∀ env ∈ T, ∃ per, sel.mapM (selVals w env) = .ok per ∧ gF env = product per := by
    intro env henv
    obtain ⟨per, hper, hp⟩ := bind_ok (hgF env henv)
    exact ⟨per, hper, (pure_ok hp).symm⟩
  have hTfacts : ∀ p ∈ rs, (keys p.1).Nodup ∧ ∀ v x, (Key.var v, x) ∈ p.1 → v ∈ vs ∧ x ∈ w.dom v := by
    intro p hp
    obtain ⟨pre, hpre, hprop, hnod⟩ := eval_ext w (build c) heF [] rs hrs p hp
    refine ⟨hnod List.nodup_nil, ?_⟩
    intro v x hm
    rw [hpre, List.append_nil] at hm
    exact ⟨(hvsm v).mpr (Or.inr (Expr.mem_nodes_var.mp (hprop _ hm).1)), (hprop _ hm).2 v rfl⟩
  -- the specification side
  unfold solutions at h2
  obtain ⟨sols, hsols, h2⟩ := bind_ok h2
  rw [← hvs] at hsols
  obtain ⟨pred, hpred, hsolsEq⟩ := filterM_ok hsols
  obtain ⟨g', hg', rfl⟩ := mapM_ok h2
  have hcovers : ∀ σ ∈ assignments w vs, ∀ us : List VarId, (∀ u ∈ us, u ∈ vs) → Covers w σ us := by
    intro σ hσ us hus v hv
    obtain ⟨x, hx, hxd⟩ := assignments_lookup hvsn hσ (hus v hv)
    exact ⟨x, hx, by rw [(hnd v).count]; simp [hxd]⟩
  have hcover : ∀ σ ∈ assignments w vs,
      ((rs.filter fun p => agreesB σ p.1).map (·.2)) = [pred σ] := by
    intro σ hσ
    have hsat : satE w (build c) σ = .ok (pred σ) := by rw [← satE_build]; exact hpred σ hσ
    exact cover w σ (build c) heF (hcovers σ hσ _ (fun u hu => (hvsm u).mpr (Or.inr hu))) hlit [] rs (pred σ)
      (fun _ _ => rfl) (agreesB_nil σ) hrs hsat
  intro r
  constructor
  · -- soundness
    intro hr
    obtain ⟨env, henv, hr⟩ := List.mem_flatMap.mp hr
    obtain ⟨per, hper, hgp⟩ := hgF' env henv
    rw [hgp] at hr
    rw [hT] at henv
    simp only [List.mem_map, List.mem_filter] at henv
    obtain ⟨p, ⟨hp, hpt⟩, rfl⟩ := henv
    obtain ⟨hk, hvar⟩ := hTfacts p hp
    obtain ⟨pre, hkk, hpre, hτ⟩ := select_sound w sel p.1 per r hselp hms hk hper hr
    -- the assignment read off the extended cell; unconstrained variables take the head of their domain
    let σ : Asg := vs.map fun v => (v, ((pre ++ p.1).lookup (.var v)).getD ((w.dom v).headD .none))
    have hall : ∀ v x, (Key.var v, x) ∈ pre ++ p.1 → v ∈ vs ∧ x ∈ w.dom v := by
      intro v x hm
      rcases List.mem_append.mp hm with hm | hm
      · obtain ⟨u, hu, hus, hd⟩ := hpre _ hm
        cases hu
        exact ⟨(hvsm v).mpr (Or.inl hus), hd⟩
      · exact hvar v x hm
    have hσ : σ ∈ assignments w vs := by
      rw [mem_assignments]
      refine ⟨by simp [σ, List.map_map, Function.comp_def], ?_⟩
      intro q hq
      simp only [σ, List.mem_map] at hq
      obtain ⟨v, hv, rfl⟩ := hq
      cases hl : (pre ++ p.1).lookup (.var v) with
      | none => simp only [Option.getD_none]; exact headD_mem (hne v hv) _
      | some x => exact (hall v x (lookup_mem' hl)).2
    have hag : agreesB σ (pre ++ p.1) = true := by
      rw [agreesB_iff]
      intro v x hm
      simp only [σ]
      rw [lookup_map_self, if_pos (hall v x hm).1, lookup_of_mem_nodup hkk hm]
      rfl
    have hagp : agreesB σ p.1 = true := by
      rw [agreesB_append, Bool.and_eq_true] at hag; exact hag.2
    have hpredσ : pred σ = true := by
      have hc := hcover σ hσ
      have : p.2 ∈ (rs.filter fun p => agreesB σ p.1).map (·.2) :=
        List.mem_map.mpr ⟨p, List.mem_filter.mpr ⟨hp, hagp⟩, rfl⟩
      rw [hc, List.mem_singleton] at this
      rw [← this]; exact hpt
    have hσs : σ ∈ sols := by rw [hsolsEq]; exact List.mem_filter.mpr ⟨hσ, hpredσ⟩
    have := hτ σ hag (hcovers σ hσ _ (fun u hu => (hvsm u).mpr (Or.inl hu))) (g' σ) (hg' σ hσs)
    rw [← this]
    exact List.mem_map.mpr ⟨σ, hσs, rfl⟩
  · -- completeness
    intro hr
    obtain ⟨σ, hσs, rfl⟩ := List.mem_map.mp hr
    have hσs' := hσs
    rw [hsolsEq] at hσs'
    obtain ⟨hσ, hpredσ⟩ := List.mem_filter.mp hσs'
    obtain ⟨a, _, hav, ham, haa⟩ := cells_single (hcover σ hσ)
    have haT : a.1 ∈ T := by
      rw [hT]
      exact List.mem_map.mpr ⟨a, List.mem_filter.mpr ⟨ham, by rw [hav]; exact hpredσ⟩, rfl⟩
    obtain ⟨per, hper, hgp⟩ := hgF' a.1 haT
    refine List.mem_flatMap.mpr ⟨a.1, haT, ?_⟩
    rw [hgp]
    exact select_complete w σ sel a.1 per (g' σ) hselp haa
      (hcovers σ hσ _ (fun u hu => (hvsm u).mpr (Or.inl hu))) hper (hg' σ hσs)

end KrroodVerif.Eql
