import KrroodVerif.Lemmas.EqlF1
/-!
Soundness and completeness of the **true cells** of `Union` (`or_` between conditions over *different* variable
sets) in positive positions, and the query-level set equality on the positive fragment **Fp**. Core Lean only.

A `Union`'s result stream is not a decision partition (the same assignment may lie in several true cells and the
false cells are unreliable: F-C01-1), so the `cover` theorem does not extend to it. What does hold — and is all a
positive position reads — is: a true cell compatible with `τ` implies that `τ` satisfies the condition
(`true_sound`), and a satisfying `τ` lies in some true cell (`true_complete`).
-/
namespace KrroodVerif.Eql

/-! ## 16. The positive fragment -/

/-- **positive fragment**: atoms as in `Fc`; `and` / `elseIf` / `union` over `Fp`; `not` only over the cover
fragment `Fc` (so no `Union` below a `Not`: the negation of the trigger of F-C01-1); no quantifiers -/
def Expr.Fp : Expr → Bool
  | .cmp _ l r => l.noFlat && r.noFlat
  | .contains c i => c.noFlat && i.noFlat
  | .hasType t _ => t.noFlat
  | .truth t => t.isChain
  | .and l r => l.Fp && r.Fp
  | .elseIf l r => l.Fp && r.Fp
  | .union l r => l.Fp && r.Fp
  | .not e => e.Fc
  | .exists_ _ _ => false
  | .forAll _ _ => false

/-- surface version of `Fp`: and / or / not over atoms; `or_` between **arbitrary** variable sets (built as
`ElseIf` or as `Union`); `not_` only on `F1` sub-conditions (no `or_` over different variable sets below it) -/
def SExpr.Fp1 : SExpr → Bool
  | .cmp _ l r => l.noFlat && r.noFlat
  | .contains c i => c.noFlat && i.noFlat
  | .hasType t _ => t.noFlat
  | .truth t => t.isChain
  | .and l r => l.Fp1 && r.Fp1
  | .or l r => l.Fp1 && r.Fp1
  | .not e => e.F1
  | .exists_ _ _ => false
  | .forAll _ _ => false

theorem Expr.Fc_Fp {e : Expr} (h : e.Fc = true) : e.Fp = true := by
  induction e with
  | and l r ihl ihr => simp only [Expr.Fc, Bool.and_eq_true] at h; simp [Expr.Fp, ihl h.1, ihr h.2]
  | elseIf l r ihl ihr => simp only [Expr.Fc, Bool.and_eq_true] at h; simp [Expr.Fp, ihl h.1, ihr h.2]
  | not e _ => simpa [Expr.Fc, Expr.Fp] using h
  | _ => simp_all [Expr.Fc, Expr.Fp]

/-- the positive fragment has no `Union` below a `Not` (F-C01-1 cannot trigger) -/
theorem Expr.Fc_noUnion {e : Expr} (h : e.Fc = true) : e.hasUnion = false ∧ e.unionUnderNot = false := by
  induction e with
  | and l r ihl ihr =>
    simp only [Expr.Fc, Bool.and_eq_true] at h
    simp [Expr.hasUnion, Expr.unionUnderNot, ihl h.1, ihr h.2]
  | elseIf l r ihl ihr =>
    simp only [Expr.Fc, Bool.and_eq_true] at h
    simp [Expr.hasUnion, Expr.unionUnderNot, ihl h.1, ihr h.2]
  | not e ih => simp only [Expr.Fc] at h; simp [Expr.hasUnion, Expr.unionUnderNot, ih h]
  | _ => simp_all [Expr.Fc, Expr.hasUnion, Expr.unionUnderNot]

theorem Expr.Fp_noUnionUnderNot {e : Expr} (h : e.Fp = true) : e.unionUnderNot = false := by
  induction e with
  | and l r ihl ihr =>
    simp only [Expr.Fp, Bool.and_eq_true] at h; simp [Expr.unionUnderNot, ihl h.1, ihr h.2]
  | union l r ihl ihr =>
    simp only [Expr.Fp, Bool.and_eq_true] at h; simp [Expr.unionUnderNot, ihl h.1, ihr h.2]
  | elseIf l r ihl ihr =>
    simp only [Expr.Fp, Bool.and_eq_true] at h; simp [Expr.unionUnderNot, ihl h.1, ihr h.2]
  | not e _ =>
    simp only [Expr.Fp] at h
    simp [Expr.unionUnderNot, (Expr.Fc_noUnion h).1, (Expr.Fc_noUnion h).2]
  | _ => simp_all [Expr.Fp, Expr.unionUnderNot]

/-- every atom is `flatten`-free and every `truth` atom is a chain (quantifiers are looked through) -/
def Expr.atomsOK : Expr → Bool
  | .cmp _ l r => l.noFlat && r.noFlat
  | .contains c i => c.noFlat && i.noFlat
  | .hasType t _ => t.noFlat
  | .truth t => t.isChain
  | .and l r | .elseIf l r | .union l r => l.atomsOK && r.atomsOK
  | .not e | .exists_ _ e | .forAll _ e => e.atomsOK

theorem Expr.unionUnderNot_hasUnion {e : Expr} (h : e.hasUnion = false) : e.unionUnderNot = false := by
  induction e with
  | and l r ihl ihr => simp only [Expr.hasUnion, Bool.or_eq_false_iff] at h; simp [Expr.unionUnderNot, ihl h.1, ihr h.2]
  | elseIf l r ihl ihr =>
    simp only [Expr.hasUnion, Bool.or_eq_false_iff] at h; simp [Expr.unionUnderNot, ihl h.1, ihr h.2]
  | union l r _ _ => simp [Expr.hasUnion] at h
  | not e ih => simp only [Expr.hasUnion] at h; simp [Expr.unionUnderNot, ih h, h]
  | exists_ v e ih => simp only [Expr.hasUnion] at h; simp [Expr.unionUnderNot, ih h]
  | forAll v e ih => simp only [Expr.hasUnion] at h; simp [Expr.unionUnderNot, ih h, h]
  | _ => rfl

/-- the cover fragment = well-formed atoms, no quantifier, no `Union` -/
theorem Expr.Fc_eq (e : Expr) : e.Fc = (e.atomsOK && !e.hasQuant && !e.hasUnion) := by
  induction e with
  | and l r ihl ihr =>
    simp only [Expr.Fc, Expr.atomsOK, Expr.hasQuant, Expr.hasUnion, ihl, ihr]
    cases l.atomsOK <;> cases r.atomsOK <;> cases l.hasQuant <;> cases r.hasQuant <;>
      cases l.hasUnion <;> cases r.hasUnion <;> rfl
  | elseIf l r ihl ihr =>
    simp only [Expr.Fc, Expr.atomsOK, Expr.hasQuant, Expr.hasUnion, ihl, ihr]
    cases l.atomsOK <;> cases r.atomsOK <;> cases l.hasQuant <;> cases r.hasQuant <;>
      cases l.hasUnion <;> cases r.hasUnion <;> rfl
  | not e ih => simp only [Expr.Fc, Expr.atomsOK, Expr.hasQuant, Expr.hasUnion, ih]
  | union l r _ _ => simp [Expr.Fc, Expr.hasUnion]
  | exists_ v e _ => simp [Expr.Fc, Expr.hasQuant]
  | forAll v e _ => simp [Expr.Fc, Expr.hasQuant]
  | _ => simp [Expr.Fc, Expr.atomsOK, Expr.hasQuant, Expr.hasUnion]

/-- **the positive fragment is exactly the complement of the trigger of F-C01-1** among the quantifier-free
conditions with well-formed atoms: `Fp` = well-formed atoms, no quantifier, no `Union` below a `Not` -/
theorem Expr.Fp_eq (e : Expr) : e.Fp = (e.atomsOK && !e.hasQuant && !e.unionUnderNot) := by
  induction e with
  | and l r ihl ihr =>
    simp only [Expr.Fp, Expr.atomsOK, Expr.hasQuant, Expr.unionUnderNot, ihl, ihr]
    cases l.atomsOK <;> cases r.atomsOK <;> cases l.hasQuant <;> cases r.hasQuant <;>
      cases l.unionUnderNot <;> cases r.unionUnderNot <;> rfl
  | elseIf l r ihl ihr =>
    simp only [Expr.Fp, Expr.atomsOK, Expr.hasQuant, Expr.unionUnderNot, ihl, ihr]
    cases l.atomsOK <;> cases r.atomsOK <;> cases l.hasQuant <;> cases r.hasQuant <;>
      cases l.unionUnderNot <;> cases r.unionUnderNot <;> rfl
  | union l r ihl ihr =>
    simp only [Expr.Fp, Expr.atomsOK, Expr.hasQuant, Expr.unionUnderNot, ihl, ihr]
    cases l.atomsOK <;> cases r.atomsOK <;> cases l.hasQuant <;> cases r.hasQuant <;>
      cases l.unionUnderNot <;> cases r.unionUnderNot <;> rfl
  | not e _ =>
    simp only [Expr.Fp, Expr.atomsOK, Expr.hasQuant, Expr.unionUnderNot, Expr.Fc_eq]
    cases hu : e.hasUnion with
    | false => simp [Expr.unionUnderNot_hasUnion hu]
    | true => simp
  | exists_ v e _ => simp [Expr.Fp, Expr.hasQuant]
  | forAll v e _ => simp [Expr.Fp, Expr.hasQuant]
  | _ => simp [Expr.Fp, Expr.atomsOK, Expr.hasQuant, Expr.unionUnderNot]

theorem SExpr.F1_Fp1 {s : SExpr} (h : s.F1 = true) : s.Fp1 = true := by
  induction s with
  | and l r ihl ihr => simp only [SExpr.F1, Bool.and_eq_true] at h; simp [SExpr.Fp1, ihl h.1, ihr h.2]
  | or l r ihl ihr =>
    simp only [SExpr.F1, Bool.and_eq_true] at h
    simp [SExpr.Fp1, ihl h.1.1, ihr h.1.2]
  | not e _ => simpa [SExpr.F1, SExpr.Fp1] using h
  | _ => simp_all [SExpr.F1, SExpr.Fp1]

/-- **build_Fp**: the construction-time rewrites map the surface fragment into the positive fragment, and the
variables of the built expression are the free variables of the surface expression -/
theorem build_Fp {s : SExpr} (h : s.Fp1 = true) : (build s).Fp = true ∧ (build s).vars = s.freeVars := by
  induction s with
  | and l r ihl ihr =>
    simp only [SExpr.Fp1, Bool.and_eq_true] at h
    simp [build, Expr.Fp, Expr.vars, SExpr.freeVars, ihl h.1, ihr h.2]
  | or l r ihl ihr =>
    simp only [SExpr.Fp1, Bool.and_eq_true] at h
    simp only [build, mkOr, SExpr.freeVars]
    split <;> simp [Expr.Fp, Expr.vars, ihl h.1, ihr h.2]
  | not e _ =>
    simp only [SExpr.Fp1] at h
    obtain ⟨h1, h2⟩ := build_F1 h
    simp only [build, invert_Fc h1, Expr.Fp, Expr.vars, SExpr.freeVars]
    exact ⟨h1, h2⟩
  | _ => simp_all [SExpr.Fp1, build, Expr.Fp, Expr.vars, SExpr.freeVars]

/-! ## 17. Inversion and extension for `Union` -/

theorem eval_union_inv {w : World} {l r : Expr} {env : Env} {rs : List (Env × Bool)}
    (h : eval w (.union l r) env = .ok rs) :
    ∃ ls g rr, eval w l env = .ok ls ∧ eval w r env = .ok rr ∧ rs = ls.flatMap g ++ rr ∧
      ∀ a ∈ ls, (a.2 = true → g a = [(a.1, true)]) ∧ (a.2 = false → eval w r a.1 = .ok (g a)) := by
  simp only [eval] at h
  obtain ⟨ls, h0, h⟩ := bind_ok h
  obtain ⟨a, ha, h⟩ := bind_ok h
  obtain ⟨rr, hr, h⟩ := bind_ok h
  obtain ⟨g, hg, rfl⟩ := flatMapM_ok ha
  refine ⟨ls, g, rr, h0, hr, (pure_ok h).symm, ?_⟩
  intro a ha
  have := hg a ha
  constructor
  · intro h2; rw [h2] at this; exact (pure_ok this).symm
  · intro h2; rw [h2] at this; exact this

/-- `eval_ext` on the positive fragment: every result environment extends the input environment by bindings for
nodes of `e` only; new variable bindings come from the domains; keys stay duplicate-free -/
theorem eval_ext_Fp (w : World) (e : Expr) :
    e.Fp = true → ∀ env rs, eval w e env = .ok rs → ∀ p ∈ rs, Ext w e.nodes env p.1 := by
  induction e with
  | cmp op l r => intro hF; exact eval_ext w _ (by simpa [Expr.Fp, Expr.Fc] using hF)
  | contains c i => intro hF; exact eval_ext w _ (by simpa [Expr.Fp, Expr.Fc] using hF)
  | truth t => intro hF; exact eval_ext w _ (by simpa [Expr.Fp, Expr.Fc] using hF)
  | hasType t c => intro hF; exact eval_ext w _ (by simpa [Expr.Fp, Expr.Fc] using hF)
  | not e _ => intro hF; exact eval_ext w _ (by simpa [Expr.Fp, Expr.Fc] using hF)
  | elseIf l r ihl ihr =>
    intro hF env rs h p hp
    simp only [Expr.Fp, Bool.and_eq_true] at hF
    obtain ⟨ls, g, h0, rfl, hg⟩ := eval_elseIf_inv h
    simp only [List.mem_flatMap] at hp; obtain ⟨a, ha, hp⟩ := hp
    have hxa := ihl hF.1 env ls h0 a ha
    cases ha2 : a.2 with
    | false => exact hxa.trans (ihr hF.2 a.1 _ ((hg a ha).2 ha2) p hp)
    | true =>
      rw [(hg a ha).1 ha2, List.mem_singleton] at hp; subst hp
      exact hxa.mono (subset_append_left _ _)
  | and l r ihl ihr =>
    intro hF env rs h p hp
    simp only [Expr.Fp, Bool.and_eq_true] at hF
    obtain ⟨ls, g, h0, rfl, hg⟩ := eval_and_inv h
    simp only [List.mem_flatMap] at hp; obtain ⟨a, ha, hp⟩ := hp
    have hxa := ihl hF.1 env ls h0 a ha
    cases ha2 : a.2 with
    | true => exact hxa.trans (ihr hF.2 a.1 _ ((hg a ha).1 ha2) p hp)
    | false =>
      rw [(hg a ha).2 ha2, List.mem_singleton] at hp; subst hp
      exact hxa.mono (subset_append_left _ _)
  | union l r ihl ihr =>
    intro hF env rs h p hp
    simp only [Expr.Fp, Bool.and_eq_true] at hF
    obtain ⟨ls, g, rr, h0, hr, rfl, hg⟩ := eval_union_inv h
    rcases List.mem_append.mp hp with hp | hp
    · simp only [List.mem_flatMap] at hp; obtain ⟨a, ha, hp⟩ := hp
      have hxa := ihl hF.1 env ls h0 a ha
      cases ha2 : a.2 with
      | false => exact hxa.trans (ihr hF.2 a.1 _ ((hg a ha).2 ha2) p hp)
      | true =>
        rw [(hg a ha).1 ha2, List.mem_singleton] at hp; subst hp
        exact hxa.mono (subset_append_left _ _)
    · exact (ihr hF.2 env rr hr p hp).mono (subset_append_right _ _)
  | exists_ v e _ => intro hF; simp [Expr.Fp] at hF
  | forAll v e _ => intro hF; simp [Expr.Fp] at hF

/-! ## 18. True cells of the positive fragment: soundness and completeness -/

/-- the cover theorem read for one true cell: on `Fc`, a true cell compatible with `τ` means `e` holds under `τ` -/
theorem Fc_true_sound (w : World) (τ : Asg) (e : Expr)
    (hF : e.Fc = true) (hcov : Covers w τ e.vars) (hln : LitNodup e)
    {env : Env} {rs : List (Env × Bool)} {b : Bool} (hlf : LitFresh e.nodes env)
    (h : eval w e env = .ok rs) {p : Env × Bool} (hp : p ∈ rs) (hpt : p.2 = true)
    (hag : agreesB τ p.1 = true) (hs : satE w e τ = .ok b) : b = true := by
  have hage : agreesB τ env = true := (eval_ext w e hF env rs h p hp).agrees hag
  have hc := cover w τ e hF hcov hln env rs b hlf hage h hs
  have : p.2 ∈ (rs.filter fun p => agreesB τ p.1).map (·.2) :=
    List.mem_map.mpr ⟨p, List.mem_filter.mpr ⟨hp, hag⟩, rfl⟩
  rw [hc, List.mem_singleton] at this
  rw [← this]; exact hpt

/-- the cover theorem read for an assignment: on `Fc`, it lies in a cell flagged with its truth value -/
theorem Fc_cell_complete (w : World) (τ : Asg) (e : Expr)
    (hF : e.Fc = true) (hcov : Covers w τ e.vars) (hln : LitNodup e)
    {env : Env} {rs : List (Env × Bool)} {b : Bool} (hlf : LitFresh e.nodes env)
    (hag : agreesB τ env = true) (h : eval w e env = .ok rs) (hs : satE w e τ = .ok b) :
    ∃ p ∈ rs, p.2 = b ∧ agreesB τ p.1 = true := by
  obtain ⟨a, _, hav, ham, haa⟩ := cells_single (cover w τ e hF hcov hln env rs b hlf hag h hs)
  exact ⟨a, ham, hav, haa⟩

/-- **true cells are sound** on the positive fragment: a true result cell compatible with the total assignment
`τ` implies that `τ` satisfies `e` -/
theorem true_sound (w : World) (τ : Asg) (e : Expr) :
    e.Fp = true → Covers w τ e.vars → LitNodup e →
    ∀ env rs b, LitFresh e.nodes env → eval w e env = .ok rs →
      ∀ p ∈ rs, p.2 = true → agreesB τ p.1 = true → satE w e τ = .ok b → b = true := by
  induction e with
  | cmp op l r =>
    intro hF hcov hln env rs b hlf h p hp hpt hag hs
    exact Fc_true_sound w τ _ (by simpa [Expr.Fp, Expr.Fc] using hF) hcov hln hlf h hp hpt hag hs
  | contains c i =>
    intro hF hcov hln env rs b hlf h p hp hpt hag hs
    exact Fc_true_sound w τ _ (by simpa [Expr.Fp, Expr.Fc] using hF) hcov hln hlf h hp hpt hag hs
  | truth t =>
    intro hF hcov hln env rs b hlf h p hp hpt hag hs
    exact Fc_true_sound w τ _ (by simpa [Expr.Fp, Expr.Fc] using hF) hcov hln hlf h hp hpt hag hs
  | hasType t c =>
    intro hF hcov hln env rs b hlf h p hp hpt hag hs
    exact Fc_true_sound w τ _ (by simpa [Expr.Fp, Expr.Fc] using hF) hcov hln hlf h hp hpt hag hs
  | elseIf l r ihl ihr =>
    intro hF hcov hln env rs b hlf h p hp hpt hag hs
    simp only [Expr.Fp, Bool.and_eq_true] at hF
    obtain ⟨ls, g, h0, rfl, hg⟩ := eval_elseIf_inv h
    simp only [satE] at hs
    obtain ⟨bl, hbl, hs⟩ := bind_ok hs
    obtain ⟨br, hbr, hs⟩ := bind_ok hs
    have hb := pure_ok hs
    obtain ⟨hnl, hnr, hd⟩ := litNodup_append hln
    have hcl : Covers w τ l.vars := fun v hv => hcov v (List.mem_append_left _ hv)
    have hcr : Covers w τ r.vars := fun v hv => hcov v (List.mem_append_right _ hv)
    simp only [List.mem_flatMap] at hp; obtain ⟨a, ha, hp⟩ := hp
    have hxa := eval_ext_Fp w l hF.1 env ls h0 a ha
    cases ha2 : a.2 with
    | true =>
      rw [(hg a ha).1 ha2, List.mem_singleton] at hp; subst hp
      have h1 := ihl hF.1 hcl hnl env ls bl (hlf.mono (subset_append_left _ _)) h0 a ha ha2 hag hbl
      rw [← hb, h1]; rfl
    | false =>
      have hr := (hg a ha).2 ha2
      have h2 := ihr hF.2 hcr hnr a.1 (g a) br
        (hxa.litFresh (hlf.mono (subset_append_right _ _)) hd) hr p hp hpt hag hbr
      rw [← hb, h2]; simp
  | not e _ =>
    intro hF hcov hln env rs b hlf h p hp hpt hag hs
    exact Fc_true_sound w τ _ (by simpa [Expr.Fp, Expr.Fc] using hF) hcov hln hlf h hp hpt hag hs
  | and l r ihl ihr =>
    intro hF hcov hln env rs b hlf h p hp hpt hag hs
    simp only [Expr.Fp, Bool.and_eq_true] at hF
    obtain ⟨ls, g, h0, rfl, hg⟩ := eval_and_inv h
    simp only [satE] at hs
    obtain ⟨bl, hbl, hs⟩ := bind_ok hs
    obtain ⟨br, hbr, hs⟩ := bind_ok hs
    have hb := pure_ok hs
    obtain ⟨hnl, hnr, hd⟩ := litNodup_append hln
    have hcl : Covers w τ l.vars := fun v hv => hcov v (List.mem_append_left _ hv)
    have hcr : Covers w τ r.vars := fun v hv => hcov v (List.mem_append_right _ hv)
    simp only [List.mem_flatMap] at hp; obtain ⟨a, ha, hp⟩ := hp
    have hxa := eval_ext_Fp w l hF.1 env ls h0 a ha
    cases ha2 : a.2 with
    | false =>
      rw [(hg a ha).2 ha2, List.mem_singleton] at hp; subst hp
      cases hpt
    | true =>
      have hr := (hg a ha).1 ha2
      have haa : agreesB τ a.1 = true := (eval_ext_Fp w r hF.2 a.1 _ hr p hp).agrees hag
      have h1 := ihl hF.1 hcl hnl env ls bl (hlf.mono (subset_append_left _ _)) h0 a ha ha2 haa hbl
      have h2 := ihr hF.2 hcr hnr a.1 (g a) br
        (hxa.litFresh (hlf.mono (subset_append_right _ _)) hd) hr p hp hpt hag hbr
      rw [← hb, h1, h2]; rfl
  | union l r ihl ihr =>
    intro hF hcov hln env rs b hlf h p hp hpt hag hs
    simp only [Expr.Fp, Bool.and_eq_true] at hF
    obtain ⟨ls, g, rr, h0, hrr, rfl, hg⟩ := eval_union_inv h
    simp only [satE] at hs
    obtain ⟨bl, hbl, hs⟩ := bind_ok hs
    obtain ⟨br, hbr, hs⟩ := bind_ok hs
    have hb := pure_ok hs
    obtain ⟨hnl, hnr, hd⟩ := litNodup_append hln
    have hcl : Covers w τ l.vars := fun v hv => hcov v (List.mem_append_left _ hv)
    have hcr : Covers w τ r.vars := fun v hv => hcov v (List.mem_append_right _ hv)
    rcases List.mem_append.mp hp with hp | hp
    · simp only [List.mem_flatMap] at hp; obtain ⟨a, ha, hp⟩ := hp
      have hxa := eval_ext_Fp w l hF.1 env ls h0 a ha
      cases ha2 : a.2 with
      | true =>
        rw [(hg a ha).1 ha2, List.mem_singleton] at hp; subst hp
        have h1 := ihl hF.1 hcl hnl env ls bl (hlf.mono (subset_append_left _ _)) h0 a ha ha2 hag hbl
        rw [← hb, h1]; rfl
      | false =>
        have hr := (hg a ha).2 ha2
        have h2 := ihr hF.2 hcr hnr a.1 (g a) br
          (hxa.litFresh (hlf.mono (subset_append_right _ _)) hd) hr p hp hpt hag hbr
        rw [← hb, h2]; simp
    · have h2 := ihr hF.2 hcr hnr env rr br (hlf.mono (subset_append_right _ _)) hrr p hp hpt hag hbr
      rw [← hb, h2]; simp
  | exists_ v e _ => intro hF; simp [Expr.Fp] at hF
  | forAll v e _ => intro hF; simp [Expr.Fp] at hF

/-- **cells are complete** on the positive fragment: a total assignment `τ` compatible with `env` lies in some
result cell whose flag is the truth value of `e` under `τ`. (For `b = false` the converse fails on `Union`: a
false cell compatible with `τ` does not mean that `e` is false under `τ` — F-C01-1.) -/
theorem cell_complete (w : World) (τ : Asg) (e : Expr) :
    e.Fp = true → Covers w τ e.vars → LitNodup e →
    ∀ env rs b, LitFresh e.nodes env → agreesB τ env = true → eval w e env = .ok rs →
      satE w e τ = .ok b → ∃ p ∈ rs, p.2 = b ∧ agreesB τ p.1 = true := by
  induction e with
  | cmp op l r =>
    intro hF hcov hln env rs b hlf hag h hs
    exact Fc_cell_complete w τ _ (by simpa [Expr.Fp, Expr.Fc] using hF) hcov hln hlf hag h hs
  | contains c i =>
    intro hF hcov hln env rs b hlf hag h hs
    exact Fc_cell_complete w τ _ (by simpa [Expr.Fp, Expr.Fc] using hF) hcov hln hlf hag h hs
  | truth t =>
    intro hF hcov hln env rs b hlf hag h hs
    exact Fc_cell_complete w τ _ (by simpa [Expr.Fp, Expr.Fc] using hF) hcov hln hlf hag h hs
  | hasType t c =>
    intro hF hcov hln env rs b hlf hag h hs
    exact Fc_cell_complete w τ _ (by simpa [Expr.Fp, Expr.Fc] using hF) hcov hln hlf hag h hs
  | not e _ =>
    intro hF hcov hln env rs b hlf hag h hs
    exact Fc_cell_complete w τ _ (by simpa [Expr.Fp, Expr.Fc] using hF) hcov hln hlf hag h hs
  | and l r ihl ihr =>
    intro hF hcov hln env rs b hlf hag h hs
    simp only [Expr.Fp, Bool.and_eq_true] at hF
    obtain ⟨ls, g, h0, rfl, hg⟩ := eval_and_inv h
    simp only [satE] at hs
    obtain ⟨bl, hbl, hs⟩ := bind_ok hs
    obtain ⟨br, hbr, hs⟩ := bind_ok hs
    have hb := pure_ok hs
    obtain ⟨hnl, hnr, hd⟩ := litNodup_append hln
    have hcl : Covers w τ l.vars := fun v hv => hcov v (List.mem_append_left _ hv)
    have hcr : Covers w τ r.vars := fun v hv => hcov v (List.mem_append_right _ hv)
    obtain ⟨a, ha, ha2, haa⟩ := ihl hF.1 hcl hnl env ls bl (hlf.mono (subset_append_left _ _)) hag h0 hbl
    have hxa := eval_ext_Fp w l hF.1 env ls h0 a ha
    cases hbl2 : bl with
    | false =>
      rw [hbl2] at ha2
      refine ⟨(a.1, false), List.mem_flatMap.mpr ⟨a, ha, ?_⟩, ?_, haa⟩
      · rw [(hg a ha).2 ha2]; simp
      · rw [← hb, hbl2]; rfl
    | true =>
      rw [hbl2] at ha2
      obtain ⟨p, hp, hpt, hpa⟩ := ihr hF.2 hcr hnr a.1 (g a) br
        (hxa.litFresh (hlf.mono (subset_append_right _ _)) hd) haa ((hg a ha).1 ha2) hbr
      exact ⟨p, List.mem_flatMap.mpr ⟨a, ha, hp⟩, by rw [hpt, ← hb, hbl2]; rfl, hpa⟩
  | elseIf l r ihl ihr =>
    intro hF hcov hln env rs b hlf hag h hs
    simp only [Expr.Fp, Bool.and_eq_true] at hF
    obtain ⟨ls, g, h0, rfl, hg⟩ := eval_elseIf_inv h
    simp only [satE] at hs
    obtain ⟨bl, hbl, hs⟩ := bind_ok hs
    obtain ⟨br, hbr, hs⟩ := bind_ok hs
    have hb := pure_ok hs
    obtain ⟨hnl, hnr, hd⟩ := litNodup_append hln
    have hcl : Covers w τ l.vars := fun v hv => hcov v (List.mem_append_left _ hv)
    have hcr : Covers w τ r.vars := fun v hv => hcov v (List.mem_append_right _ hv)
    obtain ⟨a, ha, ha2, haa⟩ := ihl hF.1 hcl hnl env ls bl (hlf.mono (subset_append_left _ _)) hag h0 hbl
    have hxa := eval_ext_Fp w l hF.1 env ls h0 a ha
    cases hbl2 : bl with
    | true =>
      rw [hbl2] at ha2
      refine ⟨(a.1, true), List.mem_flatMap.mpr ⟨a, ha, ?_⟩, ?_, haa⟩
      · rw [(hg a ha).1 ha2]; simp
      · rw [← hb, hbl2]; rfl
    | false =>
      rw [hbl2] at ha2
      obtain ⟨p, hp, hpt, hpa⟩ := ihr hF.2 hcr hnr a.1 (g a) br
        (hxa.litFresh (hlf.mono (subset_append_right _ _)) hd) haa ((hg a ha).2 ha2) hbr
      exact ⟨p, List.mem_flatMap.mpr ⟨a, ha, hp⟩, by rw [hpt, ← hb, hbl2]; rfl, hpa⟩
  | union l r ihl ihr =>
    intro hF hcov hln env rs b hlf hag h hs
    simp only [Expr.Fp, Bool.and_eq_true] at hF
    obtain ⟨ls, g, rr, h0, hrr, rfl, hg⟩ := eval_union_inv h
    simp only [satE] at hs
    obtain ⟨bl, hbl, hs⟩ := bind_ok hs
    obtain ⟨br, hbr, hs⟩ := bind_ok hs
    have hb := pure_ok hs
    obtain ⟨hnl, hnr, _⟩ := litNodup_append hln
    have hcl : Covers w τ l.vars := fun v hv => hcov v (List.mem_append_left _ hv)
    have hcr : Covers w τ r.vars := fun v hv => hcov v (List.mem_append_right _ hv)
    cases hbl2 : bl with
    | true =>
      rw [hbl2] at hbl
      obtain ⟨a, ha, ha2, haa⟩ :=
        ihl hF.1 hcl hnl env ls true (hlf.mono (subset_append_left _ _)) hag h0 hbl
      refine ⟨(a.1, true), List.mem_append_left _ (List.mem_flatMap.mpr ⟨a, ha, ?_⟩), ?_, haa⟩
      · rw [(hg a ha).1 ha2]; simp
      · rw [← hb, hbl2]; rfl
    | false =>
      -- the "right alone" part decides
      obtain ⟨p, hp, hpt, hpa⟩ :=
        ihr hF.2 hcr hnr env rr br (hlf.mono (subset_append_right _ _)) hag hrr hbr
      exact ⟨p, List.mem_append_right _ hp, by rw [hpt, ← hb, hbl2]; rfl, hpa⟩
  | exists_ v e _ => intro hF; simp [Expr.Fp] at hF
  | forAll v e _ => intro hF; simp [Expr.Fp] at hF

/-- **true cells are complete** on the positive fragment: a total assignment `τ` compatible with `env` that
satisfies `e` lies in some true result cell -/
theorem true_complete (w : World) (τ : Asg) (e : Expr)
    (hF : e.Fp = true) (hcov : Covers w τ e.vars) (hln : LitNodup e)
    (env : Env) (rs : List (Env × Bool)) (hlf : LitFresh e.nodes env)
    (hag : agreesB τ env = true) (h : eval w e env = .ok rs) (hs : satE w e τ = .ok true) :
    ∃ p ∈ rs, p.2 = true ∧ agreesB τ p.1 = true :=
  cell_complete w τ e hF hcov hln env rs true hlf hag h hs

/-! ## 19. Soundness and completeness of queries on Fp -/

/-- **soundness and completeness on Fp** (as sets of rows). Same route as `sound_complete_F1`; the step
"satisfying assignments ↔ compatible true cells" uses `true_sound` / `true_complete` instead of `cover`. A true
cell of a `Union` may leave variables of the condition unbound: the assignment read off the (extended) cell gives
them the head of their domain (which exists: non-empty domains), and `true_sound` applies to it. -/
theorem sound_complete_Fp (w : World) (sel : List Term) (c : SExpr)
    (hF : c.Fp1 = true) (hsel : selF1 sel = true) (hms : (sel.flatMap Term.vars).Nodup)
    (hnd : ∀ v, (w.dom v).Nodup)
    (hne : ∀ v ∈ SQuery.vars { sel := sel, cond := some c }, w.dom v ≠ [])
    (hlit : LitNodup (build c))
    {rows rows' : List (List Val)}
    (h1 : evalQuery w { sel := sel, cond := some (build c) } = .ok rows)
    (h2 : solutions w { sel := sel, cond := some c } = .ok rows') :
    ∀ r, r ∈ rows ↔ r ∈ rows' := by
  obtain ⟨heF, hev⟩ := build_Fp hF
  have hselp : ∀ s ∈ sel, s.noFlat = true ∧ s.noLit = true := by
    intro s hs
    have := List.all_eq_true.mp hsel s hs
    simpa using this
  obtain ⟨vs, hvs⟩ : ∃ vs, vs = SQuery.vars { sel := sel, cond := some c } := ⟨_, rfl⟩
  rw [← hvs] at hne
  have hvsn : vs.Nodup := by rw [hvs]; exact dedupNat_nodup _
  have hvsm : ∀ v, v ∈ vs ↔ v ∈ sel.flatMap Term.vars ∨ v ∈ (build c).vars := by
    intro v; rw [hvs, SQuery.vars, mem_dedupNat, hev, List.mem_append]
  -- the evaluation side
  unfold evalQuery at h1
  obtain ⟨rs, hrs, h1⟩ := bind_ok h1
  obtain ⟨T, hT, h1⟩ := bind_ok h1
  have hT := (pure_ok hT).symm
  obtain ⟨gF, hgF, rfl⟩ := flatMapM_ok h1
  have hgF' : ∀ env ∈ T, ∃ per, sel.mapM (selVals w env) = .ok per ∧ gF env = product per := by
    intro env henv
    obtain ⟨per, hper, hp⟩ := bind_ok (hgF env henv)
    exact ⟨per, hper, (pure_ok hp).symm⟩
  have hTfacts : ∀ p ∈ rs, (keys p.1).Nodup ∧ ∀ v x, (Key.var v, x) ∈ p.1 → v ∈ vs ∧ x ∈ w.dom v := by
    intro p hp
    obtain ⟨pre, hpre, hprop, hnod⟩ := eval_ext_Fp w (build c) heF [] rs hrs p hp
    refine ⟨hnod List.nodup_nil, ?_⟩
    intro v x hm
    rw [hpre, List.append_nil] at hm
    exact ⟨(hvsm v).mpr (Or.inr (Expr.mem_nodes_var.mp (hprop _ hm).1)), (hprop _ hm).2 v rfl⟩
  -- the specification side
  unfold solutions at h2
  obtain ⟨sols, hsols, h2⟩ := bind_ok h2
  rw [← hvs] at hsols
  obtain ⟨pred, hpred, hsolsEq⟩ := filterM_ok hsols
  obtain ⟨g', hg', rfl⟩ := mapM_ok h2
  have hcovers : ∀ σ ∈ assignments w vs, ∀ us : List VarId, (∀ u ∈ us, u ∈ vs) → Covers w σ us := by
    intro σ hσ us hus v hv
    obtain ⟨x, hx, hxd⟩ := assignments_lookup hvsn hσ (hus v hv)
    exact ⟨x, hx, by rw [(hnd v).count]; simp [hxd]⟩
  have hsat : ∀ σ ∈ assignments w vs, satE w (build c) σ = .ok (pred σ) := by
    intro σ hσ; rw [← satE_build]; exact hpred σ hσ
  have hcovc : ∀ σ ∈ assignments w vs, Covers w σ (build c).vars :=
    fun σ hσ => hcovers σ hσ _ (fun u hu => (hvsm u).mpr (Or.inr hu))
  have hlf0 : LitFresh (build c).nodes ([] : Env) := fun _ _ => rfl
  intro r
  constructor
  · -- soundness
    intro hr
    obtain ⟨env, henv, hr⟩ := List.mem_flatMap.mp hr
    obtain ⟨per, hper, hgp⟩ := hgF' env henv
    rw [hgp] at hr
    rw [hT] at henv
    simp only [List.mem_map, List.mem_filter] at henv
    obtain ⟨p, ⟨hp, hpt⟩, rfl⟩ := henv
    obtain ⟨hk, hvar⟩ := hTfacts p hp
    obtain ⟨pre, hkk, hpre, hτ⟩ := select_sound w sel p.1 per r hselp hms hk hper hr
    -- the assignment read off the extended cell; unconstrained variables take the head of their domain
    let σ : Asg := vs.map fun v => (v, ((pre ++ p.1).lookup (.var v)).getD ((w.dom v).headD .none))
    have hall : ∀ v x, (Key.var v, x) ∈ pre ++ p.1 → v ∈ vs ∧ x ∈ w.dom v := by
      intro v x hm
      rcases List.mem_append.mp hm with hm | hm
      · obtain ⟨u, hu, hus, hd⟩ := hpre _ hm
        cases hu
        exact ⟨(hvsm v).mpr (Or.inl hus), hd⟩
      · exact hvar v x hm
    have hσ : σ ∈ assignments w vs := by
      rw [mem_assignments]
      refine ⟨by simp [σ, List.map_map, Function.comp_def], ?_⟩
      intro q hq
      simp only [σ, List.mem_map] at hq
      obtain ⟨v, hv, rfl⟩ := hq
      cases hl : (pre ++ p.1).lookup (.var v) with
      | none => simp only [Option.getD_none]; exact headD_mem (hne v hv) _
      | some x => exact (hall v x (lookup_mem' hl)).2
    have hag : agreesB σ (pre ++ p.1) = true := by
      rw [agreesB_iff]
      intro v x hm
      simp only [σ]
      rw [lookup_map_self, if_pos (hall v x hm).1, lookup_of_mem_nodup hkk hm]
      rfl
    have hagp : agreesB σ p.1 = true := by
      rw [agreesB_append, Bool.and_eq_true] at hag; exact hag.2
    have hpredσ : pred σ = true :=
      true_sound w σ (build c) heF (hcovc σ hσ) hlit [] rs (pred σ) hlf0 hrs p hp hpt hagp
        (hsat σ hσ)
    have hσs : σ ∈ sols := by rw [hsolsEq]; exact List.mem_filter.mpr ⟨hσ, hpredσ⟩
    have := hτ σ hag (hcovers σ hσ _ (fun u hu => (hvsm u).mpr (Or.inl hu))) (g' σ) (hg' σ hσs)
    rw [← this]
    exact List.mem_map.mpr ⟨σ, hσs, rfl⟩
  · -- completeness
    intro hr
    obtain ⟨σ, hσs, rfl⟩ := List.mem_map.mp hr
    have hσs' := hσs
    rw [hsolsEq] at hσs'
    obtain ⟨hσ, hpredσ⟩ := List.mem_filter.mp hσs'
    have hs := hsat σ hσ
    rw [hpredσ] at hs
    obtain ⟨a, ham, hav, haa⟩ :=
      true_complete w σ (build c) heF (hcovc σ hσ) hlit [] rs hlf0 (agreesB_nil σ) hrs hs
    have haT : a.1 ∈ T := by
      rw [hT]
      exact List.mem_map.mpr ⟨a, List.mem_filter.mpr ⟨ham, hav⟩, rfl⟩
    obtain ⟨per, hper, hgp⟩ := hgF' a.1 haT
    refine List.mem_flatMap.mpr ⟨a.1, haT, ?_⟩
    rw [hgp]
    exact select_complete w σ sel a.1 per (g' σ) hselp haa
      (hcovers σ hσ _ (fun u hu => (hvsm u).mpr (Or.inl hu))) hper (hg' σ hσs)

end KrroodVerif.Eql
