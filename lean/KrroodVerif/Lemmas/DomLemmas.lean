import KrroodVerif.Model.Dom
import KrroodVerif.Model.DomIdx
/-!
Helper lemmas for property C03 over M-DOM (`Model/Dom.lean`, `Model/DomIdx.lean`). Core Lean only.

* `Rem d c l` — what cursor `c` would still hand out over `d` if nobody else touched `d`; `step_nil`/`step_cons`
  (one `step` pops the head of that list and keeps `cache ++ rest`), `qnext_spec` (one query `next()` pops the prefix
  up to and including the first satisfying element; the fuel `cache.length + rest.length + 2` never runs out).
* `stepIdx_nil`/`stepIdx_cons`/`qnextIdx_spec` — the same for index cursors, for *any* index `≤ cache.length`.
* `next_good` — one-step simulation of `run1 … (.next i)` by the specification for an iterator in a good state;
  `run_noOverlap` (every `noOverlap` schedule), `sequentialAux_noOverlapAux`, `run_full` (every schedule, index cursors).
* `run_agree`, `run_append` — for `C03_abandon_irrelevant`; `specRun_complete` — for `C03_alone`.
-/
namespace KrroodVerif.Dom

/-- `Rem d c l`: `l` is what the cursor `c` would still hand out over `d` if nobody else touched `d` -/
def Rem (d : Dom) : Cursor → List Nat → Prop
  | .fresh, l => l = d.cache ++ d.rest
  | .replay i size, l => size = d.cache.length ∧ l = d.cache.drop i ++ d.rest
  | .drain, l => l = d.rest
  | .done, l => l = []

theorem step_nil {d : Dom} {c : Cursor} (h : Rem d c []) : step d c = (d, .done, .stop) := by
  obtain ⟨cache, rest⟩ := d
  cases c with
  | fresh =>
    simp only [Rem] at h
    have h' := h.symm
    simp only [List.append_eq_nil_iff] at h'
    obtain ⟨rfl, rfl⟩ := h'
    rfl
  | replay i size =>
    simp only [Rem] at h
    obtain ⟨rfl, h⟩ := h
    have h' := h.symm
    simp only [List.append_eq_nil_iff, List.drop_eq_nil_iff] at h'
    obtain ⟨h1, rfl⟩ := h'
    have : cache[i]? = none := by simp; omega
    simp [step, this]
  | drain =>
    simp only [Rem] at h
    subst h; rfl
  | done => rfl

theorem step_cons {d : Dom} {c : Cursor} {x : Nat} {l : List Nat} (h : Rem d c (x :: l)) :
    ∃ d' c', step d c = (d', c', .val x) ∧ Rem d' c' l ∧ d'.cache ++ d'.rest = d.cache ++ d.rest := by
  obtain ⟨cache, rest⟩ := d
  cases c with
  | fresh =>
    simp only [Rem] at h
    cases cache with
    | nil =>
      simp only [List.nil_append] at h
      subst h
      exact ⟨_, _, rfl, by simp [Rem], by simp⟩
    | cons y ys =>
      simp only [List.cons_append, List.cons.injEq] at h
      obtain ⟨rfl, rfl⟩ := h
      exact ⟨_, _, rfl, by simp [Rem], rfl⟩
  | replay i size =>
    simp only [Rem] at h
    obtain ⟨rfl, h⟩ := h
    by_cases hi : i < cache.length
    · have e : cache.drop i = cache[i] :: cache.drop (i + 1) := by simp
      rw [e] at h
      simp only [List.cons_append, List.cons.injEq] at h
      obtain ⟨rfl, rfl⟩ := h
      refine ⟨_, .replay (i + 1) cache.length, ?_, by simp [Rem], rfl⟩
      simp [step, hi]
    · have e : cache.drop i = [] := by simp; omega
      rw [e] at h
      simp only [List.nil_append] at h
      subst h
      have : cache[i]? = none := by simp; omega
      refine ⟨{ cache := cache ++ [x], rest := l }, .drain, ?_, by simp [Rem], by simp⟩
      simp [step, this]
  | drain =>
    simp only [Rem] at h
    subst h
    exact ⟨_, _, rfl, by simp [Rem], by simp⟩
  | done => simp [Rem] at h


theorem qnext_spec (sat : List Nat) : ∀ (fuel : Nat) (l : List Nat) (d : Dom) (c : Cursor),
    Rem d c l → l.length + 1 ≤ fuel →
    ∃ d' c' o l', qnext d ⟨c, sat⟩ fuel = (d', ⟨c', sat⟩, o) ∧ Rem d' c' l' ∧
      d'.cache ++ d'.rest = d.cache ++ d.rest ∧
      ((l.filter (sat.contains ·) = [] ∧ o = .stop ∧ l' = []) ∨
       (∃ x, l.filter (sat.contains ·) = x :: l'.filter (sat.contains ·) ∧ o = .val x)) := by
  intro fuel
  induction fuel with
  | zero => intro l d c _ h; omega
  | succ fuel ih =>
    intro l d c hrem hfuel
    cases l with
    | nil =>
      refine ⟨d, .done, .stop, [], ?_, rfl, rfl, .inl ⟨rfl, rfl, rfl⟩⟩
      simp only [qnext, step_nil hrem]
    | cons x t =>
      obtain ⟨d', c', hstep, hrem', hdom⟩ := step_cons hrem
      by_cases hx : sat.contains x = true
      · refine ⟨d', c', .val x, t, ?_, hrem', hdom, .inr ⟨x, ?_, rfl⟩⟩
        · simp only [qnext, hstep, hx, if_true]
        · simp only [List.filter_cons, hx, if_true]
      · obtain ⟨d'', c'', o, l', hq, hrem'', hdom', hres⟩ :=
          ih t d' c' hrem' (by simp only [List.length_cons] at hfuel; omega)
        refine ⟨d'', c'', o, l', ?_, hrem'', hdom'.trans hdom, ?_⟩
        · simp only [qnext, hstep, hx]
          exact hq
        · simp only [List.filter_cons, hx]
          exact hres


theorem Rem_length {d : Dom} {c : Cursor} {l : List Nat} (h : Rem d c l) :
    l.length ≤ d.cache.length + d.rest.length := by
  cases c <;> simp only [Rem] at h
  · subst h; simp
  · obtain ⟨_, rfl⟩ := h; simp
  · subst h; omega
  · subst h; simp

theorem lookup_filter_ne {β : Type} (l : List (Nat × β)) (i c : Nat) (h : c ≠ i) :
    (l.filter (·.1 != i)).lookup c = l.lookup c := by
  induction l with
  | nil => rfl
  | cons p t ih =>
    obtain ⟨a, b⟩ := p
    by_cases ha : a = i
    · subst ha
      have : (c == a) = false := by simp [h]
      simp [List.lookup_cons, this, ih]
    · have : (a != i) = true := by simp [ha]
      simp only [List.filter_cons, this, if_true, List.lookup_cons, ih]

theorem lookup_filter_self {β : Type} (l : List (Nat × β)) (i : Nat) :
    (l.filter (·.1 != i)).lookup i = none := by
  induction l with
  | nil => rfl
  | cons p t ih =>
    obtain ⟨a, b⟩ := p
    by_cases ha : a = i
    · subst ha
      simp [ih]
    · have : (a != i) = true := by simp [ha]
      have h2 : (i == a) = false := by simp; omega
      simp only [List.filter_cons, this, if_true, List.lookup_cons, ih, h2]

theorem drop_eq_cons {α : Type} {L : List α} {k : Nat} {x : α} {t : List α} (h : L.drop k = x :: t) :
    L[k]? = some x ∧ L.drop (k + 1) = t := by
  induction L generalizing k with
  | nil => simp at h
  | cons y ys ih =>
    cases k with
    | zero => simp at h; simp [h]
    | succ k => simp at h; simpa using ih h

theorem drop_eq_nil {α : Type} {L : List α} {k : Nat} (h : L.drop k = []) : L[k]? = none := by
  simp only [List.drop_eq_nil_iff] at h
  simp; omega

theorem lookup_set {β : Type} (l : List (Nat × β)) (i j : Nat) (v : β) :
    ((i, v) :: l.filter (·.1 != i)).lookup j = if j = i then some v else l.lookup j := by
  by_cases h : j = i
  · subst h; simp
  · have : (j == i) = false := by simp [h]
    simp only [List.lookup_cons, this, h, if_false]
    exact lookup_filter_ne l i j h

/-! ### the code as it is: one-step simulation and the non-overlap discipline -/

/-- iterator `c` is in a state from which, if only it is advanced, it behaves like the specification with counter `k` -/
def Good (n : Nat) (sats : Nat → List Nat) (s : State) (st : List (Nat × Nat)) (c : Nat) : Prop :=
  ∃ q k l, s.get c = some q ∧ q.sat = sats c ∧ st.lookup c = some k ∧ Rem s.dom q.cur l ∧
    l.filter ((sats c).contains ·) = (isolated n (sats c)).drop k

theorem good_fresh {n : Nat} {sats : Nat → List Nat} {s : State} {st : List (Nat × Nat)} {c : Nat}
    (hdom : s.dom.cache ++ s.dom.rest = List.range n) (hget : s.get c = some ⟨.fresh, sats c⟩)
    (hk : st.lookup c = some 0) : Good n sats s st c :=
  ⟨⟨.fresh, sats c⟩, 0, List.range n, hget, rfl, hk, by simp only [Rem]; exact hdom.symm, by simp [isolated]⟩

/-- one `next i` on a good iterator: model and specification give the same output, `cache ++ rest` is kept, `i`
stays good, nothing else changes in the iterator tables -/
theorem next_good {n : Nat} {sats : Nat → List Nat} {s : State} {st : List (Nat × Nat)} {i : Nat}
    (hdom : s.dom.cache ++ s.dom.rest = List.range n) (hg : Good n sats s st i) :
    ∃ s' st' o, run1 sats s (.next i) = (s', some o) ∧
      (∀ ops, specRun n sats st (.next i :: ops) = some o :: specRun n sats st' ops) ∧
      s'.dom.cache ++ s'.dom.rest = List.range n ∧ Good n sats s' st' i ∧
      (∀ c, c ≠ i → s'.get c = s.get c ∧ st'.lookup c = st.lookup c) := by
  obtain ⟨q, k, l, hget, hsat, hk, hrem, hfil⟩ := hg
  obtain ⟨qc, qs⟩ := q
  simp only at hsat hrem
  subst hsat
  obtain ⟨d', c', o, l', hq, hrem', hdom', hres⟩ :=
    qnext_spec (sats i) (s.dom.cache.length + s.dom.rest.length + 2) l s.dom qc hrem
      (by have := Rem_length hrem; omega)
  rcases hres with ⟨hnil, rfl, rfl⟩ | ⟨x, hx, rfl⟩
  · have hnone := drop_eq_nil (hfil.symm.trans hnil)
    refine ⟨{ dom := d', its := (i, ⟨c', sats i⟩) :: s.its.filter (·.1 != i) }, st, .stop, ?_, ?_,
      hdom'.trans hdom, ⟨⟨c', sats i⟩, k, [], ?_, rfl, hk, hrem', ?_⟩, ?_⟩
    · simp only [run1, hget, hq]
    · intro ops; simp only [specRun, hk, hnone]
    · simp [State.get]
    · rw [← hfil, hnil]; rfl
    · intro c hc
      exact ⟨by simp only [State.get, lookup_set, hc, if_false], rfl⟩
  · obtain ⟨hsome, hdrop⟩ := drop_eq_cons (hfil.symm.trans hx)
    refine ⟨{ dom := d', its := (i, ⟨c', sats i⟩) :: s.its.filter (·.1 != i) },
      (i, k + 1) :: st.filter (·.1 != i), .val x, ?_, ?_,
      hdom'.trans hdom, ⟨⟨c', sats i⟩, k + 1, l', ?_, rfl, ?_, hrem', hdrop.symm⟩, ?_⟩
    · simp only [run1, hget, hq]
    · intro ops; simp only [specRun, hk, hsome]
    · simp [State.get]
    · simp
    · intro c hc
      exact ⟨by simp only [State.get, lookup_set, hc, if_false], by simp only [lookup_set, hc, if_false]⟩

/-- invariant of `noOverlapAux act fresh`: `cache ++ rest` is the domain, the open iterator is good, every
started-but-never-advanced iterator still has a fresh cursor -/
def NoInv (n : Nat) (sats : Nat → List Nat) (s : State) (st : List (Nat × Nat)) (act : Option Nat)
    (fresh : List Nat) : Prop :=
  s.dom.cache ++ s.dom.rest = List.range n ∧
  (∀ c, act = some c → Good n sats s st c ∧ c ∉ fresh) ∧
  (∀ c, c ∈ fresh → s.get c = some ⟨.fresh, sats c⟩ ∧ st.lookup c = some 0)

theorem act_after {act : Option Nat} {i c : Nat} (h : (if (act == some i) = true then none else act) = some c) :
    act = some c ∧ c ≠ i := by
  by_cases h' : act = some i
  · simp [h'] at h
  · have : (act == some i) = false := by simp [h']
    simp only [this] at h
    exact ⟨h, by rintro rfl; exact h' h⟩

theorem good_of_agree {n : Nat} {sats : Nat → List Nat} {s s' : State} {st st' : List (Nat × Nat)} {c : Nat}
    (hd : s'.dom = s.dom) (hg : s'.get c = s.get c) (hl : st'.lookup c = st.lookup c)
    (h : Good n sats s st c) : Good n sats s' st' c := by
  obtain ⟨q, k, l, a, b, c', d, e⟩ := h
  exact ⟨q, k, l, hg.trans a, b, hl.trans c', by rw [hd]; exact d, e⟩

theorem run_noOverlap (n : Nat) (sats : Nat → List Nat) : ∀ (ops : List Op) (s : State) (st : List (Nat × Nat))
    (act : Option Nat) (fresh : List Nat), NoInv n sats s st act fresh → noOverlapAux act fresh ops = true →
    run sats s ops = specRun n sats st ops := by
  intro ops
  induction ops with
  | nil => intros; rfl
  | cons op ops ih =>
    intro s st act fresh hinv hseq
    obtain ⟨hdom, hact, hfresh⟩ := hinv
    cases op with
    | start i =>
      simp only [noOverlapAux] at hseq
      simp only [run, run1, specRun]
      congr 1
      refine ih _ _ _ _ ⟨hdom, ?_, ?_⟩ hseq
      · intro c hc
        obtain ⟨hc1, hc2⟩ := act_after hc
        obtain ⟨hg, hnf⟩ := hact c hc1
        refine ⟨good_of_agree (s := s) (st := st) rfl ?_ ?_ hg, ?_⟩
        · simp only [State.get, State.set, lookup_set, hc2, if_false]
        · simp only [lookup_set, hc2, if_false]
        · simp only [List.mem_cons, not_or]; exact ⟨hc2, hnf⟩
      · intro c hc
        by_cases hci : c = i
        · subst hci
          exact ⟨by simp [State.get, State.set], by simp⟩
        · simp only [List.mem_cons, hci, false_or] at hc
          obtain ⟨h1, h2⟩ := hfresh c hc
          exact ⟨by simp only [State.get, State.set, lookup_set, hci, if_false]; exact h1,
                 by simp only [lookup_set, hci, if_false]; exact h2⟩
    | abandon i =>
      simp only [noOverlapAux] at hseq
      simp only [run, run1, specRun]
      congr 1
      refine ih _ _ _ _ ⟨hdom, ?_, ?_⟩ hseq
      · intro c hc
        obtain ⟨hc1, hc2⟩ := act_after hc
        obtain ⟨hg, hnf⟩ := hact c hc1
        refine ⟨good_of_agree (s := s) (st := st) rfl ?_ ?_ hg, ?_⟩
        · simp only [State.get, lookup_filter_ne _ _ _ hc2]
        · simp only [lookup_filter_ne _ _ _ hc2]
        · intro hmem; exact hnf (List.mem_filter.mp hmem).1
      · intro c hc
        obtain ⟨hc1, hc2⟩ := List.mem_filter.mp hc
        have hci : c ≠ i := by simpa using hc2
        obtain ⟨h1, h2⟩ := hfresh c hc1
        exact ⟨by simp only [State.get, lookup_filter_ne _ _ _ hci]; exact h1,
               by simp only [lookup_filter_ne _ _ _ hci]; exact h2⟩
    | next i =>
      simp only [noOverlapAux] at hseq
      -- in both admissible cases iterator `i` is good; `act'`/`fresh'` are the continuation's parameters
      have key : ∃ act' fresh', noOverlapAux act' fresh' ops = true ∧ Good n sats s st i ∧ act' = some i ∧
          i ∉ fresh' ∧ (∀ c, c ∈ fresh' → c ∈ fresh ∧ c ≠ i) := by
        by_cases h : act = some i
        · have hb : (act == some i) = true := by simp [h]
          simp only [hb, if_true] at hseq
          obtain ⟨hg, hnf⟩ := hact i h
          exact ⟨act, fresh, hseq, hg, h, hnf, fun c hc => ⟨hc, by rintro rfl; exact hnf hc⟩⟩
        · have hb : (act == some i) = false := by simp [h]
          simp only [hb] at hseq
          by_cases hf : fresh.contains i = true
          · simp only [hf, if_true] at hseq
            have hmem : i ∈ fresh := by simpa using hf
            obtain ⟨h1, h2⟩ := hfresh i hmem
            refine ⟨some i, fresh.filter (· != i), by simpa using hseq, good_fresh hdom h1 h2, rfl, ?_, ?_⟩
            · intro hm; have := (List.mem_filter.mp hm).2; simp at this
            · intro c hc
              obtain ⟨a, b⟩ := List.mem_filter.mp hc
              exact ⟨a, by simpa using b⟩
          · have hmem : i ∉ fresh := by simpa using hf
            simp [hmem] at hseq
      obtain ⟨act', fresh', hseq', hg, hact', hnf', hsub⟩ := key
      obtain ⟨s', st', o, hrun, hspec, hdom', hg', hother⟩ := next_good hdom hg
      simp only [run, hrun, hspec]
      congr 1
      refine ih _ _ _ _ ⟨hdom', ?_, ?_⟩ hseq'
      · intro c hc
        rw [hact'] at hc; cases hc
        exact ⟨hg', hnf'⟩
      · intro c hc
        obtain ⟨hc1, hc2⟩ := hsub c hc
        obtain ⟨h1, h2⟩ := hfresh c hc1
        obtain ⟨e1, e2⟩ := hother c hc2
        exact ⟨e1.trans h1, e2.trans h2⟩

/-- every `sequential` schedule is a `noOverlap` schedule -/
theorem sequentialAux_noOverlapAux : ∀ (ops : List Op) (cur : Option Nat) (dead : List Nat) (act : Option Nat)
    (fresh : List Nat), (∀ c, cur = some c → act = some c ∨ c ∈ fresh) → sequentialAux cur dead ops = true →
    noOverlapAux act fresh ops = true := by
  intro ops
  induction ops with
  | nil => intros; rfl
  | cons op ops ih =>
    intro cur dead act fresh hrel hseq
    cases op with
    | start i =>
      simp only [sequentialAux] at hseq
      simp only [noOverlapAux]
      refine ih _ _ _ _ ?_ hseq
      intro c hc; cases hc
      exact .inr (List.mem_cons_self ..)
    | abandon i =>
      simp only [sequentialAux] at hseq
      simp only [noOverlapAux]
      refine ih _ _ _ _ ?_ hseq
      intro c hc
      obtain ⟨hc1, hc2⟩ := act_after hc
      rcases hrel c hc1 with h | h
      · left
        have : (act == some i) = false := by simp [h, hc2]
        simp only [this]; exact h
      · right
        exact List.mem_filter.mpr ⟨h, by simpa using hc2⟩
    | next i =>
      simp only [sequentialAux] at hseq
      have hci : cur = some i := by
        by_cases h : cur = some i
        · exact h
        · have : (cur == some i) = false := by simp [h]
          simp [this] at hseq
      have hseq' : sequentialAux cur dead ops = true := by simpa [hci] using hseq
      simp only [noOverlapAux]
      by_cases h : act = some i
      · have hb : (act == some i) = true := by simp [h]
        simp only [hb, if_true]
        exact ih _ _ _ _ hrel hseq'
      · have hb : (act == some i) = false := by simp [h]
        have hmem : i ∈ fresh := by
          rcases hrel i hci with h' | h'
          · exact absurd h' h
          · exact h'
        have hf : fresh.contains i = true := by simpa using hmem
        simp only [hb, hf, if_true]
        refine ih _ _ _ _ ?_ hseq'
        intro c hc
        rw [hci] at hc; cases hc
        exact .inl rfl

theorem sequential_noOverlap {ops : List Op} (h : sequential ops = true) : noOverlap ops = true :=
  sequentialAux_noOverlapAux ops none [] none [] (by intro c hc; cases hc) h

/-! ### `abandon` is irrelevant for an iterator that is never advanced again -/

theorem run_length (sats : Nat → List Nat) : ∀ (ops : List Op) (s : State), (run sats s ops).length = ops.length := by
  intro ops
  induction ops with
  | nil => intro s; rfl
  | cons op ops ih => intro s; simp only [run, List.length_cons, ih]

theorem run_append (sats : Nat → List Nat) : ∀ (a b : List Op) (s : State),
    run sats s (a ++ b) = run sats s a ++ run sats (stateAfter sats s a) b := by
  intro a
  induction a with
  | nil => intro b s; rfl
  | cons op a ih =>
    intro b s
    simp only [List.cons_append, run, stateAfter, List.foldl_cons]
    rw [ih]; rfl

/-- two states with the same domain whose iterator tables agree except possibly on `e`, where `e` is not advanced
before being restarted, produce the same outputs -/
theorem run_agree (sats : Nat → List Nat) : ∀ (ops : List Op) (s1 s2 : State) (e : Option Nat),
    s1.dom = s2.dom → (∀ j, e ≠ some j → s1.get j = s2.get j) → (∀ i, e = some i → neverAdvanced i ops = true) →
    run sats s1 ops = run sats s2 ops := by
  intro ops
  induction ops with
  | nil => intros; rfl
  | cons op ops ih =>
    intro s1 s2 e hd hag hdead
    cases op with
    | start i =>
      simp only [run, run1]
      congr 1
      by_cases he : e = some i
      · refine ih _ _ none hd ?_ (by intro j hj; cases hj)
        intro j _
        simp only [State.get, State.set, lookup_set]
        by_cases hji : j = i
        · simp only [hji, if_true]
        · simp only [hji, if_false]
          exact hag j (by rw [he]; intro h; cases h; exact hji rfl)
      · refine ih _ _ e hd ?_ ?_
        · intro j hj
          simp only [State.get, State.set, lookup_set]
          by_cases hji : j = i
          · simp only [hji, if_true]
          · simp only [hji, if_false]
            exact hag j hj
        · intro k hk
          have := hdead k hk
          simp only [neverAdvanced] at this
          have hik : ¬ i = k := by rintro rfl; exact he hk
          simpa [hik] using this
    | abandon i =>
      simp only [run, run1]
      congr 1
      refine ih _ _ e hd ?_ ?_
      · intro j hj
        simp only [State.get]
        by_cases hji : j = i
        · subst hji; simp only [lookup_filter_self]
        · simp only [lookup_filter_ne _ _ _ hji]; exact hag j hj
      · intro k hk
        have := hdead k hk
        simpa only [neverAdvanced] using this
    | next i =>
      have hne : e ≠ some i := by
        intro he
        have := hdead i he
        simp [neverAdvanced] at this
      have hget := hag i hne
      simp only [run, run1, ← hget, ← hd]
      cases hq : s1.get i with
      | none =>
        simp only
        congr 1
        refine ih _ _ e hd hag ?_
        intro k hk
        have := hdead k hk
        simp only [neverAdvanced] at this
        have hik : ¬ i = k := by rintro rfl; exact hne hk
        simpa [hik] using this
      | some q =>
        simp only
        congr 1
        refine ih _ _ e rfl ?_ ?_
        · intro j hj
          simp only [State.get, lookup_set]
          by_cases hji : j = i
          · simp only [hji, if_true]
          · simp only [hji, if_false]; exact hag j hj
        · intro k hk
          have := hdead k hk
          simp only [neverAdvanced] at this
          have hik : ¬ i = k := by rintro rfl; exact hne hk
          simpa [hik] using this

/-! ### the specification on a complete, solitary evaluation -/

theorem specRun_complete (n : Nat) (sats : Nat → List Nat) (i : Nat) : ∀ (m k : Nat) (st : List (Nat × Nat)),
    st.lookup i = some k → k + m = (isolated n (sats i)).length →
    specRun n sats st (List.replicate (m + 1) (.next i)) =
      ((isolated n (sats i)).drop k).map (fun x => some (.val x)) ++ [some .stop] := by
  intro m
  induction m with
  | zero =>
    intro k st hk hlen
    have h1 : (isolated n (sats i))[k]? = none := by simp; omega
    have h2 : (isolated n (sats i)).drop k = [] := by simp; omega
    simp [List.replicate, specRun, hk, h1, h2]
  | succ m ih =>
    intro k st hk hlen
    have hlt : k < (isolated n (sats i)).length := by omega
    have h1 : (isolated n (sats i))[k]? = some (isolated n (sats i))[k] := by simp [hlt]
    have h2 : (isolated n (sats i)).drop k = (isolated n (sats i))[k] :: (isolated n (sats i)).drop (k + 1) := by
      simp
    rw [List.replicate_succ]
    simp only [specRun, hk, h1, h2, List.map_cons, List.cons_append]
    congr 1
    exact ih (k + 1) _ (by simp) (by omega)

theorem sequentialAux_replicate (i : Nat) (dead : List Nat) : ∀ m,
    sequentialAux (some i) dead (List.replicate m (.next i)) = true := by
  intro m
  induction m with
  | zero => rfl
  | succ m ih => simp [List.replicate_succ, sequentialAux, ih]

/-! ### the repaired machine: index cursors -/

theorem stepIdx_nil {d : Dom} {L : List Nat} {i : Nat} (hL : d.cache ++ d.rest = L) (hi : i ≤ d.cache.length)
    (h : L.drop i = []) : stepIdx d i = (d, i, .stop) := by
  obtain ⟨cache, rest⟩ := d
  subst hL
  simp only [List.drop_eq_nil_iff, List.length_append] at h
  simp only at hi
  have h1 : cache[i]? = none := by simp; omega
  have h2 : rest = [] := by
    cases rest with
    | nil => rfl
    | cons y ys => simp at h; omega
  subst h2
  simp [stepIdx, h1]

theorem stepIdx_cons {d : Dom} {L : List Nat} {i x : Nat} {t : List Nat} (hL : d.cache ++ d.rest = L)
    (hi : i ≤ d.cache.length) (h : L.drop i = x :: t) :
    ∃ d', stepIdx d i = (d', i + 1, .val x) ∧ d'.cache ++ d'.rest = L ∧ d.cache.length ≤ d'.cache.length ∧
      i + 1 ≤ d'.cache.length := by
  obtain ⟨cache, rest⟩ := d
  subst hL
  simp only at hi
  by_cases hlt : i < cache.length
  · have hx := (drop_eq_cons h).1
    rw [List.getElem?_append_left hlt] at hx
    refine ⟨⟨cache, rest⟩, ?_, rfl, Nat.le_refl _, hlt⟩
    simp [stepIdx, hx]
  · have hieq : i = cache.length := by omega
    subst hieq
    simp only [List.drop_left] at h
    subst h
    refine ⟨⟨cache ++ [x], t⟩, ?_, by simp, by simp, by simp⟩
    simp [stepIdx]

theorem qnextIdx_spec (sat : List Nat) (L : List Nat) : ∀ (fuel : Nat) (d : Dom) (i : Nat),
    d.cache ++ d.rest = L → i ≤ d.cache.length → (L.drop i).length + 1 ≤ fuel →
    ∃ d' i' o, qnextIdx d ⟨i, sat⟩ fuel = (d', ⟨i', sat⟩, o) ∧ d'.cache ++ d'.rest = L ∧
      d.cache.length ≤ d'.cache.length ∧ i' ≤ d'.cache.length ∧
      (((L.drop i).filter (sat.contains ·) = [] ∧ o = .stop ∧ (L.drop i').filter (sat.contains ·) = []) ∨
       (∃ x, (L.drop i).filter (sat.contains ·) = x :: (L.drop i').filter (sat.contains ·) ∧ o = .val x)) := by
  intro fuel
  induction fuel with
  | zero => intro d i _ _ h; omega
  | succ fuel ih =>
    intro d i hL hi hfuel
    cases hdrop : L.drop i with
    | nil =>
      refine ⟨d, i, .stop, ?_, hL, Nat.le_refl _, hi, .inl ⟨rfl, rfl, ?_⟩⟩
      · simp only [qnextIdx, stepIdx_nil hL hi hdrop]
      · rw [hdrop]; rfl
    | cons x t =>
      obtain ⟨d', hstep, hL', hlen, hi'⟩ := stepIdx_cons hL hi hdrop
      have ht := (drop_eq_cons hdrop).2
      by_cases hx : sat.contains x = true
      · refine ⟨d', i + 1, .val x, ?_, hL', hlen, hi', .inr ⟨x, ?_, rfl⟩⟩
        · simp only [qnextIdx, hstep, hx, if_true]
        · simp only [List.filter_cons, hx, if_true, ht]
      · obtain ⟨d'', i'', o, hq, hL'', hlen', hi'', hres⟩ :=
          ih d' (i + 1) hL' hi' (by rw [hdrop] at hfuel; rw [ht]; simp only [List.length_cons] at hfuel; omega)
        refine ⟨d'', i'', o, ?_, hL'', Nat.le_trans hlen hlen', hi'', ?_⟩
        · simp only [qnextIdx, hstep, hx]
          exact hq
        · simp only [List.filter_cons, hx]
          rw [ht] at hres
          exact hres

def FullInv (n : Nat) (sats : Nat → List Nat) (s : StateIdx) (st : List (Nat × Nat)) : Prop :=
  s.dom.cache ++ s.dom.rest = List.range n ∧
  (∀ i, s.get i = none → st.lookup i = none) ∧
  ∀ i q, s.get i = some q → q.sat = sats i ∧ q.idx ≤ s.dom.cache.length ∧
    ∃ k, st.lookup i = some k ∧
      ((List.range n).drop q.idx).filter ((sats i).contains ·) = (isolated n (sats i)).drop k

theorem run_full (n : Nat) (sats : Nat → List Nat) : ∀ (ops : List Op) (s : StateIdx) (st : List (Nat × Nat)),
    FullInv n sats s st → runIdx sats s ops = specRun n sats st ops := by
  intro ops
  induction ops with
  | nil => intros; rfl
  | cons op ops ih =>
    intro s st hinv
    obtain ⟨hdom, hnone, hsome⟩ := hinv
    cases op with
    | start i =>
      simp only [runIdx, run1Idx, specRun]
      congr 1
      refine ih _ _ ⟨hdom, ?_, ?_⟩
      · intro j hj
        simp only [StateIdx.get, StateIdx.set, lookup_set] at hj
        by_cases hji : j = i
        · simp [hji] at hj
        · simp only [hji, if_false] at hj
          simp only [lookup_set, hji, if_false]
          exact hnone j hj
      · intro j q hj
        simp only [StateIdx.get, StateIdx.set, lookup_set] at hj
        by_cases hji : j = i
        · subst hji
          simp only [if_true, Option.some.injEq] at hj
          subst hj
          refine ⟨rfl, Nat.zero_le _, 0, by simp, by simp [isolated]⟩
        · simp only [hji, if_false] at hj
          simp only [lookup_set, hji, if_false]
          exact hsome j q hj
    | abandon i =>
      simp only [runIdx, run1Idx, specRun]
      congr 1
      refine ih _ _ ⟨hdom, ?_, ?_⟩
      · intro j hj
        by_cases hji : j = i
        · subst hji; exact lookup_filter_self _ _
        · simp only [StateIdx.get, lookup_filter_ne _ _ _ hji] at hj
          rw [lookup_filter_ne _ _ _ hji]
          exact hnone j hj
      · intro j q hj
        by_cases hji : j = i
        · subst hji
          simp [StateIdx.get, lookup_filter_self] at hj
        · simp only [StateIdx.get, lookup_filter_ne _ _ _ hji] at hj
          rw [lookup_filter_ne _ _ _ hji]
          exact hsome j q hj
    | next i =>
      cases hget : s.get i with
      | none =>
        simp only [runIdx, run1Idx, hget, specRun, hnone i hget]
        congr 1
        exact ih _ _ ⟨hdom, hnone, hsome⟩
      | some q =>
        obtain ⟨hsat, hidx, k, hk, hfil⟩ := hsome i q hget
        obtain ⟨qi, qs⟩ := q
        simp only at hsat hidx hfil
        subst hsat
        obtain ⟨d', i', o, hq, hdom', hlen, hi', hres⟩ :=
          qnextIdx_spec (sats i) (List.range n) (s.dom.cache.length + s.dom.rest.length + 2) s.dom qi hdom hidx
            (by have := congrArg List.length hdom
                simp only [List.length_append] at this
                simp only [List.length_drop]; omega)
        simp only [runIdx, run1Idx, hget, hq, specRun, hk]
        -- the other iterators are untouched and still within the (possibly longer) cache
        have hother : ∀ j q', j ≠ i → s.get j = some q' → q'.sat = sats j ∧ q'.idx ≤ d'.cache.length ∧
            ∃ k', st.lookup j = some k' ∧
              ((List.range n).drop q'.idx).filter ((sats j).contains ·) = (isolated n (sats j)).drop k' := by
          intro j q' _ hj
          obtain ⟨a, b, c⟩ := hsome j q' hj
          exact ⟨a, Nat.le_trans b hlen, c⟩
        rcases hres with ⟨hnil, rfl, hnil'⟩ | ⟨x, hx, rfl⟩
        · have hnone' := drop_eq_nil (hfil.symm.trans hnil)
          simp only [hnone']
          congr 1
          refine ih _ _ ⟨hdom', ?_, ?_⟩
          · intro j hj
            simp only [StateIdx.get, lookup_set] at hj
            by_cases hji : j = i
            · simp [hji] at hj
            · simp only [hji, if_false] at hj
              exact hnone j hj
          · intro j q' hj
            simp only [StateIdx.get, lookup_set] at hj
            by_cases hji : j = i
            · subst hji
              simp only [if_true, Option.some.injEq] at hj
              subst hj
              exact ⟨rfl, hi', k, hk, by rw [hnil', ← hfil, hnil]⟩
            · simp only [hji, if_false] at hj
              exact hother j q' hji hj
        · obtain ⟨hsome', hdrop⟩ := drop_eq_cons (hfil.symm.trans hx)
          simp only [hsome']
          congr 1
          refine ih _ _ ⟨hdom', ?_, ?_⟩
          · intro j hj
            simp only [StateIdx.get, lookup_set] at hj
            by_cases hji : j = i
            · simp [hji] at hj
            · simp only [hji, if_false] at hj
              simp only [lookup_set, hji, if_false]
              exact hnone j hj
          · intro j q' hj
            simp only [StateIdx.get, lookup_set] at hj
            by_cases hji : j = i
            · subst hji
              simp only [if_true, Option.some.injEq] at hj
              subst hj
              exact ⟨rfl, hi', k + 1, by simp, hdrop.symm⟩
            · simp only [hji, if_false] at hj
              simp only [lookup_set, hji, if_false]
              exact hother j q' hji hj

end KrroodVerif.Dom
