import KrroodVerif.Model.EqlRewrites
import KrroodVerif.Lemmas.EqlCover
/-!
Lemmas behind `Props/C02Rewrites.lean`: the first-order reading `satS` of the n-ary surface language, the readings of
chains (`foldWith`) and of `invertWith`, and the facts that tie the table `rewrites` to `build` / `mkOr` / `invert`.
Core Lean only.
-/
namespace KrroodVerif.Eql

/-! ## 1. First-order reading of the n-ary surface language -/

mutual
/-- the ordinary first-order reading of a surface expression; `and_(c1, …, cn)` / `or_(c1, …, cn)` evaluate EVERY operand
left to right (so the first error in writing order is the error of the whole) and combine the truth values -/
def satS (w : World) : Surface → Asg → Except Err Bool
  | .cmp op l r, σ => do
    let ls ← tvals w σ l; let rs ← tvals w σ r
    anyM ls fun a => anyM rs fun b => applyCmp w op a b
  | .contains c i, σ => do
    let cs ← tvals w σ c; let is ← tvals w σ i
    anyM cs fun a => anyM is fun b => applyContains w a b
  | .isIn i c, σ => do
    let cs ← tvals w σ c; let is ← tvals w σ i
    anyM cs fun a => anyM is fun b => applyContains w a b
  | .truth t, σ => do pure ((← tvals w σ t).any truthy)
  | .hasType t c, σ => do pure ((← tvals w σ t).any fun x => isInstance w x c)
  | .andN f r, σ => do let a ← satS w f σ; satListL w (· && ·) r σ a
  | .orN f r, σ => do let a ← satS w f σ; satListL w (· || ·) r σ a
  | .amp l r, σ => do pure ((← satS w l σ) && (← satS w r σ))
  | .bar l r, σ => do pure ((← satS w l σ) || (← satS w r σ))
  | .not e, σ => do pure (!(← satS w e σ))
  | .exists_ v e, σ => anyM (w.dom v) fun x => satS w e ((v, x) :: σ)
  | .forAll v e, σ => allM (w.dom v) fun x => satS w e ((v, x) :: σ)
def satListL (w : World) (op : Bool → Bool → Bool) : SList → Asg → Bool → Except Err Bool
  | .nil, _, acc => pure acc
  | .cons e r, σ, acc => do let b ← satS w e σ; satListL w op r σ (op acc b)
end

/-- the same left-to-right combination over already built operands -/
def foldAllE (w : World) (σ : Asg) (op : Bool → Bool → Bool) : List Expr → Bool → Except Err Bool
  | [], acc => pure acc
  | e :: r, acc => do let b ← satE w e σ; foldAllE w σ op r (op acc b)

/-! ## 2. chains -/

theorem foldAllE_assoc (w : World) (σ : Asg) (op : Bool → Bool → Bool)
    (hassoc : ∀ x y z, op x (op y z) = op (op x y) z) (x : Bool) :
    ∀ (es : List Expr) (b : Bool),
      (do let y ← foldAllE w σ op es b; pure (op x y)) = foldAllE w σ op es (op x b) := by
  intro es
  induction es with
  | nil => intro b; rfl
  | cons e r ih =>
    intro b
    simp only [foldAllE]
    cases h : satE w e σ with
    | error err => rfl
    | ok c =>
      have := ih (op b c)
      simp only [bind, Except.bind] at this ⊢
      rw [this, hassoc]

theorem satE_foldl (w : World) (σ : Asg) (op : Bool → Bool → Bool) (f : Expr → Expr → Expr)
    (hf : ∀ l r, satE w (f l r) σ = (do pure (op (← satE w l σ) (← satE w r σ)))) :
    ∀ (es : List Expr) (a : Expr),
      satE w (es.foldl f a) σ = (do let x ← satE w a σ; foldAllE w σ op es x) := by
  intro es
  induction es with
  | nil =>
    intro a
    simp only [List.foldl_nil, foldAllE]
    cases satE w a σ <;> rfl
  | cons e r ih =>
    intro a
    simp only [List.foldl_cons, foldAllE]
    rw [ih, hf]
    cases satE w a σ with
    | error err => rfl
    | ok x => cases satE w e σ <;> rfl

theorem satE_rightNest (w : World) (σ : Asg) (op : Bool → Bool → Bool) (f : Expr → Expr → Expr)
    (hassoc : ∀ x y z, op x (op y z) = op (op x y) z)
    (hf : ∀ l r, satE w (f l r) σ = (do pure (op (← satE w l σ) (← satE w r σ)))) :
    ∀ (es : List Expr) (a : Expr),
      satE w (rightNest f a es) σ = (do let x ← satE w a σ; foldAllE w σ op es x) := by
  intro es
  induction es with
  | nil =>
    intro a
    simp only [rightNest, foldAllE]
    cases satE w a σ <;> rfl
  | cons b r ih =>
    intro a
    simp only [rightNest, foldAllE]
    rw [hf, ih]
    cases satE w a σ with
    | error err => rfl
    | ok x =>
      cases hb : satE w b σ with
      | error err => rfl
      | ok y =>
        have := foldAllE_assoc w σ op hassoc x r y
        simp only [bind, Except.bind, pure, Except.pure] at this ⊢
        exact this

/-- the reading of a chain built by `chained_logic` in either admissible nesting -/
theorem satE_foldWith (w : World) (σ : Asg) (op : Bool → Bool → Bool) (f : Expr → Expr → Expr) (m : FoldMode)
    (hm : m ≠ .reversedNested)
    (hassoc : ∀ x y z, op x (op y z) = op (op x y) z)
    (hf : ∀ l r, satE w (f l r) σ = (do pure (op (← satE w l σ) (← satE w r σ))))
    (a : Expr) (es : List Expr) :
    satE w (foldWith m f a es) σ = (do let x ← satE w a σ; foldAllE w σ op es x) := by
  cases m with
  | leftNested => exact satE_foldl w σ op f hf es a
  | rightNested => exact satE_rightNest w σ op f hassoc hf es a
  | reversedNested => exact absurd rfl hm

/-! ## 3. `optimize_or` -/

theorem contains_map_var (r : List VarId) (x : VarId) : (r.map Key.var).contains (Key.var x) = r.contains x := by
  induction r with
  | nil => rfl
  | cons a r ih =>
    simp only [List.map_cons, List.contains_cons, ih]
    congr 1
    by_cases h : x = a
    · subst h; simp
    · have : Key.var x ≠ Key.var a := fun h' => h (Key.var.inj h')
      rw [beq_eq_false_iff_ne.mpr this, beq_eq_false_iff_ne.mpr h]

theorem all_contains_map_var (l r : List VarId) :
    (l.map Key.var).all ((r.map Key.var).contains ·) = l.all (r.contains ·) := by
  rw [List.all_map]
  congr 1
  funext x
  exact contains_map_var r x

/-- `optimize_or` as the table `rewrites` describes it is `mkOr` -/
theorem mkOrWith_rewrites (l r : Expr) : mkOrWith rewrites.orRule l r = mkOr l r := by
  simp only [mkOrWith, rewrites, operandKeys, VarTest.eval, if_true, all_contains_map_var, mkOr, sameSet, OrNode.mk]
  rfl

theorem orRule_eq_of_ok {o : OrRule} (h : okOrRule o = true) : o = rewrites.orRule := by
  obtain ⟨a, b, c, d, e⟩ := o
  simp only [okOrRule, Bool.and_eq_true, beq_iff_eq] at h
  obtain ⟨⟨⟨⟨h1, h2⟩, h3⟩, h4⟩, h5⟩ := h
  subst h1 h2 h3 h4 h5
  rfl

theorem mkOrWith_of_ok {o : OrRule} (h : okOrRule o = true) (l r : Expr) : mkOrWith o l r = mkOr l r := by
  rw [orRule_eq_of_ok h]; exact mkOrWith_rewrites l r

theorem satE_mkOr (w : World) (l r : Expr) (σ : Asg) :
    satE w (mkOr l r) σ = (do pure ((← satE w l σ) || (← satE w r σ))) := by
  simp only [mkOr]; split <;> simp only [satE]

/-- every disjunctive operator an admissible table can apply reads as `or` -/
theorem satE_mkBin_or (w : World) {o : OrRule} (h : okOrRule o = true) {c : BinCtor} (hc : c ≠ .and)
    (l r : Expr) (σ : Asg) :
    satE w (mkBin o c l r) σ = (do pure ((← satE w l σ) || (← satE w r σ))) := by
  cases c with
  | and => exact absurd rfl hc
  | elseIf => simp only [mkBin, satE]
  | union => simp only [mkBin, satE]
  | optOr => simp only [mkBin, mkOrWith_of_ok h, satE_mkOr]

/-! ## 4. `_invert_` -/

theorem lookup_mem {α β} [BEq α] [LawfulBEq α] {l : List (α × β)} {k : α} {v : β}
    (h : l.lookup k = some v) : (k, v) ∈ l := by
  induction l with
  | nil => cases h
  | cons p r ih =>
    obtain ⟨a, b⟩ := p
    simp only [List.lookup_cons] at h
    by_cases hk : k == a
    · simp only [hk] at h
      cases h
      have : k = a := by simpa using hk
      subst this
      exact List.mem_cons_self
    · have hk' : (k == a) = false := by simpa using hk
      simp only [hk'] at h
      exact List.mem_cons_of_mem _ (ih h)

theorem not_not_pure (x : Except Err Bool) : (do pure (!(← (do pure (!(← x)) : Except Err Bool)))) = x := by
  cases x with
  | error e => rfl
  | ok b => cases b <;> rfl

theorem deMorgan_or (a b : Except Err Bool) :
    (do pure ((← (do pure (!(← a)) : Except Err Bool)) || (← (do pure (!(← b)) : Except Err Bool)))) =
      (do pure (!(← (do pure ((← a) && (← b)) : Except Err Bool))) : Except Err Bool) := by
  cases a with
  | error e => rfl
  | ok x =>
    cases b with
    | error e => rfl
    | ok y => cases x <;> cases y <;> rfl

theorem deMorgan_and (a b : Except Err Bool) :
    (do pure ((← (do pure (!(← a)) : Except Err Bool)) && (← (do pure (!(← b)) : Except Err Bool)))) =
      (do pure (!(← (do pure ((← a) || (← b)) : Except Err Bool))) : Except Err Bool) := by
  cases a with
  | error e => rfl
  | ok x =>
    cases b with
    | error e => rfl
    | ok y => cases x <;> cases y <;> rfl

theorem satE_invComparatorWith (w : World) {rule : InvRule} (h : okComparator rule = true)
    (k : OpK) (hk : k ≠ .notContains) (l r : Term) (σ : Asg) :
    satE w (invComparatorWith rule k l r) σ = (do pure (!(← satE w (k.mk l r) σ))) := by
  cases rule with
  | opTable tbl =>
    simp only [invComparatorWith]
    split
    · rename_i k' hl
      have hm := lookup_mem hl
      simp only [okComparator, List.all_eq_true] at h
      have := h _ hm
      simp only [Bool.or_eq_true, beq_iff_eq, Prod.mk.injEq] at this
      rcases this with h1 | ⟨h1, h2⟩
      · exact absurd h1 hk
      · subst h1 h2; simp only [OpK.mk, satE]
    · simp only [satE]
  | wrapNot => simp only [invComparatorWith, satE]
  | operand _ => simp [okComparator] at h
  | bin _ _ _ => simp [okComparator] at h
  | quant _ _ => simp [okComparator] at h

/-- the conjuncts of `RewritesOk` -/
structure RewritesOkP (t : RewriteTable) : Prop where
  orRule : okOrRule t.orRule = true
  fold : t.fold ≠ .reversedNested
  andOp : t.andOp = .and
  orOp : t.orOp = .optOr
  ampOp : t.ampOp = .and
  barOp : t.barOp = .optOr
  existsCtor : t.existsCtor = .exists_
  forAllCtor : t.forAllCtor = .forAll
  containsSwapped : t.containsSwapped = false
  inSwapped : t.inSwapped = false
  invComparator : okComparator t.invComparator = true
  invTerm : okTerm t.invTerm = true
  invAnd : okInvAnd t.invAnd = true
  invElseIf : okInvOr t.invElseIf = true
  invUnion : okInvOr t.invUnion = true
  invNot : okInvNot t.invNot = true
  invExists : okInvExists t.invExists = true
  invForAll : okInvForAll t.invForAll = true

theorem RewritesOk.unpack {t : RewriteTable} (h : RewritesOk t = true) : RewritesOkP t := by
  simp only [RewritesOk, Bool.and_eq_true, bne_iff_ne, ne_eq, beq_iff_eq, Bool.not_eq_true'] at h
  obtain ⟨⟨⟨⟨⟨⟨⟨⟨⟨⟨⟨⟨⟨⟨⟨⟨⟨h1, h2⟩, h3⟩, h4⟩, h4a⟩, h4b⟩, h5⟩, h6⟩, h7⟩, h8⟩, h9⟩, h10⟩, h11⟩, h12⟩, h13⟩, h14⟩, h15⟩, h16⟩ := h
  exact ⟨h1, h2, h3, h4, h4a, h4b, h5, h6, h7, h8, h9, h10, h11, h12, h13, h14, h15, h16⟩

theorem satE_invBinWith_and (w : World) {o : OrRule} (ho : okOrRule o = true) {rule : InvRule}
    (h : okInvAnd rule = true) (l r li ri : Expr) (σ : Asg)
    (hl : satE w li σ = (do pure (!(← satE w l σ)))) (hr : satE w ri σ = (do pure (!(← satE w r σ)))) :
    satE w (invBinWith o rule (.and l r) l r li ri) σ = (do pure (!(← satE w (.and l r) σ))) := by
  cases rule with
  | wrapNot => simp only [invBinWith, satE]
  | bin c a b =>
    cases a <;> cases b <;> simp only [okInvAnd, Bool.false_eq_true] at h
    have hc : c ≠ .and := by simpa using h
    simp only [invBinWith, Arg.pick]
    rw [satE_mkBin_or w ho hc, hl, hr]
    simp only [satE]
    exact deMorgan_or _ _
  | operand _ => simp [okInvAnd] at h
  | quant _ _ => simp [okInvAnd] at h
  | opTable _ => simp [okInvAnd] at h

theorem satE_invBinWith_or (w : World) {o : OrRule} {rule : InvRule}
    (h : okInvOr rule = true) (self l r li ri : Expr) (σ : Asg)
    (hself : satE w self σ = (do pure ((← satE w l σ) || (← satE w r σ))))
    (hl : satE w li σ = (do pure (!(← satE w l σ)))) (hr : satE w ri σ = (do pure (!(← satE w r σ)))) :
    satE w (invBinWith o rule self l r li ri) σ = (do pure (!(← satE w self σ))) := by
  cases rule with
  | wrapNot => simp only [invBinWith, satE]
  | bin c a b =>
    cases c <;> cases a <;> cases b <;> simp only [okInvOr, Bool.false_eq_true] at h
    simp only [invBinWith, Arg.pick, mkBin, satE]
    rw [hl, hr, hself]
    exact deMorgan_and _ _
  | operand _ => simp [okInvOr] at h
  | quant _ _ => simp [okInvOr] at h
  | opTable _ => simp [okInvOr] at h

/-- **`_invert_` negates**: for every admissible table, the inversion of a built expression reads as the negation of the
expression (every node class, quantifiers included) -/
theorem satE_invertWith (w : World) {t : RewriteTable} (h : RewritesOk t = true) (e : Expr) :
    ∀ σ, satE w (invertWith t e) σ = (do pure (!(← satE w e σ))) := by
  have hp := RewritesOk.unpack h
  induction e with
  | cmp op l r =>
    intro σ
    exact satE_invComparatorWith w hp.invComparator (.cmp op) (by simp) l r σ
  | contains c i =>
    intro σ
    exact satE_invComparatorWith w hp.invComparator .contains (by simp) c i σ
  | truth x => intro σ; simp only [invertWith, satE]
  | hasType x c => intro σ; simp only [invertWith, satE]
  | and l r ihl ihr =>
    intro σ
    exact satE_invBinWith_and w hp.orRule hp.invAnd l r _ _ σ (ihl σ) (ihr σ)
  | elseIf l r ihl ihr =>
    intro σ
    exact satE_invBinWith_or w hp.invElseIf (.elseIf l r) l r _ _ σ (by simp only [satE]) (ihl σ) (ihr σ)
  | union l r ihl ihr =>
    intro σ
    exact satE_invBinWith_or w hp.invUnion (.union l r) l r _ _ σ (by simp only [satE]) (ihl σ) (ihr σ)
  | not e ih =>
    intro σ
    have hn := hp.invNot
    simp only [invertWith]
    cases hr : t.invNot with
    | wrapNot => simp only [invNotWith, satE]
    | operand inv =>
      cases inv <;> simp only [hr, okInvNot, Bool.false_eq_true] at hn
      simp only [invNotWith, satE, Bool.false_eq_true, if_false]
      exact (not_not_pure _).symm
    | bin _ _ _ => simp [hr, okInvNot] at hn
    | quant _ _ => simp [hr, okInvNot] at hn
    | opTable _ => simp [hr, okInvNot] at hn
  | exists_ v e ih =>
    intro σ
    have hn := hp.invExists
    simp only [invertWith]
    cases hr : t.invExists with
    | wrapNot => simp only [invQuantWith, satE]
    | quant q inv =>
      cases q <;> cases inv <;> simp only [hr, okInvExists, Bool.false_eq_true] at hn
      simp only [invQuantWith, QCtor.mk, if_true, satE, ih]
      exact allM_not _ _
    | bin _ _ _ => simp [hr, okInvExists] at hn
    | operand _ => simp [hr, okInvExists] at hn
    | opTable _ => simp [hr, okInvExists] at hn
  | forAll v e ih =>
    intro σ
    have hn := hp.invForAll
    simp only [invertWith]
    cases hr : t.invForAll with
    | wrapNot => simp only [invQuantWith, satE]
    | quant q inv =>
      cases q <;> cases inv <;> simp only [hr, okInvForAll, Bool.false_eq_true] at hn
      simp only [invQuantWith, QCtor.mk, if_true, satE, ih]
      exact anyM_not _ _
    | bin _ _ _ => simp [hr, okInvForAll] at hn
    | operand _ => simp [hr, okInvForAll] at hn
    | opTable _ => simp [hr, okInvForAll] at hn

/-- `not_` negates -/
theorem satE_notWith (w : World) {t : RewriteTable} (h : RewritesOk t = true) (e : Expr) (σ : Asg) :
    satE w (notWith t e) σ = (do pure (!(← satE w e σ))) := by
  simp only [notWith]
  split
  · exact satE_invertWith w h e σ
  · simp only [satE]

/-! ## 5. the table `rewrites` is `build` -/

theorem invertWith_rewrites (e : Expr) : invertWith rewrites e = invert e := by
  induction e with
  | exists_ v e ih => simp only [invertWith, rewrites, invQuantWith, QCtor.mk, if_true, invert]; rw [← ih]; rfl
  | forAll v e ih => simp only [invertWith, rewrites, invQuantWith, QCtor.mk, if_true, invert]; rw [← ih]; rfl
  | _ => rfl

end KrroodVerif.Eql
