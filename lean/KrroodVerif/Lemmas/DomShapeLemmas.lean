import KrroodVerif.Model.DomShape
import KrroodVerif.Lemmas.DomLemmas
/-!
Helper lemmas for `Props/C03Shape.lean`: the interpreter `stepS` of `Model/DomShape.lean` at the two shapes that have a
hand-written twin (`shape` ↔ `Dom.step`, `shapeIdx` ↔ `Dom.stepIdx`), lifted to `qnext`/`run` for ALL states and
schedules. Core Lean only.
-/
namespace KrroodVerif.Dom

theorem lookup_map_snd {β γ : Type} (f : β → γ) (l : List (Nat × β)) (i : Nat) :
    (l.map fun p => (p.1, f p.2)).lookup i = (l.lookup i).map f := by
  induction l with
  | nil => rfl
  | cons p t ih =>
    obtain ⟨a, b⟩ := p
    by_cases h : i == a
    · simp [List.lookup_cons, h]
    · simp [List.lookup_cons, h, ih]

theorem filter_map_snd {β γ : Type} (f : β → γ) (l : List (Nat × β)) (i : Nat) :
    (l.map fun p => (p.1, f p.2)).filter (·.1 != i) = (l.filter (·.1 != i)).map fun p => (p.1, f p.2) := by
  induction l with
  | nil => rfl
  | cons p t ih =>
    obtain ⟨a, b⟩ := p
    by_cases h : a != i
    · simp [h, ih]
    · simp [h, ih]

theorem getElem?_guard {α : Type} (l : List α) (i : Nat) : (if i < l.length then l[i]? else none) = l[i]? := by
  by_cases h : i < l.length
  · simp [h]
  · simp only [h, if_false]
    exact (List.getElem?_eq_none (by omega)).symm

/-! ### today's code: `stepS shape` is `step` -/

/-- **step_eq_interp** (every domain state, every cursor): the interpreter at today's shape is the hand-written
`Dom.step` -/
theorem step_eq_interp (d : Dom) (c : Cursor) :
    stepS shape (embD d) (embC c) = (embD (step d c).1, embC (step d c).2.1, (step d c).2.2) := by
  obtain ⟨cache, rest⟩ := d
  cases c with
  | fresh =>
    cases cache with
    | nil => cases rest <;> rfl
    | cons x xs => rfl
  | replay i size =>
    by_cases hs : cache.length = size
    · subst hs
      have hg := getElem?_guard cache i
      simp only [stepS, step, embD, embC, shape, bne_self_eq_false, Bool.and_false, Bool.false_eq_true, if_false,
        show (Phase1.liveView == Phase1.index) = false from rfl, hg]
      cases hx : cache[i]? with
      | some x => rfl
      | none => cases rest <;> rfl
    · have hb : (cache.length != size) = true := by simpa using hs
      simp [stepS, step, embD, embC, shape, hb]
  | drain => cases rest <;> rfl
  | done => rfl

theorem qnext_eq_interp (sat : List Nat) : ∀ (fuel : Nat) (d : Dom) (c : Cursor),
    qnextS shape (embD d) ⟨embC c, sat⟩ fuel =
      (embD (qnext d ⟨c, sat⟩ fuel).1, embQ (qnext d ⟨c, sat⟩ fuel).2.1, (qnext d ⟨c, sat⟩ fuel).2.2) := by
  intro fuel
  induction fuel with
  | zero => intro d c; rfl
  | succ fuel ih =>
    intro d c
    simp only [qnextS, qnext, step_eq_interp]
    rcases hst : step d c with ⟨d', c', o⟩
    cases o with
    | val x =>
      by_cases hx : sat.contains x = true
      · simp only [hx, if_true, embQ]
      · have hx' : sat.contains x = false := by simpa using hx
        simp only [hx', Bool.false_eq_true, if_false]
        exact ih d' c'
    | stop => rfl
    | runtimeError => rfl
    | valueError => rfl

theorem ownLen_embC (c : Cursor) : (embC c).ownLen = 0 := by cases c <;> rfl

/-- **run_eq_interp** (every state, EVERY schedule): the machine interpreted from today's shape and the hand-written
machine of `Model/Dom.lean` produce the same outputs -/
theorem run_eq_interp (sats : Nat → List Nat) : ∀ (ops : List Op) (st : State),
    runS shape sats (embS st) ops = run sats st ops := by
  intro ops
  induction ops with
  | nil => intro st; rfl
  | cons op ops ih =>
    intro st
    cases op with
    | start i =>
      simp only [runS, run, run1S, run1]
      congr 1
      rw [← ih]
      congr 1
      simp only [embS, State.set, filter_map_snd embQ]
      rfl
    | abandon i =>
      simp only [runS, run, run1S, run1]
      congr 1
      rw [← ih]
      congr 1
      simp only [embS, filter_map_snd embQ]
    | next i =>
      simp only [runS, run, run1S, run1, State.get]
      have hl : (embS st).its.lookup i = (st.its.lookup i).map embQ := by
        simp only [embS]; exact lookup_map_snd embQ st.its i
      rw [hl]
      cases hq : st.its.lookup i with
      | none =>
        simp only [Option.map_none]
        congr 1
        exact ih st
      | some q =>
        obtain ⟨qc, qs⟩ := q
        simp only [Option.map_some, embQ, ownLen_embC, Nat.add_zero]
        have hf : (embS st).dom.cache.length + (embS st).dom.rest.length + 2 =
            st.dom.cache.length + st.dom.rest.length + 2 := rfl
        rw [hf]
        have hd : (embS st).dom = embD st.dom := rfl
        rw [hd, qnext_eq_interp]
        congr 1
        rw [← ih]
        congr 1
        simp only [embS, filter_map_snd embQ]
        rfl

theorem embS_init (n : Nat) : embS (init n) = initS n := rfl

/-! ### the repaired code: `stepS shapeIdx` is `stepIdx` -/

theorem finish_idx (d : SDom) : finish shapeIdx d [] = d := by
  obtain ⟨c, r, b⟩ := d
  simp [finish, shapeIdx, shape]

/-- **stepIdx_eq_interp** (every domain state, every index): the interpreter at the repaired shape is the hand-written
`Dom.stepIdx` -/
theorem stepIdx_eq_interp (d : Dom) (i : Nat) :
    stepS shapeIdx (embD d) (embI i) = (embD (stepIdx d i).1, embI (stepIdx d i).2.1, (stepIdx d i).2.2) := by
  obtain ⟨cache, rest⟩ := d
  by_cases hi : i = 0
  · subst hi
    cases cache with
    | nil =>
      cases rest with
      | nil =>
        simp only [embI, if_true, stepS, truthy, shapeIdx, shape, embD, afterReplay, idxPull, stepIdx]
        simp [finish]
      | cons y ys => rfl
    | cons x xs => rfl
  · simp only [embI, hi, if_false, stepS, shapeIdx, shape, embD, stepIdx]
    simp only [show (Phase1.index == Phase1.liveView) = false from rfl, Bool.false_and, Bool.false_eq_true, if_false,
      show (Phase1.index == Phase1.index) = true from rfl, if_true, getElem?_guard]
    by_cases hlt : i < cache.length
    · simp [List.getElem?_eq_getElem hlt]
    · have hn : cache[i]? = none := List.getElem?_eq_none (by omega)
      simp only [hn]
      cases rest with
      | nil => simp [afterReplay, idxPull, finish, embI, hi]
      | cons y ys => simp [afterReplay, idxPull]

theorem qnextIdx_eq_interp (sat : List Nat) : ∀ (fuel : Nat) (d : Dom) (i : Nat),
    qnextS shapeIdx (embD d) ⟨embI i, sat⟩ fuel =
      (embD (qnextIdx d ⟨i, sat⟩ fuel).1, embQI (qnextIdx d ⟨i, sat⟩ fuel).2.1, (qnextIdx d ⟨i, sat⟩ fuel).2.2) := by
  intro fuel
  induction fuel with
  | zero => intro d i; rfl
  | succ fuel ih =>
    intro d i
    simp only [qnextS, qnextIdx, stepIdx_eq_interp]
    rcases hst : stepIdx d i with ⟨d', i', o⟩
    cases o with
    | val x =>
      by_cases hx : sat.contains x = true
      · simp only [hx, if_true, embQI]
      · have hx' : sat.contains x = false := by simpa using hx
        simp only [hx', Bool.false_eq_true, if_false]
        exact ih d' i'
    | stop => rfl
    | runtimeError => rfl
    | valueError => rfl

theorem ownLen_embI (i : Nat) : (embI i).ownLen = 0 := by
  unfold embI; split <;> rfl

/-- **runIdx_eq_interp** (every state, EVERY schedule) -/
theorem runIdx_eq_interp (sats : Nat → List Nat) : ∀ (ops : List Op) (st : StateIdx),
    runS shapeIdx sats (embSI st) ops = runIdx sats st ops := by
  intro ops
  induction ops with
  | nil => intro st; rfl
  | cons op ops ih =>
    intro st
    cases op with
    | start i =>
      simp only [runS, runIdx, run1S, run1Idx]
      congr 1
      rw [← ih]
      congr 1
      simp only [embSI, StateIdx.set, filter_map_snd embQI]
      rfl
    | abandon i =>
      simp only [runS, runIdx, run1S, run1Idx]
      congr 1
      rw [← ih]
      congr 1
      simp only [embSI, filter_map_snd embQI]
    | next i =>
      simp only [runS, runIdx, run1S, run1Idx, StateIdx.get]
      have hl : (embSI st).its.lookup i = (st.its.lookup i).map embQI := by
        simp only [embSI]; exact lookup_map_snd embQI st.its i
      rw [hl]
      cases hq : st.its.lookup i with
      | none =>
        simp only [Option.map_none]
        congr 1
        exact ih st
      | some q =>
        obtain ⟨qi, qs⟩ := q
        simp only [Option.map_some, embQI, ownLen_embI, Nat.add_zero]
        have hf : (embSI st).dom.cache.length + (embSI st).dom.rest.length + 2 =
            st.dom.cache.length + st.dom.rest.length + 2 := rfl
        rw [hf]
        have hd : (embSI st).dom = embD st.dom := rfl
        rw [hd, qnextIdx_eq_interp]
        congr 1
        rw [← ih]
        congr 1
        simp only [embSI, filter_map_snd embQI]
        rfl

theorem embSI_init (n : Nat) : embSI (initIdx n) = initS n := rfl

end KrroodVerif.Dom
