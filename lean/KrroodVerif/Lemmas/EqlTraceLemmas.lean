import KrroodVerif.Model.EqlTrace
/-!
Helper lemmas for C10 (laziness): inversion of the `Except` combinators used by `Eql.eval`, and the list facts
about the trace observations `rowsOf`, `vis`, `uptoRow`, `pulled`.
Core Lean only.
-/
namespace KrroodVerif.Eql

/-! ### `Except` inversion -/

theorem bind_eq_ok {α β} (a : Except Err α) (f : α → Except Err β) (b : β) :
    (a >>= f) = .ok b ↔ ∃ x, a = .ok x ∧ f x = .ok b := by
  cases a <;> simp [bind, Except.bind]

theorem pure_eq_ok {α} (a b : α) : (pure a : Except Err α) = .ok b ↔ a = b := by
  simp [pure, Except.pure]

theorem flatMapM_nil {α β} (f : α → Except Err (List β)) : flatMapM [] f = .ok [] := rfl

theorem flatMapM_cons_eq_ok {α β} (x : α) (xs : List α) (f : α → Except Err (List β)) (ys : List β) :
    flatMapM (x :: xs) f = .ok ys ↔ ∃ a b, f x = .ok a ∧ flatMapM xs f = .ok b ∧ ys = a ++ b := by
  simp only [flatMapM, bind_eq_ok, pure_eq_ok]
  constructor
  · rintro ⟨a, ha, b, hb, rfl⟩; exact ⟨a, b, ha, hb, rfl⟩
  · rintro ⟨a, b, ha, hb, rfl⟩; exact ⟨a, ha, b, hb, rfl⟩

theorem mapM_cons_eq_ok {α β} (x : α) (xs : List α) (f : α → Except Err β) (ys : List β) :
    (x :: xs).mapM f = .ok ys ↔ ∃ a b, f x = .ok a ∧ xs.mapM f = .ok b ∧ ys = a :: b := by
  simp only [List.mapM_cons, bind_eq_ok, pure_eq_ok]
  constructor
  · rintro ⟨a, ha, b, hb, rfl⟩; exact ⟨a, b, ha, hb, rfl⟩
  · rintro ⟨a, b, ha, hb, rfl⟩; exact ⟨a, ha, b, hb, rfl⟩

theorem mapM_nil_eq_ok {α β} (f : α → Except Err β) (ys : List β) :
    ([] : List α).mapM f = .ok ys ↔ ys = [] := by
  simp only [List.mapM_nil, pure_eq_ok]; exact eq_comm

/-- inversion of `flatMapM`: success means every element succeeds, and the result is the plain `flatMap` -/
theorem flatMapM_eq_ok {α β} (xs : List α) (f : α → Except Err (List β)) (ys : List β)
    (h : flatMapM xs f = .ok ys) :
    ∃ g : α → List β, (∀ x ∈ xs, f x = .ok (g x)) ∧ ys = xs.flatMap g := by
  refine ⟨fun x => match f x with | .ok a => a | .error _ => [], ?_, ?_⟩
  · induction xs generalizing ys with
    | nil => intro x hx; cases hx
    | cons x xs ih =>
      obtain ⟨a, b, ha, hb, rfl⟩ := (flatMapM_cons_eq_ok ..).1 h
      intro y hy
      rcases List.mem_cons.1 hy with rfl | hy
      · simp [ha]
      · exact ih b hb y hy
  · induction xs generalizing ys with
    | nil => simpa [flatMapM] using h.symm
    | cons x xs ih =>
      obtain ⟨a, b, ha, hb, rfl⟩ := (flatMapM_cons_eq_ok ..).1 h
      simp only [List.flatMap_cons, ha]
      rw [← ih b hb]

/-- inversion of `List.mapM` in `Except` -/
theorem mapM_eq_ok {α β} [Inhabited β] (xs : List α) (f : α → Except Err β) (ys : List β)
    (h : xs.mapM f = .ok ys) :
    ∃ g : α → β, (∀ x ∈ xs, f x = .ok (g x)) ∧ ys = xs.map g := by
  refine ⟨fun x => match f x with | .ok a => a | .error _ => default, ?_, ?_⟩
  · induction xs generalizing ys with
    | nil => intro x hx; cases hx
    | cons x xs ih =>
      obtain ⟨a, b, ha, hb, rfl⟩ := (mapM_cons_eq_ok ..).1 h
      intro y hy
      rcases List.mem_cons.1 hy with rfl | hy
      · simp [ha]
      · exact ih b hb y hy
  · induction xs generalizing ys with
    | nil => simpa using (mapM_nil_eq_ok f ys).1 h
    | cons x xs ih =>
      obtain ⟨a, b, ha, hb, rfl⟩ := (mapM_cons_eq_ok ..).1 h
      simp only [List.map_cons, ha]
      rw [← ih b hb]

/-- fused form of `flatMapM_eq_ok`: to show `xs.flatMap F = ys.flatMap G` it suffices to do so elementwise -/
theorem flatMapM_ok_flatMap {α β γ} (xs : List α) (f : α → Except Err (List β)) (ys : List β)
    (F : α → List γ) (G : β → List γ)
    (h : flatMapM xs f = .ok ys)
    (hFG : ∀ x ∈ xs, ∀ zs, f x = .ok zs → F x = zs.flatMap G) :
    xs.flatMap F = ys.flatMap G := by
  induction xs generalizing ys with
  | nil => cases h; rfl
  | cons x xs ih =>
    obtain ⟨a, b, ha, hb, rfl⟩ := (flatMapM_cons_eq_ok ..).1 h
    rw [List.flatMap_cons, List.flatMap_append, hFG x (List.mem_cons_self ..) a ha,
      ih b hb (fun y hy => hFG y (List.mem_cons_of_mem _ hy))]

theorem mapM_ok_flatMap {α β γ} (xs : List α) (f : α → Except Err β) (ys : List β)
    (F : α → List γ) (G : β → List γ)
    (h : xs.mapM f = .ok ys)
    (hFG : ∀ x ∈ xs, ∀ y, f x = .ok y → F x = G y) :
    xs.flatMap F = ys.flatMap G := by
  induction xs generalizing ys with
  | nil => cases (mapM_nil_eq_ok f ys).1 h; rfl
  | cons x xs ih =>
    obtain ⟨a, b, ha, hb, rfl⟩ := (mapM_cons_eq_ok ..).1 h
    rw [List.flatMap_cons, List.flatMap_cons, hFG x (List.mem_cons_self ..) a ha,
      ih b hb (fun y hy => hFG y (List.mem_cons_of_mem _ hy))]

theorem flatMapM_congr {α β} (xs : List α) (f g : α → Except Err (List β))
    (h : ∀ x ∈ xs, f x = g x) : flatMapM xs f = flatMapM xs g := by
  induction xs with
  | nil => rfl
  | cons x xs ih =>
    simp only [flatMapM, h x (List.mem_cons_self ..), ih (fun y hy => h y (List.mem_cons_of_mem _ hy))]

theorem mapM_congr' {α β} (xs : List α) (f g : α → Except Err β)
    (h : ∀ x ∈ xs, f x = g x) : xs.mapM f = xs.mapM g := by
  induction xs with
  | nil => rfl
  | cons x xs ih =>
    simp only [List.mapM_cons, h x (List.mem_cons_self ..), ih (fun y hy => h y (List.mem_cons_of_mem _ hy))]

theorem flatMapM_append_eq_ok {α β} (xs ys : List α) (f : α → Except Err (List β)) (zs : List β) :
    flatMapM (xs ++ ys) f = .ok zs ↔
      ∃ a b, flatMapM xs f = .ok a ∧ flatMapM ys f = .ok b ∧ zs = a ++ b := by
  induction xs generalizing zs with
  | nil =>
    simp only [List.nil_append, flatMapM_nil, Except.ok.injEq]
    constructor
    · intro h; exact ⟨[], zs, rfl, h, rfl⟩
    · rintro ⟨a, b, rfl, hb, rfl⟩; exact hb
  | cons x xs ih =>
    simp only [List.cons_append, flatMapM_cons_eq_ok, ih]
    constructor
    · rintro ⟨a, _, ha, ⟨b, c, hb, hc, rfl⟩, rfl⟩
      exact ⟨a ++ b, c, ⟨a, b, ha, hb, rfl⟩, hc, by simp⟩
    · rintro ⟨_, c, ⟨a, b, ha, hb, rfl⟩, hc, rfl⟩
      exact ⟨a, b ++ c, ha, ⟨b, c, hb, hc, rfl⟩, by simp⟩

theorem mapM_append_eq_ok {α β} (xs ys : List α) (f : α → Except Err β) (zs : List β) :
    (xs ++ ys).mapM f = .ok zs ↔ ∃ a b, xs.mapM f = .ok a ∧ ys.mapM f = .ok b ∧ zs = a ++ b := by
  simp only [List.mapM_append, bind_eq_ok, pure_eq_ok]
  constructor
  · rintro ⟨a, ha, b, hb, rfl⟩; exact ⟨a, b, ha, hb, rfl⟩
  · rintro ⟨a, b, ha, hb, rfl⟩; exact ⟨a, ha, b, hb, rfl⟩

/-- every element of a successful `flatMapM` comes from a successful element computation -/
theorem mem_of_flatMapM_ok {α β} (xs : List α) (f : α → Except Err (List β)) (ys : List β)
    (h : flatMapM xs f = .ok ys) (y : β) (hy : y ∈ ys) : ∃ x ∈ xs, ∃ zs, f x = .ok zs ∧ y ∈ zs := by
  induction xs generalizing ys with
  | nil => cases h; cases hy
  | cons x xs ih =>
    obtain ⟨a, b, ha, hb, rfl⟩ := (flatMapM_cons_eq_ok ..).1 h
    rcases List.mem_append.1 hy with hy | hy
    · exact ⟨x, List.mem_cons_self .., a, ha, hy⟩
    · obtain ⟨x', hx', zs, hz, hyz⟩ := ih b hb hy
      exact ⟨x', List.mem_cons_of_mem _ hx', zs, hz, hyz⟩

theorem mem_of_mapM_ok {α β} (xs : List α) (f : α → Except Err β) (ys : List β)
    (h : xs.mapM f = .ok ys) (y : β) (hy : y ∈ ys) : ∃ x ∈ xs, f x = .ok y := by
  induction xs generalizing ys with
  | nil => cases (mapM_nil_eq_ok f ys).1 h; cases hy
  | cons x xs ih =>
    obtain ⟨a, b, ha, hb, rfl⟩ := (mapM_cons_eq_ok ..).1 h
    rcases List.mem_cons.1 hy with rfl | hy
    · exact ⟨x, List.mem_cons_self .., ha⟩
    · obtain ⟨x', hx', hz⟩ := ih b hb hy
      exact ⟨x', List.mem_cons_of_mem _ hx', hz⟩

/-! ### plain list facts -/

theorem flatMap_congr' {α β} (xs : List α) (f g : α → List β) (h : ∀ x ∈ xs, f x = g x) :
    xs.flatMap f = xs.flatMap g := by
  induction xs with
  | nil => rfl
  | cons x xs ih =>
    simp only [List.flatMap_cons, h x (List.mem_cons_self ..), ih (fun y hy => h y (List.mem_cons_of_mem _ hy))]

/-- a `flatMap` whose body is guarded by a Boolean is a `flatMap` over the filtered list -/
theorem flatMap_ite_filter {α β} (xs : List α) (p : α → Bool) (f : α → List β) :
    xs.flatMap (fun x => if p x then f x else []) = (xs.filter p).flatMap f := by
  induction xs with
  | nil => rfl
  | cons x xs ih =>
    cases hp : p x <;> simp [hp, ih]

/-! ### observations: `rowsOf`, `vis` -/

@[simp] theorem rowsOf_nil : rowsOf [] = [] := rfl
@[simp] theorem rowsOf_append (a b : List Ev) : rowsOf (a ++ b) = rowsOf a ++ rowsOf b := by
  simp [rowsOf, List.filterMap_append]
@[simp] theorem rowsOf_cons_pull (v i) (evs : List Ev) : rowsOf (Ev.pull v i :: evs) = rowsOf evs := rfl
@[simp] theorem rowsOf_cons_read (o n) (evs : List Ev) : rowsOf (Ev.read o n :: evs) = rowsOf evs := rfl
@[simp] theorem rowsOf_cons_err (e) (evs : List Ev) : rowsOf (Ev.err e :: evs) = rowsOf evs := rfl
@[simp] theorem rowsOf_cons_row (r) (evs : List Ev) : rowsOf (Ev.row r :: evs) = r :: rowsOf evs := rfl
theorem rowsOf_flatMap {α} (xs : List α) (f : α → List Ev) :
    rowsOf (xs.flatMap f) = xs.flatMap fun x => rowsOf (f x) := by
  simp [rowsOf, List.filterMap_flatMap]
@[simp] theorem rowsOf_map_row (rs : List (List Val)) : rowsOf (rs.map Ev.row) = rs := by
  induction rs with
  | nil => rfl
  | cons r rs ih => simp [ih]

/-- the events a consumer can see: results and escaping exceptions (pulls and attribute reads are erased) -/
def Ev.isVis : Ev → Bool | .row _ => true | .err _ => true | _ => false

def vis (evs : List Ev) : List Ev := evs.filter Ev.isVis

@[simp] theorem vis_nil : vis [] = [] := rfl
@[simp] theorem vis_append (a b : List Ev) : vis (a ++ b) = vis a ++ vis b := by simp [vis]
@[simp] theorem vis_cons_pull (v i) (evs : List Ev) : vis (Ev.pull v i :: evs) = vis evs := rfl
@[simp] theorem vis_cons_read (o n) (evs : List Ev) : vis (Ev.read o n :: evs) = vis evs := rfl
@[simp] theorem vis_cons_err (e) (evs : List Ev) : vis (Ev.err e :: evs) = Ev.err e :: vis evs := rfl
@[simp] theorem vis_cons_row (r) (evs : List Ev) : vis (Ev.row r :: evs) = Ev.row r :: vis evs := rfl
theorem vis_flatMap {α} (xs : List α) (f : α → List Ev) :
    vis (xs.flatMap f) = xs.flatMap fun x => vis (f x) := by
  simp [vis, List.filter_flatMap]
@[simp] theorem vis_map_row (rs : List (List Val)) : vis (rs.map Ev.row) = rs.map Ev.row := by
  induction rs with
  | nil => rfl
  | cons r rs ih => simp [ih]
@[simp] theorem vis_readEvent (x : Val) (n : AttrName) : vis (readEvent x n) = [] := by
  cases x <;> rfl

@[simp] theorem rowsOf_vis (evs : List Ev) : rowsOf (vis evs) = rowsOf evs := by
  induction evs with
  | nil => rfl
  | cons e evs ih => cases e <;> simp [ih]

theorem hasErr_eq_vis (evs : List Ev) : hasErr evs = hasErr (vis evs) := by
  induction evs with
  | nil => rfl
  | cons e evs ih => cases e <;> simp_all [hasErr]

theorem hasErr_map_row (rs : List (List Val)) : hasErr (rs.map Ev.row) = false := by
  induction rs with
  | nil => rfl
  | cons r rs ih => simp_all [hasErr]

/-! ### the consumer: `uptoRow` -/

theorem uptoRow_zero (evs : List Ev) : uptoRow 0 evs = [] := by
  cases evs <;> rfl

theorem uptoRow_prefix (k : Nat) (evs : List Ev) : uptoRow k evs <+: evs := by
  induction evs generalizing k with
  | nil => cases k <;> exact List.prefix_refl _
  | cons e evs ih =>
    cases k with
    | zero => exact List.nil_prefix
    | succ k =>
      simp only [uptoRow]
      split
      · split
        · exact (List.prefix_cons_inj e).2 List.nil_prefix
        · exact (List.prefix_cons_inj e).2 (ih k)
      · exact (List.prefix_cons_inj e).2 (ih (k + 1))

theorem rowsOf_uptoRow (k : Nat) (evs : List Ev) : rowsOf (uptoRow k evs) = (rowsOf evs).take k := by
  induction evs generalizing k with
  | nil => cases k <;> rfl
  | cons e evs ih =>
    cases k with
    | zero => rfl
    | succ k =>
      cases e with
      | row r =>
        simp only [uptoRow, Ev.isRow, if_true, rowsOf_cons_row, List.take_succ_cons]
        split
        · subst_vars; simp
        · simp [ih k]
      | pull v i => simp [uptoRow, Ev.isRow, ih (k + 1)]
      | read o n => simp [uptoRow, Ev.isRow, ih (k + 1)]
      | err e => simp [uptoRow, Ev.isRow, ih (k + 1)]

theorem uptoRow_succ_prefix (k : Nat) (evs : List Ev) : uptoRow k evs <+: uptoRow (k + 1) evs := by
  induction evs generalizing k with
  | nil => cases k <;> exact List.prefix_refl _
  | cons e evs ih =>
    cases k with
    | zero => exact List.nil_prefix
    | succ k =>
      simp only [uptoRow]
      split
      · have hk : k + 1 ≠ 0 := by omega
        simp only [hk, if_false]
        split
        · subst_vars
          exact (List.prefix_cons_inj e).2 List.nil_prefix
        · exact (List.prefix_cons_inj e).2 (ih k)
      · exact (List.prefix_cons_inj e).2 (ih (k + 1))

/-! ### `pulled` -/

/-- one step of the fold in `pulled` -/
def pullStep (v : VarId) (m : Nat) (e : Ev) : Nat :=
  match e with | .pull v' i => if v' == v then max m (i + 1) else m | _ => m

theorem pulled_eq_foldl (v : VarId) (evs : List Ev) : pulled v evs = evs.foldl (pullStep v) 0 := rfl

theorem le_pullStep (v : VarId) (m : Nat) (e : Ev) : m ≤ pullStep v m e := by
  unfold pullStep; split
  · split
    · exact Nat.le_max_left ..
    · exact Nat.le_refl _
  · exact Nat.le_refl _

theorem le_foldl_pullStep (v : VarId) (evs : List Ev) (m : Nat) : m ≤ evs.foldl (pullStep v) m := by
  induction evs generalizing m with
  | nil => exact Nat.le_refl _
  | cons e evs ih => exact Nat.le_trans (le_pullStep v m e) (ih _)

theorem pulled_append_le (v : VarId) (a b : List Ev) : pulled v a ≤ pulled v (a ++ b) := by
  rw [pulled_eq_foldl, pulled_eq_foldl, List.foldl_append]
  exact le_foldl_pullStep ..

/-- `pulled` is monotone under list prefix -/
theorem pulled_mono_prefix (v : VarId) {a b : List Ev} (h : a <+: b) : pulled v a ≤ pulled v b := by
  obtain ⟨c, rfl⟩ := h
  exact pulled_append_le v a c

theorem foldl_pullStep_le (v : VarId) (n : Nat) (evs : List Ev) (m : Nat) (hm : m ≤ n)
    (h : ∀ i, Ev.pull v i ∈ evs → i < n) : evs.foldl (pullStep v) m ≤ n := by
  induction evs generalizing m with
  | nil => exact hm
  | cons e evs ih =>
    refine ih _ ?_ (fun i hi => h i (List.mem_cons_of_mem _ hi))
    unfold pullStep; split
    · rename_i v' i
      split
      · rename_i hv
        have : v' = v := by simpa using hv
        subst this
        have := h i (List.mem_cons_self ..)
        exact Nat.max_le.2 ⟨hm, this⟩
      · exact hm
    · exact hm

/-- if every pull of `v` in the trace has an index below `n`, at most `n` elements were pulled -/
theorem pulled_le_of_forall (v : VarId) (n : Nat) (evs : List Ev)
    (h : ∀ i, Ev.pull v i ∈ evs → i < n) : pulled v evs ≤ n :=
  foldl_pullStep_le v n evs 0 (Nat.zero_le _) h

theorem mem_enumFrom {α} (l : List α) (s : Nat) (p : Nat × α) (h : p ∈ enumFrom s l) :
    s ≤ p.1 ∧ p.1 < s + l.length ∧ p.2 ∈ l := by
  induction l generalizing s with
  | nil => cases h
  | cons x l ih =>
    rcases List.mem_cons.1 h with rfl | h
    · simp
    · have := ih (s + 1) h
      simp only [List.length_cons, List.mem_cons]
      exact ⟨by omega, by omega, Or.inr this.2.2⟩

/-! ### definitions used in the statements of C10 -/

/-- the world with `x`'s domain replaced by `d` (everything else unchanged) -/
def World.setDom (w : World) (x : VarId) (d : List Val) : World := { w with doms := (x, d) :: w.doms }

@[simp] theorem setDom_dom_self (w : World) (x : VarId) (d : List Val) : (w.setDom x d).dom x = d := by
  simp [World.setDom, World.dom]

theorem setDom_dom_ne (w : World) (x v : VarId) (d : List Val) (h : v ≠ x) : (w.setDom x d).dom v = w.dom v := by
  have : (v == x) = false := by simpa using h
  simp [World.setDom, World.dom, List.lookup, this]

@[simp] theorem getAttr_setDom (w : World) (x : VarId) (d : List Val) : getAttr (w.setDom x d) = getAttr w := rfl
@[simp] theorem applyCmp_setDom (w : World) (x : VarId) (d : List Val) : applyCmp (w.setDom x d) = applyCmp w := rfl
@[simp] theorem applyContains_setDom (w : World) (x : VarId) (d : List Val) :
    applyContains (w.setDom x d) = applyContains w := rfl
@[simp] theorem isInstance_setDom (w : World) (x : VarId) (d : List Val) :
    isInstance (w.setDom x d) = isInstance w := rfl

/-- root variable of a term (`none` for a literal-rooted chain) -/
def Term.root : Term → Option VarId
  | .var v => some v
  | .lit _ _ => none
  | .attr t _ | .index t _ | .flatten t => t.root

/-- the variable whose domain the evaluation from the empty environment enumerates first -/
def firstVar : Expr → Option VarId
  | .cmp _ l _ | .contains l _ => l.root
  | .truth t | .hasType t _ => t.root
  | .and l _ | .elseIf l _ | .not l => firstVar l
  | .union .. | .exists_ .. | .forAll .. => none

def Expr.unionFree : Expr → Bool
  | .cmp .. | .contains .. | .truth _ | .hasType .. => true
  | .and l r | .elseIf l r => l.unionFree && r.unionFree
  | .union .. => false
  | .not e | .exists_ _ e | .forAll _ e => e.unionFree

/-- quantifier-free expressions: no `exists_` / `forAll` anywhere -/
def Expr.QF : Expr → Bool
  | .cmp .. | .contains .. | .truth _ | .hasType .. => true
  | .and l r | .elseIf l r | .union l r => l.QF && r.QF
  | .not e => e.QF
  | .exists_ .. | .forAll .. => false


/-! ### the trace agrees with the list model on consumer-visible events -/

theorem vis_enumFrom_pull {α} (v : VarId) (l : List α) (s : Nat) (g : α → List Ev) :
    vis ((enumFrom s l).flatMap fun p => Ev.pull v p.1 :: g p.2) = l.flatMap fun x => vis (g x) := by
  induction l generalizing s with
  | nil => rfl
  | cons x l ih => simp [enumFrom, ih]

theorem traceVar_vis (w : World) (cp : Bool) (v : VarId) (env : Env) (k : Kont) :
    vis (traceVar w cp v env k) = (evalVarAt w cp v env).flatMap fun r => vis (k r.1 r.2.1 r.2.2) := by
  cases h : env.lookup (.var v) with
  | some x => simp [traceVar, evalVarAt, h]
  | none =>
    simp only [traceVar, evalVarAt, h, List.flatMap_map]
    exact vis_enumFrom_pull v (w.dom v) 0 (fun x => k ((.var v, x) :: env) x true)

theorem traceTerm_vis (w : World) (c : Bool) (t : Term) (env : Env) (k : Kont) (rs : List (Env × Val × Bool))
    (h : evalTerm w c t env = .ok rs) :
    vis (traceTerm w c t env k) = rs.flatMap fun r => vis (k r.1 r.2.1 r.2.2) := by
  induction t generalizing c env k rs with
  | var v =>
    simp only [evalTerm, Except.ok.injEq] at h
    subst h
    exact traceVar_vis w c v env k
  | lit id x =>
    simp only [evalTerm] at h
    simp only [traceTerm]
    split at h <;> (simp only [Except.ok.injEq] at h; subst h; simp [*])
  | attr t n ih =>
    simp only [evalTerm, bind_eq_ok] at h
    obtain ⟨r0, h0, h1⟩ := h
    simp only [traceTerm]
    rw [ih _ _ _ _ h0]
    refine mapM_ok_flatMap _ _ _ _ _ h1 ?_
    intro r _ y hy
    simp only [bind_eq_ok, pure_eq_ok] at hy
    obtain ⟨x, hx, rfl⟩ := hy
    simp [hx]
  | index t i ih =>
    simp only [evalTerm, bind_eq_ok] at h
    obtain ⟨r0, h0, h1⟩ := h
    simp only [traceTerm]
    rw [ih _ _ _ _ h0]
    refine mapM_ok_flatMap _ _ _ _ _ h1 ?_
    intro r _ y hy
    simp only [bind_eq_ok, pure_eq_ok] at hy
    obtain ⟨x, hx, rfl⟩ := hy
    simp [hx]
  | flatten t ih =>
    simp only [evalTerm, bind_eq_ok] at h
    obtain ⟨r0, h0, h1⟩ := h
    simp only [traceTerm]
    rw [ih _ _ _ _ h0]
    refine flatMapM_ok_flatMap _ _ _ _ _ h1 ?_
    intro r _ y hy
    simp only [bind_eq_ok, pure_eq_ok] at hy
    obtain ⟨x, hx, rfl⟩ := hy
    simp [hx, vis_flatMap, List.flatMap_map]

theorem traceCmp_vis (w : World) (l r : Term) (op : Val → Val → Except Err Bool) (env : Env)
    (k : Env → Bool → List Ev) (rs : List (Env × Bool))
    (h : evalCmp w l r op env = .ok rs) :
    vis (traceCmp w l r op env k) = rs.flatMap fun p => vis (k p.1 p.2) := by
  simp only [evalCmp, bind_eq_ok] at h
  obtain ⟨r1, h1, h2⟩ := h
  simp only [traceCmp]
  rw [traceTerm_vis _ _ _ _ _ _ h1]
  simp only [apply_ite vis, vis_nil]
  rw [flatMap_ite_filter]
  refine flatMapM_ok_flatMap _ _ _ _ _ h2 ?_
  intro p1 _ zs hz
  simp only [bind_eq_ok] at hz
  obtain ⟨r2, h3, h4⟩ := hz
  rw [traceTerm_vis _ _ _ _ _ _ h3]
  simp only [apply_ite vis, vis_nil]
  rw [flatMap_ite_filter]
  refine mapM_ok_flatMap _ _ _ _ _ h4 ?_
  intro p2 hp2 y hy
  simp only [bind_eq_ok, pure_eq_ok] at hy
  obtain ⟨b, hb, rfl⟩ := hy
  simp only [hb]



theorem traceE_vis (w : World) (e : Expr) (hq : e.QF = true) (env : Env) (k : Env → Bool → List Ev)
    (rs : List (Env × Bool)) (h : eval w e env = .ok rs) :
    vis (traceE w e env k) = rs.flatMap fun p => vis (k p.1 p.2) := by
  induction e generalizing env k rs with
  | cmp op l r => exact traceCmp_vis w l r _ env k rs h
  | contains c i => exact traceCmp_vis w c i _ env k rs h
  | truth t =>
    simp only [eval, bind_eq_ok, pure_eq_ok] at h
    obtain ⟨r0, h0, rfl⟩ := h
    simp only [traceE]
    rw [traceTerm_vis _ _ _ _ _ _ h0, List.flatMap_map]
  | hasType t c =>
    simp only [eval, bind_eq_ok, pure_eq_ok] at h
    obtain ⟨r0, h0, rfl⟩ := h
    simp only [traceE]
    rw [traceTerm_vis _ _ _ _ _ _ h0, List.flatMap_map]
  | and l r ihl ihr =>
    simp only [Expr.QF, Bool.and_eq_true] at hq
    simp only [eval, bind_eq_ok] at h
    obtain ⟨ls, h0, h1⟩ := h
    simp only [traceE]
    rw [ihl hq.1 _ _ _ h0]
    refine flatMapM_ok_flatMap _ _ _ _ _ h1 ?_
    intro p _ zs hz
    split at hz
    · rename_i hp; simp only [hp, if_true]; exact ihr hq.2 _ _ _ hz
    · rename_i hp
      simp only [pure_eq_ok] at hz; subst hz
      simp [hp]
  | elseIf l r ihl ihr =>
    simp only [Expr.QF, Bool.and_eq_true] at hq
    simp only [eval, bind_eq_ok] at h
    obtain ⟨ls, h0, h1⟩ := h
    simp only [traceE]
    rw [ihl hq.1 _ _ _ h0]
    refine flatMapM_ok_flatMap _ _ _ _ _ h1 ?_
    intro p _ zs hz
    split at hz
    · rename_i hp
      simp only [pure_eq_ok] at hz; subst hz
      simp [hp]
    · rename_i hp; simp only [hp]; exact ihr hq.2 _ _ _ hz
  | union l r ihl ihr =>
    simp only [Expr.QF, Bool.and_eq_true] at hq
    simp only [eval, bind_eq_ok, pure_eq_ok] at h
    obtain ⟨ls, h0, a, h1, b, h2, rfl⟩ := h
    simp only [traceE, vis_append, List.flatMap_append]
    rw [ihl hq.1 _ _ _ h0, ihr hq.2 _ _ _ h2]
    congr 1
    refine flatMapM_ok_flatMap _ _ _ _ _ h1 ?_
    intro p _ zs hz
    split at hz
    · rename_i hp
      simp only [pure_eq_ok] at hz; subst hz
      simp [hp]
    · rename_i hp; simp only [hp]; exact ihr hq.2 _ _ _ hz
  | not e ih =>
    simp only [Expr.QF] at hq
    simp only [eval, bind_eq_ok, pure_eq_ok] at h
    obtain ⟨r0, h0, rfl⟩ := h
    simp only [traceE]
    rw [ih hq _ _ _ h0, List.flatMap_map]
  | exists_ v e => simp [Expr.QF] at hq
  | forAll v e => simp [Expr.QF] at hq



theorem flatMap_singleton_map {α β} (l : List α) (f : α → β) : l.flatMap (fun r => [f r]) = l.map f := by
  induction l with
  | nil => rfl
  | cons x l ih => simp [ih]

theorem traceSel_vis (w : World) (env : Env) (sel : List Term) (acc per : List (List Val))
    (h : sel.mapM (fun s => do
      let rs ← evalTerm w false s env
      pure (rs.map (fun r : Env × Val × Bool => r.2.1))) = .ok per) :
    vis (traceSel w env sel acc) = (product (acc.reverse ++ per)).map Ev.row := by
  induction sel generalizing acc per with
  | nil =>
    cases (mapM_nil_eq_ok _ per).1 h
    simp [traceSel]
  | cons s rest ih =>
    obtain ⟨a, b, ha, hb, rfl⟩ := (mapM_cons_eq_ok ..).1 h
    simp only [bind_eq_ok, pure_eq_ok] at ha
    obtain ⟨rs, hrs, rfl⟩ := ha
    simp only [traceSel, vis_append, hrs]
    rw [traceTerm_vis _ _ _ _ _ _ hrs, ih _ _ hb]
    simp

/-- the consumer-visible events of the query trace are exactly the model's rows, and no exception -/
theorem traceQuery_vis (w : World) (q : Query) (hq : ∀ c, q.cond = some c → c.QF = true)
    (rows : List (List Val)) (h : evalQuery w q = .ok rows) :
    vis (traceQuery w q) = rows.map Ev.row := by
  unfold evalQuery at h
  unfold traceQuery
  cases hc : q.cond with
  | none =>
    simp only [hc, bind_eq_ok, pure_eq_ok] at h
    obtain ⟨_, rfl, h⟩ := h
    simp only [flatMapM_cons_eq_ok, flatMapM_nil, Except.ok.injEq, bind_eq_ok, pure_eq_ok] at h
    obtain ⟨_, _, ⟨per, hper, rfl⟩, rfl, rfl⟩ := h
    rw [traceSel_vis w [] q.sel [] per hper]; simp
  | some c =>
    simp only [hc, bind_eq_ok, pure_eq_ok] at h
    obtain ⟨rs, hrs, _, rfl, h⟩ := h
    simp only
    rw [traceE_vis w c (hq c hc) [] _ rs hrs]
    simp only [apply_ite vis, vis_nil]
    rw [flatMap_ite_filter rs (fun p => p.2) (fun p => vis (traceSel w p.1 q.sel []))]
    have := flatMapM_ok_flatMap _ _ _ (fun env : Env => vis (traceSel w env q.sel [])) (fun r => [Ev.row r]) h
      (by
        intro env _ zs hz
        simp only [bind_eq_ok, pure_eq_ok] at hz
        obtain ⟨per, hper, rfl⟩ := hz
        rw [traceSel_vis w env q.sel [] per hper]
        rw [flatMap_singleton_map]; rfl)
    rw [List.flatMap_map] at this
    rw [this, flatMap_singleton_map]

/-! ### pull events are in range -/

/-- a pull event is in range: its index is below the size of the variable's domain -/
def PullOk (w : World) : Ev → Prop
  | .pull v i => i < (w.dom v).length
  | _ => True

def AllPullOk (w : World) (evs : List Ev) : Prop := ∀ ev ∈ evs, PullOk w ev

theorem AllPullOk.nil (w : World) : AllPullOk w [] := fun _ h => by cases h
theorem AllPullOk.append {w : World} {a b : List Ev} (ha : AllPullOk w a) (hb : AllPullOk w b) :
    AllPullOk w (a ++ b) := fun ev h => (List.mem_append.1 h).elim (ha ev) (hb ev)
theorem AllPullOk.err (w : World) (e : Err) : AllPullOk w [Ev.err e] := by
  intro ev h; simp only [List.mem_singleton] at h; subst h; trivial
theorem AllPullOk.flatMap {α} {w : World} (xs : List α) (f : α → List Ev) (h : ∀ x ∈ xs, AllPullOk w (f x)) :
    AllPullOk w (xs.flatMap f) := by
  intro ev hev
  obtain ⟨x, hx, hx'⟩ := List.mem_flatMap.1 hev
  exact h x hx ev hx'
theorem AllPullOk.readEvent (w : World) (x : Val) (n : AttrName) : AllPullOk w (readEvent x n) := by
  intro ev h
  cases x <;> simp only [Eql.readEvent, List.mem_singleton, List.not_mem_nil] at h
  subst h; trivial

theorem traceVar_pullOk (w : World) (cp : Bool) (v : VarId) (env : Env) (k : Kont)
    (hk : ∀ e x b, AllPullOk w (k e x b)) : AllPullOk w (traceVar w cp v env k) := by
  unfold traceVar
  split
  · exact hk _ _ _
  · refine AllPullOk.flatMap _ _ fun p hp => ?_
    intro ev hev
    rcases List.mem_cons.1 hev with rfl | hev
    · have := mem_enumFrom _ _ _ hp
      show p.1 < (w.dom v).length
      omega
    · exact hk _ _ _ ev hev

theorem traceTerm_pullOk (w : World) (c : Bool) (t : Term) (env : Env) (k : Kont)
    (hk : ∀ e x b, AllPullOk w (k e x b)) : AllPullOk w (traceTerm w c t env k) := by
  induction t generalizing c env k with
  | var v => exact traceVar_pullOk w c v env k hk
  | lit id x => simp only [traceTerm]; split <;> exact hk _ _ _
  | attr t n ih =>
    simp only [traceTerm]
    refine ih _ _ _ fun e x b => AllPullOk.append (AllPullOk.readEvent _ _ _) ?_
    split
    · exact hk _ _ _
    · exact AllPullOk.err _ _
  | index t i ih =>
    simp only [traceTerm]
    refine ih _ _ _ fun e x b => ?_
    split
    · exact hk _ _ _
    · exact AllPullOk.err _ _
  | flatten t ih =>
    simp only [traceTerm]
    refine ih _ _ _ fun e x b => ?_
    split
    · exact AllPullOk.flatMap _ _ fun _ _ => hk _ _ _
    · exact AllPullOk.err _ _

theorem traceCmp_pullOk (w : World) (l r : Term) (op : Val → Val → Except Err Bool) (env : Env)
    (k : Env → Bool → List Ev) (hk : ∀ e b, AllPullOk w (k e b)) : AllPullOk w (traceCmp w l r op env k) := by
  simp only [traceCmp]
  refine traceTerm_pullOk _ _ _ _ _ fun e1 v1 t1 => ?_
  split
  · refine traceTerm_pullOk _ _ _ _ _ fun e2 v2 t2 => ?_
    split
    · split
      · exact hk _ _
      · exact AllPullOk.err _ _
    · exact AllPullOk.nil w
  · exact AllPullOk.nil w

theorem traceE_pullOk (w : World) (e : Expr) (env : Env) (k : Env → Bool → List Ev)
    (hk : ∀ e b, AllPullOk w (k e b)) : AllPullOk w (traceE w e env k) := by
  induction e generalizing env k with
  | cmp op l r => exact traceCmp_pullOk w l r _ env k hk
  | contains c i => exact traceCmp_pullOk w c i _ env k hk
  | truth t => exact traceTerm_pullOk _ _ _ _ _ fun _ _ _ => hk _ _
  | hasType t c => exact traceTerm_pullOk _ _ _ _ _ fun _ _ _ => hk _ _
  | and l r ihl ihr =>
    simp only [traceE]
    refine ihl _ _ fun e1 t => ?_
    split
    · exact ihr _ _ hk
    · exact hk _ _
  | elseIf l r ihl ihr =>
    simp only [traceE]
    refine ihl _ _ fun e1 t => ?_
    split
    · exact hk _ _
    · exact ihr _ _ hk
  | union l r ihl ihr =>
    simp only [traceE]
    refine AllPullOk.append (ihl _ _ fun e1 t => ?_) (ihr _ _ hk)
    split
    · exact hk _ _
    · exact ihr _ _ hk
  | not e ih => exact ih _ _ fun _ _ => hk _ _
  | exists_ v e => exact AllPullOk.err _ _
  | forAll v e => exact AllPullOk.err _ _

theorem traceSel_pullOk (w : World) (env : Env) (sel : List Term) (acc : List (List Val)) :
    AllPullOk w (traceSel w env sel acc) := by
  induction sel generalizing acc with
  | nil =>
    intro ev h
    simp only [traceSel, List.mem_map] at h
    obtain ⟨_, _, rfl⟩ := h
    trivial
  | cons s rest ih =>
    simp only [traceSel]
    exact AllPullOk.append (traceTerm_pullOk _ _ _ _ _ fun _ _ _ => AllPullOk.nil w) (ih _)

theorem traceQuery_pullOk (w : World) (q : Query) : AllPullOk w (traceQuery w q) := by
  unfold traceQuery
  split
  · refine traceE_pullOk _ _ _ _ fun e b => ?_
    split
    · exact traceSel_pullOk _ _ _ _
    · exact AllPullOk.nil w
  · exact traceSel_pullOk _ _ _ _


/-! ### bound variables -/

/-- `x` is bound in the environment -/
def Bnd (x : VarId) (env : Env) : Prop := (env.lookup (.var x)).isSome = true

theorem Bnd.cons_var {x : VarId} {env : Env} (v : VarId) (y : Val) (h : Bnd x env ∨ v = x) :
    Bnd x ((.var v, y) :: env) := by
  unfold Bnd at *
  by_cases hv : v = x
  · subst hv; simp [List.lookup]
  · have : (Key.var x == Key.var v) = false := by
      simp only [beq_eq_false_iff_ne, ne_eq, Key.var.injEq]; exact fun h => hv h.symm
    simp only [List.lookup, this]
    exact h.resolve_right hv

theorem Bnd.cons_lit {x : VarId} {env : Env} (id : Nat) (y : Val) (h : Bnd x env) :
    Bnd x ((.lit id, y) :: env) := by
  unfold Bnd at *
  have : (Key.var x == Key.lit id) = false := by simp
  simpa only [List.lookup, this] using h

theorem not_Bnd_nil (x : VarId) : ¬ Bnd x [] := by simp [Bnd]

/-! ### bound variables stay bound -/

theorem evalVar_bnd (w : World) (cp : Bool) (x v : VarId) (env : Env) (h : Bnd x env ∨ v = x) :
    ∀ r ∈ evalVarAt w cp v env, Bnd x r.1 := by
  intro r hr
  unfold evalVarAt at hr
  split at hr
  · rename_i y hy
    simp only [List.mem_singleton] at hr
    subst hr
    rcases h with h | rfl
    · exact h
    · simp [Bnd, hy]
  · simp only [List.mem_map] at hr
    obtain ⟨y, _, rfl⟩ := hr
    exact Bnd.cons_var v y h

theorem evalTerm_bnd (w : World) (x : VarId) (c : Bool) (t : Term) (env : Env) (rs : List (Env × Val × Bool))
    (h : evalTerm w c t env = .ok rs) (hx : Bnd x env ∨ t.root = some x) : ∀ r ∈ rs, Bnd x r.1 := by
  induction t generalizing c env rs with
  | var v =>
    simp only [evalTerm, Except.ok.injEq] at h
    subst h
    refine evalVar_bnd w c x v env (hx.imp id ?_)
    intro h; simpa [Term.root] using h
  | lit id y =>
    have hb : Bnd x env := hx.resolve_right (by simp [Term.root])
    simp only [evalTerm] at h
    split at h <;> simp only [Except.ok.injEq] at h <;> subst h <;> intro r hr <;>
      simp only [List.mem_singleton] at hr <;> subst hr
    · exact hb
    · exact Bnd.cons_lit id y hb
  | attr t n ih =>
    simp only [evalTerm, bind_eq_ok] at h
    obtain ⟨r0, h0, h1⟩ := h
    intro r hr
    obtain ⟨r', hr', hf⟩ := mem_of_mapM_ok _ _ _ h1 r hr
    simp only [bind_eq_ok, pure_eq_ok] at hf
    obtain ⟨_, _, rfl⟩ := hf
    exact ih _ _ _ h0 hx r' hr'
  | index t i ih =>
    simp only [evalTerm, bind_eq_ok] at h
    obtain ⟨r0, h0, h1⟩ := h
    intro r hr
    obtain ⟨r', hr', hf⟩ := mem_of_mapM_ok _ _ _ h1 r hr
    simp only [bind_eq_ok, pure_eq_ok] at hf
    obtain ⟨_, _, rfl⟩ := hf
    exact ih _ _ _ h0 hx r' hr'
  | flatten t ih =>
    simp only [evalTerm, bind_eq_ok] at h
    obtain ⟨r0, h0, h1⟩ := h
    intro r hr
    obtain ⟨r', hr', zs, hf, hrz⟩ := mem_of_flatMapM_ok _ _ _ h1 r hr
    simp only [bind_eq_ok, pure_eq_ok] at hf
    obtain ⟨_, _, rfl⟩ := hf
    simp only [List.mem_map] at hrz
    obtain ⟨_, _, rfl⟩ := hrz
    exact ih _ _ _ h0 hx r' hr'

theorem evalCmp_bnd (w : World) (x : VarId) (l r : Term) (op : Val → Val → Except Err Bool) (env : Env)
    (rs : List (Env × Bool)) (h : evalCmp w l r op env = .ok rs)
    (hx : Bnd x env ∨ (env = [] ∧ l.root = some x)) : ∀ p ∈ rs, Bnd x p.1 := by
  simp only [evalCmp, bind_eq_ok] at h
  obtain ⟨r1, h1, h2⟩ := h
  have hb1 : ∀ p1 ∈ r1, Bnd x p1.1 := by
    refine evalTerm_bnd _ x _ _ _ _ h1 ?_
    rcases hx with hx | ⟨rfl, hx⟩
    · exact Or.inl hx
    · right; simpa using hx
  intro p hp
  obtain ⟨p1, hp1, zs, hz, hpz⟩ := mem_of_flatMapM_ok _ _ _ h2 p hp
  simp only [bind_eq_ok] at hz
  obtain ⟨r2, h3, h4⟩ := hz
  obtain ⟨p2, hp2, hf⟩ := mem_of_mapM_ok _ _ _ h4 p hpz
  simp only [bind_eq_ok, pure_eq_ok] at hf
  obtain ⟨_, _, rfl⟩ := hf
  exact evalTerm_bnd _ x _ _ _ _ h3 (Or.inl (hb1 p1 (List.mem_filter.1 hp1).1)) p2 (List.mem_filter.1 hp2).1

theorem eval_bnd (w : World) (x : VarId) (e : Expr) (hq : e.QF = true) (env : Env) (rs : List (Env × Bool))
    (h : eval w e env = .ok rs) (hx : Bnd x env ∨ (env = [] ∧ firstVar e = some x)) :
    ∀ p ∈ rs, Bnd x p.1 := by
  induction e generalizing env rs with
  | cmp op l r => exact evalCmp_bnd w x l r _ env rs h hx
  | contains c i => exact evalCmp_bnd w x c i _ env rs h hx
  | truth t =>
    simp only [eval, bind_eq_ok, pure_eq_ok] at h
    obtain ⟨r0, h0, rfl⟩ := h
    intro p hp
    simp only [List.mem_map] at hp
    obtain ⟨r, hr, rfl⟩ := hp
    exact evalTerm_bnd _ x _ _ _ _ h0 (hx.imp id (·.2)) r hr
  | hasType t c =>
    simp only [eval, bind_eq_ok, pure_eq_ok] at h
    obtain ⟨r0, h0, rfl⟩ := h
    intro p hp
    simp only [List.mem_map] at hp
    obtain ⟨r, hr, rfl⟩ := hp
    exact evalTerm_bnd _ x _ _ _ _ h0 (hx.imp id (·.2)) r hr
  | and l r ihl ihr =>
    simp only [Expr.QF, Bool.and_eq_true] at hq
    simp only [eval, bind_eq_ok] at h
    obtain ⟨ls, h0, h1⟩ := h
    intro p hp
    obtain ⟨p1, hp1, zs, hz, hpz⟩ := mem_of_flatMapM_ok _ _ _ h1 p hp
    have hb := ihl hq.1 _ _ h0 hx p1 hp1
    split at hz
    · exact ihr hq.2 _ _ hz (Or.inl hb) p hpz
    · simp only [pure_eq_ok] at hz; subst hz
      simp only [List.mem_singleton] at hpz; subst hpz; exact hb
  | elseIf l r ihl ihr =>
    simp only [Expr.QF, Bool.and_eq_true] at hq
    simp only [eval, bind_eq_ok] at h
    obtain ⟨ls, h0, h1⟩ := h
    intro p hp
    obtain ⟨p1, hp1, zs, hz, hpz⟩ := mem_of_flatMapM_ok _ _ _ h1 p hp
    have hb := ihl hq.1 _ _ h0 hx p1 hp1
    split at hz
    · simp only [pure_eq_ok] at hz; subst hz
      simp only [List.mem_singleton] at hpz; subst hpz; exact hb
    · exact ihr hq.2 _ _ hz (Or.inl hb) p hpz
  | union l r ihl ihr =>
    have hbe : Bnd x env := hx.resolve_right (by simp [firstVar])
    simp only [Expr.QF, Bool.and_eq_true] at hq
    simp only [eval, bind_eq_ok, pure_eq_ok] at h
    obtain ⟨ls, h0, a, h1, b, h2, rfl⟩ := h
    intro p hp
    rcases List.mem_append.1 hp with hp | hp
    · obtain ⟨p1, hp1, zs, hz, hpz⟩ := mem_of_flatMapM_ok _ _ _ h1 p hp
      have hb := ihl hq.1 _ _ h0 (Or.inl hbe) p1 hp1
      split at hz
      · simp only [pure_eq_ok] at hz; subst hz
        simp only [List.mem_singleton] at hpz; subst hpz; exact hb
      · exact ihr hq.2 _ _ hz (Or.inl hb) p hpz
    · exact ihr hq.2 _ _ h2 (Or.inl hbe) p hp
  | not e ih =>
    simp only [Expr.QF] at hq
    simp only [eval, bind_eq_ok, pure_eq_ok] at h
    obtain ⟨r0, h0, rfl⟩ := h
    intro p hp
    simp only [List.mem_map] at hp
    obtain ⟨r, hr, rfl⟩ := hp
    exact ih hq _ _ h0 hx r hr
  | exists_ v e => simp [Expr.QF] at hq
  | forAll v e => simp [Expr.QF] at hq


/-! ### a bound variable's domain is never consulted -/

theorem evalVar_indep (w : World) (cp : Bool) (x : VarId) (d1 d2 : List Val) (v : VarId) (env : Env) (hb : Bnd x env) :
    evalVarAt (w.setDom x d1) cp v env = evalVarAt (w.setDom x d2) cp v env := by
  unfold evalVarAt
  by_cases hv : v = x
  · subst hv
    unfold Bnd at hb
    cases hl : env.lookup (.var v) with
    | some y => rfl
    | none => simp [hl] at hb
  · rw [setDom_dom_ne _ _ _ _ hv, setDom_dom_ne _ _ _ _ hv]

theorem evalTerm_indep (w : World) (x : VarId) (d1 d2 : List Val) (c : Bool) (t : Term) (env : Env)
    (hb : Bnd x env) : evalTerm (w.setDom x d1) c t env = evalTerm (w.setDom x d2) c t env := by
  induction t generalizing c env with
  | var v => simp only [evalTerm, evalVar_indep w c x d1 d2 v env hb]
  | lit id y => rfl
  | attr t n ih => simp only [evalTerm, ih _ _ hb, getAttr_setDom]
  | index t i ih => simp only [evalTerm, ih _ _ hb]
  | flatten t ih => simp only [evalTerm, ih _ _ hb]

theorem bind_congr_ok {α β} (a : Except Err α) (f g : α → Except Err β) (h : ∀ x, a = .ok x → f x = g x) :
    (a >>= f) = (a >>= g) := by
  cases a with
  | error e => rfl
  | ok x => exact h x rfl

theorem evalCmp_indep (w : World) (x : VarId) (d1 d2 : List Val) (l r : Term)
    (op : Val → Val → Except Err Bool) (env : Env) (hb : Bnd x env) :
    evalCmp (w.setDom x d1) l r op env = evalCmp (w.setDom x d2) l r op env := by
  simp only [evalCmp]
  rw [evalTerm_indep w x d1 d2 _ _ env hb]
  refine bind_congr_ok _ _ _ fun r1 h1 => flatMapM_congr _ _ _ fun p1 hp1 => ?_
  have hb1 := evalTerm_bnd _ x _ _ _ _ h1 (Or.inl hb) p1 (List.mem_filter.1 hp1).1
  rw [evalTerm_indep w x d1 d2 _ _ p1.1 hb1]

theorem eval_indep (w : World) (x : VarId) (d1 d2 : List Val) (e : Expr) (hq : e.QF = true) (env : Env)
    (hb : Bnd x env) : eval (w.setDom x d1) e env = eval (w.setDom x d2) e env := by
  induction e generalizing env with
  | cmp op l r => simp only [eval, applyCmp_setDom]; exact evalCmp_indep w x d1 d2 l r _ env hb
  | contains c i => simp only [eval, applyContains_setDom]; exact evalCmp_indep w x d1 d2 c i _ env hb
  | truth t => simp only [eval, evalTerm_indep w x d1 d2 _ t env hb]
  | hasType t c => simp only [eval, evalTerm_indep w x d1 d2 _ t env hb, isInstance_setDom]
  | and l r ihl ihr =>
    simp only [Expr.QF, Bool.and_eq_true] at hq
    simp only [eval]
    rw [ihl hq.1 env hb]
    refine bind_congr_ok _ _ _ fun ls h0 => flatMapM_congr _ _ _ fun p hp => ?_
    rw [ihr hq.2 p.1 (eval_bnd _ x l hq.1 env ls h0 (Or.inl hb) p hp)]
  | elseIf l r ihl ihr =>
    simp only [Expr.QF, Bool.and_eq_true] at hq
    simp only [eval]
    rw [ihl hq.1 env hb]
    refine bind_congr_ok _ _ _ fun ls h0 => flatMapM_congr _ _ _ fun p hp => ?_
    rw [ihr hq.2 p.1 (eval_bnd _ x l hq.1 env ls h0 (Or.inl hb) p hp)]
  | union l r ihl ihr =>
    simp only [Expr.QF, Bool.and_eq_true] at hq
    simp only [eval]
    rw [ihl hq.1 env hb, ihr hq.2 env hb]
    refine bind_congr_ok _ _ _ fun ls h0 => ?_
    congr 1
    refine flatMapM_congr _ _ _ fun p hp => ?_
    rw [ihr hq.2 p.1 (eval_bnd _ x l hq.1 env ls h0 (Or.inl hb) p hp)]
  | not e ih =>
    simp only [Expr.QF] at hq
    simp only [eval, ih hq env hb]
  | exists_ v e => simp [Expr.QF] at hq
  | forAll v e => simp [Expr.QF] at hq


/-! ### continuity in the first enumerated domain -/

/-- `X` succeeds with `r` iff `Xd`, `Xs` succeed with parts whose concatenation is `r` -/
def Splits {α} (X Xd Xs : Except Err (List α)) : Prop :=
  ∀ r, X = .ok r ↔ ∃ a b, Xd = .ok a ∧ Xs = .ok b ∧ r = a ++ b

theorem Splits.bind_mapM {α β} {X Xd Xs : Except Err (List α)} (h : Splits X Xd Xs) (f : α → Except Err β) :
    Splits (X >>= fun r => r.mapM f) (Xd >>= fun r => r.mapM f) (Xs >>= fun r => r.mapM f) := by
  intro rs
  simp only [bind_eq_ok]
  constructor
  · rintro ⟨r0, h0, h1⟩
    obtain ⟨a, b, ha, hb, rfl⟩ := (h r0).1 h0
    obtain ⟨a', b', ha', hb', rfl⟩ := (mapM_append_eq_ok ..).1 h1
    exact ⟨a', b', ⟨a, ha, ha'⟩, ⟨b, hb, hb'⟩, rfl⟩
  · rintro ⟨a', b', ⟨a, ha, ha'⟩, ⟨b, hb, hb'⟩, rfl⟩
    exact ⟨a ++ b, (h _).2 ⟨a, b, ha, hb, rfl⟩, (mapM_append_eq_ok ..).2 ⟨a', b', ha', hb', rfl⟩⟩

theorem Splits.bind_map {α β} {X Xd Xs : Except Err (List α)} (h : Splits X Xd Xs) (f : α → β) :
    Splits (X >>= fun r => pure (r.map f)) (Xd >>= fun r => pure (r.map f)) (Xs >>= fun r => pure (r.map f)) := by
  intro rs
  simp only [bind_eq_ok, pure_eq_ok]
  constructor
  · rintro ⟨r0, h0, rfl⟩
    obtain ⟨a, b, ha, hb, rfl⟩ := (h r0).1 h0
    exact ⟨_, _, ⟨a, ha, rfl⟩, ⟨b, hb, rfl⟩, by simp⟩
  · rintro ⟨_, _, ⟨a, ha, rfl⟩, ⟨b, hb, rfl⟩, rfl⟩
    exact ⟨a ++ b, (h _).2 ⟨a, b, ha, hb, rfl⟩, by simp⟩

/-- the general step: a `flatMapM` over (a filter of) split results, with element functions that agree on the
elements that actually occur -/
theorem Splits.bind_flatMapM {α β} {X Xd Xs : Except Err (List α)} (h : Splits X Xd Xs) (p : α → Bool)
    (F Fd Fs : α → Except Err (List β))
    (hd : ∀ a, Xd = .ok a → ∀ y ∈ a, F y = Fd y) (hs : ∀ b, Xs = .ok b → ∀ y ∈ b, F y = Fs y) :
    Splits (X >>= fun r => flatMapM (r.filter p) F) (Xd >>= fun r => flatMapM (r.filter p) Fd)
      (Xs >>= fun r => flatMapM (r.filter p) Fs) := by
  intro rs
  simp only [bind_eq_ok]
  constructor
  · rintro ⟨r0, h0, h1⟩
    obtain ⟨a, b, ha, hb, rfl⟩ := (h r0).1 h0
    rw [List.filter_append] at h1
    obtain ⟨a', b', ha', hb', rfl⟩ := (flatMapM_append_eq_ok ..).1 h1
    rw [flatMapM_congr _ F Fd fun y hy => hd a ha y (List.mem_filter.1 hy).1] at ha'
    rw [flatMapM_congr _ F Fs fun y hy => hs b hb y (List.mem_filter.1 hy).1] at hb'
    exact ⟨a', b', ⟨a, ha, ha'⟩, ⟨b, hb, hb'⟩, rfl⟩
  · rintro ⟨a', b', ⟨a, ha, ha'⟩, ⟨b, hb, hb'⟩, rfl⟩
    rw [← flatMapM_congr _ F Fd fun y hy => hd a ha y (List.mem_filter.1 hy).1] at ha'
    rw [← flatMapM_congr _ F Fs fun y hy => hs b hb y (List.mem_filter.1 hy).1] at hb'
    refine ⟨a ++ b, (h _).2 ⟨a, b, ha, hb, rfl⟩, ?_⟩
    rw [List.filter_append]
    exact (flatMapM_append_eq_ok ..).2 ⟨a', b', ha', hb', rfl⟩

theorem Splits.bind_flatMapM' {α β} {X Xd Xs : Except Err (List α)} (h : Splits X Xd Xs)
    (F Fd Fs : α → Except Err (List β))
    (hd : ∀ a, Xd = .ok a → ∀ y ∈ a, F y = Fd y) (hs : ∀ b, Xs = .ok b → ∀ y ∈ b, F y = Fs y) :
    Splits (X >>= fun r => flatMapM r F) (Xd >>= fun r => flatMapM r Fd) (Xs >>= fun r => flatMapM r Fs) := by
  have hf : ∀ r : List α, r.filter (fun _ => true) = r := fun r => by
    induction r with
    | nil => rfl
    | cons y r ih => simp [ih]
  have := h.bind_flatMapM (fun _ => true) F Fd Fs hd hs
  simpa only [hf] using this

theorem evalTerm_splits (w : World) (x : VarId) (d s : List Val) (c : Bool) (t : Term) (env : Env)
    (ht : t.root = some x) (hb : ¬ Bnd x env) :
    Splits (evalTerm (w.setDom x (d ++ s)) c t env) (evalTerm (w.setDom x d) c t env)
      (evalTerm (w.setDom x s) c t env) := by
  induction t generalizing c with
  | var v =>
    have : v = x := by simpa [Term.root] using ht
    subst this
    have hl : env.lookup (.var v) = none := by
      cases hl : env.lookup (.var v) with
      | none => rfl
      | some y => exact absurd (by simp [Bnd, hl]) hb
    intro r
    simp only [evalTerm, evalVarAt, hl, setDom_dom_self, List.map_append, Except.ok.injEq]
    constructor
    · rintro rfl; exact ⟨_, _, rfl, rfl, rfl⟩
    · rintro ⟨_, _, rfl, rfl, rfl⟩; rfl
  | lit id y => simp [Term.root] at ht
  | attr t n ih =>
    simp only [evalTerm, getAttr_setDom]
    exact (ih false ht).bind_mapM _
  | index t i ih =>
    simp only [evalTerm]
    exact (ih false ht).bind_mapM _
  | flatten t ih =>
    simp only [evalTerm]
    exact (ih false ht).bind_flatMapM' _ _ _ (fun _ _ _ _ => rfl) (fun _ _ _ _ => rfl)

theorem evalCmp_splits (w : World) (x : VarId) (d s : List Val) (l r : Term)
    (op : Val → Val → Except Err Bool) (hl : l.root = some x) :
    Splits (evalCmp (w.setDom x (d ++ s)) l r op []) (evalCmp (w.setDom x d) l r op [])
      (evalCmp (w.setDom x s) l r op []) := by
  simp only [evalCmp, List.isEmpty_nil, Bool.not_true, Bool.false_and, Bool.false_eq_true, if_false]
  refine (evalTerm_splits w x d s false l [] hl (not_Bnd_nil x)).bind_flatMapM _ _ _ _ ?_ ?_
  · intro a ha p1 hp1
    rw [evalTerm_indep w x (d ++ s) d _ _ p1.1 (evalTerm_bnd _ x _ _ _ _ ha (Or.inr hl) p1 hp1)]
  · intro a ha p1 hp1
    rw [evalTerm_indep w x (d ++ s) s _ _ p1.1 (evalTerm_bnd _ x _ _ _ _ ha (Or.inr hl) p1 hp1)]

theorem eval_splits (w : World) (x : VarId) (d s : List Val) (e : Expr) (hq : e.QF = true)
    (hu : e.unionFree = true) (hx : firstVar e = some x) :
    Splits (eval (w.setDom x (d ++ s)) e []) (eval (w.setDom x d) e []) (eval (w.setDom x s) e []) := by
  induction e with
  | cmp op l r => simp only [eval, applyCmp_setDom]; exact evalCmp_splits w x d s l r _ hx
  | contains c i => simp only [eval, applyContains_setDom]; exact evalCmp_splits w x d s c i _ hx
  | truth t =>
    simp only [eval]
    exact (evalTerm_splits w x d s true t [] hx (not_Bnd_nil x)).bind_map _
  | hasType t c =>
    simp only [eval, isInstance_setDom]
    exact (evalTerm_splits w x d s false t [] hx (not_Bnd_nil x)).bind_map _
  | and l r ihl _ =>
    simp only [Expr.QF, Expr.unionFree, Bool.and_eq_true] at hq hu
    simp only [eval]
    refine (ihl hq.1 hu.1 hx).bind_flatMapM' _ _ _ ?_ ?_
    · intro a ha p hp
      rw [eval_indep w x (d ++ s) d r hq.2 p.1 (eval_bnd _ x l hq.1 [] a ha (Or.inr ⟨rfl, hx⟩) p hp)]
    · intro a ha p hp
      rw [eval_indep w x (d ++ s) s r hq.2 p.1 (eval_bnd _ x l hq.1 [] a ha (Or.inr ⟨rfl, hx⟩) p hp)]
  | elseIf l r ihl _ =>
    simp only [Expr.QF, Expr.unionFree, Bool.and_eq_true] at hq hu
    simp only [eval]
    refine (ihl hq.1 hu.1 hx).bind_flatMapM' _ _ _ ?_ ?_
    · intro a ha p hp
      rw [eval_indep w x (d ++ s) d r hq.2 p.1 (eval_bnd _ x l hq.1 [] a ha (Or.inr ⟨rfl, hx⟩) p hp)]
    · intro a ha p hp
      rw [eval_indep w x (d ++ s) s r hq.2 p.1 (eval_bnd _ x l hq.1 [] a ha (Or.inr ⟨rfl, hx⟩) p hp)]
  | union l r _ _ => simp [Expr.unionFree] at hu
  | not e ih =>
    simp only [Expr.QF, Expr.unionFree] at hq hu
    simp only [eval]
    exact (ih hq hu hx).bind_map _
  | exists_ v e => simp [Expr.QF] at hq
  | forAll v e => simp [Expr.QF] at hq

theorem Splits.bind_pure {α β} {X Xd Xs : Except Err (List α)} (h : Splits X Xd Xs) (φ : List α → List β)
    (hφ : ∀ a b, φ (a ++ b) = φ a ++ φ b) :
    Splits (X >>= fun r => pure (φ r)) (Xd >>= fun r => pure (φ r)) (Xs >>= fun r => pure (φ r)) := by
  intro rs
  simp only [bind_eq_ok, pure_eq_ok]
  constructor
  · rintro ⟨r0, h0, rfl⟩
    obtain ⟨a, b, ha, hb, rfl⟩ := (h r0).1 h0
    exact ⟨_, _, ⟨a, ha, rfl⟩, ⟨b, hb, rfl⟩, hφ a b⟩
  · rintro ⟨_, _, ⟨a, ha, rfl⟩, ⟨b, hb, rfl⟩, rfl⟩
    exact ⟨a ++ b, (h _).2 ⟨a, b, ha, hb, rfl⟩, hφ a b⟩

theorem evalQuery_splits (w : World) (x : VarId) (d s : List Val) (q : Query) (c : Expr)
    (hc : q.cond = some c) (hq : c.QF = true) (hu : c.unionFree = true) (hx : firstVar c = some x) :
    Splits (evalQuery (w.setDom x (d ++ s)) q) (evalQuery (w.setDom x d) q) (evalQuery (w.setDom x s) q) := by
  simp only [evalQuery, hc]
  rw [← bind_assoc, ← bind_assoc, ← bind_assoc]
  have hrows := (eval_splits w x d s c hq hu hx).bind_pure
    (fun rs : List (Env × Bool) => (rs.filter (·.2)).map (·.1)) (by intro a b; simp)
  have key : ∀ (d' : List Val) (a : List Env),
      (eval (w.setDom x d') c [] >>= fun rs => pure ((rs.filter (·.2)).map (·.1))) = .ok a →
      ∀ env ∈ a, Bnd x env := by
    intro d' a ha env henv
    simp only [bind_eq_ok, pure_eq_ok] at ha
    obtain ⟨rs, hrs, rfl⟩ := ha
    simp only [List.mem_map, List.mem_filter] at henv
    obtain ⟨p, ⟨hp, _⟩, rfl⟩ := henv
    exact eval_bnd _ x c hq [] rs hrs (Or.inr ⟨rfl, hx⟩) p hp
  refine hrows.bind_flatMapM' _ _ _ ?_ ?_
  · intro a ha env henv
    have hb := key d a ha env henv
    rw [mapM_congr' q.sel _ _ fun t _ => by rw [evalTerm_indep w x (d ++ s) d false t env hb]]
  · intro a ha env henv
    have hb := key s a ha env henv
    rw [mapM_congr' q.sel _ _ fun t _ => by rw [evalTerm_indep w x (d ++ s) s false t env hb]]

end KrroodVerif.Eql
