import KrroodVerif.Lemmas.RuleLayout
/-!
# The pointer store of the builder represents the layout tree (unbounded)

`build_today_tree` : for EVERY program `p`, `(build Quirks.today p).bind BState.tree = some p.layout`, and
`p.layout.ids.Nodup`. Proof: a store/tree representation invariant (`Inv`), one lemma per builder operation
(`ref_step`, `alt_step`, `add_step`, `enter_step`), induction over the program (`Prog.run_lay`/`Kids.run_lay`).
-/
set_option linter.unusedSimpArgs false
set_option linter.unusedVariables false
namespace KrroodVerif.Rdr
open BState

/-! ## reading the store -/

theorem node_modify (s : BState) (i : Nat) (f : Node → Node) (j : Nat) (h : i < s.nodes.length) :
    (s.modify i f).node j = if j = i then f (s.node i) else s.node j := by
  unfold BState.modify BState.node
  simp only [List.getD_eq_getElem?_getD, List.getElem?_set]
  by_cases hj : j = i
  · subst hj; simp [h]
  · have : ¬ i = j := fun e => hj e.symm
    simp [hj, this]

@[simp] theorem modify_length (s : BState) (i : Nat) (f : Node → Node) :
    (s.modify i f).nodes.length = s.nodes.length := by
  simp [BState.modify]

theorem node_alloc (s : BState) (nd : Node) (j : Nat) :
    (s.alloc nd).1.node j = if j = s.nodes.length then nd else s.node j := by
  unfold BState.alloc BState.node
  simp only [List.getD_eq_getElem?_getD]
  by_cases hj : j = s.nodes.length
  · subst hj; simp
  · simp only [hj, ↓reduceIte]
    by_cases hlt : j < s.nodes.length
    · rw [List.getElem?_append_left hlt]
    · have h1 : s.nodes.length < j := by omega
      rw [List.getElem?_eq_none (by simp; omega), List.getElem?_eq_none (by omega)]

@[simp] theorem alloc_length (s : BState) (nd : Node) : (s.alloc nd).1.nodes.length = s.nodes.length + 1 := by
  simp [BState.alloc]

@[simp] theorem alloc_snd (s : BState) (nd : Node) : (s.alloc nd).2 = s.nodes.length := rfl

/-- what `refinement` / `alternative_or_next` leave behind in the store: a new leaf `L`, a new selector `L + 1`
over `cur` and the leaf, linked below `p` in place of `cur` -/
structure WrapSpec (s s' : BState) (k : NK) (cur p b : Nat) : Prop where
  len : s'.nodes.length = s.nodes.length + 2
  leaf : s'.node s.nodes.length = { kind := .leaf, blk := b, parent := some (s.nodes.length + 1) }
  bin : s'.node (s.nodes.length + 1) =
    { kind := k, left := some cur, right := some s.nodes.length, parent := some p }
  cur_node : s'.node cur = { s.node cur with parent := some (s.nodes.length + 1) }
  par_kind : (s'.node p).kind = (s.node p).kind
  par_parent : (s'.node p).parent = (s.node p).parent
  par_child : (s'.node p).child = some (s.nodes.length + 1)
  par_l : s.isBinop p = true → (s.node p).left = some cur → (s.node p).right ≠ some cur →
    (s'.node p).left = some (s.nodes.length + 1) ∧ (s'.node p).right = (s.node p).right
  par_r : s.isBinop p = true → (s.node p).right = some cur → (s.node p).left ≠ some cur →
    (s'.node p).right = some (s.nodes.length + 1) ∧ (s'.node p).left = (s.node p).left
  other : ∀ j, j ≠ cur → j ≠ p → j ≠ s.nodes.length → j ≠ s.nodes.length + 1 → s'.node j = s.node j

/-- the common part of the two surgeries, from the state in which the new leaf is already allocated -/
def wrapAt (s1 : BState) (k : NK) (cur nb : Nat) : BState × Nat :=
  let pp := (s1.node cur).parent
  let s := s1.modify cur fun n => { n with parent := none }
  let r := s.mkBinop k cur nb
  (r.1.setParent r.2 pp, r.2)

theorem wrapAt_snd (s1 : BState) (k : NK) (cur nb : Nat) : (wrapAt s1 k cur nb).2 = s1.nodes.length := by
  simp [wrapAt, BState.mkBinop]

theorem wrapAt_length (s1 : BState) (k : NK) (cur nb : Nat) :
    (wrapAt s1 k cur nb).1.nodes.length = s1.nodes.length + 1 := by
  simp only [wrapAt, BState.mkBinop, BState.setParent]
  split <;> simp

theorem wrapAt_frame (s1 : BState) (k : NK) (cur nb : Nat) :
    (wrapAt s1 k cur nb).1.stack = s1.stack ∧ (wrapAt s1 k cur nb).1.cachedRoot = s1.cachedRoot := by
  simp only [wrapAt, BState.mkBinop, BState.setParent]
  split <;> simp [BState.modify, BState.alloc]

theorem wrapAt_node (s1 : BState) (k : NK) (cur nb p : Nat) (hc : cur < s1.nodes.length)
    (hn : nb < s1.nodes.length) (hp : p < s1.nodes.length) (hpp : (s1.node cur).parent = some p)
    (h1 : cur ≠ nb) (h2 : p ≠ cur) (h3 : p ≠ nb) (j : Nat) :
    (wrapAt s1 k cur nb).1.node j =
      if j = s1.nodes.length then { kind := k, left := some cur, right := some nb, parent := some p }
      else if j = p then { s1.node p with child := some s1.nodes.length }
      else if j = cur then { s1.node cur with parent := some s1.nodes.length }
      else if j = nb then { s1.node nb with parent := some s1.nodes.length }
      else s1.node j := by
  have hc' : cur < s1.nodes.length + 1 := by omega
  have hn' : nb < s1.nodes.length + 1 := by omega
  have hp' : p < s1.nodes.length + 1 := by omega
  simp only [wrapAt, BState.mkBinop, BState.setParent, hpp, alloc_snd, modify_length]
  simp only [node_modify, modify_length, alloc_length, hc, hc', hn', hp', Nat.lt_add_one, node_alloc]
  have e1 : ¬ s1.nodes.length = p := by omega
  have e2 : ¬ s1.nodes.length = cur := by omega
  have e3 : ¬ s1.nodes.length = nb := by omega
  have e4 : ¬ nb = cur := fun e => h1 e.symm
  by_cases hj1 : j = s1.nodes.length
  · subst hj1; simp [e1, e2, e3]
  · by_cases hj2 : j = p
    · subst hj2; simp [e1, h2, h3, hj1]
    · by_cases hj3 : j = cur
      · subst hj3; simp [hj1, hj2, h1, e2]
      · by_cases hj4 : j = nb
        · subst hj4; simp [hj1, hj2, hj3, e3, e4]
        · simp [hj1, hj2, hj3, hj4]


/-- the re-linking of `prev_parent.left/right` as `refinement` does it (fix 6d59379) -/
def relinkRef (s : BState) (pp : Option Nat) (cur e : Nat) : BState :=
  match pp with
  | some pp =>
    if s.isBinop pp then
      if (s.node pp).left = some cur then s.modify pp fun n => { n with left := some e }
      else if (s.node pp).right = some cur then s.modify pp fun n => { n with right := some e }
      else s
    else s
  | none => s

/-- the re-linking as `alternative_or_next` does it (fix 5ccefb5) -/
def relinkAlt (s : BState) (pp : Option Nat) (cur e : Nat) : BState :=
  match pp with
  | some pp =>
    if s.isBinop pp then
      if (s.node pp).right = some cur then s.modify pp fun n => { n with right := some e }
      else if (s.node pp).left = some cur then s.modify pp fun n => { n with left := some e }
      else s
    else s
  | none => s

theorem doRefinement_eq (s : BState) (cur : Nat) (st : List Nat) (b : Nat) (hs : s.stack = cur :: st) :
    s.doRefinement Quirks.today b =
      let s1 := (s.alloc { kind := .leaf, blk := b }).1
      let w := wrapAt s1 .exceptIf cur s.nodes.length
      some { relinkRef w.1 (s1.node cur).parent cur w.2 with last := some s.nodes.length } := by
  simp only [BState.doRefinement, hs, Quirks.today]
  rfl

theorem doAltOrNext_eq (s : BState) (top : Nat) (st : List Nat) (k : NK) (b : Nat) (hs : s.stack = top :: st) :
    s.doAltOrNext Quirks.today k b =
      let s1 := (s.alloc { kind := .leaf, blk := b }).1
      let cur := s1.climb s1.nodes.length top
      let w := wrapAt s1 k cur s.nodes.length
      some { relinkAlt w.1 (s1.node cur).parent cur w.2 with last := some s.nodes.length } := by
  simp only [BState.doAltOrNext, hs, Quirks.today, Bool.false_or, decide_eq_true_eq, Bool.false_eq_true,
    ↓reduceIte]
  rfl

theorem relinkRef_frame (s : BState) (pp : Option Nat) (cur e : Nat) :
    (relinkRef s pp cur e).nodes.length = s.nodes.length ∧ (relinkRef s pp cur e).stack = s.stack ∧
    (relinkRef s pp cur e).cachedRoot = s.cachedRoot := by
  unfold relinkRef
  repeat' split
  all_goals simp [BState.modify]

theorem relinkAlt_frame (s : BState) (pp : Option Nat) (cur e : Nat) :
    (relinkAlt s pp cur e).nodes.length = s.nodes.length ∧ (relinkAlt s pp cur e).stack = s.stack ∧
    (relinkAlt s pp cur e).cachedRoot = s.cachedRoot := by
  unfold relinkAlt
  repeat' split
  all_goals simp [BState.modify]

theorem relinkRef_node (s : BState) (p cur e j : Nat) (hp : p < s.nodes.length) :
    (relinkRef s (some p) cur e).node j =
      if j = p ∧ s.isBinop p = true ∧ (s.node p).left = some cur then { s.node p with left := some e }
      else if j = p ∧ s.isBinop p = true ∧ (s.node p).right = some cur then { s.node p with right := some e }
      else s.node j := by
  unfold relinkRef
  simp only
  by_cases hb : s.isBinop p = true
  · simp only [hb, ↓reduceIte, true_and]
    by_cases hl : (s.node p).left = some cur
    · simp only [hl, ↓reduceIte, and_true, node_modify _ _ _ _ hp]
      by_cases hj : j = p
      · subst hj; simp [hl]
      · simp [hj]
    · simp only [hl, ↓reduceIte, and_false]
      by_cases hr : (s.node p).right = some cur
      · simp only [hr, ↓reduceIte, and_true, node_modify _ _ _ _ hp]
      · simp [hr]
  · simp [hb]

theorem relinkAlt_node (s : BState) (p cur e j : Nat) (hp : p < s.nodes.length) :
    (relinkAlt s (some p) cur e).node j =
      if j = p ∧ s.isBinop p = true ∧ (s.node p).right = some cur then { s.node p with right := some e }
      else if j = p ∧ s.isBinop p = true ∧ (s.node p).left = some cur then { s.node p with left := some e }
      else s.node j := by
  unfold relinkAlt
  simp only
  by_cases hb : s.isBinop p = true
  · simp only [hb, ↓reduceIte, true_and]
    by_cases hl : (s.node p).right = some cur
    · simp only [hl, ↓reduceIte, and_true, node_modify _ _ _ _ hp]
      by_cases hj : j = p
      · subst hj; simp [hl]
      · simp [hj]
    · simp only [hl, ↓reduceIte, and_false]
      by_cases hr : (s.node p).left = some cur
      · simp only [hr, ↓reduceIte, and_true, node_modify _ _ _ _ hp]
      · simp [hr]
  · simp [hb]


theorem wrapSpec_relinkRef (s : BState) (k : NK) (cur p b : Nat) (hc : cur < s.nodes.length) (hp : p < s.nodes.length)
    (hne : p ≠ cur) (hpp : (s.node cur).parent = some p) :
    let s1 := (s.alloc { kind := .leaf, blk := b }).1
    let w := wrapAt s1 k cur s.nodes.length
    WrapSpec s (relinkRef w.1 (s1.node cur).parent cur w.2) k cur p b := by
  intro s1 w
  have hL1 : s1.nodes.length = s.nodes.length + 1 := alloc_length _ _
  have hs1 : ∀ j, j < s.nodes.length → s1.node j = s.node j := by
    intro j hj; simp only [s1, node_alloc]; rw [if_neg (by omega)]
  have hs1L : s1.node s.nodes.length = { kind := .leaf, blk := b } := by simp [s1, node_alloc]
  have hpp1 : (s1.node cur).parent = some p := by rw [hs1 cur hc]; exact hpp
  have hw : ∀ j, w.1.node j = _ :=
    wrapAt_node s1 k cur s.nodes.length p (by omega) (by omega) (by omega) hpp1 (by omega) hne (by omega)
  have hw2 : w.2 = s.nodes.length + 1 := by simp only [w, wrapAt_snd, hL1]
  have hwl : w.1.nodes.length = s.nodes.length + 2 := by simp only [w, wrapAt_length, hL1]
  have hwp : w.1.node p = { s.node p with child := some (s.nodes.length + 1) } := by
    rw [hw, hL1, if_neg (by omega), if_pos rfl, hs1 p hp]
  have hb : w.1.isBinop p = s.isBinop p := by
    simp only [BState.isBinop, hwp]
  have h3 := fun j => relinkRef_node w.1 p cur w.2 j (by omega)
  rw [hpp1]
  refine ⟨?_, ?_, ?_, ?_, ?_, ?_, ?_, ?_, ?_, ?_⟩
  · rw [(relinkRef_frame _ _ _ _).1, hwl]
  · rw [h3, if_neg (by omega), if_neg (by omega), hw, hL1, if_neg (by omega), if_neg (by omega), if_neg (by omega),
      if_pos rfl, hs1L]
  · rw [h3, if_neg (by omega), if_neg (by omega), hw, hL1, if_pos rfl]
  · rw [h3, if_neg (by intro h; exact hne h.1.symm), if_neg (by intro h; exact hne h.1.symm), hw, hL1,
      if_neg (by omega), if_neg (by omega), if_pos rfl, hs1 cur hc]
  · rw [h3]; split
    · rw [hwp]
    · split <;> rw [hwp]
  · rw [h3]; split
    · rw [hwp]
    · split <;> rw [hwp]
  · rw [h3]; split
    · rw [hwp]
    · split <;> rw [hwp]
  · intro h1 h2 h4
    rw [h3, hb, hwp, hw2]
    simp [h1, h2, h4]
  · intro h1 h2 h4
    rw [h3, hb, hwp, hw2]
    simp [h1, h2, h4]
  · intro j j1 j2 j3 j4
    rw [h3, if_neg (by intro h; exact j2 h.1), if_neg (by intro h; exact j2 h.1), hw, hL1, if_neg j4, if_neg j2,
      if_neg j1, if_neg j3]
    by_cases hj : j < s.nodes.length
    · exact hs1 j hj
    · simp only [s1, node_alloc, if_neg j3]

theorem wrapSpec_relinkAlt (s : BState) (k : NK) (cur p b : Nat) (hc : cur < s.nodes.length) (hp : p < s.nodes.length)
    (hne : p ≠ cur) (hpp : (s.node cur).parent = some p) :
    let s1 := (s.alloc { kind := .leaf, blk := b }).1
    let w := wrapAt s1 k cur s.nodes.length
    WrapSpec s (relinkAlt w.1 (s1.node cur).parent cur w.2) k cur p b := by
  intro s1 w
  have hL1 : s1.nodes.length = s.nodes.length + 1 := alloc_length _ _
  have hs1 : ∀ j, j < s.nodes.length → s1.node j = s.node j := by
    intro j hj; simp only [s1, node_alloc]; rw [if_neg (by omega)]
  have hs1L : s1.node s.nodes.length = { kind := .leaf, blk := b } := by simp [s1, node_alloc]
  have hpp1 : (s1.node cur).parent = some p := by rw [hs1 cur hc]; exact hpp
  have hw : ∀ j, w.1.node j = _ :=
    wrapAt_node s1 k cur s.nodes.length p (by omega) (by omega) (by omega) hpp1 (by omega) hne (by omega)
  have hw2 : w.2 = s.nodes.length + 1 := by simp only [w, wrapAt_snd, hL1]
  have hwl : w.1.nodes.length = s.nodes.length + 2 := by simp only [w, wrapAt_length, hL1]
  have hwp : w.1.node p = { s.node p with child := some (s.nodes.length + 1) } := by
    rw [hw, hL1, if_neg (by omega), if_pos rfl, hs1 p hp]
  have hb : w.1.isBinop p = s.isBinop p := by
    simp only [BState.isBinop, hwp]
  have h3 := fun j => relinkAlt_node w.1 p cur w.2 j (by omega)
  rw [hpp1]
  refine ⟨?_, ?_, ?_, ?_, ?_, ?_, ?_, ?_, ?_, ?_⟩
  · rw [(relinkAlt_frame _ _ _ _).1, hwl]
  · rw [h3, if_neg (by omega), if_neg (by omega), hw, hL1, if_neg (by omega), if_neg (by omega), if_neg (by omega),
      if_pos rfl, hs1L]
  · rw [h3, if_neg (by omega), if_neg (by omega), hw, hL1, if_pos rfl]
  · rw [h3, if_neg (by intro h; exact hne h.1.symm), if_neg (by intro h; exact hne h.1.symm), hw, hL1,
      if_neg (by omega), if_neg (by omega), if_pos rfl, hs1 cur hc]
  · rw [h3]; split
    · rw [hwp]
    · split <;> rw [hwp]
  · rw [h3]; split
    · rw [hwp]
    · split <;> rw [hwp]
  · rw [h3]; split
    · rw [hwp]
    · split <;> rw [hwp]
  · intro h1 h2 h4
    rw [h3, hb, hwp, hw2]
    simp [h1, h2, h4]
  · intro h1 h2 h4
    rw [h3, hb, hwp, hw2]
    simp [h1, h2, h4]
  · intro j j1 j2 j3 j4
    rw [h3, if_neg (by intro h; exact j2 h.1), if_neg (by intro h; exact j2 h.1), hw, hL1, if_neg j4, if_neg j2,
      if_neg j1, if_neg j3]
    by_cases hj : j < s.nodes.length
    · exact hs1 j hj
    · simp only [s1, node_alloc, if_neg j3]


/-! ## the store represents a tree -/

def SK.toNK : SK → NK
  | .exceptIf => .exceptIf
  | .alt => .alt
  | .next => .next

/-- the store holds the tree `t` (through `left`/`right`, what `_evaluate__` follows), the rx parent pointers agree
with it, and the rx parent of its root is `par` -/
def RepT (s : BState) (par : Nat) : Sel → Prop
  | .leaf i b cs =>
    (s.node i).kind = .leaf ∧ (s.node i).blk = b ∧ (s.node i).concl = cs ∧ (s.node i).parent = some par
  | .node k i l r =>
    (s.node i).kind = k.toNK ∧ (s.node i).left = some l.id ∧ (s.node i).right = some r.id ∧
      (s.node i).parent = some par ∧ RepT s i l ∧ RepT s i r

/-- the node above the hole of a path (`1` = the `Entity`) -/
def pid : List Frame → Nat
  | [] => 1
  | f :: _ => f.id

/-- ids of the nodes of a path and of the sibling subtrees hanging off it -/
def pathIds : List Frame → List Nat
  | [] => []
  | f :: P => f.id :: (f.sib.ids ++ pathIds P)

/-- the store holds the path `P` above a hole whose root node is `h`, up to `Entity._child_` -/
def Seg (s : BState) : List Frame → Nat → Prop
  | [], h => (s.node 1).child = some h
  | f :: P, h =>
    (s.node f.id).kind = f.k.toNK ∧
    (if f.holeLeft then (s.node f.id).left = some h ∧ (s.node f.id).right = some f.sib.id
     else (s.node f.id).left = some f.sib.id ∧ (s.node f.id).right = some h) ∧
    (s.node f.id).parent = some (pid P) ∧ RepT s f.id f.sib ∧ Seg s P f.id

@[simp] theorem Frame.fill_id (f : Frame) (u : Sel) : (f.fill u).id = f.id := by
  unfold Frame.fill; split <;> rfl

theorem rep_plug (s : BState) : ∀ (P : List Frame) (u : Sel),
    (RepT s 1 (plug P u) ∧ (s.node 1).child = some (plug P u).id) ↔ (RepT s (pid P) u ∧ Seg s P u.id)
  | [], u => by simp [plug, pid, Seg]
  | f :: P, u => by
    rw [plug, rep_plug s P (f.fill u), Frame.fill_id]
    cases hf : f.holeLeft
    · simp only [Frame.fill, hf, RepT, Seg, pid, Bool.false_eq_true, ↓reduceIte]
      constructor
      · rintro ⟨⟨h1, h2, h3, h4, h5, h6⟩, h7⟩; exact ⟨h6, h1, ⟨h2, h3⟩, h4, h5, h7⟩
      · rintro ⟨h6, h1, ⟨h2, h3⟩, h4, h5, h7⟩; exact ⟨⟨h1, h2, h3, h4, h5, h6⟩, h7⟩
    · simp only [Frame.fill, hf, RepT, Seg, pid, ↓reduceIte]
      constructor
      · rintro ⟨⟨h1, h2, h3, h4, h5, h6⟩, h7⟩; exact ⟨h5, h1, ⟨h2, h3⟩, h4, h6, h7⟩
      · rintro ⟨h5, h1, ⟨h2, h3⟩, h4, h6, h7⟩; exact ⟨⟨h1, h2, h3, h4, h5, h6⟩, h7⟩

theorem ids_fill (f : Frame) (u : Sel) : (f.fill u).ids.Perm (u.ids ++ (f.id :: f.sib.ids)) := by
  unfold Frame.fill
  split
  · simp only [Sel.ids]
    exact (List.perm_middle (l₁ := u.ids) (a := f.id) (l₂ := f.sib.ids)).symm
  · simp only [Sel.ids]
    refine List.Perm.trans (List.Perm.cons _ List.perm_append_comm) ?_
    exact (List.perm_middle (l₁ := u.ids) (a := f.id) (l₂ := f.sib.ids)).symm

theorem ids_plug : ∀ (P : List Frame) (u : Sel), (plug P u).ids.Perm (u.ids ++ pathIds P)
  | [], u => by simp [plug, pathIds]
  | f :: P, u => by
    rw [plug, pathIds]
    refine (ids_plug P (f.fill u)).trans ?_
    refine ((ids_fill f u).append_right _).trans ?_
    simp [List.append_assoc]

theorem plug_append (P Q : List Frame) (u : Sel) : plug (P ++ Q) u = plug Q (plug P u) := by
  induction P generalizing u with
  | nil => rfl
  | cons f P ih => simp [plug, ih]

theorem plug_itemFrames (its : List LItem) (t : Sel) : plug (itemFrames its) t = attach t its := by
  induction its generalizing t with
  | nil => rfl
  | cons it its ih =>
    simp only [itemFrames, List.map_cons, plug, attach, List.foldl_cons, Frame.fill, ↓reduceIte]
    exact ih _

theorem RepT_congr (s s' : BState) : ∀ (t : Sel) (par : Nat), (∀ j ∈ t.ids, s'.node j = s.node j) →
    RepT s par t → RepT s' par t
  | .leaf i b cs, par, h, hr => by
    simp only [RepT] at hr ⊢
    rw [h i (by simp [Sel.ids])]; exact hr
  | .node k i l r, par, h, hr => by
    simp only [RepT] at hr ⊢
    rw [h i (by simp [Sel.ids])]
    obtain ⟨h1, h2, h3, h4, h5, h6⟩ := hr
    exact ⟨h1, h2, h3, h4, RepT_congr s s' l i (fun j hj => h j (by simp [Sel.ids, hj])) h5,
      RepT_congr s s' r i (fun j hj => h j (by simp [Sel.ids, hj])) h6⟩

theorem Seg_congr (s s' : BState) : ∀ (P : List Frame) (h : Nat), s'.node 1 = s.node 1 →
    (∀ j ∈ pathIds P, s'.node j = s.node j) → Seg s P h → Seg s' P h
  | [], h, h1, _, hs => by simp only [Seg] at hs ⊢; rw [h1]; exact hs
  | f :: P, h, h1, hp, hs => by
    simp only [Seg] at hs ⊢
    rw [hp f.id (by simp [pathIds])]
    obtain ⟨a, b, c, d, e⟩ := hs
    exact ⟨a, b, c, RepT_congr s s' f.sib f.id (fun j hj => hp j (by simp [pathIds, hj])) d,
      Seg_congr s s' P f.id h1 (fun j hj => hp j (by simp [pathIds, hj])) e⟩

/-- re-parenting the root of a represented tree -/
theorem RepT_reparent (s s' : BState) (t : Sel) (par par' : Nat) (hn : t.ids.Nodup)
    (hroot : s'.node t.id = { s.node t.id with parent := some par' })
    (hrest : ∀ j ∈ t.ids, j ≠ t.id → s'.node j = s.node j) (hr : RepT s par t) : RepT s' par' t := by
  cases t with
  | leaf i b cs =>
    simp only [RepT, Sel.id] at hr hroot ⊢
    rw [hroot]; exact ⟨hr.1, hr.2.1, hr.2.2.1, rfl⟩
  | node k i l r =>
    simp only [RepT, Sel.id] at hr hroot ⊢
    simp only [Sel.ids, List.nodup_cons, List.mem_append, not_or] at hn
    rw [hroot]
    obtain ⟨h1, h2, h3, h4, h5, h6⟩ := hr
    refine ⟨h1, h2, h3, rfl, ?_, ?_⟩
    · exact RepT_congr s s' l i (fun j hj => hrest j (by simp [Sel.ids, hj])
        (by rintro rfl; exact hn.1.1 hj)) h5
    · exact RepT_congr s s' r i (fun j hj => hrest j (by simp [Sel.ids, hj])
        (by rintro rfl; exact hn.1.2 hj)) h6

theorem id_mem_ids (t : Sel) : t.id ∈ t.ids := by cases t <;> simp [Sel.id, Sel.ids]

/-- the invariant of the builder: the store represents the selector tree `T` below the `Entity` -/
structure Inv (s : BState) (T : Sel) : Prop where
  rep : RepT s 1 T
  top : (s.node 1).child = some T.id
  k1 : (s.node 1).kind = .entity
  p1 : (s.node 1).parent = some 0
  p0 : (s.node 0).parent = none
  nodup : T.ids.Nodup
  bound : ∀ j ∈ T.ids, 2 ≤ j ∧ j < s.nodes.length
  len : T.ids.length + 2 = s.nodes.length

theorem Inv.of_nodes {s : BState} {T : Sel} (hi : Inv s T) (s' : BState) (h : s'.nodes = s.nodes) : Inv s' T := by
  have hn : ∀ j, s'.node j = s.node j := fun j => by simp [BState.node, h]
  refine ⟨RepT_congr s s' T 1 (fun j _ => hn j) hi.rep, ?_, ?_, ?_, ?_, hi.nodup, ?_, ?_⟩
  · rw [hn]; exact hi.top
  · rw [hn]; exact hi.k1
  · rw [hn]; exact hi.p1
  · rw [hn]; exact hi.p0
  · rw [h]; exact hi.bound
  · rw [h]; exact hi.len


theorem isBinop_of_kind (s : BState) (i : Nat) (k : SK) (h : (s.node i).kind = k.toNK) : s.isBinop i = true := by
  unfold BState.isBinop; rw [h]; cases k <;> rfl

/-- the surgery step on the invariant: the subtree `u` at path `P` is replaced by `k(u, new leaf)` -/
theorem wrap_inv (s s' : BState) (P : List Frame) (u : Sel) (k : SK) (b : Nat)
    (hi : Inv s (plug P u)) (hw : WrapSpec s s' k.toNK u.id (pid P) b) :
    Inv s' (plug P (.node k (s.nodes.length + 1) u (.leaf s.nodes.length b []))) := by
  obtain ⟨hu, hseg⟩ := (rep_plug s P u).mp ⟨hi.rep, hi.top⟩
  have hperm := ids_plug P u
  have hnd : (u.ids ++ pathIds P).Nodup := hperm.nodup_iff.mp hi.nodup
  have hbd : ∀ j ∈ u.ids ++ pathIds P, 2 ≤ j ∧ j < s.nodes.length := fun j hj => hi.bound j (hperm.mem_iff.mpr hj)
  have hlen : (u.ids ++ pathIds P).length + 2 = s.nodes.length := by rw [← hperm.length_eq]; exact hi.len
  obtain ⟨hndu, hndp, hdisj⟩ := List.nodup_append.mp hnd
  have hcur : u.id ∈ u.ids := id_mem_ids u
  have hcb := hbd u.id (by simp [hcur])
  have hL3 : 3 ≤ s.nodes.length := by
    have : 1 ≤ u.ids.length := List.length_pos_of_mem hcur
    simp only [List.length_append] at hlen; omega
  -- the node above the hole is not in `u`, and is either the entity or a path node
  have hpu : pid P ∉ u.ids := by
    cases P with
    | nil => intro h; have := hbd 1 (by simp [pid] at h; simp [h]); omega
    | cons f P' => intro h; exact hdisj _ h f.id (by simp [pathIds]) rfl
  have hpL : pid P < s.nodes.length := by
    cases P with
    | nil => simp only [pid]; omega
    | cons f P' => exact (hbd f.id (by simp [pathIds, pid])).2
  have hun_u : ∀ j ∈ u.ids, j ≠ u.id → s'.node j = s.node j := fun j hj hne =>
    hw.other j hne (by rintro rfl; exact hpu hj) (by have := hbd j (by simp [hj]); omega)
      (by have := hbd j (by simp [hj]); omega)
  have hun_p : ∀ j ∈ pathIds P, j ≠ pid P → s'.node j = s.node j := fun j hj hne =>
    hw.other j (by rintro rfl; exact hdisj _ hcur _ hj rfl) hne (by have := hbd j (by simp [hj]); omega)
      (by have := hbd j (by simp [hj]); omega)
  have hun0 : s'.node 0 = s.node 0 :=
    hw.other 0 (by omega) (by cases P with
      | nil => simp [pid]
      | cons f P' => have := hbd f.id (by simp [pathIds]); simp only [pid]; omega) (by omega) (by omega)
  have hun1 : P ≠ [] → s'.node 1 = s.node 1 := fun hP =>
    hw.other 1 (by omega) (by cases P with
      | nil => exact absurd rfl hP
      | cons f P' => have := hbd f.id (by simp [pathIds]); simp only [pid]; omega) (by omega) (by omega)
  -- the new subtree is represented
  have hu' : RepT s' (pid P) (.node k (s.nodes.length + 1) u (.leaf s.nodes.length b [])) := by
    simp only [RepT, hw.bin, hw.leaf, Sel.id, true_and, and_true]
    exact RepT_reparent s s' u (pid P) _ hndu hw.cur_node hun_u hu
  have hseg' : Seg s' P (s.nodes.length + 1) := by
    cases P with
    | nil => simp only [Seg]; exact hw.par_child
    | cons f P' =>
      simp only [Seg, pid] at hseg hw ⊢
      obtain ⟨hk, hside, hpar, hsib, hrest⟩ := hseg
      have hb := isBinop_of_kind s f.id f.k hk
      have hsibne : f.sib.id ≠ u.id := fun e =>
        hdisj _ hcur f.sib.id (by simp [pathIds, id_mem_ids]) e.symm
      simp only [pathIds, List.nodup_cons, List.mem_append, not_or, List.nodup_append] at hndp
      refine ⟨by rw [hw.par_kind]; exact hk, ?_, by rw [hw.par_parent]; exact hpar, ?_, ?_⟩
      · cases hf : f.holeLeft
        · simp only [hf, Bool.false_eq_true, ↓reduceIte] at hside ⊢
          have := hw.par_r hb hside.2 (by rw [hside.1]; simpa using hsibne)
          exact ⟨by rw [this.2]; exact hside.1, this.1⟩
        · simp only [hf, ↓reduceIte] at hside ⊢
          have := hw.par_l hb hside.1 (by rw [hside.2]; simpa using hsibne)
          exact ⟨this.1, by rw [this.2]; exact hside.2⟩
      · exact RepT_congr s s' f.sib f.id (fun j hj => hun_p j (by simp [pathIds, hj])
          (by rintro rfl; exact hndp.1.1 hj)) hsib
      · exact Seg_congr s s' P' f.id (hun1 (by simp)) (fun j hj => hun_p j (by simp [pathIds, hj])
          (by rintro rfl; exact hndp.1.2 hj)) hrest
  obtain ⟨hrep', htop'⟩ := (rep_plug s' P _).mpr ⟨hu', hseg'⟩
  have hperm' := ids_plug P (.node k (s.nodes.length + 1) u (.leaf s.nodes.length b []))
  have hperm2 : ((Sel.node k (s.nodes.length + 1) u (.leaf s.nodes.length b [])).ids ++ pathIds P).Perm
      ((s.nodes.length + 1) :: s.nodes.length :: (u.ids ++ pathIds P)) := by
    simp only [Sel.ids, List.cons_append, List.append_assoc, List.nil_append]
    exact List.Perm.cons _ List.perm_middle
  have hperm3 := hperm'.trans hperm2
  refine ⟨hrep', htop', ?_, ?_, ?_, ?_, ?_, ?_⟩
  · cases P with
    | nil => have := hw.par_kind; simp only [pid] at this; rw [this]; exact hi.k1
    | cons f P' => rw [hun1 (by simp)]; exact hi.k1
  · cases P with
    | nil => have := hw.par_parent; simp only [pid] at this; rw [this]; exact hi.p1
    | cons f P' => rw [hun1 (by simp)]; exact hi.p1
  · rw [hun0]; exact hi.p0
  · rw [hperm3.nodup_iff]
    simp only [List.nodup_cons, List.mem_cons, not_or]
    refine ⟨⟨by omega, fun h => ?_⟩, fun h => ?_, hnd⟩
    · have := hbd _ h; omega
    · have := hbd _ h; omega
  · intro j hj
    have hj' := hperm3.mem_iff.mp hj
    simp only [List.mem_cons] at hj'
    rw [hw.len]
    rcases hj' with rfl | rfl | h
    · omega
    · omega
    · have := hbd j h; omega
  · rw [hperm3.length_eq, hw.len]
    simp only [List.length_cons]
    omega


theorem RepT_parent (s : BState) (par : Nat) (u : Sel) (h : RepT s par u) : (s.node u.id).parent = some par := by
  cases u with
  | leaf i b cs => exact h.2.2.2
  | node k i l r => exact h.2.2.2.1

/-- facts about the hole of a path in a store satisfying the invariant -/
theorem hole_facts (s : BState) (P : List Frame) (u : Sel) (hi : Inv s (plug P u)) :
    u.id < s.nodes.length ∧ 2 ≤ u.id ∧ pid P < s.nodes.length ∧ pid P ≠ u.id ∧
      (s.node u.id).parent = some (pid P) ∧ 3 ≤ s.nodes.length := by
  obtain ⟨hu, hseg⟩ := (rep_plug s P u).mp ⟨hi.rep, hi.top⟩
  have hperm := ids_plug P u
  have hnd : (u.ids ++ pathIds P).Nodup := hperm.nodup_iff.mp hi.nodup
  have hbd : ∀ j ∈ u.ids ++ pathIds P, 2 ≤ j ∧ j < s.nodes.length := fun j hj => hi.bound j (hperm.mem_iff.mpr hj)
  obtain ⟨hndu, hndp, hdisj⟩ := List.nodup_append.mp hnd
  have hcur : u.id ∈ u.ids := id_mem_ids u
  have hcb := hbd u.id (by simp [hcur])
  refine ⟨hcb.2, hcb.1, ?_, ?_, RepT_parent s _ u hu, by omega⟩
  · cases P with
    | nil => simp only [pid]; omega
    | cons f P' => exact (hbd f.id (by simp [pathIds, pid])).2
  · cases P with
    | nil => simp only [pid]; omega
    | cons f P' => intro h; exact hdisj _ hcur f.id (by simp [pathIds]) (by simp only [pid] at h; exact h.symm)

/-- `refinement` on the invariant: the current condition leaf is wrapped in place -/
theorem ref_step (s : BState) (P : List Frame) (i b : Nat) (cs st : List Nat) (b' : Nat)
    (hi : Inv s (plug P (.leaf i b cs))) (hs : s.stack = i :: st) :
    ∃ s', s.doRefinement Quirks.today b' = some s' ∧
      Inv s' (plug P (.node .exceptIf (s.nodes.length + 1) (.leaf i b cs) (.leaf s.nodes.length b' []))) ∧
      s'.nodes.length = s.nodes.length + 2 ∧ s'.stack = s.stack ∧ s'.cachedRoot = s.cachedRoot ∧
      s'.last = some s.nodes.length := by
  obtain ⟨h1, _, h3, h4, h5, _⟩ := hole_facts s P _ hi
  simp only [Sel.id] at h1 h4 h5
  have hw := wrapSpec_relinkRef s .exceptIf i (pid P) b' h1 h3 h4 h5
  have hinv := wrap_inv s _ P (.leaf i b cs) .exceptIf b' hi hw
  rw [doRefinement_eq s i st b' hs]
  refine ⟨_, rfl, ?_, ?_, ?_, ?_, rfl⟩
  · exact hinv.of_nodes _ rfl
  · exact hw.len
  · show (relinkRef _ _ _ _).stack = _
    rw [(relinkRef_frame _ _ _ _).2.1, (wrapAt_frame _ _ _ _).1]; rfl
  · show (relinkRef _ _ _ _).cachedRoot = _
    rw [(relinkRef_frame _ _ _ _).2.2, (wrapAt_frame _ _ _ _).2]; rfl


/-! ## the climb of `alternative_or_next` -/

/-- a frame the climb passes: `Alternative` / `Next` from either side, `ExceptIf` from the left -/
def Frame.climbable (f : Frame) : Bool := f.k != .exceptIf || f.holeLeft

/-- where the climb stops: below the `Entity`, or at the right operand of an `ExceptIf` -/
def stopAt : List Frame → Prop
  | [] => True
  | f :: _ => f.k = .exceptIf ∧ f.holeLeft = false

def topId : List Frame → Nat → Nat
  | [], h => h
  | f :: D, _ => topId D f.id

theorem plug_id : ∀ (D : List Frame) (u : Sel), (plug D u).id = topId D u.id
  | [], u => rfl
  | f :: D, u => by rw [plug, plug_id D, Frame.fill_id]; rfl

theorem climb_path (s : BState) (C : List Frame) (hk1 : (s.node 1).kind = .entity) (hC : stopAt C) :
    ∀ (D : List Frame) (h fuel : Nat), D.length < fuel → (s.node h).parent = some (pid (D ++ C)) →
      Seg s (D ++ C) h → (∀ f ∈ D, f.climbable = true) → (h :: pathIds (D ++ C)).Nodup →
      s.climb fuel h = topId D h
  | [], h, fuel + 1, _, hp, hseg, _, hnd => by
    simp only [BState.climb, topId]
    have : s.climbStep h = h := by
      unfold BState.climbStep
      simp only [List.nil_append] at hp hseg hnd
      rw [hp]
      cases C with
      | nil => simp [pid, hk1]
      | cons f C' =>
        simp only [Seg, pid, stopAt] at hseg hC ⊢
        obtain ⟨hk, hside, _⟩ := hseg
        rw [hC.2] at hside
        simp only [Bool.false_eq_true, ↓reduceIte] at hside
        have hne : f.sib.id ≠ h := by
          intro e
          simp only [pathIds, List.nodup_cons, List.mem_cons, List.mem_append, not_or] at hnd
          exact hnd.1.2.1 (e ▸ id_mem_ids f.sib)
        simp only [hk, hC.1, SK.toNK, hside.1]
        simp [hne]
    simp [this]
  | f :: D, h, fuel + 1, hfuel, hp, hseg, hcl, hnd => by
    simp only [List.cons_append, Seg, pid] at hp hseg
    obtain ⟨hk, hside, hpar, _, hrest⟩ := hseg
    have hfc := hcl f (by simp)
    have hne : f.id ≠ h := by
      intro e
      simp only [List.cons_append, pathIds, List.nodup_cons, List.mem_cons, not_or] at hnd
      exact hnd.1.1 e.symm
    have hstep : s.climbStep h = f.id := by
      unfold BState.climbStep
      rw [hp]
      simp only [hk]
      cases hfk : f.k
      · simp only [Frame.climbable, hfk, bne_self_eq_false, Bool.false_or] at hfc
        rw [hfc] at hside
        simp only [↓reduceIte] at hside
        simp [SK.toNK, hside.1]
      · simp [SK.toNK]
      · simp [SK.toNK]
    simp only [BState.climb, hstep, hne, ↓reduceIte, topId]
    refine climb_path s C hk1 hC D f.id fuel (by simp at hfuel; omega) hpar hrest
      (fun g hg => hcl g (by simp [hg])) ?_
    simp only [List.cons_append, pathIds, List.nodup_cons, List.mem_cons, List.mem_append, not_or,
      List.nodup_append] at hnd ⊢
    exact ⟨hnd.2.1.2, hnd.2.2.2.1⟩


theorem length_le_pathIds : ∀ P : List Frame, P.length ≤ (pathIds P).length
  | [] => by simp
  | f :: P => by
    have := length_le_pathIds P
    simp only [pathIds, List.length_cons, List.length_append]; omega

/-- `alternative` / `next_rule` on the invariant: the whole scope is wrapped -/
theorem alt_step (s : BState) (D C : List Frame) (i b : Nat) (cs st : List Nat) (k : SK) (b' : Nat)
    (hi : Inv s (plug (D ++ C) (.leaf i b cs))) (hs : s.stack = i :: st)
    (hD : ∀ f ∈ D, f.climbable = true) (hC : stopAt C) :
    ∃ s', s.doAltOrNext Quirks.today k.toNK b' = some s' ∧
      Inv s' (plug C (.node k (s.nodes.length + 1) (plug D (.leaf i b cs)) (.leaf s.nodes.length b' []))) ∧
      s'.nodes.length = s.nodes.length + 2 ∧ s'.stack = s.stack ∧ s'.cachedRoot = s.cachedRoot ∧
      s'.last = some s.nodes.length := by
  have hi' : Inv s (plug C (plug D (.leaf i b cs))) := by rw [← plug_append]; exact hi
  obtain ⟨g1, _, _, _, g5, g6⟩ := hole_facts s (D ++ C) _ hi
  simp only [Sel.id] at g1 g5
  obtain ⟨hu, hseg⟩ := (rep_plug s (D ++ C) _).mp ⟨hi.rep, hi.top⟩
  have hperm := ids_plug (D ++ C) (.leaf i b cs)
  have hnd : (i :: pathIds (D ++ C)).Nodup := by
    have := hperm.nodup_iff.mp hi.nodup; simpa [Sel.ids] using this
  have hbd : ∀ j ∈ pathIds (D ++ C), j < s.nodes.length := fun j hj =>
    (hi.bound j (hperm.mem_iff.mpr (by simp [hj]))).2
  have hlen : (pathIds (D ++ C)).length + 3 = s.nodes.length := by
    have := hperm.length_eq; have := hi.len; simp [Sel.ids] at *; omega
  -- the state after the allocation of the new leaf
  have hs1 : ∀ j, j < s.nodes.length → (s.alloc { kind := .leaf, blk := b' }).1.node j = s.node j := by
    intro j hj; rw [node_alloc, if_neg (by omega)]
  have hclimb : (s.alloc { kind := .leaf, blk := b' }).1.climb (s.alloc { kind := .leaf, blk := b' }).1.nodes.length i
      = (plug D (.leaf i b cs)).id := by
    rw [plug_id]
    refine climb_path _ C (by rw [hs1 1 (by omega)]; exact hi.k1) hC D i _ ?_ (by rw [hs1 i g1]; exact g5) ?_ hD hnd
    · have := length_le_pathIds (D ++ C); simp only [List.length_append, alloc_length] at this ⊢; omega
    · exact Seg_congr s _ (D ++ C) i (hs1 1 (by omega)) (fun j hj => hs1 j (hbd j hj)) hseg
  obtain ⟨h1, _, h3, h4, h5, _⟩ := hole_facts s C _ hi'
  have hw := wrapSpec_relinkAlt s k.toNK _ (pid C) b' h1 h3 h4 h5
  have hinv := wrap_inv s _ C _ k b' hi' hw
  rw [doAltOrNext_eq s i st k.toNK b' hs]
  simp only [hclimb]
  refine ⟨_, rfl, hinv.of_nodes _ rfl, hw.len, ?_, ?_, rfl⟩
  · show (relinkAlt _ _ _ _).stack = _
    rw [(relinkAlt_frame _ _ _ _).2.1, (wrapAt_frame _ _ _ _).1]; rfl
  · show (relinkAlt _ _ _ _).cachedRoot = _
    rw [(relinkAlt_frame _ _ _ _).2.2, (wrapAt_frame _ _ _ _).2]; rfl

theorem ids_plug_congr (P : List Frame) (u u' : Sel) (h : u.ids = u'.ids) : (plug P u).ids.Perm (plug P u').ids :=
  (ids_plug P u).trans (h ▸ (ids_plug P u').symm)

/-- the `Add` statements of a block are attached to its condition leaf -/
theorem add_step (s : BState) (P : List Frame) (i b : Nat) (cs st : List Nat) (b' : Nat)
    (hi : Inv s (plug P (.leaf i b cs))) (hs : s.stack = i :: st) :
    ∃ s', s.step Quirks.today (.add b') = some s' ∧ Inv s' (plug P (.leaf i b (cs ++ [b']))) ∧
      s'.nodes.length = s.nodes.length ∧ s'.stack = s.stack ∧ s'.cachedRoot = s.cachedRoot := by
  refine ⟨s.modify i fun n => { n with concl := n.concl ++ [b'] }, by simp [BState.step, hs], ?_, by simp, rfl, rfl⟩
  obtain ⟨g1, g2, _, g4, _, _⟩ := hole_facts s P _ hi
  simp only [Sel.id] at g1 g2 g4
  obtain ⟨hu, hseg⟩ := (rep_plug s P _).mp ⟨hi.rep, hi.top⟩
  have hperm := ids_plug P (.leaf i b cs)
  have hnd : (i :: pathIds P).Nodup := by
    have := hperm.nodup_iff.mp hi.nodup; simpa [Sel.ids] using this
  have hnm : ∀ j, j ≠ i → (s.modify i fun n => { n with concl := n.concl ++ [b'] }).node j = s.node j := by
    intro j hj; rw [node_modify _ _ _ _ g1, if_neg hj]
  have hself : (s.modify i fun n => { n with concl := n.concl ++ [b'] }).node i =
      { s.node i with concl := (s.node i).concl ++ [b'] } := by rw [node_modify _ _ _ _ g1, if_pos rfl]
  have hip : i ∉ pathIds P := (List.nodup_cons.mp hnd).1
  obtain ⟨hrep', htop'⟩ := (rep_plug _ P (.leaf i b (cs ++ [b']))).mpr ⟨by
      simp only [RepT] at hu ⊢
      rw [hself]; exact ⟨hu.1, hu.2.1, by simp [hu.2.2.1], hu.2.2.2⟩,
    Seg_congr s _ P i (hnm 1 (by omega)) (fun j hj => hnm j (by rintro rfl; exact hip hj)) hseg⟩
  have hp2 := ids_plug_congr P (.leaf i b (cs ++ [b'])) (.leaf i b cs) rfl
  refine ⟨hrep', htop', ?_, ?_, ?_, hp2.nodup_iff.mpr hi.nodup, ?_, ?_⟩
  · rw [hnm 1 (by omega)]; exact hi.k1
  · rw [hnm 1 (by omega)]; exact hi.p1
  · rw [hnm 0 (by omega)]; exact hi.p0
  · intro j hj; rw [modify_length]; exact hi.bound j (hp2.mem_iff.mp hj)
  · rw [modify_length, hp2.length_eq]; exact hi.len

theorem rootOf_path (s : BState) (hp1 : (s.node 1).parent = some 0) (hp0 : (s.node 0).parent = none) :
    ∀ (P : List Frame) (h fuel : Nat), P.length + 2 ≤ fuel → (s.node h).parent = some (pid P) → Seg s P h →
      s.rootOf fuel h = 0
  | [], h, fuel + 2, _, hp, _ => by
    simp only [BState.rootOf, hp, pid, hp1]
    cases fuel <;> simp [BState.rootOf, hp0]
  | f :: P, h, fuel + 1, hf, hp, hseg => by
    simp only [Seg, pid] at hp hseg
    simp only [BState.rootOf, hp]
    exact rootOf_path s hp1 hp0 P f.id fuel (by simp at hf; omega) hseg.2.2.1 hseg.2.2.2.2

/-- `with <branch>:` pushes the branch's condition leaf -/
theorem enter_step (s : BState) (f : Frame) (P : List Frame) (n b : Nat) (cs : List Nat)
    (hi : Inv s (plug (f :: P) (.leaf n b cs))) (hl : s.last = some n) :
    s.step Quirks.today .enter = some { s with stack := n :: s.stack } := by
  obtain ⟨_, g2, _, _, g5, _⟩ := hole_facts s (f :: P) _ hi
  simp only [Sel.id, pid] at g2 g5
  obtain ⟨hu, hseg⟩ := (rep_plug s (f :: P) _).mp ⟨hi.rep, hi.top⟩
  have hperm := ids_plug (f :: P) (.leaf n b cs)
  have hfb := hi.bound f.id (hperm.mem_iff.mpr (by simp [pathIds]))
  have hlen : (pathIds (f :: P)).length + 3 = s.nodes.length := by
    have := hperm.length_eq; have := hi.len; simp [Sel.ids] at *; omega
  have hroot : s.rootOf s.nodes.length n = 0 := by
    refine rootOf_path s hi.p1 hi.p0 (f :: P) n _ ?_ (by simpa [pid] using g5) hseg
    have := length_le_pathIds (f :: P); omega
  simp only [BState.step, hl, hroot, g5]
  have h1 : ¬ n = 0 := by omega
  have h2 : ¬ f.id = 0 := by omega
  simp [h1, h2]


/-! ## induction over the program -/

theorem run_app (q : Quirks) (xs ys : List Op) : ∀ s : BState,
    BState.run q s (xs ++ ys) = (BState.run q s xs).bind fun s' => BState.run q s' ys := by
  induction xs with
  | nil => intro s; simp [BState.run]
  | cons x xs ih =>
    intro s
    simp only [List.cons_append, BState.run]
    cases BState.step q s x with
    | none => simp
    | some s1 => simp [ih]

theorem attach_append (t : Sel) (a b : List LItem) : attach t (a ++ b) = attach (attach t a) b := by
  simp [attach, List.foldl_append]

/-- what running the body of block `p` (entered with its fresh condition leaf `i` on the stack) does -/
def ProgOK (p : Prog) : Prop :=
  ∀ (s : BState) (D C : List Frame) (i : Nat) (st : List Nat),
    Inv s (plug (D ++ C) (.leaf i p.blk [])) → s.stack = i :: st → (∀ f ∈ D, f.climbable = true) → stopAt C →
    ∃ s', BState.run Quirks.today s p.ops = some s' ∧
      Inv s' (plug C (attach (plug D (p.layBranch s.nodes.length i).1) (p.layBranch s.nodes.length i).2.1)) ∧
      s'.nodes.length = (p.layBranch s.nodes.length i).2.2 ∧ s'.stack = s.stack ∧ s'.cachedRoot = s.cachedRoot

/-- what running the branch blocks `kids` written in the block with condition leaf `i` does -/
def KidsOK (kids : Kids) : Prop :=
  ∀ (s : BState) (D C : List Frame) (i b : Nat) (cs st : List Nat),
    Inv s (plug (D ++ C) (.leaf i b cs)) → s.stack = i :: st → (∀ f ∈ D, f.climbable = true) → stopAt C →
    ∃ s', BState.run Quirks.today s kids.ops = some s' ∧
      Inv s' (plug C (attach (plug D (plug (kids.lay s.nodes.length).1 (.leaf i b cs)))
        (kids.lay s.nodes.length).2.1)) ∧
      s'.nodes.length = (kids.lay s.nodes.length).2.2 ∧ s'.stack = s.stack ∧ s'.cachedRoot = s.cachedRoot

theorem prog_case (b : Nat) (kids : Kids) (ih : KidsOK kids) : ProgOK (.mk b kids) := by
  intro s D C i st hi hs hD hC
  obtain ⟨s1, e1, i1, l1, st1, c1⟩ := add_step s (D ++ C) i b [] st b hi hs
  obtain ⟨s2, e2, i2, l2, st2, c2⟩ := ih s1 D C i b ([] ++ [b]) st i1 (st1.trans hs) hD hC
  refine ⟨s2, ?_, ?_, ?_, st2.trans st1, c2.trans c1⟩
  · simp only [Prog.ops, BState.run, e1]; exact e2
  · simpa [Prog.layBranch, l1] using i2
  · simpa [Prog.layBranch, l1] using l2

theorem nil_case : KidsOK .nil := by
  intro s D C i b cs st hi hs hD hC
  refine ⟨s, rfl, ?_, rfl, rfl, rfl⟩
  simpa [Kids.lay, plug, attach, plug_append] using hi

theorem exit_run (s : BState) (n : Nat) (st : List Nat) (hs : s.stack = n :: st) :
    s.step Quirks.today .exit = some { s with stack := st } := by
  simp [BState.step, hs]

theorem ref_case (p : Prog) (rest : Kids) (ihp : ProgOK p) (ihr : KidsOK rest) : KidsOK (.cons .ref p rest) := by
  intro s D C i b cs st hi hs hD hC
  obtain ⟨s1, e1, i1, l1, st1, c1, la1⟩ := ref_step s (D ++ C) i b cs st p.blk hi hs
  -- the new leaf seen from its own path
  have i1' : Inv s1 (plug (⟨.exceptIf, s.nodes.length + 1, false, .leaf i b cs⟩ :: (D ++ C))
      (.leaf s.nodes.length p.blk [])) := by simpa [plug, Frame.fill] using i1
  have e2 := enter_step s1 _ _ _ _ _ i1' la1
  have i2 : Inv { s1 with stack := s.nodes.length :: s1.stack }
      (plug ([] ++ ⟨.exceptIf, s.nodes.length + 1, false, .leaf i b cs⟩ :: (D ++ C))
        (.leaf s.nodes.length p.blk [])) := i1'.of_nodes _ rfl
  obtain ⟨s3, e3, i3, l3, st3, c3⟩ := ihp _ [] _ _ (s1.stack) i2 rfl (by simp) ⟨rfl, rfl⟩
  simp only [l1] at i3 l3
  have e4 := exit_run s3 _ _ st3
  have i4 : Inv { s3 with stack := s1.stack }
      (plug ((⟨.exceptIf, s.nodes.length + 1, true,
        attach (p.layBranch (s.nodes.length + 2) s.nodes.length).1
          (p.layBranch (s.nodes.length + 2) s.nodes.length).2.1⟩ :: D) ++ C) (.leaf i b cs)) := by
    have i3' : Inv s3 (plug ((⟨.exceptIf, s.nodes.length + 1, true,
        attach (p.layBranch (s.nodes.length + 2) s.nodes.length).1
          (p.layBranch (s.nodes.length + 2) s.nodes.length).2.1⟩ :: D) ++ C) (.leaf i b cs)) := by
      simpa [plug, Frame.fill] using i3
    exact i3'.of_nodes _ rfl
  obtain ⟨s5, e5, i5, l5, st5, c5⟩ := ihr _ _ C i b cs st i4 (by simp [st1, hs])
    (by intro f hf; simp only [List.mem_cons] at hf; rcases hf with rfl | hf
        · rfl
        · exact hD f hf) hC
  simp only [l3] at i5 l5
  refine ⟨s5, ?_, ?_, ?_, ?_, ?_⟩
  · have e1' : s.step Quirks.today (.refinement p.blk) = some s1 := e1
    simp only [Kids.ops, BState.run, e1', e2]
    rw [run_app, e3]
    simp only [Option.bind_some, BState.run, e4]
    exact e5
  · simpa [Kids.lay, plug, plug_append, Frame.fill] using i5
  · simpa [Kids.lay] using l5
  · simp [st5, st1]
  · simp [c5, c3, c1]


theorem itemFrames_climbable (its : List LItem) : ∀ f ∈ itemFrames its, f.climbable = true := by
  intro f hf
  simp only [itemFrames, List.mem_map] at hf
  obtain ⟨it, _, rfl⟩ := hf
  simp [Frame.climbable]

/-- an `alternative` (`k = alt`) or `next_rule` (`k = next`) branch followed by the rest of the block -/
theorem altnext_case (k : SK) (hk : k ≠ .exceptIf) (op : Op) (p : Prog) (rest : Kids)
    (hop : ∀ s : BState, s.step Quirks.today op = s.doAltOrNext Quirks.today k.toNK p.blk)
    (ihp : ProgOK p) (ihr : KidsOK rest)
    (s : BState) (D C : List Frame) (i b : Nat) (cs st : List Nat)
    (hi : Inv s (plug (D ++ C) (.leaf i b cs))) (hs : s.stack = i :: st)
    (hD : ∀ f ∈ D, f.climbable = true) (hC : stopAt C) :
    ∃ s', BState.run Quirks.today s (op :: Op.enter :: (p.ops ++ Op.exit :: rest.ops)) = some s' ∧
      Inv s' (plug C (attach (plug D (plug
          (rest.lay (p.layBranch (s.nodes.length + 2) s.nodes.length).2.2).1 (.leaf i b cs)))
        ((k, s.nodes.length + 1, (p.layBranch (s.nodes.length + 2) s.nodes.length).1) ::
          ((p.layBranch (s.nodes.length + 2) s.nodes.length).2.1 ++
            (rest.lay (p.layBranch (s.nodes.length + 2) s.nodes.length).2.2).2.1)))) ∧
      s'.nodes.length = (rest.lay (p.layBranch (s.nodes.length + 2) s.nodes.length).2.2).2.2 ∧
      s'.stack = s.stack ∧ s'.cachedRoot = s.cachedRoot := by
  have hkc : ∀ (hl : Bool) (sib : Sel) (n : Nat), (Frame.mk k n hl sib).climbable = true := by
    intro hl sib n; cases k <;> simp [Frame.climbable] at hk ⊢
  obtain ⟨s1, e1, i1, l1, st1, c1, la1⟩ := alt_step s D C i b cs st k p.blk hi hs hD hC
  have i1' : Inv s1 (plug (⟨k, s.nodes.length + 1, false, plug D (.leaf i b cs)⟩ :: C)
      (.leaf s.nodes.length p.blk [])) := by simpa [plug, Frame.fill] using i1
  have e2 := enter_step s1 _ _ _ _ _ i1' la1
  have i2 : Inv { s1 with stack := s.nodes.length :: s1.stack }
      (plug ([⟨k, s.nodes.length + 1, false, plug D (.leaf i b cs)⟩] ++ C)
        (.leaf s.nodes.length p.blk [])) := i1'.of_nodes _ rfl
  obtain ⟨s3, e3, i3, l3, st3, c3⟩ := ihp _ _ C _ (s1.stack) i2 rfl
    (by intro f hf; simp only [List.mem_singleton] at hf; subst hf; exact hkc _ _ _) hC
  simp only [l1] at i3 l3
  have e4 := exit_run s3 _ _ st3
  have i3' : Inv s3 (plug ((D ++ ⟨k, s.nodes.length + 1, true,
        (p.layBranch (s.nodes.length + 2) s.nodes.length).1⟩ ::
          itemFrames (p.layBranch (s.nodes.length + 2) s.nodes.length).2.1) ++ C) (.leaf i b cs)) := by
    simpa [plug, plug_append, Frame.fill, plug_itemFrames] using i3
  have i4 := i3'.of_nodes { s3 with stack := s1.stack } rfl
  obtain ⟨s5, e5, i5, l5, st5, c5⟩ := ihr _ _ C i b cs st i4 (by simp [st1, hs])
    (by intro f hf; simp only [List.mem_append, List.mem_cons] at hf
        rcases hf with hf | rfl | hf
        · exact hD f hf
        · exact hkc _ _ _
        · exact itemFrames_climbable _ f hf) hC
  simp only [l3] at i5 l5
  refine ⟨s5, ?_, ?_, l5, ?_, ?_⟩
  · have e1' : s.step Quirks.today op = some s1 := (hop s).trans e1
    simp only [BState.run, e1', e2]
    rw [run_app, e3]
    simp only [Option.bind_some, BState.run, e4]
    exact e5
  · simpa [plug, plug_append, Frame.fill, plug_itemFrames, attach_append, attach] using i5
  · simp [st5, st1]
  · simp [c5, c3, c1]

theorem alt_case (p : Prog) (rest : Kids) (ihp : ProgOK p) (ihr : KidsOK rest) : KidsOK (.cons .alt p rest) := by
  intro s D C i b cs st hi hs hD hC
  have := altnext_case .alt (by decide) (.alternative p.blk) p rest (fun _ => rfl) ihp ihr s D C i b cs st hi hs hD hC
  simpa [Kids.ops, Kids.lay] using this

theorem next_case (p : Prog) (rest : Kids) (ihp : ProgOK p) (ihr : KidsOK rest) : KidsOK (.cons .next p rest) := by
  intro s D C i b cs st hi hs hD hC
  have := altnext_case .next (by decide) (.next p.blk) p rest (fun _ => rfl) ihp ihr s D C i b cs st hi hs hD hC
  simpa [Kids.ops, Kids.lay] using this

mutual
theorem Prog.run_lay : ∀ p : Prog, ProgOK p
  | .mk b kids => prog_case b kids (Kids.run_lay kids)
theorem Kids.run_lay : ∀ kids : Kids, KidsOK kids
  | .nil => nil_case
  | .cons .ref p rest => ref_case p rest (Prog.run_lay p) (Kids.run_lay rest)
  | .cons .alt p rest => alt_case p rest (Prog.run_lay p) (Kids.run_lay rest)
  | .cons .next p rest => next_case p rest (Prog.run_lay p) (Kids.run_lay rest)
end


/-! ## reading the tree back, and the whole builder -/

theorem extract_of_rep (s : BState) : ∀ (t : Sel) (par fuel : Nat), RepT s par t → t.ids.length ≤ fuel →
    extractFrom s.nodes fuel t.id = some t
  | .leaf i b cs, par, 0, _, hf => by simp [Sel.ids] at hf
  | .leaf i b cs, par, fuel + 1, hr, _ => by
    simp only [RepT, BState.node] at hr
    simp only [extractFrom, Sel.id, hr.1, hr.2.1, hr.2.2.1]
  | .node k i l r, par, 0, _, hf => by simp [Sel.ids] at hf
  | .node k i l r, par, fuel + 1, hr, hf => by
    simp only [RepT] at hr
    obtain ⟨h1, h2, h3, _, h5, h6⟩ := hr
    simp only [Sel.ids, List.length_cons, List.length_append] at hf
    have el := extract_of_rep s l i fuel h5 (by omega)
    have er := extract_of_rep s r i fuel h6 (by omega)
    simp only [BState.node] at h1 h2 h3
    show extractFrom s.nodes (fuel + 1) i = _
    cases k <;> simp only [SK.toNK] at h1 <;> simp only [extractFrom, h1, h2, h3, el, er]

theorem init_enter (b : Nat) : (BState.init b).step Quirks.today Op.enterQuery =
    some { BState.init b with stack := [2], cachedRoot := some 2 } := by
  simp [BState.step, BState.conditionsRoot, BState.init, BState.condLoop, BState.rootOf, BState.node]

theorem init_inv (b : Nat) :
    Inv { BState.init b with stack := [2], cachedRoot := some 2 } (plug ([] ++ []) (.leaf 2 b [])) := by
  refine ⟨?_, ?_, ?_, ?_, ?_, ?_, ?_, ?_⟩ <;>
    simp [plug, RepT, BState.init, BState.node, Sel.id, Sel.ids]

/-- **the builder, for every program**: the selector tree `build Quirks.today p` leaves behind is `p.layout`,
node identities included; and every node of it is its own object -/
theorem build_today_tree (p : Prog) :
    (build Quirks.today p).bind BState.tree = some p.layout ∧ p.layout.ids.Nodup := by
  obtain ⟨s', e, hi, _, hst, _⟩ := Prog.run_lay p _ [] [] 2 [] (init_inv p.blk) rfl (by simp) trivial
  have hi' : Inv s' p.layout := by
    simpa [plug, Prog.layout, Prog.layScope, BState.init] using hi
  refine ⟨?_, hi'.nodup⟩
  have e4 := exit_run s' 2 [] hst
  simp only [build, BState.run, init_enter]
  rw [run_app, e]
  simp only [Option.bind_some, BState.run, e4, BState.tree]
  have := hi'.top
  simp only [BState.node] at this
  simp only [BState.node, this]
  exact extract_of_rep s' p.layout 1 _ hi'.rep (by have := hi'.len; show _ ≤ s'.nodes.length + 1; omega)


/-! ## the base rule's `Add` statements anywhere between the branches -/

def Kids.append : Kids → Kids → Kids
  | .nil, ys => ys
  | .cons k p rest, ys => .cons k p (rest.append ys)

theorem Kids.ops_append : ∀ xs ys : Kids, (xs.append ys).ops = xs.ops ++ ys.ops
  | .nil, ys => rfl
  | .cons k p rest, ys => by simp [Kids.append, Kids.ops, Kids.ops_append rest ys]

theorem Kids.lay_append : ∀ (xs ys : Kids) (n : Nat),
    (xs.append ys).lay n =
      ((ys.lay (xs.lay n).2.2).1 ++ (xs.lay n).1, (xs.lay n).2.1 ++ (ys.lay (xs.lay n).2.2).2.1,
        (ys.lay (xs.lay n).2.2).2.2)
  | .nil, ys, n => by simp [Kids.append, Kids.lay]
  | .cons .ref p rest, ys, n => by simp [Kids.append, Kids.lay, Kids.lay_append rest ys]
  | .cons .alt p rest, ys, n => by simp [Kids.append, Kids.lay, Kids.lay_append rest ys]
  | .cons .next p rest, ys, n => by simp [Kids.append, Kids.lay, Kids.lay_append rest ys]

theorem Kids.lay_frames_climbable : ∀ (xs : Kids) (n : Nat), ∀ f ∈ (xs.lay n).1, f.climbable = true
  | .nil, n => by simp [Kids.lay]
  | .cons .ref p rest, n => by
    intro f hf
    simp only [Kids.lay, List.mem_append, List.mem_singleton] at hf
    rcases hf with hf | rfl
    · exact Kids.lay_frames_climbable rest _ f hf
    · rfl
  | .cons .alt p rest, n => by
    intro f hf; simp only [Kids.lay] at hf; exact Kids.lay_frames_climbable rest _ f hf
  | .cons .next p rest, n => by
    intro f hf; simp only [Kids.lay] at hf; exact Kids.lay_frames_climbable rest _ f hf

/-- **the builder with the base `Add` after the first branches**: running `xs`, then the base rule's `Add`
statements, then `ys` in one `with rule:` block leaves behind the layout of the program `xs ++ ys` -/
theorem build_split_tree (b : Nat) (xs ys : Kids) :
    ((BState.init b).run Quirks.today (Op.enterQuery :: ((xs.ops ++ Op.add b :: ys.ops) ++ [Op.exit]))).bind
        BState.tree = some (Prog.mk b (xs.append ys)).layout ∧ (Prog.mk b (xs.append ys)).layout.ids.Nodup := by
  obtain ⟨s1, e1, i1, l1, st1, c1⟩ := Kids.run_lay xs _ [] [] 2 b [] [] (init_inv b) rfl (by simp) trivial
  have hn0 : ({ BState.init b with stack := [2], cachedRoot := some 2 } : BState).nodes.length = 3 := rfl
  simp only [hn0] at i1 l1
  have i1' : Inv s1 (plug (((xs.lay 3).1 ++ itemFrames (xs.lay 3).2.1) ++ []) (.leaf 2 b [])) := by
    simpa [plug, plug_append, plug_itemFrames] using i1
  obtain ⟨s2, e2, i2, l2, st2, c2⟩ := add_step s1 _ 2 b [] [] b i1' st1
  obtain ⟨s3, e3, i3, l3, st3, c3⟩ := Kids.run_lay ys s2 _ [] 2 b ([] ++ [b]) [] i2 (st2.trans st1)
    (by intro f hf; simp only [List.mem_append] at hf
        rcases hf with hf | hf
        · exact Kids.lay_frames_climbable xs 3 f hf
        · exact itemFrames_climbable _ f hf) trivial
  simp only [l2, l1] at i3 l3
  have hi' : Inv s3 (Prog.mk b (xs.append ys)).layout := by
    simpa [plug, plug_append, plug_itemFrames, Prog.layout, Prog.layScope, Prog.layBranch, Kids.lay_append,
      attach_append] using i3
  refine ⟨?_, hi'.nodup⟩
  have e4 := exit_run s3 2 [] (st3.trans (st2.trans st1))
  simp only [BState.run, init_enter]
  rw [run_app, run_app, e1]
  simp only [Option.bind_some, BState.run, e2]
  rw [e3]
  simp only [Option.bind_some, BState.run, e4, BState.tree]
  have := hi'.top
  simp only [BState.node] at this
  simp only [BState.node, this]
  exact extract_of_rep s3 _ 1 _ hi'.rep (by have := hi'.len; show _ ≤ s3.nodes.length + 1; omega)

end KrroodVerif.Rdr
