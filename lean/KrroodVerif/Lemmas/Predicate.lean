import KrroodVerif.Model.Predicate
/-!
Helper lemmas for `Props/C12.lean` about the model `Model/Predicate.lean`: Python-dict operations on association
lists, `bindAux`, the shape of the merged dictionary on accepted calls, chained evaluation versus candidate
bindings, independent versus chained evaluation, and the observation function. No property theorem lives here.
-/
namespace KrroodVerif.Pred

namespace Dict
variable {α β : Type}

theorem get?_set (d : Dict α) (k : String) (v : α) (j : String) :
    (d.set k v).get? j = if j = k then some v else d.get? j := by
  induction d with
  | nil => simp [set, get?, List.lookup]; split <;> simp_all
  | cons kv r ih =>
    obtain ⟨k', v'⟩ := kv
    simp only [set]
    split
    · subst_vars; simp [get?, List.lookup_cons]; split <;> simp_all
    · simp only [get?, List.lookup_cons] at *; rw [ih]; split <;> simp_all

theorem get?_eq_none_iff (d : Dict α) (k : String) : d.get? k = none ↔ k ∉ d.keys := by
  induction d with
  | nil => simp [get?, keys]
  | cons kv r ih =>
    obtain ⟨k', v'⟩ := kv
    simp only [get?, keys, List.lookup_cons, List.map_cons, List.mem_cons] at *
    split <;> simp_all

theorem set_eq_append (d : Dict α) (k : String) (v : α) (h : k ∉ d.keys) : d.set k v = d ++ [(k, v)] := by
  induction d with
  | nil => rfl
  | cons kv r ih =>
    obtain ⟨k', v'⟩ := kv
    simp only [keys, List.map_cons, List.mem_cons, not_or] at h
    simp only [set]
    rw [if_neg (fun e => h.1 e.symm)]
    simp [ih (by simpa [keys] using h.2)]

theorem update_eq_append (d e : Dict α) (hn : e.keys.Nodup) (hd : ∀ k ∈ e.keys, k ∉ d.keys) :
    d.update e = d ++ e := by
  induction e generalizing d with
  | nil => simp [update]
  | cons kv r ih =>
    obtain ⟨k, v⟩ := kv
    simp only [keys, List.map_cons, List.nodup_cons, List.mem_cons, forall_eq_or_imp] at hn hd
    simp only [update, List.foldl_cons]
    have h1 := set_eq_append d k v hd.1
    have := ih (d.set k v) hn.2 (by
      intro k' hk'
      rw [h1]
      simp only [keys, List.map_append, List.map_cons, List.map_nil, List.mem_append, List.mem_singleton, not_or]
      refine ⟨hd.2 k' hk', ?_⟩
      rintro rfl
      exact hn.1 hk')
    simp only [update] at this
    rw [this, h1]; simp

theorem keys_set (d : Dict α) (k : String) (v : α) :
    (d.set k v).keys = if k ∈ d.keys then d.keys else d.keys ++ [k] := by
  induction d with
  | nil => simp [set, keys]
  | cons kv r ih =>
    obtain ⟨k', v'⟩ := kv
    simp only [set]
    split
    · subst_vars; simp [keys]
    · rename_i hne
      simp only [keys, List.map_cons, List.mem_cons] at *
      rw [ih]
      have : ¬ k = k' := fun e => hne e.symm
      simp only [this, false_or]
      split <;> simp_all

theorem nodup_keys_set (d : Dict α) (k : String) (v : α) (h : d.keys.Nodup) : (d.set k v).keys.Nodup := by
  rw [keys_set]
  split
  · exact h
  · rename_i hk
    refine List.nodup_append.mpr ⟨h, by simp, ?_⟩
    intro a ha b hb e
    simp only [List.mem_singleton] at hb
    subst hb; subst e
    exact hk ha

theorem nodup_keys_update (d e : Dict α) (h : d.keys.Nodup) : (d.update e).keys.Nodup := by
  induction e generalizing d with
  | nil => simpa [update]
  | cons kv r ih =>
    simp only [update, List.foldl_cons]
    exact ih _ (nodup_keys_set d kv.1 kv.2 h)

theorem get?_update (d e : Dict α) (hn : e.keys.Nodup) (j : String) :
    (d.update e).get? j = (e.get? j).or (d.get? j) := by
  induction e generalizing d with
  | nil => simp [update, get?]
  | cons kv r ih =>
    obtain ⟨k, v⟩ := kv
    simp only [keys, List.map_cons, List.nodup_cons] at hn
    simp only [update, List.foldl_cons]
    have := ih (d.set k v) hn.2
    simp only [update] at this
    rw [this, get?_set]
    by_cases hj : j = k
    · subst hj
      have : get? r j = none := (get?_eq_none_iff r j).mpr hn.1
      simp only [get?] at this
      simp [this, get?]
    · have hj' : (j == k) = false := by simpa using hj
      simp [hj, get?, List.lookup_cons, hj']

end Dict

variable {α β : Type}

theorem keys_zip (names : List String) (args : List α) :
    Dict.keys (names.zip args) = names.take args.length := by
  induction names generalizing args with
  | nil => simp [Dict.keys]
  | cons n ns ih =>
    cases args with
    | nil => simp [Dict.keys]
    | cons a as => simpa [Dict.keys] using ih as

/-- what a successful `bindAux` tells about the call -/
theorem bindAux_ok_length {look : String → Option α} {ps : List Param} {args : List α} {b : Dict α}
    (h : bindAux look ps args = .ok b) : args.length ≤ ps.length := by
  induction ps generalizing args b with
  | nil => cases args <;> simp_all [bindAux]
  | cons p ps ih =>
    cases args with
    | nil => simp
    | cons a as =>
      simp only [bindAux] at h
      split at h
      · cases h
      · split at h
        · rename_i r hr; simpa using ih hr
        · cases h

theorem bindAux_ok_positional_not_kw {look : String → Option α} {ps : List Param} {args : List α} {b : Dict α}
    (h : bindAux look ps args = .ok b) : ∀ k ∈ (ps.map (·.name)).take args.length, look k = none := by
  induction ps generalizing args b with
  | nil => simp
  | cons p ps ih =>
    cases args with
    | nil => simp
    | cons a as =>
      simp only [bindAux] at h
      split at h
      · cases h
      · rename_i hl
        split at h
        · rename_i r hr
          intro k hk
          simp only [List.map_cons, List.length_cons, List.take_succ_cons, List.mem_cons] at hk
          rcases hk with rfl | hk
          · exact hl
          · exact ih hr k hk
        · cases h

theorem bindAux_congr {look look' : String → Option α} (ps : List Param) (args : List α)
    (h : ∀ p ∈ ps, look p.name = look' p.name) : bindAux look ps args = bindAux look' ps args := by
  induction ps generalizing args with
  | nil => cases args <;> simp [bindAux]
  | cons p ps ih =>
    have hp := h p (by simp)
    have ih' := fun args => ih args (fun q hq => h q (by simp [hq]))
    cases args with
    | nil => simp only [bindAux, hp, ih']
    | cons a as => simp only [bindAux, hp, ih']

/-- re-binding by keyword what was bound positionally gives the same binding: `f(**merged) ≡ f(*args, **kwargs)` -/
theorem bindAux_rebind {look : String → Option α} {ps : List Param} {args : List α} {b : Dict α}
    (hnd : (ps.map (·.name)).Nodup) (h : bindAux look ps args = .ok b) :
    bindAux (fun k => (((ps.map (·.name)).zip args).lookup k).or (look k)) ps [] = .ok b := by
  induction ps generalizing args b with
  | nil => cases args <;> simp_all [bindAux]
  | cons p ps ih =>
    simp only [List.map_cons, List.nodup_cons] at hnd
    cases args with
    | nil =>
      simp only [List.zip_nil_right, List.lookup_nil, Option.none_or]
      exact h
    | cons a as =>
      simp only [bindAux] at h
      split at h
      · cases h
      · rename_i hl
        split at h
        · rename_i r hr
          cases h
          have ih' := ih hnd.2 hr
          simp only [bindAux, List.map_cons, List.zip_cons_cons, List.lookup_cons, beq_self_eq_true, Option.some_or]
          have hc : bindAux (fun k => (List.lookup k ((p.name, a) :: (ps.map (·.name)).zip as)).or (look k)) ps []
              = bindAux (fun k => (((ps.map (·.name)).zip as).lookup k).or (look k)) ps [] := by
            apply bindAux_congr
            intro q hq
            have : (q.name == p.name) = false := by
              simp only [beq_eq_false_iff_ne, ne_eq]
              rintro e
              exact hnd.1 (e ▸ List.mem_map_of_mem hq)
            simp [List.lookup_cons, this]
          simp only [List.lookup_cons] at hc
          rw [hc, ih']
        · cases h

theorem bindAux_keys_sublist {look : String → Option α} {ps : List Param} {args : List α} {b : Dict α}
    (h : bindAux look ps args = .ok b) : List.Sublist b.keys (ps.map (·.name)) := by
  induction ps generalizing args b with
  | nil => cases args <;> simp_all [bindAux, Dict.keys]
  | cons p ps ih =>
    cases args with
    | nil =>
      simp only [bindAux] at h
      split at h
      · split at h
        · rename_i r hr; cases h
          simpa [Dict.keys] using ih hr
        · cases h
      · split at h
        · exact (ih h).cons _
        · cases h
    | cons a as =>
      simp only [bindAux] at h
      split at h
      · cases h
      · split at h
        · rename_i r hr; cases h
          simpa [Dict.keys] using ih hr
        · cases h

/-- binding commutes with applying a function to every argument value -/
theorem bindAux_map (f : α → β) {look : String → Option α} {ps : List Param} {args : List α} {b : Dict α}
    (h : bindAux look ps args = .ok b) :
    bindAux (fun k => (look k).map f) ps (args.map f) = .ok (b.mapVals f) := by
  induction ps generalizing args b with
  | nil => cases args <;> simp_all [bindAux, Dict.mapVals]
  | cons p ps ih =>
    cases args with
    | nil =>
      simp only [bindAux] at h
      simp only [List.map_nil, bindAux]
      split at h
      · rename_i v hv
        split at h
        · rename_i r hr; cases h
          have := ih hr
          simp only [List.map_nil] at this
          simp [hv, this, Dict.mapVals]
        · cases h
      · rename_i hv
        split at h
        · rename_i hd
          have := ih h
          simp only [List.map_nil] at this
          simp [hv, this, hd]
        · cases h
    | cons a as =>
      simp only [bindAux] at h
      simp only [List.map_cons, bindAux]
      split at h
      · cases h
      · rename_i hv
        split at h
        · rename_i r hr; cases h
          simp [hv, ih hr, Dict.mapVals]
        · cases h

theorem bindAux_kw_get? {look : String → Option α} {ps : List Param} {b : Dict α}
    (hnd : (ps.map (·.name)).Nodup) (h : bindAux look ps [] = .ok b) (k : String) :
    b.get? k = if k ∈ ps.map (·.name) then look k else none := by
  induction ps generalizing b with
  | nil => simp_all [bindAux, Dict.get?]
  | cons p ps ih =>
    simp only [List.map_cons, List.nodup_cons] at hnd
    simp only [bindAux] at h
    split at h
    · rename_i v hv
      split at h
      · rename_i r hr; cases h
        have := ih hnd.2 hr
        simp only [Dict.get?, List.lookup_cons, List.map_cons, List.mem_cons] at *
        by_cases hk : k = p.name
        · subst hk; simp [hv]
        · have hb : (k == p.name) = false := by simpa using hk
          rw [hb]; simp_all
      · cases h
    · rename_i hv
      split at h
      · have := ih hnd.2 h
        rw [this]
        simp only [List.map_cons, List.mem_cons]
        by_cases hk : k = p.name
        · subst hk; simp [hv, hnd.1]
        · simp [hk]
      · cases h

theorem bind_ok {ps : List Param} {args : List α} {kw b : Dict α} (h : bind ps args kw = .ok b) :
    (∀ k ∈ kw.keys, k ∈ ps.map (·.name)) ∧ bindAux kw.get? ps args = .ok b := by
  unfold bind at h
  split at h
  · cases h
  · split at h
    · rename_i hk
      refine ⟨?_, h⟩
      simpa [List.all_eq_true] using hk
    · cases h

/-- an accepted call passes no more positional arguments than there are parameters in front of the keyword-only ones -/
theorem bind_ok_capacity {ps : List Param} {args : List α} {kw b : Dict α} (h : bind ps args kw = .ok b) :
    args.length ≤ posCapacity ps := by
  unfold bind at h
  split at h
  · cases h
  · omega

/-- the shape of the merged dictionary on a call Python accepts: positional names zipped with the positional
arguments, then the keyword arguments in call order -/
theorem mergeArgs_valid {ps : List Param} (hnd : (ps.map (·.name)).Nodup) {args : List α} {kw b : Dict α}
    (hkw : kw.keys.Nodup) (hb : bind ps args kw = .ok b) :
    mergeArgs (ps.map (·.name)) false args kw = (ps.map (·.name)).zip args ++ kw := by
  obtain ⟨hk, hb⟩ := bind_ok hb
  have hz : (Dict.keys ((ps.map (·.name)).zip args)).Nodup := by
    rw [keys_zip]; exact hnd.sublist (List.take_sublist _ _)
  simp only [mergeArgs, Bool.false_eq_true, if_false, List.drop_zero, Dict.ofPairs]
  rw [Dict.update_eq_append [] _ hz (by simp [Dict.keys])]
  simp only [List.nil_append]
  apply Dict.update_eq_append _ _ hkw
  intro k hk1 hk2
  rw [keys_zip] at hk2
  have := bindAux_ok_positional_not_kw hb k hk2
  exact (Dict.get?_eq_none_iff kw k).mp this hk1

theorem mem_freeVars (args : List Arg) (seen : List Nat) (i : Nat) :
    i ∈ freeVars args seen ↔ args.any (Arg.mentions i) = true ∧ i ∉ seen := by
  induction args generalizing seen with
  | nil => simp [freeVars]
  | cons a r ih =>
    cases a with
    | lit v => simp [freeVars, ih, Arg.mentions]
    | var j k =>
      simp only [freeVars, List.any_cons, Arg.mentions, Bool.or_eq_true, beq_iff_eq]
      split
      · rename_i hj
        rw [ih]
        constructor
        · rintro ⟨h1, h2⟩; exact ⟨Or.inr h1, h2⟩
        · rintro ⟨h1 | h1, h2⟩
          · subst h1; exact absurd hj h2
          · exact ⟨h1, h2⟩
      · rename_i hj
        simp only [List.mem_cons, ih, not_or]
        constructor
        · rintro (h | ⟨h1, h2, h3⟩)
          · subst h; exact ⟨Or.inl rfl, hj⟩
          · exact ⟨Or.inr h1, h3⟩
        · rintro ⟨h1 | h1, h2⟩
          · exact Or.inl h1.symm
          · by_cases hij : i = j
            · exact Or.inl hij
            · exact Or.inr ⟨h1, hij, h2⟩

theorem assignsFrom_get_of_not_mem {doms : Nat → List Nat} {fv : List Nat} {e e' : Env} {j : Nat}
    (h : e' ∈ assignsFrom doms e fv) (hj : j ∉ fv) : e' j = e j := by
  induction fv generalizing e with
  | nil => simp [assignsFrom] at h; rw [h]
  | cons i r ih =>
    simp only [assignsFrom, List.mem_flatMap] at h
    obtain ⟨v, _, hv⟩ := h
    simp only [List.mem_cons, not_or] at hj
    rw [ih hv hj.2]
    simp [Env.set, hj.1]

theorem assignsFrom_bound {doms : Nat → List Nat} {fv : List Nat} {e e' : Env}
    (h : e' ∈ assignsFrom doms e fv) (i : Nat) (hi : i ∈ fv ∨ (e i).isSome) : (e' i).isSome := by
  induction fv generalizing e with
  | nil =>
    simp [assignsFrom] at h; subst h
    simpa using hi
  | cons j r ih =>
    simp only [assignsFrom, List.mem_flatMap] at h
    obtain ⟨v, _, hv⟩ := h
    apply ih hv
    simp only [List.mem_cons] at hi
    rcases hi with (rfl | hi) | hi
    · right; simp [Env.set]
    · left; exact hi
    · right; simp only [Env.set]; split <;> simp_all

theorem assignsFrom_append (doms : Nat → List Nat) (e : Env) (l₁ l₂ : List Nat) :
    assignsFrom doms e (l₁ ++ l₂) = (assignsFrom doms e l₁).flatMap (fun e₁ => assignsFrom doms e₁ l₂) := by
  induction l₁ generalizing e with
  | nil => simp [assignsFrom]
  | cons i r ih => simp [assignsFrom, ih, List.flatMap_assoc]

/-- **chained evaluation enumerates exactly the candidate bindings** of the not-yet-bound distinct variables, in
order, each once, and every argument takes the value of the variable written there -/
theorem combosChained_eq (doms : Nat → List Nat) (args : List Arg) (e : Env) (seen : List Nat)
    (hs : ∀ i, i ∈ seen ↔ (e i).isSome) :
    combosChained doms args e =
      (assignsFrom doms e (freeVars args seen)).map (fun e' => (args.map (subst e'), e')) := by
  induction args generalizing e seen with
  | nil => simp [combosChained, freeVars, assignsFrom]
  | cons a r ih =>
    cases a with
    | lit v =>
      simp only [combosChained, freeVars, ih e seen hs, List.map_map, List.map_cons, subst]
      rfl
    | var i =>
      simp only [combosChained]
      split
      · rename_i v hv
        have hi : i ∈ seen := (hs i).mpr (by simp [hv])
        simp only [freeVars, hi, if_true, ih e seen hs, List.map_map]
        apply List.map_congr_left
        intro e' he'
        have : e' i = some v := by
          rw [assignsFrom_get_of_not_mem he' (by rw [mem_freeVars]; exact fun h => h.2 hi), hv]
        simp [subst, this]
      · rename_i hv
        have hi : i ∉ seen := fun h => by simpa [hv] using (hs i).mp h
        simp only [freeVars, hi, if_false, assignsFrom, List.map_flatMap]
        congr 1
        funext v
        have hs' : ∀ j, j ∈ i :: seen ↔ ((e.set i v) j).isSome := by
          intro j
          simp only [List.mem_cons, Env.set]
          split
          · simp_all
          · rename_i hji; simp [hji, hs j]
        rw [ih (e.set i v) (i :: seen) hs', List.map_map]
        apply List.map_congr_left
        intro e' he'
        have : e' i = some v := by
          rw [assignsFrom_get_of_not_mem he' (by rw [mem_freeVars]; simp)]
          simp [Env.set]
        simp [subst, this]

theorem Dict.get?_mapVals (f : α → β) (d : Dict α) (k : String) : (d.mapVals f).get? k = (d.get? k).map f := by
  induction d with
  | nil => simp [Dict.mapVals, Dict.get?]
  | cons kv r ih =>
    obtain ⟨k', v'⟩ := kv
    simp only [Dict.mapVals, Dict.get?, List.map_cons, List.lookup_cons] at *
    cases hk : (k == k') <;> simp [ih]

theorem Dict.zip_keys_vals_map (f : α → β) (d : Dict α) : d.keys.zip (d.vals.map f) = d.mapVals f := by
  induction d with
  | nil => rfl
  | cons kv r ih => simp_all [Dict.keys, Dict.vals, Dict.mapVals]

theorem Dict.keys_mapVals (f : α → β) (d : Dict α) : (d.mapVals f).keys = d.keys := by
  simp [Dict.keys, Dict.mapVals]

theorem vals_zip (names : List String) (args : List α) (h : args.length ≤ names.length) :
    Dict.vals (names.zip args) = args := by
  induction names generalizing args with
  | nil => cases args <;> simp_all [Dict.vals]
  | cons n ns ih =>
    cases args with
    | nil => simp [Dict.vals]
    | cons a as =>
      simp only [List.length_cons, Nat.add_le_add_iff_right] at h
      simpa [Dict.vals] using ih as h

/-- **`f(**merged)` binds like `f(*args, **kwargs)`**, for every instantiation of the arguments -/
theorem invokeKw_merged {ps : List Param} (hnd : (ps.map (·.name)).Nodup) {pos : List Arg} {kw b : Dict Arg}
    (hb : bind ps pos kw = .ok b) (f : Arg → Nat) :
    invokeKw ps ((Dict.keys ((ps.map (·.name)).zip pos ++ kw)).zip ((Dict.vals ((ps.map (·.name)).zip pos ++ kw)).map f))
      = .ok (applyDefaults id ps (b.mapVals f)) := by
  obtain ⟨hk, hb'⟩ := bind_ok hb
  rw [Dict.zip_keys_vals_map]
  have hm := bindAux_map f hb'
  have hr := bindAux_rebind hnd hm
  have hD : Dict.mapVals f ((ps.map (·.name)).zip pos ++ kw)
      = (ps.map (·.name)).zip (pos.map f) ++ kw.mapVals f := by
    simp [Dict.mapVals, List.zip_map_right, List.map_append]
  have hlook : (Dict.get? ((ps.map (·.name)).zip (pos.map f) ++ kw.mapVals f))
      = (fun k => (((ps.map (·.name)).zip (pos.map f)).lookup k).or ((kw.get? k).map f)) := by
    funext k
    have := Dict.get?_mapVals f kw k
    simp only [Dict.get?] at this
    simp [Dict.get?, List.lookup_append, this]
  have hkeys : (Dict.keys ((ps.map (·.name)).zip (pos.map f) ++ kw.mapVals f)).all
      (fun k => (ps.map (·.name)).contains k) = true := by
    simp only [List.all_eq_true, Dict.keys, List.map_append, List.mem_append, List.contains_eq_mem, decide_eq_true_eq]
    rintro k (h | h)
    · have := keys_zip (ps.map (·.name)) (pos.map f)
      simp only [Dict.keys] at this
      rw [this] at h
      exact List.mem_of_mem_take h
    · have := Dict.keys_mapVals f kw
      simp only [Dict.keys] at this
      rw [this] at h
      exact hk k h
  simp only [invokeKw, callSpec, bind, hD, hkeys, if_true, hlook, hr, List.length_nil, Nat.not_lt_zero, if_false]

theorem sequence_map_ok {ε γ δ : Type} (l : List γ) (f : γ → δ) :
    sequence (l.map (fun x => (Except.ok (f x) : Except ε δ))) = .ok (l.map f) := by
  induction l with
  | nil => rfl
  | cons a r ih => simp [sequence, ih]

theorem observe_append (body : List Nat → Nat) (neg : Bool) (rows : Env → List (List Nat))
    (l₁ l₂ : List (List Nat × Env)) :
    observe body neg rows (l₁ ++ l₂) = (observe body neg rows l₁).append (observe body neg rows l₂) := by
  simp [observe, Obs.append]

theorem concatObs_map_observe {γ : Type} (body : List Nat → Nat) (neg : Bool) (rows : Env → List (List Nat))
    (l : List γ) (g : γ → List (List Nat × Env)) :
    concatObs (l.map (fun x => observe body neg rows (g x))) = observe body neg rows (l.flatMap g) := by
  induction l with
  | nil => simp [concatObs, observe]
  | cons a r ih =>
    simp only [concatObs, List.map_cons, List.foldr_cons, List.flatMap_cons, observe_append] at *
    rw [ih]

theorem flatMap_congr' {γ δ : Type} (l : List γ) (f g : γ → List δ) (h : ∀ x ∈ l, f x = g x) :
    l.flatMap f = l.flatMap g := by
  induction l with
  | nil => rfl
  | cons a r ih =>
    simp only [List.flatMap_cons]
    rw [h a (by simp), ih (fun x hx => h x (by simp [hx]))]

theorem observe_congr (body : List Nat → Nat) (neg : Bool) (rows rows' : Env → List (List Nat))
    (calls : List (List Nat × Env)) (h : ∀ c ∈ calls, rows c.2 = rows' c.2) :
    observe body neg rows calls = observe body neg rows' calls := by
  simp only [observe, Obs.mk.injEq, true_and]
  apply flatMap_congr'
  intro c hc
  exact h c (List.mem_filter.mp hc).1

theorem product_singletons (l : List Nat) : product (l.map (fun v => [v])) = [l] := by
  induction l with
  | nil => rfl
  | cons a r ih => simp [product, ih]

theorem rowsOf_bound (doms : Nat → List Nat) (sel : List Nat) (e : Env) (h : ∀ i ∈ sel, (e i).isSome) :
    rowsOf doms sel e = [rowOf sel e] := by
  induction sel with
  | nil => rfl
  | cons i r ih =>
    have hi := h i (by simp)
    have ih' := ih (fun j hj => h j (by simp [hj]))
    simp only [rowsOf, rowOf] at ih' ⊢
    cases hv : e i with
    | none => simp [hv] at hi
    | some v => simp [product, hv, ih']

theorem merged_none (c : Call) (hwf : c.WF) {b : Dict Arg} (hb : bind c.params c.pos c.kw = .ok b) :
    c.merged Quirks.none = c.paramNames.zip c.pos ++ c.kw := by
  have := mergeArgs_valid hwf.names_nodup hwf.kw_nodup hb
  cases hk : c.kind <;>
    simpa [Call.merged, Call.inspectedNames, ignoreFirst, Quirks.none, hk, mergeArgs, Call.paramNames] using this

theorem vals_merged (c : Call) {b : Dict Arg} (hb : bind c.params c.pos c.kw = .ok b) :
    Dict.vals (c.paramNames.zip c.pos ++ c.kw) = c.written := by
  have hl := bindAux_ok_length (bind_ok hb).2
  have := vals_zip c.paramNames c.pos (by simpa [Call.paramNames] using hl)
  simp only [Dict.vals] at this
  simp [Dict.vals, Call.written, this]

theorem isSymbolic_merged (c : Call) {b : Dict Arg} (hb : bind c.params c.pos c.kw = .ok b) :
    isSymbolic (c.paramNames.zip c.pos ++ c.kw) = c.hasVar := by
  have := vals_merged c hb
  simp only [Dict.vals] at this
  simp only [isSymbolic, Call.hasVar, ← this, List.any_map]
  rfl

theorem pre_bound_iff {doms : Nat → List Nat} {pre : List Nat} {e : Env}
    (he : e ∈ assignsFrom doms Env.empty pre) (i : Nat) : i ∈ pre ↔ (e i).isSome := by
  constructor
  · intro hi; exact assignsFrom_bound he i (Or.inl hi)
  · intro hi
    by_cases hp : i ∈ pre
    · exact hp
    · rw [assignsFrom_get_of_not_mem he hp] at hi
      simp [Env.empty] at hi

theorem zipWith_map_right {γ δ ε : Type} (f : γ → δ → ε) (g : γ → δ) (l : List γ) :
    List.zipWith f l (l.map g) = l.map (fun a => f a (g a)) := by
  induction l with
  | nil => rfl
  | cons a r ih => simp [ih]

/-- one evaluation of the condition from bindings `e` in world `w`, all quirks off -/
theorem evalSym_none (c : Call) (hwf : c.WF) {b : Dict Arg} (hb : bind c.params c.pos c.kw = .ok b)
    (w : World) (doms : Nat → List Nat) (e : Env) (seen : List Nat) (hs : ∀ i, i ∈ seen ↔ (e i).isSome)
    (body : List Nat → Nat) (neg : Bool) (sel : List Nat) :
    evalSym Quirks.none w c.params (c.paramNames.zip c.pos ++ c.kw) doms e body neg sel =
      .ok (observe body neg (rowsOf doms sel)
        ((assignsFrom doms e (freeVars c.written seen)).map
          (fun e' => (applyDefaults id c.params (b.mapVals (substW w e')), e')))) := by
  simp only [evalSym, combos, Quirks.none, Bool.false_eq_true, if_false]
  rw [combosChained_eq doms _ e seen hs, List.map_map]
  have hf : (invokeOne w c.params (Dict.keys (c.paramNames.zip c.pos ++ c.kw))
        (Dict.vals (c.paramNames.zip c.pos ++ c.kw)) ∘
      fun e' => ((Dict.vals (c.paramNames.zip c.pos ++ c.kw)).map (subst e'), e'))
      = fun e' => .ok (applyDefaults id c.params (b.mapVals (substW w e')), e') := by
    funext e'
    have := invokeKw_merged hwf.names_nodup hb (substW w e')
    simp only [Call.paramNames] at this ⊢
    simp only [Function.comp, invokeOne, zipWith_map_right]
    have hsw : (fun a => argValue w a (subst e' a)) = substW w e' := rfl
    rw [hsw, this]
  rw [hf, sequence_map_ok, vals_merged c hb]

theorem Env.set_same (e : Env) (i v : Nat) (h : e i = some v) : e.set i v = e := by
  funext j
  simp only [Env.set]
  split
  · subst_vars; exact h.symm
  · rfl

theorem sharesUnbound_set (e : Env) (i v : Nat) (r : List Arg) (h : r.any (Arg.mentions i) = false) :
    sharesUnbound (fun j => ((e.set i v) j).isSome) r = sharesUnbound (fun j => (e j).isSome) r := by
  induction r with
  | nil => rfl
  | cons a r ih =>
    simp only [List.any_cons, Bool.or_eq_false_iff] at h
    cases a with
    | lit w => simpa [sharesUnbound] using ih h.2
    | var j k =>
      have hji : j ≠ i := by simpa [Arg.mentions] using h.1
      have ih' := ih h.2
      simp only [Env.set] at ih'
      simp only [sharesUnbound, Env.set, hji, if_false, ih']

theorem candidates_set (doms : Nat → List Nat) (e : Env) (i v : Nat) (r : List Arg)
    (h : r.any (Arg.mentions i) = false) :
    r.map (candidates doms (e.set i v)) = r.map (candidates doms e) := by
  apply List.map_congr_left
  intro a ha
  cases a with
  | lit w => rfl
  | var j k =>
    have hji : j ≠ i := by
      have := (List.any_eq_false.mp h) _ ha
      simpa [Arg.mentions] using this
    simp [candidates, Env.set, hji]

/-- where no unbound variable is written twice, evaluating the children independently and multiplying is the same
as evaluating them one after the other -/
theorem combosIndependent_eq_chained (doms : Nat → List Nat) (args : List Arg) (e : Env)
    (h : sharesUnbound (fun j => (e j).isSome) args = false) :
    combosIndependent doms e args = combosChained doms args e := by
  induction args generalizing e with
  | nil => simp [combosIndependent, combosChained, product, bindEnv]
  | cons a r ih =>
    cases a with
    | lit v =>
      simp only [sharesUnbound] at h
      rw [combosChained, ← ih e h]
      simp [combosIndependent, product, candidates, bindEnv, List.map_map, Function.comp_def]
    | var i =>
      cases hv : e i with
      | some v =>
        simp only [sharesUnbound, hv, Option.isSome_some, if_true] at h
        rw [combosChained]
        simp only [hv]
        rw [← ih e h]
        simp [combosIndependent, product, candidates, hv, bindEnv, List.map_map, Function.comp_def,
          Env.set_same e i v hv]
      | none =>
        simp only [sharesUnbound, hv, Option.isSome_none, Bool.false_eq_true, if_false, Bool.or_eq_false_iff] at h
        rw [combosChained]
        simp only [hv]
        have hstep : ∀ v, combosChained doms r (e.set i v) = combosIndependent doms (e.set i v) r := by
          intro v
          rw [ih (e.set i v) (by rw [sharesUnbound_set e i v r h.1]; exact h.2)]
        simp only [hstep, combosIndependent, List.map_cons, product, candidates, hv, candidates_set doms e i _ r h.1,
          List.map_flatMap, List.map_map, Function.comp_def, bindEnv]

theorem Dict.mem_set (d : Dict α) (k : String) (v : α) (kv : String × α) (h : kv ∈ d.set k v) :
    kv ∈ d ∨ kv = (k, v) := by
  induction d with
  | nil => simp_all [Dict.set]
  | cons kv' r ih =>
    obtain ⟨k', v'⟩ := kv'
    simp only [Dict.set] at h
    split at h
    · subst_vars
      simp only [List.mem_cons] at h ⊢
      rcases h with h | h
      · exact Or.inr h
      · exact Or.inl (Or.inr h)
    · simp only [List.mem_cons] at h ⊢
      rcases h with h | h
      · exact Or.inl (Or.inl h)
      · rcases ih h with h | h
        · exact Or.inl (Or.inr h)
        · exact Or.inr h

theorem Dict.mem_update (d e : Dict α) (kv : String × α) (h : kv ∈ d.update e) : kv ∈ d ∨ kv ∈ e := by
  induction e generalizing d with
  | nil => simp_all [Dict.update]
  | cons kv' r ih =>
    simp only [Dict.update, List.foldl_cons] at h
    rcases ih (d.set kv'.1 kv'.2) h with h | h
    · rcases Dict.mem_set d _ _ _ h with h | h
      · exact Or.inl h
      · exact Or.inr (by simp [h])
    · exact Or.inr (by simp [h])

/-- merging never invents values: every value of the merged dictionary was written at the call site -/
theorem mem_mergeArgs (names : List String) (ign : Bool) (args : List α) (kw : Dict α) (kv : String × α)
    (h : kv ∈ mergeArgs names ign args kw) : kv.2 ∈ args ∨ kv.2 ∈ kw.vals := by
  simp only [mergeArgs, Dict.ofPairs] at h
  rcases Dict.mem_update _ _ _ h with h | h
  · rcases Dict.mem_update _ _ _ h with h | h
    · simp at h
    · obtain ⟨k, v⟩ := kv
      exact Or.inl (List.of_mem_zip h).2
  · exact Or.inr (List.mem_map_of_mem (f := (·.2)) h)

/-! ### calls Python rejects (F-C12-3) -/

/-- whether a keyword-only call binds depends only on WHICH keywords are passed -/
theorem bindAux_nil_isOk_congr {look : String → Option α} {look' : String → Option β} (ps : List Param)
    (h : ∀ k, (look k).isSome = (look' k).isSome) :
    Except.isOk' (bindAux look ps []) = Except.isOk' (bindAux look' ps []) := by
  induction ps with
  | nil => rfl
  | cons p ps ih =>
    have hp := h p.name
    simp only [bindAux]
    cases h1 : look p.name <;> cases h2 : look' p.name <;> simp [h1, h2] at hp
    · simp only []
      split
      · exact ih
      · rfl
    · simp only []
      revert ih
      cases bindAux look ps [] <;> cases bindAux look' ps [] <;> simp [Except.isOk']

theorem Dict.get?_isSome_iff (d : Dict α) (k : String) : (d.get? k).isSome = decide (k ∈ d.keys) := by
  by_cases hk : k ∈ d.keys
  · have : d.get? k ≠ none := fun h => (Dict.get?_eq_none_iff d k).mp h hk
    cases hg : d.get? k with
    | none => exact absurd hg this
    | some v => simp [hk]
  · simp [(Dict.get?_eq_none_iff d k).mpr hk, hk]

theorem bind_nil_isOk_keys (ps : List Param) (kw : Dict α) (kw' : Dict β) (h : kw.keys = kw'.keys) :
    Except.isOk' (bind ps [] kw) = Except.isOk' (bind ps [] kw') := by
  simp only [bind, List.length_nil, Nat.not_lt_zero, if_false, h]
  split
  · exact bindAux_nil_isOk_congr ps (fun k => by rw [Dict.get?_isSome_iff, Dict.get?_isSome_iff, h])
  · rfl

theorem product_length {γ : Type} (ls : List (List γ)) : ∀ vs ∈ product ls, vs.length = ls.length := by
  induction ls with
  | nil => simp [product]
  | cons l r ih =>
    intro vs hvs
    simp only [product, List.mem_flatMap, List.mem_map] at hvs
    obtain ⟨x, _, t, ht, rfl⟩ := hvs
    simp [ih t ht]

theorem combosChained_length (doms : Nat → List Nat) (args : List Arg) (e : Env) :
    ∀ p ∈ combosChained doms args e, p.1.length = args.length := by
  induction args generalizing e with
  | nil => simp [combosChained]
  | cons a r ih =>
    intro p hp
    cases a with
    | lit v =>
      simp only [combosChained, List.mem_map] at hp
      obtain ⟨t, ht, rfl⟩ := hp
      simp [ih e t ht]
    | var i k =>
      simp only [combosChained] at hp
      split at hp
      · simp only [List.mem_map] at hp
        obtain ⟨t, ht, rfl⟩ := hp
        simp [ih e t ht]
      · simp only [List.mem_flatMap, List.mem_map] at hp
        obtain ⟨v, _, t, ht, rfl⟩ := hp
        simp [ih _ t ht]

theorem combos_length (q : Quirks) (doms : Nat → List Nat) (e : Env) (args : List Arg) :
    ∀ p ∈ combos q doms e args, p.1.length = args.length := by
  intro p hp
  simp only [combos] at hp
  split at hp
  · simp only [combosIndependent, List.mem_map] at hp
    obtain ⟨vs, hvs, rfl⟩ := hp
    simpa using product_length _ vs hvs
  · exact combosChained_length doms args e p hp

/-- a list of invocations that all raise: nothing happened (no candidate) or the first `TypeError` leaves -/
theorem sequence_all_error {ε γ δ : Type} (l : List γ) (f : γ → Except ε δ) (h : ∀ x ∈ l, ∃ err, f x = .error err) :
    sequence (l.map f) = .ok [] ∨ ∃ err, sequence (l.map f) = .error err := by
  cases l with
  | nil => exact Or.inl rfl
  | cons x r =>
    obtain ⟨err, he⟩ := h x (by simp)
    exact Or.inr ⟨err, by simp [sequence, he]⟩

/-- evaluation of a condition whose merged dictionary is no valid keyword call: no invocation succeeds -/
theorem evalSym_rejected (q : Quirks) (w : World) (ps : List Param) (d : Dict Arg)
    (hd : Except.isOk' (bind ps [] d) = false) (doms : Nat → List Nat) (e : Env) (body : List Nat → Nat)
    (neg : Bool) (sel : List Nat) :
    evalSym q w ps d doms e body neg sel = .ok ⟨[], []⟩ ∨ ∃ err, evalSym q w ps d doms e body neg sel = .error err := by
  have hall : ∀ c ∈ combos q doms e d.vals, ∃ err, invokeOne w ps d.keys d.vals c = .error err := by
    intro c hc
    have hl := combos_length q doms e d.vals c hc
    have hkeys : Dict.keys (d.keys.zip (List.zipWith (argValue w) d.vals c.1)) = d.keys := by
      rw [keys_zip]
      simp only [hl, Dict.keys, Dict.vals, List.length_zipWith, List.length_map, Nat.min_self]
      exact List.take_of_length_le (by simp)
    have := bind_nil_isOk_keys ps (d.keys.zip (List.zipWith (argValue w) d.vals c.1)) d hkeys
    rw [hd] at this
    simp only [invokeOne, invokeKw, callSpec]
    cases hb : bind ps [] (d.keys.zip (List.zipWith (argValue w) d.vals c.1)) with
    | ok b => simp [hb, Except.isOk'] at this
    | error err => exact ⟨err, rfl⟩
  simp only [evalSym]
  rcases sequence_all_error _ _ hall with h | ⟨err, h⟩
  · exact Or.inl (by rw [h]; rfl)
  · exact Or.inr ⟨err, by rw [h]⟩

theorem sequence_silent {ε : Type} (l : List (Except ε Obs))
    (h : ∀ r ∈ l, r = .ok ⟨[], []⟩ ∨ ∃ err, r = .error err) :
    (∃ os, sequence l = .ok os ∧ concatObs os = ⟨[], []⟩) ∨ ∃ err, sequence l = .error err := by
  induction l with
  | nil => exact Or.inl ⟨[], rfl, rfl⟩
  | cons r t ih =>
    rcases h r (by simp) with hr | ⟨err, hr⟩
    · rcases ih (fun r' hr' => h r' (by simp [hr'])) with ⟨os, h1, h2⟩ | ⟨err, h1⟩
      · refine Or.inl ⟨⟨[], []⟩ :: os, by simp [sequence, hr, h1], ?_⟩
        simp only [concatObs, List.foldr_cons] at h2 ⊢
        rw [h2]; rfl
      · exact Or.inr ⟨err, by simp [sequence, hr, h1]⟩
    · exact Or.inr ⟨err, by simp [sequence, hr]⟩

end KrroodVerif.Pred
