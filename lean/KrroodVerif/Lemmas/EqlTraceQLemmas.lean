import KrroodVerif.Model.EqlTraceQ
import KrroodVerif.Lemmas.EqlTraceLemmas
import KrroodVerif.Lemmas.EqlCover
/-!
Helper lemmas for C10Q (laziness of a root-level quantifier): unfolding of `existsWalk`, the pure walk `walkEnvs`
it performs over the true cells, its relation to `existsFilter`; `forAllLoop` against the `foldlM`/`filterM` of the
list model; "a bound variable is never pulled" (`NoPull`); non-row events (`nonRow`).
Core Lean only.
-/
namespace KrroodVerif.Eql

/-! ### unfolding `existsWalk` -/

theorem existsWalk_nil (w : World) (sel : List Term) (u : VarId) (envs : List Env) (seen : List Val) :
    existsWalk w sel u [] envs seen = [] := by
  cases envs <;> rfl

theorem existsWalk_pull (w : World) (sel : List Term) (u : VarId) (v : VarId) (i : Nat) (evs : List Ev)
    (envs : List Env) (seen : List Val) :
    existsWalk w sel u (Ev.pull v i :: evs) envs seen = Ev.pull v i :: existsWalk w sel u evs envs seen := by
  cases envs <;> rfl

theorem existsWalk_read (w : World) (sel : List Term) (u : VarId) (o : Nat) (n : AttrName) (evs : List Ev)
    (envs : List Env) (seen : List Val) :
    existsWalk w sel u (Ev.read o n :: evs) envs seen = Ev.read o n :: existsWalk w sel u evs envs seen := by
  cases envs <;> rfl

theorem existsWalk_err (w : World) (sel : List Term) (u : VarId) (e : Err) (evs : List Ev)
    (envs : List Env) (seen : List Val) :
    existsWalk w sel u (Ev.err e :: evs) envs seen = Ev.err e :: existsWalk w sel u evs envs seen := by
  cases envs <;> rfl

theorem existsWalk_row_nil (w : World) (sel : List Term) (u : VarId) (r : List Val) (evs : List Ev)
    (seen : List Val) : existsWalk w sel u (Ev.row r :: evs) [] seen = [] := rfl

theorem existsWalk_row_cons (w : World) (sel : List Term) (u : VarId) (r : List Val) (evs : List Ev)
    (env : Env) (envs : List Env) (seen : List Val) :
    existsWalk w sel u (Ev.row r :: evs) (env :: envs) seen =
      (match env.lookup (.var u) with
      | some x =>
        if valIn w x seen then existsWalk w sel u evs envs seen
        else traceSel w env sel [] ++ existsWalk w sel u evs envs (seen ++ [x])
      | none => [Ev.err .keyError]) := rfl

/-! ### the walk over the true cells alone -/

/-- what `existsWalk` does at the markers: `Exists._evaluate__` over the true cells, each new witness followed by the
selection events -/
def walkEnvs (w : World) (sel : List Term) (u : VarId) : List Env → List Val → List Ev
  | [], _ => []
  | env :: envs, seen =>
    match env.lookup (.var u) with
    | some x =>
      if valIn w x seen then walkEnvs w sel u envs seen
      else traceSel w env sel [] ++ walkEnvs w sel u envs (seen ++ [x])
    | none => [Ev.err .keyError]

/-- consumer-visible events of `existsWalk`: pull/read events pass through and are erased; the `i`-th marker meets
the `i`-th true cell -/
theorem existsWalk_vis (w : World) (sel : List Term) (u : VarId) (evs : List Ev) (envs : List Env)
    (seen : List Val) (h : vis evs = envs.map fun _ => Ev.row []) :
    vis (existsWalk w sel u evs envs seen) = vis (walkEnvs w sel u envs seen) := by
  induction evs generalizing envs seen with
  | nil =>
    cases envs with
    | nil => rfl
    | cons env envs => simp at h
  | cons e evs ih =>
    cases e with
    | pull v i => rw [existsWalk_pull, vis_cons_pull]; exact ih _ _ (by simpa using h)
    | read o n => rw [existsWalk_read, vis_cons_read]; exact ih _ _ (by simpa using h)
    | err e => cases envs <;> simp at h
    | row r =>
      cases envs with
      | nil => simp at h
      | cons env envs =>
        simp only [vis_cons_row, List.map_cons, List.cons.injEq] at h
        rw [existsWalk_row_cons]
        simp only [walkEnvs]
        split
        · split
          · exact ih _ _ h.2
          · rw [vis_append, vis_append, ih _ _ h.2]
        · rfl

/-- the walk over the true cells of `rs` is `existsFilter` followed by the selection of each kept cell -/
theorem walkEnvs_existsFilter (w : World) (sel : List Term) (u : VarId) (rs : List (Env × Bool))
    (seen : List Val) (rs' : List (Env × Bool)) (h : existsFilter w u rs seen = .ok rs') :
    walkEnvs w sel u ((rs.filter (·.2)).map (·.1)) seen =
      ((rs'.filter (·.2)).map (·.1)).flatMap fun env => traceSel w env sel [] := by
  induction rs generalizing seen rs' with
  | nil => cases h; rfl
  | cons p rest ih =>
    obtain ⟨env1, t⟩ := p
    unfold existsFilter at h
    cases hl : env1.lookup (.var u) with
    | none => simp [hl] at h
    | some x =>
      simp only [hl] at h
      cases t with
      | false =>
        simp only [Bool.false_and, Bool.false_eq_true, if_false] at h
        simpa using ih _ _ h
      | true =>
        cases hv : valIn w x seen with
        | true =>
          simp only [hv, Bool.not_true, Bool.and_false, Bool.false_eq_true, if_false] at h
          simp only [List.filter_cons_of_pos, List.map_cons, walkEnvs, hl, hv, if_true]
          exact ih _ _ h
        | false =>
          simp only [hv, Bool.not_false, Bool.and_true, if_true, bind_eq_ok, pure_eq_ok] at h
          obtain ⟨r, hr, rfl⟩ := h
          simp only [List.filter_cons_of_pos, List.map_cons, walkEnvs, hl, hv, Bool.false_eq_true, if_false,
            List.flatMap_cons]
          rw [ih _ _ hr]

/-- a successful `existsFilter` has found the quantified variable in every cell -/
theorem existsFilter_ok_bnd (w : World) (u : VarId) (rs : List (Env × Bool)) (seen : List Val)
    (rs' : List (Env × Bool)) (h : existsFilter w u rs seen = .ok rs') : ∀ p ∈ rs, Bnd u p.1 := by
  induction rs generalizing seen rs' with
  | nil => intro p hp; cases hp
  | cons p rest ih =>
    obtain ⟨env1, t⟩ := p
    unfold existsFilter at h
    cases hl : env1.lookup (.var u) with
    | none => simp [hl] at h
    | some x =>
      simp only [hl] at h
      intro p hp
      rcases List.mem_cons.1 hp with rfl | hp
      · simp [Bnd, hl]
      · split at h
        · simp only [bind_eq_ok, pure_eq_ok] at h
          obtain ⟨r, hr, _⟩ := h
          exact ih _ _ hr p hp
        · exact ih _ _ h p hp

/-- the marked stream of a successful quantifier-free condition has one marker per true cell and no exception -/
theorem childTrace_vis (w : World) (c : Expr) (hq : c.QF = true) (env : Env) (rs : List (Env × Bool))
    (h : eval w c env = .ok rs) :
    vis (childTrace w c env) = ((rs.filter (·.2)).map (·.1)).map fun _ => Ev.row [] := by
  unfold childTrace
  rw [traceE_vis w c hq env _ rs h]
  simp only [apply_ite vis, vis_nil]
  rw [flatMap_ite_filter rs (fun p => p.2) (fun _ => vis [Ev.row []])]
  simp only [vis_cons_row, vis_nil, List.map_map]
  rw [flatMap_singleton_map]
  rfl

theorem childTrue_ok (w : World) (c : Expr) (env : Env) (rs : List (Env × Bool)) (h : eval w c env = .ok rs) :
    childTrue w c env = (rs.filter (·.2)).map (·.1) := by
  simp [childTrue, h]

/-- selection events of the rows of the list model -/
theorem flatMap_traceSel_vis (w : World) (sel : List Term) (envs : List Env) (rows : List (List Val))
    (h : flatMapM envs (fun env => do
      let per ← sel.mapM fun s => do
        let rs ← evalTerm w false s env
        pure (rs.map (·.2.1))
      pure (product per)) = .ok rows) :
    vis (envs.flatMap fun env => traceSel w env sel []) = rows.map Ev.row := by
  rw [vis_flatMap]
  have := flatMapM_ok_flatMap _ _ _ (fun env : Env => vis (traceSel w env sel [])) (fun r => [Ev.row r]) h
    (by
      intro env _ zs hz
      simp only [bind_eq_ok, pure_eq_ok] at hz
      obtain ⟨per, hper, rfl⟩ := hz
      rw [traceSel_vis w env sel [] per hper]
      rw [flatMap_singleton_map]; rfl)
  rw [this, flatMap_singleton_map]

/-- **exists**: consumer-visible events of the streaming trace = the list model's rows, no exception -/
theorem traceExistsRoot_vis (w : World) (sel : List Term) (u : VarId) (c : Expr) (hq : c.QF = true)
    (rows : List (List Val)) (h : evalQuery w ⟨sel, some (.exists_ u c)⟩ = .ok rows) :
    vis (traceExistsRoot w sel u c) = rows.map Ev.row := by
  unfold evalQuery at h
  simp only [eval, bind_eq_ok, pure_eq_ok] at h
  obtain ⟨rs', ⟨rs, hrs, hex⟩, _, rfl, h⟩ := h
  unfold traceExistsRoot
  rw [childTrue_ok w c [] rs hrs, existsWalk_vis _ _ _ _ _ _ (childTrace_vis w c hq [] rs hrs),
    walkEnvs_existsFilter _ _ _ _ _ _ hex]
  exact flatMap_traceSel_vis w sel _ rows h

/-! ### `forAllLoop` against the list model's `foldlM` / `filterM` -/

theorem forAllLoop_nil_sols (w : World) (u : VarId) (c : Expr) (rest : List (Nat × Val)) :
    forAllLoop w u c rest [] = ([], []) := by
  cases rest with
  | nil => rfl
  | cons p rest => obtain ⟨i, v⟩ := p; rfl

/-- the step of the list model's `ForAll` (`eval`, clause `.forAll`) -/
abbrev forAllStep (w : World) (c : Expr) (sols : List Env) (qv : Env × Val × Bool) : Except Err (List Env) :=
  sols.filterM fun sol => do
    let rs ← eval w c (merge sol qv.1)
    pure (match rs with | r :: _ => r.2 | [] => false)

theorem foldlM_forAllStep_nil (w : World) (c : Expr) (qs : List (Env × Val × Bool)) (final : List Env)
    (h : qs.foldlM (forAllStep w c) [] = .ok final) : final = [] := by
  induction qs with
  | nil => simp only [List.foldlM_nil, pure_eq_ok] at h; exact h.symm
  | cons q qs ih =>
    rw [List.foldlM_cons] at h
    obtain ⟨s', h1, h2⟩ := (bind_eq_ok ..).1 h
    obtain ⟨g, _, rfl⟩ := filterM_ok h1
    exact ih h2

/-- the candidates surviving `forAllLoop` are the result of the list model's `foldlM` (when that succeeds) -/
theorem forAllLoop_snd (w : World) (u : VarId) (c : Expr) (vals : List Val) (s : Nat) (sols final : List Env)
    (h : (vals.map fun x => (((Key.var u, x) :: [] : Env), x, true)).foldlM (forAllStep w c) sols = .ok final) :
    (forAllLoop w u c (enumFrom s vals) sols).2 = final := by
  induction vals generalizing s sols final with
  | nil =>
    simp only [List.map_nil, List.foldlM_nil, pure_eq_ok] at h
    subst h; rfl
  | cons v vs ih =>
    rw [List.map_cons, List.foldlM_cons] at h
    obtain ⟨sols', h1, h2⟩ := (bind_eq_ok ..).1 h
    obtain ⟨g, hg, rfl⟩ := filterM_ok h1
    simp only [enumFrom, forAllLoop]
    split
    · rename_i hs
      have : sols = [] := by simpa using hs
      subst this
      exact (foldlM_forAllStep_nil w c _ final h2).symm
    · simp only
      refine Eq.trans (congrArg (fun l => (forAllLoop w u c (enumFrom (s + 1) vs) l).2) ?_) (ih _ _ _ h2)
      refine List.filter_congr ?_
      intro sol hsol
      have := hg sol hsol
      simp only [bind_eq_ok, pure_eq_ok] at this
      obtain ⟨rs, hrs, hm⟩ := this
      rw [hrs, ← hm]
      cases rs <;> rfl

/-- `forAllLoop` emits pulls of the universal variable only, at the positions of a prefix of the remaining values -/
theorem forAllLoop_fst_prefix (w : World) (u : VarId) (c : Expr) (rest : List (Nat × Val)) (sols : List Env) :
    (forAllLoop w u c rest sols).1 <+: rest.map fun p => Ev.pull u p.1 := by
  induction rest generalizing sols with
  | nil => exact List.prefix_refl _
  | cons p rest ih =>
    obtain ⟨i, v⟩ := p
    simp only [forAllLoop]
    split
    · exact List.nil_prefix
    · simp only [List.map_cons]
      exact (List.prefix_cons_inj _).2 (ih _)

theorem forAllLoop_fst_vis (w : World) (u : VarId) (c : Expr) (rest : List (Nat × Val)) (sols : List Env) :
    vis (forAllLoop w u c rest sols).1 = [] := by
  induction rest generalizing sols with
  | nil => rfl
  | cons p rest ih =>
    obtain ⟨i, v⟩ := p
    simp only [forAllLoop]
    split
    · rfl
    · simp only [vis_cons_pull]; exact ih _

/-- if the loop stopped before the end of the universal domain, no candidate is left -/
theorem forAllLoop_early_stop (w : World) (u : VarId) (c : Expr) (rest : List (Nat × Val)) (sols : List Env)
    (h : (forAllLoop w u c rest sols).1.length < rest.length) : (forAllLoop w u c rest sols).2 = [] := by
  induction rest generalizing sols with
  | nil => simp at h
  | cons p rest ih =>
    obtain ⟨i, v⟩ := p
    simp only [forAllLoop] at h ⊢
    split
    · rfl
    · rename_i hs
      simp only [hs, Bool.false_eq_true, if_false, List.length_cons, Nat.add_lt_add_iff_right] at h
      exact ih _ h

/-- inversion of the list model's `ForAll` evaluated from the empty environment -/
theorem eval_forAll_nil_ok (w : World) (u : VarId) (c : Expr) (res : List (Env × Bool))
    (h : eval w (.forAll u c) [] = .ok res) :
    ∃ v1 vs c0 final, w.dom u = v1 :: vs ∧ eval w c [(.var u, v1)] = .ok c0 ∧
      (vs.map fun x => (((Key.var u, x) :: [] : Env), x, true)).foldlM (forAllStep w c)
        ((c0.filter (·.2)).map fun p => restrict p.1 (c.nodes.filter (· != .var u))) = .ok final ∧
      res = final.map fun sol => (sol, true) := by
  rw [eval] at h
  simp only [evalVar, List.lookup] at h
  cases hd : w.dom u with
  | nil => simp [hd] at h
  | cons v1 vs =>
    simp only [hd, List.map_cons, bind_eq_ok, pure_eq_ok] at h
    obtain ⟨c0, hc0, final, hfinal, rfl⟩ := h
    refine ⟨v1, vs, c0, final, rfl, hc0, hfinal, ?_⟩
    simp [merge]

/-- **for_all**: consumer-visible events of the trace = the list model's rows, no exception -/
theorem traceForAllRoot_vis (w : World) (sel : List Term) (u : VarId) (c : Expr) (hq : c.QF = true)
    (rows : List (List Val)) (h : evalQuery w ⟨sel, some (.forAll u c)⟩ = .ok rows) :
    vis (traceForAllRoot w sel u c) = rows.map Ev.row := by
  unfold evalQuery at h
  simp only [bind_eq_ok, pure_eq_ok] at h
  obtain ⟨res, hres, _, rfl, h⟩ := h
  obtain ⟨v1, vs, c0, final, hd, hc0, hfinal, rfl⟩ := eval_forAll_nil_ok w u c res hres
  unfold traceForAllRoot
  simp only [hd, enumFrom]
  rw [childTrue_ok w c _ c0 hc0]
  have h2 := forAllLoop_snd w u c vs 1 _ final hfinal
  simp only [vis_cons_pull, vis_append, forAllLoop_fst_vis, List.append_nil]
  rw [traceE_vis w c hq _ _ c0 hc0]
  have hnil : ∀ l : List (Env × Bool), l.flatMap (fun _ => ([] : List Ev)) = [] := by
    intro l; induction l with
    | nil => rfl
    | cons a l ih => simp [ih]
  have hfin : ∀ l : List Env, ((l.map fun sol => (sol, true)).filter (·.2)).map (·.1) = l := by
    intro l; induction l with
    | nil => rfl
    | cons a l ih => simpa using ih
  rw [hfin] at h
  simp only [vis_nil, hnil, List.nil_append, List.map_map, Function.comp_def, Nat.zero_add]
  rw [h2]
  exact flatMap_traceSel_vis w sel _ rows h

/-! ### a bound variable is never pulled -/

/-- no element of `u`'s domain is requested by these events -/
def NoPull (u : VarId) (evs : List Ev) : Prop := ∀ i, Ev.pull u i ∉ evs

theorem NoPull.nil (u : VarId) : NoPull u [] := fun _ h => by cases h
theorem NoPull.append {u : VarId} {a b : List Ev} (ha : NoPull u a) (hb : NoPull u b) : NoPull u (a ++ b) :=
  fun i h => (List.mem_append.1 h).elim (ha i) (hb i)
theorem NoPull.err (u : VarId) (e : Err) : NoPull u [Ev.err e] := by
  intro i h; simp at h
theorem NoPull.flatMap {α} {u : VarId} (xs : List α) (f : α → List Ev) (h : ∀ x ∈ xs, NoPull u (f x)) :
    NoPull u (xs.flatMap f) := by
  intro i hi
  obtain ⟨x, hx, hx'⟩ := List.mem_flatMap.1 hi
  exact h x hx i hx'
theorem NoPull.readEvent (u : VarId) (x : Val) (n : AttrName) : NoPull u (readEvent x n) := by
  intro i h
  cases x <;> simp [Eql.readEvent] at h
theorem NoPull.map_row (u : VarId) (rs : List (List Val)) : NoPull u (rs.map Ev.row) := by
  intro i h
  simp at h

theorem traceVar_noPull (w : World) (cp : Bool) (u v : VarId) (env : Env) (k : Kont) (hb : Bnd u env)
    (hk : ∀ e x b, Bnd u e → NoPull u (k e x b)) : NoPull u (traceVar w cp v env k) := by
  unfold traceVar
  split
  · exact hk _ _ _ hb
  · rename_i hl
    have hne : v ≠ u := by
      rintro rfl
      simp [Bnd, hl] at hb
    refine NoPull.flatMap _ _ fun p _ => ?_
    intro i hi
    rcases List.mem_cons.1 hi with h | hi
    · cases h; exact hne rfl
    · exact hk _ _ _ (Bnd.cons_var v p.2 (Or.inl hb)) i hi

theorem traceTerm_noPull (w : World) (u : VarId) (c : Bool) (t : Term) (env : Env) (k : Kont) (hb : Bnd u env)
    (hk : ∀ e x b, Bnd u e → NoPull u (k e x b)) : NoPull u (traceTerm w c t env k) := by
  induction t generalizing c env k with
  | var v => exact traceVar_noPull w c u v env k hb hk
  | lit id x =>
    simp only [traceTerm]
    split
    · exact hk _ _ _ hb
    · exact hk _ _ _ (Bnd.cons_lit id x hb)
  | attr t n ih =>
    simp only [traceTerm]
    refine ih _ _ _ hb fun e x b he => NoPull.append (NoPull.readEvent _ _ _) ?_
    split
    · exact hk _ _ _ he
    · exact NoPull.err _ _
  | index t i ih =>
    simp only [traceTerm]
    refine ih _ _ _ hb fun e x b he => ?_
    split
    · exact hk _ _ _ he
    · exact NoPull.err _ _
  | flatten t ih =>
    simp only [traceTerm]
    refine ih _ _ _ hb fun e x b he => ?_
    split
    · exact NoPull.flatMap _ _ fun _ _ => hk _ _ _ he
    · exact NoPull.err _ _

theorem traceCmp_noPull (w : World) (u : VarId) (l r : Term) (op : Val → Val → Except Err Bool) (env : Env)
    (k : Env → Bool → List Ev) (hb : Bnd u env) (hk : ∀ e b, Bnd u e → NoPull u (k e b)) :
    NoPull u (traceCmp w l r op env k) := by
  simp only [traceCmp]
  refine traceTerm_noPull _ _ _ _ _ _ hb fun e1 v1 t1 he1 => ?_
  split
  · refine traceTerm_noPull _ _ _ _ _ _ he1 fun e2 v2 t2 he2 => ?_
    split
    · split
      · exact hk _ _ he2
      · exact NoPull.err _ _
    · exact NoPull.nil u
  · exact NoPull.nil u

/-- evaluating an expression (quantifier-free or not) with `u` bound never pulls `u`'s domain -/
theorem traceE_noPull (w : World) (u : VarId) (e : Expr) (env : Env) (k : Env → Bool → List Ev) (hb : Bnd u env)
    (hk : ∀ e b, Bnd u e → NoPull u (k e b)) : NoPull u (traceE w e env k) := by
  induction e generalizing env k with
  | cmp op l r => exact traceCmp_noPull w u l r _ env k hb hk
  | contains c i => exact traceCmp_noPull w u c i _ env k hb hk
  | truth t => exact traceTerm_noPull _ _ _ _ _ _ hb fun _ _ _ he => hk _ _ he
  | hasType t c => exact traceTerm_noPull _ _ _ _ _ _ hb fun _ _ _ he => hk _ _ he
  | and l r ihl ihr =>
    simp only [traceE]
    refine ihl _ _ hb fun e1 t he => ?_
    split
    · exact ihr _ _ he hk
    · exact hk _ _ he
  | elseIf l r ihl ihr =>
    simp only [traceE]
    refine ihl _ _ hb fun e1 t he => ?_
    split
    · exact hk _ _ he
    · exact ihr _ _ he hk
  | union l r ihl ihr =>
    simp only [traceE]
    refine NoPull.append (ihl _ _ hb fun e1 t he => ?_) (ihr _ _ hb hk)
    split
    · exact hk _ _ he
    · exact ihr _ _ he hk
  | not e ih => exact ih _ _ hb fun _ _ he => hk _ _ he
  | exists_ v e => exact NoPull.err _ _
  | forAll v e => exact NoPull.err _ _

theorem foldl_pullStep_noPull (u : VarId) (evs : List Ev) (m : Nat) (h : NoPull u evs) :
    evs.foldl (pullStep u) m = m := by
  induction evs generalizing m with
  | nil => rfl
  | cons e evs ih =>
    have h' : NoPull u evs := fun i hi => h i (List.mem_cons_of_mem _ hi)
    have he : pullStep u m e = m := by
      unfold pullStep
      split
      · rename_i v' i
        split
        · rename_i hv
          have : v' = u := by simpa using hv
          subst this
          exact absurd (List.mem_cons_self ..) (h i)
        · rfl
      · rfl
    rw [List.foldl_cons, he]
    exact ih m h'

theorem pulled_noPull (u : VarId) (evs : List Ev) (h : NoPull u evs) : pulled u evs = 0 :=
  foldl_pullStep_noPull u evs 0 h

/-! ### pull events of the root-quantifier traces are in range -/

theorem existsWalk_pullOk (w : World) (sel : List Term) (u : VarId) (evs : List Ev) (envs : List Env)
    (seen : List Val) (h : AllPullOk w evs) : AllPullOk w (existsWalk w sel u evs envs seen) := by
  induction evs generalizing envs seen with
  | nil => rw [existsWalk_nil]; exact AllPullOk.nil w
  | cons e evs ih =>
    have h' : AllPullOk w evs := fun ev hev => h ev (List.mem_cons_of_mem _ hev)
    have hcons : ∀ envs seen, AllPullOk w (e :: existsWalk w sel u evs envs seen) := by
      intro envs seen ev hev
      rcases List.mem_cons.1 hev with rfl | hev
      · exact h _ (List.mem_cons_self ..)
      · exact ih _ _ h' ev hev
    cases e with
    | pull v i => rw [existsWalk_pull]; exact hcons _ _
    | read o n => rw [existsWalk_read]; exact hcons _ _
    | err e => rw [existsWalk_err]; exact hcons _ _
    | row r =>
      cases envs with
      | nil => rw [existsWalk_row_nil]; exact AllPullOk.nil w
      | cons env envs =>
        rw [existsWalk_row_cons]
        split
        · split
          · exact ih _ _ h'
          · exact AllPullOk.append (traceSel_pullOk _ _ _ _) (ih _ _ h')
        · exact AllPullOk.err _ _

theorem traceExistsRoot_pullOk (w : World) (sel : List Term) (u : VarId) (c : Expr) :
    AllPullOk w (traceExistsRoot w sel u c) := by
  unfold traceExistsRoot childTrace
  refine existsWalk_pullOk _ _ _ _ _ _ (traceE_pullOk _ _ _ _ fun e b => ?_)
  split
  · intro ev hev; simp only [List.mem_singleton] at hev; subst hev; trivial
  · exact AllPullOk.nil w

theorem traceForAllRoot_pullOk (w : World) (sel : List Term) (u : VarId) (c : Expr) :
    AllPullOk w (traceForAllRoot w sel u c) := by
  unfold traceForAllRoot
  cases hd : w.dom u with
  | nil => simp only [enumFrom]; exact AllPullOk.err _ _
  | cons v1 vs =>
    simp only [enumFrom]
    intro ev hev
    rcases List.mem_cons.1 hev with rfl | hev
    · show 0 < (w.dom u).length
      rw [hd]; exact Nat.succ_pos _
    · rcases List.mem_append.1 hev with hev | hev
      · rcases List.mem_append.1 hev with hev | hev
        · exact traceE_pullOk _ _ _ _ (fun _ _ => AllPullOk.nil w) ev hev
        · have := (forAllLoop_fst_prefix w u c _ _).subset hev
          simp only [List.mem_map] at this
          obtain ⟨p, hp, rfl⟩ := this
          have := mem_enumFrom _ _ _ hp
          show p.1 < (w.dom u).length
          rw [hd, List.length_cons]; omega
      · exact AllPullOk.flatMap _ _ (fun _ _ => traceSel_pullOk _ _ _ _) ev hev

/-! ### non-row events -/

/-- the events other than handing a result to the consumer -/
def nonRow (evs : List Ev) : List Ev := evs.filter fun e => !e.isRow

@[simp] theorem nonRow_nil : nonRow [] = [] := rfl
@[simp] theorem nonRow_append (a b : List Ev) : nonRow (a ++ b) = nonRow a ++ nonRow b := by simp [nonRow]
@[simp] theorem nonRow_cons_pull (v i) (evs : List Ev) : nonRow (Ev.pull v i :: evs) = Ev.pull v i :: nonRow evs := rfl
@[simp] theorem nonRow_cons_read (o n) (evs : List Ev) : nonRow (Ev.read o n :: evs) = Ev.read o n :: nonRow evs := rfl
@[simp] theorem nonRow_cons_err (e) (evs : List Ev) : nonRow (Ev.err e :: evs) = Ev.err e :: nonRow evs := rfl
@[simp] theorem nonRow_cons_row (r) (evs : List Ev) : nonRow (Ev.row r :: evs) = nonRow evs := rfl

theorem nonRow_eq_nil_of_rows (evs : List Ev) (h : ∀ e ∈ evs, e.isRow = true) : nonRow evs = [] := by
  simp only [nonRow, List.filter_eq_nil_iff]
  intro e he; simp [h e he]

theorem nonRow_prefix {a b : List Ev} (h : a <+: b) : nonRow a <+: nonRow b := by
  obtain ⟨c, rfl⟩ := h
  rw [nonRow_append]; exact List.prefix_append _ _

theorem foldl_pullStep_nonRow (v : VarId) (evs : List Ev) (m : Nat) :
    (nonRow evs).foldl (pullStep v) m = evs.foldl (pullStep v) m := by
  induction evs generalizing m with
  | nil => rfl
  | cons e evs ih => cases e <;> simp [ih, pullStep]

/-- `pulled` only looks at non-row events -/
theorem pulled_nonRow (v : VarId) (evs : List Ev) : pulled v (nonRow evs) = pulled v evs :=
  foldl_pullStep_nonRow v evs 0

/-- selected variables that are bound in the row's bindings cost nothing: the selection only hands out rows -/
theorem traceSel_bound_vars (w : World) (env : Env) (sel : List Term) (acc : List (List Val))
    (h : ∀ t ∈ sel, ∃ v, t = .var v ∧ Bnd v env) : ∀ e ∈ traceSel w env sel acc, e.isRow = true := by
  induction sel generalizing acc with
  | nil =>
    intro e he
    simp only [traceSel, List.mem_map] at he
    obtain ⟨_, _, rfl⟩ := he
    rfl
  | cons s rest ih =>
    obtain ⟨v, rfl, hv⟩ := h s (List.mem_cons_self ..)
    have hl : ∃ x, env.lookup (.var v) = some x := by
      unfold Bnd at hv
      cases hl : env.lookup (.var v) with
      | none => simp [hl] at hv
      | some x => exact ⟨x, rfl⟩
    obtain ⟨x, hx⟩ := hl
    simp only [traceSel, traceTerm, traceVar, hx, List.nil_append]
    exact ih _ (fun t ht => h t (List.mem_cons_of_mem _ ht))

/-- `existsWalk` never reorders, drops or invents non-row events when the selection costs nothing -/
theorem existsWalk_nonRow (w : World) (sel : List Term) (u : VarId) (evs : List Ev) (envs : List Env)
    (seen : List Val) (hlen : (rowsOf evs).length ≤ envs.length) (hb : ∀ env ∈ envs, Bnd u env)
    (hsel : ∀ env ∈ envs, ∀ e ∈ traceSel w env sel [], e.isRow = true) :
    nonRow (existsWalk w sel u evs envs seen) = nonRow evs := by
  induction evs generalizing envs seen with
  | nil => rw [existsWalk_nil]
  | cons e evs ih =>
    cases e with
    | pull v i => rw [existsWalk_pull, nonRow_cons_pull, nonRow_cons_pull, ih _ _ (by simpa using hlen) hb hsel]
    | read o n => rw [existsWalk_read, nonRow_cons_read, nonRow_cons_read, ih _ _ (by simpa using hlen) hb hsel]
    | err e => rw [existsWalk_err, nonRow_cons_err, nonRow_cons_err, ih _ _ (by simpa using hlen) hb hsel]
    | row r =>
      cases envs with
      | nil => simp at hlen
      | cons env envs =>
        have hlen' : (rowsOf evs).length ≤ envs.length := by simpa using hlen
        have hb' : ∀ env ∈ envs, Bnd u env := fun e he => hb e (List.mem_cons_of_mem _ he)
        have hsel' : ∀ env ∈ envs, ∀ e ∈ traceSel w env sel [], e.isRow = true :=
          fun e he => hsel e (List.mem_cons_of_mem _ he)
        have hbe := hb env (List.mem_cons_self ..)
        rw [existsWalk_row_cons, nonRow_cons_row]
        unfold Bnd at hbe
        cases hl : env.lookup (.var u) with
        | none => simp [hl] at hbe
        | some x =>
          simp only
          split
          · exact ih _ _ hlen' hb' hsel'
          · rw [nonRow_append, nonRow_eq_nil_of_rows _ (hsel env (List.mem_cons_self ..)), List.nil_append]
            exact ih _ _ hlen' hb' hsel'

/-! ### events of an expression's own evaluation are never rows -/

/-- every event satisfies `P` -/
def AllEv (P : Ev → Prop) (evs : List Ev) : Prop := ∀ ev ∈ evs, P ev

theorem AllEv.nil (P : Ev → Prop) : AllEv P [] := fun _ h => by cases h
theorem AllEv.append {P : Ev → Prop} {a b : List Ev} (ha : AllEv P a) (hb : AllEv P b) : AllEv P (a ++ b) :=
  fun ev h => (List.mem_append.1 h).elim (ha ev) (hb ev)
theorem AllEv.single {P : Ev → Prop} {e : Ev} (h : P e) : AllEv P [e] := by
  intro ev hev; simp only [List.mem_singleton] at hev; subst hev; exact h
theorem AllEv.flatMap {α} {P : Ev → Prop} (xs : List α) (f : α → List Ev) (h : ∀ x ∈ xs, AllEv P (f x)) :
    AllEv P (xs.flatMap f) := by
  intro ev hev
  obtain ⟨x, hx, hx'⟩ := List.mem_flatMap.1 hev
  exact h x hx ev hx'

/-- `P` holds of every pull, read and exception event -/
structure NonRowClosed (P : Ev → Prop) : Prop where
  pull : ∀ v i, P (.pull v i)
  read : ∀ o n, P (.read o n)
  err : ∀ e, P (.err e)

theorem AllEv.readEvent {P : Ev → Prop} (hP : NonRowClosed P) (x : Val) (n : AttrName) : AllEv P (readEvent x n) := by
  cases x <;> first | exact AllEv.nil P | exact AllEv.single (hP.read _ _)

theorem traceVar_allEv {P : Ev → Prop} (hP : NonRowClosed P) (w : World) (cp : Bool) (v : VarId) (env : Env) (k : Kont)
    (hk : ∀ e x b, AllEv P (k e x b)) : AllEv P (traceVar w cp v env k) := by
  unfold traceVar
  split
  · exact hk _ _ _
  · refine AllEv.flatMap _ _ fun p _ => ?_
    intro ev hev
    rcases List.mem_cons.1 hev with rfl | hev
    · exact hP.pull _ _
    · exact hk _ _ _ ev hev

theorem traceTerm_allEv {P : Ev → Prop} (hP : NonRowClosed P) (w : World) (c : Bool) (t : Term) (env : Env)
    (k : Kont) (hk : ∀ e x b, AllEv P (k e x b)) : AllEv P (traceTerm w c t env k) := by
  induction t generalizing c env k with
  | var v => exact traceVar_allEv hP w c v env k hk
  | lit id x => simp only [traceTerm]; split <;> exact hk _ _ _
  | attr t n ih =>
    simp only [traceTerm]
    refine ih _ _ _ fun e x b => AllEv.append (AllEv.readEvent hP _ _) ?_
    split
    · exact hk _ _ _
    · exact AllEv.single (hP.err _)
  | index t i ih =>
    simp only [traceTerm]
    refine ih _ _ _ fun e x b => ?_
    split
    · exact hk _ _ _
    · exact AllEv.single (hP.err _)
  | flatten t ih =>
    simp only [traceTerm]
    refine ih _ _ _ fun e x b => ?_
    split
    · exact AllEv.flatMap _ _ fun _ _ => hk _ _ _
    · exact AllEv.single (hP.err _)

theorem traceCmp_allEv {P : Ev → Prop} (hP : NonRowClosed P) (w : World) (l r : Term)
    (op : Val → Val → Except Err Bool) (env : Env) (k : Env → Bool → List Ev) (hk : ∀ e b, AllEv P (k e b)) :
    AllEv P (traceCmp w l r op env k) := by
  simp only [traceCmp]
  refine traceTerm_allEv hP _ _ _ _ _ fun e1 v1 t1 => ?_
  split
  · refine traceTerm_allEv hP _ _ _ _ _ fun e2 v2 t2 => ?_
    split
    · split
      · exact hk _ _
      · exact AllEv.single (hP.err _)
    · exact AllEv.nil P
  · exact AllEv.nil P

/-- the events of an expression's evaluation are pulls, reads, exceptions, and what the continuation emits -/
theorem traceE_allEv {P : Ev → Prop} (hP : NonRowClosed P) (w : World) (e : Expr) (env : Env)
    (k : Env → Bool → List Ev) (hk : ∀ e b, AllEv P (k e b)) : AllEv P (traceE w e env k) := by
  induction e generalizing env k with
  | cmp op l r => exact traceCmp_allEv hP w l r _ env k hk
  | contains c i => exact traceCmp_allEv hP w c i _ env k hk
  | truth t => exact traceTerm_allEv hP _ _ _ _ _ fun _ _ _ => hk _ _
  | hasType t c => exact traceTerm_allEv hP _ _ _ _ _ fun _ _ _ => hk _ _
  | and l r ihl ihr =>
    simp only [traceE]
    refine ihl _ _ fun e1 t => ?_
    split
    · exact ihr _ _ hk
    · exact hk _ _
  | elseIf l r ihl ihr =>
    simp only [traceE]
    refine ihl _ _ fun e1 t => ?_
    split
    · exact hk _ _
    · exact ihr _ _ hk
  | union l r ihl ihr =>
    simp only [traceE]
    refine AllEv.append (ihl _ _ fun e1 t => ?_) (ihr _ _ hk)
    split
    · exact hk _ _
    · exact ihr _ _ hk
  | not e ih => exact ih _ _ fun _ _ => hk _ _
  | exists_ v e => exact AllEv.single (hP.err _)
  | forAll v e => exact AllEv.single (hP.err _)

theorem nonRowClosed_notRow : NonRowClosed fun e => e.isRow = false := ⟨fun _ _ => rfl, fun _ _ => rfl, fun _ => rfl⟩

theorem rowsOf_eq_nil_of_noRow (evs : List Ev) (h : AllEv (fun e => e.isRow = false) evs) : rowsOf evs = [] := by
  induction evs with
  | nil => rfl
  | cons e evs ih =>
    have h' : AllEv (fun e => e.isRow = false) evs := fun ev hev => h ev (List.mem_cons_of_mem _ hev)
    have he := h e (List.mem_cons_self ..)
    cases e with
    | row r => simp [Ev.isRow] at he
    | pull v i => rw [rowsOf_cons_pull]; exact ih h'
    | read o n => rw [rowsOf_cons_read]; exact ih h'
    | err x => rw [rowsOf_cons_err]; exact ih h'

/-- the first pass of `for_all` (the condition under the first universal value) hands out nothing -/
theorem rowsOf_traceE_silent (w : World) (c : Expr) (env : Env) : rowsOf (traceE w c env fun _ _ => []) = [] :=
  rowsOf_eq_nil_of_noRow _ (traceE_allEv nonRowClosed_notRow w c env _ fun _ _ => AllEv.nil _)

theorem nonRow_eq_self_of_noRow (evs : List Ev) (h : AllEv (fun e => e.isRow = false) evs) : nonRow evs = evs := by
  simp only [nonRow, List.filter_eq_self]
  intro e he; simp [h e he]

/-! ### a variable that does not occur is never pulled; exact count of the universal pulls -/

theorem traceVar_noPull_ne (w : World) (cp : Bool) (u v : VarId) (env : Env) (k : Kont) (hne : v ≠ u)
    (hk : ∀ e x b, NoPull u (k e x b)) : NoPull u (traceVar w cp v env k) := by
  unfold traceVar
  split
  · exact hk _ _ _
  · refine NoPull.flatMap _ _ fun p _ => ?_
    intro i hi
    rcases List.mem_cons.1 hi with h | hi
    · cases h; exact hne rfl
    · exact hk _ _ _ i hi

theorem traceTerm_noPull_ne (w : World) (u : VarId) (c : Bool) (t : Term) (env : Env) (k : Kont)
    (ht : u ∉ t.vars) (hk : ∀ e x b, NoPull u (k e x b)) : NoPull u (traceTerm w c t env k) := by
  induction t generalizing c env k with
  | var v =>
    refine traceVar_noPull_ne w c u v env k ?_ hk
    rintro rfl; exact ht (by simp [Term.vars])
  | lit id x => simp only [traceTerm]; split <;> exact hk _ _ _
  | attr t n ih =>
    simp only [traceTerm]
    refine ih _ _ _ ht fun e x b => NoPull.append (NoPull.readEvent _ _ _) ?_
    split
    · exact hk _ _ _
    · exact NoPull.err _ _
  | index t i ih =>
    simp only [traceTerm]
    refine ih _ _ _ ht fun e x b => ?_
    split
    · exact hk _ _ _
    · exact NoPull.err _ _
  | flatten t ih =>
    simp only [traceTerm]
    refine ih _ _ _ ht fun e x b => ?_
    split
    · exact NoPull.flatMap _ _ fun _ _ => hk _ _ _
    · exact NoPull.err _ _

theorem traceSel_noPull (w : World) (u : VarId) (env : Env) (sel : List Term) (acc : List (List Val))
    (h : ∀ t ∈ sel, u ∉ t.vars) : NoPull u (traceSel w env sel acc) := by
  induction sel generalizing acc with
  | nil => simp only [traceSel]; exact NoPull.map_row u _
  | cons s rest ih =>
    simp only [traceSel]
    exact NoPull.append
      (traceTerm_noPull_ne _ _ _ _ _ _ (h s (List.mem_cons_self ..)) fun _ _ _ => NoPull.nil u)
      (ih _ fun t ht => h t (List.mem_cons_of_mem _ ht))

/-- the pulls of `forAllLoop` are consecutive: starting from `s` consumed elements, `s + (number of pulls)` -/
theorem forAllLoop_fst_foldl (w : World) (u : VarId) (c : Expr) (vals : List Val) (s : Nat) (sols : List Env) :
    (forAllLoop w u c (enumFrom s vals) sols).1.foldl (pullStep u) s =
      s + (forAllLoop w u c (enumFrom s vals) sols).1.length := by
  induction vals generalizing s sols with
  | nil => rfl
  | cons v vs ih =>
    simp only [enumFrom, forAllLoop]
    split
    · rfl
    · simp only [List.foldl_cons, List.length_cons]
      have : pullStep u s (Ev.pull u s) = s + 1 := by simp [pullStep]
      rw [this, ih]
      omega

theorem forAllLoop_fst_noRow (w : World) (u : VarId) (c : Expr) (rest : List (Nat × Val)) (sols : List Env) :
    AllEv (fun e => e.isRow = false) (forAllLoop w u c rest sols).1 := by
  intro ev hev
  have := (forAllLoop_fst_prefix w u c rest sols).subset hev
  simp only [List.mem_map] at this
  obtain ⟨p, _, rfl⟩ := this
  rfl

theorem enumFrom_length {α} (l : List α) (s : Nat) : (enumFrom s l).length = l.length := by
  induction l generalizing s with
  | nil => rfl
  | cons a l ih => simp [enumFrom, ih]

/-! ### `existsWalk` preserves every class of non-row events the selection does not emit -/

theorem existsWalk_filter (keep : Ev → Bool) (hrow : ∀ r, keep (.row r) = false)
    (w : World) (sel : List Term) (u : VarId) (evs : List Ev) (envs : List Env)
    (seen : List Val) (hlen : (rowsOf evs).length ≤ envs.length) (hb : ∀ env ∈ envs, Bnd u env)
    (hsel : ∀ env ∈ envs, ∀ e ∈ traceSel w env sel [], keep e = false) :
    (existsWalk w sel u evs envs seen).filter keep = evs.filter keep := by
  induction evs generalizing envs seen with
  | nil => rw [existsWalk_nil]
  | cons e evs ih =>
    cases e with
    | pull v i =>
      rw [existsWalk_pull, List.filter_cons, List.filter_cons, ih _ _ (by simpa using hlen) hb hsel]
    | read o n =>
      rw [existsWalk_read, List.filter_cons, List.filter_cons, ih _ _ (by simpa using hlen) hb hsel]
    | err e =>
      rw [existsWalk_err, List.filter_cons, List.filter_cons, ih _ _ (by simpa using hlen) hb hsel]
    | row r =>
      cases envs with
      | nil => simp at hlen
      | cons env envs =>
        have hlen' : (rowsOf evs).length ≤ envs.length := by simpa using hlen
        have hb' : ∀ env ∈ envs, Bnd u env := fun e he => hb e (List.mem_cons_of_mem _ he)
        have hsel' : ∀ env ∈ envs, ∀ e ∈ traceSel w env sel [], keep e = false :=
          fun e he => hsel e (List.mem_cons_of_mem _ he)
        have hbe := hb env (List.mem_cons_self ..)
        rw [existsWalk_row_cons, List.filter_cons, hrow r]
        simp only [Bool.false_eq_true, if_false]
        unfold Bnd at hbe
        cases hl : env.lookup (.var u) with
        | none => simp [hl] at hbe
        | some x =>
          simp only
          split
          · exact ih _ _ hlen' hb' hsel'
          · have : (traceSel w env sel []).filter keep = [] := by
              simp only [List.filter_eq_nil_iff]
              intro e he; simp [hsel env (List.mem_cons_self ..) e he]
            rw [List.filter_append, this, List.nil_append]
            exact ih _ _ hlen' hb' hsel'

/-- the pulls of `v` -/
def isPullOf (v : VarId) : Ev → Bool
  | .pull v' _ => v' == v
  | _ => false

theorem foldl_pullStep_filter (v : VarId) (evs : List Ev) (m : Nat) :
    (evs.filter (isPullOf v)).foldl (pullStep v) m = evs.foldl (pullStep v) m := by
  induction evs generalizing m with
  | nil => rfl
  | cons e evs ih =>
    cases e with
    | pull v' i =>
      by_cases hv : (v' == v) = true
      · simp [isPullOf, hv, ih]
      · simp [isPullOf, hv, ih, pullStep]
    | read o n => simp [isPullOf, ih, pullStep]
    | row r => simp [isPullOf, ih, pullStep]
    | err x => simp [isPullOf, ih, pullStep]

/-- `pulled v` only looks at the pulls of `v` -/
theorem pulled_filter_isPullOf (v : VarId) (evs : List Ev) : pulled v (evs.filter (isPullOf v)) = pulled v evs :=
  foldl_pullStep_filter v evs 0

theorem isPullOf_false_of_noPull (v : VarId) (evs : List Ev) (h : NoPull v evs) :
    ∀ e ∈ evs, isPullOf v e = false := by
  intro e he
  cases e with
  | pull v' i =>
    by_cases hv : v' = v
    · subst hv; exact absurd he (h i)
    · simpa [isPullOf] using hv
  | read o n => rfl
  | row r => rfl
  | err x => rfl

theorem filter_prefix {α} (p : α → Bool) {a b : List α} (h : a <+: b) : a.filter p <+: b.filter p := by
  obtain ⟨c, rfl⟩ := h
  rw [List.filter_append]; exact List.prefix_append _ _

end KrroodVerif.Eql
