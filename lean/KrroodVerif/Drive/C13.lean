import KrroodVerif.Sexp
import KrroodVerif.Model.SymbolGraph
import KrroodVerif.Model.SymbolGraphStep
import KrroodVerif.Drive.SG
/-!
C13 driver. Case: `(h <op> …)`. Observation `A|B`: `B` = the sorted census of every evaluated query, in order;
`A` = `ok` when every census equals the live instances of the type known to the registry (ground truth: the model's
heap here, the harness's own weak references on the implementation side), else the differences.
`spec=ok|*`: the property demands agreement, whatever the instances are. `model=` the code as it is,
`model_repaired=` every quirk off.
-/
namespace KrroodVerif.Drive.C13
open KrroodVerif KrroodVerif.SG KrroodVerif.Drive.SG

def dups (l : List Nat) : List Nat :=
  (sortNat l).eraseDups.filter (fun x => l.count x > 1)

def diffOf (i : Nat) (o : QOut) : Option String :=
  let missing := (sortNat o.expected).filter (fun x => !o.res.contains x)
  let extra := (sortNat o.res).eraseDups.filter (fun x => !o.expected.contains x)
  let d := dups o.res
  if missing.isEmpty && extra.isEmpty && d.isEmpty then none
  else some s!"q{i}:missing={showNats missing},extra={showNats extra},dup={showNats d}"

def enum {α} (l : List α) : List (Nat × α) := (List.range l.length).zip l

def obs (out : List QOut) : String :=
  let ds := (enum out).filterMap (fun p => diffOf p.1 p.2)
  let a := if ds.isEmpty then "ok" else ";".intercalate ds
  a ++ "|" ++ ";".intercalate (out.map fun o => showNats (sortNat o.res))

/-- F-C13-1: a domain-less query object is evaluated a second time -/
def trigReeval (ops : List Op) : Bool :=
  let keys := ops.filterMap (fun op => match op with | .evalq k => some k | _ => none)
  let implicit := ops.filterMap (fun op => match op with | .mkq k _ none => some k | _ => none)
  keys.any (fun k => implicit.contains k && keys.count k > 1)

def hasDup : List Nat → Bool
  | [] => false
  | x :: xs => xs.contains x || hasDup xs

/-- F-C13-2: a domain-less query over a type below which some class is reachable along two inheritance paths -/
def trigDiamond (S : Schema) (ops : List Op) : Bool :=
  ops.any (fun op => match op with | .mkq _ c none => hasDup (S.below c) | _ => false)

/-! ### stepwise (lazily consumed) evaluations

The walk is MODEL level since build c13 (`Model/SymbolGraphStep.lean`; theorems `C13_stepwise_*` in `Props/C13Step.lean`);
the driver only adds the composite operations (`XOp`) and the classes defined on the way.
`(qstart k c)` builds `an(entity(x, <trivially true condition on x>))` over `x = let(C, None)` and takes `iter(q.evaluate())`:
nothing runs yet. `(qnext k)` is one `next()`. The first `next()` runs `remove_dead_instances()` and starts the domain
generator of `get_instances_of_type`: it walks `[type_] + recursive_subclasses(type_)` (the classes that exist THEN) and
copies the list of a class when it REACHES that class; an instance that died after the copy was taken is skipped (F-C13-4
repaired; before, `wrapper.instance` = `None` was yielded, the condition raised `AttributeError` and the evaluation was
over). Every yielded instance enters the cached domain of the variable (a strong reference).
The operations of the history in between are ordinary model steps (`SG.step`); the walk reads the model's `byClass`. -/

inductive DOp where
  | m (ops : List XOp)
  | defclass (c p : Cls)
  | qstart (k : Nat) (c : Cls)
  | qnext (k : Nat)

def parseD (xs : List Sexp) : Option (List DOp) :=
  let rec go (pos : Nat) : List Sexp → Option (List DOp)
    | [] => some []
    | x :: r => do
      let a ← match x with
        | .list [.atom "defclass", c, p] => do pure (DOp.defclass (← c.asNat?) (← p.asNat?))
        | .list [.atom "defclassn", c, p, _] => do pure (DOp.defclass (← c.asNat?) (← p.asNat?))
        | .list [.atom "qstart", k, c] => do pure (DOp.qstart (← k.asNat?) (← c.asNat?))
        | .list [.atom "qnext", k] => do pure (DOp.qnext (← k.asNat?))
        | _ => do pure (DOp.m (← parseXOne pos x))
      let b ← go (pos + 1) r
      pure (a :: b)
  go 0 xs

/-- the run: the model's `SRun` (state + evaluations in flight, each with its ghost `late`) + the classes defined so far -/
structure DRun where
  r : SRun (List Nat × Nat)
  defs : List (Cls × Cls) := []

def DRun.st (d : DRun) : DSt := d.r.st
def DRun.iters (d : DRun) : List Iter := d.r.iters
/-- trigger of F-C13-3: an instance became known to the registry while a stepwise evaluation was suspended that
has not yet reached the class of that instance (`SRun.lateKnown`: some evaluation's ghost `late` is non-empty) -/
def DRun.lateKnown (d : DRun) : Bool := d.r.lateKnown

/-- every step is the model's: `SRun.between` (the operations of the history, run by `runXS`), `SRun.start`, `SRun.next` -/
def stepDOp (q : Quirks) (snap skipDead : Bool) (Sfinal : Schema) (d : DRun) : DOp → DRun
  | .m ops => { d with r := d.r.between (runXS Sfinal q d.r.st ops) }
  | .defclass c p => { d with defs := d.defs ++ [(c, p)] }
  | .qstart k c =>
    -- `fill` leaves a `mkq` alone: `stepS Sfinal q st op = step q Sfinal lifo st op`
    { d with r := d.r.start q Sfinal lifo k c }
  | .qnext k => { d with r := d.r.next q snap skipDead (schemaWith d.defs) lifo k }

def iterDiff (st : DSt) (i : Nat) (it : Iter) : Option String :=
  let missing := if it.status == 1 then
      (sortNat it.expected).filter (fun x => st.h.isLive x && !it.yielded.contains x) else []
  let extra := (sortNat it.yielded).eraseDups.filter (fun x => !it.expected.contains x)
  let d := dups it.yielded
  if missing.isEmpty && extra.isEmpty && d.isEmpty && it.status != 2 then none
  else some (s!"s{i}:missing={showNats missing},extra={showNats extra},dup={showNats d}" ++
    (if it.status == 2 then ",raised" else ""))

def statusName (n : Nat) : String := if n == 0 then "open" else if n == 1 then "stop" else "raised"

def obsD (r : DRun) : String :=
  let ds := (enum r.st.h.out).filterMap (fun p => diffOf p.1 p.2) ++
    (enum r.iters).filterMap (fun p => iterDiff r.st p.1 p.2)
  let a := if ds.isEmpty then "ok" else ";".intercalate ds
  let b := r.st.h.out.map (fun o => showNats (sortNat o.res)) ++
    r.iters.map (fun it => s!"it{it.key}={showNats (sortNat it.yielded)}/{statusName it.status}")
  a ++ "|" ++ ";".intercalate b

def runDOps (q : Quirks) (snap skipDead : Bool) (Sfinal : Schema) (ops : List DOp) : DRun :=
  ops.foldl (stepDOp q snap skipDead Sfinal) { r := { st := St.init lifo } }

def run (s : Sexp) : String :=
  match s with
  | .list (.atom "h" :: xs) =>
    match parseD xs with
    | some dops =>
      let ops : List Op := dops.flatMap (fun d => match d with
        | .m xs => xs.filterMap (fun x => match x with | XOp.m op => some op | _ => none)
        | _ => [])
      let S := schemaWith (parseDefs xs)
      let r := runDOps Quirks.asIs false true S dops
      let m := obsD r
      let mr := obsD (runDOps Quirks.none true true S dops)
      -- F-C13-3: read off the run of the model of the code as it is (`DRun.lateKnown`)
      let t3 := r.lateKnown
      -- F-C13-1 (a re-evaluated query object ranged over its cached domain) is repaired in /repo: no trigger
      let trig := joinTrig [
        -- (F-C13-2, classes listed twice below T, and F-C13-4, an instance that died while an evaluation was suspended
        -- yielded as None, are repaired in /repo: no case is attributed to them any more)
        (t3, "F-C13-3")]
      s!"model={m}\tspec=ok|*\ttrig={trig}\tmodel_repaired={mr}"
    | none => "error=bad-case"
  | _ => "error=bad-case"
end KrroodVerif.Drive.C13
