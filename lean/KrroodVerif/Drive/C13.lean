import KrroodVerif.Sexp
import KrroodVerif.Model.SymbolGraph
import KrroodVerif.Drive.SG
/-!
C13 driver. Case: `(h <op> …)`. Observation `A|B`: `B` = the sorted census of every evaluated query, in order;
`A` = `ok` when every census equals the live instances of the type known to the registry (ground truth: the model's
heap here, the harness's own weak references on the implementation side), else the differences.
`spec=ok|*`: the property demands agreement, whatever the instances are. `model=` the code as it is,
`model_repaired=` every quirk off.
-/
namespace KrroodVerif.Drive.C13
open KrroodVerif KrroodVerif.SG KrroodVerif.Drive.SG

def dups (l : List Nat) : List Nat :=
  (sortNat l).eraseDups.filter (fun x => l.count x > 1)

def diffOf (i : Nat) (o : QOut) : Option String :=
  let missing := (sortNat o.expected).filter (fun x => !o.res.contains x)
  let extra := (sortNat o.res).eraseDups.filter (fun x => !o.expected.contains x)
  let d := dups o.res
  if missing.isEmpty && extra.isEmpty && d.isEmpty then none
  else some s!"q{i}:missing={showNats missing},extra={showNats extra},dup={showNats d}"

def enum {α} (l : List α) : List (Nat × α) := (List.range l.length).zip l

def obs (out : List QOut) : String :=
  let ds := (enum out).filterMap (fun p => diffOf p.1 p.2)
  let a := if ds.isEmpty then "ok" else ";".intercalate ds
  a ++ "|" ++ ";".intercalate (out.map fun o => showNats (sortNat o.res))

/-- F-C13-1: a domain-less query object is evaluated a second time -/
def trigReeval (ops : List Op) : Bool :=
  let keys := ops.filterMap (fun op => match op with | .evalq k => some k | _ => none)
  let implicit := ops.filterMap (fun op => match op with | .mkq k _ none => some k | _ => none)
  keys.any (fun k => implicit.contains k && keys.count k > 1)

def hasDup : List Nat → Bool
  | [] => false
  | x :: xs => xs.contains x || hasDup xs

/-- F-C13-2: a domain-less query over a type below which some class is reachable along two inheritance paths -/
def trigDiamond (S : Schema) (ops : List Op) : Bool :=
  ops.any (fun op => match op with | .mkq _ c none => hasDup (S.below c) | _ => false)

def run (s : Sexp) : String :=
  match s with
  | .list (.atom "h" :: xs) =>
    match parseOps xs with
    | some ops =>
      let S := schemaWith (parseDefs xs)
      let m := obs (runS S Quirks.asIs ops).h.out
      let mr := obs (runS S Quirks.none ops).h.out
      let trig := joinTrig [(trigReeval ops, "F-C13-1"), (trigDiamond S ops, "F-C13-2")]
      s!"model={m}\tspec=ok|*\ttrig={trig}\tmodel_repaired={mr}"
    | none => "error=bad-case"
  | _ => "error=bad-case"
end KrroodVerif.Drive.C13
