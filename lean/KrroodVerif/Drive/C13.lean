import KrroodVerif.Sexp
namespace KrroodVerif.Drive.C13
/-- stub: replaced when the model for C13 is built -/
def run (_ : Sexp) : String := "model=unimplemented\tspec=unimplemented\ttrig="
end KrroodVerif.Drive.C13
