import KrroodVerif.Sexp
namespace KrroodVerif.Drive.C04
/-- stub: replaced when the model for C04 is built -/
def run (_ : Sexp) : String := "model=unimplemented\tspec=unimplemented\ttrig="
end KrroodVerif.Drive.C04
