import KrroodVerif.Sexp
import KrroodVerif.Model.Dao
/-!
Driver of C04 (and the case parser shared with C05). Case line:
`(g (roots r…) (via k) (n <oid> <Class> <plain|alt|sub> "<scalars>" <MappingClass|-> "<mapping columns>" (tabs T…) <ref>…) …)`
with `<ref>` = `(none)` | `(one t)` | `(many <assoc table> t…)` | `(none! <column>)` | `(one! <column> t)` (`!` = the
field references the source's own table hierarchy) | `(extra <table> n)` (rows of mapped sub-objects the object's
`create_instance` builds on the fly) | `(pf a b)` (kind `sub`: a leading scalars and b leading references come from the
rebuilt parent). Unknown top-level items such as `(tries n)` are for the harness only. Nodes are listed in oid order 0,1,2,….
-/
namespace KrroodVerif.Drive.C04
open KrroodVerif.Dao

structure Case where
  heap : Heap
  roots : List Nat
  via : Nat

def parseKind : String → Option Kind
  | "plain" => some .plain | "alt" => some .alt | "sub" => some .sub | _ => none

def parseRef : Sexp → Option (Ref × FieldMeta)
  | .list [.atom "none"] => some (.none, ⟨false, ""⟩)
  | .list [.atom "none!", .atom c] => some (.none, ⟨true, c⟩)
  | .list [.atom "one", t] => t.asNat?.map fun t => (.one t, ⟨false, ""⟩)
  | .list [.atom "one!", .atom c, t] => t.asNat?.map fun t => (.one t, ⟨true, c⟩)
  | .list (.atom "many" :: .atom a :: ts) => (ts.mapM Sexp.asNat?).map fun ts => (.many ts, ⟨false, a⟩)
  | _ => none

def parseNode : List Sexp → Option (Nat × Node)
  | oid :: .atom cls :: .atom kind :: .atom scal :: .atom mcls :: .atom mscal :: .list (.atom "tabs" :: tabs) :: refs => do
    let oid ← oid.asNat?
    let kind ← parseKind kind
    let tabs ← tabs.mapM Sexp.asAtom?
    let isExtra : Sexp → Bool := fun x => match x with | .list (.atom "extra" :: _) => true | _ => false
    let extra ← (refs.filter isExtra).mapM fun x => match x with
      | .list [.atom "extra", .atom t, n] => n.asNat?.map fun n => (t, n)
      | _ => none
    let isPf : Sexp → Bool := fun x => match x with | .list (.atom "pf" :: _) => true | _ => false
    let pf := ((refs.filter isPf).filterMap fun x => match x with
      | .list (.atom "pf" :: a :: b :: _) => match a.asNat?, b.asNat? with
        | some a, some b => some (a, b)
        | _, _ => none
      | _ => none).headD (0, 0)
    let deep := (refs.filter isPf).any fun x => match x with
      | .list [.atom "pf", _, _, .atom "deep"] => true
      | _ => false
    let rs ← (refs.filter fun x => !isExtra x && !isPf x).mapM parseRef
    pure (oid, { lab := ⟨cls, scal⟩, kind := kind, view := ⟨mcls, mscal⟩, tabs := tabs,
                 fields := rs.map (·.2), refs := rs.map (·.1), extra := extra, pf := pf, deep := deep })
  | _ => none

def parseCase : Sexp → Option Case
  | .list (.atom "g" :: items) => do
    let roots ← (← Sexp.field? items "roots").mapM Sexp.asNat?
    let via ← match Sexp.field? items "via" with
      | some [v] => v.asNat?
      | _ => some 0
    let nodes ← (Sexp.fields items "n").mapM parseNode
    -- oids must be 0,1,2,… in order
    if (nodes.map (·.1)) != List.range nodes.length then none
    else
      let heap : Heap := nodes.map (·.2)
      if roots.isEmpty || !(Heap.wf heap) || roots.any (fun r => r ≥ heap.length) then none
      else pure { heap := heap, roots := roots, via := via }
  | _ => none

/-- `create_from_dao` of the dataset's mappings as a table: DAO label ↦ label of the original object -/
def unmapOf (h : Heap) : Label → Option Label :=
  let tbl := h.filterMap fun n => if n.kind == .plain then none else some ((daoMk n).lab, n.lab)
  fun l => tbl.lookup l

def showResult : Option (List Nat × St) → String
  | some (roots, st) => canon st.out roots
  | none => "error:model"

/-- every admissible observation of one run: F-C04-3 applied or repaired (`deepFixed`), then every outcome of
temporary-parent id collisions (F-C04-2; the first one is "no collision") -/
def outcomes (deepFixed : Bool) : Option (List Nat × St) → List String
  | some (rs, st) =>
    let out := if deepFixed then st.out else dropDeepParent st.out
    let cs := staleChoices out [] (subSlotsD deepFixed out)
    (cs.take 64).map fun (ch : List (Nat × Nat)) => canon (staleParent out ch) rs
  | none => ["error:model"]

def run (s : Sexp) : String :=
  match parseCase s with
  | none => "error=bad-case"
  | some c =>
    let unmap := unmapOf c.heap
    -- several roots: one shared ToDAOState, one explicitly passed (initially empty) FromDAOState
    let roots := c.roots
    let on := roundTrip true unmap c.heap roots
    let off := roundTrip false unmap c.heap roots
    -- F-C04-3 is repaired in /repo (fix commit 76e196d): only the repaired variants (`deepFixed`) are admissible now
    let today := outcomes true on
    let m := today.headD "error:model"
    let mf := (outcomes true off).headD "error:model"
    let spec := canon c.heap roots
    let others := (dedupStrings (today.drop 1 ++ outcomes true off)).filter
      fun x => x != m && x != mf
    let (trig2, trig3) := match on with
      | some (_, st) => (trigStaleParent st.out, false)
      | none => (false, false)
    let trig := (if trigStale unmap c.heap roots then ["F-C04-1"] else []) ++ (if trig2 then ["F-C04-2"] else [])
      ++ (if trig3 then ["F-C04-3"] else [])
    let alts := "".intercalate (others.zipIdx.map fun (p : String × Nat) => s!"\tmodel_s{p.2 + 1}={p.1}")
    s!"model={m}\tmodel_fixed={mf}{alts}\tspec={spec}\ttrig={",".intercalate trig}"
end KrroodVerif.Drive.C04
