import KrroodVerif.Sexp
import KrroodVerif.Model.Dao
/-!
Driver of C04 (and the case parser shared with C05). Case line:
`(g (roots r…) (via k) (n <oid> <Class> <plain|alt|sub> "<scalars>" <MappingClass|-> "<mapping columns>" (tabs T…) <ref>…) …)`
with `<ref>` = `(none)` | `(one t)` | `(many <assoc table> t…)` | `(none! <column>)` | `(one! <column> t)` (`!` = the
field references the source's own table hierarchy) | `(extra <table> n)` (rows of mapped sub-objects the object's
`create_instance` builds on the fly) | `(pf a b)` (kind `sub`: a leading scalars and b leading references come from the
rebuilt parent). Unknown top-level items such as `(tries n)` are for the harness only. Nodes are listed in oid order 0,1,2,….
-/
namespace KrroodVerif.Drive.C04
open KrroodVerif.Dao

structure Case where
  heap : Heap
  roots : List Nat
  via : Nat

def parseKind : String → Option Kind
  | "plain" => some .plain | "alt" => some .alt | "sub" => some .sub | _ => none

def parseRef : Sexp → Option (Ref × FieldMeta)
  | .list [.atom "none"] => some (.none, ⟨false, ""⟩)
  | .list [.atom "none!", .atom c] => some (.none, ⟨true, c⟩)
  | .list [.atom "one", t] => t.asNat?.map fun t => (.one t, ⟨false, ""⟩)
  | .list [.atom "one!", .atom c, t] => t.asNat?.map fun t => (.one t, ⟨true, c⟩)
  | .list (.atom "many" :: .atom a :: ts) => (ts.mapM Sexp.asNat?).map fun ts => (.many ts, ⟨false, a⟩)
  | _ => none

def parseNode : List Sexp → Option (Nat × Node)
  | oid :: .atom cls :: .atom kind :: .atom scal :: .atom mcls :: .atom mscal :: .list (.atom "tabs" :: tabs) :: refs => do
    let oid ← oid.asNat?
    let kind ← parseKind kind
    let tabs ← tabs.mapM Sexp.asAtom?
    let isExtra : Sexp → Bool := fun x => match x with | .list (.atom "extra" :: _) => true | _ => false
    let extra ← (refs.filter isExtra).mapM fun x => match x with
      | .list [.atom "extra", .atom t, n] => n.asNat?.map fun n => (t, n)
      | _ => none
    let isPf : Sexp → Bool := fun x => match x with | .list (.atom "pf" :: _) => true | _ => false
    let pf := ((refs.filter isPf).filterMap fun x => match x with
      | .list (.atom "pf" :: a :: b :: _) => match a.asNat?, b.asNat? with
        | some a, some b => some (a, b)
        | _, _ => none
      | _ => none).headD (0, 0)
    let deep := (refs.filter isPf).any fun x => match x with
      | .list [.atom "pf", _, _, .atom "deep"] => true
      | _ => false
    let rs ← (refs.filter fun x => !isExtra x && !isPf x).mapM parseRef
    pure (oid, { lab := ⟨cls, scal⟩, kind := kind, view := ⟨mcls, mscal⟩, tabs := tabs,
                 fields := rs.map (·.2), refs := rs.map (·.1), extra := extra, pf := pf, deep := deep })
  | _ => none

def parseCase : Sexp → Option Case
  | .list (.atom "g" :: items) => do
    let roots ← (← Sexp.field? items "roots").mapM Sexp.asNat?
    let via ← match Sexp.field? items "via" with
      | some [v] => v.asNat?
      | _ => some 0
    let nodes ← (Sexp.fields items "n").mapM parseNode
    -- oids must be 0,1,2,… in order
    if (nodes.map (·.1)) != List.range nodes.length then none
    else
      let heap : Heap := nodes.map (·.2)
      if roots.isEmpty || !(Heap.wf heap) || roots.any (fun r => r ≥ heap.length) then none
      else pure { heap := heap, roots := roots, via := via }
  | _ => none

/-- `create_from_dao` of the dataset's mappings as a table: DAO label ↦ label of the original object -/
def unmapOf (h : Heap) : Label → Option Label :=
  let tbl := h.filterMap fun n => if n.kind == .plain then none else some ((daoMk n).lab, n.lab)
  fun l => tbl.lookup l

def showResult : Option (List Nat × St) → String
  | some (roots, st) => canon st.out roots
  | none => "error:model"

def showRun : Option (List Nat × St) → String
  | some (rs, st) => canon st.out rs
  | none => "error:model"

def run (s : Sexp) : String :=
  match parseCase s with
  | none => "error=bad-case"
  | some c =>
    let unmap := unmapOf c.heap
    -- several roots: one shared ToDAOState, one explicitly passed (initially empty) FromDAOState
    let roots := c.roots
    -- All recorded C04 findings are repaired in /repo: F-C04-1 (9a6f576: references resolved while an
    -- alternatively mapped DAO is in progress are fixed again once the final object exists), F-C04-2
    -- (453154d: FromDAOState keeps the converted DAOs alive, no id() is reused), F-C04-3 (76e196d).
    -- The code is the copy that never memoises the intermediate (`quirk := false`): `C04_roundtrip` is the theorem.
    -- `model=` is `verdictText`: it equals `spec=` exactly when the DECIDED isomorphism test `canonEq` accepts the
    -- model's result against the input (`C04_verdict`: ⇔ `Iso`, the property's relation; `C04_canonEq_roundtrip`)
    let m := match roundTrip false unmap c.heap roots with
      | some (rs, st) => verdictText c.heap roots st.out rs
      | none => "error:model"
    -- the scalars of every object through the conversion table of today's in-memory copy (`tableMem`; always kept:
    -- `scalarsKept_mem`, an instance of `C04_scalars_preserved`)
    let m := if c.heap.all (fun n => scalarsKept tableMem driverEnums n.lab.scal) then m
             else "error:scalars-changed-by-table " ++ m
    let spec := canon c.heap roots
    s!"model={m}\tspec={spec}\ttrig="
end KrroodVerif.Drive.C04
