import KrroodVerif.Sexp
namespace KrroodVerif.Drive.C15
/-- stub: replaced when the model for C15 is built -/
def run (_ : Sexp) : String := "model=unimplemented\tspec=unimplemented\ttrig="
end KrroodVerif.Drive.C15
