import KrroodVerif.Sexp
import KrroodVerif.Model.Descriptor
import KrroodVerif.Model.DescriptorHalfBuilt
/-!
C15 driver. Case: `(h (fields (cls prop kind)…) (supers (p a…)…) (inv (p q)…) (trans p…) (objs (cls rt|-)…)
(ops (set f s t) (add f s t) (assign f s x…) (ctor o (f x…)…)…))`.
Output: `R[f:s:t,…]|F[f.o=t,t;…;f.o~t|t;…]` — relation triples sorted; per field and object of its class the sorted
targets (`=` container contents, `~` admissible values of a single-valued field).
-/
namespace KrroodVerif.Drive.C15
open KrroodVerif.PD

def parseKind : Sexp → Option Kind
  | .atom "single" => some .single | .atom "list" => some .list | .atom "set" => some .set | _ => none

def parseNats (xs : List Sexp) : Option (List Nat) := xs.mapM Sexp.asNat?

def parseSchema (items : List Sexp) : Option Schema := do
  let fs ← (← Sexp.field? items "fields").mapM fun x => match x with
    | .list [.list (c :: more), p, k] => do
        pure ({ cls := ← c.asNat?, prop := ← p.asNat?, kind := ← parseKind k, also := ← parseNats more } : FieldDecl)
    | .list [c, p, k] => do pure ({ cls := ← c.asNat?, prop := ← p.asNat?, kind := ← parseKind k } : FieldDecl)
    | _ => none
  let sup ← (← Sexp.field? items "supers").mapM fun x => match x with
    | .list (p :: r) => do pure ((← p.asNat?), (← parseNats r))
    | _ => none
  let inv ← (← Sexp.field? items "inv").mapM fun x => match x with
    | .list [p, q] => do pure ((← p.asNat?), (← q.asNat?))
    | _ => none
  let tr ← parseNats (← Sexp.field? items "trans")
  let par ← ((Sexp.field? items "parents").getD []).mapM fun x => match x with
    | .list (c :: r) => do pure ((← c.asNat?), (← parseNats r))
    | _ => none
  pure { fields := fs, supers := sup, inverse := inv, transProps := tr, parents := par }

def parseWorld (items : List Sexp) : Option World := do
  let os ← (← Sexp.field? items "objs").mapM fun x => match x with
    | .list [c, .atom "-"] => do pure ((← c.asNat?), (none : Option Nat))
    | .list [c, r] => do pure ((← c.asNat?), some (← r.asNat?))
    | _ => none
  pure { cls := os.map (·.1), rt := os.map (·.2) }

def parseOp : Sexp → Option Op
  | .list [.atom "set", f, s, t] => do pure (.set1 (← f.asNat?) (← s.asNat?) (← t.asNat?))
  | .list [.atom "add", f, s, t] => do pure (.add (← f.asNat?) (← s.asNat?) (← t.asNat?))
  | .list [.atom "assign1", f, s, t] => do pure (.assign (← f.asNat?) (← s.asNat?) [← t.asNat?])
  | .list (.atom "assign" :: f :: s :: xs) => do pure (.assign (← f.asNat?) (← s.asNat?) (← parseNats xs))
  -- instance churn between assertions: `(kill o)` an instance without relations dies, `(new o)` instance `o` is
  -- created only now (possibly at a dead instance's address), `(sweep)` dead nodes are removed from the graph
  | .list [.atom "kill", _] => some .churn
  | .list [.atom "new", _] => some .churn
  | .list [.atom "sweep"] => some .churn
  -- `(falsy o)` / `(truthy o)`: instance `o` of a class with its own `__len__` / `__bool__` becomes falsy / truthy
  | .list [.atom "falsy", _] => some .churn
  | .list [.atom "truthy", _] => some .churn
  | _ => none

/-- `(ctor o (f x…) (f) …)`: instance `o` is created by ONE constructor call; every managed field of its class is
listed in the order in which the dataclass `__init__` assigns it, with the values given to the constructor (none:
the default). Each assignment is the descriptor's `__set__`: a single-valued field with a value is `set1` (its
default `None` asserts nothing), a container field is `assign` — also for the default (an empty collection), which
keeps what inference triggered by an EARLIER field of the same call has already put there. -/
def parseCtor (S : Schema) (o : Nat) (fs : List Sexp) : Option (List Op) :=
  fs.mapM (fun x => match x with
    | .list (f :: xs) => do
        let f ← f.asNat?
        let xs ← parseNats xs
        match S.kindOf f, xs with
        | .single, [] => pure Op.churn
        | .single, [t] => pure (Op.set1 f o t)
        | .single, _ => none
        | _, xs => pure (Op.assign f o xs)
    | _ => none)

/-- one history item → the operations it stands for -/
def parseItem (S : Schema) : Sexp → Option (List Op)
  | .list (.atom "ctor" :: o :: fs) => do parseCtor S (← o.asNat?) fs
  | x => (parseOp x).map fun op => [op]

/-- `(eqcls c…)` of the schema: the classes whose instances compare by value (eq-dataclasses); absent = none -/
def parseEqCls (items : List Sexp) : List Nat :=
  ((Sexp.field? items "eqcls").bind parseNats).getD []

/-- F-C15-4 = F-C16-10 (inference compares an instance under construction by value) is OPEN in /repo: `true`.
After `fixes/C16_half_built_instance.diff` is applied the lead sets this to `false`. -/
def halfBuiltOpen : Bool := false

/-- the constructor context of every operation `parseItem` yields for this history item (same length, same order):
entry `j` of `(ctor o (f x…)…)` runs while the fields of the entries after it are still to come -/
def halvesOfItem : Sexp → List (Option Half)
  | .list (.atom "ctor" :: o :: fs) =>
    match o.asNat? with
    | some o =>
      let fields := fs.map fun x => match x with | .list (f :: _) => (f.asNat?).getD 0 | _ => 0
      (halvesOfCtor o fields).map some
    | none => fs.map fun _ => none
  | _ => [none]

/-- F-C15-2 is repaired in /repo (`is not None` instead of truthiness): the gate is off; `before_fix=` shows the old
behaviour -/
def truthinessGate : Bool := false

/-- the history as the gated code sees it: a write whose owner or element is falsy at that moment stores without
asserting (`storeOnly` / `assignQ`) -/
def gateOps (raw : List Sexp) (ops : List Op) : List Op :=
  ((raw.zip ops).foldl (fun (acc : List Nat × List Op) (ro : Sexp × Op) =>
    let F := acc.1
    match ro.1 with
    | .list [.atom "falsy", o] => (match o.asNat? with | some o => (o :: F, acc.2 ++ [ro.2]) | none => (F, acc.2 ++ [ro.2]))
    | .list [.atom "truthy", o] => (match o.asNat? with | some o => (F.filter (· != o), acc.2 ++ [ro.2]) | none => (F, acc.2 ++ [ro.2]))
    | _ =>
      let op' := match ro.2 with
        | .set1 f s t => if F.contains s || F.contains t then Op.storeOnly f s t else ro.2
        | .add f s t => if F.contains s || F.contains t then Op.storeOnly f s t else ro.2
        | .assign f s xs =>
          let muted := if F.contains s then xs else xs.filter F.contains
          if muted.isEmpty then ro.2 else Op.assignQ f s xs muted
        | o => o
      (F, acc.2 ++ [op'])) ([], [])).2

/-- the instances that die during the history -/
def killed (ops : List Sexp) : List Nat :=
  ops.filterMap fun x => match x with | .list [.atom "kill", o] => o.asNat? | _ => none

def factLt (a b : Fact) : Bool :=
  a.1 < b.1 || (a.1 == b.1 && (a.2.1 < b.2.1 || (a.2.1 == b.2.1 && a.2.2 < b.2.2)))

def sortFacts (xs : List Fact) : List Fact :=
  xs.foldl (fun acc x =>
    if acc.contains x then acc else
    let (a, b) := acc.span (fun y => factLt y x)
    a ++ [x] ++ b) []

def showRels (g : List Fact) : String :=
  "R[" ++ ",".intercalate ((sortFacts g).map fun r => s!"{r.1}:{r.2.1}:{r.2.2}") ++ "]"

def targetsOf (g : List Fact) (f o : Nat) : List Nat :=
  hashOrder ((g.filter fun r => r.1 == f && r.2.1 == o).map (·.2.2))

/-- `content f o` = what the container field holds -/
def showFields (S : Schema) (W : World) (dead : List Nat) (content : Nat → Nat → List Nat) (g : List Fact) : String :=
  let items := (List.range S.fields.length).flatMap fun f =>
    ((List.range W.size).filter fun o => S.applies f (W.clsOf o) && !dead.contains o).map fun o =>
      match S.kindOf f with
      -- admissible values of a single-valued field: the targets of its relations, and what the model's store holds
      -- (a value stored without a relation, F-C15-2, is still the value of the field)
      | .single => s!"{f}.{o}~" ++ "|".intercalate ((hashOrder (targetsOf g f o ++ content f o)).map toString)
      | _ => s!"{f}.{o}=" ++ ",".intercalate ((hashOrder (content f o)).map toString)
  "F[" ++ ";".intercalate items ++ "]"

def inRange (S : Schema) (W : World) (ops : List Op) : Bool :=
  (asserted ops).all fun r => r.1 < S.fields.length && r.2.1 < W.size && r.2.2 < W.size

def run (s : Sexp) : String :=
  match s with
  | .list (.atom "h" :: items) =>
    match parseSchema items, parseWorld items with
    | some S, some W =>
    (match (Sexp.field? items "ops").bind (·.mapM fun x => (parseItem S x).map fun os => os.map fun op => (x, op)) with
    | some pairs =>
      let raws := pairs.flatten.map (·.1)
      let ops := pairs.flatten.map (·.2)
      let dead := killed ((Sexp.field? items "ops").getD [])
      -- an instance that dies takes part in no relation (its fields are empty, nothing refers to it) and plays no role
      let deadOk := dead.all fun o => (asserted ops).all (fun r => r.2.1 != o && r.2.2 != o) && !W.rt.contains (some o)
      if !(inRange S W ops && deadOk && ops.all (·.wellKinded S.kindOf) && W.rt.all (fun r => match r with | some x => x < W.size | none => true))
      then "error=ill-formed-case" else
      let gated := gateOps raws ops
      let out (os : List Op) : String × Bool :=
        let σ := runModel S W os
        (showRels σ.g ++ "|" ++ showFields S W dead (fun f o => σ.st f o) σ.g, σ.clob)
      let cl := closure (schemaRules S W) (fuelFor S W) (asserted ops)
      let spec := if cl.2 then showRels cl.1 ++ "|" ++ showFields S W dead (fun f o => targetsOf cl.1 f o) cl.1
                  else "spec-diverged"
      if truthinessGate then
        let m := out gated
        let trig := (if m.2 then ["F-C15-3"] else []) ++ (if gated != ops then ["F-C15-2"] else [])
        s!"model={m.1}\tspec={spec}\ttrig={",".intercalate trig}\tmodel_fixed={(out ops).1}"
      else
        let m := out ops
        -- F-C15-4: a constructor call of an eq-dataclass instance whose inference compares the half-built instance
        let hitems := (((Sexp.field? items "ops").getD []).flatMap halvesOfItem).zip ops
        let raised := (runModelH true S W (parseEqCls items) hitems).2
        if raised && halfBuiltOpen then
          s!"model=exc:AttributeError\tspec={spec}\ttrig=F-C15-4\tmodel_fixed={m.1}"
        else
          s!"model={m.1}\tspec={spec}\ttrig={if m.2 then "F-C15-3" else ""}\tbefore_fix={(out gated).1}" ++
            (if raised then "\tbefore_half_built_fix=exc:AttributeError" else "")
    | none => "error=bad-case")
    | _, _ => "error=bad-case"
  | _ => "error=bad-case"

end KrroodVerif.Drive.C15
