import KrroodVerif.Sexp
namespace KrroodVerif.Drive.C19
/-- stub: replaced when the model for C19 is built -/
def run (_ : Sexp) : String := "model=unimplemented\tspec=unimplemented\ttrig="
end KrroodVerif.Drive.C19
