import KrroodVerif.Sexp
import KrroodVerif.Model.Json
import KrroodVerif.Drive.JsonIO
/-!
C19 driver. Cases:
* `(resolve TAG (env …))`, `TAG = absent | JSON`: one document `{"__json_type__": TAG}`.
  `model=` `resolve Quirks.current`, `model_fixed=` `resolve Quirks.none`, `spec=` `spec` (`jse*` = any documented
  error), `trig=` the open findings whose trigger the input satisfies.
* `(doc (env …) JSON)`: a whole document with tags at any depth through `fromJson`; the property demands the value
  when every tag resolves and some documented error otherwise.
-/
namespace KrroodVerif.Drive.C19
open KrroodVerif.Json KrroodVerif.Drive.JsonIO

def dedup (xs : List String) : List String := sortStrings (dedupStrings xs)

def run (s : Sexp) : String :=
  match s with
  | .list [.atom "resolve", t, e] =>
    let tag? : Option (Option Json) :=
      match t with | .atom "absent" => some none | _ => (parseJson t).map some
    match tag?, parseEnv e with
    | some tag, some d =>
      if !tagCovered d tag then "error=env-miss"
      else
        let env := d.toEnv
        let q := Quirks.current
        s!"model={showOutcome (resolve q env tag)}\tmodel_fixed={showOutcome (resolve .none env tag)}\tspec={showExpect (spec env tag)}\ttrig={",".intercalate (trigIds q env tag)}"
    | _, _ => "error=bad-case"
  | .list [.atom "doc", e, j] =>
    match parseEnv e, parseJson j with
    | some d, some j =>
      let tags := jsonTags j
      if !tags.all (tagCovered d) then "error=env-miss"
      else
        let env := d.toEnv
        let q := Quirks.current
        let fixed := fromJson .none env j
        let sp := match fixed with
          | .ok v => showVal v
          | .error (.doc _) => "jse*"
          | .error e => showResult (.error e)
        let trig := dedup (tags.flatMap (trigIds q env))
        s!"model={showResult (fromJson q env j)}\tmodel_fixed={showResult fixed}\tspec={sp}\ttrig={",".intercalate trig}"
    | _, _ => "error=bad-case"
  | _ => "error=bad-case"
end KrroodVerif.Drive.C19
