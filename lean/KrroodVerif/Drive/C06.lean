import KrroodVerif.Sexp
import KrroodVerif.Model.OrmGen
/-!
Driver for C06. Case line:

`(m (fut T|F) (ord A B …) (ord2 B A …) (enums E …) (c Name Base|- (field kind arg?) …) …)`

field kinds: `s T` scalar, `o T` Optional scalar, `e E` enum, `oe E` Optional enum, `d` datetime, `od` Optional datetime,
`j T` list of builtins, `r C` reference, `or C` Optional reference, `l C` collection, `cu P` / `ocu P` (Optional) field
of a class `P` that is a key of the `type_mappings` argument (the item `(tm P Q …)` lists all keys, used or not; the
model does not need it; likewise `(ek plain|int|str|strenum …)`, the flavour of each enum class — plain `Enum`,
`IntEnum`, `(str, Enum)`, `StrEnum` — every flavour is an enum for the model and the spec).  Every column is printed as
`name[?|!]:<type class>` (k key, b builtin scalar, e enum, d datetime, j JSON, c custom).  The class list handed to the
model is the `c` entries re-ordered by `ord` (the order given to `ClassDiagram`).
-/
namespace KrroodVerif.Drive.C06
open KrroodVerif.OrmGen

def nm (s : String) : Name := s.toList
def str (n : Name) : String := String.ofList n

def parseScalar : String → Option Scalar
  | "int" => some .int | "float" => some .float | "str" => some .str | "bool" => some .bool | _ => none

def parseField : Sexp → Option Field
  | .list [.atom f, .atom "s", .atom t] => (parseScalar t).map (fun s => ⟨nm f, .scalar s false⟩)
  | .list [.atom f, .atom "o", .atom t] => (parseScalar t).map (fun s => ⟨nm f, .scalar s true⟩)
  | .list [.atom f, .atom "e", .atom _] => some ⟨nm f, .enum false⟩
  | .list [.atom f, .atom "oe", .atom _] => some ⟨nm f, .enum true⟩
  | .list [.atom f, .atom "d"] => some ⟨nm f, .datetime false⟩
  | .list [.atom f, .atom "od"] => some ⟨nm f, .datetime true⟩
  | .list [.atom f, .atom "j", .atom t] => (parseScalar t).map (fun s => ⟨nm f, .jsonList s⟩)
  | .list [.atom f, .atom "r", .atom t] => some ⟨nm f, .ref (nm t) false⟩
  | .list [.atom f, .atom "or", .atom t] => some ⟨nm f, .ref (nm t) true⟩
  | .list [.atom f, .atom "l", .atom t] => some ⟨nm f, .coll (nm t)⟩
  | .list [.atom f, .atom "cu", .atom _] => some ⟨nm f, .custom false⟩
  | .list [.atom f, .atom "ocu", .atom _] => some ⟨nm f, .custom true⟩
  | _ => none

def parseClass : List Sexp → Option Class
  | .atom n :: .atom b :: fs => do
    let fields ← fs.mapM parseField
    pure ⟨nm n, if b == "-" then none else some (nm b), fields⟩
  | _ => none

def parseModel (items : List Sexp) : Option ClassModel := do
  let cs ← (Sexp.fields items "c").mapM parseClass
  match Sexp.field? items "ord" with
  | none => pure cs
  | some ord =>
    let names := ord.filterMap Sexp.asAtom?
    let picked := names.filterMap (fun n => cs.find? (fun c => c.name == nm n))
    if picked.length == cs.length then pure picked else none

def showOpt : Option Name → String | none => "Base" | some b => str b

def showTy : ColTy → String
  | .key => "k" | .builtin => "b" | .enum => "e" | .datetime => "d" | .json => "j" | .custom => "c"

def showCol (c : Name × Option Bool × ColTy) : String :=
  str c.1 ++ (match c.2.1 with | none => "" | some true => "?" | some false => "!") ++ ":" ++ showTy c.2.2

def showObs (o : Obs) : String :=
  let ts := sortStrings (o.tables.map (fun t =>
    s!"{str t.name}({str t.cls})<{showOpt t.base}:" ++ ",".intercalate (sortStrings (t.cols.map showCol))))
  let as := sortStrings (o.assocs.map (fun a => s!"{str a.1}:{str a.2.1}+{str a.2.2}"))
  let rs := sortStrings (o.rels.map (fun r =>
    s!"{str r.1}.{str r.2.1}>{str r.2.2.1}:" ++ (if r.2.2.2.1 then "many" else "one") ++
      (match r.2.2.2.2 with | some s => "@" ++ str s | none => "")))
  let fs := sortStrings (o.fks.map (fun f => s!"{str f.1}.{str f.2.1}>{str f.2.2}"))
  "ok|T[" ++ ";".intercalate ts ++ "]|A[" ++ ";".intercalate as ++ "]|R[" ++ ";".intercalate rs ++
    "]|F[" ++ ";".intercalate fs ++ "]|P[" ++ (if o.polyOk then "ok" else "bad") ++ "]|D[ok]"

/-- what the model predicts one observes of the generated module -/
def showModel (q : Quirks) (m : ClassModel) : String :=
  let s := generate q m
  if decide (Valid s) then showObs (observe s)
  else if s.crashed then "fail:gen"
  else if s.assocs.any (fun a => a.leftFk == a.rightFk) then "fail:import:dupcol"
  else if s.tables.any (fun t => t.pkMods.any (fun x => !s.imports.contains x)) then "fail:import:unresolved"
  else "fail:other"

/-- The quirk setting of the code as it is now. Switch a flag off in the /verif commit that records the repair of the
corresponding defect (F-C06-1 = `sameAssocFkNames`, F-C06-2 = `builtinsOnlyWhenUsed`): `model=` and `trig=` follow. -/
def current : Quirks := ⟨false, false⟩

def run (s : Sexp) : String :=
  match s with
  | .list (.atom "m" :: items) =>
    match parseModel items with
    | none => "error=bad-case"
    | some m =>
      let trig := (if current.sameAssocFkNames && selfCollection m then ["F-C06-1"] else []) ++
        (if current.builtinsOnlyWhenUsed && noBuiltinField m then ["F-C06-2"] else [])
      s!"model={showModel current m}\tspec={showObs (Spec.expected m)}\ttrig={",".intercalate trig}" ++
        s!"\tmodel_fix1={showModel ⟨false, current.builtinsOnlyWhenUsed⟩ m}" ++
        s!"\tmodel_fix2={showModel ⟨current.sameAssocFkNames, false⟩ m}" ++
        s!"\tmodel_fixed={showModel Quirks.none m}\twf={decide (WF m)}"
  | _ => "error=bad-case"
end KrroodVerif.Drive.C06
