import KrroodVerif.Sexp
namespace KrroodVerif.Drive.C06
/-- stub: replaced when the model for C06 is built -/
def run (_ : Sexp) : String := "model=unimplemented\tspec=unimplemented\ttrig="
end KrroodVerif.Drive.C06
