import KrroodVerif.Sexp
import KrroodVerif.Model.SymbolGraph
/-!
Shared by the drivers of C13, C14, C20: the harness's class hierarchy and descriptor schema
(`harness/props/_sg.py`), the history parser, and the run under rustworkx's LIFO node-index allocator with the
most aggressive `id()` recycling (a new instance always gets the smallest id no live instance holds).
-/
namespace KrroodVerif.Drive.SG
open KrroodVerif KrroodVerif.SG

/-- classes: 0 Thing, 1 Org(Thing), 2 Emp(Thing), 3 Mgr(Emp), 4 A(Thing), 5 B(A), 6 C(A), 7 D(B, C),
8 Chair(Role[Emp], Thing) (a role whose role taker is an Emp; its instances are plain instances for the model),
9 Bag(Thing) (defines `__len__`: an instance may be falsy — liveness is about references, not truthiness);
fields: 0 Emp.works_for (WorksFor ⊂ MemberOf), 1 Emp.member_of (MemberOf, inverse Member), 2 Org.members (Member,
inverse MemberOf), 3 Org.sub_of (SubOf, transitive), 4 Thing.knows, 5 Thing.likes (plain dataclass fields) -/
def schema : Schema where
  subs := fun c => match c with
    | 0 => [1, 2, 4, 8, 9] | 2 => [3] | 4 => [5, 6] | 5 => [7] | 6 => [7] | _ => []
  depth := 4
  kind := fun f => match f with
    | 0 => .scalar | 1 => .list | 2 => .set | 3 => .list | _ => .plain
  supers := fun f _ => match f with | 0 => [1] | _ => []
  inverse := fun f _ => match f with | 0 => some 2 | 1 => some 2 | 2 => some 1 | _ => none
  transitive := fun f => f == 3
  desc := fun f => f
  fuel := 64

/-- the hierarchy with the classes a history defines at run time (`(defclass c parent)`: `c` becomes the LAST
direct subclass of `parent`). A class has no instance before it is defined, so running the whole history over the
final hierarchy is the same as extending the hierarchy on the way: a census ranges over the classes that exist when
it is taken. The theorems hold for every `Schema`, this one included. -/
def schemaWith (extra : List (Cls × Cls)) : Schema :=
  { schema with
    subs := fun c => schema.subs c ++ (extra.filter (fun p => p.2 == c)).map (·.1),
    depth := schema.depth + extra.length }

def parseDefs (xs : List Sexp) : List (Cls × Cls) :=
  xs.filterMap fun x => match x with
    | .list [.atom "defclass", c, p] => do pure ((← c.asNat?), (← p.asNat?))
    | _ => none

/-- `(relchurn o n c f t)`: `n` instances of class `c`, labelled `o … o+n-1`, created back to back; each asserts field
`f` towards instance `t` (a descriptor-managed field, or directly for the plain fields 4, 5); all but the LAST are
discarded at once (no gc, no sweep): the last one sits at a recycled address next to dead, unswept, related ones -/
def relchurnOps (o n c f t : Nat) : List Op :=
  (List.range n).flatMap fun i =>
    let a : Op := if f == 4 || f == 5 then .rel f (o + i) t else .set f (o + i) t
    if i + 1 == n then [.new (o + i) c 0, a] else [.new (o + i) c 0, a, .drop (o + i)]

/-- `(churn o n c)`: `n` instances of class `c`, labelled `o … o+n-1`, each created and discarded at once -/
def churnOps (o n c : Nat) : List Op :=
  (List.range n).flatMap fun i => [.new (o + i) c 0, .drop (o + i)]

def parseOp (pos : Nat) : Sexp → Option (List Op)
  | .list [.atom "new", o, c] => do pure [.new (← o.asNat?) (← c.asNat?) 0]
  | .list [.atom "drop", o] => do pure [.drop (← o.asNat?)]
  | .list [.atom "sweep"] => some [.sweep]
  | .list [.atom "defclass", _, _] => some []
  | .list [.atom "qstart", _, _] => some []
  | .list [.atom "qnext", _] => some []
  | .list [.atom "churn", o, n, c] => do pure (churnOps (← o.asNat?) (← n.asNat?) (← c.asNat?))
  | .list [.atom "relchurn", o, n, c, f, t] => do
      pure (relchurnOps (← o.asNat?) (← n.asNat?) (← c.asNat?) (← f.asNat?) (← t.asNat?))
  -- the content of a Bag (its truthiness) means nothing to the registry
  | .list [.atom "fill", _] => some []
  | .list [.atom "empty", _] => some []
  -- a role instance (class 8) is a plain instance for the model; the role-taker inference of `head_of` is not
  -- modelled: these operations only occur in query-free C20 loops, where what they record cannot be observed
  | .list [.atom "newrole", o, _] => do pure [.new (← o.asNat?) 8 0]
  | .list [.atom "head", _, _] => some []
  | .list [.atom "clear"] => some [.clear]
  | .list [.atom "rel", f, s, t] => do pure [.rel (← f.asNat?) (← s.asNat?) (← t.asNat?)]
  | .list [.atom "set", f, s, t] => do pure [.set (← f.asNat?) (← s.asNat?) (← t.asNat?)]
  | .list [.atom "mkq", k, c] => do pure [.mkq (← k.asNat?) (← c.asNat?) none]
  | .list (.atom "mkqd" :: k :: c :: dom) => do
      pure [.mkq (← k.asNat?) (← c.asNat?) (some (← dom.mapM Sexp.asNat?))]
  | .list [.atom "evalq", k] => do pure [.evalq (← k.asNat?)]
  | .list [.atom "dropq", k] => do pure [.dropq (← k.asNat?)]
  | .list [.atom "query", c] => do
      let c ← c.asNat?
      pure [.mkq (100000 + pos) c none, .evalq (100000 + pos), .dropq (100000 + pos)]
  | .list (.atom "queryd" :: c :: dom) => do
      let c ← c.asNat?
      pure [.mkq (100000 + pos) c (some (← dom.mapM Sexp.asNat?)), .evalq (100000 + pos), .dropq (100000 + pos)]
  | _ => none

def parseOps (xs : List Sexp) : Option (List Op) :=
  let rec go (pos : Nat) : List Sexp → Option (List Op)
    | [] => some []
    | x :: r => do
      let a ← parseOp pos x
      let b ← go (pos + 1) r
      pure (a ++ b)
  go 0 xs

/-- smallest id no live instance holds -/
def nextPid (h : Heap) : Nat :=
  let used := h.live.map (·.pid)
  (List.range (used.length + 1)).find? (fun i => !used.contains i) |>.getD used.length

/-- every `new` gets its `id()` at the moment it runs -/
def fill (h : Heap) : Op → Op
  | .new o c _ => .new o c (nextPid h)
  | op => op

abbrev DSt := St (List Nat × Nat)

def stepS (S : Schema) (q : Quirks) (st : DSt) (op : Op) : DSt := step q S lifo st (fill st.h op)
def runFromS (S : Schema) (q : Quirks) (st : DSt) (ops : List Op) : DSt := ops.foldl (stepS S q) st
def runS (S : Schema) (q : Quirks) (ops : List Op) : DSt := runFromS S q (St.init lifo) ops

def specStepS (S : Schema) (q : Quirks) (s : Spec) (op : Op) : Spec := specStep q S s (fill s.h op)
def specRunS (S : Schema) (q : Quirks) (ops : List Op) : Spec := ops.foldl (specStepS S q) Spec.init

def stepD (q : Quirks) (st : DSt) (op : Op) : DSt := stepS schema q st op
def runFrom (q : Quirks) (st : DSt) (ops : List Op) : DSt := runFromS schema q st ops
def runD (q : Quirks) (ops : List Op) : DSt := runS schema q ops

def specStepD (q : Quirks) (s : Spec) (op : Op) : Spec := specStepS schema q s op
def specFrom (q : Quirks) (s : Spec) (ops : List Op) : Spec := ops.foldl (specStepD q) s
def specRunD (q : Quirks) (ops : List Op) : Spec := specRunS schema q ops

/-! canonical printing -/

def insNat (x : Nat) : List Nat → List Nat
  | [] => [x]
  | y :: ys => if x ≤ y then x :: y :: ys else y :: insNat x ys
def sortNat (l : List Nat) : List Nat := l.foldr insNat []

def showNats (l : List Nat) : String := showList (l.map toString)

def lt3 (a b : Nat × Nat × Nat) : Bool :=
  a.1 < b.1 || (a.1 == b.1 && (a.2.1 < b.2.1 || (a.2.1 == b.2.1 && a.2.2 ≤ b.2.2)))
def ins3 (x : Nat × Nat × Nat) : List (Nat × Nat × Nat) → List (Nat × Nat × Nat)
  | [] => [x]
  | y :: ys => if lt3 x y then x :: y :: ys else y :: ins3 x ys
def sort3 (l : List (Nat × Nat × Nat)) : List (Nat × Nat × Nat) := l.foldr ins3 []

def show3 (l : List (Nat × Nat × Nat)) : String :=
  showList ((sort3 l).map fun t => s!"{t.1}:{t.2.1}>{t.2.2}")

def joinTrig (xs : List (Bool × String)) : String :=
  ",".intercalate ((xs.filter (·.1)).map (·.2))

end KrroodVerif.Drive.SG
