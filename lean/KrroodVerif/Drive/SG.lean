import KrroodVerif.Sexp
import KrroodVerif.Model.SymbolGraph
import KrroodVerif.Model.SymbolGraphStep
/-!
Shared by the drivers of C13, C14, C20: the harness's class hierarchy and descriptor schema
(`harness/props/_sg.py`), the history parser, and the run under rustworkx's LIFO node-index allocator with the
most aggressive `id()` recycling (a new instance always gets the smallest id no live instance holds).
-/
namespace KrroodVerif.Drive.SG
open KrroodVerif KrroodVerif.SG

/-- classes: 0 Thing, 1 Org(Thing), 2 Emp(Thing), 3 Mgr(Emp), 4 A(Thing), 5 B(A), 6 C(A), 7 D(B, C),
8 Chair(Role[Emp], Thing) (a role; its role taker is an Emp), 9 Bag(Thing) (defines `__len__`: an instance may be
falsy — liveness is about references, not truthiness), 10 Rec(Symbol), 11 RecSub(Rec), 12 Holder(Symbol) (holds a
Rec; these three live in a module of their own with a generated ORM interface);
fields: 0 Emp.works_for (WorksFor ⊂ MemberOf), 1 Emp.member_of (MemberOf, inverse Member), 2 Org.members (Member,
inverse MemberOf), 3 Org.sub_of (SubOf, transitive), 4 Thing.knows, 5 Thing.likes (plain dataclass fields),
6 Chair.head_of (HeadOf ⊂ WorksFor: inverse Member on the Org; its super-properties live on the role taker),
7 Chair.manages (Manages ⊂ Employer, no inverse), 8 Emp.employer (Employer), 9 a strong reference that is no relation
(Chair.emp, Holder.item, the harness's `attach`), 10 Org.children (ParentOf, a LIST, inverse ChildOf), 11 Org.parent (ChildOf, a
SCALAR, inverse ParentOf): `p.children.append(c)` infers `c.parent = p` and OVERWRITES the parent `c` had — a container
field whose inference writes a scalar field. Role structure (all of it in the proven model, `Model/SymbolGraph.lean`):
`Chair.emp` (field 9) is the role-taker field of class 8; the fields of the role-taker type Emp managed by
super-properties of HeadOf are works_for, member_of (in that order), of Manages: employer; `Member`'s inverse `MemberOf`
has no field on a Chair, so the inverse of `members(org → chair)` is looked up on the chair's role taker: member_of. -/
def schema : Schema where
  subs := fun c => match c with
    | 0 => [1, 2, 4, 8, 9] | 2 => [3] | 4 => [5, 6] | 5 => [7] | 6 => [7] | 10 => [11] | _ => []
  depth := 4
  kind := fun f => match f with
    | 0 => .scalar | 1 => .list | 2 => .set | 3 => .list | 6 => .scalar | 7 => .scalar | 8 => .scalar
    | 10 => .list | 11 => .scalar | _ => .plain
  supers := fun f _ => match f with | 0 => [1] | _ => []
  inverse := fun f c => match f with
    | 0 => some 2 | 1 => some 2 | 2 => if c == 8 then none else some 1 | 6 => some 2
    | 10 => some 11 | 11 => some 10 | _ => none
  transitive := fun f => f == 3
  desc := fun f => f
  fuel := 64
  takerFld := fun c => if c == 8 then some 9 else none
  takerSupers := fun f c => if c == 8 then (if f == 6 then [0, 1] else if f == 7 then [8] else []) else []
  takerInverse := fun f c => if c == 8 && f == 2 then some 1 else none

/-- the hierarchy with the classes a history defines at run time (`(defclass c parent)`: `c` becomes the LAST
direct subclass of `parent`). A class has no instance before it is defined, so running the whole history over the
final hierarchy is the same as extending the hierarchy on the way: a census ranges over the classes that exist when
it is taken. The theorems hold for every `Schema`, this one included. -/
def schemaWith (extra : List (Cls × Cls)) : Schema :=
  { schema with
    subs := fun c => schema.subs c ++ (extra.filter (fun p => p.2 == c)).map (·.1),
    depth := schema.depth + extra.length }

def parseDefs (xs : List Sexp) : List (Cls × Cls) :=
  xs.filterMap fun x => match x with
    | .list [.atom "defclass", c, p] => do pure ((← c.asNat?), (← p.asNat?))
    -- `(defclassn c p n)`: the same, the Python class is called `Same<n>` (several classes may share that name; for
    -- the model a class is its number)
    | .list [.atom "defclassn", c, p, _] => do pure ((← c.asNat?), (← p.asNat?))
    | _ => none

/-- `(relchurn o n c f t)`: `n` instances of class `c`, labelled `o … o+n-1`, created back to back; each asserts field
`f` towards instance `t` (a descriptor-managed field, or directly for the plain fields 4, 5); all but the LAST are
discarded at once (no gc, no sweep): the last one sits at a recycled address next to dead, unswept, related ones -/
def relchurnOps (o n c f t : Nat) : List Op :=
  (List.range n).flatMap fun i =>
    let a : Op := if f == 4 || f == 5 then .rel f (o + i) t else .set f (o + i) t
    if i + 1 == n then [.new (o + i) c 0, a] else [.new (o + i) c 0, a, .drop (o + i)]

/-- `(churn o n c)`: `n` instances of class `c`, labelled `o … o+n-1`, each created and discarded at once -/
def churnOps (o n c : Nat) : List Op :=
  (List.range n).flatMap fun i => [.new (o + i) c 0, .drop (o + i)]

def parseOp (pos : Nat) : Sexp → Option (List Op)
  | .list [.atom "new", o, c] => do pure [.new (← o.asNat?) (← c.asNat?) 0]
  | .list [.atom "drop", o] => do pure [.drop (← o.asNat?)]
  | .list [.atom "sweep"] => some [.sweep]
  | .list [.atom "defclass", _, _] => some []
  | .list [.atom "defclassn", _, _, _] => some []
  | .list [.atom "qstart", _, _] => some []
  | .list [.atom "qnext", _] => some []
  | .list [.atom "churn", o, n, c] => do pure (churnOps (← o.asNat?) (← n.asNat?) (← c.asNat?))
  | .list [.atom "relchurn", o, n, c, f, t] => do
      pure (relchurnOps (← o.asNat?) (← n.asNat?) (← c.asNat?) (← f.asNat?) (← t.asNat?))
  -- the content of a Bag (its truthiness) means nothing to the registry
  | .list [.atom "fill", _] => some []
  | .list [.atom "empty", _] => some []
  | .list [.atom "clear"] => some [.clear]
  | .list [.atom "rel", f, s, t] => do pure [.rel (← f.asNat?) (← s.asNat?) (← t.asNat?)]
  | .list [.atom "set", f, s, t] => do pure [.set (← f.asNat?) (← s.asNat?) (← t.asNat?)]
  | .list [.atom "mkq", k, c] => do pure [.mkq (← k.asNat?) (← c.asNat?) none]
  | .list (.atom "mkqd" :: k :: c :: dom) => do
      pure [.mkq (← k.asNat?) (← c.asNat?) (some (← dom.mapM Sexp.asNat?))]
  | .list [.atom "evalq", k] => do pure [.evalq (← k.asNat?)]
  | .list [.atom "dropq", k] => do pure [.dropq (← k.asNat?)]
  | .list [.atom "query", c] => do
      let c ← c.asNat?
      pure [.mkq (100000 + pos) c none, .evalq (100000 + pos), .dropq (100000 + pos)]
  -- an evaluation that ends abnormally (`the(...)` raising, handled) or is abandoned after its first result: for the
  -- registry an evaluation like any other — it sweeps when it starts to run, and nothing of it is left afterwards
  | .list [.atom "qfail", c] => do
      let c ← c.asNat?
      pure [.mkq (100000 + pos) c none, .evalq (100000 + pos), .dropq (100000 + pos)]
  | .list [.atom "qabandon", c] => do
      let c ← c.asNat?
      pure [.mkq (100000 + pos) c none, .evalq (100000 + pos), .dropq (100000 + pos)]
  | .list (.atom "queryd" :: c :: dom) => do
      let c ← c.asNat?
      pure [.mkq (100000 + pos) c (some (← dom.mapM Sexp.asNat?)), .evalq (100000 + pos), .dropq (100000 + pos)]
  | _ => none

def parseOps (xs : List Sexp) : Option (List Op) :=
  let rec go (pos : Nat) : List Sexp → Option (List Op)
    | [] => some []
    | x :: r => do
      let a ← parseOp pos x
      let b ← go (pos + 1) r
      pure (a ++ b)
  go 0 xs

/-- smallest id no live instance holds -/
def nextPid (h : Heap) : Nat :=
  let used := h.live.map (·.pid)
  (List.range (used.length + 1)).find? (fun i => !used.contains i) |>.getD used.length

/-- every `new` gets its `id()` at the moment it runs -/
def fill (h : Heap) : Op → Op
  | .new o c _ => .new o c (nextPid h)
  | .newrole o c _ e => .newrole o c (nextPid h) e
  | op => op

abbrev DSt := St (List Nat × Nat)

/-- The repaired code (F-C13-1, fix in /repo): evaluating a query object over `let(T, None)` AGAIN reads the registry anew —
`evaluate()` first lets the variable drop the domain of the earlier evaluation (the instances it alone kept alive die), then
sweeps, then walks the registry. In the model's own operations that is `dropq k; mkq k T none; evalq k` (release the
variable's cache and collect; a variable without cache; evaluate), so no definition of `Model/SymbolGraph.lean` changes and
every theorem — all of them quantify over every history — covers the expanded history. With `cachedDomain` on (the code
before the repair) and for explicit domains the operation is the model's `evalq` itself. -/
def reevalOps (h : Heap) (q : Quirks) (op : Op) : List Op :=
  match op with
  | .evalq k =>
    match h.qvars.find? (fun v => v.key == k) with
    | some v =>
      if !q.cachedDomain && !v.explicit && v.cache.isSome && v.held then [.dropq k, .mkq k v.cls none, .evalq k]
      else [op]
    | none => [op]
  | _ => [op]

def stepS (S : Schema) (q : Quirks) (st : DSt) (op : Op) : DSt :=
  (reevalOps st.h q op).foldl (fun st op => step q S lifo st (fill st.h op)) st
def runFromS (S : Schema) (q : Quirks) (st : DSt) (ops : List Op) : DSt := ops.foldl (stepS S q) st
def runS (S : Schema) (q : Quirks) (ops : List Op) : DSt := runFromS S q (St.init lifo) ops

def specStepS (S : Schema) (q : Quirks) (s : Spec) (op : Op) : Spec :=
  (reevalOps s.h q op).foldl (fun s op => specStep q S s (fill s.h op)) s
def specRunS (S : Schema) (q : Quirks) (ops : List Op) : Spec := ops.foldl (specStepS S q) Spec.init

def stepD (q : Quirks) (st : DSt) (op : Op) : DSt := stepS schema q st op
def runFrom (q : Quirks) (st : DSt) (ops : List Op) : DSt := runFromS schema q st ops
def runD (q : Quirks) (ops : List Op) : DSt := runS schema q ops

def specStepD (q : Quirks) (s : Spec) (op : Op) : Spec := specStepS schema q s op
def specFrom (q : Quirks) (s : Spec) (ops : List Op) : Spec := ops.foldl (specStepD q) s
def specRunD (q : Quirks) (ops : List Op) : Spec := specRunS schema q ops

/-! ### operations that are not operations of the proven model (driver level)

They are interpreted on top of `SG.step` / `specStep`: each is a short program of model operations plus, where a strong
reference is involved that is no relation (field 9), an edit of the heap's field entries.
* `attach r o` / `detach r`: `root.knows.append(o)` / `root.knows.clear()`.
* `newrole o e` / `head o g` / `manage o g` of the case language are operations of the PROVEN model: `Op.newrole o 8 _ e`
  (`Chair(o, emp=e)`) and `Op.set 6 o g` / `Op.set 7 o g` (`chair.head_of = g` / `chair.manages = g`; the inference
  through the role taker is part of `SG.addFact`).
* `newholder o r`: `Holder(o, item=r)`.  `clone o s deep`: a new instance made from the live instance `s` by one of
  the library's / Python's creation paths (copy, deepcopy, pickle, `to_dao(..).from_dao()`): for the registry just a new
  instance of the class of `s`; a Holder's item is shared (shallow) or re-created with label `o + 1` (deep). -/
inductive XOp where
  | m (op : Op)
  | attach (r o : Nat)
  | detach (r : Nat)
  | newholder (o r : Nat)
  | clone (o s : Nat) (deep : Bool)
  /-- `new = C(o, f=donor.f)`: a new instance of the donor's class constructed with the donor's CONTAINER for the managed
  field `f` (what `dataclasses.replace` does); the setter re-adds every item for the new owner; the harness then drops the
  donor. The container is shared with the donor as long as the donor lives — that aliasing is not modelled: when the
  donor survives the drop, model and harness both answer `skip` (a marker in the ghost log `out`). -/
  | adopt (o s : Nat) (f : Fld)
  /-- `s.f.remove(t)` / `del s.f[i]` / `s.f.pop(i)` (`i` the position of the first occurrence of `t`) on the managed LIST
  field `f`: list operations `MonitoredList` inherits unchanged, so the container is not told and the relation stays in the
  graph; only the field content loses one occurrence of `t`, then a collection. An item that inference put into the list is
  ALSO held by the container's `_inferred_items` (a strong reference that is no field content, kept as long as the owner
  lives): when the last occurrence of such an item leaves the list, the owner still refers to it (field 9, the model's
  strong reference that is no relation). "Put there by inference" is read off the state: the relation `f(s, t)` was first
  recorded by inference (its edge is flagged `inferred`; the edge stays while both ends live — histories with `clear` are
  not generated together with this operation). -/
  | unlist (f : Fld) (s t : Obj)

/-- key of the marker "a container is shared by two live instances" in the ghost log -/
def aliasMark : Nat := 999999
def aliased (h : Heap) : Bool := h.out.any (fun o => o.key == aliasMark)

def addRef (h : Heap) (a b : Obj) : Heap := { h with fields := h.fields ++ [⟨a, 9, b⟩] }
def refOf (h : Heap) (a : Obj) : Option Obj := (h.fields.find? (fun e => e.owner == a && e.fld == 9)).map (·.val)

/-- the field contents after one occurrence of `t` left the list field `f` of `s` (`none`: there is none) -/
def unlistFields (S : Schema) (fields : List FEntry) (inferredFirst : Bool) (f : Fld) (s t : Obj) : Option (List FEntry) :=
  if S.kind f != Kind.list then none
  else if !fields.contains ⟨s, f, t⟩ then none
  else
    let fs := fields.erase ⟨s, f, t⟩
    if inferredFirst && !fs.contains ⟨s, f, t⟩ && !fs.contains ⟨s, 9, t⟩ then some (fs ++ [⟨s, 9, t⟩]) else some fs

def stepXS' (S : Schema) (q : Quirks) (st : DSt) : XOp → DSt
  | .m op => stepS S q st op
  | .unlist f s t =>
    if st.err then st else
    let inf := st.g.edges.any (fun e => e.fld == f && e.src.obj == s && e.tgt.obj == t && e.inferred)
    match unlistFields S st.h.fields inf f s t with
    | none => st
    | some fs => { st with h := ({ st.h with fields := fs }).collect q }
  | .attach r o =>
    if st.err || !(st.h.isLive r && st.h.isLive o) then st
    else { st with h := { st.h with fields := st.h.fields ++ [⟨r, 4, o⟩] } }
  | .detach r =>
    if st.err then st
    else { st with h := { st.h with fields := st.h.fields.filter (fun e => !(e.owner == r && e.fld == 4)) } }
  | .newholder o r =>
    if st.err || !st.h.isLive r || st.h.used.contains o then st
    else let st := stepS S q st (.new o 12 0); { st with h := addRef st.h o r }
  | .clone o s deep =>
    if st.err || st.h.used.contains o then st else
    match st.h.find s with
    | none => st
    | some x =>
      let st := stepS S q st (.new o x.cls 0)
      if x.cls == 12 then
        match refOf st.h s with
        | some r =>
          if deep then
            match st.h.find r with
            | some y => let st := stepS S q st (.new (o + 1) y.cls 0)
                        -- the user holds the holder only
                        let st := { st with h := { st.h with held := st.h.held.filter (· != o + 1) } }
                        { st with h := addRef st.h o (o + 1) }
            | none => st
          else { st with h := addRef st.h o r }
        | none => st
      else st

  | .adopt o s f =>
    if st.err || st.h.used.contains o then st else
    match st.h.find s with
    | none => st
    | some x =>
      let items := (st.h.fields.filter (fun e => e.owner == s && e.fld == f)).map (·.val)
      let st := stepS S q st (.new o x.cls 0)
      let st := items.foldl (fun st t => stepS S q st (.set f o t)) st
      let st := stepS S q st (.drop s)
      if st.err || !st.h.isLive s then st else { st with h := { st.h with out := st.h.out ++ [⟨aliasMark, [], []⟩] } }

def runXS (S : Schema) (q : Quirks) (st : DSt) (ops : List XOp) : DSt := ops.foldl (stepXS' S q) st

def specStepX (S : Schema) (q : Quirks) (s : Spec) : XOp → Spec
  | .m op => specStepS S q s op
  | .unlist f a b =>
    let inf := s.edges.any (fun e => e.fld == f && e.src.obj == a && e.tgt.obj == b && e.inferred)
    match unlistFields S s.h.fields inf f a b with
    | none => s
    | some fs => ({ s with h := ({ s.h with fields := fs }).collect q }).prune
  | .attach r o =>
    if !(s.h.isLive r && s.h.isLive o) then s
    else { s with h := { s.h with fields := s.h.fields ++ [⟨r, 4, o⟩] } }
  | .detach r => { s with h := { s.h with fields := s.h.fields.filter (fun e => !(e.owner == r && e.fld == 4)) } }
  | .newholder o r =>
    if !s.h.isLive r || s.h.used.contains o then s
    else let s := specStepS S q s (.new o 12 0); { s with h := addRef s.h o r }
  | .clone o t deep =>
    if s.h.used.contains o then s else
    match s.h.find t with
    | none => s
    | some x =>
      let s := specStepS S q s (.new o x.cls 0)
      if x.cls == 12 then
        match refOf s.h t with
        | some r =>
          if deep then
            match s.h.find r with
            | some y => let s := specStepS S q s (.new (o + 1) y.cls 0)
                        let s := { s with h := { s.h with held := s.h.held.filter (· != o + 1) } }
                        { s with h := addRef s.h o (o + 1) }
            | none => s
          else { s with h := addRef s.h o r }
        | none => s
      else s

  | .adopt o t f =>
    if s.h.used.contains o then s else
    match s.h.find t with
    | none => s
    | some x =>
      let items := (s.h.fields.filter (fun e => e.owner == t && e.fld == f)).map (·.val)
      let s := specStepS S q s (.new o x.cls 0)
      let s := items.foldl (fun s v => specStepS S q s (.set f o v)) s
      let s := specStepS S q s (.drop t)
      if !s.h.isLive t then s else { s with h := { s.h with out := s.h.out ++ [⟨aliasMark, [], []⟩] } }

def specRunX (S : Schema) (q : Quirks) (ops : List XOp) : Spec := ops.foldl (specStepX S q) Spec.init

def parseXOne (pos : Nat) (x : Sexp) : Option (List XOp) :=
  match x with
  | .list [.atom "attach", r, o] => do pure [XOp.attach (← r.asNat?) (← o.asNat?)]
  | .list [.atom "detach", r] => do pure [XOp.detach (← r.asNat?)]
  | .list [.atom "newrole", o, e] => do pure [XOp.m (.newrole (← o.asNat?) 8 0 (← e.asNat?))]
  | .list [.atom "head", o, g] => do pure [XOp.m (.set 6 (← o.asNat?) (← g.asNat?))]
  | .list [.atom "manage", o, g] => do pure [XOp.m (.set 7 (← o.asNat?) (← g.asNat?))]
  | .list [.atom "lrm", f, s, t] => do pure [XOp.unlist (← f.asNat?) (← s.asNat?) (← t.asNat?)]
  | .list [.atom "ldel", f, s, t] => do pure [XOp.unlist (← f.asNat?) (← s.asNat?) (← t.asNat?)]
  | .list [.atom "lpop", f, s, t] => do pure [XOp.unlist (← f.asNat?) (← s.asNat?) (← t.asNat?)]
  | .list [.atom "newholder", o, r] => do pure [XOp.newholder (← o.asNat?) (← r.asNat?)]
  | .list [.atom "adopt", o, s, f] => do pure [XOp.adopt (← o.asNat?) (← s.asNat?) (← f.asNat?)]
  | .list [.atom "clone", o, s, .atom how] => do
      pure [XOp.clone (← o.asNat?) (← s.asNat?) (how != "copy")]
  -- a query over the long-lived type that reaches the transient instances through `flatten(root.knows)`:
  -- only the variable over the roots has a domain (and a cached domain)
  | .list [.atom "queryf", c] => do
      let c ← c.asNat?
      pure ([Op.mkq (100000 + pos) c none, .evalq (100000 + pos), .dropq (100000 + pos)].map XOp.m)
  | .list (.atom "queryfd" :: c :: dom) => do
      let c ← c.asNat?
      pure ([Op.mkq (100000 + pos) c (some (← dom.mapM Sexp.asNat?)), .evalq (100000 + pos),
        .dropq (100000 + pos)].map XOp.m)
  | _ => do pure ((← parseOp pos x).map XOp.m)

def parseX (xs : List Sexp) : Option (List XOp) :=
  let rec go (pos : Nat) : List Sexp → Option (List XOp)
    | [] => some []
    | x :: r => do
      let a ← parseXOne pos x
      let b ← go (pos + 1) r
      pure (a ++ b)
  go 0 xs

/-! ### stepwise (lazily consumed) evaluations — shared by C13 and C20

The walk itself is model level: `Model/SymbolGraphStep.lean` (`Iter`, `iterKey`, `setCache`, `Iter.begin`, `Iter.pull`,
`advance`, `SRun`), the definitions `Props/C13Step.lean` proves `C13_stepwise_*` about. Here only the instance for the
driver's allocator. (`Sfinal` is kept for the callers: the sweep of the first `next()` does not read the hierarchy.) -/

def advance (q : Quirks) (snap skipDead : Bool) (S : Schema) (_Sfinal : Schema) (st : DSt) (it : Iter) : DSt × Iter :=
  _root_.KrroodVerif.SG.advance q snap skipDead S lifo st it

/-! canonical printing -/

def insNat (x : Nat) : List Nat → List Nat
  | [] => [x]
  | y :: ys => if x ≤ y then x :: y :: ys else y :: insNat x ys
def sortNat (l : List Nat) : List Nat := l.foldr insNat []

def showNats (l : List Nat) : String := showList (l.map toString)

def lt3 (a b : Nat × Nat × Nat) : Bool :=
  a.1 < b.1 || (a.1 == b.1 && (a.2.1 < b.2.1 || (a.2.1 == b.2.1 && a.2.2 ≤ b.2.2)))
def ins3 (x : Nat × Nat × Nat) : List (Nat × Nat × Nat) → List (Nat × Nat × Nat)
  | [] => [x]
  | y :: ys => if lt3 x y then x :: y :: ys else y :: ins3 x ys
def sort3 (l : List (Nat × Nat × Nat)) : List (Nat × Nat × Nat) := l.foldr ins3 []

def show3 (l : List (Nat × Nat × Nat)) : String :=
  showList ((sort3 l).map fun t => s!"{t.1}:{t.2.1}>{t.2.2}")

def joinTrig (xs : List (Bool × String)) : String :=
  ",".intercalate ((xs.filter (·.1)).map (·.2))

end KrroodVerif.Drive.SG
