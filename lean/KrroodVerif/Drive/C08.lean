import KrroodVerif.Sexp
namespace KrroodVerif.Drive.C08
/-- stub: replaced when the model for C08 is built -/
def run (_ : Sexp) : String := "model=unimplemented\tspec=unimplemented\ttrig="
end KrroodVerif.Drive.C08
