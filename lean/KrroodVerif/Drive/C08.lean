import KrroodVerif.Sexp
import KrroodVerif.Model.Rule
/-!
Driver for C08. Case line:

`(prog (dom d₁ … dₙ) (root (h e…) (c k…) <kid>…))` with `<kid> ::= (ref|alt|next (h e…) (c k…) <kid>…)`

`h` = the domain elements for which the block's condition holds, `c` = the classes of the `Add` conclusions
written in the block, kids in textual order. At the top level of `root` two more items may stand between the
kids (multi-step authoring): `(reenter)` — the `with rule:` block is closed and `with rule:` is opened again —
and `(here)` — the base rule's `Add` statements are written at this point (default: first).

Two rule variables: `(prog (dom d…) (domy e…) (root …))`; a block's condition is then `(h e…)` (on `x`) or
`(r (x y)…)` (the pairs for which `in_(x, y.r)` holds; evaluating it with `y` unbound enumerates `domy`); classes
numbered ≥ 1000 are constructed from `x` and `y`, their rows read `class:x.y`.

Output: `model=` builder + evaluator as the code is (`Quirks.today`: repaired surgery, conclusions de-duplicated
once by the outermost selector, a Next evaluates its right side from the incoming bindings), `model_fixed=` the same
from the two-variable definitions, `spec=` the ripple-down rules interpreter `fire` over the domain, `trig=` the open findings whose
decidable trigger the program satisfies, `legacy=` what the code did before the fixes of F-C08-1/2/3.

Rows are `class:element`, sorted, de-duplicated (the property's observation is a set); `a|b:element` = one of the
classes a, b (two conclusions in one Python `set`).
-/
namespace KrroodVerif.Drive.C08
open KrroodVerif.Rdr

def nats (xs : List Sexp) : Option (List Nat) := xs.mapM Sexp.asNat?

/-- payload row of a block: its `Block` and, for a condition relating `x` and `y`, the pairs for which it holds -/
abbrev Row := Block × Option (List (Nat × Nat))

def pairs (xs : List Sexp) : Option (List (Nat × Nat)) :=
  xs.mapM fun s => match s with
    | .list [a, b] => do pure ((← a.asNat?), (← b.asNat?))
    | _ => none

/-- `(h e…)` — condition on `x`; `(r (x y)…)` — condition relating `x` and `y` -/
def parseCond : Sexp → Option (List Nat × Option (List (Nat × Nat)))
  | .list (.atom "h" :: hs) => do pure ((← nats hs), none)
  | .list (.atom "r" :: ps) => do pure ([], some (← pairs ps))
  | _ => none

def parseKind : String → Option Kind
  | "ref" => some .ref | "alt" => some .alt | "next" => some .next | _ => none

-- parse a block; blocks are numbered in textual (pre-)order; returns the skeleton and the payload rows
mutual
partial def parseBlock (items : List Sexp) (acc : Array Row) : Option (Prog × Array Row) :=
  match items with
  | cnd :: .list (.atom "c" :: cs) :: kids => do
    let (h, rel) ← parseCond cnd
    let c ← nats cs
    let b := acc.size
    let (k, acc) ← parseKids kids (acc.push ({ cond := h, concl := c }, rel))
    pure (.mk b k, acc)
  | _ => none
partial def parseKids (items : List Sexp) (acc : Array Row) : Option (Kids × Array Row) :=
  match items with
  | [] => some (.nil, acc)
  | .list (.atom k :: body) :: rest => do
    let kd ← parseKind k
    let (p, acc) ← parseBlock body acc
    let (r, acc) ← parseKids rest acc
    pure (.cons kd p r, acc)
  | _ => none
end

/-- the top level of `root`: kids, `(reenter)`, `(here)`; blocks numbered in textual order from 1 -/
partial def parseItems (items : List Sexp) (acc : Array Row) : Option (List Item × Array Row) :=
  match items with
  | [] => some ([], acc)
  | .list [.atom "reenter"] :: rest => do
    let (r, acc) ← parseItems rest acc
    pure (Item.reenter :: r, acc)
  | .list [.atom "here"] :: rest => do
    let (r, acc) ← parseItems rest acc
    pure (Item.add :: r, acc)
  | .list (.atom k :: body) :: rest => do
    let kd ← parseKind k
    let (p, acc) ← parseBlock body acc
    let (r, acc) ← parseItems rest acc
    pure (Item.kid kd p :: r, acc)
  | _ => none

def parseRoot (items : List Sexp) : Option (Authored × Array Row) :=
  match items with
  | cnd :: .list (.atom "c" :: cs) :: rest => do
    let (h, rel) ← parseCond cnd
    let c ← nats cs
    let (its, acc) ← parseItems rest #[({ cond := h, concl := c }, rel)]
    let nAdd := (its.filter fun i => match i with | .add => true | _ => false).length
    if nAdd == 0 then pure (⟨0, Item.add :: its⟩, acc)
    else if nAdd == 1 then pure (⟨0, its⟩, acc)
    else none
  | _ => none

def pad (n : Nat) : String := let s := toString n; "".pushn '0' (4 - s.length) ++ s

def showRow (r : List Nat × Nat) : String :=
  "|".intercalate (sortStrings (r.1.map pad)) ++ ":" ++ toString r.2

def showRows (rs : List (List Nat × Nat)) : String :=
  showList (dedupStrings (sortStrings (rs.map showRow)))

def showObs : Obs → String
  | .ok rows => showRows rows
  | .raised => "exc:construction"
  | .cyclic => "exc:RecursionError"
  | .mismatch => "internal:evalT-vs-evalK"

def showBnd (b : Bnd) : String :=
  match b.2 with
  | some y => s!"{b.1}.{y}"
  | none => toString b.1

/-- one result over two variables: every candidate class with the constructor arguments it would show -/
def showRow2 (r : List Nat × Bnd) : String :=
  "|".intercalate (sortStrings (r.1.map fun c => pad c ++ ":" ++ showBnd (rowOf c r.2).2))

def showRows2 (rs : List (List Nat × Bnd)) : String :=
  showList (dedupStrings (sortStrings (rs.map showRow2)))

def showObs2 : Obs2 → String
  | .ok rows => showRows2 rows
  | .raised => "exc:construction"
  | .cyclic => "exc:RecursionError"
  | .mismatch => "internal:evalT-vs-evalK"

/-- a one-variable observation as a two-variable one (for the cross-check) -/
def liftObs : Obs → Obs2
  | .ok rows => .ok (rows.map fun r => (r.1, (r.2, none)))
  | .raised => .raised
  | .cyclic => .cyclic
  | .mismatch => .mismatch

/-- the quirk setting of the code as it is: F-C08-1/2/3 are fixed (5ccefb5, 6d59379, f11669e) -/
def current : Quirks := Quirks.today
/-- F-C08-4 (fixed, db1eb2f): a Next evaluates its right side from the incoming bindings only (before, a
false left result's bindings — including a `y` only the failed rule bound — were handed to it) -/
def currentLeak : Bool := false

/-- one case: `domY = none` — the payload never mentions `y` -/
def runCase (dom : List Nat) (domY : Option (List Nat)) (a : Authored) (rows : Array Row) : String :=
  let pay := Payload.ofList (rows.toList.map (·.1))
  let rels := rows.toList.map (·.2)
  let twoVar := rels.any Option.isSome
  let r2 := Rel2.ofList (domY.getD []) rels
  let p := a.toProg
  -- the one-variable definitions (the ones the theorems are about) whenever the payload allows; the two-variable
  -- ones otherwise, and as a cross-check
  let obs := fun (q : Quirks) (leak : Bool) =>
    let o2 := showObs2 (modelA2 q leak pay r2 a dom)
    if twoVar then o2
    else
      let m1 := modelA q pay a dom
      if showObs2 (liftObs m1) == o2 then showObs m1 else "internal:one-vs-two-variables"
  let specStr :=
    let s2 := showRows2 ((spec2 pay r2 p dom).map fun (c, b) => ([c], b))
    if twoVar then s2
    else
      let s1 := showRows ((spec pay p dom).map fun (c, x) => ([c], x))
      if s1 == s2 then s1 else "internal:one-vs-two-variables"
  let trig : List String := []
  "\t".intercalate
    [ "model=" ++ obs current currentLeak,
      "model_fixed=" ++ showObs2 (modelA2 current false pay r2 a dom),
      "spec=" ++ specStr,
      "trig=" ++ ",".intercalate trig,
      "unamb=" ++ toString p.unambiguous,
      -- the behaviour before the fixes of F-C08-1/2/3 (information only: not a `model…` field)
      "legacy=" ++ showObs2 (modelA2 Quirks.legacy true pay r2 a dom) ]

def run (s : Sexp) : String :=
  match s with
  | .list [.atom "prog", .list (.atom "dom" :: ds), .list (.atom "root" :: body)] =>
    match nats ds, parseRoot body with
    | some dom, some (a, rows) => runCase dom none a rows
    | _, _ => "error=bad-case"
  | .list [.atom "prog", .list (.atom "dom" :: ds), .list (.atom "domy" :: es), .list (.atom "root" :: body)] =>
    match nats ds, nats es, parseRoot body with
    | some dom, some domY, some (a, rows) => runCase dom (some domY) a rows
    | _, _, _ => "error=bad-case"
  | _ => "error=bad-case"
end KrroodVerif.Drive.C08
