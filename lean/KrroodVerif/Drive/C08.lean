import KrroodVerif.Sexp
import KrroodVerif.Model.Rule
/-!
Driver for C08. Case line:

`(prog (dom d₁ … dₙ) (root (h e…) (c k…) <kid>…))` with `<kid> ::= (ref|alt|next (h e…) (c k…) <kid>…)`

`h` = the domain elements for which the block's condition holds, `c` = the classes of the `Add` conclusions
written in the block, kids in textual order. At the top level of `root` two more items may stand between the
kids (multi-step authoring): `(reenter)` — the `with rule:` block is closed and `with rule:` is opened again —
and `(here)` — the base rule's `Add` statements are written at this point (default: first).

Output: `model=` builder + evaluator as the code is today (`Quirks.today`), `model_fixed=` all three quirks off,
`model_q…=` every other quirk setting (a repair of one defect must still correspond), `spec=` the ripple-down
rules interpreter `fire` over the domain, `trig=` the findings whose decidable trigger the program satisfies.
When a finding is repaired in /repo: switch its flag off in `current` below and drop its id from `trig`
(its `model_q…` line keeps the old behaviour printable); nothing else changes.

Rows are `class:element`, sorted, de-duplicated (the property's observation is a set); `a|b:element` = one of the
classes a, b (two conclusions in one Python `set`).
-/
namespace KrroodVerif.Drive.C08
open KrroodVerif.Rdr

def nats (xs : List Sexp) : Option (List Nat) := xs.mapM Sexp.asNat?

def parseKind : String → Option Kind
  | "ref" => some .ref | "alt" => some .alt | "next" => some .next | _ => none

-- parse a block; blocks are numbered in textual (pre-)order; returns the skeleton and the payload rows
mutual
partial def parseBlock (items : List Sexp) (acc : Array Block) : Option (Prog × Array Block) :=
  match items with
  | .list (.atom "h" :: hs) :: .list (.atom "c" :: cs) :: kids => do
    let h ← nats hs
    let c ← nats cs
    let b := acc.size
    let (k, acc) ← parseKids kids (acc.push { cond := h, concl := c })
    pure (.mk b k, acc)
  | _ => none
partial def parseKids (items : List Sexp) (acc : Array Block) : Option (Kids × Array Block) :=
  match items with
  | [] => some (.nil, acc)
  | .list (.atom k :: body) :: rest => do
    let kd ← parseKind k
    let (p, acc) ← parseBlock body acc
    let (r, acc) ← parseKids rest acc
    pure (.cons kd p r, acc)
  | _ => none
end

/-- the top level of `root`: kids, `(reenter)`, `(here)`; blocks numbered in textual order from 1 -/
partial def parseItems (items : List Sexp) (acc : Array Block) : Option (List Item × Array Block) :=
  match items with
  | [] => some ([], acc)
  | .list [.atom "reenter"] :: rest => do
    let (r, acc) ← parseItems rest acc
    pure (Item.reenter :: r, acc)
  | .list [.atom "here"] :: rest => do
    let (r, acc) ← parseItems rest acc
    pure (Item.add :: r, acc)
  | .list (.atom k :: body) :: rest => do
    let kd ← parseKind k
    let (p, acc) ← parseBlock body acc
    let (r, acc) ← parseItems rest acc
    pure (Item.kid kd p :: r, acc)
  | _ => none

def parseRoot (items : List Sexp) : Option (Authored × Array Block) :=
  match items with
  | .list (.atom "h" :: hs) :: .list (.atom "c" :: cs) :: rest => do
    let h ← nats hs
    let c ← nats cs
    let (its, acc) ← parseItems rest #[{ cond := h, concl := c }]
    let nAdd := (its.filter fun i => match i with | .add => true | _ => false).length
    if nAdd == 0 then pure (⟨0, Item.add :: its⟩, acc)
    else if nAdd == 1 then pure (⟨0, its⟩, acc)
    else none
  | _ => none

def pad (n : Nat) : String := let s := toString n; "".pushn '0' (4 - s.length) ++ s

def showRow (r : List Nat × Nat) : String :=
  "|".intercalate (sortStrings (r.1.map pad)) ++ ":" ++ toString r.2

def showRows (rs : List (List Nat × Nat)) : String :=
  showList (dedupStrings (sortStrings (rs.map showRow)))

def showObs : Obs → String
  | .ok rows => showRows rows
  | .raised => "exc:construction"
  | .cyclic => "exc:RecursionError"
  | .mismatch => "internal:evalT-vs-evalK"

def dedupName : Dedup → String
  | .byBinding => "b" | .byConclusion => "c" | .off => "o"

/-- the quirk setting of the code as it is today (every defect still open) -/
def current : Quirks := Quirks.today

def run (s : Sexp) : String :=
  match s with
  | .list [.atom "prog", .list (.atom "dom" :: ds), .list (.atom "root" :: body)] =>
    match nats ds, parseRoot body with
    | some dom, some (a, blocks) =>
      let pay := Payload.ofList blocks.toList
      let p := a.toProg
      let others : List Quirks :=
        [true, false].flatMap fun c => [true, false].flatMap fun r =>
          [Dedup.byBinding, .byConclusion, .off].filterMap fun d =>
            let q : Quirks := ⟨c, r, d⟩
            if q = current || q = Quirks.fixed then none else some q
      let alt := others.map fun q =>
        s!"model_q{if q.climbOnce then 1 else 0}{if q.refNoRelink then 1 else 0}{dedupName q.dedup}=" ++
          showObs (modelA q pay a dom)
      let trig :=
        (if p.trigClimb then ["F-C08-1"] else []) ++
        (if p.trigRef true then ["F-C08-2"] else []) ++
        (if p.trigNextScope pay dom then ["F-C08-3"] else [])
      "\t".intercalate
        ([ "model=" ++ showObs (modelA current pay a dom),
           "model_fixed=" ++ showObs (modelA Quirks.fixed pay a dom),
           "spec=" ++ showRows ((spec pay p dom).map fun (c, x) => ([c], x)),
           "trig=" ++ ",".intercalate trig,
           "unamb=" ++ toString p.unambiguous ] ++ alt)
    | _, _ => "error=bad-case"
  | _ => "error=bad-case"
end KrroodVerif.Drive.C08
