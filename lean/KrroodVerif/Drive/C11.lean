import KrroodVerif.Sexp
import KrroodVerif.Model.Eql
import KrroodVerif.Model.Match
import KrroodVerif.Drive.EqlParse
/-!
Driver of C11. One case:

`(m (pat P) (dom v…) (objs o…) (sub (c d)…) (schema (cls attr rel coll type|-)…) [(steps S…)])`
`P ::= (p cls|- sel (attr A)…)`    `A ::= (lit v) | (coll v ex un sel) | (nested P)`
`S ::= (st E…)`   `E ::= (set i attr v) | (setip i attr v) | (new o) | (free i) | (peek k keep|drop)`
optional `(pre E…)`: what happens between the construction of the query object and its first complete evaluation
(typically `peek`s: evaluations abandoned after `k` results); optional `(domkind list|tuple|gen|iter)`: how the domain
is handed to `entity_matching` (a one-shot generator / iterator is consumed lazily) — the contents are the same, so the
model does not look at it.

With `steps` the SAME query object is evaluated once per data state (before the first step and after every step); every
result field then is the ` | `-separated list of the per-state results (`Match.runSeq`).

prints `model=` (desugar + evaluator for the code as it is now: `Quirks.now`, i.e. F-C11-3..6 repaired, F-C11-1/2 open),
`spec=` (`specRows`), `trig=` (ids of the OPEN findings whose trigger fires), `model_fixed=` (all quirks off),
`before_fix_model=` (`Quirks.today`: the behaviour before the fix commits; deliberately not a `model*` field, so it
excuses nothing), `shapes=` (the six trigger shapes the theorems exclude). Rows are printed as a sorted, de-duplicated set.
-/
namespace KrroodVerif.Drive.C11
open KrroodVerif KrroodVerif.Eql KrroodVerif.Match KrroodVerif.Drive.EqlParse

def parseOptNat : Sexp → Option (Option Nat)
  | .atom "-" => some none
  | s => s.asNat?.map some

mutual
partial def parsePat : Sexp → Option Pat
  | .list (.atom "p" :: cls :: sel :: as) => do
    pure (Pat.mk (← parseOptNat cls) (← sel.asBool?) (← parseAssigns as))
  | _ => none
partial def parseAssigns : List Sexp → Option Assigns
  | [] => some .nil
  | .list [.atom n, v] :: rest => do
    pure (Assigns.cons n (← parseAVal v) (← parseAssigns rest))
  | _ => none
partial def parseAVal : Sexp → Option AVal
  | .list [.atom "lit", v] => (parseVal v).map AVal.lit
  | .list [.atom "coll", v, ex, un, sel] => do
    pure (AVal.coll (← parseVal v) (← ex.asBool?) (← un.asBool?) (← sel.asBool?))
  | .list [.atom "nested", p] => (parsePat p).map AVal.nested
  | _ => none
end

def parseSchemaEntry : Sexp → Option ((Nat × AttrName) × FieldInfo)
  | .list [c, .atom n, rel, coll, ty] => do
    pure ((← c.asNat?, n), { rel := (← rel.asBool?), coll := (← coll.asBool?), type := (← parseOptNat ty) })
  | _ => none

structure Case where
  w : World
  s : Schema
  dom : List Val
  p : Pat
  steps : List (List Edit) := []
  pre : List Edit := []

def parseEdit : Sexp → Option Edit
  | .list [.atom "set", i, .atom n, v] => do pure (Edit.set (← i.asNat?) n (← parseVal v))
  | .list [.atom "setip", i, .atom n, v] => do pure (Edit.set (← i.asNat?) n (← parseVal v))
  | .list [.atom "new", o] => (parseObj o).map Edit.new
  | .list [.atom "free", i] => i.asNat?.map Edit.free
  | .list [.atom "peek", k, .atom _] => k.asNat?.map Edit.peek
  | _ => none

def parseStep : Sexp → Option (List Edit)
  | .list (.atom "st" :: es) => es.mapM parseEdit
  | _ => none

def parseCase : Sexp → Option Case
  | .list (.atom "m" :: items) => do
    let p ← match Sexp.field? items "pat" with
      | some [x] => parsePat x
      | _ => none
    let dom ← (← Sexp.field? items "dom").mapM parseVal
    let objs ← (← Sexp.field? items "objs").mapM parseObj
    let sub ← match Sexp.field? items "sub" with
      | some xs => xs.mapM parseSub
      | none => some []
    let s ← (← Sexp.field? items "schema").mapM parseSchemaEntry
    let steps ← match Sexp.field? items "steps" with
      | some xs => xs.mapM parseStep
      | none => some []
    let pre ← match Sexp.field? items "pre" with
      | some xs => xs.mapM parseEdit
      | none => some []
    pure { w := { objs := objs, doms := [], subclass := sub }, s := s, dom := dom, p := p, steps := steps,
           pre := pre }
  | _ => none

def showRun (r : Option (List (List Val))) : String :=
  match r with
  | none => "exc:NoneWrappedFieldError"
  | some rows => " ".intercalate (sortStrings (dedupStrings (rows.map showRow)))

/-! ### cross-check against the validated tree-shaped evaluator `Eql.evalQuery`

A match of depth 1 without `exists` and with only the matched element selected builds a TREE-shaped query (every
attribute node occurs once); on that fragment the evaluator of `Model/Match.lean` must agree with the shared M-EQL
evaluator (the one validated against the engine by C01/C02). `==` between two object lists is left out: M-EQL compares
those as sets of identities (its generators have no value-equal elements inside lists). -/

def toEqlTerm : MTerm → Term
  | .root => .var 0
  | .attr t n => .attr (toEqlTerm t) n
  | .flat t => .flatten (toEqlTerm t)

/-- the attribute of the root a depth-1 condition is about -/
def topAttr : MTerm → Option AttrName
  | .attr .root n => some n
  | .flat (.attr .root n) => some n
  | _ => none

def toEqlConds : List Cond → Nat → Option (List Expr)
  | [], _ => some []
  | c :: cs, i => do
    let e ← match c with
      | .eq a (.objs _) => (none : Option Expr) <* topAttr a
      | .eq a l => (topAttr a).map fun _ => Expr.cmp .eq (toEqlTerm a) (.lit (100 + i) l)
      | .litIn a l => (topAttr a).map fun _ => Expr.contains (toEqlTerm a) (.lit (100 + i) l)
      | .inLit a l => (topAttr a).map fun _ => Expr.contains (.lit (100 + i) l) (toEqlTerm a)
      | .hasType a c => (topAttr a).map fun _ => Expr.hasType (toEqlTerm a) c
      | _ => none
    let rest ← toEqlConds cs (i + 1)
    pure (e :: rest)

def condTop : Cond → Option AttrName
  | .eq a _ | .litIn a _ | .inLit a _ | .hasType a _ => topAttr a
  | _ => none

def flattenAnd : Cond → List Cond
  | .and l r => flattenAnd l ++ flattenAnd r
  | c => [c]

/-- `ok` / `differs` / `n/a` -/
def eqlCheck (c : Case) : String :=
  match desugar Quirks.now c.s c.w.subclass c.p with
  | some q =>
    if q.sel != [MTerm.root] then "n/a" else
    let conds := match q.cond with | some e => flattenAnd e | none => []
    let tops := conds.map condTop
    if tops.any (·.isNone) || !(tops.eraseDups.length == tops.length) then "n/a" else
    match toEqlConds conds 0 with
    | none => "n/a"
    | some es =>
      let cond : Option Expr := match es with
        | [] => none
        | e :: rest => some (rest.foldl Expr.and e)
      let d := c.dom.filter fun x => isInstance c.w x q.cls
      let w' : World := { c.w with doms := [(0, d)] }
      match Eql.evalQuery w' { sel := [.var 0], cond := cond } with
      | .error _ => "n/a"
      | .ok rows =>
        if showRun (some rows) == showRun (some (Match.evalQuery c.w Quirks.now c.dom q)) then "ok" else "differs"
  | none => "n/a"

/-- the code as it is now (`Quirks.now`) with the quirk of each listed OPEN finding switched off (that finding
repaired as well) -/
def quirksWithout (ids : List String) : Quirks :=
  { Quirks.now with
    existsByValue := !ids.contains "F-C11-1"
    selIndependent := !ids.contains "F-C11-2" }

def sublists {α} : List α → List (List α)
  | [] => [[]]
  | x :: xs => (sublists xs).flatMap fun l => [l, x :: l]

def joinStates (xs : List String) : String := " | ".intercalate xs

def run (s : Sexp) : String :=
  match parseCase s with
  | none => "error=bad-case"
  | some c0 =>
    -- the data at the first complete evaluation (`pre`: edits and abandoned evaluations after construction)
    let c := { c0 with w := c0.pre.foldl applyEdit c0.w }
    let ws := worlds c.w c.steps
    let seq := fun (Q : Quirks) => joinStates ((runSeq Q c.s c.dom c.p c.w c.steps).map showRun)
    let sp := joinStates (ws.map fun w => showRun (some (specRows w c.dom c.p)))
    -- only the findings that are still open excuse a difference from the specification
    let trig := openTriggers c.w c.s c.p
    -- the six shapes outside the proved fragment (incl. those of the repaired findings F-C11-3..6)
    let shapes := triggers c.w c.s c.p
    -- one alternative per proper non-empty subset of the triggered open findings being repaired
    let alts := (sublists trig).filter fun l => !l.isEmpty && l.length < trig.length
    let altFields := alts.map fun l => s!"\tmodel_without_{"_".intercalate l}={seq (quirksWithout l)}"
    let eqls := ws.map fun w => eqlCheck { c with w := w }
    let eql := if eqls.contains "differs" then "differs" else if eqls.all (· == "ok") then "ok" else "n/a"
    s!"model={seq Quirks.now}\tspec={sp}\ttrig={",".intercalate trig}\tmodel_fixed={seq Quirks.fixed}" ++
      s!"\twf={c.p.wf c.s c.w.subclass}\tconf={ws.all fun w => conformsB w c.s}\tnsel={c.p.nSel}\teql={eql}" ++
      s!"\tstates={ws.length}\tshapes={",".intercalate shapes}\tbefore_fix_model={seq Quirks.today}" ++
      String.join altFields

end KrroodVerif.Drive.C11
