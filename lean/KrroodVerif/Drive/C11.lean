import KrroodVerif.Sexp
namespace KrroodVerif.Drive.C11
/-- stub: replaced when the model for C11 is built -/
def run (_ : Sexp) : String := "model=unimplemented\tspec=unimplemented\ttrig="
end KrroodVerif.Drive.C11
