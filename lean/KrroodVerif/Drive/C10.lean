import KrroodVerif.Sexp
import KrroodVerif.Model.Eql
import KrroodVerif.Model.EqlTrace
import KrroodVerif.Model.EqlTraceQ
import KrroodVerif.Model.EqlTraceN
import KrroodVerif.Model.Quantifier
import KrroodVerif.Model.EqlSub
import KrroodVerif.Model.EqlTraceSub
import KrroodVerif.Drive.EqlParse
namespace KrroodVerif.Drive.C10
open KrroodVerif KrroodVerif.Eql KrroodVerif.Drive.EqlParse

def sortNat (xs : List Nat) : List Nat :=
  xs.foldl (fun acc x => let (a, b) := acc.span (· ≤ x); a ++ [x] ++ b) []

/-- `an(entity(x, contains(L, flatten(x.items))))` where every `x.items` is a one-shot generator: number of inner
elements consumed from each object's generator after `k` results. Objects before the one that produced the k-th
result are drained, that object is consumed up to the matching element, later objects are untouched. -/
def flatPulls : List (List Int) → List Int → Nat → List Nat
  | [], _, _ => []
  | xs :: rest, lit, k =>
    if k == 0 then (xs :: rest).map fun _ => 0
    else
      let hits := (xs.filter (lit.contains ·)).length
      if hits ≥ k then
        -- position (1-based) of the k-th matching element of xs
        let rec pos : List Int → Nat → Nat → Nat
          | [], _, acc => acc
          | y :: ys, need, acc =>
            if lit.contains y then (if need == 1 then acc + 1 else pos ys (need - 1) (acc + 1)) else pos ys need (acc + 1)
        pos xs k 0 :: rest.map fun _ => 0
      else xs.length :: flatPulls rest lit (k - hits)

def runFlat (items : List Sexp) : Option String := do
  let objs ← (← Sexp.field? items "objs").mapM fun o => match o with
    | .list xs => xs.mapM Sexp.asInt?
    | _ => none
  let lit ← (← Sexp.field? items "lit").mapM Sexp.asInt?
  let total := (objs.map fun xs => (xs.filter (lit.contains ·)).length).foldl (· + ·) 0
  let line := fun (k : Nat) => s!"k{k}:" ++ showList ((flatPulls objs lit k).map toString)
  let out := s!"n={total} " ++ " ".intercalate ((List.range (total + 2)).map line)
  pure s!"model={out}\tspec={out}\ttrig="

/-! ### sub-query operands (`Model/EqlTraceSub.lean`): `(qs (thes b…) (sel …) (cond <xs>) (objs …) (doms …))` -/

def parseOperand : Sexp → Option Operand
  | .list [.atom "subq", i, y] => do pure (.sub (← i.asNat?) (← y.asNat?) none)
  | .list [.atom "subq", i, y, c] => do pure (.sub (← i.asNat?) (← y.asNat?) (some (← parseSExpr c)))
  | t => (parseTerm t).map Operand.plain

partial def parseXS (s : Sexp) : Option XSExpr :=
  match s with
  | .list [.atom "cmpx", op, l, r] => do pure (.cmpX (← parseOp op) (← parseOperand l) (← parseOperand r))
  | .list [.atom "and", l, r] => do pure (.and (← parseXS l) (← parseXS r))
  | .list [.atom "or", l, r] => do pure (.or (← parseXS l) (← parseXS r))
  | .list [.atom "not", e] => do pure (.not (← parseXS e))
  | _ => (parseSExpr s).map XSExpr.base

/-- the observation of one event list: `n=<rows> k0:[…] … h0:[…] … end:[…]` (same format as in `run` below) -/
def obsOf (vars : List VarId) (evs : List Ev) : String :=
  let n := (rowsOf evs).length
  let line := fun (k : Nat) => s!"k{k}:" ++ showList (vars.map fun v => toString (pulled v (uptoRow k evs)))
  let hline := fun (k : Nat) =>
    s!"h{k}:" ++ showList (vars.map fun v => toString (max (pulled v (uptoRow k evs)) (pulled v (uptoRow 1 evs))))
  let body := " ".intercalate ((List.range (n + 1)).map line ++ (List.range (n + 1)).map hline)
  let full := "end:" ++ showList (vars.map fun v => toString (pulled v evs))
  if hasErr evs then "exc" else s!"n={n} {body} {full}"

/-- a query with nested `an(...)`/`the(...)` operands; `thes`: one flag per sub-query, left to right (1 = `the`) -/
def runSub (items : List Sexp) : Option String := do
  let flags ← (← Sexp.field? items "thes").mapM Sexp.asNat?
  let sel ← (← Sexp.field? items "sel").mapM parseTerm
  let c ← match Sexp.field? items "cond" with | some [e] => parseXS e | _ => none
  let objs ← (← Sexp.field? items "objs").mapM parseObj
  let doms ← (← Sexp.field? items "doms").mapM parseDom
  let w : World := { objs := objs, doms := doms }
  let thes := ((c.subIds.zip flags).filter (·.2 == 1)).map (·.1)
  let evs := traceQueryX w thes sel (buildX c)
  let vars := sortNat (w.doms.map (·.1))
  let out := obsOf vars evs
  -- `lrows=`: the rows of the list model (`evalQueryX`, Model/EqlSub.lean) — equal to the trace's rows by `C10S_rows`
  let lrows := match evalQueryX w sel (buildX c) with
    | .ok rs => " ".intercalate (rs.map showRow)
    | .error _ => "exc"
  pure s!"model={out}\tspec={out}\ttrig=\trows={" ".intercalate ((rowsOf evs).map showRow)}\tlrows={lrows}\tfrag=S"

/-- `(two <k-independent> (q …A) (q …B))`: HISTORY "query A is consumed up to its k-th result and abandoned, then a
DIFFERENT query B over the SAME variable objects is evaluated": the domain values A pulled are cached in the shared
variables, B replays them and pulls on demand beyond, so after one result of B the generators have given out the
maximum of what A's k results and B's first result need (`t{k}`), after exhausting B the maximum of A's k results and
all of B (`u{k}`) -/
def runTwo (a b : Sexp) : Option String := do
  let (w, qa) ← parseCase a
  let (_, qb) ← parseCase b
  let ea := traceQueryN w qa.toQuery
  let eb := traceQueryN w qb.toQuery
  let vars := sortNat (w.doms.map (·.1))
  let n := (rowsOf ea).length
  let vec := fun (xs : List Ev) (ys : List Ev) => showList (vars.map fun v => toString (max (pulled v xs) (pulled v ys)))
  let tl := (List.range (n + 1)).map fun k => s!"t{k}:" ++ vec (uptoRow k ea) (uptoRow 1 eb)
  let ul := (List.range (n + 1)).map fun k => s!"u{k}:" ++ vec (uptoRow k ea) eb
  let out := if hasErr ea || hasErr eb then "exc"
    else s!"n={n} m={(rowsOf eb).length} " ++ " ".intercalate (tl ++ ul)
  pure s!"model={out}\tspec={out}\ttrig=\tfrag=H2"

/-- `n=<rows> k0:[p_v1,p_v2,…] k1:[…] …` — per number of consumed results, the number of elements pulled from each
variable's domain (variables in increasing id order), as the demand-driven trace model predicts -/
def run (s : Sexp) : String :=
  -- `(silent k)`: construction scenario number k of the harness (match patterns, rule trees, predicates, …):
  -- building is a pure function of the description in every model: no event is performed
  if let .list [.atom "silent", _] := s then "model=silent\tspec=silent\ttrig=" else
  if let .list (.atom "flat" :: items) := s then (runFlat items).getD "error=bad-case" else
  if let .list (.atom "qs" :: items) := s then (runSub items).getD "error=bad-case" else
  if let .list [.atom "two", a, b] := s then (runTwo a b).getD "error=bad-case" else
  -- `(qpulls <kind> v n)`: a result-count constraint over a lazily produced n-element domain, fully consumed: the
  -- evaluation stops taking elements with the one that reveals an exceeded upper bound (`Quant.consumed`)
  if let .list [.atom "qpulls", .atom kind, v, n] := s then
    (match v.asNat?, n.asNat? with
     | some v, some n =>
       let c : Option Quant.Constraint := match kind with
         | "exactly" => some (.exactly v) | "atLeast" => some (.atLeast v) | "atMost" => some (.atMost v)
         | "the" => some (.exactly 1) | _ => none
       let out := s!"pulls={Quant.consumed c (List.range n)}"
       s!"model={out}\tspec={out}\ttrig="
     | _, _ => "error=bad-case") else
  match parseCase s with
  | none => "error=bad-case"
  | some (w, q) =>
    let qq := q.toQuery
    -- a condition with a quantifier ANYWHERE: `traceQueryN` (Model/EqlTraceN.lean, Props/C10N.lean) — it also covers
    -- the root position, where it is the more faithful transcription (`Exists` looks its variable up in EVERY child
    -- result, `ForAll`'s later passes perform the child's events up to its first result); quantifier-free conditions:
    -- `traceQueryQ` = `traceQuery` as before (Props/C10). For one quantifier at the root over a quantifier-free body the
    -- observation through `traceQueryQ` (Props/C10Q) is printed as `altq=` (compared in `extra_coverage`).
    let quantified := match qq.cond with | some c => c.hasQ | none => false
    let rootQ := match qq.cond with
      | some (.exists_ _ c) | some (.forAll _ c) => !c.hasQ
      | _ => false
    let vars := sortNat (w.doms.map (·.1))
    let obs := fun (evs : List Ev) =>
      let n := (rowsOf evs).length
      let line := fun (k : Nat) =>
        let pre := uptoRow k evs
        s!"k{k}:" ++ showList (vars.map fun v => toString (pulled v pre))
      -- `h{k}`: HISTORY "take k results, abandon, evaluate the same query again and take one result": the second
      -- evaluation replays what is cached (pull events with indices already consumed) and pulls on demand beyond it,
      -- so the generators have given out the maximum of what the two partial evaluations need
      let k2 := 1   -- (no result at all: asking for one runs the evaluation to its end)
      let hline := fun (k : Nat) =>
        s!"h{k}:" ++ showList (vars.map fun v => toString (max (pulled v (uptoRow k evs)) (pulled v (uptoRow k2 evs))))
      let body := " ".intercalate ((List.range (n + 1)).map line ++ (List.range (n + 1)).map hline)
      let full := "end:" ++ showList (vars.map fun v => toString (pulled v evs))
      if hasErr evs then "exc" else s!"n={n} {body} {full}"
    let evsN := traceQueryN w qq
    let evs := if quantified then evsN else traceQueryQ w qq
    let out := obs evs
    let altq := if rootQ then s!"\taltq={obs (traceQueryQ w qq)}" else ""
    s!"model={out}\tspec={out}\ttrig=\trows={" ".intercalate ((rowsOf evs).map showRow)}\tfrag={if quantified then "N" else "QF"}{altq}"
end KrroodVerif.Drive.C10
