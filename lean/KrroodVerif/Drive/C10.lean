import KrroodVerif.Sexp
import KrroodVerif.Model.Eql
import KrroodVerif.Model.EqlTrace
import KrroodVerif.Drive.EqlParse
namespace KrroodVerif.Drive.C10
open KrroodVerif KrroodVerif.Eql KrroodVerif.Drive.EqlParse

def sortNat (xs : List Nat) : List Nat :=
  xs.foldl (fun acc x => let (a, b) := acc.span (· ≤ x); a ++ [x] ++ b) []

/-- `n=<rows> k0:[p_v1,p_v2,…] k1:[…] …` — per number of consumed results, the number of elements pulled from each
variable's domain (variables in increasing id order), as the demand-driven trace model predicts -/
def run (s : Sexp) : String :=
  -- `(silent k)`: construction scenario number k of the harness (match patterns, rule trees, predicates, …):
  -- building is a pure function of the description in every model: no event is performed
  if let .list [.atom "silent", _] := s then "model=silent\tspec=silent\ttrig=" else
  match parseCase s with
  | none => "error=bad-case"
  | some (w, q) =>
    let evs := traceQuery w q.toQuery
    let n := (rowsOf evs).length
    let vars := sortNat (w.doms.map (·.1))
    let line := fun (k : Nat) =>
      let pre := uptoRow k evs
      s!"k{k}:" ++ showList (vars.map fun v => toString (pulled v pre))
    let body := " ".intercalate ((List.range (n + 1)).map line)
    let full := "end:" ++ showList (vars.map fun v => toString (pulled v evs))
    let out := if hasErr evs then "exc" else s!"n={n} {body} {full}"
    s!"model={out}\tspec={out}\ttrig=\trows={" ".intercalate ((rowsOf evs).map showRow)}"
end KrroodVerif.Drive.C10
