import KrroodVerif.Sexp
namespace KrroodVerif.Drive.C10
/-- stub: replaced when the model for C10 is built -/
def run (_ : Sexp) : String := "model=unimplemented\tspec=unimplemented\ttrig="
end KrroodVerif.Drive.C10
