import KrroodVerif.Sexp
namespace KrroodVerif.Drive.C17
/-- stub: replaced when the model for C17 is built -/
def run (_ : Sexp) : String := "model=unimplemented\tspec=unimplemented\ttrig="
end KrroodVerif.Drive.C17
