import KrroodVerif.Sexp
import KrroodVerif.Model.ClassDiagram
/-!
Driver for C17. One case =

`(cd (defs (c <id> (bases <id>*) (f <priv 0|1> <idx> <ann>)*)*) (order <id>*) (ops <op>*) …)`

`<ann>` = `int|float|str|bool|datetime | (cls i) | (enum i) | (sub <builtin> i) | (mix <builtin> i) | (plain i) | (opt typing|unionNone|noneFirst|pipe a) |
(cont list|set|tuple|sequence|blist|bset|btuple a) | (type a) | (fwd a) | (union a b T|F)`;
`<op>` = `(q d k) | (acc d c k) | (read d) | (render d T|F) | (copy d) | (sub d T|F)`.
Further items (`(future b)`, `(mods n)`, `(enums n)`, `(generic id*)`, `(gsub (id arg)*)` = generic bases, `(twin t)` = further same-named diagrams, `(final b)` = order in which the accessors are read at the end) only steer how the harness renders the Python source.

Observation (the same text is produced from the real `ClassDiagram` by harness/props/c17.py):
`N[nodes] I[base>sub] A[owner.field>target] F[owner.field:<flags>] V[changes after op 1|…] R[diagrams whose
accessors do not report their own graph, after the run]`, every list sorted.
-/
namespace KrroodVerif.Drive.C17
open KrroodVerif.CD

/-- the quirk setting of the code as it is now; switch a flag off in the commit that marks its finding fixed -/
def current : Quirks := Quirks.current

/-- the setting before the last repair (F-C17-3), printed as `before_fix=` for the reader of a replay; deliberately not a
`model…=` field: the comparison must not accept the repaired defect as admissible behaviour -/
def beforeFix : Quirks := { current with pipeNotOptional := true, argZero := true }

def parseBuiltin : String → Option Builtin
  | "int" => some .int | "float" => some .float | "str" => some .str | "bool" => some .bool
  | "datetime" => some .datetime | _ => none

partial def parseAnn : Sexp → Option Ann
  | .atom "int" => some (.builtin .int)
  | .atom "float" => some (.builtin .float)
  | .atom "str" => some (.builtin .str)
  | .atom "bool" => some (.builtin .bool)
  | .atom "datetime" => some (.builtin .datetime)
  | .list [.atom "cls", i] => i.asNat?.map .cls
  | .list [.atom "enum", i] => i.asNat?.map .enum
  | .list [.atom "sub", .atom b, i] => do pure (.ext (.sub (← parseBuiltin b)) (← i.asNat?))
  | .list [.atom "mix", .atom b, i] => do pure (.ext (.mixEnum (← parseBuiltin b)) (← i.asNat?))
  | .list [.atom "plain", i] => do pure (.ext .plain (← i.asNat?))
  | .list [.atom "opt", .atom st, a] => do
    let st ← (match st with
      | "typing" => some OptStyle.typing | "unionNone" => some .unionNone
      | "noneFirst" => some .noneFirst | "pipe" => some .pipe | _ => none)
    let a ← parseAnn a
    pure (.optional st a)
  | .list [.atom "cont", .atom k, a] => do
    let k ← (match k with
      | "list" => some Kind.list | "set" => some .set | "tuple" => some .tuple | "sequence" => some .sequence
      | "blist" => some .blist | "bset" => some .bset | "btuple" => some .btuple | _ => none)
    let a ← parseAnn a
    pure (.container k a)
  | .list [.atom "type", a] => (parseAnn a).map .typeOf
  | .list [.atom "fwd", a] => (parseAnn a).map .fwd
  | .list [.atom "union", a, b, n] => do
    let a ← parseAnn a
    let b ← parseAnn b
    let n ← n.asBool?
    pure (.union a b n)
  | _ => none

def parseField : Sexp → Option Field
  | .list [.atom "f", p, i, a] => do
    let p ← p.asNat?
    let i ← i.asNat?
    let a ← parseAnn a
    pure ⟨⟨p != 0, i⟩, a⟩
  | _ => none

def parseClass : Sexp → Option ClassDef
  | .list (.atom "c" :: id :: .list (.atom "bases" :: bs) :: fs) => do
    let id ← id.asNat?
    let bs ← bs.mapM Sexp.asNat?
    let fs ← fs.mapM parseField
    pure ⟨id, bs, fs⟩
  | _ => none

def parseOp : Sexp → Option Op
  | .list [.atom "q", d, k] => do pure (.query (← d.asNat?) (← k.asNat?))
  | .list [.atom "read", d] => do pure (.read (← d.asNat?))
  | .list [.atom "acc", d, c, k] => do pure (.access (← d.asNat?) (← c.asNat?) (← k.asNat?))
  | .list [.atom "render", d, b] => do pure (.render (← d.asNat?) (← b.asBool?))
  | .list [.atom "copy", d] => do pure (.copy (← d.asNat?))
  | .list [.atom "sub", d, b] => do pure (.sub (← d.asNat?) (← b.asBool?))
  | _ => none

def cname (i : Nat) : String := s!"C{i}"
def fname (f : FName) : String := (if f.priv then "_f" else "f") ++ toString f.idx

def builtinName : Builtin → String
  | .int => "int" | .float => "float" | .str => "str" | .bool => "bool" | .datetime => "datetime"

def leafName : Leaf → String
  | .builtin b => builtinName b | .noneType => "None" | .cls i => cname i | .enum i => s!"E{i}" | .other => "?"
  | .ext (.sub b) i => s!"S{builtinName b}{i}" | .ext (.mixEnum b) i => s!"M{builtinName b}{i}" | .ext .plain i => s!"P{i}"

def bit (b : Bool) : String := if b then "1" else "0"
def tri : Tri → String | .t => "1" | .f => "0" | .err => "E"

def showFlags (fl : Flags) (ep : Leaf) : String :=
  bit fl.builtin ++ bit fl.optional ++ tri fl.enum ++ bit fl.container ++ bit fl.oneToOne ++ bit fl.oneToMany
    ++ bit fl.typeValued ++ ":" ++ leafName ep

/-- per-field observation: all seven classifications and the endpoint on `plain` annotations, `optional` only on
deeper nestings and general unions (see `CD.plain`) -/
def showField (c : Nat) (f : Field) (fl : Flags) (ep : Leaf) : String :=
  cname c ++ "." ++ fname f.name ++ ":" ++ (if plain f.ann then showFlags fl ep else "o=" ++ bit fl.optional)

def showEdgesI (g : Graph) : String :=
  showList (sortStrings (g.edges.filterMap fun e => match e.kind with
    | .inh => some (cname e.src ++ ">" ++ cname e.dst) | _ => none))

def showEdgesA (g : Graph) : String :=
  showList (sortStrings (g.edges.filterMap fun e => match e.kind with
    | .assoc f => some (cname e.src ++ "." ++ fname f ++ ">" ++ cname e.dst) | _ => none))

def showGraph (g : Graph) : String :=
  "N" ++ showList (sortStrings (g.nodes.map cname)) ++ " I" ++ showEdgesI g ++ " A" ++ showEdgesA g

/-- per operation: the diagrams whose graph changed, and (for a `read d`) whether the accessor read-out of `d`
differs from the previous read-out of `d` -/
def showChanges (chs : List (List (Nat × Option Graph))) (reads : List (Option Nat)) : String :=
  "V[" ++ "|".intercalate ((List.zip chs reads).map fun (ch, rd) =>
    ";".intercalate ((ch.map fun p => s!"d{p.1}=" ++ (match p.2 with | some g => showGraph g | none => "gone"))
      ++ (match rd with | some d => [s!"d{d}:readout-changed"] | none => []))) ++ "]"

/-- which `read d` operations saw a changed read-out (model: `readTrace readout`; none, by `C17_accessors_pure`) -/
def readFlags (q : Quirks) (g : Graph) (ops : List Op) : List (Option Nat) :=
  (List.zip ops (readTrace readout q (Store.init g) [] ops)).map fun (op, b) =>
    match op, b with
    | .read d, true => some d
    | _, _ => none

/-- the diagrams whose accessors do not report their own graph (always none in the model: `C17_accessors`) -/
def showReports (rs : List (Nat × List Edge)) : String :=
  "R[" ++ ";".intercalate (rs.map fun p => s!"d{p.1}=I" ++ showEdgesI ⟨[], p.2⟩ ++ " A" ++ showEdgesA ⟨[], p.2⟩) ++ "]"

def showFields (w : World) (nodes : List Nat) (fl : Ann → Flags) (ep : Ann → Leaf) : String :=
  "F" ++ showList (sortStrings (nodes.flatMap fun c => (w.publicFields c).map fun f => showField c f (fl f.ann) (ep f.ann)))

/-- the observation of the code under quirk setting `q` -/
def observe (q : Quirks) (w : World) (order : List Nat) (ops : List Op) : String :=
  let g := build q w order
  showGraph g ++ " " ++ showFields w g.nodes (flags q) (endpoint q) ++ " " ++ showChanges (changes q (Store.init g) ops) (readFlags q g ops)
    ++ " " ++ showReports (misreported (runOps q (Store.init g) ops))

/-- the observation the property demands -/
def observeSpec (w : World) (order : List Nat) (ops : List Op) : String :=
  let g := specBuild w order
  showGraph g ++ " " ++ showFields w g.nodes specFlags specEndpoint ++ " " ++ showChanges (specChanges ops) (ops.map fun _ => none)
    ++ " " ++ showReports []

def anyPublicField (w : World) (order : List Nat) (p : Ann → Bool) : Bool :=
  (nodesOf order).any fun c => (w.publicFields c).any fun f => p f.ann

/-- Lean-defined triggers of the open findings (the same predicates the `…_partial` theorems exclude) -/
def triggers (w : World) (order : List Nat) (ops : List Op) : List String :=
  (if current.shallowCopy && touched current (Store.init (build current w order)) ops then ["F-C17-1"] else [])
  ++ (if current.singleUnwrap && anyPublicField w order nested then ["F-C17-2"] else [])
  ++ (if (current.pipeNotOptional || current.argZero) && anyPublicField w order oddOptional then ["F-C17-3"] else [])

/-- all settings obtained from `current` by switching some of its quirks off (partially repaired trees) -/
def alternatives : List Quirks :=
  let bs := [true, false]
  (bs.flatMap fun a => bs.flatMap fun b => bs.flatMap fun c => bs.map fun d =>
    ({ shallowCopy := current.shallowCopy && a, singleUnwrap := current.singleUnwrap && b,
       pipeNotOptional := current.pipeNotOptional && c, argZero := current.argZero && d } : Quirks))

def run (s : Sexp) : String :=
  match s with
  | .list (.atom "cd" :: items) =>
    match Sexp.field? items "defs", Sexp.field? items "order", Sexp.field? items "ops" with
    | some ds, some ord, some ops =>
      match ds.mapM parseClass, ord.mapM Sexp.asNat?, ops.mapM parseOp with
      | some ds, some ord, some ops =>
        let w : World := ⟨ds⟩
        let main := observe current w ord ops
        let alts := dedupStrings ((alternatives.map fun q => observe q w ord ops).filter (· != main))
        let altFields := (List.zip (List.range alts.length) alts).map fun p => s!"\tmodel_alt{p.1}={p.2}"
        let before := observe beforeFix w ord ops
        s!"model={main}\tspec={observeSpec w ord ops}\ttrig={",".intercalate (triggers w ord ops)}" ++ "".intercalate altFields
          ++ (if before != main then s!"\tbefore_fix={before}" else "")
      | _, _, _ => "error=bad-case"
    | _, _, _ => "error=bad-case"
  | _ => "error=bad-case"
end KrroodVerif.Drive.C17
