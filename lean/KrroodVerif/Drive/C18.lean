import KrroodVerif.Sexp
namespace KrroodVerif.Drive.C18
/-- stub: replaced when the model for C18 is built -/
def run (_ : Sexp) : String := "model=unimplemented\tspec=unimplemented\ttrig="
end KrroodVerif.Drive.C18
