import KrroodVerif.Sexp
import KrroodVerif.Model.Json
import KrroodVerif.Drive.JsonIO
/-!
C18 driver. Cases:
* `(rt (env …) VALUE)` — VALUE may share sub-values (`(def n V)` / `(ref n)`); the model works on the tree it stands for.
  `model=` : `fromJson Quirks.current env (toJson env v)` printed canonically `;tags=` the `__json_type__` entries of `toJson env v`
  `spec=`  : the value itself `;tags=` the fully qualified name of the class of every object (C18_roundtrip, C18_tag).
  A value that is not well-formed (`wf`) or an environment that does not list a consulted name is refused: the
  harness only builds values of the property's grammar.
* `(hist (env …) OP…)` — a registry history (`Json.stepOp` threaded over the operations, starting from the registry the
  environment describes): `(reg CLASS KEY)`, `(ser VALUE)`, `(rt VALUE)`, `(de CLASS KEY TOKEN)`. One observation per
  operation, joined by ` / `. `spec=` demands the value (resp. its tags) wherever the value is well-formed in the registry
  state reached (C18_history) and is `*` (no demand: outside the property's grammar) elsewhere.
-/
namespace KrroodVerif.Drive.C18
open KrroodVerif.Json KrroodVerif.Drive.JsonIO

def showObs : HObs → String
  | .done => "ok"
  | .notSerializable => "ClassNotSerializableError"
  | .serialised j => "ok;tags=" ++ showTags (jsonTags j)
  | .result r => showResult r

def toOp : HCase → HOp
  | .register c k => .register c k
  | .ser v => .ser v
  | .rt v => .rt v
  | .de c k t => .de (.obj [(tagKey, .str c.fullName), (k, .str t)])

def hcaseClasses : HCase → List Cls
  | .register c _ => [c]
  | .ser v => valClasses v
  | .rt v => valClasses v
  | .de c _ _ => [c]

/-- what the property demands of one operation in registry state `R` -/
def specOp (base : Env) (R : RegState) : HCase → String
  | .register _ _ => "ok"
  | .ser v => let env := envWith base R; if wf env v then "ok;tags=" ++ showTags (valueTags v) else "*"
  | .rt v => let env := envWith base R; if wf env v then showVal v else "*"
  | .de c k t =>
    let env := envWith base R
    if wf env (.ext c t) && env.payloadKey c == k then showVal (.ext c t) else "*"

def runHist (q : Quirks) (base : Env) : List HCase → RegState → List String × List String
  | [], _ => ([], [])
  | c :: cs, R =>
    let (o, R') := stepOp q base R (toOp c)
    let (ms, ss) := runHist q base cs R'
    (showObs o :: ms, specOp base R c :: ss)

def run (s : Sexp) : String :=
  match s with
  | .list [.atom "rt", e, v] =>
    match parseEnv e, parseTree v with
    | some d, some v =>
      if !(valClasses v).all (fun c => d.covers c.module c.name) then "error=env-miss"
      else
        let env := d.toEnv
        if !wf env v then "error=not-wf"
        else
          let j := toJson env v
          let m := showResult (fromJson Quirks.current env j) ++ ";tags=" ++ showTags (jsonTags j)
          let mf := showResult (fromJson Quirks.none env j) ++ ";tags=" ++ showTags (jsonTags j)
          let sp := showVal v ++ ";tags=" ++ showTags (valueTags v)
          s!"model={m}\tmodel_fixed={mf}\tspec={sp}\ttrig="
    | _, _ => "error=bad-case"
  | .list (.atom "hist" :: e :: ops) =>
    match parseEnv e, ops.mapM parseHCase with
    | some d, some ops =>
      if !(ops.flatMap hcaseClasses).all (fun c => d.covers c.module c.name) then "error=env-miss"
      else
        let base := d.toEnv
        let (m, sp) := runHist Quirks.current base ops []
        let (mf, _) := runHist Quirks.none base ops []
        s!"model={" / ".intercalate m}\tmodel_fixed={" / ".intercalate mf}\tspec={" / ".intercalate sp}\ttrig="
    | _, _ => "error=bad-case"
  | _ => "error=bad-case"
end KrroodVerif.Drive.C18
