import KrroodVerif.Sexp
import KrroodVerif.Model.Json
import KrroodVerif.Drive.JsonIO
/-!
C18 driver. Case: `(rt (env …) VALUE)`.
`model=` : `fromJson Quirks.current env (toJson v)` printed canonically `;tags=` the `__json_type__` entries of `toJson v`
`spec=`  : the value itself `;tags=` the fully qualified name of the class of every object (C18_roundtrip, C18_tag).
A value that is not well-formed (`wf`) or an environment that does not list a consulted name is refused: the
harness only builds values of the property's grammar.
-/
namespace KrroodVerif.Drive.C18
open KrroodVerif.Json KrroodVerif.Drive.JsonIO

def run (s : Sexp) : String :=
  match s with
  | .list [.atom "rt", e, v] =>
    match parseEnv e, parseVal v with
    | some d, some v =>
      if !(valClasses v).all (fun c => d.covers c.module c.name) then "error=env-miss"
      else
        let env := d.toEnv
        if !wf env v then "error=not-wf"
        else
          let j := toJson v
          let m := showResult (fromJson Quirks.current env j) ++ ";tags=" ++ showTags (jsonTags j)
          let mf := showResult (fromJson Quirks.none env j) ++ ";tags=" ++ showTags (jsonTags j)
          let sp := showVal v ++ ";tags=" ++ showTags (valueTags v)
          s!"model={m}\tmodel_fixed={mf}\tspec={sp}\ttrig="
    | _, _ => "error=bad-case"
  | _ => "error=bad-case"
end KrroodVerif.Drive.C18
