import KrroodVerif.Sexp
import KrroodVerif.Model.Eql
import KrroodVerif.Model.EqlFindings
import KrroodVerif.Model.EqlSub
import KrroodVerif.Model.EqlQuantFrag
import KrroodVerif.Model.EqlIRCheck
import KrroodVerif.Drive.EqlParse
namespace KrroodVerif.Drive.C01
open KrroodVerif KrroodVerif.Eql KrroodVerif.Drive.EqlParse

/-! ### nested sub-query operands: `(qx (sel …) (cond <xs>) (objs …) (doms …))` -/

def parseOperand : Sexp → Option Operand
  | .list [.atom "subq", i, y] => do pure (.sub (← i.asNat?) (← y.asNat?) none)
  | .list [.atom "subq", i, y, c] => do pure (.sub (← i.asNat?) (← y.asNat?) (some (← parseSExpr c)))
  | t => (parseTerm t).map Operand.plain

partial def parseXS (s : Sexp) : Option XSExpr :=
  match s with
  | .list [.atom "cmpx", op, l, r] => do pure (.cmpX (← parseOp op) (← parseOperand l) (← parseOperand r))
  | .list [.atom "and", l, r] => do pure (.and (← parseXS l) (← parseXS r))
  | .list [.atom "or", l, r] => do pure (.or (← parseXS l) (← parseXS r))
  | .list [.atom "not", e] => do pure (.not (← parseXS e))
  | _ => (parseSExpr s).map XSExpr.base

def xHasUnion : XExpr → Bool
  | .base e => e.hasUnion
  | .union _ _ => true
  | .and l r | .elseIf l r => xHasUnion l || xHasUnion r
  | .not e => xHasUnion e
  | _ => false

def xUnionUnderNot : XExpr → Bool
  | .base e => e.unionUnderNot
  | .not e => xHasUnion e || xUnionUnderNot e
  | .and l r | .elseIf l r | .union l r => xUnionUnderNot l || xUnionUnderNot r
  | _ => false

def runX (items : List Sexp) : Option String := do
  let sel ← (← Sexp.field? items "sel").mapM parseTerm
  let c ← match Sexp.field? items "cond" with | some [e] => parseXS e | _ => none
  let objs ← (← Sexp.field? items "objs").mapM parseObj
  let doms ← (← Sexp.field? items "doms").mapM parseDom
  let w : World := { objs := objs, doms := doms }
  let x := buildX c
  let m := evalQueryX w sel x
  let sp := solutionsX w sel c
  let vs := dedupNat (sel.flatMap Term.vars ++ c.freeVars)
  let trig := (if xUnionUnderNot x then ["F-C01-1"] else []) ++
    (if vs.any (fun v => (w.dom v).isEmpty) then ["F-C01-9"] else [])
  pure s!"model={showSet m}\tspec={showSet sp}\ttrig={",".intercalate trig}"

/-- `(sharednode)`: the fixed witness of F-C01-4 — `xf = x.f; and_(not_(xf), xf == False)` over three objects with
`f = T, F, F`. One attribute node with two parents is outside the tree-shaped grammar the model covers, so the model
makes no prediction (`*`); the specification is the first-order answer. -/
def run (s : Sexp) : String :=
  if s == .list [.atom "sharednode"] then "model=*\tspec=(o1) (o2)\ttrig=F-C01-4" else
  if let .list (.atom "qx" :: items) := s then (runX items).getD "error=bad-case" else
  match parseCase s with
  | none => "error=bad-case"
  | some (w, q) =>
    let m := evalQuery w q.toQuery
    let sp := solutions w q
    -- second tie (c01b): the interpreter of the translated evaluation methods (`IR.runIR IR.irTable`) must agree with
    -- `Eql.eval` on the raw result lists; a difference is a broken check (no `spec=` field), never a violation
    if let some why := IR.irDisagreement w q.toQuery then s!"error=model_ir differs from model ({why})" else
    -- `triggersQ`: inside the proved quantifier fragment (`quantProved`, `Props/C01Quant.lean`) the quantifier findings
    -- F-C01-5/7/11 are not offered as an excuse; `frag=ql` marks those cases (counted by the harness)
    s!"model={showSet m}\tspec={showSet sp}\ttrig={",".intercalate (triggersQ w q)}\tseq={showSeq m}\tfrag={if quantProved w q then "ql" else "-"}\tmodel_ir={showSet (match IR.evalQueryIR IR.irTable w q.toQuery with | .ok r => .ok r | .error (.err e) => .error e | .error (.stuck _) => .error .badOperand)}"
end KrroodVerif.Drive.C01
