import KrroodVerif.Sexp
import KrroodVerif.Model.Eql
import KrroodVerif.Model.EqlFindings
import KrroodVerif.Drive.EqlParse
namespace KrroodVerif.Drive.C01
open KrroodVerif KrroodVerif.Eql KrroodVerif.Drive.EqlParse

/-- `(sharednode)`: the fixed witness of F-C01-4 — `xf = x.f; and_(not_(xf), xf == False)` over three objects with
`f = T, F, F`. One attribute node with two parents is outside the tree-shaped grammar the model covers, so the model
makes no prediction (`*`); the specification is the first-order answer. -/
def run (s : Sexp) : String :=
  if s == .list [.atom "sharednode"] then "model=*\tspec=(o1) (o2)\ttrig=F-C01-4" else
  match parseCase s with
  | none => "error=bad-case"
  | some (w, q) =>
    let m := evalQuery w q.toQuery
    let sp := solutions w q
    s!"model={showSet m}\tspec={showSet sp}\ttrig={",".intercalate (triggers w q)}\tseq={showSeq m}"
end KrroodVerif.Drive.C01
