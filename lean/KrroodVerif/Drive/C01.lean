import KrroodVerif.Sexp
import KrroodVerif.Model.Eql
import KrroodVerif.Model.EqlFindings
import KrroodVerif.Drive.EqlParse
namespace KrroodVerif.Drive.C01
open KrroodVerif KrroodVerif.Eql KrroodVerif.Drive.EqlParse

def run (s : Sexp) : String :=
  match parseCase s with
  | none => "error=bad-case"
  | some (w, q) =>
    let m := evalQuery w q.toQuery
    let sp := solutions w q
    s!"model={showSet m}\tspec={showSet sp}\ttrig={",".intercalate (triggers w q)}\tseq={showSeq m}"
end KrroodVerif.Drive.C01
