import KrroodVerif.Sexp
namespace KrroodVerif.Drive.C01
/-- stub: replaced when the model for C01 is built -/
def run (_ : Sexp) : String := "model=unimplemented\tspec=unimplemented\ttrig="
end KrroodVerif.Drive.C01
