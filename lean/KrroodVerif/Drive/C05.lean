import KrroodVerif.Sexp
namespace KrroodVerif.Drive.C05
/-- stub: replaced when the model for C05 is built -/
def run (_ : Sexp) : String := "model=unimplemented\tspec=unimplemented\ttrig="
end KrroodVerif.Drive.C05
