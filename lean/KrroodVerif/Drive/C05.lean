import KrroodVerif.Sexp
import KrroodVerif.Model.Dao
import KrroodVerif.Drive.C04
/-!
Driver of C05: `to_dao` → flush → load in a fresh session through `via` → `from_dao`, plus row counts per table.
`model=` is the model of today's code (the open quirks F-C05-1 and F-C05-3 on; F-C05-2/4/5 are repaired); the unit
of work processes the sources of a ONETOMANY-inferred reference in an unspecified order, and each open finding may
be repaired separately, so every further admissible outcome is printed as `model_<i>=`.
-/
namespace KrroodVerif.Drive.C05
open KrroodVerif.Dao
open KrroodVerif.Drive.C04 (parseCase unmapOf Case)

def showCounts (cs : List (String × Nat)) : String :=
  ",".intercalate (sortStrings (cs.map fun (t, c) => s!"{t}={c}"))

def showResult : Option (List Nat × Heap × DB) → String
  | some (roots, h, db) => canon h roots ++ " rows:" ++ showCounts (tableCounts db)
  | none => "error:model"

def cartesian : List (List Nat) → List (List Nat)
  | [] => [[]]
  | g :: gs => g.flatMap fun x => (cartesian gs).map fun c => x :: c

/-- processing orders that realise every combination of "which source is written last" (capped) -/
def orders (dh : Heap) : List (List Nat) :=
  let srcs := (List.range dh.length).filter fun s => !(o2mWrites dirToday dh s).isEmpty
  let ws := srcs.flatMap fun s => (o2mWrites dirToday dh s).map fun w => ((w.1, w.2.1), s)
  let keys := ws.map (·.1) |>.foldl (fun acc k => if acc.contains k then acc else acc ++ [k]) []
  let groups := keys.map (fun k => (ws.filter (·.1 == k)).map (·.2)) |>.filter (·.length ≥ 2)
  ((cartesian groups).take 24).map fun winners => srcs.filter (fun s => !winners.contains s) ++ winners

def run (s : Sexp) : String :=
  match parseCase s with
  | none => "error=bad-case"
  | some c =>
    let unmap := unmapOf c.heap
    match toDao c.heap c.roots with
    | none => "error=bad-case"
    | some (_, st) =>
      let dh := st.out
      let os := orders dh
      let bools := [true, false]
      -- open: F-C05-1 (direction inference) and F-C05-3 (uniquing loader): each may be repaired separately, so both
      -- settings are admissible. Repaired in /repo: F-C05-2 (9a6f576), F-C05-4 (453154d),
      -- F-C05-5 (76e196d): `from_dao` is the copy that never memoises the intermediate (stale := false), and no
      -- temporary-parent collision or lost-parent variant is admissible any more.
      -- F-C05-1 is repaired in /repo (492980c, remote_side generated): selfRef is off in every admissible model
      let qs : List StoreQuirks := bools.map fun b => ⟨false, b, false⟩
      let results := qs.flatMap fun q => (if q.selfRef then os else os.take 1).map fun o =>
        persistReload q o unmap c.via c.heap c.roots
      let distinct := dedupStrings (results.map showResult)
      let spec := canon c.heap c.roots ++ " rows:" ++ showCounts (specCounts c.heap c.roots)
      let trig := (if trigDup dh then ["F-C05-3"] else [])
      let models := match distinct with
        | [] => "model=error:model"
        | m :: rest => "\t".intercalate (s!"model={m}" :: (rest.zipIdx.map fun (p : String × Nat) => s!"model_{p.2 + 1}={p.1}"))
      s!"{models}\tspec={spec}\ttrig={",".intercalate trig}"
end KrroodVerif.Drive.C05
