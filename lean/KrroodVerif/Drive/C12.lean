import KrroodVerif.Sexp
import KrroodVerif.Model.Predicate
/-!
Driver for C12. One case:

`(call <fn|method|pred> (params (a) (b 8) …) (pos <arg>…) (kw (name <arg>)…) (doms (0 1 2 3) (1 4) …) (pre 0 …)
  (neg T|F) (body <salt> <modulus>) (knobs (is_expensive T) …) (frame T|F T|F) (hist ((oid state)…) …) …)` with `<arg>` =
`(l <value>)`, `(l <value> <variant>)` (an `==`-equal but different constant, see `showVal`; the body adds the variant
to the value), `(v <variable id>)` or `(a <accessor> <variable id>)` (`x.att`, `x.get()`, `x.items[0]`, …: the value
passed is `state + 100·accessor`). Candidate objects are identified by a number (printed in `rows`); their state —
what accessors and the body read, printed in `log` — starts equal to it and is overwritten by each world of `hist`
before the same query object is evaluated again; the evaluations are printed joined by ` ;; `.
`(frame A B)`: the query is the if/else `or_(and_(c, gA), and_(not_(c), gB))` with the SAME condition object `c = [not_] call`
in both branches (`Pred.Frame`, `Pred.runFramedHistory`); absent: `and_(pre…, [not_] call)`.

`params` are the parameters the user can bind (default value after the name, then `kw` for a keyword-only
parameter: `(b kw)`, `(c 7 kw)`). A call Python itself rejects has `spec=invalid`: the property then demands the
`TypeError` at the call (`exc:TypeError`) or from every evaluation (`S exc:TypeError`). For `method` the underlying function
has `self` in front and the wrapper receives the receiver (value 0) as first positional argument; the driver adds
both, so the model sees exactly what `symbolic_function.wrapper` sees. The body's result is
`(salt + Σ (j+1)·value_j) mod modulus` over the parameter values the body receives; truth = non-zero.

Output: `model=` (code as it is: `codeQuirks`), `model_fixed=` (F-C12-1 repaired), `model_f2=` (F-C12-2 repaired),
`model_f3=` (F-C12-3 repaired: the call is bound as written first), `model_f12=` (all repaired), `spec=`, `trig=` (ids of the still-open findings whose trigger the input satisfies).
-/
namespace KrroodVerif.Drive.C12
open KrroodVerif.Pred

/-- The quirk setting of the code as it is at this commit of /verif (`model=`). When a finding is recorded as
`fixed:` switch its flag off here in the same commit: `model=` then is the repaired model and the finding's id is
no longer offered as an excuse in `trig=`. -/
def codeQuirks : Quirks := { symFnIgnoresFirst := false, childVarsIndependent := true, acceptsRejected := false }

def parseArg : Sexp → Option Arg
  | .list [.atom "l", v] => v.asNat?.map Arg.lit
  | .list [.atom "l", v, t] => do pure (Arg.lit ((← v.asNat?) + 1000 * (← t.asNat?)))
  | .list [.atom "v", i] => i.asNat?.map (fun i => Arg.var i 0)
  | .list [.atom "a", k, i] => do pure (Arg.var (← i.asNat?) (← k.asNat?))
  | _ => none

def parseParam : Sexp → Option Param
  | .list [.atom n] => some ⟨n, none, false⟩
  | .list [.atom n, .atom "kw"] => some ⟨n, none, true⟩
  | .list [.atom n, d, .atom "kw"] => d.asNat?.map (fun d => ⟨n, some d, true⟩)
  | .list [.atom n, d] => d.asNat?.map (fun d => ⟨n, some d, false⟩)
  | _ => none

def parseKw : Sexp → Option (String × Arg)
  | .list [.atom n, a] => (parseArg a).map (fun a => (n, a))
  | _ => none

def parseDom : Sexp → Option (Nat × List Nat)
  | .list (i :: vs) => do
    let i ← i.asNat?
    let vs ← vs.mapM Sexp.asNat?
    pure (i, vs)
  | _ => none

/-- A written constant is identified by `number + 1000·variant`: constants with the same number and different
variants are `==`-equal in Python but are different objects / types (`1`, `1.0`, `True`, two equal tuples, two
value-equal user objects). The model passes the written constant itself; it is printed `number~variant`. -/
def showVal (v : Nat) : String := if v < 1000 then toString v else s!"{v % 1000}~{v / 1000}"

def showArg : Arg → String
  | .lit v => showVal v
  | .var i 0 => s!"?{i}"
  | .var i k => s!"?{i}.{k}"

def showTuple (xs : List String) : String := "(" ++ ",".intercalate xs ++ ")"

def showOutcome (body : List Nat → Nat) : Outcome → String
  | .invalid => "invalid"
  | .concrete (.error _) => "exc:TypeError"
  | .concrete (.ok t) =>
    let r := body (t.map (subst Env.empty))
    "C " ++ showTuple (t.map showArg) ++ (if r != 0 then " T" else " F")
  | .symbolic (.error _) => "S exc:TypeError"
  | .symbolic (.ok o) =>
    "S log=" ++ showList (sortStrings (o.log.map (fun t => showTuple (t.map showVal))))
      ++ " rows=" ++ showList (sortStrings (dedupStrings (o.rows.map (fun t => showTuple (t.map toString)))))

def mkBody (salt m : Nat) : List Nat → Nat := fun t =>
  let rec go : Nat → List Nat → Nat
    | _, [] => 0
    | j, v :: r => (j + 1) * (v % 1000 + v / 1000) + go (j + 1) r
  (salt + go 0 t) % m

/-- `((oid state) …)`: the states of the mutated candidates, every other candidate keeps state = identity -/
def parseWorld : Sexp → Option World
  | .list ps => do
    let ps ← ps.mapM (fun p => match p with
      | .list [o, st] => do pure ((← o.asNat?), (← st.asNat?))
      | _ => none)
    pure (fun o => (ps.lookup o).getD o)
  | _ => none

def parseKnob : Sexp → Option (String × Bool)
  | .list [.atom n, v] => v.asBool?.map (fun v => (n, v))
  | _ => none

/-- all evaluations of one query object, or the single outcome if the call did not produce a condition -/
def showHistory (body : List Nat → Nat) (os : List Outcome) : String :=
  match os with
  | [] => "none"
  | o :: r => match o with
    | .symbolic _ => " ;; ".intercalate ((o :: r).map (showOutcome body))
    | _ => showOutcome body o

def run (s : Sexp) : String :=
  match s with
  | .list (.atom "call" :: .atom kind :: items) =>
    let r : Option String := do
      let params ← (← Sexp.field? items "params").mapM parseParam
      let pos ← (← Sexp.field? items "pos").mapM parseArg
      let kw ← (← Sexp.field? items "kw").mapM parseKw
      let doms ← (← Sexp.field? items "doms").mapM parseDom
      let pre ← (← Sexp.field? items "pre").mapM Sexp.asNat?
      let neg ← match Sexp.field? items "neg" with
        | some [b] => b.asBool?
        | _ => none
      let (salt, m) ← match Sexp.field? items "body" with
        | some [a, b] => do pure (← a.asNat?, ← b.asNat?)
        | _ => none
      let call : Call ← match kind with
        | "fn" => some ⟨.symFn, params, pos, kw⟩
        | "method" => some ⟨.symFn, ⟨"self", none, false⟩ :: params, .lit 0 :: pos, kw⟩
        | "pred" => some ⟨.pred, params, pos, kw⟩
        | _ => none
      let knobs ← ((Sexp.field? items "knobs").getD []).mapM parseKnob
      let hist ← ((Sexp.field? items "hist").getD []).mapM parseWorld
      let body := mkBody salt m
      let x : Experiment := { call := call, doms := fun i => (doms.lookup i).getD [], pre := pre, neg := neg, body := body }
      -- the query object is built once and evaluated in the initial world, then in every world of `hist`
      let worlds : List World := id :: hist
      let sh := showHistory body
      -- `(frame T|F T|F)`: the condition object is written twice, `or_(and_(c, A), and_(not_(c), B))`
      let frame : Option Frame ← match Sexp.field? items "frame" with
        | some [t, e] => do pure (some ⟨← t.asBool?, ← e.asBool?⟩)
        | some _ => none
        | none => pure none
      let runH := fun (q : Quirks) => match frame with
        | some f => runFramedHistory q knobs f x [] worlds
        | none => runHistory q knobs x [] worlds
      let specH := match frame with
        | some f => specFramedHistory f x worlds
        | none => specHistory x worlds
      let trig := (if codeQuirks.symFnIgnoresFirst && trigPositional call then ["F-C12-1"] else [])
        ++ (if codeQuirks.childVarsIndependent && trigShared x then ["F-C12-2"] else [])
        ++ (if codeQuirks.acceptsRejected && trigRejected call then ["F-C12-3"] else [])
      pure (s!"model={sh (runH codeQuirks)}"
        ++ s!"\tmodel_fixed={sh (runH { codeQuirks with symFnIgnoresFirst := false })}"
        ++ s!"\tmodel_f2={sh (runH { codeQuirks with childVarsIndependent := false })}"
        ++ s!"\tmodel_f3={sh (runH { codeQuirks with acceptsRejected := false })}"
        ++ s!"\tmodel_f12={sh (runH Quirks.none)}"
        ++ s!"\tspec={sh specH}\ttrig={",".intercalate trig}")
    r.getD "error=bad-case"
  | _ => "error=bad-case"

end KrroodVerif.Drive.C12
