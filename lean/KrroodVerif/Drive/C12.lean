import KrroodVerif.Sexp
namespace KrroodVerif.Drive.C12
/-- stub: replaced when the model for C12 is built -/
def run (_ : Sexp) : String := "model=unimplemented\tspec=unimplemented\ttrig="
end KrroodVerif.Drive.C12
