import KrroodVerif.Sexp
import KrroodVerif.Model.Predicate
/-!
Driver for C12. One case:

`(call <fn|method|pred> (params (a) (b 8) …) (pos <arg>…) (kw (name <arg>)…) (doms (0 1 2 3) (1 4) …) (pre 0 …)
  (neg T|F) (body <salt> <modulus>) …)` with `<arg>` = `(l <value>)` or `(v <variable id>)`.

`params` are the parameters the user can bind (default value after the name). For `method` the underlying function
has `self` in front and the wrapper receives the receiver (value 0) as first positional argument; the driver adds
both, so the model sees exactly what `symbolic_function.wrapper` sees. The body's result is
`(salt + Σ (j+1)·value_j) mod modulus` over the parameter values the body receives; truth = non-zero.

Output: `model=` (code as it is: `codeQuirks`), `model_fixed=` (F-C12-1 repaired), `model_f2=` (F-C12-2 repaired),
`model_f12=` (both repaired), `spec=`, `trig=` (ids of the still-open findings whose trigger the input satisfies).
-/
namespace KrroodVerif.Drive.C12
open KrroodVerif.Pred

/-- The quirk setting of the code as it is at this commit of /verif (`model=`). When a finding is recorded as
`fixed:` switch its flag off here in the same commit: `model=` then is the repaired model and the finding's id is
no longer offered as an excuse in `trig=`. -/
def codeQuirks : Quirks := { symFnIgnoresFirst := false, childVarsIndependent := true }

def parseArg : Sexp → Option Arg
  | .list [.atom "l", v] => v.asNat?.map Arg.lit
  | .list [.atom "v", i] => i.asNat?.map Arg.var
  | _ => none

def parseParam : Sexp → Option Param
  | .list [.atom n] => some ⟨n, none⟩
  | .list [.atom n, d] => d.asNat?.map (fun d => ⟨n, some d⟩)
  | _ => none

def parseKw : Sexp → Option (String × Arg)
  | .list [.atom n, a] => (parseArg a).map (fun a => (n, a))
  | _ => none

def parseDom : Sexp → Option (Nat × List Nat)
  | .list (i :: vs) => do
    let i ← i.asNat?
    let vs ← vs.mapM Sexp.asNat?
    pure (i, vs)
  | _ => none

def showArg : Arg → String
  | .lit v => toString v
  | .var i => s!"?{i}"

def showTuple (xs : List String) : String := "(" ++ ",".intercalate xs ++ ")"

def showOutcome (body : List Nat → Nat) : Outcome → String
  | .invalid => "invalid"
  | .concrete (.error _) => "exc:TypeError"
  | .concrete (.ok t) =>
    let r := body (t.map (subst Env.empty))
    "C " ++ showTuple (t.map showArg) ++ (if r != 0 then " T" else " F")
  | .symbolic (.error _) => "S exc:TypeError"
  | .symbolic (.ok o) =>
    "S log=" ++ showList (sortStrings (o.log.map (fun t => showTuple (t.map toString))))
      ++ " rows=" ++ showList (sortStrings (dedupStrings (o.rows.map (fun t => showTuple (t.map toString)))))

def mkBody (salt m : Nat) : List Nat → Nat := fun t =>
  let rec go : Nat → List Nat → Nat
    | _, [] => 0
    | j, v :: r => (j + 1) * v + go (j + 1) r
  (salt + go 0 t) % m

def run (s : Sexp) : String :=
  match s with
  | .list (.atom "call" :: .atom kind :: items) =>
    let r : Option String := do
      let params ← (← Sexp.field? items "params").mapM parseParam
      let pos ← (← Sexp.field? items "pos").mapM parseArg
      let kw ← (← Sexp.field? items "kw").mapM parseKw
      let doms ← (← Sexp.field? items "doms").mapM parseDom
      let pre ← (← Sexp.field? items "pre").mapM Sexp.asNat?
      let neg ← match Sexp.field? items "neg" with
        | some [b] => b.asBool?
        | _ => none
      let (salt, m) ← match Sexp.field? items "body" with
        | some [a, b] => do pure (← a.asNat?, ← b.asNat?)
        | _ => none
      let call : Call ← match kind with
        | "fn" => some ⟨.symFn, params, pos, kw⟩
        | "method" => some ⟨.symFn, ⟨"self", none⟩ :: params, .lit 0 :: pos, kw⟩
        | "pred" => some ⟨.pred, params, pos, kw⟩
        | _ => none
      let body := mkBody salt m
      let x : Experiment := ⟨call, fun i => (doms.lookup i).getD [], pre, neg, body⟩
      let sh := showOutcome body
      let trig := (if codeQuirks.symFnIgnoresFirst && trigPositional call then ["F-C12-1"] else [])
        ++ (if codeQuirks.childVarsIndependent && trigShared x then ["F-C12-2"] else [])
      pure (s!"model={sh (Pred.run codeQuirks x)}"
        ++ s!"\tmodel_fixed={sh (Pred.run { codeQuirks with symFnIgnoresFirst := false } x)}"
        ++ s!"\tmodel_f2={sh (Pred.run { codeQuirks with childVarsIndependent := false } x)}"
        ++ s!"\tmodel_f12={sh (Pred.run Quirks.none x)}"
        ++ s!"\tspec={sh (Pred.spec x)}\ttrig={",".intercalate trig}")
    r.getD "error=bad-case"
  | _ => "error=bad-case"

end KrroodVerif.Drive.C12
