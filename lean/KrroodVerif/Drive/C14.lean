import KrroodVerif.Sexp
namespace KrroodVerif.Drive.C14
/-- stub: replaced when the model for C14 is built -/
def run (_ : Sexp) : String := "model=unimplemented\tspec=unimplemented\ttrig="
end KrroodVerif.Drive.C14
