import KrroodVerif.Sexp
import KrroodVerif.Model.SymbolGraph
import KrroodVerif.Drive.SG
/-!
C14 driver. Case: `(h <op> …)`. Observation: the relation triples among live instances and the contents of the
managed fields of live instances, or `exc` when an assertion raised.
`model=` the code as it is (`remove_node` repaired, F-C14-1 fixed by c18b52a; dead neighbours left out of the transitive
inference, F-C14-2 fixed), `model_repaired=` every quirk off, `spec=` the history read at the level of objects (`specRun`), which by `C14_fresh_equiv` is what the same
assertions give on a fresh graph.
-/
namespace KrroodVerif.Drive.C14
open KrroodVerif KrroodVerif.SG KrroodVerif.Drive.SG

def showObs : Option (List (Fld × Obj × Obj) × List (Obj × Fld × Obj)) → String
  | none => "exc"
  | some (rels, flds) =>
    -- field 9 is a strong reference that is no managed field (role taker of a role, item of a holder)
    let flds := flds.filter (fun t => t.2.1 != 9 && t.2.1 != 4)
    "rels=" ++ show3 rels ++ " fields=" ++ showList ((sort3 flds).map fun t => s!"{t.1}.{t.2.1}={t.2.2}")

def run (s : Sexp) : String :=
  match s with
  | .list (.atom "h" :: xs) =>
    match parseX xs with
    | some ops =>
      let st := runXS schema Quirks.asIs (St.init lifo) ops
      let str := runXS schema Quirks.none (St.init lifo) ops
      let sps := specRunX schema Quirks.asIs ops
      -- an adopted container whose donor is still alive is shared by two instances: outside the model
      let sk := fun (b : Bool) (x : String) => if b then "skip" else x
      let m := sk (aliased st.h) (showObs st.relObs)
      let mr := sk (aliased str.h) (showObs str.relObs)
      let sp := sk (aliased sps.h) (showObs sps.relObs)
      -- (F-C14-2, a dead unswept instance met by the transitive inference, is repaired in /repo: no case is attributed
      -- to it any more; C14 has no open finding)
      s!"model={m}\tspec={sp}\ttrig=\tmodel_repaired={mr}"
    | none => "error=bad-case"
  | _ => "error=bad-case"
end KrroodVerif.Drive.C14
