import KrroodVerif.Sexp
import KrroodVerif.Model.SymbolGraph
import KrroodVerif.Drive.SG
/-!
C20 driver. Case: `(loop n <op> …)`: the body is run `n` times (labels and query keys of iteration `i` are shifted
by `1000·i`); after each iteration every user reference (instances, query objects) is dropped, `gc.collect()`,
`remove_dead_instances()`, and the size of every krrood-held structure is recorded.
Observation: the instances that survive, and per structure `flat|grow|mixed` over the last three iterations
(+ `clean|stale`: entries left behind that belong to no live instance).
-/
namespace KrroodVerif.Drive.C20
open KrroodVerif KrroodVerif.SG KrroodVerif.Drive.SG

/-- labels 900 … 999 name the long-lived instances created before the loop: they are not shifted -/
def sh (d l : Nat) : Nat := if 900 ≤ l && l < 1000 then l else l + d

def shiftOp (d : Nat) : Op → Op
  | .new o c p => .new (sh d o) c p
  | .drop o => .drop (sh d o)
  | .rel f s t => .rel f (sh d s) (sh d t)
  | .set f s t => .set f (sh d s) (sh d t)
  | .mkq k c dom => .mkq (k + d) c (dom.map (·.map (sh d)))
  | .evalq k => .evalq (k + d)
  | .dropq k => .dropq (k + d)
  | op => op

def shiftX (d : Nat) : XOp → XOp
  | .m op => .m (shiftOp d op)
  | .attach r o => .attach (sh d r) (sh d o)
  | .detach r => .detach (sh d r)
  | .newrole o e => .newrole (sh d o) (sh d e)
  | .roleset f o g => .roleset f (sh d o) (sh d g)
  | .newholder o r => .newholder (sh d o) (sh d r)
  | .clone o s deep => .clone (sh d o) (sh d s) deep

def runX (q : Quirks) (st : DSt) (ops : List XOp) : DSt := runXS schema q st ops

def cleanup (body : List XOp) : List XOp :=
  let dq : List Op := body.filterMap (fun op => match op with | XOp.m (Op.mkq k _ _) => some (Op.dropq k) | _ => none)
  let dr : List Op := body.filterMap (fun op => match op with
    | XOp.m (Op.new o _ _) => some (Op.drop o) | XOp.newrole o _ => some (Op.drop o)
    | XOp.newholder o _ => some (Op.drop o) | XOp.clone o _ _ => some (Op.drop o) | _ => none)
  (dq ++ dr ++ [Op.sweep]).map XOp.m

structure Sizes where
  nodes : Nat
  cls : Nat
  edges : Nat
  rel : Nat
  exprs : Nat

def sizes (st : DSt) : Sizes := ⟨st.g.nodes.length, st.g.byClass.length, st.g.edges.length, st.g.relIdx.length, st.h.exprs⟩

def classify (l : List Nat) : String :=
  match l.reverse with
  | c :: b :: a :: _ => if a < b && b < c then "grow" else if a == b && b == c then "flat" else "mixed"
  | _ => "short"

def relStale (st : DSt) : Bool :=
  st.g.relIdx.any (fun r => !st.g.edges.any (fun e => e.fld == r.1 && e.src.idx == r.2.1 && e.tgt.idx == r.2.2))

/-- run the loop; returns the final state, the sizes after every iteration, and the instances that were
registered and died in the LAST clean-up (their `_instance_index` entries cannot have been overwritten) -/
def runLoop (q : Quirks) (n : Nat) (pre body : List XOp) : DSt × List Sizes × Bool × Bool :=
  let rec go (i : Nat) (fuel : Nat) (st : DSt) (acc : List Sizes) (diedLast diedEver : Bool) :
      DSt × List Sizes × Bool × Bool :=
    match fuel with
    | 0 => (runX q st (cleanup pre), acc, diedLast, diedEver)
    | fuel + 1 =>
      let b := body.map (shiftX (1000 * i))
      let st1 := runX q st b
      let before := st1.h.live.map (·.obj)
      let st2 := runX q st1 (cleanup b)
      let died := before.any (fun o => !st2.h.isLive o)
      let diedBody := (st.h.live.map (·.obj) ++
          (b.filterMap fun op => match op with
            | .m (.new o _ _) => some o | .newrole o _ => some o | .newholder o _ => some o | .clone o _ _ => some o
            | _ => none)).any
        (fun o => !st2.h.isLive o)
      go (i + 1) fuel st2 (acc ++ [sizes st2]) died (diedEver || diedBody)
  go 0 n (runX q (St.init lifo) pre) [] false false

def obs (q : Quirks) (n : Nat) (pre body : List XOp) : String :=
  let (st, ss, diedLast, diedEver) := runLoop q n pre body
  if st.err then "exc" else
  let surv := sortNat (st.h.live.map (·.obj))
  let inst := if !q.keepDeadIndex then "clean" else if diedLast then "stale" else if diedEver then "?" else "clean"
  let rel := classify (ss.map (·.rel)) ++ "/" ++ (if relStale st then "stale" else "clean")
  s!"surv={showNats surv} nodes={classify (ss.map (·.nodes))} cls={classify (ss.map (·.cls))} " ++
  s!"edges={classify (ss.map (·.edges))} rel={rel} inst={inst} expr={classify (ss.map (·.exprs))} rx={classify (ss.map (·.exprs))}"

def specObs : String := "surv=[] nodes=flat cls=flat edges=flat rel=flat/clean inst=clean expr=flat rx=flat"

def run (s : Sexp) : String :=
  match s with
  | .list (.atom "loop" :: n :: xs) =>
    let (preS, bodyS) := match xs with
      | .list (.atom "pre" :: p) :: r => (p, r)
      | _ => ([], xs)
    match n.asNat?, parseX preS, parseX bodyS with
    | some n, some pre, some body =>
      let hasQuery := (pre ++ body).any (fun op => match op with | .m (.mkq ..) => true | _ => false)
      let trig := joinTrig [(hasQuery, "F-C20-1")]
      s!"model={obs Quirks.asIs n pre body}\tspec={specObs}\ttrig={trig}"
    | _, _, _ => "error=bad-case"
  | _ => "error=bad-case"
end KrroodVerif.Drive.C20
