import KrroodVerif.Sexp
namespace KrroodVerif.Drive.C20
/-- stub: replaced when the model for C20 is built -/
def run (_ : Sexp) : String := "model=unimplemented\tspec=unimplemented\ttrig="
end KrroodVerif.Drive.C20
