import KrroodVerif.Sexp
import KrroodVerif.Model.SymbolGraph
import KrroodVerif.Drive.SG
/-!
C20 driver. Case: `(loop n <op> …)`: the body is run `n` times (labels and query keys of iteration `i` are shifted
by `1000·i`); after each iteration every user reference (instances, query objects) is dropped, `gc.collect()`,
`remove_dead_instances()`, and the size of every krrood-held structure is recorded.
Observation: the instances that survive, and per structure `flat|grow|mixed` over the last three iterations
(+ `clean|stale`: entries left behind that belong to no live instance).
-/
namespace KrroodVerif.Drive.C20
open KrroodVerif KrroodVerif.SG KrroodVerif.Drive.SG

/-- labels 900 … 999 name the long-lived instances created before the loop: they are not shifted -/
def sh (d l : Nat) : Nat := if 900 ≤ l && l < 1000 then l else l + d

def shiftOp (d : Nat) : Op → Op
  | .new o c p => .new (sh d o) c p
  | .drop o => .drop (sh d o)
  | .rel f s t => .rel f (sh d s) (sh d t)
  | .set f s t => .set f (sh d s) (sh d t)
  | .mkq k c dom => .mkq (k + d) c (dom.map (·.map (sh d)))
  | .evalq k => .evalq (k + d)
  | .dropq k => .dropq (k + d)
  | .newrole o c p e => .newrole (sh d o) c p (sh d e)
  | op => op

def shiftX (d : Nat) : XOp → XOp
  | .m op => .m (shiftOp d op)
  | .attach r o => .attach (sh d r) (sh d o)
  | .detach r => .detach (sh d r)
  | .newholder o r => .newholder (sh d o) (sh d r)
  | .clone o s deep => .clone (sh d o) (sh d s) deep
  | .adopt o s f => .adopt (sh d o) (sh d s) f
  | .unlist f s t => .unlist f (sh d s) (sh d t)

def runX (q : Quirks) (st : DSt) (ops : List XOp) : DSt := runXS schema q st ops

/-- loop operations: the shared ones, plus a lazily consumed evaluation split into "call `evaluate()`" (`qstart`) and
"consume it" (`qdrain` = `next()` until it ends) with anything in between; after every consumed evaluation the driver
counts the wrappers of the registry that belong to no live instance (`dead=`: the maximum seen) -/
inductive LOp where
  | x (op : XOp)
  | qstart (k : Nat) (c : Cls)
  | qdrain (k : Nat)
  /-- one `next()` of the evaluation `k`: the first one sweeps and starts the walk of the class lists; whatever the body
  does before the next `qnext` / `qdrain` happens while the evaluation is SUSPENDED (an instance may die after the
  evaluation's sweep and before its lazy walk reaches the wrapper) -/
  | qnext (k : Nat)
  /-- `(queryr c s)`: a RULE query with a conclusion (`Add(p, inference(Item)(a=x))`, `x = let(c, None)`), evaluated to
  the end and dropped with everything it produced. For the registry an evaluation over `c` like any other. `sel` = the
  selected variable is the INFERRED one (`inference(View)()`): finding F-C20-3, see `LSt.rulePins` -/
  | ruleq (k : Nat) (c : Cls) (sel : Bool)

structure LSt where
  st : DSt
  iters : List Iter := []
  dead : Nat := 0
  raised : Bool := false
  /-- instances of a loop body that only DECLARES queries (`mkq`, never evaluated) which are still alive after the user
  dropped every instance of the body while the declared query objects are still held: a declared, not yet evaluated query
  has not ranged over anything and must pin nothing (maximum over the iterations) -/
  pin : Nat := 0
  /-- driver-level quirk (F-C20-3, open): `QueryObjectDescriptor.variable_is_bound_or_its_children_are_bound` is an
  `lru_cache` on a method — the process-wide cache keys on the query descriptor (its whole expression tree) and on every
  `OperationResult` (the bindings: the instances the evaluation ranged over). It is consulted when a SELECTED variable is
  an inferred one and the conditions had at least one solution. In the model's own terms: the query object of such an
  evaluation is never dropped (its cached domain stays a root). Off = `fixes/C20_conclusion_cache.diff`. -/
  rulePins : Bool := false

def shiftL (d : Nat) : LOp → LOp
  | .x op => .x (shiftX d op)
  | .qstart k c => .qstart (k + d) c
  | .qdrain k => .qdrain (k + d)
  | .qnext k => .qnext (k + d)
  | .ruleq k c s => .ruleq (k + d) c s

def drain (q : Quirks) (st : DSt) (it : Iter) : Nat → DSt × Iter
  | 0 => (st, it)
  | fuel + 1 =>
    if it.status != 0 then (st, it)
    else let r := advance q false true schema schema st it; drain q r.1 r.2 fuel

/-- right after a consumed evaluation: the wrappers of the registry whose instance is dead (the evaluation swept
before it read its domain, so there is none unless an instance died while it ran) -/
def probeL (r : LSt) : LSt :=
  { r with dead := max r.dead ((r.st.g.nodes.filter (fun w => !r.st.h.isLive w.obj)).length) }

def stepL (q : Quirks) (r : LSt) : LOp → LSt
  | .x op =>
    let st := runX q r.st [op]
    match op with
    | .m (.evalq k) => if r.st.h.qvars.any (fun v => v.key == k) then probeL { r with st := st } else { r with st := st }
    | _ => { r with st := st }
  | .qstart k c =>
    if r.st.err || r.iters.any (fun it => it.key == k) then r
    else { r with st := stepD q r.st (.mkq (iterKey k) c none), iters := r.iters ++ [{ key := k, cls := c }] }
  | .qdrain k =>
    match r.iters.find? (fun it => it.key == k) with
    | none => r
    | some it =>
      if r.st.err then r else
      let (st, it') := drain q r.st it (r.st.g.nodes.length + 3)
      let r' := { r with st := st, iters := r.iters.map (fun x => if x.key == k then it' else x),
                         raised := r.raised || it'.status == 2 }
      -- an evaluation that was suspended before may leave wrappers of instances that died meanwhile (until the next
      -- sweep): the dead wrappers are counted only when the drain ran the evaluation from its start
      if it.started then r' else probeL r'
  | .qnext k =>
    match r.iters.find? (fun it => it.key == k) with
    | none => r
    | some it =>
      if r.st.err then r else
      let (st, it') := advance q false true schema schema r.st it
      { r with st := st, iters := r.iters.map (fun x => if x.key == k then it' else x),
               raised := r.raised || it'.status == 2 }
  | .ruleq k c sel =>
    if r.st.err then r else
    let st := stepD q (stepD q r.st (.mkq k c none)) (.evalq k)
    let solved := st.h.qvars.any (fun v => v.key == k && !(v.cache.getD []).isEmpty)
    if sel && r.rulePins && solved then { r with st := st } else { r with st := stepD q st (.dropq k) }

def runL (q : Quirks) (r : LSt) (ops : List LOp) : LSt := ops.foldl (stepL q) r

def parseL (xs : List Sexp) : Option (List LOp) :=
  let rec go (pos : Nat) : List Sexp → Option (List LOp)
    | [] => some []
    | x :: r => do
      let a ← match x with
        | .list [.atom "qstart", k, c] => do pure [LOp.qstart (← k.asNat?) (← c.asNat?)]
        | .list [.atom "qdrain", k] => do pure [LOp.qdrain (← k.asNat?)]
        | .list [.atom "qnext", k] => do pure [LOp.qnext (← k.asNat?)]
        | .list [.atom "queryr", c, s] => do pure [LOp.ruleq (200000 + pos) (← c.asNat?) ((← s.asNat?) != 0)]
        -- a query whose condition is a user-defined predicate (plain / flagged `is_expensive` / a symbolic function) over
        -- two variables of class `c`: for the registry an evaluation over `c` like any other
        | .list [.atom "queryp", c, _] => do
            let c ← c.asNat?
            pure ([Op.mkq (100000 + pos) c none, .evalq (100000 + pos), .dropq (100000 + pos)].map (LOp.x ∘ XOp.m))
        | .list (.atom "querypd" :: c :: _ :: dom) => do
            let c ← c.asNat?
            pure ([Op.mkq (100000 + pos) c (some (← dom.mapM Sexp.asNat?)), .evalq (100000 + pos),
              .dropq (100000 + pos)].map (LOp.x ∘ XOp.m))
        | _ => do pure ((← parseXOne pos x).map LOp.x)
      let b ← go (pos + 1) r
      pure (a ++ b)
  go 0 xs

def cleanup (body : List LOp) : List LOp :=
  let dq : List Op := body.filterMap (fun op => match op with
    | .x (XOp.m (Op.mkq k _ _)) => some (Op.dropq k) | .qstart k _ => some (Op.dropq (iterKey k)) | _ => none)
  let dr : List Op := body.filterMap (fun op => match op with
    | .x (XOp.m (Op.new o _ _)) => some (Op.drop o) | .x (XOp.m (Op.newrole o _ _ _)) => some (Op.drop o)
    | .x (XOp.newholder o _) => some (Op.drop o) | .x (XOp.clone o _ _) => some (Op.drop o)
    | .x (XOp.adopt o _ _) => some (Op.drop o) | _ => none)
  (dq ++ dr ++ [Op.sweep]).map (fun o => LOp.x (XOp.m o))

/-- the operation runs (part of) an evaluation -/
def evaluates : LOp → Bool
  | .x (.m (.evalq _)) => true
  | .qstart .. => true
  | .qdrain _ => true
  | .qnext _ => true
  | .ruleq .. => true
  | _ => false

structure Sizes where
  nodes : Nat
  cls : Nat
  edges : Nat
  rel : Nat
  exprs : Nat

def sizes (st : DSt) : Sizes := ⟨st.g.nodes.length, st.g.byClass.length, st.g.edges.length, st.g.relIdx.length, st.h.exprs⟩

def classify (l : List Nat) : String :=
  match l.reverse with
  | c :: b :: a :: _ => if a < b && b < c then "grow" else if a == b && b == c then "flat" else "mixed"
  | _ => "short"

def relStale (st : DSt) : Bool :=
  st.g.relIdx.any (fun r => !st.g.edges.any (fun e => e.fld == r.1 && e.src.idx == r.2.1 && e.tgt.idx == r.2.2))

/-- run the loop; returns the final state, the sizes after every iteration, and the instances that were
registered and died in the LAST clean-up (their `_instance_index` entries cannot have been overwritten) -/
def runLoop (q : Quirks) (n : Nat) (pre body : List LOp) (rulePins : Bool := false) : LSt × List Sizes × Bool × Bool :=
  let rec go (i : Nat) (fuel : Nat) (r : LSt) (acc : List Sizes) (diedLast diedEver : Bool) :
      LSt × List Sizes × Bool × Bool :=
    match fuel with
    | 0 => (runL q r (cleanup pre), acc, diedLast, diedEver)
    | fuel + 1 =>
      let b := body.map (shiftL (1000 * i))
      let r1 := runL q r b
      let before := r1.st.h.live.map (·.obj)
      -- a body that declares queries without evaluating any: the instances are dropped FIRST, and what is still alive while
      -- the declared queries are held is counted (`pin`); every other body is cleaned up as before (queries first)
      let declOnly := b.any (fun op => match op with | .x (.m (.mkq ..)) => true | _ => false) &&
        !b.any evaluates
      let created := b.filterMap fun op => match op with
        | .x (.m (.new o _ _)) => some o | .x (.m (.newrole o _ _ _)) => some o | .x (.newholder o _) => some o
        | .x (.clone o _ _) => some o | .x (.adopt o _ _) => some o | _ => none
      let rI := if declOnly then runL q r1 (created.map fun o => LOp.x (XOp.m (Op.drop o))) else r1
      let r1 := if declOnly then { rI with pin := max rI.pin ((created.filter rI.st.h.isLive).length) } else r1
      let r2 := runL q r1 (cleanup b)
      let died := before.any (fun o => !r2.st.h.isLive o)
      let diedBody := (r.st.h.live.map (·.obj) ++
          (b.filterMap fun op => match op with
            | .x (.m (.new o _ _)) => some o | .x (.m (.newrole o _ _ _)) => some o | .x (.newholder o _) => some o
            | .x (.clone o _ _) => some o | .x (.adopt o _ _) => some o | _ => none)).any
        (fun o => !r2.st.h.isLive o)
      go (i + 1) fuel r2 (acc ++ [sizes r2.st]) died (diedEver || diedBody)
  go 0 n (runL q { st := St.init lifo, rulePins := rulePins } pre) [] false false

def obs (q : Quirks) (n : Nat) (pre body : List LOp) (rulePins : Bool := false) : String :=
  let (r, ss, diedLast, diedEver) := runLoop q n pre body rulePins
  let st := r.st
  if st.err then "exc" else
  let surv := sortNat (st.h.live.map (·.obj))
  let inst := if !q.keepDeadIndex then "clean" else if diedLast then "stale" else if diedEver then "?" else "clean"
  let rel := classify (ss.map (·.rel)) ++ "/" ++ (if relStale st then "stale" else "clean")
  s!"surv={showNats surv} nodes={classify (ss.map (·.nodes))} cls={classify (ss.map (·.cls))} " ++
  s!"edges={classify (ss.map (·.edges))} rel={rel} inst={inst} expr={classify (ss.map (·.exprs))} rx={classify (ss.map (·.exprs))}" ++
  s!" dead={r.dead} pin={r.pin}" ++ (if r.raised then " raised" else "")

def specObs : String := "surv=[] nodes=flat cls=flat edges=flat rel=flat/clean inst=clean expr=flat rx=flat dead=0 pin=0"

def run (s : Sexp) : String :=
  match s with
  | .list (.atom "loop" :: n :: xs) =>
    let (preS, bodyS) := match xs with
      | .list (.atom "pre" :: p) :: r => (p, r)
      | _ => ([], xs)
    match n.asNat?, parseL preS, parseL bodyS with
    | some n, some pre, some body =>
      -- F-C20-1 (expression table leak) and F-C20-3 (lru_cache on a method of the query descriptor pinned the results of
      -- rule queries with an inferred selected variable) are repaired in /repo: `model=` is the model without the
      -- driver-level quirk, no open finding has a trigger here; `model_asfound=` keeps the quirk for the record
      let trig := joinTrig []
      s!"model={obs Quirks.asIs n pre body false}\tmodel_asfound={obs Quirks.asIs n pre body true}\tspec={specObs}\ttrig={trig}"
    | _, _, _ => "error=bad-case"
  | _ => "error=bad-case"
end KrroodVerif.Drive.C20
