import KrroodVerif.Sexp
import KrroodVerif.Model.SymbolGraph
import KrroodVerif.Drive.SG
/-!
C20 driver. Case: `(loop n <op> …)`: the body is run `n` times (labels and query keys of iteration `i` are shifted
by `1000·i`); after each iteration every user reference (instances, query objects) is dropped, `gc.collect()`,
`remove_dead_instances()`, and the size of every krrood-held structure is recorded.
Observation: the instances that survive, and per structure `flat|grow|mixed` over the last three iterations
(+ `clean|stale`: entries left behind that belong to no live instance).
-/
namespace KrroodVerif.Drive.C20
open KrroodVerif KrroodVerif.SG KrroodVerif.Drive.SG

def shiftOp (d : Nat) : Op → Op
  | .new o c p => .new (o + d) c p
  | .drop o => .drop (o + d)
  | .rel f s t => .rel f (s + d) (t + d)
  | .set f s t => .set f (s + d) (t + d)
  | .mkq k c dom => .mkq (k + d) c (dom.map (·.map (· + d)))
  | .evalq k => .evalq (k + d)
  | .dropq k => .dropq (k + d)
  | op => op

def cleanup (body : List Op) : List Op :=
  body.filterMap (fun op => match op with | .mkq k _ _ => some (.dropq k) | _ => none) ++
  body.filterMap (fun op => match op with | .new o _ _ => some (.drop o) | _ => none) ++ [.sweep]

structure Sizes where
  nodes : Nat
  cls : Nat
  edges : Nat
  rel : Nat
  exprs : Nat

def sizes (st : DSt) : Sizes := ⟨st.g.nodes.length, st.g.byClass.length, st.g.edges.length, st.g.relIdx.length, st.h.exprs⟩

def classify (l : List Nat) : String :=
  match l.reverse with
  | c :: b :: a :: _ => if a < b && b < c then "grow" else if a == b && b == c then "flat" else "mixed"
  | _ => "short"

def relStale (st : DSt) : Bool :=
  st.g.relIdx.any (fun r => !st.g.edges.any (fun e => e.fld == r.1 && e.src.idx == r.2.1 && e.tgt.idx == r.2.2))

/-- run the loop; returns the final state, the sizes after every iteration, and the instances that were
registered and died in the LAST clean-up (their `_instance_index` entries cannot have been overwritten) -/
def runLoop (q : Quirks) (n : Nat) (body : List Op) : DSt × List Sizes × Bool × Bool :=
  let rec go (i : Nat) (fuel : Nat) (st : DSt) (acc : List Sizes) (diedLast diedEver : Bool) :
      DSt × List Sizes × Bool × Bool :=
    match fuel with
    | 0 => (st, acc, diedLast, diedEver)
    | fuel + 1 =>
      let b := body.map (shiftOp (1000 * i))
      let st1 := runFrom q st b
      let before := st1.h.live.map (·.obj)
      let st2 := runFrom q st1 (cleanup b)
      let died := before.any (fun o => !st2.h.isLive o)
      let diedBody := (st.h.live.map (·.obj) ++ (b.filterMap fun op => match op with | .new o _ _ => some o | _ => none)).any
        (fun o => !st2.h.isLive o)
      go (i + 1) fuel st2 (acc ++ [sizes st2]) died (diedEver || diedBody)
  go 0 n (St.init lifo) [] false false

def obs (q : Quirks) (n : Nat) (body : List Op) : String :=
  let (st, ss, diedLast, diedEver) := runLoop q n body
  if st.err then "exc" else
  let surv := sortNat (st.h.live.map (·.obj))
  let inst := if !q.keepDeadIndex then "clean" else if diedLast then "stale" else if diedEver then "?" else "clean"
  let rel := classify (ss.map (·.rel)) ++ "/" ++ (if relStale st then "stale" else "clean")
  s!"surv={showNats surv} nodes={classify (ss.map (·.nodes))} cls={classify (ss.map (·.cls))} " ++
  s!"edges={classify (ss.map (·.edges))} rel={rel} inst={inst} expr={classify (ss.map (·.exprs))} rx={classify (ss.map (·.exprs))}"

def specObs : String := "surv=[] nodes=flat cls=flat edges=flat rel=flat/clean inst=clean expr=flat rx=flat"

def run (s : Sexp) : String :=
  match s with
  | .list (.atom "loop" :: n :: xs) =>
    match n.asNat?, parseOps xs with
    | some n, some body =>
      let hasQuery := body.any (fun op => match op with | .mkq .. => true | _ => false)
      let hasNew := body.any (fun op => match op with | .new .. => true | _ => false)
      let _ := hasNew
      let trig := joinTrig [(hasQuery, "F-C20-1")]
      s!"model={obs Quirks.asIs n body}\tspec={specObs}\ttrig={trig}"
    | _, _ => "error=bad-case"
  | _ => "error=bad-case"
end KrroodVerif.Drive.C20
