import KrroodVerif.Sexp
import KrroodVerif.Model.Json
/-!
Case-line parsing and canonical printing shared by Drive/C18 and Drive/C19 (M-JSON). No logic of the model lives
here: environments are turned into lookup functions, values and JSON trees are read and printed.

strings   : an atom (bare or double-quoted) or `(cp n n …)` (code points; used for anything not plain ASCII)
json      : `null | true | false | (int n) | (float bits) | (str S) | (arr j…) | (obj (S j)…)`
class     : `(k IDENT MODULE NAME)`
value     : `N | T | F | (i n) | (f bits) | (s S) | (x CLASS S) | (l v…) | (o CLASS (S v)…)`
env       : `(env (mod S ok|notFound|importErr|valueErr|typeErr)… (attr S S missing|(nonclass KIND)|(cls CLASS ser reg [impl]))…)` (T|F each; impl defaults to T)
-/
namespace KrroodVerif.Drive.JsonIO
open KrroodVerif.Json

def parseStr : Sexp → Option String
  | .atom s => some s
  | .list (.atom "cp" :: ns) => (ns.mapM Sexp.asNat?).map fun cs => String.ofList (cs.map Char.ofNat)
  | _ => none

partial def parseJson : Sexp → Option Json
  | .atom "null" => some .null
  | .atom "true" => some (.bool true)
  | .atom "false" => some (.bool false)
  | .list [.atom "int", n] => n.asInt?.map .int
  | .list [.atom "float", n] => n.asNat?.map .float
  | .list [.atom "str", s] => (parseStr s).map .str
  | .list (.atom "arr" :: xs) => (xs.mapM parseJson).map .arr
  | .list (.atom "obj" :: kvs) =>
    (kvs.mapM fun (kv : Sexp) => match kv with
      | .list [k, v] => do let k ← parseStr k; let v ← parseJson v; pure (k, v)
      | _ => none).map .obj
  | _ => none

def parseCls : Sexp → Option Cls
  | .list [.atom "k", i, m, n] => do
    let i ← parseStr i; let m ← parseStr m; let n ← parseStr n; pure ⟨i, m, n⟩
  | _ => none

partial def parseVal : Sexp → Option PyVal
  | .atom "N" => some .none
  | .atom "T" => some (.bool true)
  | .atom "F" => some (.bool false)
  | .list [.atom "i", n] => n.asInt?.map .int
  | .list [.atom "f", n] => n.asNat?.map .float
  | .list [.atom "s", s] => (parseStr s).map .str
  | .list [.atom "x", c, p] => do let c ← parseCls c; let p ← parseStr p; pure (.ext c p)
  | .list (.atom "l" :: xs) => (xs.mapM parseVal).map .list
  | .list (.atom "o" :: c :: kvs) => do
    let c ← parseCls c
    let fs ← kvs.mapM fun (kv : Sexp) => match kv with
      | .list [k, v] => do let k ← parseStr k; let v ← parseVal v; pure (k, v)
      | _ => none
    pure (.obj c fs)
  | _ => none

/-- values with sharing: `(def n V)` = first occurrence of the object labelled `n`, `(ref n)` = the same object again -/
partial def parseSVal : Sexp → Option SVal
  | .list [.atom "def", n, v] => do let n ← n.asNat?; let v ← parseSVal v; pure (.defn n v)
  | .list [.atom "ref", n] => n.asNat?.map .ref
  | .list (.atom "l" :: xs) => (xs.mapM parseSVal).map .list
  | .list (.atom "o" :: c :: kvs) => do
    let c ← parseCls c
    let fs ← kvs.mapM fun (kv : Sexp) => match kv with
      | .list [k, v] => do let k ← parseStr k; let v ← parseSVal v; pure (k, v)
      | _ => none
    pure (.obj c fs)
  | s => (parseVal s).map .leaf

/-- the tree a (possibly shared) value of a case line stands for -/
def parseTree (s : Sexp) : Option PyVal := (parseSVal s).bind SVal.tree

/-- operations of a registry history: `(reg CLASS KEY) | (ser VALUE) | (rt VALUE) | (de CLASS KEY TOKEN)` -/
inductive HCase where
  | register (c : Cls) (key : String)
  | ser (v : PyVal)
  | rt (v : PyVal)
  | de (c : Cls) (key tok : String)

def parseHCase : Sexp → Option HCase
  | .list [.atom "reg", c, k] => do let c ← parseCls c; let k ← parseStr k; pure (.register c k)
  | .list [.atom "ser", v] => (parseTree v).map .ser
  | .list [.atom "rt", v] => (parseTree v).map .rt
  | .list [.atom "de", c, k, t] => do
    let c ← parseCls c; let k ← parseStr k; let t ← parseStr t; pure (.de c k t)
  | _ => none

def parseImport : Sexp → Option ImportOutcome
  | .atom "ok" => some .ok | .atom "notFound" => some .notFound | .atom "importErr" => some .importErr
  | .atom "valueErr" => some .valueErr | .atom "typeErr" => some .typeErr | _ => none

def parseKind : Sexp → Option AttrKind
  | .atom "missing" => some .missing
  | .list [.atom "nonclass", .atom k] =>
    (match k with
     | "function" => some NonClassKind.function | "typevar" => some .typevar | "module" => some .module
     | "instance" => some .instance | _ => none).map .nonClass
  | .list [.atom "cls", c, s, r] => do
    let c ← parseCls c; let s ← s.asBool?; let r ← r.asBool?; pure (.cls c s r true)
  | .list [.atom "cls", c, s, r, i] => do
    let c ← parseCls c; let s ← s.asBool?; let r ← r.asBool?; let i ← i.asBool?; pure (.cls c s r i)
  | _ => none

structure EnvData where
  mods : List (String × ImportOutcome)
  attrs : List ((String × String) × AttrKind)

def parseEnv : Sexp → Option EnvData
  | .list (.atom "env" :: es) =>
    es.foldlM (init := (⟨[], []⟩ : EnvData)) fun acc e =>
      match e with
      | .list [.atom "mod", m, o] => do
        let m ← parseStr m; let o ← parseImport o; pure { acc with mods := acc.mods ++ [(m, o)] }
      | .list [.atom "attr", m, n, k] => do
        let m ← parseStr m; let n ← parseStr n; let k ← parseKind k
        pure { acc with attrs := acc.attrs ++ [((m, n), k)] }
      | _ => none
  | _ => none

/-- the environment as the lookup functions the model takes (unlisted names: not importable / no such attribute;
the drivers refuse a case whose model run would consult an unlisted name, see `covers`) -/
def EnvData.toEnv (d : EnvData) : Env where
  importModule := fun m => (d.mods.lookup m).getD .notFound
  getattr := fun m n => (d.attrs.lookup (m, n)).getD .missing

def EnvData.hasMod (d : EnvData) (m : String) : Bool := (d.mods.lookup m).isSome
def EnvData.hasAttr (d : EnvData) (m n : String) : Bool := (d.attrs.lookup (m, n)).isSome

/-- does the case line list every name the resolution of `module.name` consults? -/
def EnvData.covers (d : EnvData) (m n : String) : Bool :=
  d.hasMod m && (d.toEnv.importModule m != .ok || d.hasAttr m n)

/-! ### printing -/

def docErrName : DocErr → String
  | .missingType => "MissingTypeError" | .invalidFormat => "InvalidTypeFormatError"
  | .unknownModule => "UnknownModuleError" | .classNotFound => "ClassNotFoundError"
  | .notDeserializable => "ClassNotDeserializableError"

def excName : Exc → String
  | .attributeError => "AttributeError" | .valueError => "ValueError" | .typeError => "TypeError"
  | .importError => "ImportError" | .notImplementedError => "NotImplementedError"
  | .moduleNotFoundError => "ModuleNotFoundError"

def showOutcome : Outcome → String
  | .err e => docErrName e
  | .escape x => "escape:" ++ excName x
  | .dispatch c .fromJson => "dispatch:" ++ c.ident ++ ":_from_json"
  | .dispatch c .registry => "dispatch:" ++ c.ident ++ ":registry"

def showExpect : Expect → String
  | .exactly o => showOutcome o
  | .anyDocumented => "jse*"

def insertByKey (x : String × String) : List (String × String) → List (String × String)
  | [] => [x]
  | y :: r => if x.1 < y.1 || x.1 == y.1 then x :: y :: r else y :: insertByKey x r

def sortByKey (xs : List (String × String)) : List (String × String) := xs.foldr insertByKey []

/-- canonical text of a value: exact leaf kind + opaque payload, exact class identity, fields sorted by name -/
partial def showVal : PyVal → String
  | .none => "N"
  | .bool true => "T"
  | .bool false => "F"
  | .int i => s!"i{i}"
  | .float b => s!"f{b}"
  | .str s => "s" ++ s
  | .ext c p => "x{" ++ c.ident ++ "|" ++ p ++ "}"
  | .list xs => "[" ++ ",".intercalate (xs.map showVal) ++ "]"
  | .obj c fs =>
    "o{" ++ c.ident ++ "|" ++
      ",".intercalate ((sortByKey (fs.map fun (k, v) => (k, showVal v))).map fun (k, v) => k ++ "=" ++ v) ++ "}"

def showResult : Except Err PyVal → String
  | .ok v => showVal v
  | .error (.doc e) => docErrName e
  | .error (.escape x) => "escape:" ++ excName x
  | .error .payload => "payload"

def showTag : Option Json → String
  | none => "-"
  | some (.str s) => s
  | some _ => "?"

def showTags (ts : List (Option Json)) : String := ",".intercalate (ts.map showTag)

partial def valClasses : PyVal → List Cls
  | .ext c _ => [c]
  | .list xs => xs.flatMap valClasses
  | .obj c fs => c :: fs.flatMap fun (_, v) => valClasses v
  | _ => []

/-- ids of the open findings whose (Lean-defined) trigger the tag satisfies, for the quirks still switched on -/
def trigIds (q : Quirks) (env : Env) (tag : Option Json) : List String :=
  (if q.nonStringTag && trigNonString tag then ["F-C19-1"] else []) ++
  (if q.importValueErr && trigImportValueErr env tag then ["F-C19-2"] else []) ++
  (if q.importTypeErr && trigImportTypeErr env tag then ["F-C19-3"] else []) ++
  (if q.nonClassAttr && trigNonClass env tag then ["F-C19-4"] else []) ++
  (if q.importErr && trigImportErr env tag then ["F-C19-5"] else []) ++
  (if q.abstractSerializer && trigAbstract env tag then ["F-C19-6"] else [])

def tagCovered (d : EnvData) : Option Json → Bool
  | some (.str s) => match rsplit s with | some (m, c) => d.covers m c | none => true
  | _ => true

end KrroodVerif.Drive.JsonIO
