import KrroodVerif.Sexp
import KrroodVerif.Model.Descriptor
import KrroodVerif.Drive.C15
/-!
C16 driver. Case: `(w <schema and objs as in C15> (field f) (obj a) (init x…) (ops (append x) (extend x…)
(insert i x) (setitem i x) (assign x…) (assignSelf) (iadd x…) (iaddAlias x…) (remove x) (discard x) (pop) (pop i)
(delitem i) (delslice i j) (clear)))` (`add`/`update` are accepted as synonyms of `append`/`extend` for set fields).
Output `C[contents]|R[f:s:t,…]`: contents in order for a list field, sorted for a set field; relation triples sorted.
`model=` is the code as it is (every recorded quirk is repaired: all quirks off); `before_fix=` /
`before_slice_fix=` show earlier behaviour and are not admissible alternatives.
-/
namespace KrroodVerif.Drive.C16
open KrroodVerif.PD KrroodVerif.Drive.C15

def parseView : List Sexp → Option View
  | .atom "filt" :: xs => do pure (.filt (← parseNats xs))
  | [.atom "rev"] => some .rev
  | [.atom "iter"] => some .iter
  | .atom "chain" :: xs => do pure (.chain (← parseNats xs))
  | [.atom "keys"] => some .keys
  | _ => none

def parseBound : Sexp → Option (Option Int)
  | .atom "-" => some none
  | x => x.asInt?.map some

def parseCOp : Sexp → Option COp
  | .list (.atom "setslice" :: i :: j :: .atom k :: xs) => do
      let one ← (match k with | "L" => some false | "G" => some true | _ => none)
      pure (.setslice (← parseBound i) (← parseBound j) one (← parseNats xs))
  | .list (.atom "assignView" :: v) => do pure (.assignView (← parseView v))
  | .list [.atom "append", x] => do pure (.append (← x.asNat?))
  | .list [.atom "add", x] => do pure (.append (← x.asNat?))
  | .list (.atom "extend" :: xs) => do pure (.extend (← parseNats xs))
  | .list (.atom "update" :: xs) => do pure (.extend (← parseNats xs))
  | .list [.atom "insert", i, x] => do pure (.insert (← i.asInt?) (← x.asNat?))
  | .list [.atom "setitem", i, x] => do pure (.setitem (← i.asInt?) (← x.asNat?))
  | .list (.atom "assign" :: xs) => do pure (.assign (← parseNats xs))
  | .list [.atom "assignSelf"] => some .assignSelf
  | .list (.atom "iadd" :: xs) => do pure (.iadd (← parseNats xs))
  | .list (.atom "iaddAlias" :: xs) => do pure (.iaddAlias (← parseNats xs))
  | .list [.atom "remove", x] => do pure (.remove (← x.asNat?))
  | .list [.atom "discard", x] => do pure (.discard (← x.asNat?))
  | .list [.atom "pop"] => some (.pop none)
  | .list [.atom "pop", i] => do pure (.pop (some (← i.asInt?)))
  | .list [.atom "delitem", i] => do pure (.delitem (← i.asInt?))
  | .list [.atom "delslice", i, j] => do pure (.delslice (← parseBound i) (← parseBound j))
  | .list [.atom "clear"] => some .clear
  | _ => none

def showContents (isSet : Bool) (c : List Nat) : String :=
  "C[" ++ ",".intercalate ((if isSet then hashOrder c else c).map toString) ++ "]"

/-- `(keys k0 k1 …)`: the value object i compares by; absent = all objects pairwise unequal -/
def parseKey (items : List Sexp) : Nat → Nat :=
  match (Sexp.field? items "keys").bind parseNats with
  | some ks => fun o => ks.getD o (o + ks.length + 1000)
  | none => id

def elems : COp → List Nat
  | .append x => [x] | .extend xs => xs | .insert _ x => [x] | .setitem _ x => [x]
  | .assign xs => xs | .assignSelf => [] | .iadd xs => xs | .iaddAlias xs => xs
  | .assignView (.chain xs) => xs | .assignView _ => []
  | .setslice _ _ _ xs => xs
  | .remove x => [x] | .discard x => [x]
  | .pop _ => [] | .delitem _ => [] | .delslice _ _ => [] | .clear => []

/-- the removing operations do not raise (Python semantics, along the specification run): `remove` finds an equal
element, `pop` / `del c[i]` an index in range -/
def removalsDefined (key : Nat → Nat) (isSet : Bool) (σ0 : CState) (ops : List COp) : Bool :=
  (ops.foldl (fun (acc : CState × Bool) op =>
    (specStepC key isSet acc.1 op,
     acc.2 && (match op with | .setitem _ _ => true | _ => op.defined key acc.1.c))) (σ0, true)).2

def parseTOp : Sexp → Option TOp
  | .list [.atom "adopt"] => some .adopt
  | .list [.atom "A", op] => do pure (.on .A (← parseCOp op))
  | .list [.atom "B", op] => do pure (.on .B (← parseCOp op))
  | _ => none

def telems : TOp → List Nat
  | .on _ op => elems op
  | .adopt => []

/-- the written field has a super-property field on the same class that `__init__` assigns later -/
def laterWriteback (S : Schema) (W : World) (f a : Nat) : Bool :=
  (S.superFields (W.clsOf a) (S.propOf f)).any (· > f)

/-- events outside the container: `(drop x)` the program forgets element `x` (no longer in the field: it dies),
`(fresh y)` element `y` is created only now (CPython gives it a freed address). They do not touch the container. -/
def isEnvEvent : Sexp → Bool
  | .list [.atom "drop", _] => true
  | .list [.atom "fresh", _] => true
  | .list [.atom "falsy", _] => true     -- an instance with its own `__len__` / `__bool__` becomes falsy
  | .list [.atom "truthy", _] => true
  | _ => false

/-- F-C16-9 is repaired in /repo (`is not None` instead of truthiness): the gate is off; `before_fix=` shows the old
behaviour -/
def truthinessGate : Bool := false

/-- every container operation with the quirk record of its moment: the instances falsy right then are `muted`,
and everything is when the owner `a` is falsy -/
def gateSteps (Q : Quirks) (a : Nat) (raw : List Sexp) : List (Quirks × COp) :=
  (raw.foldl (fun (acc : List Nat × List (Quirks × COp)) x =>
    match x with
    | .list [.atom "falsy", o] => (match o.asNat? with | some o => (o :: acc.1, acc.2) | none => acc)
    | .list [.atom "truthy", o] => (match o.asNat? with | some o => (acc.1.filter (· != o), acc.2) | none => acc)
    | _ => if isEnvEvent x then acc else
      match parseCOp x with
      | some op => (acc.1, acc.2 ++ [({ Q with muted := acc.1.filter (· != a), muteAll := acc.1.contains a }, op)])
      | none => acc) ([], [])).2

def droppedOf (raw : List Sexp) : List Nat :=
  raw.filterMap fun x => match x with | .list [.atom "drop", o] => o.asNat? | _ => none

/-- an element may only be dropped while the field (by Python semantics) does not hold it -/
def dropsOk (key : Nat → Nat) (isSet : Bool) (σ0 : CState) (raw : List Sexp) : Bool :=
  (raw.foldl (fun (acc : CState × Bool) x =>
    match x with
    | .list [.atom "drop", o] => (acc.1, acc.2 && (match o.asNat? with | some o => !acc.1.c.contains o | none => false))
    | .list [.atom "fresh", _] => acc
    | .list [.atom "falsy", _] => acc
    | .list [.atom "truthy", _] => acc
    | _ => match parseCOp x with
      | some op => (specStepC key isSet acc.1 op, acc.2)
      | none => (acc.1, false)) (σ0, true)).2

def liveOnly (dead : List Nat) (g : List Fact) : List Fact :=
  g.filter fun r => !dead.contains r.2.1 && !dead.contains r.2.2

/-- one entry of a constructor call: the managed fields of the class IN DATACLASS DECLARATION ORDER (the order in
which the generated `__init__` assigns them), each with the keyword argument given or its default -/
def parseCtorItem (S : Schema) (o : Nat) : Sexp → Option (List Op)
  | .list [.atom "set", f, t] => do pure [.set1 (← f.asNat?) o (← t.asNat?)]
  | .list (.atom "assign" :: f :: xs) => do pure [.assign (← f.asNat?) o (← parseNats xs)]
  -- the default: `None` for a single-valued field (nothing is stored or asserted), an empty collection otherwise
  | .list [.atom "default", f] => do
      let f ← f.asNat?
      pure (if S.kindOf f == .single then [] else [.assign f o []])
  | _ => none

/-- histories in the C15 grammar plus `(ctor o item…)`: instance `o` is created only now, by a constructor call that
assigns its managed fields one after the other -/
def parseHOp (S : Schema) : Sexp → Option (List Op)
  | .list (.atom "ctor" :: o :: items) => do
      let o ← o.asNat?
      pure ((← items.mapM (parseCtorItem S o)).flatten)
  | x => do pure [← parseOp x]

/-- the constructor context of every operation `parseHOp` yields for this history item (same length, same order):
a `(default f)` entry of a single-valued field stands for no operation, but its field still counts as "to come"
for the entries before it -/
def halvesOfHOp (S : Schema) : Sexp → List (Option Half)
  | .list (.atom "ctor" :: o :: its) =>
    match o.asNat? with
    | some o =>
      let fieldOf : Sexp → Nat := fun x => match x with | .list (_ :: f :: _) => (f.asNat?).getD 0 | _ => 0
      let hs := halvesOfCtor o (its.map fieldOf)
      (its.zip hs).flatMap fun (x, h) => match parseCtorItem S o x with
        | some ops => ops.map fun _ => some h
        | none => []
    | none => []
  | _ => [none]

/-- the instances created by a constructor call in the history, and whether nothing refers to them earlier -/
def ctorsOk (raw : List Sexp) (S : Schema) : Bool :=
  (raw.foldl (fun (acc : List Nat × Bool) x =>
    match x with
    | .list (.atom "ctor" :: o :: _) => (match o.asNat? with | some o => (acc.1.filter (· != o), acc.2) | none => (acc.1, false))
    | _ => match parseHOp S x with
      | some ops => (acc.1, acc.2 && (asserted ops).all fun r => !acc.1.contains r.2.1 && !acc.1.contains r.2.2)
      | none => (acc.1, false))
    (raw.filterMap (fun x => match x with | .list (.atom "ctor" :: o :: _) => o.asNat? | _ => none), true)).2

/-- writes THROUGH THE FIELD'S OWN LIVE CONTAINER in a history, expanded against the contents the model has at that
moment: `(assignSelf f o)` is `o.f = o.f`; `(iadd f o x…)` is `o.f += [x…]` / `o.f |= {x}` - the in-place operator adds
the elements through the hook and returns the container, which `__set__` then receives. The setter copies the value
before it clears the container (F-C16-1/2 repaired), so both are the assignment of a new collection holding the
current contents (inferred elements included: they become part of an assigned value). -/
def expandHOp (S : Schema) (stp : State → Op → State) (σ : State) : Sexp → Option (List Op)
  | .list [.atom "assignSelf", f, o] => do
      let f ← f.asNat?
      let o ← o.asNat?
      pure [.assign f o (σ.st f o)]
  | .list (.atom "iadd" :: f :: o :: xs) => do
      let f ← f.asNat?
      let o ← o.asNat?
      let xs ← parseNats xs
      let adds := xs.map fun t => Op.add f o t
      let σ' := adds.foldl stp σ
      pure (adds ++ [.assign f o (σ'.st f o)])
  | x => parseHOp S x

/-- the assignment takes an earlier ASSERTED element out of the field (F-C15-3: its relation stays, no retraction);
an assigned collection that names the asserted elements again drops nothing -/
def dropsAsserted (σ : State) : Op → Bool
  | .assign f s xs => (σ.st f s).any fun t => !σ.inf.contains (f, s, t) && !xs.contains t
  | _ => false

/-- the history items with the operations they stand for (left to right, the model's state threaded through), and
whether some assignment dropped an asserted element -/
def expandH (S : Schema) (W : World) (raw : List Sexp) : Option (List (Sexp × List Op) × Bool) :=
  let stp := step (schemaRules S W) S.kindOf (fuelFor S W)
  (raw.foldl (fun (acc : Option (State × List (Sexp × List Op) × Bool)) x =>
    match acc with
    | none => none
    | some (σ, out, dropped) =>
      match expandHOp S stp σ x with
      | none => none
      | some ops =>
        let r := ops.foldl (fun (a : State × Bool) op => (stp a.1 op, a.2 || dropsAsserted a.1 op)) (σ, dropped)
        some (r.1, out ++ [(x, ops)], r.2)) (some (State.init, [], false))).map fun r => (r.2.1, r.2.2)

/-- `ctorsOk` on expanded items -/
def ctorsOkX (items : List (Sexp × List Op)) : Bool :=
  (items.foldl (fun (acc : List Nat × Bool) x =>
    match x.1 with
    | .list (.atom "ctor" :: o :: _) => (match o.asNat? with | some o => (acc.1.filter (· != o), acc.2) | none => (acc.1, false))
    | _ => (acc.1, acc.2 && (asserted x.2).all fun r => !acc.1.contains r.2.1 && !acc.1.contains r.2.2))
    (items.filterMap (fun x => match x.1 with | .list (.atom "ctor" :: o :: _) => o.asNat? | _ => none), true)).2

/-- the constructor context of every operation of the expanded items -/
def halvesX (S : Schema) (items : List (Sexp × List Op)) : List (Option Half) :=
  items.flatMap fun x => match x.1 with
    | .list (.atom "ctor" :: _) => halvesOfHOp S x.1
    | _ => x.2.map fun _ => none

def run (s : Sexp) : String :=
  match s with
  | .list (.atom "hc" :: items) =>
    -- writes whose inference reaches the written instance's own fields (transitive fields, super-property fields of
    -- the same instance, constructors that assign several managed fields): graph AND backing fields, the C15 model
    let raw := (Sexp.field? items "ops").getD []
    match parseSchema items, parseWorld items with
    | some S, some W =>
      match expandH S W raw with
      | some (expanded, dropped) =>
        let ops := expanded.flatMap (·.2)
        if !(inRange S W ops && ops.all (·.wellKinded S.kindOf) && ctorsOkX expanded &&
             W.rt.all (fun r => match r with | some x => x < W.size | none => true))
        then "error=ill-formed-case" else
        let σ := runModel S W ops
        -- a re-assignment that drops an earlier ASSERTED element is the open finding F-C15-3 (no retraction), which
        -- is about C15: this family stays outside it
        -- (an assignment that names the asserted elements of the field again drops nothing)
        if dropped then "error=ill-formed-case" else
        let cl := closure (schemaRules S W) (fuelFor S W) (asserted ops)
        let spec := if cl.2 then showRels cl.1 ++ "|" ++ showFields S W [] (fun f o => targetsOf cl.1 f o) cl.1
                    else "spec-diverged"
        let m := showRels σ.g ++ "|" ++ showFields S W [] (fun f o => σ.st f o) σ.g
        -- F-C16-10: a constructor call of an eq-dataclass instance whose inference compares the half-built instance
        -- by value raises AttributeError (open in /repo while `halfBuiltOpen`)
        let raised := (runModelH true S W (parseEqCls items) ((halvesX S expanded).zip ops)).2
        if raised && halfBuiltOpen then s!"model=exc:AttributeError\tspec={spec}\ttrig=F-C16-10\tmodel_fixed={m}"
        else s!"model={m}\tspec={spec}\ttrig=" ++ (if raised then "\tbefore_half_built_fix=exc:AttributeError" else "")
      | none => "error=bad-case"
    | _, _ => "error=bad-case"
  | .list (.atom "w" :: items) =>
    let raw := (Sexp.field? items "ops").getD []
    match parseSchema items, parseWorld items, (raw.filter (!isEnvEvent ·)).mapM parseCOp,
          (Sexp.field? items "field").bind (·.head?) |>.bind Sexp.asNat?,
          (Sexp.field? items "obj").bind (·.head?) |>.bind Sexp.asNat?,
          (Sexp.field? items "init").bind parseNats with
    | some S, some W, some ops, some f, some a, some init =>
      let isSet := S.kindOf f == .set
      let wf := f < S.fields.length && a < W.size && S.kindOf f != .single &&
        (init ++ ops.flatMap elems).all (· < W.size) && ops.all (·.applicable isSet) &&
        W.rt.all (fun r => match r with | some x => x < W.size | none => true)
      let key := parseKey items
      let dead := droppedOf raw
      let wf := wf && !dead.contains a &&
        dropsOk key isSet (specC key isSet ⟨[], []⟩ (init.map .append)) raw &&
        removalsDefined key isSet (specC key isSet ⟨[], []⟩ (init.map .append)) ops
      if !wf then "error=ill-formed-case" else
      let R := schemaRules S W
      let fuel := fuelFor S W
      let start (Q : Quirks) : CState := runC key Q isSet ⟨[], []⟩ (init.map .append)
      -- relations are observed among the instances that are alive at the end
      let out (Q : Quirks) : String :=
        let σ := runC key Q isSet (start Q) ops
        showContents isSet σ.c ++ "|" ++ showRels (liveOnly dead (PD.run R fuel (σ.calls.map fun t => (f, a, t))))
      let sp := specC key isSet (specC key isSet ⟨[], []⟩ (init.map .append)) ops
      let cl := closure R fuel (sp.calls.map fun t => (f, a, t))
      let spec := if cl.2 then showContents isSet sp.c ++ "|" ++ showRels (liveOnly dead cl.1) else "spec-diverged"
      -- F-C16-1..4 and the slice-assignment defects F-C16-7/8 are repaired in /repo (fix commits 1406c8c, 86aebcb,
      -- 5eefee2): the base quirk record of the code is `Quirks.none`; `before_slice_fix=` is the code before 5eefee2.
      -- The truthiness gate (F-C16-9) is applied step by step (`runG`): which instances are falsy changes over time.
      let steps := gateSteps Quirks.none a raw
      let gatedOut : String :=
        let σ := runG key isSet (start Quirks.none) steps
        showContents isSet σ.c ++ "|" ++ showRels (liveOnly dead (PD.run R fuel (σ.calls.map fun t => (f, a, t))))
      let gatedNow := steps.any fun qo => !qo.1.ungated
      if truthinessGate then
        s!"model={gatedOut}\tspec={spec}\ttrig={if gatedNow then "F-C16-9" else ""}\tmodel_fixed={out Quirks.none}" ++
        s!"\tbefore_slice_fix={out Quirks.now}"
      else
        s!"model={out Quirks.none}\tspec={spec}\ttrig=\tbefore_fix={gatedOut}\tbefore_slice_fix={out Quirks.now}"
    | _, _, _, _, _, _ => "error=bad-case"
  | .list (.atom "w2" :: items) =>
    match parseSchema items, parseWorld items, (Sexp.field? items "ops").bind (·.mapM parseTOp),
          (Sexp.field? items "field").bind (·.head?) |>.bind Sexp.asNat?,
          (Sexp.field? items "objA").bind (·.head?) |>.bind Sexp.asNat?,
          (Sexp.field? items "objB").bind (·.head?) |>.bind Sexp.asNat?,
          (Sexp.field? items "init").bind parseNats with
    | some S, some W, some ops, some f, some a, some b, some init =>
      let isSet := S.kindOf f == .set
      let wf := f < S.fields.length && a < W.size && b < W.size && a != b && S.kindOf f != .single &&
        W.clsOf a == W.clsOf b &&
        (init ++ ops.flatMap telems).all (· < W.size) && ops.all (·.applicable isSet) && twoOk false ops &&
        ops.all (fun o => match o with | .on _ (.setslice _ _ _ _) => false | _ => true) &&
        W.rt.all (fun r => match r with | some x => x < W.size | none => true)
      if !wf then "error=ill-formed-case" else
      let R := schemaRules S W
      let fuel := fuelFor S W
      let later := laterWriteback S W f a
      let hasB := ops.any (· == .adopt)
      let key := parseKey items
      let σ0 : TState := ⟨runC key Quirks.none isSet ⟨[], []⟩ (init.map .append), ⟨[], []⟩, false, .A, false⟩
      let showT (σ : TState) (rels : List Fact) : String :=
        "A" ++ (showContents isSet σ.a.c).drop 1 ++ "|B" ++
          (if hasB then (showContents isSet σ.b.c).drop 1 else "[-]") ++ "|" ++ showRels rels
      let facts (σ : TState) : List Fact := (σ.a.calls.map fun t => (f, a, t)) ++ (σ.b.calls.map fun t => (f, b, t))
      let out (T : TQuirks) : String :=
        let σ := runT key Quirks.none T later isSet σ0 ops
        if σ.broke then "exc:AttributeError" else showT σ (PD.run R fuel (facts σ))
      let sp := specT key isSet σ0 ops
      let cl := closure R fuel (facts sp)
      let spec := if cl.2 then showT sp cl.1 else "spec-diverged"
      -- F-C16-5 (the first assignment adopted another instance's container) and F-C16-6 (constructor-time inference
      -- into a field not yet initialised) are repaired in /repo: the model tied to the code is `TQuirks.none`
      -- (C16_two_full); the old behaviour is shown under `before_fix=`
      s!"model={out TQuirks.none}\tspec={spec}\ttrig=\tbefore_fix={out TQuirks.asIs}"
    | _, _, _, _, _, _, _ => "error=bad-case"
  | _ => "error=bad-case"

end KrroodVerif.Drive.C16
