import KrroodVerif.Sexp
namespace KrroodVerif.Drive.C16
/-- stub: replaced when the model for C16 is built -/
def run (_ : Sexp) : String := "model=unimplemented\tspec=unimplemented\ttrig="
end KrroodVerif.Drive.C16
