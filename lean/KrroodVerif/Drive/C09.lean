import KrroodVerif.Sexp
import KrroodVerif.Model.Quantifier
namespace KrroodVerif.Drive.C09
open KrroodVerif.Quant

def errName : Err → String
  | .negative => "negative" | .inconsistent => "inconsistent" | .greater => "greater" | .less => "less"

def parseConstraint : Sexp → Option (Option Constraint)
  | .list [.atom "none"] => some none
  | .list [.atom "exactly", v] => v.asNat?.map (fun v => some (.exactly v))
  | .list [.atom "atLeast", v] => v.asNat?.map (fun v => some (.atLeast v))
  | .list [.atom "atMost", v] => v.asNat?.map (fun v => some (.atMost v))
  | .list [.atom "range", a, b] => do let a ← a.asNat?; let b ← b.asNat?; pure (some (.range a b))
  | _ => none

def showRun (r : List Nat × Outcome) : String :=
  showList (r.1.map toString) ++ " " ++ (match r.2 with | .ok => "ok" | .err e => errName e)

def showThe : Option (TheOutcome Nat) → String
  | some (.value x) => s!"value {x}"
  | some .noSolution => "noSolution"
  | some .multipleSolutions => "multipleSolutions"
  | none => "unreachable"

def showMk : Except Err Constraint → String
  | .ok c => "ok " ++ (match c with
      | .exactly v => s!"exactly {v}" | .atLeast v => s!"atLeast {v}" | .atMost v => s!"atMost {v}"
      | .range a b => s!"range {a} {b}")
  | .error e => errName e

def both (m s : String) : String := s!"model={m}\tspec={s}\ttrig="

/-- `(runf c n pat)` / `(thef n pat)`: the same quantifier over solutions some of which are FALSY Python values
(`pat` says which: objects with `__bool__`/`__len__`, the ints `0..n-1`); the selected variable is bound by a condition
that every element satisfies. The model is parametric in the solutions' type — `Quant.run`/`theRun` never inspect a
value — so its prediction is that of `(run c n)` / `(the n)`. -/
def stripFalsy : Sexp → Sexp
  | .list [.atom "runf", c, n, _] => .list [.atom "run", c, n]
  | .list [.atom "thef", n, _] => .list [.atom "the", n]
  -- `(histg …)`: the history of `(hist …)` over a domain given as a one-shot generator (cached as it is consumed)
  | .list (.atom "histg" :: r) => .list (.atom "hist" :: r)
  -- `(histc …)` / `(histgc …)`: the same with the selected variable bound by a condition every element satisfies
  | .list (.atom "histc" :: r) => .list (.atom "hist" :: r)
  | .list (.atom "histgc" :: r) => .list (.atom "hist" :: r)
  -- `(nthe n)`: `the(...)` over n solutions used as an OPERAND of an enclosing query (evaluated through `_evaluate__`):
  -- the same three outcomes as at the root
  | .list [.atom "nthe", n] => .list [.atom "the", n]
  -- `(runs c n extra)`: the domain is a list of n instances of a Symbol type of which `extra` more are alive elsewhere
  | .list [.atom "runs", c, n, _] => .list [.atom "run", c, n]
  | s => s

def run (s0 : Sexp) : String :=
  let s := stripFalsy s0
  match s with
  | .list [.atom "run", c, n] =>
    match parseConstraint c, n.asNat? with
    | some c, some n =>
      let sols := List.range n
      both (showRun (Quant.run c sols)) (showRun (Quant.spec c sols))
    | _, _ => "error=bad-case"
  | .list (.atom "hist" :: c :: n :: ks) =>
    -- `(hist <constraint> n k…)`: one query object evaluated once per `k` (`-1` = to the end), iterators kept alive
    match parseConstraint c, n.asNat?, ks.mapM Sexp.asInt? with
    | some c, some n, some ks =>
      let sols := List.range n
      let kos : List (Option Nat) := ks.map fun k => if k < 0 then none else some k.toNat
      let showSeen := fun (r : List Nat × Seen) =>
        showList (r.1.map toString) ++ " " ++ (match r.2 with
          | .stillOpen => "open" | .ended .ok => "ok" | .ended (.err e) => errName e)
      let m := " ; ".intercalate ((history c sols kos).map showSeen)
      -- specification: each evaluation, alone on a fresh query, consumed the same way
      let sp := " ; ".intercalate (kos.map fun k => showSeen (consume k (Quant.spec c sols)))
      both m sp
    | _, _, _ => "error=bad-case"
  | .list (.atom "histi" :: c :: n :: js) =>
    -- `(histi <constraint> n j…)`: evaluations of ONE query object advanced in the interleaved order j…
    match parseConstraint c, n.asNat?, js.mapM Sexp.asNat? with
    | some c, some n, some js =>
      let showObs := fun (e : Nat × NextObs Nat) => s!"{e.1}:" ++ (match e.2 with
        | .value x => toString x | .finished .ok => "ok" | .finished (.err er) => errName er | .exhausted => "stop")
      let m := " ".intercalate ((interleaved c (List.range n) js []).map showObs)
      both m m
    | _, _, _ => "error=bad-case"
  | .list [.atom "pulls", c, n] =>
    -- `(pulls <constraint> n)`: elements taken from a lazily produced n-element domain by a full evaluation
    match parseConstraint c, n.asNat? with
    | some c, some n => let m := toString (consumed c (List.range n)); both m m
    | _, _ => "error=bad-case"
  | .list [.atom "nthem", a, b] =>
    -- `(nthem n1 n2)`: `the(...)` as an operand of a query evaluated twice, the sub-query having n1 then n2 solutions
    -- (the data changed in between): each evaluation shows what `the` over that many solutions shows
    match a.asNat?, b.asNat? with
    | some a, some b =>
      let m := fun n => showThe (theRun (List.range n))
      let sp := fun n => showThe (some (theSpec (List.range n)))
      both (m a ++ " ; " ++ m b) (sp a ++ " ; " ++ sp b)
    | _, _ => "error=bad-case"
  | .list [.atom "the", n] =>
    match n.asNat? with
    | some n => let sols := List.range n; both (showThe (theRun sols)) (showThe (some (theSpec sols)))
    | none => "error=bad-case"
  | .list [.atom "mk", .atom k, v] =>
    match v.asInt? with
    | some v =>
      let kind := match k with | "exactly" => some Kind.exactly | "atLeast" => some Kind.atLeast | "atMost" => some Kind.atMost | _ => none
      match kind with
      | some kind =>
        -- spec of construction = the statement of C09_ctor_rejects, executable
        let spec := if v < 0 then "negative" else s!"ok {k} {v}"
        both (showMk (mkSingle kind v)) spec
      | none => "error=bad-case"
    | none => "error=bad-case"
  | .list [.atom "mkrange", a, b] =>
    match a.asInt?, b.asInt? with
    | some a, some b =>
      let spec := if a < 0 || b < 0 then "negative" else if b < a then "inconsistent" else s!"ok range {a} {b}"
      both (showMk (mkRange a b)) spec
    | _, _ => "error=bad-case"
  | _ => "error=bad-case"
end KrroodVerif.Drive.C09
