import KrroodVerif.Sexp
import KrroodVerif.Model.Eql
/-! Parsing and printing of EQL cases (shared by the drivers of C01, C02, C10, C11). -/
namespace KrroodVerif.Drive.EqlParse
open KrroodVerif KrroodVerif.Eql

def parseVal : Sexp → Option Val
  | .list [.atom "int", n] => n.asInt?.map Val.int
  | .list [.atom "bool", b] => b.asBool?.map Val.bool
  | .list (.atom "list" :: xs) => (xs.mapM Sexp.asInt?).map Val.list
  | .list [.atom "obj", i] => i.asNat?.map Val.obj
  | .list (.atom "objs" :: xs) => (xs.mapM Sexp.asNat?).map Val.objs
  | .list [.atom "none"] => some Val.none
  | .list (.atom "set" :: xs) => (xs.mapM Sexp.asInt?).map Val.set
  | _ => none

def parseAttrName : Sexp → Option AttrName
  | .atom s => some s | _ => none

partial def parseTerm : Sexp → Option Term
  | .list [.atom "var", v] => v.asNat?.map Term.var
  | .list [.atom "lit", i, v] => do pure (Term.lit (← i.asNat?) (← parseVal v))
  | .list [.atom "attr", t, n] => do pure (Term.attr (← parseTerm t) (← parseAttrName n))
  | .list [.atom "index", t, i] => do pure (Term.index (← parseTerm t) (← i.asNat?))
  | .list [.atom "flatten", t] => do pure (Term.flatten (← parseTerm t))
  | _ => none

def parseOp : Sexp → Option CmpOp
  | .atom "eq" => some .eq | .atom "ne" => some .ne | .atom "lt" => some .lt
  | .atom "le" => some .le | .atom "gt" => some .gt | .atom "ge" => some .ge | _ => none

partial def parseSExpr : Sexp → Option SExpr
  | .list [.atom "cmp", op, l, r] => do pure (.cmp (← parseOp op) (← parseTerm l) (← parseTerm r))
  | .list [.atom "contains", c, i] => do pure (.contains (← parseTerm c) (← parseTerm i))
  | .list [.atom "truth", t] => do pure (.truth (← parseTerm t))
  | .list [.atom "hastype", t, c] => do pure (.hasType (← parseTerm t) (← c.asNat?))
  | .list [.atom "and", l, r] => do pure (.and (← parseSExpr l) (← parseSExpr r))
  | .list [.atom "or", l, r] => do pure (.or (← parseSExpr l) (← parseSExpr r))
  | .list [.atom "not", e] => do pure (.not (← parseSExpr e))
  | .list [.atom "exists", v, e] => do pure (.exists_ (← v.asNat?) (← parseSExpr e))
  | .list [.atom "forall", v, e] => do pure (.forAll (← v.asNat?) (← parseSExpr e))
  | _ => none

def parseField : Sexp → Option (String × Val)
  | .list [.atom n, v] => do pure (n, ← parseVal v)
  | _ => none

/-- `(o <cls> <veq> (<field> <val>)…)` -/
def parseObj : Sexp → Option Obj
  | .list (.atom "o" :: c :: veq :: fs) => do
    pure { cls := (← c.asNat?), veq := (← veq.asBool?), fields := (← fs.mapM parseField) }
  | _ => none

def parseSub : Sexp → Option (Nat × Nat)
  | .list [a, b] => do pure ((← a.asNat?), (← b.asNat?))
  | _ => none

def parseDom : Sexp → Option (VarId × List Val)
  | .list (v :: xs) => do pure ((← v.asNat?), (← xs.mapM parseVal))
  | _ => none

/-- `(q (sel t…) (cond e) | (nocond) (objs o…) (doms d…))` -/
def parseCase : Sexp → Option (World × SQuery)
  | .list (.atom "q" :: items) => do
    let sel ← (← Sexp.field? items "sel").mapM parseTerm
    let cond ← match Sexp.field? items "cond" with
      | some [e] => (parseSExpr e).map some
      | some _ => none
      | none => some none
    let objs ← (← Sexp.field? items "objs").mapM parseObj
    let doms ← (← Sexp.field? items "doms").mapM parseDom
    let sub ← match Sexp.field? items "sub" with
      | some xs => xs.mapM parseSub
      | none => some []
    pure ({ objs := objs, doms := doms, subclass := sub }, { sel := sel, cond := cond })
  | _ => none

def showVal : Val → String
  | .int n => toString n
  | .bool b => if b then "T" else "F"
  | .list xs => "[" ++ ",".intercalate (xs.map toString) ++ "]"
  | .obj i => s!"o{i}"
  | .objs xs => "[" ++ ",".intercalate (xs.map fun i => s!"o{i}") ++ "]"
  | .none => "None"
  | .set xs => "{" ++ ",".intercalate (xs.map toString) ++ "}"

def showRow (r : List Val) : String := "(" ++ " ".intercalate (r.map showVal) ++ ")"

def errName : Err → String
  | .keyError => "exc:quantifier" | .typeError => "exc:quantifier"
  | .attrError => "exc:AttributeError" | .badOperand => "exc:TypeError" | .indexError => "exc:IndexError"

/-- rows as a set (sorted, de-duplicated) -/
def showSet (r : Except Err (List (List Val))) : String :=
  match r with
  | .ok rows => " ".intercalate (sortStrings (dedupStrings (rows.map showRow)))
  | .error e => errName e

/-- rows as a multiset (sorted, with multiplicity) -/
def showBag (r : Except Err (List (List Val))) : String :=
  match r with
  | .ok rows => " ".intercalate (sortStrings (rows.map showRow))
  | .error e => errName e

/-- rows as the sequence the evaluation yields -/
def showSeq (r : Except Err (List (List Val))) : String :=
  match r with
  | .ok rows => " ".intercalate (rows.map showRow)
  | .error e => errName e

end KrroodVerif.Drive.EqlParse
