import KrroodVerif.Sexp
namespace KrroodVerif.Drive.C02
/-- stub: replaced when the model for C02 is built -/
def run (_ : Sexp) : String := "model=unimplemented\tspec=unimplemented\ttrig="
end KrroodVerif.Drive.C02
