import KrroodVerif.Sexp
import KrroodVerif.Model.Eql
import KrroodVerif.Model.EqlFindings
import KrroodVerif.Model.EqlIRCheck
import KrroodVerif.Drive.EqlParse
namespace KrroodVerif.Drive.C02
open KrroodVerif KrroodVerif.Eql KrroodVerif.Drive.EqlParse

/-- `the(...)` on the model's result list / on the specified solutions (C09's `theSpec` shape) -/
def showThe (r : Except Err (List (List Val))) : String :=
  match r with
  | .error e => errName e
  | .ok [] => "noSolution"
  | .ok [row] => "value " ++ showRow row
  | .ok _ => "multipleSolutions"

def run (s : Sexp) : String :=
  match parseCase s with
  | none => "error=bad-case"
  | some (w, q) =>
    let m := evalQuery w q.toQuery
    let sp := solutions w q
    -- second tie (c01b): `IR.runIR IR.irTable` must agree with `Eql.eval` on the raw result lists (else: broken check)
    if let some why := IR.irDisagreement w q.toQuery then s!"error=model_ir differs from model ({why})" else
    let mIR : Except Err (List (List Val)) := match IR.evalQueryIR IR.irTable w q.toQuery with
      | .ok r => .ok r | .error (.err e) => .error e | .error (.stuck _) => .error .badOperand
    let trig := match q.cond.map build with
      | some e => ",".intercalate (if e.hasFlatten then ["F-C02-2"] else [])
      | none => ""
    s!"model={showBag m} | {showThe m}\tspec={showBag sp} | {showThe sp}\ttrig={trig}\tmodel_ir={showBag mIR} | {showThe mIR}"
end KrroodVerif.Drive.C02
