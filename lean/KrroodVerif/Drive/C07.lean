import KrroodVerif.Sexp
namespace KrroodVerif.Drive.C07
/-- stub: replaced when the model for C07 is built -/
def run (_ : Sexp) : String := "model=unimplemented\tspec=unimplemented\ttrig="
end KrroodVerif.Drive.C07
