import KrroodVerif.Sexp
import KrroodVerif.Model.SqlTr
/-!
Driver for C07.  One case =
`(q (the T|F) (kind entity|setOf) (vars C0 C1 …) (cond <expr>|none) (schema (cls N P|- (cols …) (rels (a T) …)) …)
    (db (o C (v a n|N) … (r a i|N) …) …))`
expr    := (and e e) | (or e e) | (cmp op L R) | (in L (vals n|N …)) | (attr (ch v a…)) | (not e) | (exists v e)
         | (forall v e) | (pred name) | (barevar v) | (barelit T|F)
operand := (ch v a…) | (lit n|N) | (other index|call|flatten|selfvar|objlit|nested [chain])
         | (var v s|N) a bare variable (s = index of the first element of its domain) | (obj i) an object literal: only as
           `(cmp eq|ne (var v s) (obj i))` (either order)
`(sattr (ch v a…))`: a bare STRING attribute as a condition (ranks decoded by `(strtab …)`; the atom `""` is the empty string)
`(sub C I [spelling])` with C, I := (ch v a…) | (slit rank): the substring test `I in C` on strings; `(strtab s1 s2 …)` (an item
of the case) decodes the ranks that string columns and string literals carry (rank k = k-th entry, code-point sorted).
`(in L (vals …) [in|contains])`: the optional last atom is the python spelling, irrelevant to the model.
Optional `(mult T)`: the observation is the LIST of returned rows / solutions (ascending, with repetitions) and `the`
is judged on that list, instead of the set of entities (in-memory side: `evalMemMulti`).

Output: `model=` what translate+execSql / evalMem (the definitions the theorems are about) give,
`spec=PROP …` what the property demands (both worlds agree, or an EQLTranslationError), `trig=` open findings whose
Lean-defined trigger holds on this input *and* for which the model predicts a deviation from the property.
-/
namespace KrroodVerif.Drive.C07
open KrroodVerif.SqlTr

def parseOptInt (s : Sexp) : Option (Option Int) :=
  match s with
  | .atom "N" => some none
  | _ => s.asInt?.map some

def parseOptNat (s : Sexp) : Option (Option Nat) :=
  match s with
  | .atom "N" => some none
  | _ => s.asNat?.map some

def parseCmp : String → Option Cmp
  | "eq" => some .eq | "ne" => some .ne | "lt" => some .lt | "le" => some .le | "gt" => some .gt | "ge" => some .ge
  | _ => none

def parseChain : Sexp → Option Chain
  | .list (.atom "ch" :: v :: path) => do
    let v ← v.asNat?
    let p ← path.mapM Sexp.asAtom?
    pure ⟨v, p⟩
  | _ => none

def parseOperand : Sexp → Option Operand
  | .list [.atom "lit", v] => (parseOptInt v).map .lit
  | .list [.atom "var", v, smp] => do pure (.var (← v.asNat?) (← parseOptNat smp))
  | .list [.atom "obj", i] => i.asNat?.map .obj
  | .list (.atom "other" :: .atom k :: _) =>
    match k with
    | "index" => some (.other .index) | "call" => some (.other .call) | "flatten" => some (.other .flatten)
    | "selfvar" => some (.other .selfVar) | "objlit" => some (.other .objLit) | "nested" => some (.other .nested)
    | _ => none
  | s => (parseChain s).map .chain

def parseSOperand : Sexp → Option SOperand
  | .list [.atom "slit", k] => k.asNat?.map .lit
  | s => (parseChain s).map .chain

partial def parseExpr (tab : StrTab) : Sexp → Option Expr
  | .list (.atom "sub" :: a :: b :: _) => do pure (.substr tab (← parseSOperand a) (← parseSOperand b))
  | .list [.atom "and", a, b] => do pure (.and (← parseExpr tab a) (← parseExpr tab b))
  | .list [.atom "or", a, b] => do pure (.or (← parseExpr tab a) (← parseExpr tab b))
  | .list [.atom "cmp", .atom op, l, r] => do pure (.cmp (← parseCmp op) (← parseOperand l) (← parseOperand r))
  | .list (.atom "in" :: item :: .list (.atom "vals" :: vs) :: _) => do pure (.isIn (← parseOperand item) (← vs.mapM parseOptInt))
  | .list [.atom "attr", c] => (parseChain c).map .attr
  | .list [.atom "sattr", c] => (parseChain c).map (.strAttr tab)
  | .list [.atom "not", e] => (parseExpr tab e).map .not
  | .list [.atom "exists", v, e] => do pure (.exist (← v.asNat?) (← parseExpr tab e))
  | .list [.atom "forall", v, e] => do pure (.all (← v.asNat?) (← parseExpr tab e))
  | .list [.atom "pred", .atom n] => some (.pred n)
  | .list [.atom "barevar", v] => v.asNat?.map .bareVar
  | .list [.atom "barelit", b] => b.asBool?.map .bareLit
  | _ => none

def parseClass : Sexp → Option ClassDecl
  | .list [.atom "cls", .atom n, .atom p, .list (.atom "cols" :: cols), .list (.atom "rels" :: rels)] => do
    let cols ← cols.mapM Sexp.asAtom?
    let rels ← rels.mapM fun r => match r with
      | .list [.atom a, .atom t] => some (a, t)
      | _ => none
    pure ⟨n, if p == "-" then none else some p, cols, rels⟩
  | _ => none

def parseObj : Sexp → Option Obj
  | .list (.atom "o" :: .atom c :: fields) => do
    let vals ← (Sexp.fields fields "v").mapM fun f => match f with
      | [.atom a, v] => (parseOptInt v).map fun v => (a, v)
      | _ => none
    let refs ← (Sexp.fields fields "r").mapM fun f => match f with
      | [.atom a, v] => (parseOptNat v).map fun v => (a, v)
      | _ => none
    pure ⟨c, vals, refs⟩
  | _ => none

structure Case where
  schema : Schema
  db : DB
  q : Query
  /-- observe multiplicities (`(mult T)`): the list of rows / solutions instead of the set of entities -/
  mult : Bool

def parseCase : Sexp → Option Case
  | .list (.atom "q" :: items) => do
    let the ← (← Sexp.field? items "the").head? >>= Sexp.asBool?
    let kind ← match (← Sexp.field? items "kind") with
      | [.atom "entity"] => some SelKind.entity
      | [.atom "setOf"] => some SelKind.setOf
      | _ => none
    let vars ← (← Sexp.field? items "vars").mapM Sexp.asAtom?
    let tab : StrTab ← match Sexp.field? items "strtab" with
      | some xs => xs.mapM fun x => x.asAtom?.map String.toList
      | none => some []
    let cond ← match (← Sexp.field? items "cond") with
      | [.atom "none"] => some none
      | [e] => (parseExpr tab e).map some
      | _ => none
    let schema ← (← Sexp.field? items "schema").mapM parseClass
    let db ← (← Sexp.field? items "db").mapM parseObj
    let mult := match Sexp.field? items "mult" with
      | some [b] => b.asBool?.getD false
      | _ => false
    pure ⟨schema, db, ⟨the, kind, vars, cond⟩, mult⟩
  | _ => none

def showIds (xs : List Nat) : String := showList (xs.map toString)

def showThe : TheOutcome → String
  | .one i => s!"one:{i}" | .noResult => "none" | .multiple => "multiple"

def showMem (q : Query) : Option (List Nat) → String
  | none => "error"
  | some ids => if q.the then showThe (theOf ids) else showIds ids

def showSql (q : Query) (mult : Bool) (rows : List Nat) : String :=
  if q.the then showThe (theOf rows) else showIds (if mult then rows else toSet rows)

def run (s : Sexp) : String :=
  match parseCase s with
  | none => "error=bad-case"
  | some c =>
    let mem := showMem c.q (if c.mult then evalMemMulti c.schema c.q c.db else evalMem c.schema c.q c.db)
    match translate c.schema c.q with
    | .error .outsideModel => "error=outside-model"
    | .error (.rejected _) => "model=rejected\tspec=PROP rejected\ttrig="
    | .error .escape => "model=escape\tspec=PROP rejected\ttrig="
    | .ok sq =>
      let sql := showSql c.q c.mult (execSql c.schema sq c.db)
      -- the statement a repaired translator would produce (string truthiness as IS NOT NULL AND != '', variable ==
      -- object by primary key): a repaired tree still corresponds
      let sqlFixed := showSql c.q c.mult (execSql c.schema sq.repair c.db)
      -- open findings: attributed only where the trigger holds AND the model predicts a deviation on this input
      let cond := c.q.cond.getD (.bareLit true)
      let trig : List String :=
        (if hasStrAttr cond && sql != mem then ["F-C07-6"] else []) ++
        (if hasVarObj cond && sql != mem then ["F-C07-7"] else [])
      s!"model=mem={mem} sql={sql}\tmodel_fixed=mem={mem} sql={sqlFixed}\tspec=PROP mem={mem} sql={mem}\ttrig={",".intercalate trig}"
end KrroodVerif.Drive.C07
