import KrroodVerif.Sexp
import KrroodVerif.Model.Dom
import KrroodVerif.Model.DomShape
import KrroodVerif.Model.Eql
import KrroodVerif.Drive.EqlParse
import KrroodVerif.Drive.C01
import KrroodVerif.Drive.C08
import KrroodVerif.Model.RuleHistory
namespace KrroodVerif.Drive.C03
open KrroodVerif KrroodVerif.Dom

def showOut : Option Out → String
  | none => "-"
  | some (.val x) => toString x
  | some .stop => "stop"
  | some .runtimeError => "RuntimeError"
  | some .valueError => "ValueError"

def parseOp : Sexp → Option Op
  | .list [.atom "start", i] => i.asNat?.map Op.start
  | .list [.atom "next", i] => i.asNat?.map Op.next
  | .list [.atom "abandon", i] => i.asNat?.map Op.abandon
  | _ => none

def parseSat : Sexp → Option (Nat × List Nat)
  | .list (i :: xs) => do pure ((← i.asNat?), (← xs.mapM Sexp.asNat?))
  | _ => none

/-- `(shape PHASE1 CACHEDONLY CACHEWHEN SOURCE ATEND TRUTH)`: the `IterShape` the harness regenerated from the current
`HashedIterable.__iter__` / `__bool__` (`harness/translate/c03_translate.py`) -/
def parseShape : List Sexp → Option IterShape
  | [.atom p, .atom co, .atom cw, .atom so, .atom ae, .atom tr] => do
    let p ← match p with | "liveView" => some Phase1.liveView | "snapshot" => some .snapshot | "index" => some .index | _ => none
    let co ← match co with | "0" => some false | "1" => some true | _ => none
    let cw ← match cw with
      | "beforeYield" => some CacheWhen.beforeYield | "afterYield" => some .afterYield | "atEnd" => some .atEnd
      | "never" => some .never | _ => none
    let so ← match so with | "shared" => some SourceUse.shared | "takeOver" => some .takeOver | _ => none
    let ae ← match ae with | "keep" => some EndAction.keep | "release" => some .release | _ => none
    let tr ← match tr with
      | "valuesOrSource" => some Truth.valuesOrSource | "valuesOnly" => some .valuesOnly | "sourceOnly" => some .sourceOnly
      | _ => none
    pure { phase1 := p, cachedOnly := co, cacheWhen := cw, source := so, atEnd := ae, truth := tr }
  | _ => none

/-- `(sched (n N) (sats (i e…)…) (ops …) [(shape …)])`: interleaved single-variable query iterators over one shared
variable. `model=`: with a `(shape …)` item that satisfies `IterOk`, the machine INTERPRETED from that shape (`runS`:
the code as the translator read it in this run — today's `shape`, the repaired `shapeIdx`, or the snapshot variant);
otherwise the hand-written machine of today's code (`run`). `interp=` (information only, never compared): `runS` of
whatever shape was given. F-C03-1 is triggered by an overlapping schedule unless the shape is `IterFullOk` (then
`C03_shape_full` says there is nothing to trigger). -/
def runSched (items : List Sexp) : Option String := do
  let n ← match Sexp.field? items "n" with | some [x] => x.asNat? | _ => none
  let sats ← (← Sexp.field? items "sats").mapM parseSat
  let ops ← (← Sexp.field? items "ops").mapM parseOp
  let shp ← match Sexp.field? items "shape" with
    | none => some none
    | some l => (parseShape l).map some
  let satf := fun i => (sats.lookup i).getD []
  let sh := fun (l : List (Option Out)) => " ".intercalate (l.map showOut)
  let today := run satf (init n) ops
  let sp := specRun n satf [] ops
  match shp with
  | none =>
    let trig := if sequential ops then "" else "F-C03-1"
    pure s!"model={sh today}\tspec={sh sp}\ttrig={trig}"
  | some s =>
    let it := runS s satf (initS n) ops
    let m := if s.ok then it else today
    let trig := if sequential ops || s.fullOk then "" else "F-C03-1"
    pure s!"model={sh m}\tinterp={sh it}\tspec={sh sp}\ttrig={trig}"

open KrroodVerif.Eql KrroodVerif.Drive.EqlParse in
/-- `(multi (order (qi k)…) (objs …) (doms …) (queries (qq (sel …) (cond …))…))`: the listed query objects (sharing
their variables) are evaluated one after the other, the j-th evaluation consuming `k` results (`-1`: all) before it
is abandoned. Expected (model = spec, by `C03_sequential_partial`): each evaluation yields the prefix of its
isolated result sequence, computed by the M-EQL model. -/
def runMulti (items : List Sexp) : Option String := do
  let order ← (← Sexp.field? items "order").mapM fun s => match s with
    | .list [a, b] => do pure ((← a.asNat?), (← b.asInt?))
    | _ => none
  let objs ← Sexp.field? items "objs"
  let doms ← Sexp.field? items "doms"
  let subs := (Sexp.field? items "sub").getD []
  let qs ← Sexp.field? items "queries"
  -- `(graph n0 n1 …)` (s6a): the variables range over the instances that EXIST at the time of an evaluation — at the
  -- j-th evaluation the objects with index < n_j (instances are created between evaluations, in index order)
  let graph ← match Sexp.field? items "graph" with
    | none => some none
    | some l => (l.mapM Sexp.asNat?).map some
  let domsAt := fun (j : Nat) => match graph with
    | none => doms
    | some g =>
      let n := g.getD j 0
      doms.map fun d => match d with
        | .list (v :: xs) => .list (v :: xs.filter fun x => match x with
            | .list [.atom "obj", i] => decide ((i.asNat?).getD 0 < n)
            | _ => true)
        | d => d
  let evalAt := fun (doms : List Sexp) (s : Sexp) => match s with
    | .list (.atom "qq" :: parts) => do
      let (w, q) ← parseCase (.list (.atom "q" :: (parts ++ [.list (.atom "objs" :: objs), .list (.atom "doms" :: doms), .list (.atom "sub" :: subs)])))
      pure (evalQuery w q.toQuery)
    -- a query with nested sub-query operands (`an(entity(y, …))` inside a comparison): Model/EqlSub.lean
    | .list (.atom "qqx" :: parts) => do
      let sel ← (← Sexp.field? parts "sel").mapM parseTerm
      let c ← match Sexp.field? parts "cond" with | some [e] => KrroodVerif.Drive.C01.parseXS e | _ => none
      let w : World := { objs := ← objs.mapM parseObj, doms := ← doms.mapM parseDom }
      pure (evalQueryX w sel (buildX c))
    | _ => none
  -- every query must parse (on the full domains)
  let _ ← qs.mapM (evalAt doms)
  let outs := (List.range order.length).zip order |>.map fun (j, (qi, k)) =>
    match qs[qi]? with
    | none => "bad-query-index"
    | some s =>
      match evalAt (domsAt j) s with
      | none => "bad-query"
      | some (.error e) => errName e
      | some (.ok rows) =>
        let rows := if k < 0 then rows else rows.take k.toNat
        "[" ++ " ".intercalate (rows.map showRow) ++ "]"
  let out := " ; ".intercalate outs
  pure s!"model={out}\tspec={out}\ttrig="


/-! ### rule-query histories (`Model/RuleHistory.lean`)

`(rhist (dom d…) (root (h e…) (c k…) KID… ) (ops OP…))` with the program syntax of C08 (one rule variable) and
`OP ::= (start i) | (next i) | (abandon i) | (full i) | (grow KID…)`; `(grow …)` is one more `with query:` block with
these branches; blocks are numbered in textual order over the whole line.

Observation per operation, RELATIVE to the isolated run (what a freshly written query with the same `with` blocks
yields when it is evaluated alone): `-` (start/abandon/grow), `=` (the result, or the end, the isolated run has at
this position; for `full`: the whole isolated sequence), `!c:x` / `!stop` / `![c:x,…]` otherwise. Where two
conclusions stand in one Python set the model lists the observations of every candidate, joined by `~`. -/
namespace Rh
open KrroodVerif.RuleHist KrroodVerif.Rdr

partial def parseOps (blk : Nat) (items : List Sexp) (acc : Array KrroodVerif.Drive.C08.Row) :
    Option (List HOp × Array KrroodVerif.Drive.C08.Row) :=
  match items with
  | [] => some ([], acc)
  | .list [.atom "start", i] :: rest => do
    let (r, acc) ← parseOps blk rest acc; pure (HOp.start (← i.asNat?) :: r, acc)
  | .list [.atom "next", i] :: rest => do
    let (r, acc) ← parseOps blk rest acc; pure (HOp.next (← i.asNat?) :: r, acc)
  | .list [.atom "abandon", i] :: rest => do
    let (r, acc) ← parseOps blk rest acc; pure (HOp.abandon (← i.asNat?) :: r, acc)
  | .list [.atom "full", i] :: rest => do
    let (r, acc) ← parseOps blk rest acc; pure (HOp.full (← i.asNat?) :: r, acc)
  | .list (.atom "grow" :: kids) :: rest => do
    let (its, acc) ← KrroodVerif.Drive.C08.parseItems kids acc
    let (r, acc) ← parseOps blk rest acc
    pure (HOp.grow its :: r, acc)
  | _ => none

def showR (c x : Nat) : String := s!"{c}:{x}"

/-- all ways to pick one candidate per row (capped) -/
def combos : List Row → List (List (Nat × Nat))
  | [] => [[]]
  | (cs, x) :: rest => let r := combos rest; cs.flatMap fun c => r.map fun l => (c, x) :: l

def dedupS (xs : List String) : List String := xs.foldl (fun acc a => if acc.contains a then acc else acc ++ [a]) []

/-- one operation's observation relative to the isolated run `sp` -/
def token (got sp : Outp) : String :=
  match got with
  | .none => "-"
  | .err => if sp = .err then "=" else "!err"
  | .stop => if sp = .stop then "=" else "!stop"
  | .row (cs, x) =>
    "~".intercalate (dedupS (cs.map fun c => if sp = .row ([c], x) then "=" else "!" ++ showR c x))
  | .rows rs =>
    if (rs.foldl (fun n r => n * r.1.length) 1) > 32 then "*"
    else
      let want := match sp with | .rows l => some (l.map fun r => (r.1.headD 0, r.2)) | _ => none
      "~".intercalate (dedupS ((combos rs).map fun l =>
        if some l = want then "=" else "![" ++ ",".intercalate (l.map fun r => showR r.1 r.2) ++ "]"))

def tokens (got sp : List Outp) : String := " ".intercalate ((got.zip sp).map fun (g, s) => token g s)

/-- cross-check of the two transcriptions of the generators on the query as first written: one complete evaluation
by `evalG` and by `Rdr.runK`, as sets of rows -/
def crossOk (pay : Payload) (dom : List Nat) (a : Authored) : Bool :=
  match buildA Quirks.today a with
  | none => true
  | some b =>
    match b.tree with
    | none => true
    | some t =>
      let g := (freshRows pay dom (some b)).getD []
      let k := runK pay Quirks.today.dedup dom b.nodes t
      let norm := fun (rs : List Row) => dedupS (sortStrings (rs.map fun r => KrroodVerif.Drive.C08.showRow r))
      norm g == norm k

def run (items : List Sexp) : Option String := do
  let dom ← KrroodVerif.Drive.C08.nats (← Sexp.field? items "dom")
  let (a, rows) ← KrroodVerif.Drive.C08.parseRoot (← Sexp.field? items "root")
  let (ops, rows) ← parseOps a.blk (← Sexp.field? items "ops") rows
  if rows.toList.any fun r => r.2.isSome then none
  let pay := Payload.ofList (rows.toList.map (·.1))
  let sp := spec pay dom a ops
  let out := fun q => tokens (model q pay dom a ops) sp
  -- F-C03-4 (abandoned evaluation leaves selector state) and F-C03-6 (stale evaluation parent in the surgery) are
  -- repaired in /repo (f749997, 97ba516): `model=` is `HQuirks.repaired`, only F-C03-5 keeps a trigger
  let trig := (if trigOverlap ops then ["F-C03-5"] else [])
  if !crossOk pay dom a then pure "model=internal:evalG-vs-evalK\tspec=-\ttrig="
  else pure ("\t".intercalate
    [ "model=" ++ out HQuirks.repaired,
      "model_asfound=" ++ out HQuirks.today,
      "model_ideal=" ++ out HQuirks.ideal,
      "spec=" ++ tokens sp sp,
      "trig=" ++ ",".intercalate trig ])
end Rh

/-- `(sharedsub)`: the fixed witness of F-C03-3 — `xf = x.f; q1 = an(entity(x, xf)); q2 = an(entity(x, xf == False))`,
then `q1` is evaluated. One attribute node with two parents is outside the tree-shaped grammar of the models, so no
prediction is made (`*`); the specification is `q1`'s isolated result over `f = T, F, F`. -/
def run (s : Sexp) : String :=
  match s with
  -- `(sharedroot)`: the fixed witness of F-C03-7 (open) — `xf = x.f; q1 = an(entity(x, xf))` is evaluated, then
  -- `q2 = an(entity(x, xf == False))` is built and evaluated over `f = F, T`: the shared node keeps the conditions root it
  -- cached in `q1`, reads its falsy value as a false result and `q2` returns nothing. One node in two roles across queries
  -- is outside the tree-shaped grammar of the models: no prediction (`*`); the specification is `q2` run alone
  | .list [.atom "sharedroot"] => "model=*\tspec=[(o0)]\ttrig=F-C03-7"
  | .list [.atom "sharedsub"] => "model=[(o0)]\tspec=[(o0)]\ttrig="
  -- `(rulereeval)`: a rule query (base rule + one alternative) evaluated twice; since fix 10ab5ee every
  -- evaluation resets the selectors' `concluded_before` sets first, so the second evaluation yields what the first
  -- one yields (F-C03-2, fixed; kept as a corpus case)
  | .list [.atom "rulereeval"] => "model=same\tspec=same\ttrig="
  | .list (.atom "sched" :: items) => (runSched items).getD "error=bad-case"
  | .list (.atom "multi" :: items) => (runMulti items).getD "error=bad-case"
  | .list (.atom "rhist" :: items) => (Rh.run items).getD "error=bad-case"
  | _ => "error=bad-case"
end KrroodVerif.Drive.C03
