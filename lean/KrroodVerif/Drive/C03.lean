import KrroodVerif.Sexp
import KrroodVerif.Model.Dom
import KrroodVerif.Model.Eql
import KrroodVerif.Drive.EqlParse
import KrroodVerif.Drive.C01
namespace KrroodVerif.Drive.C03
open KrroodVerif KrroodVerif.Dom

def showOut : Option Out → String
  | none => "-"
  | some (.val x) => toString x
  | some .stop => "stop"
  | some .runtimeError => "RuntimeError"

def parseOp : Sexp → Option Op
  | .list [.atom "start", i] => i.asNat?.map Op.start
  | .list [.atom "next", i] => i.asNat?.map Op.next
  | .list [.atom "abandon", i] => i.asNat?.map Op.abandon
  | _ => none

def parseSat : Sexp → Option (Nat × List Nat)
  | .list (i :: xs) => do pure ((← i.asNat?), (← xs.mapM Sexp.asNat?))
  | _ => none

/-- `(sched (n N) (sats (i e…)…) (ops …))`: interleaved single-variable query iterators over one shared variable -/
def runSched (items : List Sexp) : Option String := do
  let n ← match Sexp.field? items "n" with | some [x] => x.asNat? | _ => none
  let sats ← (← Sexp.field? items "sats").mapM parseSat
  let ops ← (← Sexp.field? items "ops").mapM parseOp
  let satf := fun i => (sats.lookup i).getD []
  let m := run satf (init n) ops
  let sp := specRun n satf [] ops
  let trig := if sequential ops then "" else "F-C03-1"
  pure s!"model={" ".intercalate (m.map showOut)}\tspec={" ".intercalate (sp.map showOut)}\ttrig={trig}"

open KrroodVerif.Eql KrroodVerif.Drive.EqlParse in
/-- `(multi (order (qi k)…) (objs …) (doms …) (queries (qq (sel …) (cond …))…))`: the listed query objects (sharing
their variables) are evaluated one after the other, the j-th evaluation consuming `k` results (`-1`: all) before it
is abandoned. Expected (model = spec, by `C03_sequential_partial`): each evaluation yields the prefix of its
isolated result sequence, computed by the M-EQL model. -/
def runMulti (items : List Sexp) : Option String := do
  let order ← (← Sexp.field? items "order").mapM fun s => match s with
    | .list [a, b] => do pure ((← a.asNat?), (← b.asInt?))
    | _ => none
  let objs ← Sexp.field? items "objs"
  let doms ← Sexp.field? items "doms"
  let subs := (Sexp.field? items "sub").getD []
  let qs ← Sexp.field? items "queries"
  let parsed ← qs.mapM fun s => match s with
    | .list (.atom "qq" :: parts) => do
      let (w, q) ← parseCase (.list (.atom "q" :: (parts ++ [.list (.atom "objs" :: objs), .list (.atom "doms" :: doms), .list (.atom "sub" :: subs)])))
      pure (evalQuery w q.toQuery)
    -- a query with nested sub-query operands (`an(entity(y, …))` inside a comparison): Model/EqlSub.lean
    | .list (.atom "qqx" :: parts) => do
      let sel ← (← Sexp.field? parts "sel").mapM parseTerm
      let c ← match Sexp.field? parts "cond" with | some [e] => KrroodVerif.Drive.C01.parseXS e | _ => none
      let w : World := { objs := ← objs.mapM parseObj, doms := ← doms.mapM parseDom }
      pure (evalQueryX w sel (buildX c))
    | _ => none
  let outs := order.map fun (qi, k) =>
    match parsed[qi]? with
    | none => "bad-query-index"
    | some res =>
      match res with
      | .error e => errName e
      | .ok rows =>
        let rows := if k < 0 then rows else rows.take k.toNat
        "[" ++ " ".intercalate (rows.map showRow) ++ "]"
  let out := " ; ".intercalate outs
  pure s!"model={out}\tspec={out}\ttrig="

/-- `(sharedsub)`: the fixed witness of F-C03-3 — `xf = x.f; q1 = an(entity(x, xf)); q2 = an(entity(x, xf == False))`,
then `q1` is evaluated. One attribute node with two parents is outside the tree-shaped grammar of the models, so no
prediction is made (`*`); the specification is `q1`'s isolated result over `f = T, F, F`. -/
def run (s : Sexp) : String :=
  match s with
  | .list [.atom "sharedsub"] => "model=*\tspec=[(o0)]\ttrig=F-C03-3"
  -- `(rulereeval)`: a rule query (base rule + one alternative) evaluated twice; since fix 10ab5ee every
  -- evaluation resets the selectors' `concluded_before` sets first, so the second evaluation yields what the first
  -- one yields (F-C03-2, fixed; kept as a corpus case)
  | .list [.atom "rulereeval"] => "model=same\tspec=same\ttrig="
  | .list (.atom "sched" :: items) => (runSched items).getD "error=bad-case"
  | .list (.atom "multi" :: items) => (runMulti items).getD "error=bad-case"
  | _ => "error=bad-case"
end KrroodVerif.Drive.C03
