import KrroodVerif.Sexp
namespace KrroodVerif.Drive.C03
/-- stub: replaced when the model for C03 is built -/
def run (_ : Sexp) : String := "model=unimplemented\tspec=unimplemented\ttrig="
end KrroodVerif.Drive.C03
