import KrroodVerif.Lemmas.EqlUnion
import KrroodVerif.Props.C01
/-!
# C01 — `or_` between conditions over different variables (`Union`) in positive positions

Property theorems only (lemmas: `Lemmas/EqlUnion.lean`).

The **positive fragment** `Expr.Fp`: the atoms of the cover fragment, `and` / `elseIf` / `union` nested arbitrarily,
`not` only over the cover fragment `Expr.Fc` (which has no `union`), no quantifier, no `flatten`. By `Expr.Fp_eq`
this is *exactly* "well-formed atoms, no quantifier, `Expr.unionUnderNot = false`": the complement of the trigger
of F-C01-1. Surface version `SExpr.Fp1`: and / or / not over atoms with `or_` between **arbitrary** variable sets
and `not_` only over `SExpr.F1` sub-conditions; `build_Fp : s.Fp1 → (build s).Fp ∧ (build s).vars = s.freeVars`.

A `Union`'s result stream is not a decision partition — the same assignment can lie in several true cells (so
`C02_multiplicity` fails: see the duplicates in the test below) and a *false* cell compatible with `τ` does not mean
that the condition is false under `τ` (F-C01-1) — so `C01_cover` does not extend to it. Proved instead (unbounded):
`union_true_sound`, `union_true_complete` (+ `union_cell_complete`) and the query-level set equality
`C01_sound_complete_union_partial`, which subsumes `C01_sound_complete_F1_partial` (`SExpr.F1_Fp1`).
-/
namespace KrroodVerif.Eql

/-- **union_true_sound.** For `e` in the positive fragment, a **true** result cell of `eval w e env` that is
compatible with a total assignment `τ` (values occurring exactly once in their domains, as in `C01_cover`)
implies that `τ` satisfies `e` in the first-order reading. Conditional on both sides returning `.ok`. -/
theorem union_true_sound (w : World) (τ : Asg) (e : Expr)
    (hF : e.Fp = true) (hτ : ∀ v ∈ e.vars, ∃ x, τ.lookup v = some x ∧ (w.dom v).count x = 1)
    (hlit : LitNodup e) (env : Env) (rs : List (Env × Bool)) (b : Bool)
    (hfresh : ∀ id, Key.lit id ∈ e.nodes → env.lookup (.lit id) = none)
    (he : eval w e env = .ok rs)
    (p : Env × Bool) (hp : p ∈ rs) (hpt : p.2 = true) (hag : agreesB τ p.1 = true)
    (hs : satE w e τ = .ok b) :
    b = true :=
  true_sound w τ e hF hτ hlit env rs b hfresh he p hp hpt hag hs

/-- **union_true_complete.** For `e` in the positive fragment, a total assignment `τ` compatible with `env` that
satisfies `e` lies in some **true** result cell of `eval w e env`. -/
theorem union_true_complete (w : World) (τ : Asg) (e : Expr)
    (hF : e.Fp = true) (hτ : ∀ v ∈ e.vars, ∃ x, τ.lookup v = some x ∧ (w.dom v).count x = 1)
    (hlit : LitNodup e) (env : Env) (rs : List (Env × Bool))
    (hfresh : ∀ id, Key.lit id ∈ e.nodes → env.lookup (.lit id) = none)
    (hag : agreesB τ env = true)
    (he : eval w e env = .ok rs) (hs : satE w e τ = .ok true) :
    ∃ p ∈ rs, p.2 = true ∧ agreesB τ p.1 = true :=
  true_complete w τ e hF hτ hlit env rs hfresh hag he hs

/-- **union_cell_complete.** Stronger form of completeness (what makes `elseIf` over unions work): `τ` lies in
some result cell whose flag is the truth value of `e` under `τ`, for either truth value. Together with
`union_true_sound`: on the positive fragment only the *soundness of false cells* fails. -/
theorem union_cell_complete (w : World) (τ : Asg) (e : Expr)
    (hF : e.Fp = true) (hτ : ∀ v ∈ e.vars, ∃ x, τ.lookup v = some x ∧ (w.dom v).count x = 1)
    (hlit : LitNodup e) (env : Env) (rs : List (Env × Bool)) (b : Bool)
    (hfresh : ∀ id, Key.lit id ∈ e.nodes → env.lookup (.lit id) = none)
    (hag : agreesB τ env = true)
    (he : eval w e env = .ok rs) (hs : satE w e τ = .ok b) :
    ∃ p ∈ rs, p.2 = b ∧ agreesB τ p.1 = true :=
  cell_complete w τ e hF hτ hlit env rs b hfresh hag he hs

/-- **C01_sound_complete_union_partial.** Soundness and completeness as sets of rows on the positive fragment:
conditions over `and_`, `or_` between conditions over **arbitrary** variable sets (`ElseIf` or `Union`) and
`not_` over `F1` sub-conditions (`SExpr.Fp1`: no `Union` below a `not_`, the negation of the trigger of F-C01-1);
selections as in `C01_sound_complete_F1_partial` (`selF1`, `trigMultiSel q = false`). Side conditions:
duplicate-free and — for the query's variables — non-empty domains (the negation of the trigger of
F-C01-9), distinct literal ids (until fix commit `78cb732` repaired F-C01-3 the domains also had to be truthy).
Conditional on both sides returning `.ok`. A true cell of a `Union` may leave
variables of the condition unbound; a selected one then ranges over its whole domain, and every such completion
satisfies the condition (`union_true_sound`). -/
theorem C01_sound_complete_union_partial (w : World) (q : SQuery) (c : SExpr)
    (hc : q.cond = some c) (hF : c.Fp1 = true) (hsel : selF1 q.sel = true) (hms : trigMultiSel q = false)
    (hnd : ∀ v, (w.dom v).Nodup) (hne : ∀ v ∈ q.vars, w.dom v ≠ [])
    (hlit : LitNodup (build c))
    {rows rows' : List (List Val)}
    (h1 : evalQuery w q.toQuery = .ok rows) (h2 : solutions w q = .ok rows') :
    ∀ r, r ∈ rows ↔ r ∈ rows' := by
  obtain ⟨sel, cond⟩ := q
  simp only at hc; subst hc
  exact sound_complete_Fp w sel c hF hsel (hasDup_false_iff.mp hms) hnd hne hlit h1 h2

/-! ## non-vacuity (tests)

`set_of([x, y], or_(x.a == 1, y.a == 2))` over the 3-object world of `Props/C02.lean` (`a ∈ {0,1,2}`): the
condition is built as a `Union` (different variable sets), it is in `Fp1` but not in `F1`, every hypothesis of
`C01_sound_complete_union_partial` holds; 5 of the 9 assignments satisfy it. The engine returns 8 rows: the same
*set* as the specification, with three duplicates (`(P1,P2)` from the left branch and from "right alone",
`(P0,P2)`, `(P2,P2)` from the fall-through and from "right alone") — the multiset statement `C02_multiplicity`
does not extend to `Union`. -/
def c01unC : SExpr :=
  .or (.cmp .eq (.attr (.var 0) "a") (.lit 101 (.int 1))) (.cmp .eq (.attr (.var 1) "a") (.lit 102 (.int 2)))
def c01unQ : SQuery := ⟨[.var 0, .var 1], some c01unC⟩

example :
    c01unQ.cond = some c01unC ∧ c01unC.Fp1 = true ∧ c01unC.F1 = false ∧
    build c01unC = .union (.cmp .eq (.attr (.var 0) "a") (.lit 101 (.int 1)))
      (.cmp .eq (.attr (.var 1) "a") (.lit 102 (.int 2))) ∧
    (build c01unC).Fp = true ∧ (build c01unC).Fc = false ∧
    selF1 c01unQ.sel = true ∧ trigMultiSel c01unQ = false ∧ (∀ v, (c02nvW.dom v).Nodup) ∧
    (∀ v ∈ c01unQ.vars, c02nvW.dom v ≠ []) ∧ LitNodup (build c01unC) ∧
    evalQuery c02nvW c01unQ.toQuery = .ok [[.obj 0, .obj 2], [.obj 1, .obj 0], [.obj 1, .obj 1], [.obj 1, .obj 2],
      [.obj 2, .obj 2], [.obj 0, .obj 2], [.obj 1, .obj 2], [.obj 2, .obj 2]] ∧
    solutions c02nvW c01unQ = .ok [[.obj 0, .obj 2], [.obj 1, .obj 0], [.obj 1, .obj 1], [.obj 1, .obj 2],
      [.obj 2, .obj 2]] ∧
    sameAnswers (evalQuery c02nvW c01unQ.toQuery) (solutions c02nvW c01unQ) = true ∧
    (assignments c02nvW c01unQ.vars).length = 9 :=
  ⟨rfl, by decide, by decide, by decide, by decide, by decide, by decide, by decide,
    domsNodup_of_B (by decide), by decide, by decide, by decide, by decide,
    by decide, by decide⟩

/-- the theorem applied to the test query (all hypotheses discharged by `decide`) -/
example : ∀ r, r ∈ [[Val.obj 0, .obj 2], [.obj 1, .obj 0], [.obj 1, .obj 1], [.obj 1, .obj 2],
      [.obj 2, .obj 2], [.obj 0, .obj 2], [.obj 1, .obj 2], [.obj 2, .obj 2]] ↔
    r ∈ [[Val.obj 0, .obj 2], [.obj 1, .obj 0], [.obj 1, .obj 1], [.obj 1, .obj 2], [.obj 2, .obj 2]] :=
  C01_sound_complete_union_partial c02nvW c01unQ c01unC rfl (by decide) (by decide) (by decide)
    (domsNodup_of_B (by decide)) (by decide) (by decide) (by decide) (by decide)

/-! A second test: `or_(or_(x.a == 1, y.a == 2), x.a < y.a)` — the n-ary `or_(p(x), q(y), r(x, y))` — is built as
an `ElseIf` whose left side is a `Union` (the outer sides have the same variables); and a `not_` over an `F1`
condition next to it. In `Fp1`, all hypotheses hold, same set of rows. -/
def c01unC2 : SExpr :=
  .and (.or c01unC (.cmp .lt (.attr (.var 0) "a") (.attr (.var 1) "a")))
       (.not (.cmp .eq (.attr (.var 1) "a") (.lit 103 (.int 1))))
def c01unQ2 : SQuery := ⟨[.attr (.var 1) "a", .var 0], some c01unC2⟩

example :
    c01unC2.Fp1 = true ∧ c01unC2.F1 = false ∧
    (match build c01unC2 with | .and (.elseIf (.union _ _) _) (.not _) => true | _ => false) = true ∧
    selF1 c01unQ2.sel = true ∧ trigMultiSel c01unQ2 = false ∧
    (∀ v ∈ c01unQ2.vars, c02nvW.dom v ≠ []) ∧ LitNodup (build c01unC2) ∧
    evalQuery c02nvW c01unQ2.toQuery = .ok [[.int 2, .obj 0], [.int 0, .obj 1], [.int 2, .obj 1], [.int 2, .obj 2],
      [.int 2, .obj 0], [.int 2, .obj 1], [.int 2, .obj 2]] ∧
    solutions c02nvW c01unQ2 = .ok [[.int 0, .obj 1], [.int 2, .obj 0], [.int 2, .obj 1], [.int 2, .obj 2]] ∧
    sameAnswers (evalQuery c02nvW c01unQ2.toQuery) (solutions c02nvW c01unQ2) = true :=
  ⟨by decide, by decide, by decide, by decide, by decide, by decide, by decide, by decide, by decide,
    by decide⟩

end KrroodVerif.Eql
