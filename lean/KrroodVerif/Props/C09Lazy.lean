import KrroodVerif.Props.C09
/-! C09, continued: how many child results the quantifier takes, and interleaved evaluations of one query object. -/
namespace KrroodVerif.Quant

theorem consumedFrom_le {α} (c : Option Constraint) (n : Nat) (sols : List α) : consumedFrom c n sols ≤ sols.length := by
  induction sols generalizing n with
  | nil => simp [consumedFrom]
  | cons x xs ih =>
    simp only [consumedFrom, List.length_cons]
    split
    · omega
    · have := ih (n + 1); omega

/-- the running count has not exceeded an upper bound (what every passed `assert_satisfaction(count, done=False)` ensures) -/
def CountOK : Option Constraint → Nat → Prop
  | none, _ => True
  | some c, n => ∀ u, upper c = some u → n ≤ u

theorem assertOpt_false_cases (c : Option Constraint) (n : Nat) :
    (assertOpt c n false = .ok () ∧ CountOK c n) ∨ (assertOpt c n false = .error .greater) := by
  cases c with
  | none => left; exact ⟨rfl, trivial⟩
  | some c =>
    cases c with
    | exactly v =>
      by_cases h : n > v
      · right; simp [assertOpt, assertSat, h]
      · left; refine ⟨by simp [assertOpt, assertSat, h], ?_⟩
        intro u hu; simp only [upper, Option.some.injEq] at hu; omega
    | atLeast v => left; refine ⟨by simp [assertOpt, assertSat], ?_⟩; intro u hu; simp [upper] at hu
    | atMost v =>
      by_cases h : n > v
      · right; simp [assertOpt, assertSat, h]
      · left; refine ⟨by simp [assertOpt, assertSat, h], ?_⟩
        intro u hu; simp only [upper, Option.some.injEq] at hu; omega
    | range lo hi =>
      by_cases h : n > hi
      · right; simp [assertOpt, assertSat, h]
      · left; refine ⟨by simp [assertOpt, assertSat, h], ?_⟩
        intro u hu; simp only [upper, Option.some.injEq] at hu; omega

theorem assertOpt_true_not_greater (c : Option Constraint) (n : Nat) (h : CountOK c n) :
    assertOpt c n true ≠ .error .greater := by
  cases c with
  | none => simp [assertOpt]
  | some c =>
    cases c with
    | exactly v =>
      have hv := h v rfl
      have : ¬ n > v := by omega
      simp only [assertOpt, assertSat, this, if_false]; split <;> simp
    | atLeast v => simp only [assertOpt, assertSat]; split <;> simp
    | atMost v =>
      have hv := h v rfl
      have : ¬ n > v := by omega
      simp [assertOpt, assertSat, this]
    | range lo hi =>
      have hv := h hi rfl
      have : ¬ n > hi := by omega
      simp only [assertOpt, assertSat, this, if_false]; split <;> simp

theorem consumedFrom_eq {α} (c : Option Constraint) (n : Nat) (sols : List α) (h : CountOK c n) :
    consumedFrom c n sols = (loop c n sols).1.length + (if (loop c n sols).2 = .err .greater then 1 else 0) := by
  induction sols generalizing n with
  | nil =>
    have hng := assertOpt_true_not_greater c n h
    have hcases : assertOpt c n true = .ok () ∨ ∃ e, assertOpt c n true = .error e ∧ e ≠ .greater := by
      cases hh : assertOpt c n true with
      | ok u => left; rfl
      | error e => right; exact ⟨e, rfl, fun he => hng (by rw [hh, he])⟩
    rcases hcases with hok | ⟨e, he, hne⟩
    · simp [consumedFrom, loop, hok]
    · simp [consumedFrom, loop, he, hne]
  | cons x xs ih =>
    simp only [consumedFrom, loop]
    rcases assertOpt_false_cases c (n + 1) with ⟨hok, hc⟩ | hg
    · simp only [hok, List.length_cons]; rw [ih (n + 1) hc]; omega
    · simp [hg]

/-- **C09_consumed.** The quantifier takes from its child exactly the results it yields, plus — when an upper bound is
exceeded — the one result that revealed it; never more than there are. -/
theorem C09_consumed {α} (c : Option Constraint) (sols : List α) :
    consumed c sols ≤ sols.length ∧
    consumed c sols = (run c sols).1.length + (if (run c sols).2 = .err .greater then 1 else 0) := by
  refine ⟨consumedFrom_le c 0 sols, consumedFrom_eq c 0 sols ?_⟩
  cases c with
  | none => trivial
  | some c => intro u _; exact Nat.zero_le u

/-- With an upper bound `u` and more than `u` solutions exactly `u + 1` child results are taken, however many solutions
follow (for a lazily produced child: however long, even unbounded, the rest of the stream is). -/
theorem C09_consumed_upper {α} (c : Constraint) (hwf : c.WF) (sols : List α) (u : Nat) (hu : upper c = some u)
    (hn : u < sols.length) : consumed (some c) sols = u + 1 := by
  have h := (C09_consumed (some c) sols).2
  rw [C09_run_eq_spec (some c) (by intro c' h; cases h; exact hwf)] at h
  rw [h]
  have : sols.length > u := hn
  simp [spec, hu, this, List.length_take]
  omega

/-- **C09_interleaving_independent.** Interleaved evaluations of one query object do not share a counter: what an
evaluation's `next()` returns depends only on how often THAT evaluation has been advanced. -/
theorem C09_interleaving_independent {α} (c : Option Constraint) (sols : List α) (js : List Nat) (pos : List (Nat × Nat)) :
    ∀ e ∈ interleaved c sols js pos, ∃ p, e.2 = nextObs (run c sols) p := by
  induction js generalizing pos with
  | nil => simp [interleaved]
  | cons j rest ih =>
    intro e he
    simp only [interleaved, List.mem_cons] at he
    rcases he with rfl | he
    · exact ⟨_, rfl⟩
    · exact ih _ e he

example : consumed (some (.atMost 2)) [10, 20, 30, 40, 50] = 3 ∧ consumed (some (.atLeast 9)) [1, 2] = 2 := by decide

end KrroodVerif.Quant
