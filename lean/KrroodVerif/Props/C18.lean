import KrroodVerif.Model.Json
/-!
# C18 — JSON serialisation round-trips polymorphic objects

Property theorems only. `toJson` / `fromJson` (Model/Json.lean) transcribe `to_json` / `from_json` of
`krrood/adapters/json_serializer.py`; `fromJson` resolves every type tag with `resolve`, the very function C19 is
about. `json.dumps`/`json.loads` is assumed to be the identity on `Json` trees (validated per case by the harness).

All theorems are unbounded: any nesting depth of lists and objects, any classes, any field names, any leaves,
every import environment, **every** quirk setting of the resolver (the escaping exceptions of C19 are never
reached from a serialised well-formed value).
-/
namespace KrroodVerif.Json

/-! ### `rsplit` recovers module and name from `module + "." + name` -/

theorem rsplitDot_none_of_not_mem : ∀ (n : List Char), '.' ∉ n → rsplitDot n = none
  | [], _ => rfl
  | c :: cs, h => by
    have hc : c ≠ '.' := fun e => h (by simp [e])
    have hcs : '.' ∉ cs := fun e => h (by simp [e])
    simp [rsplitDot, rsplitDot_none_of_not_mem cs hcs, hc]

theorem rsplitDot_append (n : List Char) (hn : '.' ∉ n) :
    ∀ (m : List Char), rsplitDot (m ++ '.' :: n) = some (m, n)
  | [] => by simp [rsplitDot, rsplitDot_none_of_not_mem n hn]
  | c :: m => by simp [rsplitDot, rsplitDot_append n hn m]

theorem rsplit_fullName (c : Cls) (h : c.name.toList.contains '.' = false) :
    rsplit c.fullName = some (c.module, c.name) := by
  have hn : '.' ∉ c.name.toList := by simpa using h
  simp [rsplit, Cls.fullName, rsplitDot_append _ hn]

theorem fullName_truthy (c : Cls) : (Json.str c.fullName).truthy = true := by
  simp [Json.truthy, Cls.fullName]

/-- a resolvable class is dispatched to — itself, through the right door — whatever the quirk setting -/
theorem resolve_resolvable (q : Quirks) (env : Env) (c : Cls) (ser : Bool)
    (h : resolvable env c ser = true) :
    resolve q env (some (.str c.fullName)) = .dispatch c (if ser then .fromJson else .registry) := by
  unfold resolvable at h
  simp only [Bool.and_eq_true, Bool.not_eq_true', beq_iff_eq] at h
  obtain ⟨⟨hdot, himp⟩, hattr⟩ := h
  have ht := fullName_truthy c
  simp only [resolve, ht, Bool.not_true, Bool.false_eq_true, if_false, rsplit_fullName c hdot, himp]
  split at hattr
  · rename_i c' ser' reg' impl' hk
    simp only [Bool.and_eq_true, beq_iff_eq] at hattr
    obtain ⟨⟨hc, hs⟩, hr⟩ := hattr
    subst hc hs
    rw [hk]
    cases ser' <;> simp_all
  · cases hattr

/-- a registered pair that is `resolvable` does not keep its payload under the tag key -/
theorem payloadKey_ne (env : Env) (c : Cls) (h : resolvable env c false = true) : env.payloadKey c ≠ tagKey := by
  unfold resolvable at h
  simp only [Bool.and_eq_true] at h
  obtain ⟨_, hattr⟩ := h
  split at hattr
  · simp only [Bool.and_eq_true, Bool.false_eq_true, if_false, bne_iff_ne, ne_eq] at hattr
    exact hattr.2.2
  · cases hattr

/-! ### The round trip -/

mutual
theorem roundtrip_val (q : Quirks) (env : Env) :
    ∀ v : PyVal, wf env v = true → fromJson q env (toJson env v) = .ok v
  | .none, _ => rfl
  | .bool _, _ => rfl
  | .int _, _ => rfl
  | .float _, _ => rfl
  | .str _, _ => rfl
  | .ext c p, h => by
    have hr : resolvable env c false = true := by simpa [wf] using h
    have hk : env.payloadKey c ≠ tagKey := payloadKey_ne env c hr
    have hv : lookup (env.payloadKey c) [(tagKey, Json.str c.fullName), (env.payloadKey c, Json.str p)]
        = some (.str p) := by
      simp [lookup, Ne.symm hk]
    simp only [toJson, fromJson]
    rw [show lookup tagKey [(tagKey, Json.str c.fullName), (env.payloadKey c, Json.str p)]
        = some (.str c.fullName) by simp [lookup]]
    rw [resolve_resolvable q env c false hr]
    simp [hv]
  | .list xs, h => by
    have hl : wfList env xs = true := by simpa [wf] using h
    simp [toJson, fromJson, roundtrip_list q env xs hl]
  | .obj c fs, h => by
    have h' : resolvable env c true = true ∧ wfFields env fs = true := by simpa [wf] using h
    simp only [toJson, fromJson]
    rw [show lookup tagKey ((tagKey, Json.str c.fullName) :: toJsonFields env fs) = some (.str c.fullName) by
      simp [lookup]]
    rw [resolve_resolvable q env c true h'.1]
    simp [fromJsonFields, roundtrip_fields q env fs h'.2]
theorem roundtrip_list (q : Quirks) (env : Env) :
    ∀ xs : List PyVal, wfList env xs = true → fromJsonList q env (toJsonList env xs) = .ok xs
  | [], _ => rfl
  | x :: xs, h => by
    have h' : wf env x = true ∧ wfList env xs = true := by simpa [wfList] using h
    simp [toJsonList, fromJsonList, roundtrip_val q env x h'.1, roundtrip_list q env xs h'.2]
theorem roundtrip_fields (q : Quirks) (env : Env) :
    ∀ fs : List (String × PyVal), wfFields env fs = true → fromJsonFields q env (toJsonFields env fs) = .ok fs
  | [], _ => rfl
  | (k, v) :: r, h => by
    have h' : (k ≠ tagKey ∧ wf env v = true) ∧ wfFields env r = true := by simpa [wfFields] using h
    simp [toJsonFields, fromJsonFields, h'.1.1, roundtrip_val q env v h'.1.2, roundtrip_fields q env r h'.2]
end

/-- **C18_roundtrip.** For every import environment, every quirk setting of the resolver and every well-formed
value — leaves, registered third-party instances, `SubclassJSONSerializer` instances of any class, lists, nested
to any depth — deserialising the serialised value gives back exactly the value: same structure, same leaves, and
every object an instance of exactly its original class (`Cls` equality includes the class identity). -/
theorem C18_roundtrip (q : Quirks) (env : Env) (v : PyVal) (h : wf env v = true) :
    fromJson q env (toJson env v) = .ok v :=
  roundtrip_val q env v h

/-! ### Every serialised object carries its fully qualified type tag -/

mutual
theorem tags_val : ∀ v : PyVal, wf env v = true → jsonTags (toJson env v) = valueTags v
  | .none, _ => rfl
  | .bool _, _ => rfl
  | .int _, _ => rfl
  | .float _, _ => rfl
  | .str _, _ => rfl
  | .ext c p, _ => by simp [toJson, jsonTags, valueTags, lookup, jsonTagsFields]
  | .list xs, h => by
    have hl : wfList env xs = true := by simpa [wf] using h
    simp [toJson, jsonTags, valueTags, tags_list xs hl]
  | .obj c fs, h => by
    have h' : resolvable env c true = true ∧ wfFields env fs = true := by simpa [wf] using h
    simp [toJson, jsonTags, valueTags, lookup, jsonTagsFields, tags_fields fs h'.2]
theorem tags_list : ∀ xs : List PyVal, wfList env xs = true → jsonTagsList (toJsonList env xs) = valueTagsList xs
  | [], _ => rfl
  | x :: xs, h => by
    have h' : wf env x = true ∧ wfList env xs = true := by simpa [wfList] using h
    simp [toJsonList, jsonTagsList, valueTagsList, tags_val x h'.1, tags_list xs h'.2]
theorem tags_fields : ∀ fs : List (String × PyVal), wfFields env fs = true →
    jsonTagsFields (toJsonFields env fs) = valueTagsFields fs
  | [], _ => rfl
  | (k, v) :: r, h => by
    have h' : (k ≠ tagKey ∧ wf env v = true) ∧ wfFields env r = true := by simpa [wfFields] using h
    simp [toJsonFields, jsonTagsFields, valueTagsFields, tags_val v h'.1.2, tags_fields r h'.2]
end

/-- **C18_tag.** In the serialised form of a well-formed value every JSON object — at any depth — carries under
`__json_type__` the string `module + "." + name` of the class of the object it stands for, in document order;
no object lacks the key (`valueTags` never contains `none`), and at the top level the tag is the first entry. -/
theorem C18_tag (env : Env) (v : PyVal) (h : wf env v = true) :
    jsonTags (toJson env v) = valueTags v ∧
    (∀ c fs, v = .obj c fs → ∃ rest, toJson env v = .obj ((tagKey, .str (c.module ++ "." ++ c.name)) :: rest)) ∧
    (∀ c p, v = .ext c p → ∃ rest, toJson env v = .obj ((tagKey, .str (c.module ++ "." ++ c.name)) :: rest)) := by
  refine ⟨tags_val v h, ?_, ?_⟩
  · intro c fs e; subst e; exact ⟨_, rfl⟩
  · intro c p e; subst e; exact ⟨_, rfl⟩

/-! Non-vacuity (tests, not the unbounded claim): a concrete environment and a nested well-formed value with two
classes, a registered type, an empty list and a list in a field; and a value that is *not* well-formed because
its class is not resolvable (so `wf` is not trivially true). -/
def exA : Cls := ⟨"k0", "m.sub", "A"⟩
def exB : Cls := ⟨"k1", "m.sub", "B"⟩
def exU : Cls := ⟨"k2", "uuid", "UUID"⟩
def exEnv : Env where
  importModule := fun m => if m = "m.sub" ∨ m = "uuid" then .ok else .notFound
  getattr := fun m n =>
    if m = "m.sub" ∧ n = "A" then .cls exA true false true
    else if m = "m.sub" ∧ n = "B" then .cls exB true false true
    else if m = "uuid" ∧ n = "UUID" then .cls exU false true true
    else .missing
def exVal : PyVal :=
  .obj exB [("x", .list [.obj exA [], .list [], .ext exU "p", .int 5]), ("y", .none)]

example : wf exEnv exVal = true ∧ fromJson .all exEnv (toJson exEnv exVal) = .ok exVal := by
  refine ⟨by decide, C18_roundtrip _ _ _ (by decide)⟩
example : valueTags exVal = [some (.str "m.sub.B"), some (.str "m.sub.A"), some (.str "uuid.UUID")] := by
  simp [valueTags, valueTagsFields, valueTagsList, exVal, exA, exB, exU, Cls.fullName]
example : wf exEnv (.obj ⟨"k9", "m.sub", "Local"⟩ []) = false := by decide
example : wf exEnv (.obj exA [(tagKey, .none)]) = false := by decide
/-- a serializer class that does not implement `_from_json` (abstract) is not well-formed -/
example : wf { exEnv with getattr := fun _ _ => .cls exA true false false } (.obj exA []) = false := by decide


/-! ### Shared sub-values: aliasing is irrelevant

A value in which one list object / one serialisable object is referenced from several places (`SVal`, a DAG) stands
for the tree `SVal.tree`; `toJson` is a function of that tree, so the round trip of a shared value is the round trip
of its tree. The statement is trivial in the model *because* the model serialises structure only — the correspondence
exercises aliased Python values (same `id()`) against it. -/

/-- **C18_roundtrip_shared.** -/
theorem C18_roundtrip_shared (q : Quirks) (env : Env) (s : SVal) (v : PyVal) (hs : s.tree = some v)
    (h : wf env v = true) : (s.tree.map fun t => fromJson q env (toJson env t)) = some (.ok v) := by
  rw [hs]; simp [C18_roundtrip q env v h]

/-- test: `e = []; [e, e]` and `row = [0]; [[row, row], row]` expand to the trees they stand for; a reference before
its definition (a cycle) has no tree -/
example : (SVal.list [.defn 0 (.list []), .ref 0]).tree = some (.list [.list [], .list []]) ∧
    (SVal.list [.list [.defn 1 (.list [.leaf (.int 0)]), .ref 1], .ref 1]).tree
      = some (.list [.list [.list [.int 0], .list [.int 0]], .list [.int 0]]) ∧
    (SVal.defn 0 (.list [.ref 0])).tree = none := by
  refine ⟨?_, ?_, ?_⟩ <;> simp [SVal.tree, expand, expandList, lookupDef]

/-! ### Registry histories: the round trip uses the registry as it is at the time of the call -/

mutual
theorem serializable_of_wf (env : Env) : ∀ v : PyVal, wf env v = true → serializable env v = true
  | .none, _ => rfl
  | .bool _, _ => rfl
  | .int _, _ => rfl
  | .float _, _ => rfl
  | .str _, _ => rfl
  | .ext c p, h => by
    have hr : resolvable env c false = true := by simpa [wf] using h
    unfold resolvable at hr
    simp only [Bool.and_eq_true] at hr
    obtain ⟨_, hattr⟩ := hr
    simp only [serializable]
    split at hattr
    · rename_i c' ser' reg' impl' hk
      simp only [Bool.and_eq_true, Bool.false_eq_true, if_false, beq_iff_eq] at hattr
      simp [hattr.1.1, hattr.2.1]
    · cases hattr
  | .list xs, h => by
    have hl : wfList env xs = true := by simpa [wf] using h
    simp [serializable, serializableList_of_wf env xs hl]
  | .obj c fs, h => by
    have h' : resolvable env c true = true ∧ wfFields env fs = true := by simpa [wf] using h
    simp [serializable, serializableFields_of_wf env fs h'.2]
theorem serializableList_of_wf (env : Env) : ∀ xs : List PyVal, wfList env xs = true → serializableList env xs = true
  | [], _ => rfl
  | x :: xs, h => by
    have h' : wf env x = true ∧ wfList env xs = true := by simpa [wfList] using h
    simp [serializableList, serializable_of_wf env x h'.1, serializableList_of_wf env xs h'.2]
theorem serializableFields_of_wf (env : Env) :
    ∀ fs : List (String × PyVal), wfFields env fs = true → serializableFields env fs = true
  | [], _ => rfl
  | (k, v) :: r, h => by
    have h' : (k ≠ tagKey ∧ wf env v = true) ∧ wfFields env r = true := by simpa [wfFields] using h
    simp [serializableFields, serializable_of_wf env v h'.1.2, serializableFields_of_wf env r h'.2]
end

theorem runOps_append (q : Quirks) (base : Env) (ops₂ : List HOp) :
    ∀ (ops₁ : List HOp) (R : RegState),
      runOps q base (ops₁ ++ ops₂) R =
        ((runOps q base ops₁ R).1 ++ (runOps q base ops₂ (runOps q base ops₁ R).2).1,
         (runOps q base ops₂ (runOps q base ops₁ R).2).2)
  | [], R => by simp [runOps]
  | op :: ops, R => by
    simp only [List.cons_append, runOps]
    rw [runOps_append q base ops₂ ops]

/-- **C18_history.** After ANY history of operations (registrations, re-registrations, failed or successful
serialisations, deserialisations of stored documents) starting in any registry state, a round trip of a value that
is well-formed in the registry state *reached* gives back the value — whatever the earlier states were, in particular
if the same value could not be serialised earlier (type not yet registered) or was serialised under another
registration of the type. -/
theorem C18_history (q : Quirks) (base : Env) (ops : List HOp) (R₀ : RegState) (v : PyVal)
    (h : wf (envWith base (runOps q base ops R₀).2) v = true) :
    runOps q base (ops ++ [.rt v]) R₀ =
      ((runOps q base ops R₀).1 ++ [.result (.ok v)], (runOps q base ops R₀).2) := by
  rw [runOps_append]
  simp only [runOps, stepOp, serializable_of_wf _ v h, if_true, C18_roundtrip q _ v h]

/-- **C18_registered_wf.** Registering a (de)serializer pair for a module-level plain class makes its instances
well-formed immediately, for every earlier state `R` (also one that holds an older registration of the same class
under another key: the newest pair is the one that counts). -/
theorem C18_registered_wf (base : Env) (R : RegState) (c : Cls) (key p : String) (reg impl : Bool)
    (hdot : c.name.toList.contains '.' = false) (himp : base.importModule c.module = .ok)
    (hattr : base.getattr c.module c.name = .cls c false reg impl) (hkey : key ≠ tagKey) :
    wf (envWith base (⟨c, key⟩ :: R)) (.ext c p) = true := by
  have hn : '.' ∉ c.name.toList := by simpa using hdot
  simp [wf, resolvable, envWith, hn, himp, hattr, RegState.byCls, hkey]

/-- tests: register on demand, and a replaced registration (the two scenarios of a stale registry cache) -/
def hCls : Cls := ⟨"h0", "m.sub", "H"⟩
def hEnv : Env := { exEnv with getattr := fun m n => if m = "m.sub" ∧ n = "H" then .cls hCls false false true else exEnv.getattr m n }
example : (runOps .none hEnv [.rt (.ext hCls "p"), .register hCls "text", .rt (.list [.ext hCls "p"])] []).1.length = 3 ∧
    wf (envWith hEnv (runOps .none hEnv [.rt (.ext hCls "p"), .register hCls "text"] []).2) (.list [.ext hCls "p"]) = true ∧
    wf (envWith hEnv []) (.ext hCls "p") = false := by
  refine ⟨by simp [runOps, stepOp], by decide, by decide⟩
example : toJson (envWith hEnv [⟨hCls, "tuple"⟩, ⟨hCls, "text"⟩]) (.ext hCls "p")
    = .obj [(tagKey, .str "m.sub.H"), ("tuple", .str "p")] := by
  simp [toJson, envWith, RegState.byCls, hCls, Cls.fullName]

end KrroodVerif.Json
