import KrroodVerif.Model.RuleTables
import KrroodVerif.Props.C08Build
/-!
# C08 — the second tie: surgery and selector semantics as tables

`Model/RuleTables.lean` describes `rule.refinement` / `rule.alternative_or_next` (`SurgeryTable`) and
`ExceptIf` / `Alternative` / `Next` / `update_conclusion` (`SelectorTable`) as first-order data with interpreters
`buildWith` / `evalWith`. Proved here ONCE, unbounded:

* `step_eq_stepWith`, `build_eq_buildWith`, `buildA_eq_buildAWith` — on the hand table `Rdr.surgery` the table
  interpreter IS the model's builder `build Quirks.today` (every store, every program, every authoring schedule);
* `evalT_eq_evalWith` — on the hand table's one-variable reading (`SelectorTable.oneVar`: `Next` hands the bindings of
  a false left value to its right operand, which over one rule variable only repeats results) the table interpreter IS
  the model's evaluator `evalT`, for every keying `DedupSpec.toDedup` of `concluded_before`, every tree, payload,
  domain, incoming binding and memory;
* `C08_end_to_end_tables` — builder and evaluator from the hand tables = the specification, for every unambiguous
  program, payload and domain.

The translator (`harness/translate/c08_translate.py`) regenerates `Translated.surgery` / `Translated.selectors` from
the Python AST on every run; the kernel then re-checks `Translated.surgery = Rdr.surgery`,
`Translated.selectors = Rdr.selectors` (`decide`) and `C08_end_to_end` restated for the translated tables
(`C08_end_to_end_of_tables`, the form the per-run file instantiates).
-/
set_option linter.unusedSimpArgs false
namespace KrroodVerif.Rdr

/-! ## surgery -/

namespace BState

theorem setSide_left (v : Nat) : setSide .left v = fun n => { n with left := some v } := rfl
theorem setSide_right (v : Nat) : setSide .right v = fun n => { n with right := some v } := rfl

theorem climbStepWith_surgery (s : BState) (cur : Nat) :
    climbStepWith surgery.altOrNext.climb s cur = s.climbStep cur := by
  unfold climbStepWith climbStep
  cases (s.node cur).parent with
  | none => rfl
  | some par =>
    simp only [surgery, List.any_cons, List.any_nil, condHolds, Bool.or_false]
    cases hk : (s.node par).kind <;> simp

theorem climbWith_surgery (s : BState) : ∀ (f cur : Nat),
    climbWith surgery.altOrNext.climb s f cur = s.climb f cur
  | 0, _ => rfl
  | f + 1, cur => by
    simp only [climbWith, climb, climbStepWith_surgery, climbWith_surgery s f]

theorem doRefinementWith_surgery (s : BState) (b : Nat) :
    s.doRefinementWith surgery.refinement b = s.doRefinement Quirks.today b := by
  unfold doRefinementWith doRefinement
  cases s.stack with
  | nil => rfl
  | cons cur rest =>
    simp only [surgery, wrapWith, Quirks.today, relinkWith, relinkTests, operandOf, retOf, sideOf, setSide_left, setSide_right,
      Bool.not_true, Bool.false_or, ↓reduceIte, Bool.false_eq_true]
    rfl

theorem doAltOrNextWith_surgery_alt (s : BState) (b : Nat) :
    s.doAltOrNextWith surgery.altOrNext surgery.altOrNext.wrapAlt b = s.doAltOrNext Quirks.today .alt b := by
  unfold doAltOrNextWith doAltOrNext
  cases s.stack with
  | nil => rfl
  | cons top rest =>
    simp only [show surgery.altOrNext.climbLoops = true from rfl, climbWith_surgery, ↓reduceIte]
    simp only [surgery, wrapWith, Quirks.today, relinkWith, relinkTests, operandOf, retOf, sideOf, setSide_left, setSide_right,
      Bool.not_true, Bool.false_or, ↓reduceIte, Bool.false_eq_true]
    congr 1
    cases (node (s.alloc { kind := NK.leaf, blk := b }).1
      ((s.alloc { kind := NK.leaf, blk := b }).1.climb (s.alloc { kind := NK.leaf, blk := b }).1.nodes.length top)).parent with
    | none => rfl
    | some pp =>
      simp only [Bool.false_or, decide_eq_true_eq]
      rfl

theorem doAltOrNextWith_surgery_next (s : BState) (b : Nat) :
    s.doAltOrNextWith surgery.altOrNext surgery.altOrNext.wrapNext b = s.doAltOrNext Quirks.today .next b := by
  unfold doAltOrNextWith doAltOrNext
  cases s.stack with
  | nil => rfl
  | cons top rest =>
    simp only [show surgery.altOrNext.climbLoops = true from rfl, climbWith_surgery, ↓reduceIte]
    simp only [surgery, wrapWith, Quirks.today, relinkWith, relinkTests, operandOf, retOf, sideOf, setSide_left, setSide_right,
      Bool.not_true, Bool.false_or, ↓reduceIte, Bool.false_eq_true]
    congr 1
    cases (node (s.alloc { kind := NK.leaf, blk := b }).1
      ((s.alloc { kind := NK.leaf, blk := b }).1.climb (s.alloc { kind := NK.leaf, blk := b }).1.nodes.length top)).parent with
    | none => rfl
    | some pp =>
      simp only [Bool.false_or, decide_eq_true_eq]
      rfl

/-- one builder operation: the table interpreter on the hand table is the model's `step` -/
theorem step_eq_stepWith (s : BState) (op : Op) : s.step Quirks.today op = s.stepWith surgery op := by
  cases op <;> simp only [stepWith, step, doRefinementWith_surgery, doAltOrNextWith_surgery_alt,
    doAltOrNextWith_surgery_next]

theorem run_eq_runWith : ∀ (ops : List Op) (s : BState), s.run Quirks.today ops = s.runWith surgery ops
  | [], _ => rfl
  | op :: ops, s => by
    simp only [run, runWith, step_eq_stepWith]
    cases s.stepWith surgery op with
    | none => rfl
    | some s' => exact run_eq_runWith ops s'

end BState

/-- **build_eq_buildWith.** The surgery table `Rdr.surgery`, interpreted, is the model's builder — every program. -/
theorem build_eq_buildWith (p : Prog) : build Quirks.today p = buildWith surgery p :=
  BState.run_eq_runWith _ _

/-- the same for every authoring schedule (several `with rule:` blocks, base `Add` anywhere) -/
theorem buildA_eq_buildAWith (a : Authored) : buildA Quirks.today a = buildAWith surgery a :=
  BState.run_eq_runWith _ _

/-! ## selectors -/

theorem mapSeen_filter (f : Out → Seen → List Out × Seen) (p : Out → Bool) : ∀ (l : List Out) (s : Seen),
    mapSeen (fun a s => if p a then f a s else ([], s)) l s = mapSeen f (l.filter p) s
  | [], s => rfl
  | a :: as, s => by
    cases hp : p a
    · simp only [mapSeen, hp, Bool.false_eq_true, ↓reduceIte, List.filter_cons, List.nil_append]
      rw [mapSeen_filter f p as s]
    · simp only [mapSeen, hp, ↓reduceIte, List.filter_cons]
      rw [mapSeen_filter f p as]

theorem mapSeen_congr {α} (f g : α → Seen → List Out × Seen) (h : ∀ a s, f a s = g a s) (l : List α) (s : Seen) :
    mapSeen f l s = mapSeen g l s := by
  have : f = g := by funext a s; exact h a s
  rw [this]

theorem mapSeen_nil' {α} (f : α → Seen → List Out × Seen) (s : Seen) : mapSeen f [] s = ([], s) := rfl

theorem emitOut_left (d : Dedup) (id x : Nat) (lc rc : List Nat) (f : Bool) (s : Seen) :
    emitOut d id x lc rc ⟨f, .left⟩ s = ([⟨x, f, (update d id x f lc s).1⟩], (update d id x f lc s).2) := rfl
theorem emitOut_right (d : Dedup) (id x : Nat) (lc rc : List Nat) (f : Bool) (s : Seen) :
    emitOut d id x lc rc ⟨f, .right⟩ s = ([⟨x, f, (update d id x f rc s).1⟩], (update d id x f rc s).2) := rfl
theorem emitOut_none (d : Dedup) (id x : Nat) (lc rc : List Nat) (f : Bool) (s : Seen) :
    emitOut d id x lc rc ⟨f, .none⟩ s = ([⟨x, f, []⟩], s) := rfl

theorem rightEmits_skip (d : Dedup) (id : Nat) (lc : List Nat) (e : Emit) (rs : List Out) (s : Seen) :
    rightEmits d id lc (some e) none rs s =
      mapSeen (fun (rv : Out) s => emitOut d id rv.x lc rv.concl e s) (rs.filter fun o => !o.isF) s := by
  unfold rightEmits
  rw [← mapSeen_filter]
  congr 1
  funext rv s
  cases rv.isF <;> simp [optEmit]

/-- `Next` and `Alternative`: every right value is passed on -/
theorem rightEmits_both (d : Dedup) (id : Nat) (lc : List Nat) (eT eF : Emit) (rs : List Out) (s : Seen) :
    rightEmits d id lc (some eT) (some eF) rs s =
      mapSeen (fun (rv : Out) s => emitOut d id rv.x lc rv.concl (if rv.isF then eF else eT) s) rs s := by
  unfold rightEmits
  congr 1
  funext rv s
  cases rv.isF <;> simp [optEmit]

/-- the table interpreter on a table whose rows are the hand table's one-variable reading is `evalT` -/
theorem evalT_eq_evalWith_of (pay : Payload) (tb : SelectorTable) (dom : List Nat)
    (h1 : tb.exceptIf = selectors.exceptIf) (h2 : tb.alt = selectors.alt) (h3 : tb.next = nextRowLeak) (t : Sel) :
    ∀ src s, evalT pay tb.dedup.toDedup dom t src s = evalWith tb pay dom t src s := by
  induction t with
  | leaf id blk concl => intro src s; simp [evalT, evalWith]
  | node k id l r ihl ihr =>
    intro src s
    cases k
    · simp only [evalT, evalWith, SelectorTable.row, h1, h2, h3, selectors, nextRowLeak, ← ihl, ← ihr]
      congr 1
      funext lv s
      cases hf : lv.isF
      · simp only [Bool.false_eq_true, ↓reduceIte, onLeftWith, rightEmits_skip]
        split
        · rename_i he
          have : List.filter (fun o => !o.isF) (evalT pay tb.dedup.toDedup dom r (some lv.x) s).fst = [] :=
            List.isEmpty_iff.mp he
          simp only [this, mapSeen_nil', List.nil_append, emitOut_left]
        · simp only [emitOut_right]
      · simp only [↓reduceIte, onLeftWith, emitOut_none]
    · simp only [evalT, evalWith, SelectorTable.row, h1, h2, h3, selectors, nextRowLeak, ← ihl, ← ihr]
      congr 1
      funext lv s
      cases hf : lv.isF
      · simp only [Bool.false_eq_true, ↓reduceIte, onLeftWith, emitOut_left]
      · simp only [↓reduceIte, onLeftWith, rightEmits_both]
        congr 1
        funext rv s
        cases hr : rv.isF <;> simp [emitOut_right, emitOut_none]
    · have hR : ∀ lc, (fun (rv : Out) s =>
            emitOut tb.dedup.toDedup id rv.x lc rv.concl (if rv.isF = true then ⟨true, .right⟩ else ⟨false, .right⟩) s) =
          fun (rv : Out) s => ([⟨rv.x, rv.isF, (update tb.dedup.toDedup id rv.x rv.isF rv.concl s).1⟩],
            (update tb.dedup.toDedup id rv.x rv.isF rv.concl s).2) := by
        intro lc
        funext rv s
        cases hr : rv.isF <;> simp [emitOut_right]
      simp only [evalT, evalWith, SelectorTable.row, h1, h2, h3, selectors, nextRowLeak, ← ihl, ← ihr,
        rightEmits_both, hR]
      have hL : (fun (lv : Out) s =>
            onLeftWith tb.dedup.toDedup id (staticConcl pay r) (fun src s => evalT pay tb.dedup.toDedup dom r src s) lv
              (if lv.isF = true then
                OnLeft.evalRight (some ⟨false, .right⟩) (some ⟨true, .right⟩) none
              else OnLeft.emit ⟨false, .left⟩) s) =
          fun (lv : Out) s =>
            if lv.isF = true then
              mapSeen (fun (rv : Out) s =>
                ([⟨rv.x, rv.isF, (update tb.dedup.toDedup id rv.x rv.isF rv.concl s).1⟩],
                  (update tb.dedup.toDedup id rv.x rv.isF rv.concl s).2))
                (evalT pay tb.dedup.toDedup dom r (some lv.x) s).1 (evalT pay tb.dedup.toDedup dom r (some lv.x) s).2
            else ([⟨lv.x, false, (update tb.dedup.toDedup id lv.x false lv.concl s).1⟩],
              (update tb.dedup.toDedup id lv.x false lv.concl s).2) := by
        funext lv s
        cases hf : lv.isF
        · simp only [Bool.false_eq_true, ↓reduceIte, onLeftWith, emitOut_left]
        · simp only [↓reduceIte, onLeftWith, rightEmits_both, hR]
      simp only [hL]

/-- **evalT_eq_evalWith.** The selector table `Rdr.selectors` (rows: one-variable reading), interpreted, is the model's
evaluator `evalT` — every keying of `concluded_before` a `DedupSpec` describes, every tree, payload, domain,
incoming binding and memory. -/
theorem evalT_eq_evalWith (pay : Payload) (ds : DedupSpec) (dom : List Nat) (t : Sel) (src : Option Nat) (s : Seen) :
    evalT pay ds.toDedup dom t src s =
      evalWith ({ selectors with dedup := ds } : SelectorTable).oneVar pay dom t src s :=
  evalT_eq_evalWith_of pay ({ selectors with dedup := ds } : SelectorTable).oneVar dom rfl rfl rfl t src s

theorem selectors_dedup : selectors.dedup.toDedup = Quirks.today.dedup := rfl

theorem evalTop_eq_evalTopWith (pay : Payload) (dom : List Nat) (t : Sel) :
    evalTop pay Quirks.today.dedup dom t = evalTopWith selectors.oneVar pay dom t := by
  unfold evalTop evalTopWith
  rw [← evalT_eq_evalWith_of pay selectors.oneVar dom rfl rfl rfl t none []]
  rfl

/-- **C08_end_to_end_of_tables.** The form the per-run file instantiates: for ANY tables that equal the hand tables,
builder and evaluator interpreted from them return exactly the rows of the specification — for every unambiguous
program, every payload and every domain. -/
theorem C08_end_to_end_of_tables (st : SurgeryTable) (tb : SelectorTable) (hs : st = surgery) (ht : tb = selectors)
    (p : Prog) (pay : Payload) (dom : List Nat) (hu : p.unambiguous = true) :
    ∃ t, (buildWith st p).bind BState.tree = some t ∧
      ∀ c x, (c, x) ∈ evalTopWith tb.oneVar pay dom t ↔ (c, x) ∈ spec pay p dom := by
  subst hs ht
  obtain ⟨t, h1, h2⟩ := C08_end_to_end p pay dom hu
  exact ⟨t, by rw [← build_eq_buildWith]; exact h1, by rw [← evalTop_eq_evalTopWith]; exact h2⟩

/-- **C08_end_to_end_tables.** Builder and evaluator interpreted from the hand tables. -/
theorem C08_end_to_end_tables (p : Prog) (pay : Payload) (dom : List Nat) (hu : p.unambiguous = true) :
    ∃ t, (buildWith surgery p).bind BState.tree = some t ∧
      ∀ c x, (c, x) ∈ evalTopWith selectors.oneVar pay dom t ↔ (c, x) ∈ spec pay p dom :=
  C08_end_to_end_of_tables surgery selectors rfl rfl p pay dom hu

/-- non-vacuity: the hypotheses of `C08_end_to_end_of_tables` are met by the hand tables and a six-branch program -/
example : surgery = surgery ∧ selectors = selectors ∧
    (Prog.mk 0 (.cons .ref (.mk 1 (.cons .alt (.mk 2 (.cons .ref (.mk 3 .nil) .nil)) (.cons .next (.mk 4 .nil) .nil)))
      (.cons .alt (.mk 5 .nil) (.cons .next (.mk 6 .nil) .nil)))).unambiguous = true := by decide

end KrroodVerif.Rdr
