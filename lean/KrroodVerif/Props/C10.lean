import KrroodVerif.Lemmas.EqlTraceLemmas
/-!
# C10 — Queries are lazy: consuming pulls only what it needs

Property theorems only (helper lemmas and the definitions used in the statements — `Expr.QF`, `Expr.unionFree`,
`Term.root`, `firstVar`, `World.setDom`, `vis`, `PullOk` — are in `Lemmas/EqlTraceLemmas.lean`).

Two frozen executable models are related: the list-monad model `Eql.eval` / `Eql.evalQuery` (C01's model of the
evaluator) and the demand-driven trace model `traceE` / `traceQuery` (continuation-passing, one event per domain
pull / attribute read / yielded row / escaping exception).

* `C10_trace_rows`, `C10_query_rows`, `C10_query_noErr` — erasing pull/read events from the trace leaves exactly the
  list model's results (so the trace model *is* the evaluator, plus the order in which user data is touched);
* `C10_prefix`, `C10_prefix_query` — a consumer that stops after `k` results has performed a prefix of the events and
  has received `take k` of the full result sequence; before the first `next()` nothing is evaluated;
* `C10_pulled_mono`, `C10_pulled_le_domain` — the number of consumed domain elements grows with `k` and never
  exceeds the domain;
* `C10_continuity`, `C10_continuity_rows` — for the first enumerated variable `x`:
  `results (d ++ s) = results d ++ results s` (what has been yielded cannot depend on unconsumed input).

All theorems are unbounded in the size of the world, the domains, the expression and `k`.
-/
namespace KrroodVerif.Eql

/-! ## 1. the trace model and the list model agree on results -/

/-- Consumer-visible events (`vis` keeps `row` and `err` events, erases `pull`/`read`): for a quantifier-free
expression on which the list model succeeds, the trace is the continuation applied to the model's result cells, in
order — no other row and **no exception event** is emitted by the expression itself. -/
theorem C10_trace_vis (w : World) (e : Expr) (hq : e.QF = true) (env : Env) (k : Env → Bool → List Ev)
    (rs : List (Env × Bool)) (h : eval w e env = .ok rs) :
    vis (traceE w e env k) = rs.flatMap fun p => vis (k p.1 p.2) :=
  traceE_vis w e hq env k rs h

/-- **C10_trace_rows.** Erasing pull/read events from the trace of a quantifier-free expression leaves exactly the
continuation applied to the list model's result cells, in order. -/
theorem C10_trace_rows (w : World) (e : Expr) (hq : e.QF = true) (env : Env) (k : Env → Bool → List Ev)
    (rs : List (Env × Bool)) (h : eval w e env = .ok rs) :
    rowsOf (traceE w e env k) = rs.flatMap fun p => rowsOf (k p.1 p.2) := by
  rw [← rowsOf_vis, traceE_vis w e hq env k rs h, rowsOf_flatMap]
  simp only [rowsOf_vis]

/-- an exception event appears in the trace of a successful expression only if a continuation emits it -/
theorem C10_trace_hasErr (w : World) (e : Expr) (hq : e.QF = true) (env : Env) (k : Env → Bool → List Ev)
    (rs : List (Env × Bool)) (h : eval w e env = .ok rs) :
    hasErr (traceE w e env k) = rs.any fun p => hasErr (k p.1 p.2) := by
  rw [hasErr_eq_vis, traceE_vis w e hq env k rs h]
  simp only [hasErr, List.any_flatMap]
  congr 1; funext p
  exact (hasErr_eq_vis (k p.1 p.2)).symm

/-- the same for operands (terms), e.g. the selected expressions of a query -/
theorem C10_trace_rows_term (w : World) (c : Bool) (t : Term) (env : Env) (k : Kont)
    (rs : List (Env × Val × Bool)) (h : evalTerm w c t env = .ok rs) :
    rowsOf (traceTerm w c t env k) = rs.flatMap fun r => rowsOf (k r.1 r.2.1 r.2.2) := by
  rw [← rowsOf_vis, traceTerm_vis w c t env k rs h, rowsOf_flatMap]
  simp only [rowsOf_vis]

/-- the consumer-visible events of a query trace are exactly the list model's rows (and nothing else) -/
theorem C10_query_vis (w : World) (q : Query) (hq : ∀ c, q.cond = some c → c.QF = true)
    (rows : List (List Val)) (h : evalQuery w q = .ok rows) :
    vis (traceQuery w q) = rows.map Ev.row :=
  traceQuery_vis w q hq rows h

/-- **C10_query_rows.** For a query whose condition is quantifier-free (or absent): the rows yielded by the
demand-driven trace are exactly the rows of the list model, in order and with multiplicity. -/
theorem C10_query_rows (w : World) (q : Query) (hq : ∀ c, q.cond = some c → c.QF = true)
    (rows : List (List Val)) (h : evalQuery w q = .ok rows) :
    rowsOf (traceQuery w q) = rows := by
  rw [← rowsOf_vis, traceQuery_vis w q hq rows h, rowsOf_map_row]

/-- … and no exception escapes to the consumer. -/
theorem C10_query_noErr (w : World) (q : Query) (hq : ∀ c, q.cond = some c → c.QF = true)
    (rows : List (List Val)) (h : evalQuery w q = .ok rows) :
    hasErr (traceQuery w q) = false := by
  rw [hasErr_eq_vis, traceQuery_vis w q hq rows h, hasErr_map_row]

/-! ## 2. the consumer that stops after `k` results -/

/-- **C10_prefix.** For every event list and every `k`: the consumer stopping after its `k`-th result has performed
a prefix of the events; it has received exactly the first `k` results; before the first `next()` nothing has been
evaluated. -/
theorem C10_prefix (k : Nat) (evs : List Ev) :
    uptoRow k evs <+: evs ∧ rowsOf (uptoRow k evs) = (rowsOf evs).take k ∧ uptoRow 0 evs = [] :=
  ⟨uptoRow_prefix k evs, rowsOf_uptoRow k evs, uptoRow_zero evs⟩

/-- consuming one more result only extends what has been done -/
theorem C10_prefix_succ (k : Nat) (evs : List Ev) : uptoRow k evs <+: uptoRow (k + 1) evs :=
  uptoRow_succ_prefix k evs

/-- the first `k` results of the lazily consumed query are the first `k` rows of the list model -/
theorem C10_prefix_query (w : World) (q : Query) (hq : ∀ c, q.cond = some c → c.QF = true)
    (rows : List (List Val)) (h : evalQuery w q = .ok rows) (k : Nat) :
    rowsOf (uptoRow k (traceQuery w q)) = rows.take k := by
  rw [rowsOf_uptoRow, C10_query_rows w q hq rows h]

/-! ## 3. consumed domain prefixes -/

/-- `pulled` is monotone under list prefix -/
theorem C10_pulled_mono_prefix (v : VarId) {a b : List Ev} (h : a <+: b) : pulled v a ≤ pulled v b :=
  pulled_mono_prefix v h

/-- **C10_pulled_mono.** The number of elements of `v`'s domain consumed after `k` results is at most the number
consumed after `k+1` results, and at most the number consumed by exhausting the query. -/
theorem C10_pulled_mono (v : VarId) (k : Nat) (evs : List Ev) :
    pulled v (uptoRow k evs) ≤ pulled v (uptoRow (k + 1) evs) ∧ pulled v (uptoRow k evs) ≤ pulled v evs :=
  ⟨pulled_mono_prefix v (uptoRow_succ_prefix k evs), pulled_mono_prefix v (uptoRow_prefix k evs)⟩

/-- every pull event of a query trace is in range (any query, quantifiers included: they emit no pull) -/
theorem C10_pull_in_range (w : World) (q : Query) (v : VarId) (i : Nat) (h : Ev.pull v i ∈ traceQuery w q) :
    i < (w.dom v).length :=
  traceQuery_pullOk w q _ h

/-- **C10_pulled_le_domain.** No more elements are consumed than the domain has. -/
theorem C10_pulled_le_domain (w : World) (q : Query) (v : VarId) :
    pulled v (traceQuery w q) ≤ (w.dom v).length :=
  pulled_le_of_forall v _ _ fun _ hi => traceQuery_pullOk w q _ hi

theorem C10_pulled_upto_le_domain (w : World) (q : Query) (v : VarId) (k : Nat) :
    pulled v (uptoRow k (traceQuery w q)) ≤ (w.dom v).length :=
  Nat.le_trans (pulled_mono_prefix v (uptoRow_prefix k _)) (C10_pulled_le_domain w q v)

/-! ## 4. continuity: what has been yielded cannot depend on unconsumed input -/

/-- **C10_continuity.** `e` quantifier-free and union-free, `x` the variable whose domain the evaluation from the
empty environment enumerates first. Evaluating over the domain `d ++ s` succeeds with `rs` **iff** evaluating over
`d` and over `s` both succeed and `rs` is the concatenation of their results: the results produced while consuming
`d` are those of `d` alone, whatever follows in the generator.
(The equation `eval (d ++ s) = do a ← eval d; b ← eval s; pure (a ++ b)` *including the identity of errors* does not
hold in the list model: it evaluates layer by layer, so with `d ++ s` an error of the first operand on an element
of `s` pre-empts an error of the second operand on an element of `d`; see the `example` below.) -/
theorem C10_continuity (w : World) (x : VarId) (d s : List Val) (e : Expr) (hq : e.QF = true)
    (hu : e.unionFree = true) (hx : firstVar e = some x) (rs : List (Env × Bool)) :
    eval (w.setDom x (d ++ s)) e [] = .ok rs ↔
      ∃ rd rs', eval (w.setDom x d) e [] = .ok rd ∧ eval (w.setDom x s) e [] = .ok rs' ∧ rs = rd ++ rs' :=
  eval_splits w x d s e hq hu hx rs

/-- in particular the results over the consumed part `d` are a prefix of the results over `d ++ s` -/
theorem C10_continuity_prefix (w : World) (x : VarId) (d s : List Val) (e : Expr) (hq : e.QF = true)
    (hu : e.unionFree = true) (hx : firstVar e = some x) (rs : List (Env × Bool))
    (h : eval (w.setDom x (d ++ s)) e [] = .ok rs) :
    ∃ rd, eval (w.setDom x d) e [] = .ok rd ∧ rd <+: rs := by
  obtain ⟨rd, rs', hd, _, rfl⟩ := (C10_continuity w x d s e hq hu hx rs).1 h
  exact ⟨rd, hd, List.prefix_append rd rs'⟩

/-- **C10_continuity_rows.** The same for whole queries (any selected expressions: a selected variable other than
`x` is enumerated from its own, unchanged domain; `x` itself is bound in every condition result). -/
theorem C10_continuity_rows (w : World) (x : VarId) (d s : List Val) (q : Query) (c : Expr)
    (hc : q.cond = some c) (hq : c.QF = true) (hu : c.unionFree = true) (hx : firstVar c = some x)
    (rows : List (List Val)) :
    evalQuery (w.setDom x (d ++ s)) q = .ok rows ↔
      ∃ r1 r2, evalQuery (w.setDom x d) q = .ok r1 ∧ evalQuery (w.setDom x s) q = .ok r2 ∧ rows = r1 ++ r2 :=
  evalQuery_splits w x d s q c hc hq hu hx rows

/-- continuity at the level of the lazily consumed trace: the rows yielded over `d ++ s` start with the rows yielded
over `d` -/
theorem C10_continuity_trace (w : World) (x : VarId) (d s : List Val) (q : Query) (c : Expr)
    (hc : q.cond = some c) (hq : c.QF = true) (hu : c.unionFree = true) (hx : firstVar c = some x)
    (rows : List (List Val)) (h : evalQuery (w.setDom x (d ++ s)) q = .ok rows) :
    rowsOf (traceQuery (w.setDom x d) q) <+: rowsOf (traceQuery (w.setDom x (d ++ s)) q) := by
  have hq' : ∀ c', q.cond = some c' → c'.QF = true := by
    intro c' hc'; rw [hc] at hc'; cases hc'; exact hq
  obtain ⟨r1, r2, h1, _, rfl⟩ := (C10_continuity_rows w x d s q c hc hq hu hx rows).1 h
  rw [C10_query_rows _ q hq' _ h, C10_query_rows _ q hq' _ h1]
  exact List.prefix_append r1 r2

/-! ## 5. non-vacuity (tests) -/

section Tests

/-- three objects with an attribute `a`; both variables range over all of them -/
def exWorld : World :=
  { objs := [⟨0, [("a", .int 1)], false⟩, ⟨0, [("a", .int 2)], false⟩, ⟨0, [("a", .int 1)], false⟩],
    doms := [(0, [.obj 0, .obj 1, .obj 2]), (1, [.obj 0, .obj 1, .obj 2])] }

/-- `an(set_of(x, y), x.a == 1, y.a == x.a)` -/
def exCond : Expr :=
  .and (.cmp .eq (.attr (.var 0) "a") (.lit 10 (.int 1))) (.cmp .eq (.attr (.var 1) "a") (.attr (.var 0) "a"))

def exQuery : Query := { sel := [.var 0, .var 1], cond := some exCond }

/-- the error of a failed evaluation (test helper) -/
def errOf {α} : Except Err α → Option Err | .error e => some e | .ok _ => none

/-- TEST (laziness is real in the model): after the first result, one element of each 3-element domain has been
pulled — strictly fewer than the domain sizes; exhausting the query pulls all of them. -/
example :
    pulled 0 (uptoRow 1 (traceQuery exWorld exQuery)) = 1 ∧ pulled 1 (uptoRow 1 (traceQuery exWorld exQuery)) = 1 ∧
    pulled 0 (uptoRow 1 (traceQuery exWorld exQuery)) < (exWorld.dom 0).length ∧
    pulled 1 (uptoRow 1 (traceQuery exWorld exQuery)) < (exWorld.dom 1).length ∧
    pulled 0 (traceQuery exWorld exQuery) = 3 ∧ pulled 1 (traceQuery exWorld exQuery) = 3 := by decide

/-- TEST: the hypotheses of `C10_query_rows` / `C10_prefix_query` are satisfiable with a non-empty result -/
example : exCond.QF = true ∧
    (evalQuery exWorld exQuery).toOption =
      some [[.obj 0, .obj 0], [.obj 0, .obj 2], [.obj 2, .obj 0], [.obj 2, .obj 2]] ∧
    rowsOf (uptoRow 2 (traceQuery exWorld exQuery)) = [[.obj 0, .obj 0], [.obj 0, .obj 2]] ∧
    hasErr (traceQuery exWorld exQuery) = false := by decide

/-- TEST: the hypotheses of `C10_continuity` are satisfiable: `firstVar` is `x = 0`, and the split of the domain
`[o0] ++ [o1, o2]` splits the results `1 + 1` -/
example : exCond.QF = true ∧ exCond.unionFree = true ∧ firstVar exCond = some 0 ∧
    ((eval (exWorld.setDom 0 ([.obj 0] ++ [.obj 1, .obj 2])) exCond []).toOption.map List.length = some 7) ∧
    ((eval (exWorld.setDom 0 [.obj 0]) exCond []).toOption.map List.length = some 3) ∧
    ((eval (exWorld.setDom 0 [.obj 1, .obj 2]) exCond []).toOption.map List.length = some 4) := by decide

/-- TEST (why `C10_continuity` is not stated as an equation of `Except` values): over `d` alone the second operand
fails (`AttributeError`), over `d ++ s` the list model reports the `IndexError` of the first operand on `s` first. -/
example :
    let e : Expr := .cmp .eq (.index (.var 0) 0) (.attr (.var 1) "zz")
    let w : World := { objs := [], doms := [(1, [.int 5])] }
    errOf (eval (w.setDom 0 [.list [1]]) e []) = some .attrError ∧
    errOf (eval (w.setDom 0 ([.list [1]] ++ [.list []])) e []) = some .indexError := by decide

/-- TEST: union is excluded from `C10_continuity` for a reason — the right branch re-enumerates the domain -/
example :
    let e : Expr := .union (.truth (.var 0)) (.truth (.var 0))
    let w : World := { objs := [], doms := [] }
    (eval (w.setDom 0 ([.int 1] ++ [.int 2])) e []).toOption.map (·.map (·.1)) =
      some [[(.var 0, .int 1)], [(.var 0, .int 2)], [(.var 0, .int 1)], [(.var 0, .int 2)]] := by decide

end Tests

end KrroodVerif.Eql
