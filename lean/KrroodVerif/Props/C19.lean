import KrroodVerif.Model.Json
/-!
# C19 — Unresolvable JSON type tags fail with the documented serialisation errors only

Property theorems only. `resolve q env tag` (Model/Json.lean) transcribes `SubclassJSONSerializer.from_json` from
`data.get(JSON_TYPE_NAME)` up to the dispatch, over an import environment given as data; `Quirks.all` is the code
as it was found (six escaping exceptions), `Quirks.current` the code as it is at this commit, `Quirks.none` the
repaired resolver (fixes/C19_tag_resolution.diff, fixes/C19_abstract_base.diff).
`spec` is the property. Every theorem quantifies over **every** environment and **every** JSON value.
-/
namespace KrroodVerif.Json

/-- **C19_total.** Repaired resolver, every environment, every JSON value under the tag key (or none): the
outcome is a documented error or a dispatch — never an escaping exception — and a dispatch goes to exactly the
class the tag names (the class `getattr(import_module(m), c)` finds for `m.c = tag`), which is deserialisable,
through `_from_json` iff it is a `SubclassJSONSerializer`. -/
theorem C19_total (env : Env) (tag : Option Json) :
    (∀ x, resolve .none env tag ≠ .escape x) ∧
    (∀ k via, resolve .none env tag = .dispatch k via →
      ∃ s m c ser reg impl, tag = some (.str s) ∧ rsplit s = some (m, c) ∧ env.importModule m = .ok ∧
        env.getattr m c = .cls k ser reg impl ∧ (if ser then impl = true else reg = true) ∧
        (via = .fromJson ↔ ser = true)) := by
  constructor
  · intro x
    simp only [resolve, Quirks.none, Bool.false_eq_true, ↓reduceIte]
    repeat' split
    all_goals simp
  · intro k via h
    simp only [resolve, Quirks.none, Bool.false_eq_true, ↓reduceIte] at h
    repeat' split at h
    all_goals simp at h
    all_goals
      obtain ⟨hk, hv⟩ := h
      subst hk hv
      refine ⟨_, _, _, _, _, _, rfl, ‹_›, ‹_›, ‹_›, ?_, ?_⟩ <;> simp_all

theorem accepts_any_ite (c : Prop) [Decidable c] (a b : DocErr) :
    Expect.anyDocumented.accepts (if c then .err a else .err b) = true := by split <;> rfl

/-- **C19_spec.** The repaired resolver does what the property demands on every input: the specific documented
error in the five canonical situations, the named class when it is deserialisable, some documented error
otherwise. -/
theorem C19_spec (env : Env) (tag : Option Json) : (spec env tag).accepts (resolve .none env tag) = true := by
  cases tag with
  | none => rfl
  | some t =>
    cases t with
    | null => rfl
    | bool b => simp only [spec, resolve, Quirks.none, Bool.false_eq_true, ↓reduceIte]; exact accepts_any_ite _ _ _
    | int i => simp only [spec, resolve, Quirks.none, Bool.false_eq_true, ↓reduceIte]; exact accepts_any_ite _ _ _
    | float x => simp only [spec, resolve, Quirks.none, Bool.false_eq_true, ↓reduceIte]; exact accepts_any_ite _ _ _
    | arr xs => simp only [spec, resolve, Quirks.none, Bool.false_eq_true, ↓reduceIte]; exact accepts_any_ite _ _ _
    | obj kvs => simp only [spec, resolve, Quirks.none, Bool.false_eq_true, ↓reduceIte]; exact accepts_any_ite _ _ _
    | str s =>
      by_cases hs : s = ""
      · subst hs; simp [spec, resolve, Json.truthy, Expect.accepts]
      · have ht : (Json.str s).truthy = true := by simp [Json.truthy, hs]
        simp only [spec, resolve, Quirks.none, hs, ht, Bool.false_eq_true, ↓reduceIte, Bool.not_true]
        cases rsplit s with
        | none => simp [Expect.accepts]
        | some p =>
          obtain ⟨m, c⟩ := p
          simp only []
          cases env.importModule m with
          | ok =>
            simp only []
            cases env.getattr m c with
            | missing => simp [Expect.accepts]
            | nonClass k => simp [Expect.accepts]
            | cls k ser reg impl => cases ser <;> cases reg <;> cases impl <;> simp [Expect.accepts]
          | _ => simp [Expect.accepts]

/-- **C19_canonical.** The five canonical situations get their specific error under *every* quirk setting — in
particular from the code as it is. -/
theorem C19_canonical (q : Quirks) (env : Env) :
    resolve q env none = .err .missingType ∧
    resolve q env (some .null) = .err .missingType ∧
    (∀ s, s ≠ "" → rsplit s = none → resolve q env (some (.str s)) = .err .invalidFormat) ∧
    (∀ s m c, rsplit s = some (m, c) → env.importModule m = .notFound →
      resolve q env (some (.str s)) = .err .unknownModule) ∧
    (∀ s m c, rsplit s = some (m, c) → env.importModule m = .ok → env.getattr m c = .missing →
      resolve q env (some (.str s)) = .err .classNotFound) ∧
    (∀ s m c k impl, rsplit s = some (m, c) → env.importModule m = .ok → env.getattr m c = .cls k false false impl →
      resolve q env (some (.str s)) = .err .notDeserializable) := by
  have ne (s : String) (m c : String) (h : rsplit s = some (m, c)) : (Json.str s).truthy = true := by
    have : s ≠ "" := by
      intro e; subst e; simp [rsplit, rsplitDot] at h
    simp [Json.truthy, this]
  refine ⟨rfl, rfl, ?_, ?_, ?_, ?_⟩
  · intro s hs h; simp [resolve, Json.truthy, hs, h]
  · intro s m c h hi; simp [resolve, ne s m c h, h, hi]
  · intro s m c h hi ha; simp [resolve, ne s m c h, h, hi, ha]
  · intro s m c k impl h hi ha; simp [resolve, ne s m c h, h, hi, ha]

/-- **C19_partial.** The code as it is (any quirk setting `q`, in particular `Quirks.all`) behaves exactly like
the repaired resolver on every input outside the decidable trigger of its switched-on quirks; hence (with
`C19_total`, `C19_spec`) the property holds of today's code on all those inputs. -/
theorem C19_partial (q : Quirks) (env : Env) (tag : Option Json) (h : trigger q env tag = false) :
    resolve q env tag = resolve .none env tag := by
  obtain ⟨q1, q2, q3, q4, q5, q6⟩ := q
  cases tag with
  | none => rfl
  | some t =>
    cases t with
    | str s =>
      by_cases hs : s = ""
      · subst hs; simp [resolve, Json.truthy]
      · have ht : (Json.str s).truthy = true := by simp [Json.truthy, hs]
        simp only [trigger, trigNonString, trigImportValueErr, trigImportTypeErr, trigImportErr, trigNonClass,
          trigAbstract, importOf, hs, ht, isStr, ↓reduceIte] at h
        simp only [resolve, Quirks.none, ht, Bool.false_eq_true, ↓reduceIte, Bool.not_true]
        cases hr : rsplit s with
        | none => rfl
        | some p =>
          obtain ⟨m, c⟩ := p
          simp only [hr] at h ⊢
          cases hi : env.importModule m with
          | ok =>
            simp only [hi] at h ⊢
            cases ha : env.getattr m c with
            | nonClass k => simp_all
            | cls k ser reg impl => cases ser <;> cases impl <;> simp_all
            | missing => rfl
          | _ => simp_all
    | _ =>
      simp only [trigger, trigNonString, trigImportValueErr, trigImportTypeErr, trigImportErr, trigNonClass,
          trigAbstract, importOf, isStr] at h
      simp only [resolve, Quirks.none]
      split <;> simp_all

theorem C19_partial_total (q : Quirks) (env : Env) (tag : Option Json) (h : trigger q env tag = false) :
    (∀ x, resolve q env tag ≠ .escape x) ∧ (spec env tag).accepts (resolve q env tag) = true := by
  rw [C19_partial q env tag h]
  exact ⟨(C19_total env tag).1, C19_spec env tag⟩

/-! ### Whole documents: no escaping exception at any depth -/

mutual
theorem noescape_val (env : Env) : ∀ (j : Json) (x : Exc), fromJson .none env j ≠ .error (.escape x)
  | .null, _ => by simp [fromJson]
  | .bool _, _ => by simp [fromJson]
  | .int _, _ => by simp [fromJson]
  | .float _, _ => by simp [fromJson]
  | .str _, _ => by simp [fromJson]
  | .arr xs, x => by
    have := noescape_list env xs x
    simp only [fromJson]; split <;> simp_all
  | .obj kvs, x => by
    have h1 := (C19_total env (lookup tagKey kvs)).1
    have h2 := noescape_fields env kvs x
    simp only [fromJson]
    split
    · simp
    · rename_i y hy; exact absurd hy (h1 y)
    · split <;> simp_all
    · split <;> simp
theorem noescape_list (env : Env) : ∀ (js : List Json) (x : Exc), fromJsonList .none env js ≠ .error (.escape x)
  | [], _ => by simp [fromJsonList]
  | j :: js, x => by
    have h1 := noescape_val env j x
    have h2 := noescape_list env js x
    simp only [fromJsonList]
    split
    · simp_all
    · split <;> simp_all
theorem noescape_fields (env : Env) :
    ∀ (kvs : List (String × Json)) (x : Exc), fromJsonFields .none env kvs ≠ .error (.escape x)
  | [], _ => by simp [fromJsonFields]
  | (k, v) :: r, x => by
    have h1 := noescape_val env v x
    have h2 := noescape_fields env r x
    simp only [fromJsonFields]
    split
    · exact h2
    · split
      · simp_all
      · split <;> simp_all
end

/-- **C19_document.** Repaired resolver, every environment, every JSON document (lists and objects nested to any
depth, a tag — of any JSON type — or none in every object): `from_json` never fails with an exception outside the
documented hierarchy because of a type tag. -/
theorem C19_document (env : Env) (j : Json) (x : Exc) : fromJson .none env j ≠ .error (.escape x) :=
  noescape_val env j x

/-! ### Counter-examples: the code as it is violates the property (tests on concrete witnesses, by `decide`) -/

/-- the interpreter facts the witnesses need (as probed): `import_module("")` → ValueError,
`import_module(".")` → TypeError, `json` imports and `json.dumps` is a function,
`asyncio.windows_events` raises ImportError("win32 only"), `SubclassJSONSerializer` is a serializer class that does
not implement `_from_json` -/
def cexBase : Cls :=
  ⟨"krrood.adapters.json_serializer:SubclassJSONSerializer", "krrood.adapters.json_serializer", "SubclassJSONSerializer"⟩

def cexEnv : Env where
  importModule := fun m =>
    if m = "" then .valueErr else if m = "." then .typeErr else if m = "json" then .ok
    else if m = "krrood.adapters.json_serializer" then .ok
    else if m = "asyncio.windows_events" then .importErr else .notFound
  getattr := fun m n =>
    if m = "json" ∧ n = "dumps" then .nonClass .function
    else if m = "krrood.adapters.json_serializer" ∧ n = "SubclassJSONSerializer" then .cls cexBase true false false
    else .missing

/-- witness `{"__json_type__": 5}`: AttributeError escapes -/
theorem C19_cex_nonstring :
    trigger .all cexEnv (some (.int 5)) = true ∧ resolve .all cexEnv (some (.int 5)) = .escape .attributeError ∧
    (spec cexEnv (some (.int 5))).accepts (resolve .all cexEnv (some (.int 5))) = false := by decide

/-- witness `{"__json_type__": ".x"}`: ValueError("Empty module name") escapes -/
theorem C19_cex_empty_module :
    trigger .all cexEnv (some (.str ".x")) = true ∧
    resolve .all cexEnv (some (.str ".x")) = .escape .valueError ∧
    (spec cexEnv (some (.str ".x"))).accepts (resolve .all cexEnv (some (.str ".x"))) = false := by decide

/-- witness `{"__json_type__": "..x"}`: TypeError (relative import without package) escapes -/
theorem C19_cex_relative :
    trigger .all cexEnv (some (.str "..x")) = true ∧
    resolve .all cexEnv (some (.str "..x")) = .escape .typeError ∧
    (spec cexEnv (some (.str "..x"))).accepts (resolve .all cexEnv (some (.str "..x"))) = false := by decide

/-- witness `{"__json_type__": "json.dumps"}`: TypeError from `issubclass(function, …)` escapes -/
theorem C19_cex_nonclass :
    trigger .all cexEnv (some (.str "json.dumps")) = true ∧
    resolve .all cexEnv (some (.str "json.dumps")) = .escape .typeError ∧
    (spec cexEnv (some (.str "json.dumps"))).accepts (resolve .all cexEnv (some (.str "json.dumps"))) = false := by
  decide

/-- witness `{"__json_type__": "asyncio.windows_events.X"}`: the module's own ImportError escapes -/
theorem C19_cex_import_error :
    trigger .all cexEnv (some (.str "asyncio.windows_events.X")) = true ∧
    resolve .all cexEnv (some (.str "asyncio.windows_events.X")) = .escape .importError ∧
    (spec cexEnv (some (.str "asyncio.windows_events.X"))).accepts
      (resolve .all cexEnv (some (.str "asyncio.windows_events.X"))) = false := by decide

/-- witness `{"__json_type__": "krrood.adapters.json_serializer.SubclassJSONSerializer"}` — the abstract base is a
subclass of itself, is dispatched to, and the NotImplementedError of its `_from_json` escapes (F-C19-6) -/
theorem C19_cex_abstract :
    let tag := some (Json.str "krrood.adapters.json_serializer.SubclassJSONSerializer")
    trigger .all cexEnv tag = true ∧ resolve .all cexEnv tag = .escape .notImplementedError ∧
    (spec cexEnv tag).accepts (resolve .all cexEnv tag) = false ∧
    resolve .none cexEnv tag = .err .notDeserializable := by decide

/-! Non-vacuity of `C19_partial` (tests): inputs outside every trigger, with non-trivial outcomes, and the repaired
resolver on the five witnesses. -/
example : trigger .all cexEnv (some (.str "json.nope")) = false ∧
    resolve .all cexEnv (some (.str "json.nope")) = .err .classNotFound := by decide
example : trigger .all cexEnv (some (.str "nodot")) = false ∧
    resolve .all cexEnv (some (.str "nodot")) = .err .invalidFormat := by decide
example : trigger .all cexEnv (some (.arr [])) = false ∧ resolve .all cexEnv (some (.arr [])) = .err .missingType := by
  decide
example : resolve .none cexEnv (some (.int 5)) = .err .invalidFormat ∧
    resolve .none cexEnv (some (.str ".x")) = .err .unknownModule ∧
    resolve .none cexEnv (some (.str "..x")) = .err .unknownModule ∧
    resolve .none cexEnv (some (.str "json.dumps")) = .err .classNotFound ∧
    resolve .none cexEnv (some (.str "asyncio.windows_events.X")) = .err .unknownModule := by decide

/-! ### The stage table (second tie): the interpreter of the regenerated decision structure IS the model

`interp stageTable` — the table-driven reading of `from_json`, whose table the translator regenerates from the
source on every run — equals `resolve Quirks.current`, the function every theorem above is about. So the theorems
speak about `interp stageTable`, and a source change that alters the table breaks the regenerated obligation
`Translated.C19_stages_translated_eq_model`. -/
section Stages
set_option linter.unusedSimpArgs false

theorem interp_stageTable_none (env : Env) (tag : Option Json) :
    interp stageTable env tag = some (resolve .none env tag) := by
  cases tag with
  | none => simp [interp, interpFrom, stageTable, step, tagTruthy, resolve]
  | some t =>
    by_cases ht : t.truthy = true
    · cases t with
      | str s =>
        cases hr : rsplit s with
        | none =>
          simp [interp, interpFrom, stageTable, step, tagTruthy, isStrTag, resolve, ht, hr, catches, Quirks.none]
        | some p =>
          obtain ⟨m, c⟩ := p
          cases hi : env.importModule m with
          | ok =>
            cases ha : env.getattr m c with
            | missing =>
              simp [interp, interpFrom, stageTable, step, tagTruthy, isStrTag, resolve, ht, hr, hi, ha, catches, Quirks.none]
            | nonClass k =>
              simp [interp, interpFrom, stageTable, step, tagTruthy, isStrTag, resolve, ht, hr, hi, ha, catches, Quirks.none]
            | cls k ser reg impl =>
              cases ser <;> cases reg <;> cases impl <;>
              simp [interp, interpFrom, stageTable, step, tagTruthy, isStrTag, resolve, ht, hr, hi, ha, catches, Quirks.none]
          | _ =>
            simp [interp, interpFrom, stageTable, step, tagTruthy, isStrTag, resolve, ht, hr, hi, catches, Quirks.none]
      | _ => simp [interp, interpFrom, stageTable, step, tagTruthy, isStrTag, resolve, ht, Quirks.none]
    · simp [interp, interpFrom, stageTable, step, tagTruthy, resolve, ht]


/-- **resolve_eq_interp.** For every environment and every JSON value under the tag key: interpreting the stage
table of the code as it is gives exactly the outcome of the hand-written model. -/
theorem resolve_eq_interp (env : Env) (tag : Option Json) :
    interp stageTable env tag = some (resolve .current env tag) := by
  rw [interp_stageTable_none]; rfl

/-- the same interpreter on the table of the code *as it was found* reproduces all six recorded defects: the escaping
exceptions are consequences of the missing stages / narrower `except` clauses, not separate modelling decisions -/
theorem asFound_eq_interp (env : Env) (tag : Option Json) :
    interp stageTableAsFound env tag = some (resolve .all env tag) := by
  cases tag with
  | none => simp [interp, interpFrom, stageTableAsFound, step, tagTruthy, resolve]
  | some t =>
    by_cases ht : t.truthy = true
    · cases t with
      | str s =>
        cases hr : rsplit s with
        | none =>
          simp [interp, interpFrom, stageTableAsFound, step, tagTruthy, isStrTag, resolve, ht, hr, catches, Quirks.all]
        | some p =>
          obtain ⟨m, c⟩ := p
          cases hi : env.importModule m with
          | ok =>
            cases ha : env.getattr m c with
            | missing =>
              simp [interp, interpFrom, stageTableAsFound, step, tagTruthy, isStrTag, resolve, ht, hr, hi, ha, catches, Quirks.all]
            | nonClass k =>
              simp [interp, interpFrom, stageTableAsFound, step, tagTruthy, isStrTag, resolve, ht, hr, hi, ha, catches, Quirks.all]
            | cls k ser reg impl =>
              cases ser <;> cases reg <;> cases impl <;>
              simp [interp, interpFrom, stageTableAsFound, step, tagTruthy, isStrTag, resolve, ht, hr, hi, ha, catches, Quirks.all]
          | _ =>
            simp [interp, interpFrom, stageTableAsFound, step, tagTruthy, isStrTag, resolve, ht, hr, hi, catches, Quirks.all]
      | _ => simp [interp, interpFrom, stageTableAsFound, step, tagTruthy, isStrTag, resolve, ht, catches, Quirks.all]
    · simp [interp, interpFrom, stageTableAsFound, step, tagTruthy, resolve, ht]

/-- what `fromJson` does with an object once the tag is resolved (the part after the dispatch) -/
def afterResolve (q : Quirks) (env : Env) (kvs : List (String × Json)) : Option Outcome → Except Err PyVal
  | some (.err e) => .error (.doc e)
  | some (.escape x) => .error (.escape x)
  | some (.dispatch c .fromJson) =>
    (match fromJsonFields q env kvs with
     | .ok fs => .ok (.obj c fs)
     | .error e => .error e)
  | some (.dispatch c .registry) =>
    (match lookup (env.payloadKey c) kvs with
     | some (.str p) => .ok (.ext c p)
     | _ => .error .payload)
  | none => .error .payload

theorem fromJson_eq_interp (env : Env) (kvs : List (String × Json)) :
    fromJson .current env (.obj kvs) = afterResolve .current env kvs (interp stageTable env (lookup tagKey kvs)) := by
  rw [resolve_eq_interp]
  simp only [fromJson]
  cases resolve .current env (lookup tagKey kvs) with
  | err e => rfl
  | escape x => rfl
  | dispatch c v =>
    cases v with
    | fromJson => simp only [afterResolve]; cases fromJsonFields .current env kvs <;> rfl
    | registry =>
      simp only [afterResolve]
      cases lookup "value" kvs with
      | none => rfl
      | some j => cases j <;> rfl

/-- **C19_total_stages / C19_spec_stages.** The property theorems restated about the table interpreter (valid while
`Quirks.current = Quirks.none`, i.e. while no finding of C19 is open; `rfl` re-checks that on every build). -/
theorem C19_total_stages (env : Env) (tag : Option Json) :
    ∃ o, interp stageTable env tag = some o ∧ (∀ x, o ≠ .escape x) ∧ (spec env tag).accepts o = true := by
  refine ⟨resolve .none env tag, ?_, (C19_total env tag).1, C19_spec env tag⟩
  rw [resolve_eq_interp]; rfl

/-- whatever table is *equal* to the model's table inherits the property (used by the generated obligation) -/
theorem C19_of_table_eq (t : StageTable) (h : t = stageTable) (env : Env) (tag : Option Json) :
    ∃ o, interp t env tag = some o ∧ (∀ x, o ≠ .escape x) ∧ (spec env tag).accepts o = true := by
  subst h; exact C19_total_stages env tag

/-- tests: the interpreter on the two tables, concrete inputs (the witnesses of F-C19-1, -4, -6) -/
example : interp stageTable cexEnv (some (.int 5)) = some (.err .invalidFormat) ∧
    interp stageTableAsFound cexEnv (some (.int 5)) = some (.escape .attributeError) ∧
    interp stageTable cexEnv (some (.str "json.dumps")) = some (.err .classNotFound) ∧
    interp stageTableAsFound cexEnv (some (.str "json.dumps")) = some (.escape .typeError) ∧
    interp stageTableAsFound cexEnv (some (.str "krrood.adapters.json_serializer.SubclassJSONSerializer"))
      = some (.escape .notImplementedError) := by decide
/-- a table that uses a variable before it is bound, or falls off the end, is not the table of a program -/
example : interp [⟨.checkTruthy, [], some .missingType⟩] cexEnv none = none ∧
    interp [⟨.getTag, [], none⟩] cexEnv none = none := by decide
end Stages

end KrroodVerif.Json
