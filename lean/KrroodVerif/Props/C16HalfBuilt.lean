import KrroodVerif.Model.DescriptorHalfBuilt
import KrroodVerif.Props.C15
/-!
C15 / C16 — instances under construction (F-C16-10 = F-C15-4).

* `C16_half_state` — the state part of the model with constructor contexts IS `runModel` on the plain operations
  (every quirk setting, every history): as long as nothing is raised, a constructor call that assigns several managed
  fields is exactly the sequence of the descriptor writes it stands for, so everything proved about `runModel`
  (`C15_sound`, `C15_closed`, `C15_order_independent`, `C15_fields_agree`, `C15_fields_closure`) applies to it.
* `C16_half_repaired` — with membership by identity (quirk off = `fixes/C16_half_built_instance.diff`) nothing is
  ever raised: full strength, all histories.
* `C16_half_partial` — the code as it is (quirk on) outside the trigger: no constructor call of an eq-dataclass
  instance ⇒ nothing is raised. (The driver's trigger is the decidable bit itself, `(runModelH true …).2`.)
* `C16_half_cex` — the witness by `decide`: `p.member_of.append(c1); Company("c2", members={p})` raises, the same
  relations stated by plain writes do not, and with the repair the constructor call gives the same graph and fields
  as the plain writes.
-/
namespace KrroodVerif.PD

theorem foldl_fst {β : Type} (F : State × Bool → β → State × Bool) (G : State → β → State)
    (h : ∀ a b, (F a b).1 = G a.1 b) : ∀ (ts : List β) (a : State × Bool), (ts.foldl F a).1 = ts.foldl G a.1 :=
  foldl_proj Prod.fst F G h

theorem addCoreH_fst (C : HCtx) (R : Rules) (K : Nat → Kind) :
    ∀ n σb r i, (addCoreH C R K n σb r i).1 = addCore R K n σb.1 r i := by
  intro n
  induction n with
  | zero => intro σb r i; rfl
  | succ n ih =>
    intro σb r i
    have hf : ∀ (ts : List Fact) (a : State × Bool),
        (ts.foldl (fun h q => addCoreH C R K n h q true) a).1 = ts.foldl (fun h q => addCore R K n h q true) a.1 :=
      foldl_fst _ _ (fun a q => ih a q true)
    unfold addCoreH addCore
    by_cases hm : r ∈ σb.1.g
    · simp only [hm, if_true]
    · simp only [hm, if_false]
      cases ht : R.tr r.1
      · simp only [Bool.false_eq_true, if_false, hf]
      · simp only [if_true, hf]

theorem addItemH_fst (C : HCtx) (R : Rules) (K : Nat → Kind) (n : Nat) (σb : State × Bool) (f s t : Nat) :
    (addItemH C R K n σb f s t).1 = addItem R K n σb.1 f s t := by
  simp only [addItemH, addItem, addCoreH_fst]

theorem stepH_fst (C : HCtx) (R : Rules) (K : Nat → Kind) (n : Nat) (σb : State × Bool) (op : Op) :
    (stepH C R K n σb op).1 = step R K n σb.1 op := by
  cases op with
  | set1 f s t => simp only [stepH, step, addCoreH_fst]
  | add f s t => simp only [stepH, step, addItemH_fst]
  | assign f s xs =>
    simp only [stepH, step]
    rw [foldl_fst _ (fun h t => addItem R K n h f s t) (fun a t => addItemH_fst C R K n a f s t)]
  | churn => rfl
  | storeOnly f s t => rfl
  | assignQ f s xs muted =>
    simp only [stepH, step]
    rw [foldl_fst _ (fun h t => if muted.contains t = true then
          { h with st := h.st.set f s (storeAdd (K f) (h.st f s) t) } else addItem R K n h f s t)]
    intro a t
    cases hmt : muted.contains t
    · simp only [Bool.false_eq_true, if_false, addItemH_fst]
    · simp only [if_true]

theorem runH_fst (C : HCtx) (R : Rules) (K : Nat → Kind) (n : Nat) (items : List (Option Half × Op)) :
    (runH C R K n items).1 = runOps R K n (items.map (·.2)) := by
  unfold runH runOps
  rw [List.foldl_map]
  exact foldl_fst _ (fun σ (it : Option Half × Op) => step R K n σ it.2)
    (fun a it => stepH_fst _ R K n a it.2) items (State.init, false)

/-- **State.** Whatever the quirk: the graph and the backing fields of a history with constructor calls are those
of the plain operations the calls stand for. -/
theorem C16_half_state (q : Bool) (S : Schema) (W : World) (eqc : List Nat) (items : List (Option Half × Op)) :
    (runModelH q S W eqc items).1 = runModel S W (items.map (·.2)) :=
  runH_fst _ _ _ _ items

/-! ### when nothing is raised -/

/-- a context in which no value comparison can raise -/
def Quiet (C : HCtx) : Prop := ∀ st x y, C.quirk = true → eqRaises C st x y = false

theorem memberRaises_quiet {C : HCtx} (hC : Quiet C) (hq : C.quirk = true) (st : Store) :
    ∀ (c : List Nat) (t : Nat), memberRaises C st c t = false := by
  intro c
  induction c with
  | nil => intro t; rfl
  | cons x xs ih =>
    intro t
    unfold memberRaises
    by_cases hx : (x == t) = true
    · simp only [hx, if_true]
    · simp only [hx, hC st x t hq, ih t, Bool.or_self]; rfl

theorem updateRaises_quiet {C : HCtx} (hC : Quiet C) (K : Nat → Kind) (st : Store) (r : Fact) :
    updateRaises C K st r = false := by
  unfold updateRaises
  cases hq : C.quirk
  · rfl
  · simp only [Bool.true_and]
    cases K r.1 with
    | single =>
      simp only
      split
      · exact hC _ _ _ hq
      · rfl
    | list => exact memberRaises_quiet hC hq st _ _
    | set => rfl

theorem foldl_snd {β : Type} (F : State × Bool → β → State × Bool) (h : ∀ a b, (F a b).2 = a.2) :
    ∀ (ts : List β) (a : State × Bool), (ts.foldl F a).2 = a.2 := by
  intro ts
  induction ts with
  | nil => intro a; rfl
  | cons t ts ih => intro a; simp only [List.foldl_cons]; rw [ih, h]

theorem addCoreH_snd {C : HCtx} (hC : Quiet C) (R : Rules) (K : Nat → Kind) :
    ∀ n σb r i, (addCoreH C R K n σb r i).2 = σb.2 := by
  intro n
  induction n with
  | zero => intro σb r i; rfl
  | succ n ih =>
    intro σb r i
    have hf : ∀ (ts : List Fact) (a : State × Bool),
        (ts.foldl (fun h q => addCoreH C R K n h q true) a).2 = a.2 :=
      foldl_snd _ (fun a q => ih a q true)
    unfold addCoreH
    by_cases hm : r ∈ σb.1.g
    · simp only [hm, if_true]
    · simp only [hm, if_false]
      cases ht : R.tr r.1
      · simp only [Bool.false_eq_true, if_false, hf, updateRaises_quiet hC, Bool.and_false, Bool.or_false]
      · simp only [if_true, hf, updateRaises_quiet hC, Bool.and_false, Bool.or_false]

theorem addItemH_snd {C : HCtx} (hC : Quiet C) (R : Rules) (K : Nat → Kind) (n : Nat) (σb : State × Bool)
    (f s t : Nat) : (addItemH C R K n σb f s t).2 = σb.2 := by
  simp only [addItemH, addCoreH_snd hC]

theorem reAddRaises_quiet {C : HCtx} (hC : Quiet C) (K : Nat → Kind) (σ : State) (f s : Nat) :
    reAddRaises C K σ f s = false := by
  unfold reAddRaises
  cases hq : C.quirk
  · rfl
  · have : ∀ (ts : List Nat) (a : List Nat × Bool),
        (ts.foldl (fun (a : List Nat × Bool) t =>
          (if t ∈ a.1 then a.1 else a.1 ++ [t], a.2 || memberRaises C σ.st a.1 t)) a).2 = a.2 := by
      intro ts
      induction ts with
      | nil => intro a; rfl
      | cons t ts ih =>
        intro a
        simp only [List.foldl_cons]
        rw [ih]
        simp only [memberRaises_quiet hC hq, Bool.or_false]
    rw [this]
    simp

theorem stepH_snd {C : HCtx} (hC : Quiet C) (R : Rules) (K : Nat → Kind) (n : Nat) (σb : State × Bool) (op : Op) :
    (stepH C R K n σb op).2 = σb.2 := by
  cases op with
  | set1 f s t => simp only [stepH, addCoreH_snd hC]
  | add f s t => simp only [stepH, addItemH_snd hC]
  | assign f s xs =>
    simp only [stepH, reAddRaises_quiet hC, Bool.or_false]
    rw [foldl_snd _ (fun a t => addItemH_snd hC R K n a f s t)]
  | churn => rfl
  | storeOnly f s t => rfl
  | assignQ f s xs muted =>
    simp only [stepH]
    rw [foldl_snd]
    intro a t
    cases hmt : muted.contains t
    · simp only [Bool.false_eq_true, if_false, addItemH_snd hC]
    · simp only [if_true]

theorem runH_quiet (C : HCtx) (R : Rules) (K : Nat → Kind) (n : Nat) (items : List (Option Half × Op))
    (h : ∀ it ∈ items, Quiet { C with half := it.1 }) : (runH C R K n items).2 = false := by
  unfold runH
  suffices ∀ (a : State × Bool), a.2 = false →
      (items.foldl (fun σb it => stepH { C with half := it.1 } R K n σb it.2) a).2 = false from this _ rfl
  induction items with
  | nil => intro a ha; exact ha
  | cons it its ih =>
    intro a ha
    simp only [List.foldl_cons]
    apply ih (fun x hx => h x (List.mem_cons_of_mem _ hx))
    rw [stepH_snd (h it List.mem_cons_self)]
    exact ha

/-- **Repaired code** (membership by identity): no history ever raises, so by `C16_half_state` a constructor call is
exactly its descriptor writes. -/
theorem C16_half_repaired (S : Schema) (W : World) (eqc : List Nat) (items : List (Option Half × Op)) :
    (runModelH false S W eqc items).2 = false := by
  apply runH_quiet
  intro it _ st x y hq
  cases hq

/-- an instance that is not under construction is never `unbuilt` -/
theorem unbuilt_obj {C : HCtx} {st : Store} {x : Nat} (h : unbuilt C st x = true) :
    ∃ hf, C.half = some hf ∧ hf.obj = x := by
  unfold unbuilt at h
  split at h
  · next hf heq =>
    simp only [Bool.and_eq_true, beq_iff_eq] at h
    exact ⟨hf, heq, h.1⟩
  · cases h

/-- **Code as it is, outside the trigger.** When every constructor call of the history builds an instance of a class
that compares by identity (no generated `__eq__`), nothing is raised. Full statement (all histories) is false for
the code as it is: `C16_half_cex`. -/
theorem C16_half_partial (S : Schema) (W : World) (eqc : List Nat) (items : List (Option Half × Op))
    (h : ∀ it ∈ items, ∀ hf, it.1 = some hf → eqc.contains (W.clsOf hf.obj) = false) :
    (runModelH true S W eqc items).2 = false := by
  apply runH_quiet
  intro it hit st x y _
  unfold eqRaises
  cases hcls : (W.clsOf x == W.clsOf y)
  · rfl
  · have hxy : W.clsOf x = W.clsOf y := by simpa using hcls
    cases hux : unbuilt (C := ⟨true, W.clsOf, eqc.contains, it.1⟩) st x
    · cases huy : unbuilt (C := ⟨true, W.clsOf, eqc.contains, it.1⟩) st y
      · simp
      · obtain ⟨hf, he, ho⟩ := unbuilt_obj huy
        have := h it hit hf he
        rw [ho, ← hxy] at this
        have hn : ¬ W.clsOf x ∈ eqc := by simpa using this
        simp [hn]
    · obtain ⟨hf, he, ho⟩ := unbuilt_obj hux
      have := h it hit hf he
      rw [ho] at this
      have hn : ¬ W.clsOf x ∈ eqc := by simpa using this
      simp [hn]

/-! ### the witness (the repository's classes: `exSchema` — 0 `works_for`, 1 `member_of` (list), 2 `members` (set),
3 `sub_organization_of`; object 0 a Person, 1 2 3 Companies; both classes are eq-dataclasses) -/

/-- `p.member_of.append(c1); c2 = Company("c2", members={p})`: `members` is assigned while `sub_organization_of` is
still to come, its inverse `member_of(p, c2)` is written into the list `p.member_of`, which holds `c1` -/
def hbWitness : List (Option Half × Op) :=
  [(none, .add 1 0 1), (some ⟨2, [3]⟩, .assign 2 2 [0]), (some ⟨2, []⟩, .assign 3 2 [])]
/-- the same relations by plain writes on an instance built bare -/
def hbPlain : List (Option Half × Op) := [(none, .add 1 0 1), (none, .add 2 2 0)]

/-- F-C16-10 / F-C15-4 (test): the constructor call raises, the plain writes do not (one order of the same
assertions fails: C15; constructor assignment is not "as if added one by one": C16); with the repair the call
gives the graph and the fields of the plain writes. -/
theorem C16_half_cex :
    (runModelH true exSchema exWorld [0, 1] hbWitness).2 = true ∧
    (runModelH true exSchema exWorld [0, 1] hbPlain).2 = false ∧
    (runModelH false exSchema exWorld [0, 1] hbWitness).2 = false ∧
    (runModelH false exSchema exWorld [0, 1] hbWitness).1.g = (runModelH true exSchema exWorld [0, 1] hbPlain).1.g ∧
    (runModelH false exSchema exWorld [0, 1] hbWitness).1.st 1 0 = [1, 2] ∧
    (runModelH true exSchema exWorld [0, 1] hbPlain).1.st 1 0 = [1, 2] := by decide

/-- non-vacuity of `C16_half_partial`: a history with a constructor call of an identity-compared class -/
example : ∀ it ∈ hbWitness, ∀ hf, it.1 = some hf → ([] : List Nat).contains (exWorld.clsOf hf.obj) = false := by
  intro it _ hf _; rfl
/-- the trigger is sharp on the witness: the only element of `p.member_of` compared with `c2` is `c1` -/
example : (runModelH true exSchema exWorld [0] hbWitness).2 = false := by decide
/-- the LAST field of a constructor call is safe (every backing attribute exists by then) -/
example : (runModelH true exSchema exWorld [0, 1]
    [(none, .add 1 0 1), (some ⟨2, [3]⟩, .assign 2 2 []), (some ⟨2, []⟩, .assign 3 2 [1])]).2 = false := by decide

end KrroodVerif.PD
