import KrroodVerif.Model.Match
/-!
# C11 — pattern matching ≡ the explicit query it abbreviates

Property theorems about `Match.run` (= `desugar` + the evaluator of `Model/Match.lean`, quirks as the code is today)
and the specification `matchesPat` / `specRows`.
-/
namespace KrroodVerif.Match
open KrroodVerif.Eql

/-! ## list helpers -/

theorem flatMap_congr' {α β} {l : List α} {f g : α → List β} (h : ∀ x ∈ l, f x = g x) :
    l.flatMap f = l.flatMap g := by
  induction l with
  | nil => rfl
  | cons a l ih =>
    simp only [List.flatMap_cons]
    rw [h a (by simp), ih (fun x hx => h x (by simp [hx]))]

/-! ## paths -/

/-- `under a u`: the node `u` is `a` or hangs below `a` -/
def under (a : MTerm) : MTerm → Bool
  | .root => a == .root
  | .attr c n => a == .attr c n || under a c
  | .flat c => a == .flat c || under a c

def MTerm.size : MTerm → Nat
  | .root => 0
  | .attr c _ => c.size + 1
  | .flat c => c.size + 1

theorem under_refl (a : MTerm) : under a a = true := by
  cases a <;> simp [under]

theorem under_size {a u : MTerm} (h : under a u = true) : a.size ≤ u.size := by
  induction u with
  | root => simp [under] at h; subst h; exact Nat.le_refl _
  | attr c n ih =>
    simp only [under, Bool.or_eq_true, beq_iff_eq] at h
    rcases h with h | h
    · subst h; exact Nat.le_refl _
    · have := ih h; simp only [MTerm.size]; omega
  | flat c ih =>
    simp only [under, Bool.or_eq_true, beq_iff_eq] at h
    rcases h with h | h
    · subst h; exact Nat.le_refl _
    · have := ih h; simp only [MTerm.size]; omega

theorem not_under_attr_self (t : MTerm) (n : AttrName) : under (.attr t n) t = false := by
  cases h : under (.attr t n) t with
  | false => rfl
  | true => have := under_size h; simp only [MTerm.size] at this; omega

theorem not_under_flat_self (t : MTerm) : under (.flat t) t = false := by
  cases h : under (.flat t) t with
  | false => rfl
  | true => have := under_size h; simp only [MTerm.size] at this; omega

theorem under_of_under_attr {t u : MTerm} {n : AttrName} (h : under (.attr t n) u = true) : under t u = true := by
  induction u with
  | root => simp [under] at h
  | attr c m ih =>
    simp only [under, Bool.or_eq_true, beq_iff_eq] at h ⊢
    rcases h with h | h
    · injection h with h1 h2; subst h1; exact Or.inr (under_refl _)
    · exact Or.inr (ih h)
  | flat c ih =>
    simp only [under, Bool.or_eq_true, beq_iff_eq] at h ⊢
    rcases h with h | h
    · cases h
    · exact Or.inr (ih h)

theorem under_of_under_flat {t u : MTerm} (h : under (.flat t) u = true) : under t u = true := by
  induction u with
  | root => simp [under] at h
  | attr c m ih =>
    simp only [under, Bool.or_eq_true, beq_iff_eq] at h ⊢
    rcases h with h | h
    · cases h
    · exact Or.inr (ih h)
  | flat c ih =>
    simp only [under, Bool.or_eq_true, beq_iff_eq] at h ⊢
    rcases h with h | h
    · injection h with h1; subst h1; exact Or.inr (under_refl _)
    · exact Or.inr (ih h)

theorem under_trans {a b u : MTerm} (hab : under a b = true) (hbu : under b u = true) : under a u = true := by
  induction u with
  | root => simp only [under, beq_iff_eq] at hbu; subst hbu; exact hab
  | attr c m ih =>
    simp only [under, Bool.or_eq_true, beq_iff_eq] at hbu
    rcases hbu with h | h
    · subst h; exact hab
    · simp only [under, Bool.or_eq_true]; exact Or.inr (ih h)
  | flat c ih =>
    simp only [under, Bool.or_eq_true, beq_iff_eq] at hbu
    rcases hbu with h | h
    · subst h; exact hab
    · simp only [under, Bool.or_eq_true]; exact Or.inr (ih h)

/-- distinct attributes of one node span disjoint sub-trees -/
theorem under_sibling {t u : MTerm} {n m : AttrName}
    (h1 : under (.attr t n) u = true) (h2 : under (.attr t m) u = true) : n = m := by
  induction u with
  | root => simp [under] at h1
  | attr c k ih =>
    simp only [under, Bool.or_eq_true, beq_iff_eq] at h1 h2
    rcases h1 with h1 | h1 <;> rcases h2 with h2 | h2
    · injection h1 with _ e1; injection h2 with _ e2; rw [e1, e2]
    · injection h1 with e _; subst e
      rw [not_under_attr_self] at h2; cases h2
    · injection h2 with e _; subst e
      rw [not_under_attr_self] at h1; cases h1
    · exact ih h1 h2
  | flat c ih =>
    simp only [under, Bool.or_eq_true, beq_iff_eq] at h1 h2
    rcases h1 with h1 | h1
    · cases h1
    · rcases h2 with h2 | h2
      · cases h2
      · exact ih h1 h2

/-! ## bindings -/

/-- nothing at or below `a` is bound -/
def FreshUnder (env : Env) (a : MTerm) : Prop := ∀ u, under a u = true → env.lookup u = none

theorem lookup_cons_ne {env : Env} {k u : MTerm} {x : Val} (h : u ≠ k) :
    List.lookup u ((k, x) :: env) = List.lookup u env := by
  simp only [List.lookup_cons]
  have : (u == k) = false := by simpa using h
  rw [this]

theorem lookup_cons_self {env : Env} {k : MTerm} {x : Val} :
    List.lookup k ((k, x) :: env) = some x := by
  simp

/-! ## the evaluator on bound and unbound nodes -/

theorem evalT_bound (w : World) (dom : List Val) {t : MTerm} {env : Env} {v : Val}
    (h : env.lookup t = some v) : evalT w dom t env = [(env, v)] := by
  cases t <;> simp [evalT, h]

theorem evalT_attr_unbound (w : World) (dom : List Val) {t : MTerm} {n : AttrName} {env : Env} {v : Val}
    (ht : env.lookup t = some v) (ha : env.lookup (.attr t n) = none) :
    evalT w dom (.attr t n) env = [((MTerm.attr t n, attrOf w v n) :: env, attrOf w v n)] := by
  simp [evalT, ha, evalT_bound w dom ht]

theorem evalT_flat_unbound (w : World) (dom : List Val) {a : MTerm} {env : Env} {x : Val}
    (ha : env.lookup a = some x) (hf : env.lookup (.flat a) = none) :
    evalT w dom (.flat a) env = (elems x).map fun e => ((MTerm.flat a, e) :: env, e) := by
  simp [evalT, hf, evalT_bound w dom ha]

/-- (B) binding an attribute node in advance changes nothing below it -/
theorem evalT_bind (w : World) (dom : List Val) {t : MTerm} {n : AttrName} {env : Env} {v : Val}
    (ht : env.lookup t = some v) (hfresh : FreshUnder env (.attr t n)) :
    ∀ u, under (.attr t n) u = true →
      evalT w dom u env = evalT w dom u ((MTerm.attr t n, attrOf w v n) :: env) := by
  intro u
  induction u with
  | root => intro h; simp [under] at h
  | attr c k ih =>
    intro h
    by_cases he : MTerm.attr c k = MTerm.attr t n
    · injection he with e1 e2; subst e1; subst e2
      rw [evalT_attr_unbound w dom ht (hfresh _ (under_refl _)), evalT_bound w dom lookup_cons_self]
    · have hc : under (.attr t n) c = true := by
        simp only [under, Bool.or_eq_true, beq_iff_eq] at h
        rcases h with h | h
        · exact absurd h.symm he
        · exact h
      have h1 : env.lookup (.attr c k) = none := hfresh _ h
      have h2 : List.lookup (MTerm.attr c k) ((MTerm.attr t n, attrOf w v n) :: env) = none := by
        rw [lookup_cons_ne he]; exact h1
      simp only [evalT, h1, h2]
      rw [ih hc]
  | flat c ih =>
    intro h
    have he : MTerm.flat c ≠ MTerm.attr t n := by intro e; cases e
    have hc : under (.attr t n) c = true := by
      simp only [under, Bool.or_eq_true, beq_iff_eq] at h
      rcases h with h | h
      · cases h
      · exact h
    have h1 : env.lookup (.flat c) = none := hfresh _ h
    have h2 : List.lookup (MTerm.flat c) ((MTerm.attr t n, attrOf w v n) :: env) = none := by
      rw [lookup_cons_ne he]; exact h1
    simp only [evalT, h1, h2]
    rw [ih hc]

/-- (S) an unbound `Flatten` node below which nothing is bound: evaluation splits over the elements -/
theorem evalT_split (w : World) (dom : List Val) {a : MTerm} {env : Env} {x : Val}
    (ha : env.lookup a = some x) (hfresh : FreshUnder env (.flat a)) :
    ∀ u, under (.flat a) u = true →
      evalT w dom u env = (elems x).flatMap fun e => evalT w dom u ((MTerm.flat a, e) :: env) := by
  intro u
  induction u with
  | root => intro h; simp [under] at h
  | attr c k ih =>
    intro h
    have he : MTerm.attr c k ≠ MTerm.flat a := by intro e; cases e
    have hc : under (.flat a) c = true := by
      simp only [under, Bool.or_eq_true, beq_iff_eq] at h
      rcases h with h | h
      · cases h
      · exact h
    have h1 : env.lookup (.attr c k) = none := hfresh _ h
    have h2 : ∀ e, List.lookup (MTerm.attr c k) ((MTerm.flat a, e) :: env) = none := by
      intro e; rw [lookup_cons_ne he]; exact h1
    simp only [evalT, h1, h2]
    rw [ih hc, List.map_flatMap]
  | flat c ih =>
    intro h
    by_cases he : MTerm.flat c = MTerm.flat a
    · injection he with e1; subst e1
      rw [evalT_flat_unbound w dom ha (hfresh _ (under_refl _))]
      rw [List.map_eq_flatMap]
      apply flatMap_congr'
      intro e _
      rw [evalT_bound w dom lookup_cons_self]
    · have hc : under (.flat a) c = true := by
        simp only [under, Bool.or_eq_true, beq_iff_eq] at h
        rcases h with h | h
        · exact absurd h.symm he
        · exact h
      have h1 : env.lookup (.flat c) = none := hfresh _ h
      have h2 : ∀ e, List.lookup (MTerm.flat c) ((MTerm.flat a, e) :: env) = none := by
        intro e; rw [lookup_cons_ne he]; exact h1
      simp only [evalT, h1, h2]
      rw [ih hc, List.flatMap_assoc]

/-- (S-root) with nothing bound, evaluation splits over the domain -/
theorem evalT_split_root (w : World) (dom : List Val) :
    ∀ u, evalT w dom u [] = dom.flatMap fun x => evalT w dom u [(MTerm.root, x)] := by
  intro u
  induction u with
  | root =>
    simp only [evalT, List.lookup_nil]
    rw [List.map_eq_flatMap]
    apply flatMap_congr'
    intro x _
    simp
  | attr c k ih =>
    have h2 : ∀ x : Val, List.lookup (MTerm.attr c k) [(MTerm.root, x)] = none := by
      intro x; rw [lookup_cons_ne (by intro e; cases e)]; rfl
    simp only [evalT, List.lookup_nil, h2]
    rw [ih, List.map_flatMap]
  | flat c ih =>
    have h2 : ∀ x : Val, List.lookup (MTerm.flat c) [(MTerm.root, x)] = none := by
      intro x; rw [lookup_cons_ne (by intro e; cases e)]; rfl
    simp only [evalT, List.lookup_nil, h2]
    rw [ih, List.flatMap_assoc]

/-! ## conditions and chains -/

/-- the bindings of the true results -/
def trueOf (l : List (Env × Bool)) : List Env := (l.filter (·.2)).map (·.1)

/-- the true results of a list of conditions evaluated left to right, each on the true results of the previous ones
(what the left-nested `AND` chain computes, see `trueOf_andChain`) -/
def chainTrue (w : World) (Q : Quirks) (dom : List Val) : List Cond → Env → List Env
  | [], env => [env]
  | c :: cs, env => (trueOf (evalCond w Q dom c env)).flatMap (chainTrue w Q dom cs)

theorem trueOf_flatMap {α} (l : List α) (f : α → List (Env × Bool)) :
    trueOf (l.flatMap f) = l.flatMap fun a => trueOf (f a) := by
  simp only [trueOf, List.filter_flatMap, List.map_flatMap]

theorem trueOf_and (w : World) (Q : Quirks) (dom : List Val) (l r : Cond) (env : Env) :
    trueOf (evalCond w Q dom (.and l r) env) =
      (trueOf (evalCond w Q dom l env)).flatMap fun e => trueOf (evalCond w Q dom r e) := by
  simp only [evalCond]
  rw [trueOf_flatMap]
  generalize evalCond w Q dom l env = ls
  induction ls with
  | nil => rfl
  | cons p ls ih =>
    obtain ⟨e, b⟩ := p
    cases b
    · simp only [List.flatMap_cons, ih]
      simp [trueOf]
    · simp only [List.flatMap_cons, ih]
      simp [trueOf]

theorem trueOf_foldl (w : World) (Q : Quirks) (dom : List Val) (rest : List Cond) :
    ∀ (c : Cond) (env : Env), trueOf (evalCond w Q dom (rest.foldl Cond.and c) env) =
      (trueOf (evalCond w Q dom c env)).flatMap (chainTrue w Q dom rest) := by
  induction rest with
  | nil => intro c env; simp [chainTrue]
  | cons r rs ih =>
    intro c env
    simp only [List.foldl_cons]
    rw [ih, trueOf_and, List.flatMap_assoc]
    rfl

/-- the rows of the `AND` chain built by `chained_logic` are the rows of the left-to-right chain -/
theorem trueOf_andChain (w : World) (Q : Quirks) (dom : List Val) (c : Cond) (cs : List Cond) (env : Env) :
    trueOf (evalCond w Q dom (cs.foldl Cond.and c) env) = chainTrue w Q dom (c :: cs) env := by
  rw [trueOf_foldl]; rfl

theorem chainTrue_append (w : World) (Q : Quirks) (dom : List Val) (a b : List Cond) :
    ∀ env, chainTrue w Q dom (a ++ b) env = (chainTrue w Q dom a env).flatMap (chainTrue w Q dom b) := by
  induction a with
  | nil => intro env; simp [chainTrue]
  | cons c cs ih =>
    intro env
    simp only [List.cons_append, chainTrue]
    rw [List.flatMap_assoc]
    apply flatMap_congr'
    intro e _
    exact ih e

/-- a comparison / predicate on a node at or below `a` -/
def Cond.atomUnder (a : MTerm) : Cond → Bool
  | .eq u _ | .litIn u _ | .inLit u _ | .hasType u _ => under a u
  | _ => false

def MTerm.isAttr : MTerm → Bool
  | .attr _ _ => true
  | _ => false

/-- the conditions a match produces: such an atom, or `exists` over such an atom whose quantified node is an
attribute node at or below `a` -/
def Cond.okUnder (a : MTerm) : Cond → Bool
  | .ex q c => c.atomUnder a && under a q && q.isAttr
  | c => c.atomUnder a

theorem atomUnder_mono {a b : MTerm} (hab : under a b = true) {c : Cond} (h : c.atomUnder b = true) :
    c.atomUnder a = true := by
  cases c <;> simp only [Cond.atomUnder] at h ⊢ <;> first | exact under_trans hab h | cases h

theorem okUnder_mono {a b : MTerm} (hab : under a b = true) {c : Cond} (h : c.okUnder b = true) :
    c.okUnder a = true := by
  cases c with
  | ex q c =>
    simp only [Cond.okUnder, Bool.and_eq_true] at h ⊢
    exact ⟨⟨atomUnder_mono hab h.1.1, under_trans hab h.1.2⟩, h.2⟩
  | eq _ _ => simp only [Cond.okUnder] at h ⊢; exact atomUnder_mono hab h
  | litIn _ _ => simp only [Cond.okUnder] at h ⊢; exact atomUnder_mono hab h
  | inLit _ _ => simp only [Cond.okUnder] at h ⊢; exact atomUnder_mono hab h
  | hasType _ _ => simp only [Cond.okUnder] at h ⊢; exact atomUnder_mono hab h
  | and _ _ => simp [Cond.okUnder, Cond.atomUnder] at h

theorem atom_of_ok_not_ex {a : MTerm} {c : Cond} {cs : List Cond} (h : c.okUnder a = true)
    (hne : firstIsEx (c :: cs) = false) : c.atomUnder a = true := by
  cases c <;> simp_all [Cond.okUnder, firstIsEx]

theorem evalCond_bind_atom (w : World) (Q : Quirks) (dom : List Val) {t : MTerm} {n : AttrName} {env : Env}
    {v : Val} (ht : env.lookup t = some v) (hfresh : FreshUnder env (.attr t n)) {c : Cond}
    (hc : c.atomUnder (.attr t n) = true) :
    evalCond w Q dom c env = evalCond w Q dom c ((MTerm.attr t n, attrOf w v n) :: env) := by
  cases c <;> simp only [Cond.atomUnder] at hc <;>
    first
    | (simp only [evalCond]; rw [evalT_bind w dom ht hfresh _ hc])
    | cases hc

theorem evalCond_bind (w : World) (Q : Quirks) (dom : List Val) {t : MTerm} {n : AttrName} {env : Env}
    {v : Val} (ht : env.lookup t = some v) (hfresh : FreshUnder env (.attr t n)) {c : Cond}
    (hc : c.okUnder (.attr t n) = true) :
    evalCond w Q dom c env = evalCond w Q dom c ((MTerm.attr t n, attrOf w v n) :: env) := by
  cases c with
  | ex q c =>
    simp only [Cond.okUnder, Bool.and_eq_true] at hc
    simp only [evalCond]
    rw [evalCond_bind_atom w Q dom ht hfresh hc.1.1]
  | eq _ _ => exact evalCond_bind_atom w Q dom ht hfresh hc
  | litIn _ _ => exact evalCond_bind_atom w Q dom ht hfresh hc
  | inLit _ _ => exact evalCond_bind_atom w Q dom ht hfresh hc
  | hasType _ _ => exact evalCond_bind_atom w Q dom ht hfresh hc
  | and _ _ => simp [Cond.okUnder, Cond.atomUnder] at hc

theorem evalCond_split_atom (w : World) (Q : Quirks) (dom : List Val) {a : MTerm} {env : Env} {x : Val}
    (ha : env.lookup a = some x) (hfresh : FreshUnder env (.flat a)) {c : Cond}
    (hc : c.atomUnder (.flat a) = true) :
    evalCond w Q dom c env = (elems x).flatMap fun e => evalCond w Q dom c ((MTerm.flat a, e) :: env) := by
  cases c <;> simp only [Cond.atomUnder] at hc <;>
    first
    | (simp only [evalCond]; rw [evalT_split w dom ha hfresh _ hc, List.map_flatMap])
    | cases hc

theorem evalCond_split_root_atom (w : World) (Q : Quirks) (dom : List Val) {c : Cond}
    (hc : c.atomUnder .root = true) :
    evalCond w Q dom c [] = dom.flatMap fun x => evalCond w Q dom c [(MTerm.root, x)] := by
  cases c <;> simp only [Cond.atomUnder] at hc <;>
    first
    | (simp only [evalCond]; rw [evalT_split_root w dom, List.map_flatMap])
    | cases hc

theorem chainTrue_bind (w : World) (Q : Quirks) (dom : List Val) {t : MTerm} {n : AttrName} {env : Env}
    {v : Val} (ht : env.lookup t = some v) (hfresh : FreshUnder env (.attr t n)) {c : Cond} (cs : List Cond)
    (hc : c.okUnder (.attr t n) = true) :
    chainTrue w Q dom (c :: cs) env = chainTrue w Q dom (c :: cs) ((MTerm.attr t n, attrOf w v n) :: env) := by
  simp only [chainTrue]
  rw [evalCond_bind w Q dom ht hfresh hc]

theorem chainTrue_split (w : World) (Q : Quirks) (dom : List Val) {a : MTerm} {env : Env} {x : Val}
    (ha : env.lookup a = some x) (hfresh : FreshUnder env (.flat a)) {c : Cond} (cs : List Cond)
    (hc : c.atomUnder (.flat a) = true) :
    chainTrue w Q dom (c :: cs) env =
      (elems x).flatMap fun e => chainTrue w Q dom (c :: cs) ((MTerm.flat a, e) :: env) := by
  simp only [chainTrue]
  rw [evalCond_split_atom w Q dom ha hfresh hc, trueOf_flatMap, List.flatMap_assoc]

theorem chainTrue_split_root (w : World) (Q : Quirks) (dom : List Val) {c : Cond} (cs : List Cond)
    (hc : c.atomUnder .root = true) :
    chainTrue w Q dom (c :: cs) [] = dom.flatMap fun x => chainTrue w Q dom (c :: cs) [(MTerm.root, x)] := by
  simp only [chainTrue]
  rw [evalCond_split_root_atom w Q dom hc, trueOf_flatMap, List.flatMap_assoc]

/-! ## `exists` over results that agree on the quantified node -/

theorem objEq_refl (w : World) (i : Nat) : objEq w i i = true := by simp [objEq]

theorem valEq_refl (w : World) (x : Val) : valEq w x x = true := by
  cases x with
  | int n => simp [valEq]
  | bool b => simp [valEq]
  | list xs => simp [valEq]
  | obj i => simp [valEq, objEq_refl]
  | objs xs =>
    simp only [valEq, beq_self_eq_true, Bool.true_and]
    induction xs with
    | nil => rfl
    | cons a xs ih => simp [List.zip_cons_cons, List.all_cons, objEq_refl, ih]
  | none => simp [valEq]
  | set xs => simp [valEq]

/-- same members -/
def SameMem {α} (l l' : List α) : Prop := ∀ x, x ∈ l ↔ x ∈ l'

theorem SameMem.refl {α} (l : List α) : SameMem l l := fun _ => Iff.rfl
theorem SameMem.of_eq {α} {l l' : List α} (h : l = l') : SameMem l l' := h ▸ SameMem.refl l
theorem SameMem.trans {α} {a b c : List α} (h1 : SameMem a b) (h2 : SameMem b c) : SameMem a c :=
  fun x => (h1 x).trans (h2 x)
theorem SameMem.symm {α} {a b : List α} (h : SameMem a b) : SameMem b a := fun x => (h x).symm

theorem SameMem.flatMap {α β} {l l' : List α} {f g : α → List β} (hl : SameMem l l')
    (hf : ∀ x ∈ l, SameMem (f x) (g x)) : SameMem (l.flatMap f) (l'.flatMap g) := by
  intro y
  simp only [List.mem_flatMap]
  constructor
  · rintro ⟨x, hx, hy⟩
    exact ⟨x, (hl x).1 hx, (hf x hx y).1 hy⟩
  · rintro ⟨x, hx, hy⟩
    exact ⟨x, (hl x).2 hx, (hf x ((hl x).2 hx) y).2 hy⟩

theorem SameMem.ne_nil {α} {a b : List α} (h : SameMem a b) : a ≠ [] ↔ b ≠ [] := by
  constructor
  · intro ha
    obtain ⟨x, hx⟩ := List.exists_mem_of_ne_nil _ ha
    exact List.ne_nil_of_mem ((h x).1 hx)
  · intro hb
    obtain ⟨x, hx⟩ := List.exists_mem_of_ne_nil _ hb
    exact List.ne_nil_of_mem ((h x).2 hx)

/-! ### evaluation only adds bindings -/

theorem evalT_mono (w : World) (dom : List Val) :
    ∀ (u : MTerm) (env : Env) (r : Env × Val), r ∈ evalT w dom u env →
      ∀ (k : MTerm) (y : Val), env.lookup k = some y → r.1.lookup k = some y := by
  intro u
  induction u with
  | root =>
    intro env r hr k y hk
    simp only [evalT] at hr
    cases hl : env.lookup MTerm.root with
    | some v => simp only [hl, List.mem_singleton] at hr; subst hr; exact hk
    | none =>
      simp only [hl, List.mem_map] at hr
      obtain ⟨x, _, rfl⟩ := hr
      have : k ≠ .root := by intro e; subst e; rw [hl] at hk; cases hk
      rw [lookup_cons_ne this]; exact hk
  | attr c n ih =>
    intro env r hr k y hk
    simp only [evalT] at hr
    cases hl : env.lookup (MTerm.attr c n) with
    | some v => simp only [hl, List.mem_singleton] at hr; subst hr; exact hk
    | none =>
      simp only [hl, List.mem_map] at hr
      obtain ⟨r', hr', rfl⟩ := hr
      have : k ≠ .attr c n := by intro e; subst e; rw [hl] at hk; cases hk
      rw [lookup_cons_ne this]; exact ih env r' hr' k y hk
  | flat c ih =>
    intro env r hr k y hk
    simp only [evalT] at hr
    cases hl : env.lookup (MTerm.flat c) with
    | some v => simp only [hl, List.mem_singleton] at hr; subst hr; exact hk
    | none =>
      simp only [hl, List.mem_flatMap, List.mem_map] at hr
      obtain ⟨r', hr', x, _, rfl⟩ := hr
      have : k ≠ .flat c := by intro e; subst e; rw [hl] at hk; cases hk
      rw [lookup_cons_ne this]; exact ih env r' hr' k y hk

/-- with the owner bound, evaluating a node at or below its attribute `n` only changes bindings at or below it -/
theorem evalT_frame (w : World) (dom : List Val) {t : MTerm} {n : AttrName} {env : Env} {v : Val}
    (ht : env.lookup t = some v) :
    ∀ (u : MTerm), under (.attr t n) u = true → ∀ r ∈ evalT w dom u env,
      ∀ k, under (.attr t n) k = false → r.1.lookup k = env.lookup k := by
  intro u
  induction u with
  | root => intro h; simp [under] at h
  | attr c m ih =>
    intro h r hr k hk
    simp only [evalT] at hr
    cases hl : env.lookup (MTerm.attr c m) with
    | some v' => simp only [hl, List.mem_singleton] at hr; subst hr; rfl
    | none =>
      simp only [hl, List.mem_map] at hr
      obtain ⟨r', hr', rfl⟩ := hr
      have hne : k ≠ .attr c m := by intro e; subst e; rw [h] at hk; cases hk
      rw [lookup_cons_ne hne]
      by_cases he : MTerm.attr c m = MTerm.attr t n
      · injection he with e1 e2; subst e1; subst e2
        rw [evalT_bound w dom ht] at hr'
        simp only [List.mem_singleton] at hr'; subst hr'; rfl
      · have hc : under (.attr t n) c = true := by
          simp only [under, Bool.or_eq_true, beq_iff_eq] at h
          rcases h with h | h
          · exact absurd h.symm he
          · exact h
        exact ih hc r' hr' k hk
  | flat c ih =>
    intro h r hr k hk
    simp only [evalT] at hr
    cases hl : env.lookup (MTerm.flat c) with
    | some v' => simp only [hl, List.mem_singleton] at hr; subst hr; rfl
    | none =>
      simp only [hl, List.mem_flatMap, List.mem_map] at hr
      obtain ⟨r', hr', x, _, rfl⟩ := hr
      have hne : k ≠ .flat c := by intro e; subst e; rw [h] at hk; cases hk
      rw [lookup_cons_ne hne]
      have hc : under (.attr t n) c = true := by
        simp only [under, Bool.or_eq_true, beq_iff_eq] at h
        rcases h with h | h
        · cases h
        · exact h
      exact ih hc r' hr' k hk

theorem ancestors_size {k u : MTerm} (h : k ∈ ancestors u) : k.size < u.size := by
  induction u with
  | root => simp [ancestors] at h
  | attr c n ih =>
    simp only [ancestors, List.mem_append, List.mem_singleton] at h
    rcases h with h | h
    · have := ih h; simp only [MTerm.size]; omega
    · subst h; simp only [MTerm.size]; omega
  | flat c ih =>
    simp only [ancestors, List.mem_append, List.mem_singleton] at h
    rcases h with h | h
    · have := ih h; simp only [MTerm.size]; omega
    · subst h; simp only [MTerm.size]; omega

theorem not_under_of_ancestor {k u : MTerm} (h : k ∈ ancestors u) : under u k = false := by
  cases hu : under u k with
  | false => rfl
  | true => have := under_size hu; have := ancestors_size h; omega

theorem mem_ancestors_of_under {z q : MTerm} (h : under z q = true) (hne : z ≠ q) : z ∈ ancestors q := by
  induction q with
  | root => simp only [under, beq_iff_eq] at h; exact absurd h hne
  | attr c n ih =>
    simp only [under, Bool.or_eq_true, beq_iff_eq] at h
    rcases h with h | h
    · exact absurd h hne
    · simp only [ancestors, List.mem_append, List.mem_singleton]
      by_cases hz : z = c
      · exact Or.inr hz
      · exact Or.inl (ih h hz)
  | flat c ih =>
    simp only [under, Bool.or_eq_true, beq_iff_eq] at h
    rcases h with h | h
    · exact absurd h hne
    · simp only [ancestors, List.mem_append, List.mem_singleton]
      by_cases hz : z = c
      · exact Or.inr hz
      · exact Or.inl (ih h hz)

/-! ### `exists` as a keyed first-occurrence filter -/

abbrev Key := Val × List (Option Val)

/-- the de-duplication key of a condition result -/
def keyOf (Q : Quirks) (q : MTerm) (e : Env) : Key :=
  ((e.lookup q).getD Val.none, if Q.existsByValue then [] else (ancestors q).map fun k => e.lookup k)

/-- `cur` counts as seen because of the remembered key `k` -/
def matchK (w : World) (cur k : Key) : Bool := valEq w cur.1 k.1 && k.2 == cur.2

theorem matchK_refl (w : World) (k : Key) : matchK w k k = true := by
  simp [matchK, valEq_refl]

theorem existsFilter_cons (w : World) (Q : Quirks) (q : MTerm) (e : Env) (t : Bool) (rest : List (Env × Bool))
    (seen : List Key) :
    existsFilter w Q q ((e, t) :: rest) seen =
      if t && !(seen.any (matchK w (keyOf Q q e))) then
        (e, true) :: existsFilter w Q q rest (seen ++ [keyOf Q q e])
      else existsFilter w Q q rest seen := by
  rw [existsFilter]
  rfl

def outKeys (Q : Quirks) (q : MTerm) (out : List (Env × Bool)) : List Key := out.map fun r => keyOf Q q r.1

theorem existsFilter_sub (w : World) (Q : Quirks) (q : MTerm) :
    ∀ (rs : List (Env × Bool)) (seen : List Key) (r : Env × Bool),
      r ∈ existsFilter w Q q rs seen → r.2 = true ∧ (r.1, true) ∈ rs := by
  intro rs
  induction rs with
  | nil => intro seen r h; simp [existsFilter] at h
  | cons p rs ih =>
    intro seen r h
    obtain ⟨e, t⟩ := p
    rw [existsFilter_cons] at h
    split at h
    · rename_i hc
      simp only [Bool.and_eq_true] at hc
      simp only [List.mem_cons] at h
      rcases h with h | h
      · subst h; exact ⟨rfl, by simp [hc.1]⟩
      · obtain ⟨h1, h2⟩ := ih _ r h
        exact ⟨h1, List.mem_cons_of_mem _ h2⟩
    · obtain ⟨h1, h2⟩ := ih _ r h
      exact ⟨h1, List.mem_cons_of_mem _ h2⟩

/-- every true result is covered by a remembered key afterwards -/
theorem existsFilter_cover (w : World) (Q : Quirks) (q : MTerm) :
    ∀ (rs : List (Env × Bool)) (seen : List Key) (r : Env × Bool), r ∈ rs → r.2 = true →
      (seen ++ outKeys Q q (existsFilter w Q q rs seen)).any (matchK w (keyOf Q q r.1)) = true := by
  intro rs
  induction rs with
  | nil => intro seen r h; cases h
  | cons p rs ih =>
    intro seen r hr ht
    obtain ⟨e, t⟩ := p
    rw [existsFilter_cons]
    split
    · rename_i hc
      simp only [outKeys, List.map_cons]
      rcases List.mem_cons.1 hr with h | h
      · subst h
        simp only [List.any_append, List.any_cons, matchK_refl, Bool.true_or, Bool.or_true]
      · have := ih (seen ++ [keyOf Q q e]) r h ht
        simp only [outKeys, List.any_append, List.any_cons, List.any_nil, Bool.or_false] at this ⊢
        simpa [Bool.or_assoc] using this
    · rename_i hc
      rcases List.mem_cons.1 hr with h | h
      · subst h
        have ht' : t = true := ht
        subst ht'
        have hc' : seen.any (matchK w (keyOf Q q e)) = true := by simpa using hc
        simp only [List.any_append, hc', Bool.true_or]
      · exact ih seen r h ht

/-- remembered keys that match nothing in `rs` do not influence the filter on `rs` -/
theorem existsFilter_indep (w : World) (Q : Quirks) (q : MTerm) (rest : List (Env × Bool)) (seen : List Key) :
    ∀ (rs : List (Env × Bool)), (∀ r ∈ rs, seen.any (matchK w (keyOf Q q r.1)) = false) →
      ∀ (loc : List Key), existsFilter w Q q (rs ++ rest) (seen ++ loc) =
        existsFilter w Q q rs loc ++
          existsFilter w Q q rest (seen ++ loc ++ outKeys Q q (existsFilter w Q q rs loc)) := by
  intro rs
  induction rs with
  | nil => intro _ loc; simp [existsFilter, outKeys]
  | cons p rs ih =>
    intro h loc
    obtain ⟨e, t⟩ := p
    have h0 : seen.any (matchK w (keyOf Q q e)) = false := h (e, t) (by simp)
    have hrs : ∀ r ∈ rs, seen.any (matchK w (keyOf Q q r.1)) = false := fun r hr => h r (by simp [hr])
    simp only [List.cons_append]
    rw [existsFilter_cons, existsFilter_cons]
    simp only [List.any_append, h0, Bool.false_or]
    split
    · rw [List.append_assoc, ih hrs (loc ++ [keyOf Q q e])]
      simp [outKeys, List.append_assoc]
    · exact ih hrs loc

/-- results all of which are already covered are skipped -/
theorem existsFilter_skip (w : World) (Q : Quirks) (q : MTerm) (rest : List (Env × Bool)) (seen : List Key) :
    ∀ (rs : List (Env × Bool)), (∀ r ∈ rs, r.2 = true → seen.any (matchK w (keyOf Q q r.1)) = true) →
      existsFilter w Q q (rs ++ rest) seen = existsFilter w Q q rest seen := by
  intro rs
  induction rs with
  | nil => intro _; rfl
  | cons p rs ih =>
    intro h
    obtain ⟨e, t⟩ := p
    simp only [List.cons_append]
    rw [existsFilter_cons]
    have : (t && !(seen.any (matchK w (keyOf Q q e)))) = false := by
      cases t with
      | false => rfl
      | true => simp [h (e, true) (by simp) rfl]
    simp only [this, Bool.false_eq_true, if_false]
    exact ih (fun r hr => h r (by simp [hr]))

theorem trueOf_append (a b : List (Env × Bool)) : trueOf (a ++ b) = trueOf a ++ trueOf b := by
  simp [trueOf]

/-- **the filter distributes over segments** (as sets): when results of different segments never share a key, the
kept results of the concatenation are the kept results of each segment on its own -/
theorem existsFilter_segments (w : World) (Q : Quirks) (q : MTerm) (seg : Val → List (Env × Bool))
    (htag : ∀ e e' r r', r ∈ seg e → r' ∈ seg e' →
      matchK w (keyOf Q q r.1) (keyOf Q q r'.1) = true → e = e') :
    ∀ (es done : List Val) (seen : List Key),
      (∀ k ∈ seen, ∃ e0 ∈ done, ∃ r0 ∈ seg e0, k = keyOf Q q r0.1) →
      (∀ e0 ∈ done, ∀ r ∈ seg e0, r.2 = true → seen.any (matchK w (keyOf Q q r.1)) = true) →
      ∀ y, y ∈ trueOf (existsFilter w Q q (es.flatMap seg) seen) ↔
        ∃ e ∈ es, e ∉ done ∧ y ∈ trueOf (existsFilter w Q q (seg e) []) := by
  intro es
  induction es with
  | nil => intro done seen _ _ y; simp [existsFilter, trueOf]
  | cons e es ih =>
    intro done seen hinv hsat y
    simp only [List.flatMap_cons]
    by_cases hd : e ∈ done
    · rw [existsFilter_skip w Q q _ seen (seg e) (hsat e hd)]
      rw [ih done seen hinv hsat y]
      constructor
      · rintro ⟨e', he', hn, hy⟩; exact ⟨e', List.mem_cons_of_mem _ he', hn, hy⟩
      · rintro ⟨e', he', hn, hy⟩
        rcases List.mem_cons.1 he' with h | h
        · subst h; exact absurd hd hn
        · exact ⟨e', h, hn, hy⟩
    · have hindep : ∀ r ∈ seg e, seen.any (matchK w (keyOf Q q r.1)) = false := by
        intro r hr
        cases hany : seen.any (matchK w (keyOf Q q r.1)) with
        | false => rfl
        | true =>
          exfalso
          rw [List.any_eq_true] at hany
          obtain ⟨k, hk, hm⟩ := hany
          obtain ⟨e0, he0, r0, hr0, rfl⟩ := hinv k hk
          have := htag e e0 r r0 hr hr0 hm
          subst this
          exact hd he0
      have h1 := existsFilter_indep w Q q (es.flatMap seg) seen (seg e) hindep []
      simp only [List.append_nil] at h1
      rw [h1, trueOf_append, List.mem_append]
      have hinv' : ∀ k ∈ seen ++ outKeys Q q (existsFilter w Q q (seg e) []),
          ∃ e0 ∈ e :: done, ∃ r0 ∈ seg e0, k = keyOf Q q r0.1 := by
        intro k hk
        rcases List.mem_append.1 hk with hk | hk
        · obtain ⟨e0, he0, r0, hr0, rfl⟩ := hinv k hk
          exact ⟨e0, List.mem_cons_of_mem _ he0, r0, hr0, rfl⟩
        · simp only [outKeys, List.mem_map] at hk
          obtain ⟨r, hr, rfl⟩ := hk
          obtain ⟨_, hr2⟩ := existsFilter_sub w Q q _ _ r hr
          exact ⟨e, by simp, (r.1, true), hr2, rfl⟩
      have hsat' : ∀ e0 ∈ e :: done, ∀ r ∈ seg e0, r.2 = true →
          (seen ++ outKeys Q q (existsFilter w Q q (seg e) [])).any (matchK w (keyOf Q q r.1)) = true := by
        intro e0 he0 r hr ht
        rcases List.mem_cons.1 he0 with h | h
        · subst h
          have := existsFilter_cover w Q q (seg e0) [] r hr ht
          simp only [List.nil_append] at this
          simp only [List.any_append, this, Bool.or_true]
        · simp only [List.any_append, hsat e0 h r hr ht, Bool.true_or]
      rw [ih (e :: done) _ hinv' hsat' y]
      constructor
      · rintro (hy | ⟨e', he', hn, hy⟩)
        · exact ⟨e, by simp, hd, hy⟩
        · exact ⟨e', List.mem_cons_of_mem _ he', fun h => hn (List.mem_cons_of_mem _ h), hy⟩
      · rintro ⟨e', he', hn, hy⟩
        by_cases hee : e' = e
        · subst hee; exact Or.inl hy
        · rcases List.mem_cons.1 he' with h | h
          · exact absurd h hee
          · refine Or.inr ⟨e', h, ?_, hy⟩
            intro hm
            rcases List.mem_cons.1 hm with h' | h'
            · exact hee h'
            · exact hn h'


/-- when every condition result has the same key, `exists` keeps the first true result -/
theorem existsFilter_const (w : World) (Q : Quirks) (q : MTerm) (K : Key) :
    ∀ (rs : List (Env × Bool)), (∀ r ∈ rs, keyOf Q q r.1 = K) →
      trueOf (existsFilter w Q q rs []) = (trueOf rs).take 1 := by
  intro rs
  induction rs with
  | nil => intro _; rfl
  | cons r rs ih =>
    intro hall
    obtain ⟨e, t⟩ := r
    rw [existsFilter_cons]
    cases t with
    | false =>
      simp only [Bool.false_and, Bool.false_eq_true, if_false]
      rw [ih (fun r hr => hall r (by simp [hr]))]
      simp [trueOf]
    | true =>
      simp only [List.any_nil, Bool.not_false, Bool.and_self, if_true, List.nil_append]
      have hk : keyOf Q q e = K := hall (e, true) (by simp)
      have := existsFilter_skip w Q q [] [keyOf Q q e] rs (by
        intro r hr _
        rw [hall r (by simp [hr]), hk]
        simp [matchK_refl])
      simp only [List.append_nil] at this
      rw [this]
      simp [trueOf, existsFilter]

theorem flatMap_single {α} (l : List α) : (l.flatMap fun e => [e]) = l := by
  induction l with
  | nil => rfl
  | cons a l ih => simp [List.flatMap_cons, ih]

theorem chainTrue_single (w : World) (Q : Quirks) (dom : List Val) (c : Cond) (env : Env) :
    chainTrue w Q dom [c] env = trueOf (evalCond w Q dom c env) := by
  simp only [chainTrue]
  exact flatMap_single _

/-! ## the pattern-recursive form of the chain (`wit`) -/

/-- the true bindings of one inferred, non-existential condition on attribute node `a` (value `x`) -/
def litEnvs (w : World) (fi : FieldInfo) (a : MTerm) (x l : Val) (iterVal un : Bool) (env : Env) : List Env :=
  if fi.rel && !iterVal then (if member w l x then [(a, x) :: env] else [])
  else if !fi.rel && iterVal then (if member w x l then [(a, x) :: env] else [])
  else if fi.rel && iterVal && !un then
    ((elems x).filter fun e => member w e l).map fun e => (MTerm.flat a, e) :: (a, x) :: env
  else (if applyEq w x l then [(a, x) :: env] else [])

@[simp] theorem iter_today (fi : FieldInfo) : fi.iter Quirks.today = fi.rel := by
  simp [FieldInfo.iter, Quirks.today]

theorem inferCond_atom (fi : FieldInfo) (a : MTerm) (l : Val) (iv un : Bool) :
    (inferCond Quirks.today fi a l iv un false).atomUnder a = true := by
  simp only [inferCond, iter_today, Bool.false_eq_true, if_false]
  split
  · simp [Cond.atomUnder, under_refl]
  · split
    · simp [Cond.atomUnder, under_refl]
    · split
      · simp [Cond.atomUnder, under, under_refl]
      · simp [Cond.atomUnder, under_refl]

theorem inferCond_ex (fi : FieldInfo) (a : MTerm) (l : Val) (iv un : Bool) :
    inferCond Quirks.today fi a l iv un true = .ex a (inferCond Quirks.today fi a l iv un false) := by
  simp [inferCond]

theorem inferCond_ok (fi : FieldInfo) (a : MTerm) (ha : a.isAttr = true) (l : Val) (iv un ex : Bool) :
    (inferCond Quirks.today fi a l iv un ex).okUnder a = true := by
  cases ex with
  | false =>
    have h := inferCond_atom fi a l iv un
    generalize inferCond Quirks.today fi a l iv un false = c at h
    cases c <;> simp_all [Cond.okUnder, Cond.atomUnder]
  | true =>
    have h := inferCond_atom fi a l iv un
    rw [inferCond_ex]
    simp only [Cond.okUnder, h, under_refl, ha, Bool.and_self]

/-- evaluation of the inferred condition at bindings where the owner is bound and nothing below `a` is -/
theorem eval_inferCond (w : World) (Q : Quirks) (dom : List Val) {t : MTerm} {n : AttrName} {env : Env} {v : Val}
    (ht : env.lookup t = some v) (hfresh : FreshUnder env (.attr t n)) (fi : FieldInfo) (l : Val) (iv un : Bool) :
    trueOf (evalCond w Q dom (inferCond Quirks.today fi (.attr t n) l iv un false) env) =
      litEnvs w fi (.attr t n) (attrOf w v n) l iv un env ∧
    ∀ r ∈ evalCond w Q dom (inferCond Quirks.today fi (.attr t n) l iv un false) env,
      r.1.lookup (.attr t n) = some (attrOf w v n) := by
  have ha : env.lookup (.attr t n) = none := hfresh _ (under_refl _)
  have hf : env.lookup (.flat (.attr t n)) = none := hfresh _ (by simp [under])
  have e1 := evalT_attr_unbound w dom ht ha
  have e2 : evalT w dom (.flat (.attr t n)) env =
      (elems (attrOf w v n)).map fun e =>
        ((MTerm.flat (.attr t n), e) :: (MTerm.attr t n, attrOf w v n) :: env, e) := by
    rw [evalT]
    simp only [hf]
    rw [e1]
    simp
  simp only [inferCond, iter_today, Bool.false_eq_true, if_false, litEnvs]
  split
  · simp only [evalCond, e1]
    constructor
    · by_cases hm : member w l (attrOf w v n) = true <;> simp [trueOf, hm]
    · intro r hr; simp at hr; subst hr; simp
  · split
    · simp only [evalCond, e1]
      constructor
      · by_cases hm : member w (attrOf w v n) l = true <;> simp [trueOf, hm]
      · intro r hr; simp at hr; subst hr; simp
    · split
      · simp only [evalCond, e2]
        constructor
        · simp [trueOf, List.filter_map, Function.comp_def]
        · intro r hr
          simp only [List.map_map, List.mem_map, Function.comp_apply] at hr
          obtain ⟨e, _, rfl⟩ := hr
          rw [lookup_cons_ne (by intro h; cases h)]
          simp
      · simp only [evalCond, e1]
        constructor
        · by_cases hm : applyEq w (attrOf w v n) l = true <;> simp [trueOf, hm]
        · intro r hr; simp at hr; subst hr; simp

/-- the nested match is flattened (today) -/
def isFlattened (sub : List (Nat × Nat)) (fi : FieldInfo) (cls : Option Nat) (as : Assigns) : Bool :=
  fi.rel && (!as.isNil || typeFilterNeeded sub fi.type cls)

theorem nestedNode_today (sub : List (Nat × Nat)) (fi : FieldInfo) (a : MTerm) (cls : Option Nat) (as : Assigns) :
    nestedNode Quirks.today sub fi a cls as = if isFlattened sub fi cls as then MTerm.flat a else a := by
  simp [nestedNode, isFlattened, Quirks.today, FieldInfo.iter]

/-- the class of the type filter of a nested match, if one is needed -/
def filtCls (sub : List (Nat × Nat)) (fi : FieldInfo) (cls : Option Nat) : Option Nat :=
  match typeFilterNeeded sub fi.type cls, cls with
  | true, some c => some c
  | _, _ => none

/-- the type filter of a nested match, as a list of conditions on node `t'` -/
def filtConds (sub : List (Nat × Nat)) (fi : FieldInfo) (cls : Option Nat) (t' : MTerm) : List Cond :=
  match filtCls sub fi cls with
  | some c => [Cond.hasType t' c]
  | none => []

/-- the type filter of a nested match, as a test on the candidate value -/
def filtOk (w : World) (sub : List (Nat × Nat)) (fi : FieldInfo) (cls : Option Nat) (y : Val) : Bool :=
  match filtCls sub fi cls with
  | some c => isInstance w y c
  | none => true

theorem resolveVal_nested_today (s : Schema) (sub : List (Nat × Nat)) (fi : FieldInfo) (a : MTerm)
    (cls : Option Nat) (sel : Bool) (as : Assigns) :
    resolveVal Quirks.today s sub fi a (.nested (.mk cls sel as)) =
      match resolveAssigns Quirks.today s sub fi.type (nestedNode Quirks.today sub fi a cls as) as with
      | none => none
      | some (cs, ss) =>
        some (filtConds sub fi cls (nestedNode Quirks.today sub fi a cls as) ++ cs,
          (if sel then (if nestedNode Quirks.today sub fi a cls as == a then [a]
            else [a, nestedNode Quirks.today sub fi a cls as]) else []) ++ ss) := by
  unfold resolveVal
  have hd : Quirks.today.declaredOwner = true := rfl
  have hl : Quirks.today.lazyFlatten = true := rfl
  simp only [hd, hl, Bool.not_true, Bool.false_and, Bool.false_eq_true, if_false]
  cases h : resolveAssigns Quirks.today s sub fi.type (nestedNode Quirks.today sub fi a cls as) as with
  | none => rfl
  | some p =>
    obtain ⟨cs, ss⟩ := p
    simp only [filtConds, filtCls]
    cases typeFilterNeeded sub fi.type cls <;> cases cls <;> rfl

mutual
theorem resolveAssigns_ok (s : Schema) (sub : List (Nat × Nat)) :
    (as : Assigns) → ∀ (owner : Option Nat) (t : MTerm) (cs : List Cond) (ss : List MTerm),
      resolveAssigns Quirks.today s sub owner t as = some (cs, ss) → ∀ c ∈ cs, c.okUnder t = true
  | .nil, owner, t, cs, ss, h => by
    simp only [resolveAssigns, Option.some.injEq, Prod.mk.injEq] at h
    obtain ⟨rfl, _⟩ := h
    intro c hc; cases hc
  | .cons n av rest, owner, t, cs, ss, h => by
    rw [resolveAssigns] at h
    cases hf : fieldOf s owner n with
    | none => simp [hf] at h
    | some fi =>
      simp only [hf] at h
      cases h1 : resolveVal Quirks.today s sub fi (.attr t n) av with
      | none => simp [h1] at h
      | some p1 =>
        obtain ⟨c1, s1⟩ := p1
        cases h2 : resolveAssigns Quirks.today s sub owner t rest with
        | none => simp [h1, h2] at h
        | some p2 =>
          obtain ⟨c2, s2⟩ := p2
          simp only [h1, h2, Option.some.injEq, Prod.mk.injEq] at h
          obtain ⟨rfl, _⟩ := h
          intro c hc
          rw [List.mem_append] at hc
          rcases hc with hc | hc
          · exact okUnder_mono (by simp [under, under_refl])
              (resolveVal_ok s sub av fi (.attr t n) rfl c1 s1 h1 c hc)
          · exact resolveAssigns_ok s sub rest owner t c2 s2 h2 c hc
theorem resolveVal_ok (s : Schema) (sub : List (Nat × Nat)) :
    (av : AVal) → ∀ (fi : FieldInfo) (a : MTerm) (_ : a.isAttr = true) (cs : List Cond) (ss : List MTerm),
      resolveVal Quirks.today s sub fi a av = some (cs, ss) → ∀ c ∈ cs, c.okUnder a = true
  | .lit l, fi, a, ha, cs, ss, h => by
    simp only [resolveVal, Option.some.injEq, Prod.mk.injEq] at h
    obtain ⟨rfl, _⟩ := h
    intro c hc
    simp only [List.mem_singleton] at hc
    subst hc
    exact inferCond_ok fi a ha l _ _ _
  | .coll l ex un sel, fi, a, ha, cs, ss, h => by
    simp only [resolveVal] at h
    split at h
    · simp only [Option.some.injEq, Prod.mk.injEq] at h
      obtain ⟨rfl, _⟩ := h
      intro c hc; cases hc
    · simp only [Option.some.injEq, Prod.mk.injEq] at h
      obtain ⟨rfl, _⟩ := h
      intro c hc
      simp only [List.mem_singleton] at hc
      subst hc
      exact inferCond_ok fi a ha l _ _ _
  | .nested (.mk cls sel as), fi, a, _, cs, ss, h => by
    rw [resolveVal_nested_today] at h
    cases h1 : resolveAssigns Quirks.today s sub fi.type (nestedNode Quirks.today sub fi a cls as) as with
    | none => simp [h1] at h
    | some p1 =>
      obtain ⟨c1, s1⟩ := p1
      simp only [h1, Option.some.injEq, Prod.mk.injEq] at h
      obtain ⟨rfl, _⟩ := h
      have hun : under a (nestedNode Quirks.today sub fi a cls as) = true := by
        rw [nestedNode_today]; split <;> simp [under, under_refl]
      intro c hc
      rw [List.mem_append] at hc
      rcases hc with hc | hc
      · simp only [filtConds] at hc
        split at hc
        · simp only [List.mem_singleton] at hc
          subst hc
          simpa [Cond.okUnder, Cond.atomUnder] using hun
        · cases hc
      · exact okUnder_mono hun (resolveAssigns_ok s sub as fi.type _ c1 s1 h1 c hc)
end

mutual
/-- the true bindings of the conditions of the kwargs `as` of a match whose node `t` is bound to `v`,
computed by recursion on the pattern -/
def witAssigns (w : World) (s : Schema) (sub : List (Nat × Nat)) (owner : Option Nat) (t : MTerm) (v : Val) :
    Assigns → Env → List Env
  | .nil, env => [env]
  | .cons n av rest, env =>
    match fieldOf s owner n with
    | none => []
    | some fi =>
      (witVal w s sub fi (.attr t n) (attrOf w v n) av env).flatMap (witAssigns w s sub owner t v rest)
/-- … of one assigned value on attribute node `a` whose value is `x` -/
def witVal (w : World) (s : Schema) (sub : List (Nat × Nat)) (fi : FieldInfo) (a : MTerm) (x : Val) :
    AVal → Env → List Env
  | .lit l, env => litEnvs w fi a x l (isColl l) false env
  | .coll l ex un _, env =>
    if ex then (litEnvs w fi a x l true un env).take 1 else litEnvs w fi a x l true un env
  | .nested (.mk cls sel as), env =>
    if (condsOfVal s sub fi a (.nested (.mk cls sel as))).isEmpty then [env]
    else if isFlattened sub fi cls as then
      (elems x).flatMap fun e =>
        if filtOk w sub fi cls e then
          witAssigns w s sub fi.type (.flat a) e as ((MTerm.flat a, e) :: (a, x) :: env)
        else []
    else if filtOk w sub fi cls x then witAssigns w s sub fi.type a x as ((a, x) :: env)
    else []
end

theorem litEnvs_frame (w : World) (fi : FieldInfo) (a : MTerm) (x l : Val) (iv un : Bool) (env e' : Env)
    (h : e' ∈ litEnvs w fi a x l iv un env) (u : MTerm) (hu : under a u = false) :
    e'.lookup u = env.lookup u := by
  have hua : u ≠ a := by intro e; subst e; rw [under_refl] at hu; cases hu
  have huf : u ≠ .flat a := by intro e; subst e; simp [under, under_refl] at hu
  simp only [litEnvs] at h
  split at h
  · split at h
    · simp only [List.mem_singleton] at h; subst h; exact lookup_cons_ne hua
    · cases h
  · split at h
    · split at h
      · simp only [List.mem_singleton] at h; subst h; exact lookup_cons_ne hua
      · cases h
    · split at h
      · simp only [List.mem_map] at h
        obtain ⟨e, _, rfl⟩ := h
        rw [lookup_cons_ne huf, lookup_cons_ne hua]
      · split at h
        · simp only [List.mem_singleton] at h; subst h; exact lookup_cons_ne hua
        · cases h

mutual
theorem witAssigns_frame (w : World) (s : Schema) (sub : List (Nat × Nat)) :
    (as : Assigns) → ∀ (owner : Option Nat) (t : MTerm) (v : Val) (env e' : Env),
      e' ∈ witAssigns w s sub owner t v as env → ∀ u, (∀ n ∈ as.names, under (.attr t n) u = false) →
      e'.lookup u = env.lookup u
  | .nil, owner, t, v, env, e', h, u, _ => by
    simp only [witAssigns, List.mem_singleton] at h; subst h; rfl
  | .cons n av rest, owner, t, v, env, e', h, u, hu => by
    rw [witAssigns] at h
    cases hf : fieldOf s owner n with
    | none => simp [hf] at h
    | some fi =>
      simp only [hf, List.mem_flatMap] at h
      obtain ⟨e1, h1, h2⟩ := h
      rw [witAssigns_frame w s sub rest owner t v e1 e' h2 u
        (fun m hm => hu m (by simp [Assigns.names, hm]))]
      exact witVal_frame w s sub av fi (.attr t n) _ env e1 h1 u (hu n (by simp [Assigns.names]))
theorem witVal_frame (w : World) (s : Schema) (sub : List (Nat × Nat)) :
    (av : AVal) → ∀ (fi : FieldInfo) (a : MTerm) (x : Val) (env e' : Env),
      e' ∈ witVal w s sub fi a x av env → ∀ u, under a u = false → e'.lookup u = env.lookup u
  | .lit l, fi, a, x, env, e', h, u, hu => by
    simp only [witVal] at h
    exact litEnvs_frame w fi a x l _ _ env e' h u hu
  | .coll l ex un sel, fi, a, x, env, e', h, u, hu => by
    simp only [witVal] at h
    split at h
    · exact litEnvs_frame w fi a x l _ _ env e' (List.mem_of_mem_take h) u hu
    · exact litEnvs_frame w fi a x l _ _ env e' h u hu
  | .nested (.mk cls sel as), fi, a, x, env, e', h, u, hu => by
    have hua : u ≠ a := by intro e; subst e; rw [under_refl] at hu; cases hu
    have huf : u ≠ .flat a := by intro e; subst e; simp [under, under_refl] at hu
    rw [witVal] at h
    split at h
    · simp only [List.mem_singleton] at h; subst h; rfl
    · split at h
      · simp only [List.mem_flatMap] at h
        obtain ⟨e, _, h⟩ := h
        split at h
        · rw [witAssigns_frame w s sub as fi.type (.flat a) e _ e' h u]
          · rw [lookup_cons_ne huf, lookup_cons_ne hua]
          · intro m _
            cases hc : under (.attr (.flat a) m) u with
            | false => rfl
            | true =>
              have := under_of_under_flat (under_of_under_attr hc)
              rw [this] at hu; cases hu
        · cases h
      · split at h
        · rw [witAssigns_frame w s sub as fi.type a x _ e' h u]
          · rw [lookup_cons_ne hua]
          · intro m _
            cases hc : under (.attr a m) u with
            | false => rfl
            | true =>
              have := under_of_under_attr hc
              rw [this] at hu; cases hu
        · cases h
end

theorem chain_filt (w : World) (Q : Quirks) (dom : List Val) (sub : List (Nat × Nat)) (fi : FieldInfo)
    (cls : Option Nat) {t' : MTerm} {env : Env} {y : Val} (h : env.lookup t' = some y) :
    chainTrue w Q dom (filtConds sub fi cls t') env = if filtOk w sub fi cls y then [env] else [] := by
  cases hc : filtCls sub fi cls with
  | none => simp [filtConds, filtOk, hc, chainTrue]
  | some c =>
    simp only [filtConds, filtOk, hc]
    rw [chainTrue_single]
    simp only [evalCond, evalT_bound w dom h, List.map_cons, List.map_nil]
    by_cases hi : isInstance w y c = true <;> simp [trueOf, hi]

theorem condsOfVal_eq {s : Schema} {sub : List (Nat × Nat)} {fi : FieldInfo} {a : MTerm} {av : AVal}
    {cs : List Cond} {ss : List MTerm} (h : resolveVal Quirks.today s sub fi a av = some (cs, ss)) :
    condsOfVal s sub fi a av = cs := by
  simp [condsOfVal, h]

/-! ### results of atomic conditions: bindings only grow, and only below the attribute -/

theorem evalCond_atom_env (w : World) (Q : Quirks) (dom : List Val) {z : MTerm} {c : Cond} {env : Env}
    (hc : c.atomUnder z = true) :
    ∀ r ∈ evalCond w Q dom c env, ∃ u, under z u = true ∧ ∃ r' ∈ evalT w dom u env, r'.1 = r.1 := by
  intro r hr
  cases c <;> simp only [Cond.atomUnder] at hc <;>
    first
    | (simp only [evalCond, List.mem_map] at hr
       obtain ⟨r', hr', rfl⟩ := hr
       exact ⟨_, hc, r', hr', rfl⟩)
    | cases hc

theorem evalCond_atom_mono (w : World) (Q : Quirks) (dom : List Val) {z : MTerm} {c : Cond} {env : Env}
    (hc : c.atomUnder z = true) :
    ∀ r ∈ evalCond w Q dom c env, ∀ (k : MTerm) (y : Val), env.lookup k = some y → r.1.lookup k = some y := by
  intro r hr k y hk
  obtain ⟨u, _, r', hr', he⟩ := evalCond_atom_env w Q dom hc r hr
  rw [← he]
  exact evalT_mono w dom u env r' hr' k y hk

theorem evalCond_atom_frame (w : World) (Q : Quirks) (dom : List Val) {t : MTerm} {n : AttrName} {c : Cond}
    {env : Env} {v : Val} (ht : env.lookup t = some v) (hc : c.atomUnder (.attr t n) = true) :
    ∀ r ∈ evalCond w Q dom c env, ∀ k, under (.attr t n) k = false → r.1.lookup k = env.lookup k := by
  intro r hr k hk
  obtain ⟨u, hu, r', hr', he⟩ := evalCond_atom_env w Q dom hc r hr
  rw [← he]
  exact evalT_frame w dom ht u hu r' hr' k hk

/-- with `Exists` keyed on the ancestors' bindings, results that bind an ancestor `z` differently never share a key -/
theorem keyed_tag (w : World) (Q : Quirks) (hQ : Q.existsByValue = false) {q z : MTerm} (hz : z ∈ ancestors q)
    {r r' : Env × Bool} {e e' : Val} (h1 : r.1.lookup z = some e) (h2 : r'.1.lookup z = some e')
    (hm : matchK w (keyOf Q q r.1) (keyOf Q q r'.1) = true) : e = e' := by
  simp only [matchK, keyOf, hQ, Bool.false_eq_true, if_false, Bool.and_eq_true, beq_iff_eq] at hm
  have := (List.map_inj_left.1 hm.2) z hz
  simp only [h1, h2, Option.some.injEq] at this
  exact this.symm

/-- (S, keyed `exists`) an `exists` reached with an unbound `Flatten` node: as sets, evaluation splits over the
elements when `Exists` is keyed on the matched element -/
theorem chainTrue_split_ex (w : World) (Q : Quirks) (dom : List Val) (hQ : Q.existsByValue = false) {a : MTerm}
    {env : Env} {x : Val} (ha : env.lookup a = some x) (hfresh : FreshUnder env (.flat a)) {q : MTerm} {c0 : Cond}
    (cs : List Cond) (hc : c0.atomUnder (.flat a) = true) (hq : under (.flat a) q = true)
    (hqa : q.isAttr = true) :
    SameMem (chainTrue w Q dom (.ex q c0 :: cs) env)
      ((elems x).flatMap fun e => chainTrue w Q dom (.ex q c0 :: cs) ((MTerm.flat a, e) :: env)) := by
  have hz : MTerm.flat a ∈ ancestors q :=
    mem_ancestors_of_under hq (by intro e; subst e; simp [MTerm.isAttr] at hqa)
  simp only [chainTrue, evalCond]
  rw [evalCond_split_atom w Q dom ha hfresh hc, ← List.flatMap_assoc]
  apply SameMem.flatMap _ (fun _ _ => SameMem.refl _)
  intro y
  rw [existsFilter_segments w Q q (fun e => evalCond w Q dom c0 ((MTerm.flat a, e) :: env)) ?_ (elems x) [] []
    (by intro k hk; cases hk) (by intro e0 he0; cases he0) y]
  · simp [List.mem_flatMap]
  · intro e e' r r' hr hr' hm
    exact keyed_tag w Q hQ hz (evalCond_atom_mono w Q dom hc r hr _ _ lookup_cons_self)
      (evalCond_atom_mono w Q dom hc r' hr' _ _ lookup_cons_self) hm

theorem chainTrue_split_root_ex (w : World) (Q : Quirks) (dom : List Val) (hQ : Q.existsByValue = false)
    {q : MTerm} {c0 : Cond} (cs : List Cond) (hc : c0.atomUnder .root = true) (hq : under .root q = true)
    (hqa : q.isAttr = true) :
    SameMem (chainTrue w Q dom (.ex q c0 :: cs) [])
      (dom.flatMap fun x => chainTrue w Q dom (.ex q c0 :: cs) [(MTerm.root, x)]) := by
  have hz : MTerm.root ∈ ancestors q :=
    mem_ancestors_of_under hq (by intro e; subst e; simp [MTerm.isAttr] at hqa)
  simp only [chainTrue, evalCond]
  rw [evalCond_split_root_atom w Q dom hc, ← List.flatMap_assoc]
  apply SameMem.flatMap _ (fun _ _ => SameMem.refl _)
  intro y
  rw [existsFilter_segments w Q q (fun x => evalCond w Q dom c0 [(MTerm.root, x)]) ?_ dom [] []
    (by intro k hk; cases hk) (by intro e0 he0; cases he0) y]
  · simp [List.mem_flatMap]
  · intro e e' r r' hr hr' hm
    exact keyed_tag w Q hQ hz (evalCond_atom_mono w Q dom hc r hr _ _ lookup_cons_self)
      (evalCond_atom_mono w Q dom hc r' hr' _ _ lookup_cons_self) hm

/-- the first condition of a chain below an unbound `Flatten` node splits over the elements: exactly when it is an
atom, as sets when it is an `exists` and `Exists` is keyed on the matched element -/
theorem chainTrue_split_gen (w : World) (Q : Quirks) (dom : List Val) {a : MTerm} {env : Env} {x : Val}
    (ha : env.lookup a = some x) (hfresh : FreshUnder env (.flat a)) {c : Cond} (cs : List Cond)
    (hok : c.okUnder (.flat a) = true) (hex : Q.existsByValue = true → firstIsEx (c :: cs) = false) :
    SameMem (chainTrue w Q dom (c :: cs) env)
      ((elems x).flatMap fun e => chainTrue w Q dom (c :: cs) ((MTerm.flat a, e) :: env)) := by
  cases hfe : firstIsEx (c :: cs) with
  | false => exact SameMem.of_eq (chainTrue_split w Q dom ha hfresh cs (atom_of_ok_not_ex hok hfe))
  | true =>
    cases hb : Q.existsByValue with
    | true => rw [hex hb] at hfe; cases hfe
    | false =>
      cases c with
      | ex q c0 =>
        simp only [Cond.okUnder, Bool.and_eq_true] at hok
        exact chainTrue_split_ex w Q dom hb ha hfresh cs hok.1.1 hok.1.2 hok.2
      | eq _ _ => simp [firstIsEx] at hfe
      | litIn _ _ => simp [firstIsEx] at hfe
      | inLit _ _ => simp [firstIsEx] at hfe
      | hasType _ _ => simp [firstIsEx] at hfe
      | and _ _ => simp [firstIsEx] at hfe

theorem chainTrue_split_root_gen (w : World) (Q : Quirks) (dom : List Val) {c : Cond} (cs : List Cond)
    (hok : c.okUnder .root = true) (hex : Q.existsByValue = true → firstIsEx (c :: cs) = false) :
    SameMem (chainTrue w Q dom (c :: cs) [])
      (dom.flatMap fun x => chainTrue w Q dom (c :: cs) [(MTerm.root, x)]) := by
  cases hfe : firstIsEx (c :: cs) with
  | false => exact SameMem.of_eq (chainTrue_split_root w Q dom cs (atom_of_ok_not_ex hok hfe))
  | true =>
    cases hb : Q.existsByValue with
    | true => rw [hex hb] at hfe; cases hfe
    | false =>
      cases c with
      | ex q c0 =>
        simp only [Cond.okUnder, Bool.and_eq_true] at hok
        exact chainTrue_split_root_ex w Q dom hb cs hok.1.1 hok.1.2 hok.2
      | eq _ _ => simp [firstIsEx] at hfe
      | litIn _ _ => simp [firstIsEx] at hfe
      | inLit _ _ => simp [firstIsEx] at hfe
      | hasType _ _ => simp [firstIsEx] at hfe
      | and _ _ => simp [firstIsEx] at hfe

mutual
/-- the chain of conditions `Match._resolve` produces for the kwargs computes, on bindings where the match's own node
is bound and nothing below the assigned attributes is, the same set of bindings as the pattern-recursive
`witAssigns` — for the engine as it is (`Exists` by value) when no chain below an unbound node starts with an
`exists`, and for every pattern when `Exists` is keyed on the matched element -/
theorem chain_wit_assigns (w : World) (s : Schema) (sub : List (Nat × Nat)) (dom : List Val) (Q : Quirks) :
    (as : Assigns) → ∀ (owner : Option Nat) (t : MTerm) (v : Val) (env : Env) (cs : List Cond) (ss : List MTerm),
      env.lookup t = some v →
      (∀ n ∈ as.names, FreshUnder env (.attr t n)) →
      as.wf s sub owner = true →
      (Q.existsByValue = true → as.trigExFirst s sub owner t = false) →
      as.trigFalsyValue = false →
      resolveAssigns Quirks.today s sub owner t as = some (cs, ss) →
      SameMem (chainTrue w Q dom cs env) (witAssigns w s sub owner t v as env)
  | .nil, owner, t, v, env, cs, ss, _, _, _, _, _, h => by
    simp only [resolveAssigns, Option.some.injEq, Prod.mk.injEq] at h
    obtain ⟨rfl, _⟩ := h
    simp only [chainTrue, witAssigns]
    exact SameMem.refl _
  | .cons n av rest, owner, t, v, env, cs, ss, ht, hfresh, hwf, hex, hfv, h => by
    rw [resolveAssigns] at h
    cases hf : fieldOf s owner n with
    | none => simp [hf] at h
    | some fi =>
      simp only [hf] at h
      cases h1 : resolveVal Quirks.today s sub fi (.attr t n) av with
      | none => simp [h1] at h
      | some p1 =>
        obtain ⟨c1, s1⟩ := p1
        cases h2 : resolveAssigns Quirks.today s sub owner t rest with
        | none => simp [h1, h2] at h
        | some p2 =>
          obtain ⟨c2, s2⟩ := p2
          simp only [h1, h2, Option.some.injEq, Prod.mk.injEq] at h
          obtain ⟨rfl, _⟩ := h
          simp only [Assigns.wf, hf, Bool.and_eq_true, Bool.not_eq_true', Bool.or_eq_true] at hwf
          obtain ⟨⟨hn, _, hwfv⟩, hwfr⟩ := hwf
          have hex' : Q.existsByValue = true →
              av.trigExFirst s sub fi (.attr t n) = false ∧ rest.trigExFirst s sub owner t = false := by
            intro hb
            have := hex hb
            simpa only [Assigns.trigExFirst, hf, Bool.or_eq_false_iff] using this
          simp only [Assigns.trigFalsyValue, Bool.or_eq_false_iff] at hfv
          have hnr : n ∉ rest.names := by
            intro hm
            have : rest.names.contains n = true := by simpa using hm
            rw [this] at hn; cases hn
          rw [chainTrue_append, witAssigns]
          simp only [hf]
          have ihv := chain_wit_val w s sub dom Q av fi t n v env c1 s1 ht (hfresh n (by simp [Assigns.names]))
            hwfv (fun hb => (hex' hb).1) hfv.1 h1
          apply SameMem.flatMap ihv
          intro e1 he1'
          have he1 := (ihv e1).1 he1'
          have hfr := witVal_frame w s sub av fi (.attr t n) _ env e1 he1
          apply chain_wit_assigns w s sub dom Q rest owner t v e1 c2 s2
          · rw [hfr t (not_under_attr_self t n)]; exact ht
          · intro m hm u hu
            have hnu : under (.attr t n) u = false := by
              cases hc : under (.attr t n) u with
              | false => rfl
              | true => exact absurd (under_sibling hc hu ▸ hm) hnr
            rw [hfr u hnu]
            exact hfresh m (by simp [Assigns.names, hm]) u hu
          · exact hwfr
          · exact fun hb => (hex' hb).2
          · exact hfv.2
          · exact h2
theorem chain_wit_val (w : World) (s : Schema) (sub : List (Nat × Nat)) (dom : List Val) (Q : Quirks) :
    (av : AVal) → ∀ (fi : FieldInfo) (t : MTerm) (n : AttrName) (v : Val) (env : Env) (cs : List Cond)
      (ss : List MTerm),
      env.lookup t = some v →
      FreshUnder env (.attr t n) →
      av.wf s sub fi = true →
      (Q.existsByValue = true → av.trigExFirst s sub fi (.attr t n) = false) →
      av.trigFalsyValue = false →
      resolveVal Quirks.today s sub fi (.attr t n) av = some (cs, ss) →
      SameMem (chainTrue w Q dom cs env) (witVal w s sub fi (.attr t n) (attrOf w v n) av env)
  | .lit l, fi, t, n, v, env, cs, ss, ht, hfresh, _, _, _, h => by
    simp only [resolveVal, Option.some.injEq, Prod.mk.injEq] at h
    obtain ⟨rfl, _⟩ := h
    rw [chainTrue_single, witVal]
    exact SameMem.of_eq (eval_inferCond w Q dom ht hfresh fi l _ _).1
  | .coll l ex un sel, fi, t, n, v, env, cs, ss, ht, hfresh, _, _, hfv, h => by
    simp only [AVal.trigFalsyValue, Bool.not_eq_eq_eq_not, Bool.not_false] at hfv
    simp only [resolveVal, hfv, Bool.not_true, Bool.and_false, Bool.false_eq_true, if_false,
      Option.some.injEq, Prod.mk.injEq] at h
    obtain ⟨rfl, _⟩ := h
    rw [chainTrue_single, witVal]
    have hev := eval_inferCond w Q dom ht hfresh fi l true un
    apply SameMem.of_eq
    cases ex with
    | false => simpa using hev.1
    | true =>
      rw [inferCond_ex]
      simp only [evalCond, if_true]
      have hatom := inferCond_atom fi (.attr t n) l true un
      rw [existsFilter_const w Q (.attr t n)
        (attrOf w v n, if Q.existsByValue then [] else (ancestors (.attr t n)).map fun k => env.lookup k) _ ?_,
        hev.1]
      intro r hr
      simp only [keyOf, hev.2 r hr, Option.getD_some, Prod.mk.injEq, true_and]
      cases Q.existsByValue with
      | true => rfl
      | false =>
        simp only [Bool.false_eq_true, if_false]
        apply List.map_congr_left
        intro k hk
        exact evalCond_atom_frame w Q dom ht hatom r hr k (not_under_of_ancestor hk)
  | .nested (.mk cls sel as), fi, t, n, v, env, cs, ss, ht, hfresh, hwf, hex, hfv, h => by
    have hcs := condsOfVal_eq h
    rw [resolveVal_nested_today] at h
    cases h1 : resolveAssigns Quirks.today s sub fi.type
        (nestedNode Quirks.today sub fi (.attr t n) cls as) as with
    | none => simp [h1] at h
    | some p1 =>
      obtain ⟨c1, s1⟩ := p1
      simp only [h1, Option.some.injEq, Prod.mk.injEq] at h
      obtain ⟨hcs', _⟩ := h
      simp only [AVal.wf, Bool.and_eq_true] at hwf
      obtain ⟨_, hwfa⟩ := hwf
      have hex' : Q.existsByValue = true → (fi.rel && firstIsEx cs) = false ∧
          as.trigExFirst s sub fi.type (nestedNode Quirks.today sub fi (.attr t n) cls as) = false := by
        intro hb
        have := hex hb
        simpa only [AVal.trigExFirst, Bool.or_eq_false_iff, hcs] using this
      simp only [AVal.trigFalsyValue] at hfv
      rw [witVal, hcs]
      by_cases hemp : cs.isEmpty = true
      · simp only [hemp, if_true]
        rw [List.isEmpty_iff] at hemp
        subst hemp
        simp only [chainTrue]
        exact SameMem.refl _
      · simp only [hemp, Bool.false_eq_true, if_false]
        -- every condition speaks about a node at or below the nested node
        have hok : ∀ c ∈ cs, c.okUnder (nestedNode Quirks.today sub fi (.attr t n) cls as) = true := by
          intro c hc
          rw [← hcs', List.mem_append] at hc
          rcases hc with hc | hc
          · simp only [filtConds] at hc
            split at hc
            · simp only [List.mem_singleton] at hc
              subst hc
              simp [Cond.okUnder, Cond.atomUnder, under_refl]
            · cases hc
          · exact resolveAssigns_ok s sub as fi.type _ c1 s1 h1 c hc
        match hcons : cs, hemp with
        | [], hemp => simp at hemp
        | c :: cs', _ =>
          rw [nestedNode_today] at h1 hok hex' hcs'
          by_cases hfl : isFlattened sub fi cls as = true
          · -- flattened: bind the attribute, split over the elements
            simp only [hfl, if_true] at h1 hok hex' hcs' ⊢
            have hrel : fi.rel = true := by
              simp only [isFlattened, Bool.and_eq_true] at hfl; exact hfl.1
            have hokA : c.okUnder (.attr t n) = true :=
              okUnder_mono (by simp [under]) (hok c (by simp))
            rw [chainTrue_bind w Q dom ht hfresh cs' hokA]
            have hfr' : FreshUnder ((MTerm.attr t n, attrOf w v n) :: env) (.flat (.attr t n)) := by
              intro u hu
              have hne : u ≠ .attr t n := by
                intro e; subst e; rw [not_under_flat_self] at hu; cases hu
              rw [lookup_cons_ne hne]
              exact hfresh u (under_of_under_flat hu)
            refine SameMem.trans (chainTrue_split_gen w Q dom lookup_cons_self hfr' cs' (hok c (by simp))
              (fun hb => by have := (hex' hb).1; simpa [hrel] using this)) ?_
            apply SameMem.flatMap (SameMem.refl _)
            intro e _
            rw [← hcs', chainTrue_append, chain_filt w Q dom sub fi cls lookup_cons_self]
            by_cases hfo : filtOk w sub fi cls e = true
            · simp only [hfo, if_true, List.flatMap_cons, List.flatMap_nil, List.append_nil]
              apply chain_wit_assigns w s sub dom Q as fi.type (.flat (.attr t n)) e _ c1 s1 lookup_cons_self
              · intro m _ u hu
                have hu1 : under (.flat (.attr t n)) u = true := under_of_under_attr hu
                have hne1 : u ≠ .flat (.attr t n) := by
                  intro e'; subst e'; rw [not_under_attr_self] at hu; cases hu
                have hne2 : u ≠ .attr t n := by
                  intro e'; subst e'; rw [not_under_flat_self] at hu1; cases hu1
                rw [lookup_cons_ne hne1, lookup_cons_ne hne2]
                exact hfresh u (under_of_under_flat hu1)
              · exact hwfa
              · exact fun hb => (hex' hb).2
              · exact hfv
              · exact h1
            · simp only [hfo, Bool.false_eq_true, if_false, List.flatMap_nil]
              exact SameMem.refl _
          · -- not flattened: bind the attribute and go on below it
            simp only [hfl, Bool.false_eq_true, if_false] at h1 hok hex' hcs' ⊢
            rw [chainTrue_bind w Q dom ht hfresh cs' (hok c (by simp))]
            rw [← hcs', chainTrue_append, chain_filt w Q dom sub fi cls lookup_cons_self]
            by_cases hfo : filtOk w sub fi cls (attrOf w v n) = true
            · simp only [hfo, if_true, List.flatMap_cons, List.flatMap_nil, List.append_nil]
              apply chain_wit_assigns w s sub dom Q as fi.type (.attr t n) _ _ c1 s1 lookup_cons_self
              · intro m _ u hu
                have hu1 : under (.attr t n) u = true := under_of_under_attr hu
                have hne1 : u ≠ .attr t n := by
                  intro e'; subst e'; rw [not_under_attr_self] at hu; cases hu
                rw [lookup_cons_ne hne1]
                exact hfresh u hu1
              · exact hwfa
              · exact fun hb => (hex' hb).2
              · exact hfv
              · exact h1
            · simp only [hfo, Bool.false_eq_true, if_false, List.flatMap_nil]
              exact SameMem.refl _
end

/-! ## conformance of the world to the schema -/

/-- every value that is an instance of a class has, for every field the schema lists for that class, a conforming
attribute value -/
def Conforms (w : World) (s : Schema) : Prop :=
  ∀ (v : Val) (c : Nat) (n : AttrName) (fi : FieldInfo),
    isInstance w v c = true → s.lookup (c, n) = some fi → conformsVal w fi (attrOf w v n) = true

theorem conformsVal_none (w : World) (fi : FieldInfo) : conformsVal w fi Val.none = false := by
  simp only [conformsVal]
  cases fi.coll <;> cases fi.rel <;> cases fi.type <;> simp

theorem getAttr_of_conformsVal {w : World} {fi : FieldInfo} {v : Val} {n : AttrName}
    (h : conformsVal w fi (attrOf w v n) = true) : getAttr w v n = .ok (attrOf w v n) := by
  cases hg : getAttr w v n with
  | ok x => simp [attrOf, hg]
  | error e =>
    simp only [attrOf, hg] at h
    rw [conformsVal_none] at h; cases h

theorem mem_of_lookup {α β} [BEq α] [LawfulBEq α] {l : List (α × β)} {k : α} {b : β}
    (h : l.lookup k = some b) : (k, b) ∈ l := by
  induction l with
  | nil => simp at h
  | cons p l ih =>
    obtain ⟨k', b'⟩ := p
    simp only [List.lookup_cons] at h
    cases hk : (k == k') with
    | true =>
      simp only [hk, Option.some.injEq] at h
      have : k = k' := by simpa using hk
      subst this; subst h; simp
    | false =>
      simp only [hk] at h
      exact List.mem_cons_of_mem _ (ih h)

theorem conforms_of_conformsB {w : World} {s : Schema} (h : conformsB w s = true) : Conforms w s := by
  intro v c n fi hi hl
  cases v with
  | obj i =>
    have hlt : i < w.objs.length := by
      simp only [isInstance] at hi
      cases ho : w.objs[i]? with
      | none => simp [ho] at hi
      | some o =>
        rcases Nat.lt_or_ge i w.objs.length with h' | h'
        · exact h'
        · rw [List.getElem?_eq_none h'] at ho; cases ho
    simp only [conformsB, List.all_eq_true, List.mem_range] at h
    have h1 := h i hlt ((c, n), fi) (mem_of_lookup hl)
    simp only [hi, Bool.not_true, Bool.false_or] at h1
    cases hg : getAttr w (.obj i) n with
    | ok x => simp only [hg] at h1; simpa [attrOf, hg] using h1
    | error e => simp [hg] at h1
  | int _ => simp [isInstance] at hi
  | bool _ => simp [isInstance] at hi
  | list _ => simp [isInstance] at hi
  | objs _ => simp [isInstance] at hi
  | none => simp [isInstance] at hi
  | set _ => simp [isInstance] at hi

/-! ## `wit` is non-empty exactly when the value matches -/

theorem flatMap_ne_nil_iff {α β} {l : List α} {f : α → List β} :
    l.flatMap f ≠ [] ↔ ∃ x ∈ l, f x ≠ [] := by
  rw [Ne, List.flatMap_eq_nil_iff]
  constructor
  · intro h
    apply Classical.byContradiction
    intro hn
    apply h
    intro x hx
    apply Classical.byContradiction
    intro hne
    exact hn ⟨x, hx, hne⟩
  · rintro ⟨x, hx, hne⟩ h
    exact hne (h x hx)

theorem take_one_ne_nil {α} (l : List α) : l.take 1 ≠ [] ↔ l ≠ [] := by
  cases l <;> simp

theorem N_val (w : World) (s : Schema) (sub : List (Nat × Nat)) (fi : FieldInfo) (a : MTerm) (x : Val) (av : AVal)
    (env : Env) (ss : List MTerm) (h : resolveVal Quirks.today s sub fi a av = some ([], ss))
    (hfv : av.trigFalsyValue = false) : witVal w s sub fi a x av env = [env] := by
  cases av with
  | lit l => simp [resolveVal] at h
  | coll l ex un sel =>
    simp only [AVal.trigFalsyValue, Bool.not_eq_eq_eq_not, Bool.not_false] at hfv
    simp [resolveVal, hfv] at h
  | nested p =>
    obtain ⟨cls, sel, as⟩ := p
    rw [witVal, condsOfVal_eq h]
    simp

theorem N_assigns (w : World) (s : Schema) (sub : List (Nat × Nat)) :
    (as : Assigns) → ∀ (owner : Option Nat) (t : MTerm) (v : Val) (env : Env) (ss : List MTerm),
      resolveAssigns Quirks.today s sub owner t as = some ([], ss) → as.trigFalsyValue = false →
      witAssigns w s sub owner t v as env = [env]
  | .nil, _, _, _, _, _, _, _ => by simp [witAssigns]
  | .cons n av rest, owner, t, v, env, ss, h, hfv => by
    rw [resolveAssigns] at h
    cases hf : fieldOf s owner n with
    | none => simp [hf] at h
    | some fi =>
      simp only [hf] at h
      cases h1 : resolveVal Quirks.today s sub fi (.attr t n) av with
      | none => simp [h1] at h
      | some p1 =>
        obtain ⟨c1, s1⟩ := p1
        cases h2 : resolveAssigns Quirks.today s sub owner t rest with
        | none => simp [h1, h2] at h
        | some p2 =>
          obtain ⟨c2, s2⟩ := p2
          simp only [h1, h2, Option.some.injEq, Prod.mk.injEq, List.append_eq_nil_iff] at h
          obtain ⟨⟨rfl, rfl⟩, _⟩ := h
          simp only [Assigns.trigFalsyValue, Bool.or_eq_false_iff] at hfv
          rw [witAssigns]
          simp only [hf]
          rw [N_val w s sub fi _ _ av env s1 h1 hfv.1]
          simp only [List.flatMap_cons, List.flatMap_nil, List.append_nil]
          exact N_assigns w s sub rest owner t v env s2 h2 hfv.2

theorem filtOk_eq_typeOk (w : World) (sub : List (Nat × Nat)) (fi : FieldInfo) (cls : Option Nat) (y : Val)
    (d : Nat) (hd : fi.type = some d) (hi : isInstance w y d = true) (hc : clsCompat sub fi.type cls = true) :
    filtOk w sub fi cls y = typeOk w cls y := by
  cases cls with
  | none => simp [filtOk, filtCls, typeOk]
  | some c =>
    simp only [hd, clsCompat, Bool.or_eq_true, beq_iff_eq] at hc
    by_cases hcd : c = d
    · subst hcd
      have hneed : typeFilterNeeded sub (some c) (some c) = false := by simp [typeFilterNeeded]
      simp only [filtOk, filtCls, typeOk, hd, hneed, hi]
    · have hs : sub.contains (c, d) = true := by
        rcases hc with hc | hc
        · exact absurd hc hcd
        · exact hc
      have hneed : typeFilterNeeded sub (some d) (some c) = true := by
        simp only [typeFilterNeeded, hs, Bool.and_true, bne_iff_ne, ne_eq]; exact hcd
      simp only [filtOk, filtCls, typeOk, hd, hneed]

theorem litEnvs_ne_nil (w : World) (fi : FieldInfo) (a : MTerm) (x l : Val) (iv un : Bool) (env : Env) :
    litEnvs w fi a x l iv un env ≠ [] ↔
      (if fi.rel && !iv then member w l x
       else if !fi.rel && iv then member w x l
       else if fi.rel && iv && !un then common w x l
       else applyEq w x l) = true := by
  simp only [litEnvs]
  split
  · split <;> simp_all
  · split
    · split <;> simp_all
    · split
      · simp only [ne_eq, List.map_eq_nil_iff, List.filter_eq_nil_iff, common, List.any_eq_true]
        constructor
        · intro h
          apply Classical.byContradiction
          intro hn
          apply h
          intro e he hm
          exact hn ⟨e, he, hm⟩
        · rintro ⟨e, he, hm⟩ h
          exact h e he hm
      · split <;> simp_all

theorem isColl_of_conforms_rel {w : World} {fi : FieldInfo} {x : Val} (h : conformsVal w fi x = true)
    (hrel : fi.rel = true) (hcoll : fi.coll = true) :
    isColl x = true ∧ ∀ e ∈ elems x, typeOk w fi.type e = true := by
  simp only [conformsVal, hrel, hcoll, if_true] at h
  cases x <;> simp_all [isColl, elems]

theorem not_isColl_of_conforms {w : World} {fi : FieldInfo} {x : Val} (h : conformsVal w fi x = true)
    (hcoll : fi.coll = false) : isColl x = false := by
  simp only [conformsVal, hcoll, Bool.false_eq_true, if_false] at h
  cases hty : fi.type <;> simp only [hty] at h <;> cases x <;> simp_all [isColl]

theorem inst_of_conforms_ref {w : World} {fi : FieldInfo} {x : Val} {d : Nat} (h : conformsVal w fi x = true)
    (hcoll : fi.coll = false) (hd : fi.type = some d) : isInstance w x d = true := by
  simp only [conformsVal, hcoll, Bool.false_eq_true, if_false, hd] at h
  cases x <;> simp_all

theorem isFlattened_of_conds {s : Schema} {sub : List (Nat × Nat)} {fi : FieldInfo} {a : MTerm} {cls : Option Nat}
    {sel : Bool} {as : Assigns} (hrel : fi.rel = true)
    (hne : (condsOfVal s sub fi a (.nested (.mk cls sel as))).isEmpty = false) :
    isFlattened sub fi cls as = true := by
  cases hfl : isFlattened sub fi cls as with
  | true => rfl
  | false =>
    exfalso
    simp only [isFlattened, hrel, Bool.true_and, Bool.or_eq_false_iff, Bool.not_eq_eq_eq_not, Bool.not_false] at hfl
    obtain ⟨hnil, hneed⟩ := hfl
    cases as with
    | cons _ _ _ => simp [Assigns.isNil] at hnil
    | nil =>
      have : condsOfVal s sub fi a (.nested (.mk cls sel .nil)) = [] := by
        simp only [condsOfVal, resolveVal_nested_today, resolveAssigns, filtConds, filtCls, hneed]
        cases cls <;> rfl
      rw [this] at hne
      cases hne

mutual
/-- construction succeeds on well-formed kwargs (every attribute has a wrapped field) -/
theorem resolveAssigns_some_of_wf (s : Schema) (sub : List (Nat × Nat)) :
    (as : Assigns) → ∀ (owner : Option Nat) (t : MTerm), as.wf s sub owner = true →
      (resolveAssigns Quirks.today s sub owner t as).isSome = true
  | .nil, _, _, _ => by simp [resolveAssigns]
  | .cons n av rest, owner, t, hwf => by
    cases hf : fieldOf s owner n with
    | none => simp [Assigns.wf, hf] at hwf
    | some fi =>
      simp only [Assigns.wf, hf, Bool.and_eq_true] at hwf
      obtain ⟨⟨_, _, hwfv⟩, hwfr⟩ := hwf
      have h1 := resolveVal_some_of_wf s sub av fi (.attr t n) hwfv
      have h2 := resolveAssigns_some_of_wf s sub rest owner t hwfr
      obtain ⟨p1, hp1⟩ := Option.isSome_iff_exists.1 h1
      obtain ⟨p2, hp2⟩ := Option.isSome_iff_exists.1 h2
      rw [resolveAssigns]
      simp only [hf, hp1, hp2]
      rfl
theorem resolveVal_some_of_wf (s : Schema) (sub : List (Nat × Nat)) :
    (av : AVal) → ∀ (fi : FieldInfo) (a : MTerm), av.wf s sub fi = true →
      (resolveVal Quirks.today s sub fi a av).isSome = true
  | .lit _, _, _, _ => by simp [resolveVal]
  | .coll l _ _ _, _, _, _ => by
    simp only [resolveVal]
    split <;> rfl
  | .nested (.mk cls sel as), fi, a, hwf => by
    simp only [AVal.wf, Bool.and_eq_true] at hwf
    have h1 := resolveAssigns_some_of_wf s sub as fi.type (nestedNode Quirks.today sub fi a cls as) hwf.2
    obtain ⟨p1, hp1⟩ := Option.isSome_iff_exists.1 h1
    rw [resolveVal_nested_today]
    simp only [hp1]
    rfl
end

mutual
/-- under conformance and outside the triggers, `witAssigns` is non-empty exactly when the kwargs match the value -/
theorem wit_iff_matchesAssigns (w : World) (s : Schema) (sub : List (Nat × Nat)) (hconf : Conforms w s) :
    (as : Assigns) → ∀ (owner : Option Nat) (t : MTerm) (v : Val) (env : Env),
      (∀ o, owner = some o → isInstance w v o = true) →
      as.wf s sub owner = true →
      as.trigBuiltinColl s owner = false →
      as.trigLazyFlatten s sub owner t = false →
      as.trigFalsyValue = false →
      (witAssigns w s sub owner t v as env ≠ [] ↔ matchesAssigns w as v = true)
  | .nil, _, _, _, _, _, _, _, _, _ => by simp [witAssigns, matchesAssigns]
  | .cons n av rest, owner, t, v, env, hv, hwf, hbc, hlf, hfv => by
    cases hf : fieldOf s owner n with
    | none => simp [Assigns.wf, hf] at hwf
    | some fi =>
      simp only [Assigns.wf, hf, Bool.and_eq_true, Bool.not_eq_true', Bool.or_eq_true] at hwf
      obtain ⟨⟨_, hrc, hwfv⟩, hwfr⟩ := hwf
      simp only [Assigns.trigBuiltinColl, hf, Bool.or_eq_false_iff, Bool.and_eq_false_imp,
        Bool.not_eq_eq_eq_not, Bool.not_false] at hbc
      obtain ⟨⟨hcr, hbcv⟩, hbcr⟩ := hbc
      simp only [Assigns.trigLazyFlatten, hf, Bool.or_eq_false_iff] at hlf
      simp only [Assigns.trigFalsyValue, Bool.or_eq_false_iff] at hfv
      cases owner with
      | none => simp [fieldOf] at hf
      | some o =>
        have hcv : conformsVal w fi (attrOf w v n) = true :=
          hconf v o n fi (hv o rfl) (by simpa [fieldOf] using hf)
        have hrel_coll : fi.rel = fi.coll := by
          cases hr : fi.rel <;> cases hc : fi.coll <;> simp_all
        rw [witAssigns, matchesAssigns]
        simp only [hf, getAttr_of_conformsVal hcv, Bool.and_eq_true]
        rw [flatMap_ne_nil_iff]
        have ihr := fun e1 => wit_iff_matchesAssigns w s sub hconf rest (some o) t v e1 hv hwfr hbcr hlf.2 hfv.2
        have ihv := wit_iff_matchesVal w s sub hconf av fi (.attr t n) (attrOf w v n) env hcv hrel_coll hwfv hbcv
          hlf.1 hfv.1
        constructor
        · rintro ⟨e1, he1, hne⟩
          exact ⟨ihv.1 (List.ne_nil_of_mem he1), (ihr e1).1 hne⟩
        · rintro ⟨h1, h2⟩
          have := ihv.2 h1
          obtain ⟨e1, he1⟩ := List.exists_mem_of_ne_nil _ this
          exact ⟨e1, he1, (ihr e1).2 h2⟩
theorem wit_iff_matchesVal (w : World) (s : Schema) (sub : List (Nat × Nat)) (hconf : Conforms w s) :
    (av : AVal) → ∀ (fi : FieldInfo) (a : MTerm) (x : Val) (env : Env),
      conformsVal w fi x = true →
      fi.rel = fi.coll →
      av.wf s sub fi = true →
      av.trigBuiltinColl s fi = false →
      av.trigLazyFlatten s sub fi a = false →
      av.trigFalsyValue = false →
      (witVal w s sub fi a x av env ≠ [] ↔ matchesVal w av x = true)
  | .lit l, fi, a, x, env, hcv, hrc, _, _, _, _ => by
    rw [witVal, matchesVal, litEnvs_ne_nil, matchLit]
    cases hr : fi.rel with
    | true =>
      obtain ⟨hx, _⟩ := isColl_of_conforms_rel hcv hr (hrc ▸ hr)
      cases hl : isColl l <;> simp [hx]
    | false =>
      have hx := not_isColl_of_conforms hcv (hrc ▸ hr)
      cases hl : isColl l <;> simp [hx, applyEq]
  | .coll l ex un sel, fi, a, x, env, hcv, hrc, hwf, _, _, _ => by
    simp only [AVal.wf, Bool.and_eq_true] at hwf
    have hl : isColl l = true := hwf.1
    rw [witVal, matchesVal, matchColl]
    have key : litEnvs w fi a x l true un env ≠ [] ↔
        (if isColl x then (if un then sameElems w x l else common w x l) else member w x l) = true := by
      rw [litEnvs_ne_nil]
      cases hr : fi.rel with
      | true =>
        obtain ⟨hx, _⟩ := isColl_of_conforms_rel hcv hr (hrc ▸ hr)
        cases un <;> simp [hx, applyEq, hl]
      | false =>
        have hx := not_isColl_of_conforms hcv (hrc ▸ hr)
        simp [hx]
    cases ex with
    | false => simpa using key
    | true => simp only [if_true]; rw [take_one_ne_nil]; exact key
  | .nested (.mk cls sel as), fi, a, x, env, hcv, hrc, hwf, hbc, hlf, hfv => by
    simp only [AVal.wf, Bool.and_eq_true] at hwf
    obtain ⟨⟨hty, hcompat⟩, hwfa⟩ := hwf
    obtain ⟨d, hd⟩ := Option.isSome_iff_exists.1 hty
    simp only [AVal.trigBuiltinColl, Bool.or_eq_false_iff] at hbc
    simp only [AVal.trigLazyFlatten, Bool.or_eq_false_iff] at hlf
    obtain ⟨hlf1, hlfa⟩ := hlf
    simp only [AVal.trigFalsyValue] at hfv
    rw [witVal, matchesVal]
    cases hr : fi.rel with
    | true =>
      -- a relationship collection: some element matches
      obtain ⟨hx, helems⟩ := isColl_of_conforms_rel hcv hr (hrc ▸ hr)
      simp only [hr, Bool.true_and] at hlf1
      have hflat := isFlattened_of_conds (a := a) (sel := sel) hr hlf1
      simp only [hlf1, Bool.false_eq_true, if_false, hflat, if_true, hx]
      rw [flatMap_ne_nil_iff, List.any_eq_true]
      rw [nestedNode_today] at hlfa
      simp only [hflat, if_true] at hlfa
      constructor
      · rintro ⟨e, he, hne⟩
        refine ⟨e, he, ?_⟩
        have hinst : isInstance w e d = true := by
          have := helems e he; simpa [typeOk, hd] using this
        by_cases hfo : filtOk w sub fi cls e = true
        · simp only [hfo, if_true] at hne
          rw [matchesPat, ← filtOk_eq_typeOk w sub fi cls e d hd hinst hcompat, hfo, Bool.true_and]
          exact (wit_iff_matchesAssigns w s sub hconf as fi.type (.flat a) e _
            (by intro o ho; rw [hd] at ho; injection ho with ho; subst ho; exact hinst)
            hwfa hbc.1 hlfa hfv).1 hne
        · simp [hfo] at hne
      · rintro ⟨e, he, hm⟩
        refine ⟨e, he, ?_⟩
        have hinst : isInstance w e d = true := by
          have := helems e he; simpa [typeOk, hd] using this
        rw [matchesPat, ← filtOk_eq_typeOk w sub fi cls e d hd hinst hcompat, Bool.and_eq_true] at hm
        simp only [hm.1, if_true]
        exact (wit_iff_matchesAssigns w s sub hconf as fi.type (.flat a) e _
          (by intro o ho; rw [hd] at ho; injection ho with ho; subst ho; exact hinst)
          hwfa hbc.1 hlfa hfv).2 hm.2
    | false =>
      -- a reference: the value itself matches
      have hx := not_isColl_of_conforms hcv (hrc ▸ hr)
      have hinst : isInstance w x d = true := inst_of_conforms_ref hcv (hrc ▸ hr) hd
      have hnf : isFlattened sub fi cls as = false := by simp [isFlattened, hr]
      rw [nestedNode_today] at hlfa
      simp only [hnf, Bool.false_eq_true, if_false, hx] at hlfa ⊢
      rw [matchesPat, ← filtOk_eq_typeOk w sub fi cls x d hd hinst hcompat]
      have ih := fun env' => wit_iff_matchesAssigns w s sub hconf as fi.type a x env'
        (by intro o ho; rw [hd] at ho; injection ho with ho; subst ho; exact hinst)
        hwfa hbc.1 hlfa hfv
      by_cases hemp : (condsOfVal s sub fi a (.nested (.mk cls sel as))).isEmpty = true
      · simp only [hemp, if_true, ne_eq, List.cons_ne_self, not_false_eq_true, true_iff, Bool.and_eq_true]
        -- no condition at all: no type filter, and the kwargs below contribute none either
        rw [List.isEmpty_iff] at hemp
        simp only [condsOfVal, resolveVal_nested_today, nestedNode_today, hnf, Bool.false_eq_true, if_false] at hemp
        cases h1 : resolveAssigns Quirks.today s sub fi.type a as with
        | none =>
          -- construction fails: excluded by well-formedness? not needed: `wit` is `[env]`-free here
          simp only [h1] at hemp
          -- `condsOfVal` is `[]` by definition when construction fails; the kwargs then cannot be well formed
          have := resolveAssigns_some_of_wf s sub as fi.type a hwfa
          rw [h1] at this; cases this
        | some p1 =>
          obtain ⟨c1, s1⟩ := p1
          simp only [h1, List.append_eq_nil_iff] at hemp
          obtain ⟨hf0, rfl⟩ := hemp
          constructor
          · simp only [filtOk]
            simp only [filtConds] at hf0
            cases hfc : filtCls sub fi cls with
            | none => rfl
            | some c => simp [hfc] at hf0
          · have := N_assigns w s sub as fi.type a x ((a, x) :: env) s1 h1 hfv
            exact (ih _).1 (by rw [this]; simp)
      · simp only [hemp, Bool.false_eq_true, if_false, Bool.and_eq_true]
        by_cases hfo : filtOk w sub fi cls x = true
        · simp only [hfo, if_true, true_and]
          exact ih _
        · simp [hfo]
end

/-! ## selections -/

mutual
theorem resolveAssigns_sels_nil (s : Schema) (sub : List (Nat × Nat)) :
    (as : Assigns) → ∀ (owner : Option Nat) (t : MTerm) (cs : List Cond) (ss : List MTerm),
      resolveAssigns Quirks.today s sub owner t as = some (cs, ss) → as.nSel = 0 → ss = []
  | .nil, _, _, _, _, h, _ => by
    simp only [resolveAssigns, Option.some.injEq, Prod.mk.injEq] at h
    exact h.2.symm
  | .cons n av rest, owner, t, cs, ss, h, hn => by
    rw [resolveAssigns] at h
    cases hf : fieldOf s owner n with
    | none => simp [hf] at h
    | some fi =>
      simp only [hf] at h
      cases h1 : resolveVal Quirks.today s sub fi (.attr t n) av with
      | none => simp [h1] at h
      | some p1 =>
        obtain ⟨c1, s1⟩ := p1
        cases h2 : resolveAssigns Quirks.today s sub owner t rest with
        | none => simp [h1, h2] at h
        | some p2 =>
          obtain ⟨c2, s2⟩ := p2
          simp only [h1, h2, Option.some.injEq, Prod.mk.injEq] at h
          obtain ⟨_, rfl⟩ := h
          simp only [Assigns.nSel, Nat.add_eq_zero_iff] at hn
          rw [resolveVal_sels_nil s sub av fi _ c1 s1 h1 hn.1,
            resolveAssigns_sels_nil s sub rest owner t c2 s2 h2 hn.2]
          rfl
theorem resolveVal_sels_nil (s : Schema) (sub : List (Nat × Nat)) :
    (av : AVal) → ∀ (fi : FieldInfo) (a : MTerm) (cs : List Cond) (ss : List MTerm),
      resolveVal Quirks.today s sub fi a av = some (cs, ss) → av.nSel = 0 → ss = []
  | .lit _, _, _, _, _, h, _ => by
    simp only [resolveVal, Option.some.injEq, Prod.mk.injEq] at h
    exact h.2.symm
  | .coll l ex un sel, fi, a, cs, ss, h, hn => by
    have hs : sel = false := by
      cases sel with
      | false => rfl
      | true => simp [AVal.nSel] at hn
    subst hs
    simp only [resolveVal] at h
    split at h <;> simp only [Option.some.injEq, Prod.mk.injEq] at h <;> simpa using h.2.symm
  | .nested (.mk cls sel as), fi, a, cs, ss, h, hn => by
    rw [resolveVal_nested_today] at h
    cases h1 : resolveAssigns Quirks.today s sub fi.type (nestedNode Quirks.today sub fi a cls as) as with
    | none => simp [h1] at h
    | some p1 =>
      obtain ⟨c1, s1⟩ := p1
      simp only [h1, Option.some.injEq, Prod.mk.injEq] at h
      obtain ⟨_, rfl⟩ := h
      have hs : sel = false := by
        cases sel with
        | false => rfl
        | true => simp only [AVal.nSel, if_true] at hn; omega
      subst hs
      simp only [AVal.nSel, Bool.false_eq_true, if_false, Nat.zero_add] at hn
      rw [resolveAssigns_sels_nil s sub as fi.type _ c1 s1 h1 hn]
      rfl
end

theorem ite_singleton_eq_nil {b : Bool} {x : String} : (if b then [x] else ([] : List String)) = [] ↔ b = false := by
  cases b <;> simp

/-! ## the property -/

/-- the general form: `Q` is the engine as it is today except possibly for the way `Exists` de-duplicates -/
theorem C11_equiv_gen (w : World) (s : Schema) (dom : List Val) (T : Nat) (rootSel : Bool) (as : Assigns)
    (Q : Quirks) (hsel : Q.selIndependent = true)
    (hdes : desugar Q s w.subclass (.mk (some T) rootSel as) =
      desugar Quirks.today s w.subclass (.mk (some T) rootSel as))
    (hconf : conformsB w s = true)
    (hwf : (Pat.mk (some T) rootSel as).wf s w.subclass = true)
    (hex : Q.existsByValue = true → (Pat.mk (some T) rootSel as).trigExFirst s w.subclass = false)
    (hbc : (Pat.mk (some T) rootSel as).trigBuiltinColl s = false)
    (hlf : (Pat.mk (some T) rootSel as).trigLazyFlatten s w.subclass = false)
    (hfv : (Pat.mk (some T) rootSel as).trigFalsyValue = false)
    (hnosel : as.nSel = 0) :
    ∃ rows, run w Q s dom (.mk (some T) rootSel as) = some rows ∧
      ∀ r, r ∈ rows ↔ ∃ x ∈ dom, r = [x] ∧ matchesPat w (.mk (some T) rootSel as) x = true := by
  have hC := conforms_of_conformsB hconf
  simp only [Pat.wf, Option.isSome_some, Bool.true_and] at hwf
  simp only [Pat.trigBuiltinColl] at hbc
  simp only [Pat.trigLazyFlatten] at hlf
  simp only [Pat.trigFalsyValue] at hfv
  obtain ⟨p, hp⟩ := Option.isSome_iff_exists.1 (resolveAssigns_some_of_wf s w.subclass as (some T) .root hwf)
  obtain ⟨cs, ss⟩ := p
  have hss : ss = [] := resolveAssigns_sels_nil s w.subclass as (some T) .root cs ss hp hnosel
  subst hss
  have hcs : condsOfAssigns s w.subclass (some T) .root as = cs := by simp [condsOfAssigns, hp]
  have hex' : Q.existsByValue = true →
      firstIsEx cs = false ∧ as.trigExFirst s w.subclass (some T) .root = false := by
    intro hb
    have := hex hb
    simpa only [Pat.trigExFirst, Bool.or_eq_false_iff, hcs] using this
  -- the pattern-recursive form, per domain element
  have hwit : ∀ x, isInstance w x T = true →
      (witAssigns w s w.subclass (some T) .root x as [(MTerm.root, x)] ≠ [] ↔ matchesAssigns w as x = true) :=
    fun x hx => wit_iff_matchesAssigns w s w.subclass hC as (some T) .root x _
      (by intro o ho; injection ho with ho; subst ho; exact hx) hwf hbc hlf hfv
  have hchain : ∀ x, SameMem (chainTrue w Q (dom.filter fun x => isInstance w x T) cs [(MTerm.root, x)])
      (witAssigns w s w.subclass (some T) .root x as [(MTerm.root, x)]) :=
    fun x => chain_wit_assigns w s w.subclass _ Q as (some T) .root x _ cs [] lookup_cons_self
      (by
        intro n _ u hu
        have hne : u ≠ .root := by
          intro e; subst e; rw [not_under_attr_self] at hu; cases hu
        rw [lookup_cons_ne hne]; rfl)
      hwf (fun hb => (hex' hb).2) hfv hp
  have hroot : ∀ x, ∀ env ∈ witAssigns w s w.subclass (some T) .root x as [(MTerm.root, x)],
      env.lookup .root = some x := by
    intro x env henv
    rw [witAssigns_frame w s w.subclass as (some T) .root x _ env henv .root
      (fun n _ => not_under_attr_self .root n)]
    exact lookup_cons_self
  have hselv : (if ((if rootSel = true then [MTerm.root] else []) ++ ([] : List MTerm)).isEmpty = true
      then [MTerm.root] else (if rootSel = true then [MTerm.root] else []) ++ []) = [MTerm.root] := by
    cases rootSel <;> rfl
  refine ⟨_, by rw [run, hdes]; simp only [desugar, hp, Option.map_some]; rfl, ?_⟩
  intro r
  simp only [hselv, evalQuery, hsel, if_true, List.map_cons, List.map_nil]
  have hprod : ∀ l : List Val, product [l] = l.map fun x => [x] := by
    intro l; simp [product, List.map_eq_flatMap]
  cases cs with
  | nil =>
    -- no condition at all: every instance is returned, and every instance matches
    simp only [andChain, List.flatMap_cons, List.flatMap_nil, List.append_nil, evalT, List.lookup_nil,
      List.map_map, hprod, List.mem_map, Function.comp_def, List.mem_filter]
    constructor
    · rintro ⟨x, ⟨hx, hi⟩, rfl⟩
      refine ⟨x, hx, rfl, ?_⟩
      rw [matchesPat, typeOk, hi, Bool.true_and]
      refine (hwit x hi).1 ?_
      rw [N_assigns w s w.subclass as (some T) .root x _ [] hp hfv]
      simp
    · rintro ⟨x, hx, rfl, hm⟩
      rw [matchesPat, typeOk, Bool.and_eq_true] at hm
      exact ⟨x, ⟨hx, hm.1⟩, rfl⟩
  | cons c cs' =>
    have hokc : c.okUnder .root = true :=
      resolveAssigns_ok s w.subclass as (some T) .root _ _ hp c (by simp)
    have hrows : SameMem
        (((evalCond w Q (dom.filter fun x => isInstance w x T) (cs'.foldl Cond.and c) []).filter (·.2)).map (·.1))
        ((dom.filter fun x => isInstance w x T).flatMap fun x =>
          witAssigns w s w.subclass (some T) .root x as [(MTerm.root, x)]) := by
      have h1 := trueOf_andChain w Q (dom.filter fun x => isInstance w x T) c cs' []
      simp only [trueOf] at h1
      rw [h1]
      exact SameMem.trans (chainTrue_split_root_gen w Q _ cs' hokc (fun hb => (hex' hb).1))
        (SameMem.flatMap (SameMem.refl _) (fun x _ => hchain x))
    simp only [andChain, List.mem_flatMap]
    constructor
    · rintro ⟨env, henv0, hr⟩
      obtain ⟨x, hxd, henv⟩ := List.mem_flatMap.1 ((hrows env).1 henv0)
      obtain ⟨hx, hi⟩ := List.mem_filter.1 hxd
      have hi : isInstance w x T = true := by simpa using hi
      rw [evalT_bound w _ (hroot x env henv)] at hr
      simp only [List.map_cons, List.map_nil, hprod, List.mem_singleton] at hr
      subst hr
      refine ⟨x, hx, rfl, ?_⟩
      rw [matchesPat, typeOk, hi, Bool.true_and]
      exact (hwit x hi).1 (List.ne_nil_of_mem henv)
    · rintro ⟨x, hx, rfl, hm⟩
      rw [matchesPat, typeOk, Bool.and_eq_true] at hm
      obtain ⟨env, henv⟩ := List.exists_mem_of_ne_nil _ ((hwit x hm.1).2 hm.2)
      have hxd : x ∈ dom.filter fun x => isInstance w x T := List.mem_filter.2 ⟨hx, by simpa using hm.1⟩
      refine ⟨env, (hrows env).2 (List.mem_flatMap.2 ⟨x, hxd, henv⟩), ?_⟩
      rw [evalT_bound w _ (hroot x env henv)]
      simp [hprod]

/-- **C11_equiv_partial.** For every world that conforms to its schema, every domain, and every well-formed pattern
of ANY nesting depth that selects nothing but the matched element and lies outside the triggers of the recorded
findings (F-C11-1 an `exists` reached with an unbound enumerating node, F-C11-3 builtin collections,
F-C11-4 subclass-only attributes [excluded by well-formedness], F-C11-5 condition-free nested match on a collection,
F-C11-6 falsy `match_any` value; F-C11-2 cannot occur without inner selections), the query `Match._resolve` builds,
evaluated by the engine model with today's quirks, returns exactly the domain elements that satisfy the pattern:
each row is `[x]` for a domain element `x` with `matchesPat`, and every such element is returned. -/
theorem C11_equiv_partial (w : World) (s : Schema) (dom : List Val) (T : Nat) (rootSel : Bool) (as : Assigns)
    (hconf : conformsB w s = true)
    (hwf : (Pat.mk (some T) rootSel as).wf s w.subclass = true)
    (hclean : triggers w s (.mk (some T) rootSel as) = [])
    (hnosel : as.nSel = 0) :
    ∃ rows, run w Quirks.today s dom (.mk (some T) rootSel as) = some rows ∧
      ∀ r, r ∈ rows ↔ ∃ x ∈ dom, r = [x] ∧ matchesPat w (.mk (some T) rootSel as) x = true := by
  simp only [triggers, List.append_eq_nil_iff, ite_singleton_eq_nil] at hclean
  obtain ⟨⟨⟨⟨⟨hex, _⟩, hbc⟩, _⟩, hlf⟩, hfv⟩ := hclean
  exact C11_equiv_gen w s dom T rootSel as Quirks.today rfl rfl hconf hwf (fun _ => hex) hbc hlf hfv hnosel

/-! ## full strength for `Exists` keyed on the matched element -/

/-- the engine as it is today, except that `Exists` de-duplicates per matched element (the bindings of the ancestors
of the quantified attribute) instead of on the attribute's value across all outer bindings: F-C11-1 repaired -/
def Quirks.keyed : Quirks := { Quirks.today with existsByValue := false }

mutual
theorem resolveAssigns_keyed (s : Schema) (sub : List (Nat × Nat)) :
    (as : Assigns) → ∀ (owner : Option Nat) (t : MTerm),
      resolveAssigns Quirks.keyed s sub owner t as = resolveAssigns Quirks.today s sub owner t as
  | .nil, _, _ => by simp [resolveAssigns]
  | .cons n av rest, owner, t => by
    rw [resolveAssigns, resolveAssigns]
    cases fieldOf s owner n with
    | none => rfl
    | some fi =>
      simp only
      rw [resolveVal_keyed s sub av fi (.attr t n), resolveAssigns_keyed s sub rest owner t]
theorem resolveVal_keyed (s : Schema) (sub : List (Nat × Nat)) :
    (av : AVal) → ∀ (fi : FieldInfo) (a : MTerm),
      resolveVal Quirks.keyed s sub fi a av = resolveVal Quirks.today s sub fi a av
  | .lit _, _, _ => by simp [resolveVal, inferCond, FieldInfo.iter, Quirks.keyed, Quirks.today]
  | .coll _ _ _ _, _, _ => by simp [resolveVal, inferCond, FieldInfo.iter, Quirks.keyed, Quirks.today]
  | .nested (.mk cls sel as), fi, a => by
    have hn : nestedNode Quirks.keyed sub fi a cls as = nestedNode Quirks.today sub fi a cls as := by
      simp [nestedNode, FieldInfo.iter, Quirks.keyed, Quirks.today]
    unfold resolveVal
    simp only [hn]
    have hd : Quirks.keyed.declaredOwner = Quirks.today.declaredOwner := rfl
    have hl : Quirks.keyed.lazyFlatten = Quirks.today.lazyFlatten := rfl
    have hi : fi.iter Quirks.keyed = fi.iter Quirks.today := by simp [FieldInfo.iter, Quirks.keyed, Quirks.today]
    rw [hd, hl, hi]
    have hr := resolveAssigns_keyed s sub as
    simp only [hr]
end

theorem desugar_keyed (s : Schema) (sub : List (Nat × Nat)) (p : Pat) :
    desugar Quirks.keyed s sub p = desugar Quirks.today s sub p := by
  obtain ⟨cls, sel, as⟩ := p
  cases cls with
  | none => rfl
  | some T => simp only [desugar, resolveAssigns_keyed]

/-- **C11_full.** With `Exists` keyed on the matched element (`Quirks.keyed`: the only change to the engine model is
the de-duplication key of `Exists`), the equivalence holds for EVERY well-formed pattern outside the other triggers,
existential matches included, at any nesting depth: the hypothesis "no `exists` reached with an unbound enumerating
node" (F-C11-1) of `C11_equiv_partial` is gone. (The remaining hypotheses are the triggers of F-C11-3/5/6, which are
about `desugar`, not about `Exists`; F-C11-4 is excluded by well-formedness and F-C11-2 needs inner selections.) -/
theorem C11_full (w : World) (s : Schema) (dom : List Val) (T : Nat) (rootSel : Bool) (as : Assigns)
    (hconf : conformsB w s = true)
    (hwf : (Pat.mk (some T) rootSel as).wf s w.subclass = true)
    (hbc : (Pat.mk (some T) rootSel as).trigBuiltinColl s = false)
    (hlf : (Pat.mk (some T) rootSel as).trigLazyFlatten s w.subclass = false)
    (hfv : (Pat.mk (some T) rootSel as).trigFalsyValue = false)
    (hnosel : as.nSel = 0) :
    ∃ rows, run w Quirks.keyed s dom (.mk (some T) rootSel as) = some rows ∧
      ∀ r, r ∈ rows ↔ ∃ x ∈ dom, r = [x] ∧ matchesPat w (.mk (some T) rootSel as) x = true :=
  C11_equiv_gen w s dom T rootSel as Quirks.keyed rfl (desugar_keyed s w.subclass _) hconf hwf
    (fun h => by cases h) hbc hlf hfv hnosel

/-! ## the two readings of the specification agree -/

theorem cross_ne_nil {a b : List (List Val)} : cross a b ≠ [] ↔ a ≠ [] ∧ b ≠ [] := by
  simp only [cross]
  rw [flatMap_ne_nil_iff]
  constructor
  · rintro ⟨r1, h1, h2⟩
    exact ⟨List.ne_nil_of_mem h1, by simpa using h2⟩
  · rintro ⟨h1, h2⟩
    obtain ⟨r1, hr1⟩ := List.exists_mem_of_ne_nil _ h1
    exact ⟨r1, hr1, by simpa using h2⟩

mutual
/-- **C11_matches_iff_rows.** The Boolean reading (`matchesPat`: literal = equality / membership, nested = type and
attributes, any = a common element, all = the same set) holds of a value exactly when the row reading (`rowsPat`:
the consistent tuples of selected inner parts) has at least one tuple for it. -/
theorem C11_matches_iff_rows (w : World) : (p : Pat) → ∀ (v : Val), rowsPat w p v ≠ [] ↔ matchesPat w p v = true
  | .mk cls sel as, v => by
    rw [rowsPat, matchesPat]
    cases ht : typeOk w cls v with
    | false => simp
    | true => simpa using rowsAssigns_ne_nil w as v
theorem rowsAssigns_ne_nil (w : World) :
    (as : Assigns) → ∀ (v : Val), rowsAssigns w as v ≠ [] ↔ matchesAssigns w as v = true
  | .nil, v => by simp [rowsAssigns, matchesAssigns]
  | .cons n av rest, v => by
    rw [rowsAssigns, matchesAssigns]
    cases hg : getAttr w v n with
    | error e => simp
    | ok x =>
      simp only [Bool.and_eq_true]
      rw [cross_ne_nil, rowsVal_ne_nil w av x, rowsAssigns_ne_nil w rest v]
theorem rowsVal_ne_nil (w : World) : (av : AVal) → ∀ (x : Val), rowsVal w av x ≠ [] ↔ matchesVal w av x = true
  | .lit l, x => by
    rw [rowsVal, matchesVal]
    cases matchLit w x l <;> simp
  | .coll l ex un sel, x => by
    rw [rowsVal, matchesVal]
    cases matchColl w x l un <;> simp
  | .nested (.mk cls sel as), x => by
    rw [rowsVal, matchesVal]
    cases hx : isColl x with
    | true =>
      simp only [if_true]
      rw [flatMap_ne_nil_iff, List.any_eq_true]
      constructor
      · rintro ⟨e, he, hne⟩
        exact ⟨e, he, (C11_matches_iff_rows w (.mk cls sel as) e).1 (by simpa using hne)⟩
      · rintro ⟨e, he, hm⟩
        exact ⟨e, he, by simpa using (C11_matches_iff_rows w (.mk cls sel as) e).2 hm⟩
    | false =>
      simp only [Bool.false_eq_true, if_false]
      have := C11_matches_iff_rows w (.mk cls sel as) x
      simpa using this
end

mutual
theorem rowsAssigns_nosel (w : World) :
    (as : Assigns) → ∀ (v : Val), as.nSel = 0 → ∀ r ∈ rowsAssigns w as v, r = []
  | .nil, v, _, r, hr => by simpa [rowsAssigns] using hr
  | .cons n av rest, v, hn, r, hr => by
    simp only [Assigns.nSel, Nat.add_eq_zero_iff] at hn
    rw [rowsAssigns] at hr
    cases hg : getAttr w v n with
    | error e => simp [hg] at hr
    | ok x =>
      simp only [hg, cross, List.mem_flatMap, List.mem_map] at hr
      obtain ⟨r1, h1, r2, h2, rfl⟩ := hr
      rw [rowsVal_nosel w av x hn.1 r1 h1, rowsAssigns_nosel w rest v hn.2 r2 h2]
      rfl
theorem rowsVal_nosel (w : World) : (av : AVal) → ∀ (x : Val), av.nSel = 0 → ∀ r ∈ rowsVal w av x, r = []
  | .lit l, x, _, r, hr => by
    rw [rowsVal] at hr
    split at hr <;> simp_all
  | .coll l ex un sel, x, hn, r, hr => by
    have hs : sel = false := by
      cases sel with
      | false => rfl
      | true => simp [AVal.nSel] at hn
    subst hs
    rw [rowsVal] at hr
    split at hr <;> simp_all
  | .nested (.mk cls sel as), x, hn, r, hr => by
    have hs : sel = false := by
      cases sel with
      | false => rfl
      | true => simp only [AVal.nSel, if_true] at hn; omega
    subst hs
    simp only [AVal.nSel, Bool.false_eq_true, if_false, Nat.zero_add] at hn
    rw [rowsVal] at hr
    have key : ∀ e, ∀ r ∈ rowsPat w (.mk cls false as) e, r = [] := by
      intro e r hr
      rw [rowsPat] at hr
      split at hr
      · exact rowsAssigns_nosel w as e hn r hr
      · cases hr
    split at hr
    · simp only [Bool.false_eq_true, if_false, List.nil_append, List.map_id', List.mem_flatMap] at hr
      obtain ⟨e, _, hr⟩ := hr
      exact key e r hr
    · simp only [Bool.false_eq_true, if_false, List.nil_append, List.map_id'] at hr
      exact key x r hr
end

/-- without inner selections, the rows the specification demands are the matching domain elements -/
theorem specRows_nosel (w : World) (dom : List Val) (cls : Option Nat) (rootSel : Bool) (as : Assigns)
    (hn : as.nSel = 0) (r : List Val) :
    r ∈ specRows w dom (.mk cls rootSel as) ↔
      ∃ x ∈ dom, r = [x] ∧ matchesPat w (.mk cls rootSel as) x = true := by
  simp only [specRows, hn, beq_self_eq_true, Bool.or_true, if_true, List.mem_flatMap, List.mem_filter,
    List.mem_map, matchesPat, Bool.and_eq_true]
  constructor
  · rintro ⟨x, ⟨hx, ht⟩, r', hr', rfl⟩
    rw [rowsAssigns_nosel w as x hn r' hr']
    exact ⟨x, hx, rfl, ht, (rowsAssigns_ne_nil w as x).1 (List.ne_nil_of_mem hr')⟩
  · rintro ⟨x, hx, rfl, ht, hm⟩
    obtain ⟨r', hr'⟩ := List.exists_mem_of_ne_nil _ ((rowsAssigns_ne_nil w as x).2 hm)
    refine ⟨x, ⟨hx, ht⟩, r', hr', ?_⟩
    rw [rowsAssigns_nosel w as x hn r' hr']
    rfl

/-- `C11_equiv_partial` in the form the correspondence compares: the set of rows of the model (`model=`) is the set of
rows of the specification (`spec=`) -/
theorem C11_model_eq_spec_partial (w : World) (s : Schema) (dom : List Val) (T : Nat) (rootSel : Bool) (as : Assigns)
    (hconf : conformsB w s = true)
    (hwf : (Pat.mk (some T) rootSel as).wf s w.subclass = true)
    (hclean : triggers w s (.mk (some T) rootSel as) = [])
    (hnosel : as.nSel = 0) :
    ∃ rows, run w Quirks.today s dom (.mk (some T) rootSel as) = some rows ∧
      ∀ r, r ∈ rows ↔ r ∈ specRows w dom (.mk (some T) rootSel as) := by
  obtain ⟨rows, h1, h2⟩ := C11_equiv_partial w s dom T rootSel as hconf hwf hclean hnosel
  exact ⟨rows, h1, fun r => (h2 r).trans (specRows_nosel w dom (some T) rootSel as hnosel r).symm⟩

/-! ## the recorded findings: concrete witnesses (tests by `decide`, not unbounded claims)

One small world of the harness classes: handle `o0`; drawer `o1`; big drawer `o2` (`depth = 1`); cabinets
`o3` (name 0, main `o1`, drawers `[o1]`, tags `[1]`), `o4` (name 1, main `o2`, drawers `[o1]`), `o5` (name 1, main
`o1`, no drawers). Class ids: 0 Handle, 1 Knob, 2 Drawer, 3 BigDrawer, 4 Cabinet. The same cases are the witnesses in
`findings.d/C11.json`, replayed on the real code on every run. -/
namespace Witness

def schema : Schema :=
  [((0, "name"), ⟨false, false, none⟩), ((0, "size"), ⟨false, false, none⟩),
   ((1, "name"), ⟨false, false, none⟩), ((1, "size"), ⟨false, false, none⟩),
   ((2, "handle"), ⟨false, false, some 0⟩), ((2, "size"), ⟨false, false, none⟩),
   ((2, "tags"), ⟨false, true, none⟩), ((2, "spare"), ⟨true, true, some 0⟩),
   ((3, "handle"), ⟨false, false, some 0⟩), ((3, "size"), ⟨false, false, none⟩),
   ((3, "tags"), ⟨false, true, none⟩), ((3, "spare"), ⟨true, true, some 0⟩), ((3, "depth"), ⟨false, false, none⟩),
   ((4, "name"), ⟨false, false, none⟩), ((4, "main"), ⟨false, false, some 2⟩),
   ((4, "drawers"), ⟨true, true, some 2⟩), ((4, "tags"), ⟨false, true, none⟩)]

def world : World :=
  ⟨[⟨0, [("name", .int 0), ("size", .int 0)], true⟩,
    ⟨2, [("handle", .obj 0), ("size", .int 0), ("tags", .list []), ("spare", .objs [])], false⟩,
    ⟨3, [("handle", .obj 0), ("size", .int 1), ("tags", .list []), ("spare", .objs []), ("depth", .int 1)], false⟩,
    ⟨4, [("name", .int 0), ("main", .obj 1), ("drawers", .objs [1]), ("tags", .list [1])], false⟩,
    ⟨4, [("name", .int 1), ("main", .obj 2), ("drawers", .objs [1]), ("tags", .list [])], false⟩,
    ⟨4, [("name", .int 1), ("main", .obj 1), ("drawers", .objs []), ("tags", .list [])], false⟩],
   [], [(1, 0), (3, 2)]⟩

def dom : List Val := [.obj 3, .obj 4, .obj 5]

/-- `entity_matching(Cabinet, dom)(drawers=match_any([o1]))` -/
def anyDedup : Pat := .mk (some 4) false (.cons "drawers" (.coll (.objs [1]) true false false) .nil)
/-- `entity_selection(Cabinet, dom)(main=select(Drawer)())` -/
def crossProduct : Pat := .mk (some 4) true (.cons "main" (.nested (.mk (some 2) true .nil)) .nil)
/-- `entity_matching(Cabinet, dom)(tags=1)` -/
def builtinCollection : Pat := .mk (some 4) false (.cons "tags" (.lit (.int 1)) .nil)
/-- `entity_matching(Cabinet, dom)(main=match(BigDrawer)(depth=1))` -/
def subclassAttribute : Pat :=
  .mk (some 4) false (.cons "main" (.nested (.mk (some 3) false (.cons "depth" (.lit (.int 1)) .nil))) .nil)
/-- `entity_matching(Cabinet, dom)(drawers=match(Drawer)())` -/
def lazyFlatten : Pat := .mk (some 4) false (.cons "drawers" (.nested (.mk (some 2) false .nil)) .nil)
/-- `entity_matching(Cabinet, dom)(drawers=match_all([]))` -/
def falsyValue : Pat := .mk (some 4) false (.cons "drawers" (.coll (.objs []) false true false) .nil)
/-- `entity_matching(Cabinet, dom)(name="n1", drawers=match(Drawer)(size=0))`: inside the proved fragment -/
def inScope : Pat :=
  .mk (some 4) false (.cons "name" (.lit (.int 1))
    (.cons "drawers" (.nested (.mk (some 2) false (.cons "size" (.lit (.int 0)) .nil))) .nil))

end Witness

open Witness in
/-- **C11_cex_any_dedup** (F-C11-1). Two cabinets hold equal drawer lists; `match_any` returns only the first:
`Exists` remembers the VALUE of `cabinet.drawers`. With `Exists` keyed on the matched element both are returned. -/
theorem C11_cex_any_dedup :
    triggers world schema anyDedup = ["F-C11-1"] ∧
    run world Quirks.today schema dom anyDedup = some [[.obj 3]] ∧
    specRows world dom anyDedup = [[.obj 3], [.obj 4]] ∧
    run world Quirks.fixed schema dom anyDedup = some [[.obj 3], [.obj 4]] := by decide

open Witness in
/-- **C11_cex_cross_product** (F-C11-2). A selected inner part without any condition: root and part are evaluated
independently, the answer is their cross product instead of the three consistent pairs. -/
theorem C11_cex_cross_product :
    triggers world schema crossProduct = ["F-C11-2"] ∧
    run world Quirks.today schema dom crossProduct =
      some [[.obj 3, .obj 1], [.obj 3, .obj 2], [.obj 3, .obj 1], [.obj 4, .obj 1], [.obj 4, .obj 2],
        [.obj 4, .obj 1], [.obj 5, .obj 1], [.obj 5, .obj 2], [.obj 5, .obj 1]] ∧
    specRows world dom crossProduct = [[.obj 3, .obj 1], [.obj 4, .obj 2], [.obj 5, .obj 1]] ∧
    run world Quirks.fixed schema dom crossProduct = some [[.obj 3, .obj 1], [.obj 4, .obj 2], [.obj 5, .obj 1]] := by
  decide

open Witness in
/-- **C11_cex_builtin_collection** (F-C11-3). `tags: List[int]` is not an iterable attribute for the engine:
`tags=1` compares the list with `1` instead of testing membership. -/
theorem C11_cex_builtin_collection :
    triggers world schema builtinCollection = ["F-C11-3"] ∧
    run world Quirks.today schema dom builtinCollection = some [] ∧
    specRows world dom builtinCollection = [[.obj 3]] ∧
    run world Quirks.fixed schema dom builtinCollection = some [[.obj 3]] := by decide

open Witness in
/-- **C11_cex_subclass_attribute** (F-C11-4). An attribute that only the matched subclass has cannot be constrained:
construction raises `NoneWrappedFieldError` (`run = none`). -/
theorem C11_cex_subclass_attribute :
    triggers world schema subclassAttribute = ["F-C11-4"] ∧
    run world Quirks.today schema dom subclassAttribute = none ∧
    specRows world dom subclassAttribute = [[.obj 4]] ∧
    run world Quirks.fixed schema dom subclassAttribute = some [[.obj 4]] := by decide

open Witness in
/-- **C11_cex_lazy_flatten** (F-C11-5). A nested match that contributes no condition does not ask the collection for an
element: the cabinet without drawers is returned. -/
theorem C11_cex_lazy_flatten :
    triggers world schema lazyFlatten = ["F-C11-5"] ∧
    run world Quirks.today schema dom lazyFlatten = some [[.obj 3], [.obj 4], [.obj 5]] ∧
    specRows world dom lazyFlatten = [[.obj 3], [.obj 4]] ∧
    run world Quirks.fixed schema dom lazyFlatten = some [[.obj 3], [.obj 4]] := by decide

open Witness in
/-- **C11_cex_falsy_value** (F-C11-6). `match_all([])`: the empty list is falsy and is taken for "no type"; every
cabinet is returned instead of the one without drawers. -/
theorem C11_cex_falsy_value :
    triggers world schema falsyValue = ["F-C11-6"] ∧
    run world Quirks.today schema dom falsyValue = some [[.obj 3], [.obj 4], [.obj 5]] ∧
    specRows world dom falsyValue = [[.obj 5]] ∧
    run world Quirks.fixed schema dom falsyValue = some [[.obj 5]] := by decide

/-! non-vacuity of `C11_equiv_partial`: a nested pattern with a non-empty, non-total answer satisfies every hypothesis -/
open Witness in
example : conformsB world schema = true ∧ inScope.wf schema world.subclass = true ∧
    triggers world schema inScope = [] ∧ inScope.nSel = 0 ∧
    run world Quirks.today schema dom inScope = some [[.obj 4]] ∧ specRows world dom inScope = [[.obj 4]] := by
  decide

open Witness in
example : ∃ rows, run world Quirks.today schema dom inScope = some rows ∧
    ∀ r, r ∈ rows ↔ r ∈ specRows world dom inScope :=
  C11_model_eq_spec_partial world schema dom 4 false _ (by decide) (by decide) (by decide) (by decide)

/-! non-vacuity of `C11_full`: the witness of F-C11-1 satisfies every hypothesis, and the keyed engine returns both
cabinets -/
open Witness in
example : conformsB world schema = true ∧ anyDedup.wf schema world.subclass = true ∧
    anyDedup.trigBuiltinColl schema = false ∧ anyDedup.trigLazyFlatten schema world.subclass = false ∧
    anyDedup.trigFalsyValue = false ∧ anyDedup.nSel = 0 ∧
    run world Quirks.keyed schema dom anyDedup = some [[.obj 3], [.obj 4]] := by decide

open Witness in
example : ∃ rows, run world Quirks.keyed schema dom anyDedup = some rows ∧
    ∀ r, r ∈ rows ↔ ∃ x ∈ dom, r = [x] ∧ matchesPat world anyDedup x = true :=
  C11_full world schema dom 4 false _ (by decide) (by decide) (by decide) (by decide) (by decide) (by decide)

/-! ## the code after the fix commits for F-C11-3 … F-C11-6 (`Quirks.now`)

The fixes change `desugar` only on the shapes of those findings: outside the six trigger shapes `desugar Quirks.now`
builds the very query `desugar Quirks.today` builds (given a schema in which a subclass lists the fields of its
superclasses), and evaluation does not look at the changed flags. Hence `C11_equiv_partial` and `C11_full` speak about
the code as it is now (`model=` of the driver is `run … Quirks.now`). -/

/-- a subclass has every field of its superclasses, with the same description -/
def schemaInheritsB (s : Schema) (sub : List (Nat × Nat)) : Bool :=
  sub.all fun cd => s.all fun e => e.1.1 != cd.2 || s.lookup (cd.1, e.1.2) == some e.2

theorem inherits_of_B {s : Schema} {sub : List (Nat × Nat)} (h : schemaInheritsB s sub = true) {c d : Nat}
    (hcd : sub.contains (c, d) = true) {n : AttrName} {fi : FieldInfo} (hl : s.lookup (d, n) = some fi) :
    s.lookup (c, n) = some fi := by
  simp only [schemaInheritsB, List.all_eq_true] at h
  have hm : (c, d) ∈ sub := by simpa using hcd
  have := h (c, d) hm ((d, n), fi) (mem_of_lookup hl)
  simpa using this

theorem existsFilter_congr (w : World) {Q Q' : Quirks} (h : Q.existsByValue = Q'.existsByValue) (q : MTerm) :
    ∀ (rs : List (Env × Bool)) (seen : List (Val × List (Option Val))),
      existsFilter w Q q rs seen = existsFilter w Q' q rs seen := by
  intro rs
  induction rs with
  | nil => intro seen; rfl
  | cons r rs ih =>
    intro seen
    obtain ⟨e, t⟩ := r
    simp only [existsFilter, h, ih]

theorem evalCond_congr (w : World) {Q Q' : Quirks} (h : Q.existsByValue = Q'.existsByValue) (dom : List Val) :
    ∀ (c : Cond) (env : Env), evalCond w Q dom c env = evalCond w Q' dom c env := by
  intro c
  induction c with
  | eq _ _ => intro env; rfl
  | litIn _ _ => intro env; rfl
  | inLit _ _ => intro env; rfl
  | hasType _ _ => intro env; rfl
  | ex q c ih => intro env; simp only [evalCond, ih, existsFilter_congr w h]
  | and l r ihl ihr => intro env; simp only [evalCond, ihl, ihr]

theorem evalQuery_congr (w : World) {Q Q' : Quirks} (h1 : Q.existsByValue = Q'.existsByValue)
    (h2 : Q.selIndependent = Q'.selIndependent) (dom : List Val) (q : MQuery) :
    evalQuery w Q dom q = evalQuery w Q' dom q := by
  simp only [evalQuery, h2, evalCond_congr w h1]

/-- a quirk setting in which the four fixes are in (whatever `Exists` and the selection do) -/
def Quirks.repaired (Q : Quirks) : Prop :=
  Q.relOnlyIterable = false ∧ Q.declaredOwner = false ∧ Q.lazyFlatten = false ∧ Q.falsyValueIsNoType = false

theorem inferCond_now (Q : Quirks) (hQ : Q.repaired) (fi : FieldInfo) (hrc : fi.rel = fi.coll) (a : MTerm) (l : Val)
    (iv un ex : Bool) :
    inferCond Q fi a l iv un ex = inferCond Quirks.today fi a l iv un ex := by
  simp [inferCond, FieldInfo.iter, hQ.1, Quirks.today, hrc]

mutual
theorem resolveAssigns_now (Q : Quirks) (hQ : Q.repaired) (s : Schema) (sub : List (Nat × Nat))
    (hinh : schemaInheritsB s sub = true) :
    (as : Assigns) → ∀ (owner owner' : Option Nat) (t : MTerm),
      (∀ n fi, fieldOf s owner n = some fi → fieldOf s owner' n = some fi) →
      as.wf s sub owner = true →
      as.trigBuiltinColl s owner = false →
      as.trigLazyFlatten s sub owner t = false →
      as.trigFalsyValue = false →
      resolveAssigns Q s sub owner' t as = resolveAssigns Quirks.today s sub owner t as
  | .nil, _, _, _, _, _, _, _, _ => by simp [resolveAssigns]
  | .cons n av rest, owner, owner', t, hown, hwf, hbc, hlf, hfv => by
    cases hf : fieldOf s owner n with
    | none => simp [Assigns.wf, hf] at hwf
    | some fi =>
      simp only [Assigns.wf, hf, Bool.and_eq_true, Bool.not_eq_true', Bool.or_eq_true] at hwf
      obtain ⟨⟨_, hrc, hwfv⟩, hwfr⟩ := hwf
      simp only [Assigns.trigBuiltinColl, hf, Bool.or_eq_false_iff, Bool.and_eq_false_imp,
        Bool.not_eq_eq_eq_not, Bool.not_false] at hbc
      obtain ⟨⟨hcr, hbcv⟩, hbcr⟩ := hbc
      simp only [Assigns.trigLazyFlatten, hf, Bool.or_eq_false_iff] at hlf
      simp only [Assigns.trigFalsyValue, Bool.or_eq_false_iff] at hfv
      have hrel_coll : fi.rel = fi.coll := by
        cases hr : fi.rel <;> cases hc : fi.coll <;> simp_all
      rw [resolveAssigns, resolveAssigns]
      simp only [hf, hown n fi hf]
      rw [resolveVal_now Q hQ s sub hinh av fi (.attr t n) hrel_coll hwfv hbcv hlf.1 hfv.1,
        resolveAssigns_now Q hQ s sub hinh rest owner owner' t hown hwfr hbcr hlf.2 hfv.2]
theorem resolveVal_now (Q : Quirks) (hQ : Q.repaired) (s : Schema) (sub : List (Nat × Nat))
    (hinh : schemaInheritsB s sub = true) :
    (av : AVal) → ∀ (fi : FieldInfo) (a : MTerm),
      fi.rel = fi.coll →
      av.wf s sub fi = true →
      av.trigBuiltinColl s fi = false →
      av.trigLazyFlatten s sub fi a = false →
      av.trigFalsyValue = false →
      resolveVal Q s sub fi a av = resolveVal Quirks.today s sub fi a av
  | .lit l, fi, a, hrc, _, _, _, _ => by
    simp only [resolveVal, inferCond_now Q hQ fi hrc]
  | .coll l ex un sel, fi, a, hrc, _, _, _, hfv => by
    simp only [AVal.trigFalsyValue, Bool.not_eq_eq_eq_not, Bool.not_false] at hfv
    simp only [resolveVal, hfv, Bool.not_true, Bool.and_false, Bool.false_eq_true, if_false,
      inferCond_now Q hQ fi hrc]
  | .nested (.mk cls sel as), fi, a, hrc, hwf, hbc, hlf, hfv => by
    simp only [AVal.wf, Bool.and_eq_true] at hwf
    obtain ⟨⟨hty, hcompat⟩, hwfa⟩ := hwf
    obtain ⟨d, hd⟩ := Option.isSome_iff_exists.1 hty
    simp only [AVal.trigBuiltinColl, Bool.or_eq_false_iff] at hbc
    simp only [AVal.trigLazyFlatten, Bool.or_eq_false_iff] at hlf
    obtain ⟨hlf1, hlfa⟩ := hlf
    simp only [AVal.trigFalsyValue] at hfv
    -- the nested node is the same: a relationship collection is flattened in both (its conditions are not empty)
    have hnode : nestedNode Q sub fi a cls as = nestedNode Quirks.today sub fi a cls as := by
      rw [nestedNode_today]
      cases hr : fi.rel with
      | false =>
        simp [nestedNode, FieldInfo.iter, hQ.1, hQ.2.2.1, isFlattened, hr, ← hrc]
      | true =>
        simp only [hr, Bool.true_and] at hlf1
        have := isFlattened_of_conds (a := a) (sel := sel) hr hlf1
        simp [nestedNode, FieldInfo.iter, hQ.1, hQ.2.2.1, this, ← hrc, hr]
    -- the kwargs are looked up on the matched subclass, which has the fields of the declared type
    have hown : ∀ n fi', fieldOf s fi.type n = some fi' →
        fieldOf s (if typeFilterNeeded sub fi.type cls then cls else fi.type) n = some fi' := by
      intro n fi' h
      cases hneed : typeFilterNeeded sub fi.type cls with
      | false => simpa using h
      | true =>
        cases cls with
        | none => simp [typeFilterNeeded, hd] at hneed
        | some c =>
          simp only [hd, typeFilterNeeded, Bool.and_eq_true] at hneed
          simp only [if_true, fieldOf, hd] at h ⊢
          exact inherits_of_B hinh hneed.2 h
    have ih := resolveAssigns_now Q hQ s sub hinh as fi.type
      (if typeFilterNeeded sub fi.type cls then cls else fi.type)
      (nestedNode Quirks.today sub fi a cls as) hown hwfa hbc.1 hlfa hfv
    have hcs := resolveVal_nested_today s sub fi a cls sel as
    rw [hcs]
    unfold resolveVal
    have hd' : Q.declaredOwner = false := hQ.2.1
    have hl' : Q.lazyFlatten = false := hQ.2.2.1
    simp only [hd', hl', Bool.not_false, Bool.true_and, hnode, ih]
    cases h1 : resolveAssigns Quirks.today s sub fi.type (nestedNode Quirks.today sub fi a cls as) as with
    | none => rfl
    | some p1 =>
      obtain ⟨cs, ss⟩ := p1
      simp only
      -- the extra type check of an otherwise unconstrained element is not needed here: without a type filter
      -- `cs` is not empty (the shape of F-C11-5 is excluded)
      have hcsne : filtCls sub fi cls = none → (fi.iter Q && cs.isEmpty) = false := by
        intro hfc
        cases hr : fi.rel with
        | false => simp [FieldInfo.iter, hQ.1, ← hrc, hr]
        | true =>
          simp only [hr, Bool.true_and, condsOfVal, hcs, h1, filtConds, hfc, List.nil_append] at hlf1
          simp [hlf1]
      clear hcs ih hown hnode hlfa hlf1 hbc hcompat
      simp only [filtConds, filtCls] at hcsne ⊢
      cases cls with
      | none =>
        cases hneed : typeFilterNeeded sub fi.type none <;> simp only [hneed, forall_const] at hcsne ⊢ <;>
          simp [hcsne]
      | some c =>
        cases hneed : typeFilterNeeded sub fi.type (some c) with
        | true => rfl
        | false => simp only [hneed, forall_const] at hcsne ⊢; simp [hcsne]
end

theorem desugar_now (Q : Quirks) (hQ : Q.repaired) (s : Schema) (sub : List (Nat × Nat))
    (hinh : schemaInheritsB s sub = true) (T : Nat)
    (rootSel : Bool) (as : Assigns) (hwf : as.wf s sub (some T) = true)
    (hbc : as.trigBuiltinColl s (some T) = false) (hlf : as.trigLazyFlatten s sub (some T) .root = false)
    (hfv : as.trigFalsyValue = false) :
    desugar Q s sub (.mk (some T) rootSel as) = desugar Quirks.today s sub (.mk (some T) rootSel as) := by
  simp only [desugar, resolveAssigns_now Q hQ s sub hinh as (some T) (some T) .root (fun _ _ h => h) hwf hbc hlf hfv]

/-- **C11_equiv_partial_now.** `C11_equiv_partial` for the code after the fix commits (`Quirks.now`, the driver's
`model=`): same hypotheses (the six shapes stay outside the proved fragment; on the repaired shapes the equivalence
is checked by the correspondence only), plus the schema lists inherited fields for subclasses. -/
theorem C11_equiv_partial_now (w : World) (s : Schema) (dom : List Val) (T : Nat) (rootSel : Bool) (as : Assigns)
    (hinh : schemaInheritsB s w.subclass = true)
    (hconf : conformsB w s = true)
    (hwf : (Pat.mk (some T) rootSel as).wf s w.subclass = true)
    (hclean : triggers w s (.mk (some T) rootSel as) = [])
    (hnosel : as.nSel = 0) :
    ∃ rows, run w Quirks.now s dom (.mk (some T) rootSel as) = some rows ∧
      ∀ r, r ∈ rows ↔ ∃ x ∈ dom, r = [x] ∧ matchesPat w (.mk (some T) rootSel as) x = true := by
  have hclean' := hclean
  simp only [triggers, List.append_eq_nil_iff, ite_singleton_eq_nil] at hclean'
  obtain ⟨⟨⟨⟨⟨_, _⟩, hbc⟩, _⟩, hlf⟩, hfv⟩ := hclean'
  have hwf' := hwf
  simp only [Pat.wf, Option.isSome_some, Bool.true_and] at hwf'
  have hrun : run w Quirks.now s dom (.mk (some T) rootSel as) =
      run w Quirks.today s dom (.mk (some T) rootSel as) := by
    simp only [run, desugar_now Quirks.now ⟨rfl, rfl, rfl, rfl⟩ s w.subclass hinh T rootSel as hwf' hbc hlf hfv]
    congr 1
    funext q
    exact evalQuery_congr w (Q := Quirks.now) (Q' := Quirks.today) rfl rfl dom q
  rw [hrun]
  exact C11_equiv_partial w s dom T rootSel as hconf hwf hclean hnosel

/-- the code after the fix commits with, in addition, `Exists` keyed on the matched element (F-C11-1 repaired too) -/
def Quirks.nowKeyed : Quirks := { Quirks.now with existsByValue := false }

/-- **C11_full_now.** `C11_full` for the code after the fix commits: with `Exists` keyed on the matched element the
equivalence holds for every well-formed pattern outside the shapes F-C11-3/5/6, existential matches included. -/
theorem C11_full_now (w : World) (s : Schema) (dom : List Val) (T : Nat) (rootSel : Bool) (as : Assigns)
    (hinh : schemaInheritsB s w.subclass = true)
    (hconf : conformsB w s = true)
    (hwf : (Pat.mk (some T) rootSel as).wf s w.subclass = true)
    (hbc : (Pat.mk (some T) rootSel as).trigBuiltinColl s = false)
    (hlf : (Pat.mk (some T) rootSel as).trigLazyFlatten s w.subclass = false)
    (hfv : (Pat.mk (some T) rootSel as).trigFalsyValue = false)
    (hnosel : as.nSel = 0) :
    ∃ rows, run w Quirks.nowKeyed s dom (.mk (some T) rootSel as) = some rows ∧
      ∀ r, r ∈ rows ↔ ∃ x ∈ dom, r = [x] ∧ matchesPat w (.mk (some T) rootSel as) x = true := by
  have hwf' := hwf
  simp only [Pat.wf, Option.isSome_some, Bool.true_and] at hwf'
  have hrun : run w Quirks.nowKeyed s dom (.mk (some T) rootSel as) =
      run w Quirks.keyed s dom (.mk (some T) rootSel as) := by
    simp only [run, desugar_now Quirks.nowKeyed ⟨rfl, rfl, rfl, rfl⟩ s w.subclass hinh T rootSel as hwf'
      (by simpa [Pat.trigBuiltinColl] using hbc) (by simpa [Pat.trigLazyFlatten] using hlf)
      (by simpa [Pat.trigFalsyValue] using hfv), ← desugar_keyed]
    congr 1
    funext q
    exact evalQuery_congr w (Q := Quirks.nowKeyed) (Q' := Quirks.keyed) rfl rfl dom q
  rw [hrun]
  exact C11_full w s dom T rootSel as hconf hwf hbc hlf hfv hnosel

/-! the witnesses of the repaired findings F-C11-3 … F-C11-6: the model of the code after the fixes meets the
specification on each of them (tests by `decide`), and `C11_equiv_partial_now` is not vacuous -/
open Witness in
example : schemaInheritsB schema world.subclass = true ∧
    run world Quirks.now schema dom builtinCollection = some (specRows world dom builtinCollection) ∧
    run world Quirks.now schema dom subclassAttribute = some (specRows world dom subclassAttribute) ∧
    run world Quirks.now schema dom lazyFlatten = some (specRows world dom lazyFlatten) ∧
    run world Quirks.now schema dom falsyValue = some (specRows world dom falsyValue) ∧
    openTriggers world schema builtinCollection = [] ∧ openTriggers world schema subclassAttribute = [] ∧
    openTriggers world schema lazyFlatten = [] ∧ openTriggers world schema falsyValue = [] ∧
    openTriggers world schema anyDedup = ["F-C11-1"] ∧ openTriggers world schema crossProduct = ["F-C11-2"] := by
  decide

open Witness in
example : ∃ rows, run world Quirks.now schema dom inScope = some rows ∧
    ∀ r, r ∈ rows ↔ ∃ x ∈ dom, r = [x] ∧ matchesPat world inScope x = true :=
  C11_equiv_partial_now world schema dom 4 false _ (by decide) (by decide) (by decide) (by decide) (by decide)

/-! ## re-evaluation of one query object over changing data -/

/-- **C11_history_independent.** The answers of the successive evaluations of one query object are the answers of
`run` on the successive data states: the k-th answer depends on the data at that time only, not on earlier
evaluations or on what the data used to be. -/
theorem C11_history_independent (Q : Quirks) (s : Schema) (dom : List Val) (p : Pat) :
    ∀ (steps : List (List Edit)) (w : World),
      runSeq Q s dom p w steps = (worlds w steps).map fun w' => run w' Q s dom p := by
  intro steps
  induction steps with
  | nil => intro w; rfl
  | cons st rest ih => intro w; simp only [runSeq, worlds, List.map_cons, ih]

theorem foldl_applyEdit_filter_peek (st : List Edit) :
    ∀ w : World, (st.filter fun e => !e.isPeek).foldl applyEdit w = st.foldl applyEdit w := by
  induction st with
  | nil => intro w; rfl
  | cons e st ih =>
    intro w
    have hp : ∀ k, (Edit.peek k).isPeek = true := fun _ => rfl
    have hs : ∀ i n v, (Edit.set i n v).isPeek = false := fun _ _ _ => rfl
    have hn : ∀ o, (Edit.new o).isPeek = false := fun _ => rfl
    have hf : ∀ i, (Edit.free i).isPeek = false := fun _ => rfl
    cases e <;> simp only [List.filter_cons, hp, hs, hn, hf, Bool.not_false, Bool.not_true, if_true,
      Bool.false_eq_true, if_false, List.foldl_cons, applyEdit, ih]

/-- **C11_abandoned_irrelevant.** Evaluations of the same query object that are started and abandoned after any number
of results (`Edit.peek`; at any point of any step, over a domain given as a list or as a one-shot generator) do not
change any later answer: the history with every abandoned evaluation removed has the same answers. With
`C11_history_independent` the k-th answer is `run` on the k-th world, domain contents unchanged. -/
theorem C11_abandoned_irrelevant (Q : Quirks) (s : Schema) (dom : List Val) (p : Pat) :
    ∀ (steps : List (List Edit)) (w : World),
      runSeq Q s dom p w (steps.map fun st => st.filter fun e => !e.isPeek) = runSeq Q s dom p w steps := by
  intro steps
  induction steps with
  | nil => intro w; rfl
  | cons st rest ih => intro w; simp only [List.map_cons, runSeq, foldl_applyEdit_filter_peek, ih]

theorem mem_zip_map {α β} (f : α → β) : ∀ (l : List α) (a : α × β), a ∈ l.zip (l.map f) → a.2 = f a.1 := by
  intro l
  induction l with
  | nil => intro a h; simp at h
  | cons x l ih =>
    intro a h
    simp only [List.map_cons, List.zip_cons_cons, List.mem_cons] at h
    rcases h with h | h
    · subst h; rfl
    · exact ih a h

/-- hence every evaluation in the sequence returns exactly the elements that match in the data of that moment
(`C11_equiv_partial` at each state that conforms to the schema) -/
theorem C11_seq_equiv_partial (s : Schema) (dom : List Val) (T : Nat) (rootSel : Bool) (as : Assigns)
    (steps : List (List Edit)) (w0 : World) (hnosel : as.nSel = 0) :
    ∀ a ∈ (worlds w0 steps).zip (runSeq Quirks.today s dom (.mk (some T) rootSel as) w0 steps),
      conformsB a.1 s = true → (Pat.mk (some T) rootSel as).wf s a.1.subclass = true →
      triggers a.1 s (.mk (some T) rootSel as) = [] →
      ∃ rows, a.2 = some rows ∧
        ∀ r, r ∈ rows ↔ ∃ x ∈ dom, r = [x] ∧ matchesPat a.1 (.mk (some T) rootSel as) x = true := by
  intro a ha hconf hwf hclean
  rw [C11_history_independent] at ha
  rw [mem_zip_map _ _ a ha]
  exact C11_equiv_partial a.1 s dom T rootSel as hconf hwf hclean hnosel

end KrroodVerif.Match
