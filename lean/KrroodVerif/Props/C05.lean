import KrroodVerif.Model.Dao
import KrroodVerif.Props.C04
/-!
# C05 — persisting to SQL and reloading in a fresh session restores the object graph

Property theorems about the relational store of M-DAO (`Dao.flush`, `Dao.load`, `Dao.persistReload` in
`Model/Dao.lean`): rows, foreign keys, association rows, discriminator, with SQLAlchemy's direction inference as the
parameter `dir`. What the theorems are about is ORMatic's row/FK logic under the stated assumptions on SQLAlchemy; the
unit of work, SQL emission and SQLite themselves are runtime the model cannot exhibit (validated by the correspondence).
-/
namespace KrroodVerif.Dao

/-! ## List facts -/

theorem flatten_single {α : Type} : ∀ (L : List (List α)) (i : Nat) (x : List α), L[i]? = some x →
    (∀ j y, j ≠ i → L[j]? = some y → y = []) → L.flatten = x
  | [], i, x, h, _ => by simp at h
  | a :: L, 0, x, h, hz => by
    simp only [List.getElem?_cons_zero, Option.some.injEq] at h
    subst h
    have : L.flatten = [] := by
      rw [List.flatten_eq_nil_iff]
      intro l hl
      obtain ⟨j, hj⟩ := List.mem_iff_getElem?.1 hl
      exact hz (j + 1) l (by omega) (by simpa using hj)
    simp [this]
  | a :: L, i + 1, x, h, hz => by
    have ha : a = [] := hz 0 a (by omega) (by simp)
    subst ha
    simp only [List.flatten_cons, List.nil_append]
    apply flatten_single L i x (by simpa using h)
    intro j y hj hy
    exact hz (j + 1) y (by omega) (by simpa using hy)

theorem filterMap_map_some {α β : Type} (f : α → β) (g : β → Option α) :
    ∀ (l : List α), (∀ a ∈ l, g (f a) = some a) → (l.map f).filterMap g = l
  | [], _ => rfl
  | a :: l, h => by
    simp only [List.map_cons, List.filterMap_cons, h a List.mem_cons_self]
    rw [filterMap_map_some f g l (fun b hb => h b (List.mem_cons_of_mem _ hb))]

/-! ## `load ∘ flush` -/

/-- every non-null single reference lies in a field whose relationship is MANYTOONE -/
def NoO2M (dir : FieldMeta → Dir) (dh : Heap) : Prop :=
  ∀ n ∈ dh, ∀ (k t : Nat), n.refs[k]? = some (Ref.one t) → dir (fieldOf n k) = .manyToOne

/-- no collection holds the same object twice -/
def NoDup (dh : Heap) : Prop :=
  ∀ n ∈ dh, ∀ (k : Nat) (ts : List Nat), n.refs[k]? = some (Ref.many ts) → dedupNat ts = ts

theorem o2mWrites_nil {dir : FieldMeta → Dir} {dh : Heap} (hno : NoO2M dir dh) (s : Nat) :
    o2mWrites dir dh s = [] := by
  unfold o2mWrites
  cases hs : dh[s]? with
  | none => rfl
  | some n =>
    simp only
    rw [List.flatten_eq_nil_iff]
    intro l hl
    obtain ⟨k, hk, rfl⟩ := List.mem_mapIdx.1 hl
    have hn : n ∈ dh := List.mem_of_getElem? hs
    cases hr : n.refs[k] with
    | none => rfl
    | many ts => rfl
    | one t =>
      have : n.refs[k]? = some (.one t) := by rw [List.getElem?_eq_getElem hk, hr]
      simp [hno n hn k t this]

theorem flush_rows {dir : FieldMeta → Dir} {dh : Heap} (hno : NoO2M dir dh) (order : List Nat) :
    (flush dir order dh).rows = dh.mapIdx (rowOf dir) := by
  have : order.flatMap (o2mWrites dir dh) = [] := by
    rw [List.flatMap_eq_nil_iff]; intro s _; exact o2mWrites_nil hno s
  simp [flush, this]

theorem posOf_rows (dir : FieldMeta → Dir) (dh : Heap) (t : Nat) (ht : t < dh.length) :
    posOf (dh.mapIdx (rowOf dir)) (rowId t) = some t := by
  unfold posOf
  have hlen : (dh.mapIdx (rowOf dir)).length = dh.length := List.length_mapIdx
  have hidx : (dh.mapIdx (rowOf dir)).findIdx (fun r => r.id == rowId t) = t := by
    rw [List.findIdx_eq (by omega)]
    constructor
    · simp [rowOf]
    · intro j hj
      simp [rowOf, rowId]; omega
  simp only [hidx, hlen, ht, if_true]

theorem cells_rowOf (dir : FieldMeta → Dir) (j : Nat) (n : Node) (k : Nat) :
    (rowOf dir j n).cells[k]? = (n.refs[k]?).map (cellOf dir (fieldOf n k)) := by
  simp [rowOf, List.getElem?_mapIdx]

/-- the association rows of source `i`, field `k`, in insertion order, resolve to exactly the list that was stored -/
theorem assoc_lookup (dir : FieldMeta → Dir) (dh : Heap) (hwf : dh.WF) (i : Nat) (n : Node) (hn : dh[i]? = some n)
    (k : Nat) (ts : List Nat) (hk : n.refs[k]? = some (.many ts)) :
    (((dh.mapIdx assocOf).flatten.filter fun a => a.left == rowId i && a.fld == k).filterMap
        fun a => posOf (dh.mapIdx (rowOf dir)) a.right) = ts := by
  rw [List.filter_flatten, List.filterMap_flatten]
  have hnm : n ∈ dh := List.mem_of_getElem? hn
  have hts : ∀ t ∈ ts, t < dh.length := by
    intro t ht
    apply hwf n hnm t
    simp only [Node.targets, List.mem_flatMap]
    exact ⟨.many ts, List.mem_of_getElem? hk, by simpa [Ref.targets] using ht⟩
  apply flatten_single _ i
  · simp only [List.getElem?_map, List.getElem?_mapIdx, hn, Option.map_some]
    congr 1
    -- the rows written by node i itself
    unfold assocOf
    rw [List.filter_flatten, List.filterMap_flatten]
    apply flatten_single _ k
    · simp only [List.getElem?_map, List.getElem?_mapIdx, hk, Option.map_some]
      congr 1
      rw [List.filter_eq_self.2]
      · apply filterMap_map_some
        intro t ht
        exact posOf_rows dir dh t (hts t ht)
      · intro a ha
        obtain ⟨t, _, rfl⟩ := List.mem_map.1 ha
        simp
    · intro k' y hk' hy
      simp only [List.getElem?_map, List.getElem?_mapIdx] at hy
      cases hr : n.refs[k']? with
      | none => simp [hr] at hy
      | some r =>
        simp only [hr, Option.map_some, Option.some.injEq] at hy
        subst hy
        cases r with
        | none => rfl
        | one t => rfl
        | many ts' =>
          have : (List.filter (fun a => a.left == rowId i && a.fld == k)
              (ts'.map fun t => ({ table := (fieldOf n k').name, left := rowId i, fld := k', right := rowId t } : Assoc))) = [] := by
            rw [List.filter_eq_nil_iff]
            intro a ha
            obtain ⟨t, _, rfl⟩ := List.mem_map.1 ha
            simp [hk']
          simp [this]
  · intro j y hj hy
    simp only [List.getElem?_map, List.getElem?_mapIdx] at hy
    cases hr : dh[j]? with
    | none => simp [hr] at hy
    | some n' =>
      simp only [hr, Option.map_some, Option.some.injEq] at hy
      subst hy
      have : List.filter (fun a => a.left == rowId i && a.fld == k) (assocOf j n') = [] := by
        rw [List.filter_eq_nil_iff]
        intro a ha
        unfold assocOf at ha
        obtain ⟨l, hl, hal⟩ := List.mem_flatten.1 ha
        obtain ⟨k', hk'lt, rfl⟩ := List.mem_mapIdx.1 hl
        cases hr' : n'.refs[k'] with
        | none => simp [hr'] at hal
        | one t => simp [hr'] at hal
        | many ts' =>
          simp only [hr', List.mem_map] at hal
          obtain ⟨t, _, rfl⟩ := hal
          simp [rowId, hj]
      simp [this]


theorem loadRef_cellOf (dir : FieldMeta → Dir) (dedup : Bool) (order : List Nat) (dh : Heap) (hwf : dh.WF)
    (hno : NoO2M dir dh) (hdup : dedup = true → NoDup dh) (i : Nat) (n : Node) (hn : dh[i]? = some n)
    (k : Nat) (r : Ref) (hr : n.refs[k]? = some r) :
    loadRef dir dedup (flush dir order dh) (rowOf dir i n) k (cellOf dir (fieldOf n k) r) = r := by
  have hrows := flush_rows hno order
  have hassoc : (flush dir order dh).assoc = (dh.mapIdx assocOf).flatten := rfl
  have hnm : n ∈ dh := List.mem_of_getElem? hn
  cases r with
  | none =>
    simp only [cellOf, loadRef]
    split
    · rfl
    · rename_i hdir
      have : (flush dir order dh).rows.findIdx? (fun t => decide (dir (fieldOf t.node k) = .oneToMany)
            && (fieldOf t.node k).name == (fieldOf (rowOf dir i n).node k).name
            && t.cells[k]? == some (.fk (some (rowOf dir i n).id))) = none := by
        rw [List.findIdx?_eq_none_iff, hrows]
        intro x hx
        obtain ⟨j, hj, rfl⟩ := List.mem_mapIdx.1 hx
        by_cases hd : dir (fieldOf (rowOf dir j dh[j]).node k) = .oneToMany
        · have hd' : dir (fieldOf dh[j] k) = .oneToMany := hd
          have hc : (rowOf dir j dh[j]).cells[k]? ≠ some (.fk (some (rowOf dir i n).id)) := by
            rw [cells_rowOf]
            cases hrk : dh[j].refs[k]? with
            | none => simp
            | some r' =>
              cases r' with
              | none => simp [cellOf]
              | many _ => simp [cellOf]
              | one t => simp [cellOf, hd']
          simp [hc]
        · simp [hd]
      rw [this]
  | one t =>
    have hd : dir (fieldOf n k) = .manyToOne := hno n hnm k t hr
    have ht : t < dh.length := by
      apply hwf n hnm t
      simp only [Node.targets, List.mem_flatMap]
      exact ⟨.one t, List.mem_of_getElem? hr, by simp [Ref.targets]⟩
    have hd' : dir (fieldOf (rowOf dir i n).node k) = .manyToOne := hd
    simp only [cellOf, hd, if_true, loadRef, hd', hrows, posOf_rows dir dh t ht]
  | many ts =>
    have hX := assoc_lookup dir dh hwf i n hn k ts hr
    have hid : (rowOf dir i n).id = rowId i := rfl
    simp only [cellOf, loadRef, hrows, hassoc, hid, hX]
    cases dedup with
    | false => rfl
    | true => simp [hdup rfl n hnm k ts hr]

/-- `load ∘ flush` is the identity on every well-formed DAO heap in which every non-null single reference is stored
MANYTOONE and (when the loader returns each related row once) no collection holds an object twice -/
theorem load_flush (dir : FieldMeta → Dir) (dedup : Bool) (order : List Nat) (dh : Heap) (hwf : dh.WF)
    (hno : NoO2M dir dh) (hdup : dedup = true → NoDup dh) :
    load dir dedup (flush dir order dh) = dh := by
  apply List.ext_getElem?
  intro i
  unfold load
  rw [List.getElem?_map, flush_rows hno order, List.getElem?_mapIdx]
  cases hi : dh[i]? with
  | none => rfl
  | some n =>
    simp only [Option.map_some, Option.some.injEq]
    have hrefs : (rowOf dir i n).cells.mapIdx (loadRef dir dedup (flush dir order dh) (rowOf dir i n)) = n.refs := by
      apply List.ext_getElem?
      intro k
      rw [List.getElem?_mapIdx, cells_rowOf]
      cases hk : n.refs[k]? with
      | none => rfl
      | some r =>
        simp only [Option.map_some, Option.some.injEq]
        exact loadRef_cellOf dir dedup order dh hwf hno hdup i n hi k r hk
    rw [hrefs]
    obtain ⟨lab, kind, view, tabs, fields, refs⟩ := n
    rfl



/-! ## One row per object -/

theorem applyWrite_ids (rows : List Row) (w : Nat × Nat × Nat) :
    (applyWrite rows w).map (·.id) = rows.map (·.id) := by
  apply List.ext_getElem?
  intro j
  simp only [applyWrite, List.getElem?_map, List.getElem?_modify]
  cases rows[j]? with
  | none => rfl
  | some r => by_cases hw : w.1 = j <;> simp [hw]

theorem foldl_applyWrite_ids (ws : List (Nat × Nat × Nat)) :
    ∀ rows : List Row, (ws.foldl applyWrite rows).map (·.id) = rows.map (·.id) := by
  induction ws with
  | nil => intro rows; rfl
  | cons w ws ih => intro rows; simp only [List.foldl_cons]; rw [ih, applyWrite_ids]

theorem rows0_ids (dir : FieldMeta → Dir) (dh : Heap) :
    (dh.mapIdx (rowOf dir)).map (·.id) = (List.range dh.length).map rowId := by
  apply List.ext_getElem?
  intro j
  simp only [List.getElem?_map, List.getElem?_mapIdx]
  by_cases hj : j < dh.length
  · simp [hj, rowOf]
  · simp [hj]

theorem flush_ids (dir : FieldMeta → Dir) (order : List Nat) (dh : Heap) :
    (flush dir order dh).rows.map (·.id) = (List.range dh.length).map rowId := by
  simp only [flush]
  rw [foldl_applyWrite_ids, rows0_ids]

/-- **C05_one_row_per_object.** After `to_dao` (any roots, one shared state) and a flush — for every direction
inference and every processing order — the memo is a one-to-one correspondence between the distinct converted objects
and the rows: one memo entry per object identity, exactly as many rows as entries, pairwise distinct primary keys,
object `o` is stored in row `d` (primary key `rowId d`) and in no other, however often it is referenced. -/
theorem C05_one_row_per_object (h : Heap) (roots droots : List Nat) (st : St) (dir : FieldMeta → Dir)
    (order : List Nat) (hrun : toDao h roots = some (droots, st)) :
    (st.memo.map Prod.fst).Nodup ∧
    (flush dir order st.out).rows.length = st.memo.length ∧
    ((flush dir order st.out).rows.map (·.id)).Nodup ∧
    (∀ o d, (o, d) ∈ st.memo → ((flush dir order st.out).rows.map (·.id))[d]? = some (rowId d)) ∧
    (∀ o o' d, (o, d) ∈ st.memo → (o', d) ∈ st.memo → o = o') ∧
    (∀ o d d', (o, d) ∈ st.memo → (o, d') ∈ st.memo → d = d') := by
  obtain ⟨_, _, honto, inv⟩ := toDao_wf h roots droots st hrun
  have hids := flush_ids dir order st.out
  have hlen : st.memo.length = st.out.length := by
    have := congrArg List.length honto
    simpa using this
  refine ⟨inv.keys, ?_, ?_, ?_, ?_, ?_⟩
  · have := congrArg List.length hids
    simp only [List.length_map, List.length_range] at this
    omega
  · rw [hids, List.nodup_iff_pairwise_ne, List.pairwise_map]
    have := List.nodup_iff_pairwise_ne.1 (List.nodup_range (n := st.out.length))
    exact this.imp (fun hne => by simp only [rowId]; omega)
  · intro o d hod
    have hd : d < st.out.length := inv.lt _ hod
    rw [hids]
    simp [hd]
  · intro o o' d h1 h2; exact nodup_snd_inj inv.vals h1 h2
  · intro o d d' h1 h2; exact nodup_fst_fun inv.keys h1 h2


/-! ## Store and reload -/

/-- **C05_store_load_partial.** Today's layer (direction inferred by SQLAlchemy, related rows returned once): for
every well-formed DAO graph with no non-null one-to-one reference into the source's own table hierarchy and no
collection holding an object twice, and for every processing order of the unit of work, `load ∘ flush` gives back
the DAO graph itself (row ids are position + 1, so "up to row ids" is equality here). -/
theorem C05_store_load_partial (order : List Nat) (dh : Heap) (hwf : dh.WF) (hno : NoO2M dirToday dh)
    (hdup : NoDup dh) : load dirToday true (flush dirToday order dh) = dh :=
  load_flush dirToday true order dh hwf hno (fun _ => hdup)

/-- **C05_store_load_fixed.** With `remote_side` generated (every single reference MANYTOONE) and collections
reloaded with multiplicity, `load ∘ flush` is the identity on EVERY well-formed DAO graph. -/
theorem C05_store_load_fixed (order : List Nat) (dh : Heap) (hwf : dh.WF) :
    load dirFixed false (flush dirFixed order dh) = dh :=
  load_flush dirFixed false order dh hwf (fun _ _ _ _ _ => rfl) (fun hf => by cases hf)

theorem posOf_rows_eq (dir : FieldMeta → Dir) (dh : Heap) (d p : Nat)
    (hp : posOf (dh.mapIdx (rowOf dir)) (rowId d) = some p) : p = d := by
  unfold posOf at hp
  simp only at hp
  split at hp
  · rename_i hlt
    cases hp
    have := List.findIdx_getElem (w := hlt)
    have hid : ∀ (j : Nat) (hj : j < (dh.mapIdx (rowOf dir)).length), (dh.mapIdx (rowOf dir))[j].id = rowId j := by
      intro j hj; simp [rowOf]
    rw [beq_iff_eq, hid] at this
    simp only [rowId] at this ⊢
    omega
  · cases hp

theorem filterMap_self {f : Nat → Option Nat} : ∀ (l : List Nat), (∀ d ∈ l, f d = some d ∨ f d = none) →
    (l.filterMap f).length = l.length → l.filterMap f = l
  | [], _, _ => rfl
  | d :: l, h, hl => by
    rcases h d List.mem_cons_self with hd | hd
    · simp only [List.filterMap_cons, hd, List.length_cons, Nat.add_right_cancel_iff] at hl ⊢
      rw [filterMap_self l (fun x hx => h x (List.mem_cons_of_mem _ hx)) hl]
    · simp only [List.filterMap_cons, hd, List.length_cons] at hl
      have := List.length_filterMap_le f l
      omega

/-- **C05_persist_reload_partial.** `to_dao` → add/commit → fresh session, load each root through any DAO class of
its chain → `from_dao` yields a graph isomorphic to the original, for every finite object graph, every list of roots
and every processing order, provided the mapping pairs round-trip and none of the three recorded deviations is
triggered (each condition is only needed while the corresponding quirk is on). -/
theorem C05_persist_reload_partial (q : StoreQuirks) (order : List Nat) (unmap : Label → Option Label) (via : Nat)
    (h : Heap) (roots rs' : List Nat) (h' : Heap) (db : DB) (hrt : RoundTrips unmap h)
    (hno : ∀ droots st, toDao h roots = some (droots, st) → NoO2M q.dir st.out)
    (hdup : q.dedup = true → ∀ droots st, toDao h roots = some (droots, st) → NoDup st.out)
    (hstale : q.stale = true → trigStale unmap h roots = false)
    (hrun : persistReload q order unmap via h roots = some (rs', h', db)) : Iso h roots h' rs' := by
  unfold persistReload at hrun
  split at hrun
  · cases hrun
  · rename_i droots st hto
    obtain ⟨hwf, _, _, _⟩ := toDao_wf h roots droots st hto
    have hno' := hno droots st hto
    have hlf : load q.dir q.dedup (flush q.dir order st.out) = st.out :=
      load_flush q.dir q.dedup order st.out hwf hno' (fun hd => hdup hd droots st hto)
    simp only [hlf] at hrun
    split at hrun
    · cases hrun
    · rename_i hlen
      have hlen' : (loadRoots (flush q.dir order st.out) st.out via droots).length = droots.length := by
        have := hlen
        simp only [bne_iff_ne, ne_eq, Decidable.not_not] at this
        exact this
      have hroots : loadRoots (flush q.dir order st.out) st.out via droots = droots := by
        unfold loadRoots at hlen' ⊢
        apply filterMap_self droots _ hlen'
        intro d _
        cases hd : st.out[d]? with
        | none => right; rfl
        | some n =>
          simp only
          unfold loadRoot
          rw [flush_rows hno' order]
          cases hp : posOf (st.out.mapIdx (rowOf q.dir)) (rowId d) with
          | none => right; rfl
          | some p =>
            have := posOf_rows_eq q.dir st.out d p hp
            subst this
            simp only
            split
            · split
              · left; rfl
              · right; rfl
            · right; rfl
      rw [hroots] at hrun
      split at hrun
      · cases hrun
      · rename_i oroots st2 hfrom
        simp only [Option.some.injEq, Prod.mk.injEq] at hrun
        obtain ⟨rfl, rfl, _⟩ := hrun
        have hrt' : roundTrip q.stale unmap h roots = some (oroots, st2) := by
          unfold roundTrip; simp only [hto]; exact hfrom
        cases hq : q.stale with
        | false => rw [hq] at hrt'; exact C04_full unmap h roots oroots st2 hrt hrt'
        | true => rw [hq] at hrt'; exact C04_roundtrip_partial unmap h roots oroots st2 hrt hrt' (hstale hq)

/-- **C05_canon_partial.** What the driver prints: outside the three triggers the canonical form of the reloaded
graph (`model=`, graph part) IS the canonical form of the input (`spec=`). -/
theorem C05_canon_partial (q : StoreQuirks) (order : List Nat) (unmap : Label → Option Label) (via : Nat)
    (h : Heap) (roots rs' : List Nat) (h' : Heap) (db : DB) (hrt : RoundTrips unmap h)
    (hno : ∀ droots st, toDao h roots = some (droots, st) → NoO2M q.dir st.out)
    (hdup : q.dedup = true → ∀ droots st, toDao h roots = some (droots, st) → NoDup st.out)
    (hstale : q.stale = true → trigStale unmap h roots = false)
    (hrun : persistReload q order unmap via h roots = some (rs', h', db)) : canon h' rs' = canon h roots :=
  (Iso_canon_eq (C05_persist_reload_partial q order unmap via h roots rs' h' db hrt hno hdup hstale hrun)).symm

/-! ### Counter-examples (tests on concrete witnesses = the witnesses of findings F-C05-1 and F-C05-3) -/

def nodeDao (parent : Ref) : Node :=
  { lab := ⟨"Node", ""⟩, kind := .plain, view := noView, tabs := ["NodeDAO", "SymbolDAO"],
    fields := [⟨true, "NodeDAO.parent_id"⟩], refs := [parent] }

/-- `root = Node(); a = Node(parent=root); b = Node(parent=root)` -/
def cexTree : Heap := [nodeDao .none, nodeDao (.one 0), nodeDao (.one 0)]

/-- **C05_cex_selfref.** `NodeDAO.parent` references the own table hierarchy, SQLAlchemy infers ONETOMANY, the single
foreign key cell of the parent row is written by both children: whichever the unit of work processes last keeps its
link, the other child comes back without a parent. With `remote_side` (MANYTOONE) the same graph is restored. -/
theorem C05_cex_selfref :
    trigSelfRef cexTree = true ∧ ¬ NoO2M dirToday cexTree ∧
    load dirToday true (flush dirToday [1, 2] cexTree) = [nodeDao .none, nodeDao .none, nodeDao (.one 0)] ∧
    load dirToday true (flush dirToday [2, 1] cexTree) = [nodeDao .none, nodeDao (.one 0), nodeDao .none] ∧
    load dirFixed true (flush dirFixed [1, 2] cexTree) = cexTree := by
  refine ⟨by decide, ?_, by decide, by decide, by decide⟩
  intro hno
  have := hno (nodeDao (.one 0)) (by simp [cexTree]) 0 0 rfl
  simp [fieldOf, nodeDao, dirToday] at this

def posDao : Node :=
  { lab := ⟨"Position", "x=f1.0,y=f2.0,z=f3.0"⟩, kind := .plain, view := noView, tabs := ["PositionDAO", "SymbolDAO"],
    fields := [], refs := [] }

/-- `Positions([p, p], [])` -/
def cexDup : Heap := [
  { lab := ⟨"Positions", "some_strings=[]"⟩, kind := .plain, view := noView, tabs := ["PositionsDAO", "SymbolDAO"],
    fields := [⟨false, "positionsdao_positions_association"⟩], refs := [.many [1, 1]] }, posDao]

/-- **C05_cex_duplicates.** Both association rows are written (row counts are right), but the relationship loader
returns the related row once: the list comes back with one element. -/
theorem C05_cex_duplicates :
    trigDup cexDup = true ∧ ¬ NoDup cexDup ∧
    (flush dirToday [] cexDup).assoc.length = 2 ∧
    (load dirToday true (flush dirToday [] cexDup))[0]?.map (·.refs) = some [.many [1]] ∧
    load dirToday false (flush dirToday [] cexDup) = cexDup := by
  refine ⟨by decide, ?_, by decide, by decide, by decide⟩
  intro hno
  have := hno cexDup[0] (by decide) 0 [1, 1] rfl
  revert this
  decide

/-! Non-vacuity (tests): the hypotheses of the theorems are met by non-trivial DAO graphs. -/

/-- a chain of two Nodes is *not* restorable by the hypothesis of the partial theorem, a Pose-like graph is -/
def exDaoHeap : Heap := [
  { lab := ⟨"Pose", ""⟩, kind := .plain, view := noView, tabs := ["PoseDAO", "SymbolDAO"],
    fields := [⟨false, ""⟩, ⟨false, "a"⟩], refs := [.one 1, .many [1, 2]] },
  posDao,
  { lab := ⟨"Torso", "name=st"⟩, kind := .plain, view := noView, tabs := ["TorsoDAO"],
    fields := [⟨false, "b"⟩, ⟨true, "c"⟩], refs := [.many [2, 0], .none] }]

example : exDaoHeap.WF ∧ NoO2M dirToday exDaoHeap ∧ NoDup exDaoHeap := by
  refine ⟨?_, ?_, ?_⟩
  · intro n hn t ht
    have : ∀ n ∈ exDaoHeap, ∀ t ∈ n.targets, t < exDaoHeap.length := by decide
    exact this n hn t ht
  · intro n hn k t hk
    have : ∀ n ∈ exDaoHeap, ∀ k < 2, ∀ t < 3, n.refs[k]? = some (Ref.one t) → dirToday (fieldOf n k) = .manyToOne := by
      decide
    have hk2 : k < 2 := by
      have : ∀ n ∈ exDaoHeap, n.refs.length ≤ 2 := by decide
      have hl := this n hn
      have := (List.getElem?_eq_some_iff.1 hk).1
      omega
    have ht3 : t < 3 := by
      have hwf : ∀ n ∈ exDaoHeap, ∀ t ∈ n.targets, t < 3 := by decide
      apply hwf n hn t
      simp only [Node.targets, List.mem_flatMap]
      exact ⟨.one t, List.mem_of_getElem? hk, by simp [Ref.targets]⟩
    exact this n hn k hk2 t ht3 hk
  · intro n hn k ts hk
    have : ∀ n ∈ exDaoHeap, ∀ r ∈ n.refs, ∀ ts, r = Ref.many ts → dedupNat ts = ts := by
      intro n hn r hr ts hts
      have h2 : ∀ n ∈ exDaoHeap, ∀ r ∈ n.refs, (match r with | .many ts => decide (dedupNat ts = ts) | _ => true) = true := by
        decide
      have := h2 n hn r hr
      subst hts
      simpa using this
    exact this n hn _ (List.mem_of_getElem? hk) ts rfl


/-! ## Joined-inheritance chains with unmapped intermediate classes (test) -/

/-- a mapped root whose mapped descendants are reached through classes that are not mapped: three tables in the
chain, the discriminator restores the class through every one of them (test) -/
def chainHeap : Heap := [
  { lab := ⟨"AuxWorkbench", "label=sw"⟩, kind := .plain, view := noView, tabs := ["AuxWorkbenchDAO"],
    fields := [⟨false, "d"⟩, ⟨false, ""⟩], refs := [.many [1, 2], .one 2] },
  { lab := ⟨"AuxDevice", "name=sa"⟩, kind := .plain, view := noView, tabs := ["AuxDeviceDAO"], fields := [], refs := [] },
  { lab := ⟨"AuxTurboScanner", "name=sb"⟩, kind := .plain, view := noView,
    tabs := ["AuxTurboScannerDAO", "AuxScannerDAO", "AuxDeviceDAO"], fields := [], refs := [] }]

example :
    load dirToday true (flush dirToday [] chainHeap) = chainHeap ∧
    loadRoot (flush dirToday [] chainHeap) "AuxDeviceDAO" (rowId 2) = some 2 ∧
    loadRoot (flush dirToday [] chainHeap) "AuxScannerDAO" (rowId 2) = some 2 ∧
    loadRoot (flush dirToday [] chainHeap) "AuxTurboScannerDAO" (rowId 2) = some 2 ∧
    loadRoot (flush dirToday [] chainHeap) "AuxScannerDAO" (rowId 1) = none ∧
    ((load dirToday true (flush dirToday [] chainHeap))[2]?).map (·.lab.cls) = some "AuxTurboScanner" := by decide


/-! ## After the repairs of F-C05-2 (`9a6f576`) and F-C05-4 (`453154d`) -/

/-- **C05_persist_reload.** With `from_dao` repaired (`stale := false`) the hypothesis about alternatively mapped
objects on cycles is gone: `to_dao` → flush → load through any DAO class of the chain → `from_dao` is isomorphic to
the input for every finite object graph outside the two remaining triggers (F-C05-1 self-hierarchy references,
F-C05-3 duplicates in a collection), each only needed while its quirk is on. -/
theorem C05_persist_reload (q : StoreQuirks) (hq : q.stale = false) (order : List Nat)
    (unmap : Label → Option Label) (via : Nat) (h : Heap) (roots rs' : List Nat) (h' : Heap) (db : DB)
    (hrt : RoundTrips unmap h)
    (hno : ∀ droots st, toDao h roots = some (droots, st) → NoO2M q.dir st.out)
    (hdup : q.dedup = true → ∀ droots st, toDao h roots = some (droots, st) → NoDup st.out)
    (hrun : persistReload q order unmap via h roots = some (rs', h', db)) : Iso h roots h' rs' :=
  C05_persist_reload_partial q order unmap via h roots rs' h' db hrt hno hdup
    (fun hs => by rw [hq] at hs; cases hs) hrun

/-- **C05_canon.** What the driver prints (graph part) under the same conditions. -/
theorem C05_canon (q : StoreQuirks) (hq : q.stale = false) (order : List Nat)
    (unmap : Label → Option Label) (via : Nat) (h : Heap) (roots rs' : List Nat) (h' : Heap) (db : DB)
    (hrt : RoundTrips unmap h)
    (hno : ∀ droots st, toDao h roots = some (droots, st) → NoO2M q.dir st.out)
    (hdup : q.dedup = true → ∀ droots st, toDao h roots = some (droots, st) → NoDup st.out)
    (hrun : persistReload q order unmap via h roots = some (rs', h', db)) : canon h' rs' = canon h roots :=
  (Iso_canon_eq (C05_persist_reload q hq order unmap via h roots rs' h' db hrt hno hdup hrun)).symm

/-! ## After the repair of F-C05-1 (`492980c`): the code as it is -/

/-- **C05_persist_reload_current.** The code as it is (`StoreQuirks.asIs`: `remote_side` generated, `from_dao` repaired):
`to_dao` → flush in ANY processing order of the unit of work → load through any DAO class of the chain → `from_dao` is
isomorphic to the input for every finite object graph in which no collection holds an object twice (F-C05-3, the one
remaining trigger) — references into the own table hierarchy included, no hypothesis about them is left. -/
theorem C05_persist_reload_current (order : List Nat)
    (unmap : Label → Option Label) (via : Nat) (h : Heap) (roots rs' : List Nat) (h' : Heap) (db : DB)
    (hrt : RoundTrips unmap h)
    (hdup : ∀ droots st, toDao h roots = some (droots, st) → NoDup st.out)
    (hrun : persistReload StoreQuirks.asIs order unmap via h roots = some (rs', h', db)) : Iso h roots h' rs' :=
  C05_persist_reload StoreQuirks.asIs rfl order unmap via h roots rs' h' db hrt
    (fun _ _ _ => fun _ _ _ _ _ => rfl) (fun _ => hdup) hrun

/-- **C05_canon_current.** What the driver prints (graph part) for the code as it is. -/
theorem C05_canon_current (order : List Nat)
    (unmap : Label → Option Label) (via : Nat) (h : Heap) (roots rs' : List Nat) (h' : Heap) (db : DB)
    (hrt : RoundTrips unmap h)
    (hdup : ∀ droots st, toDao h roots = some (droots, st) → NoDup st.out)
    (hrun : persistReload StoreQuirks.asIs order unmap via h roots = some (rs', h', db)) : canon h' rs' = canon h roots :=
  (Iso_canon_eq (C05_persist_reload_current order unmap via h roots rs' h' db hrt hdup hrun)).symm

end KrroodVerif.Dao
