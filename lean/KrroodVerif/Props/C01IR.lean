import KrroodVerif.Model.EqlIRTable
/-!
C01 (c01b) — towards `runIR irTable = eval`: the interpreter of the translated evaluation methods (`Model/EqlIR.lean`) on
the table of the code as it is (`Model/EqlIRTable.lean`) computes what the hand-written `Eql.eval` computes.

Method: per node class a NODE lemma `runNode irTable nd w env = …` for an ARBITRARY child evaluator `nd.ev` (the concrete
method body is evaluated by the kernel — `rfl` on frames with concrete keys —, `for` loops by list induction, the monadic
structure by rewriting), then the STEP theorem `C01_runIR_eq_eval_<class>_partial`: if `runIR irTable` agrees with `eval` on
the children it agrees on the node. The full statement

  theorem C01_runIR_eq_eval (w : World) (e : Expr) (env : Env) : runIR irTable w e env = liftE (eval w e env)

follows by structural induction from the step theorems of ALL classes; proved so far: see the list at the end of the
file; missing: the others (validated by the driver cross-check `model_ir=` on every case of C01 / C02 instead).
-/
open KrroodVerif.Eql KrroodVerif.Eql.IR
namespace KrroodVerif.Eql.IR

def mNot : Method :=
  { cls := "Not", name := "_evaluate__", kind := "def", params := ["sources", "parent"],
    body := (.seq (.assign (.att .self "_eval_parent_") (.nm "parent")) (.seq (.assign (.nm "sources") (.bin "or" (.nm "sources") (.dict .nil))) (.forIn (.nm "v0") (.call (.att (.att .self "_child_") "_evaluate__") (.cons (.nm "sources") (.cons (.kw "parent" .self) .nil))) (.seq (.assign (.att .self "_is_false_") (.att (.nm "v0") "is_true")) (.yld (.call (.nm "OperationResult") (.cons (.att (.nm "v0") "bindings") (.cons (.att .self "_is_false_") (.cons .self .nil))))))))) }

theorem find_not : irTable.find "Not" "_evaluate__" = some mNot := by rfl

def post (o : Out) : R (V × Bool) :=
  match o.ctl with
  | .ret .none => pure (.list o.ys, o.fr.isFalse)
  | .ret v => pure (v, o.fr.isFalse)
  | _ => pure (.list o.ys, o.fr.isFalse)

theorem callWith_find (tbl : Table) (nd : Node) (w : World) (lower : CallH) (name : String) (args : List V) (s : Bool)
    (m : Method) (h : tbl.find nd.cls name = some m) :
    callWith tbl nd w lower name args s
      = (exec lower nd w m.body { locals := bindParams m.params args, isFalse := s } >>= post) := by
  unfold callWith; simp only [h]; rfl

/-- a statement that deterministically finishes with `next` and yields nothing, followed by `b` -/
theorem exec_seq_det (lower : CallH) (nd : Node) (w : World) (a b : St) (fr fr' : Frame)
    (h : exec lower nd w a fr = .ok { fr := fr', ys := [], ctl := .next }) :
    exec lower nd w (.seq a b) fr = exec lower nd w b fr' := by
  rw [exec, h]
  show (exec lower nd w b fr' >>= fun o2 => pure { o2 with ys := [] ++ o2.ys }) = _
  cases exec lower nd w b fr' with
  | error e => rfl
  | ok o => cases o; rfl

def childCall : PE :=
  (.call (.att (.att .self "_child_") "_evaluate__") (.cons (.nm "sources") (.cons (.kw "parent" .self) .nil)))

theorem evalE_childCall (lower : CallH) (nd : Node) (w : World) (b : IEnv) (L : List (String × V)) (s : Bool) :
    evalE lower nd w childCall { locals := ("sources", .env b) :: L, isFalse := s }
      = (nd.ev .child b.env >>= fun rs => pure (wrapChild b .child rs, s)) := by
  rfl

theorem prologue (lower : CallH) (nd : Node) (w : World) (env : Env) (rest : St) :
    exec lower nd w (.seq (.assign (.att .self "_eval_parent_") (.nm "parent")) (.seq (.assign (.nm "sources") (.bin "or" (.nm "sources") (.dict .nil))) rest))
        { locals := [("sources", .env { env := env }), ("parent", .none)], isFalse := false }
      = exec lower nd w rest { locals := [("sources", .env { env := env }), ("parent", .none)], isFalse := false } := by
  rw [exec_seq_det lower nd w _ _ _ { locals := [("sources", .env { env := env }), ("parent", .none)], isFalse := false } (by rfl)]
  rw [exec_seq_det lower nd w _ _ _ { locals := [("sources", .env { env := env }), ("parent", .none)], isFalse := false } (by cases env <;> rfl)]

abbrev notLoopBody : St :=
  (.seq (.assign (.att .self "_is_false_") (.att (.nm "v0") "is_true")) (.yld (.call (.nm "OperationResult") (.cons (.att (.nm "v0") "bindings") (.cons (.att .self "_is_false_") (.cons .self .nil))))))

theorem loopSt_cons_next (body : V → Frame → R Out) (x : V) (rest : List V) (fr fr1 fr2 : Frame) (ys1 ys2 : List V) (c : Ctl)
    (h : body x fr = .ok { fr := fr1, ys := ys1, ctl := .next })
    (h2 : loopSt rest fr1 body = .ok { fr := fr2, ys := ys2, ctl := c }) :
    loopSt (x :: rest) fr body = .ok { fr := fr2, ys := ys1 ++ ys2, ctl := c } := by
  rw [loopSt, h]
  show (loopSt rest fr1 body >>= fun o2 => (pure ({ fr := o2.fr, ys := ys1 ++ o2.ys, ctl := o2.ctl } : Out) : R Out)) = _
  rw [h2]
  rfl

def L0 (env : Env) : List (String × V) := [("sources", .env { env := env }), ("parent", .none)]

theorem not_body (lower : CallH) (nd : Node) (w : World) (r : IRes) (env : Env) (L : List (String × V)) (s : Bool)
    (hL : L = L0 env ∨ ∃ y, L = ("v0", y) :: L0 env) :
    (do let fr2 ← bindTarget { locals := L, isFalse := s } (.nm "v0") (V.res r); exec lower nd w notLoopBody fr2)
      = .ok { fr := { locals := ("v0", V.res r) :: L0 env, isFalse := !r.isFalse },
              ys := [V.res { b := r.b, isFalse := !r.isFalse }], ctl := .next } := by
  rcases hL with rfl | ⟨y, rfl⟩ <;> rfl

def wrapC (c : NodeRef) (src : IEnv) (r : Env × Val × Bool) : IRes :=
  { b := { env := r.1, own := (c, r.2.1) :: src.own }, isFalse := !r.2.2 }

theorem not_loop (lower : CallH) (nd : Node) (w : World) (env : Env) (f : Env × Val × Bool → IRes)
    (rs : List (Env × Val × Bool)) :
    ∀ (L : List (String × V)) (s : Bool), (L = L0 env ∨ ∃ y, L = ("v0", y) :: L0 env) → ∃ fr',
      loopSt (rs.map fun r => V.res (f r)) { locals := L, isFalse := s }
          (fun x fr1 => do let fr2 ← bindTarget fr1 (.nm "v0") x; exec lower nd w notLoopBody fr2)
        = .ok { fr := fr', ys := rs.map fun r => V.res { b := (f r).b, isFalse := !(f r).isFalse }, ctl := .next } := by
  induction rs with
  | nil => intro L s _; exact ⟨_, rfl⟩
  | cons r rest ih =>
    intro L s hL
    obtain ⟨fr', h⟩ := ih (("v0", V.res (f r)) :: L0 env) (!(f r).isFalse) (Or.inr ⟨_, rfl⟩)
    refine ⟨fr', ?_⟩
    show loopSt (V.res (f r) :: rest.map fun r => V.res (f r)) _ _
      = .ok { fr := fr', ys := [V.res { b := (f r).b, isFalse := !(f r).isFalse }] ++ rest.map fun r => V.res { b := (f r).b, isFalse := !(f r).isFalse }, ctl := .next }
    exact loopSt_cons_next _ _ _ _ _ _ _ _ _ (not_body lower nd w (f r) env L s hL) h

theorem exec_forIn (lower : CallH) (nd : Node) (w : World) (t it : PE) (body : St) (fr : Frame) :
    exec lower nd w (.forIn t it body) fr = (do
      let (itv, s) ← evalE lower nd w it fr
      let items ← iterV itv
      loopSt items { fr with isFalse := s } fun x fr1 => do
        let fr2 ← bindTarget fr1 t x
        exec lower nd w body fr2) := by
  rfl

/-- what `runNode` makes of the yielded results -/
def conv (nd : Node) (x : V) : R (Env × Val × Bool) :=
  match x with
  | .res r =>
    let value := match r.b.own.lookup .self with
      | some y => y
      | none => match nd.keyOf .self with
        | some k => (r.b.env.lookup k).getD .none
        | none => .none
    pure (r.b.env, value, !r.isFalse)
  | _ => .error (.stuck "yielded a non-result")

theorem runNode_eq (tbl : Table) (nd : Node) (w : World) (env : Env) :
    runNode tbl nd w env = (do
      let (v, _) ← callTop tbl nd w "_evaluate__" [.env { env := env }, .none] false
      let xs ← iterV v
      xs.mapM (conv nd)) := by
  rfl

theorem mapM_conv_not (nd : Node) (hk : nd.keyOf .self = none) (rs : List (Env × Val × Bool)) :
    (rs.map fun r => V.res { b := (wrapC .child { env := env } r).b, isFalse := !(wrapC .child { env := env } r).isFalse }).mapM (conv nd)
      = (pure (rs.map fun a => (a.1, Val.none, !a.2.2)) : R _) := by
  induction rs with
  | nil => rfl
  | cons r rest ih =>
    simp only [List.map_cons, List.mapM_cons, ih]
    simp [conv, wrapC, hk, List.lookup, show (NodeRef.self == NodeRef.child) = false from rfl]

theorem runNode_not (nd : Node) (hcls : nd.cls = "Not") (hk : nd.keyOf .self = none) (w : World) (env : Env) :
    runNode irTable nd w env = (nd.ev .child env >>= fun rs => pure (rs.map fun a => (a.1, Val.none, !a.2.2))) := by
  rw [runNode_eq, callTop, callWith_find _ _ _ _ _ _ _ mNot (by rw [hcls]; exact find_not)]
  simp only [mNot, bindParams]
  rw [prologue, exec_forIn, ← childCall, evalE_childCall]
  cases hF : nd.ev .child env with
  | error e => rfl
  | ok rs =>
    obtain ⟨fr', h⟩ := not_loop (callWith irTable nd w (callWith irTable nd w (callWith irTable nd w call0))) nd w env
      (wrapC .child { env := env }) rs (L0 env) false (Or.inl rfl)
    show (loopSt (rs.map fun r => V.res (wrapC .child { env := env } r)) { locals := L0 env, isFalse := false } _ >>= post >>= _) = _
    rw [h]
    show ((rs.map fun r => V.res { b := (wrapC .child { env := env } r).b, isFalse := !(wrapC .child { env := env } r).isFalse }).mapM (conv nd)) = _
    rw [mapM_conv_not nd hk]
    rfl

/-- one step of the induction `runIR irTable = eval`: the `Not` node -/
theorem C01_runIR_eq_eval_not_partial (w : World) (e : Expr)
    (ih : ∀ env, runIR irTable w e env = liftE (eval w e env)) (env : Env) :
    runIR irTable w (.not e) env = liftE (eval w (.not e) env) := by
  rw [runIR]
  rw [runNode_not _ rfl rfl]
  simp only [ih, eval]
  cases eval w e env with
  | error err => rfl
  | ok rs =>
    simp [liftE, dropVal, addVal, List.map_map, Function.comp_def]
    rfl

end KrroodVerif.Eql.IR
