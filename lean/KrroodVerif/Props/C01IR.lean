import KrroodVerif.Model.EqlIRTable
/-!
C01 (c01b) — towards `runIR irTable = eval`: the interpreter of the translated evaluation methods (`Model/EqlIR.lean`) on
the table of the code as it is (`Model/EqlIRTable.lean`) computes what the hand-written `Eql.eval` computes.

Method: per node class a NODE lemma `runNode irTable nd w env = …` for an ARBITRARY child evaluator `nd.ev` (the concrete
method body is evaluated by the kernel — `rfl` on frames with concrete keys —, `for` loops by list induction, the monadic
structure by rewriting), then the STEP theorem `C01_runIR_eq_eval_<class>_partial`: if `runIR irTable` agrees with `eval` on
the children it agrees on the node. The full statement

  theorem C01_runIR_eq_eval (w : World) (e : Expr) (env : Env) : runIR irTable w e env = liftE (eval w e env)

follows by structural induction from the step theorems of ALL classes; proved so far: see the list at the end of the
file; missing: the others (validated by the driver cross-check `model_ir=` on every case of C01 / C02 instead).
-/
open KrroodVerif.Eql KrroodVerif.Eql.IR
namespace KrroodVerif.Eql.IR

def mNot : Method :=
  { cls := "Not", name := "_evaluate__", kind := "def", params := ["sources", "parent"],
    body := (.seq (.assign (.att .self "_eval_parent_") (.nm "parent")) (.seq (.assign (.nm "sources") (.bin "or" (.nm "sources") (.dict .nil))) (.forIn (.nm "v0") (.call (.att (.att .self "_child_") "_evaluate__") (.cons (.nm "sources") (.cons (.kw "parent" .self) .nil))) (.seq (.assign (.att .self "_is_false_") (.att (.nm "v0") "is_true")) (.yld (.call (.nm "OperationResult") (.cons (.att (.nm "v0") "bindings") (.cons (.att .self "_is_false_") (.cons .self .nil))))))))) }

theorem find_not : irTable.find "Not" "_evaluate__" = some mNot := by rfl

def post (o : Out) : R (V × Bool) :=
  match o.ctl with
  | .ret .none => pure (.list o.ys, o.fr.isFalse)
  | .ret v => pure (v, o.fr.isFalse)
  | _ => pure (.list o.ys, o.fr.isFalse)

theorem callWith_find (tbl : Table) (nd : Node) (w : World) (lower : CallH) (name : String) (args : List V) (s : Bool)
    (m : Method) (h : tbl.find nd.cls name = some m) :
    callWith tbl nd w lower name args s
      = (exec lower nd w m.body { locals := bindParams m.params args, isFalse := s } >>= post) := by
  unfold callWith; simp only [h]; rfl

/-- a statement that deterministically finishes with `next` and yields nothing, followed by `b` -/
theorem exec_seq_det (lower : CallH) (nd : Node) (w : World) (a b : St) (fr fr' : Frame)
    (h : exec lower nd w a fr = .ok { fr := fr', ys := [], ctl := .next }) :
    exec lower nd w (.seq a b) fr = exec lower nd w b fr' := by
  rw [exec, h]
  show (exec lower nd w b fr' >>= fun o2 => pure { o2 with ys := [] ++ o2.ys }) = _
  cases exec lower nd w b fr' with
  | error e => rfl
  | ok o => cases o; rfl

def childCall : PE :=
  (.call (.att (.att .self "_child_") "_evaluate__") (.cons (.nm "sources") (.cons (.kw "parent" .self) .nil)))

theorem evalE_childCall (lower : CallH) (nd : Node) (w : World) (b : IEnv) (L : List (String × V)) (s : Bool) :
    evalE lower nd w childCall { locals := ("sources", .env b) :: L, isFalse := s }
      = (nd.ev .child b.env >>= fun rs => pure (wrapChild b .child rs, s)) := by
  rfl

theorem prologue (lower : CallH) (nd : Node) (w : World) (env : Env) (rest : St) :
    exec lower nd w (.seq (.assign (.att .self "_eval_parent_") (.nm "parent")) (.seq (.assign (.nm "sources") (.bin "or" (.nm "sources") (.dict .nil))) rest))
        { locals := [("sources", .env { env := env }), ("parent", .none)], isFalse := false }
      = exec lower nd w rest { locals := [("sources", .env { env := env }), ("parent", .none)], isFalse := false } := by
  rw [exec_seq_det lower nd w _ _ _ { locals := [("sources", .env { env := env }), ("parent", .none)], isFalse := false } (by rfl)]
  rw [exec_seq_det lower nd w _ _ _ { locals := [("sources", .env { env := env }), ("parent", .none)], isFalse := false } (by cases env <;> rfl)]

abbrev notLoopBody : St :=
  (.seq (.assign (.att .self "_is_false_") (.att (.nm "v0") "is_true")) (.yld (.call (.nm "OperationResult") (.cons (.att (.nm "v0") "bindings") (.cons (.att .self "_is_false_") (.cons .self .nil))))))

theorem loopSt_cons_next (body : V → Frame → R Out) (x : V) (rest : List V) (fr fr1 fr2 : Frame) (ys1 ys2 : List V) (c : Ctl)
    (h : body x fr = .ok { fr := fr1, ys := ys1, ctl := .next })
    (h2 : loopSt rest fr1 body = .ok { fr := fr2, ys := ys2, ctl := c }) :
    loopSt (x :: rest) fr body = .ok { fr := fr2, ys := ys1 ++ ys2, ctl := c } := by
  rw [loopSt, h]
  show (loopSt rest fr1 body >>= fun o2 => (pure ({ fr := o2.fr, ys := ys1 ++ o2.ys, ctl := o2.ctl } : Out) : R Out)) = _
  rw [h2]
  rfl

def L0 (env : Env) : List (String × V) := [("sources", .env { env := env }), ("parent", .none)]

theorem not_body (lower : CallH) (nd : Node) (w : World) (r : IRes) (env : Env) (L : List (String × V)) (s : Bool)
    (hL : L = L0 env ∨ ∃ y, L = ("v0", y) :: L0 env) :
    (do let fr2 ← bindTarget { locals := L, isFalse := s } (.nm "v0") (V.res r); exec lower nd w notLoopBody fr2)
      = .ok { fr := { locals := ("v0", V.res r) :: L0 env, isFalse := !r.isFalse },
              ys := [V.res { b := r.b, isFalse := !r.isFalse }], ctl := .next } := by
  rcases hL with rfl | ⟨y, rfl⟩ <;> rfl

def wrapC (c : NodeRef) (src : IEnv) (r : Env × Val × Bool) : IRes :=
  { b := { env := r.1, own := (c, r.2.1) :: src.own }, isFalse := !r.2.2 }

theorem not_loop (lower : CallH) (nd : Node) (w : World) (env : Env) (f : Env × Val × Bool → IRes)
    (rs : List (Env × Val × Bool)) :
    ∀ (L : List (String × V)) (s : Bool), (L = L0 env ∨ ∃ y, L = ("v0", y) :: L0 env) → ∃ fr',
      loopSt (rs.map fun r => V.res (f r)) { locals := L, isFalse := s }
          (fun x fr1 => do let fr2 ← bindTarget fr1 (.nm "v0") x; exec lower nd w notLoopBody fr2)
        = .ok { fr := fr', ys := rs.map fun r => V.res { b := (f r).b, isFalse := !(f r).isFalse }, ctl := .next } := by
  induction rs with
  | nil => intro L s _; exact ⟨_, rfl⟩
  | cons r rest ih =>
    intro L s hL
    obtain ⟨fr', h⟩ := ih (("v0", V.res (f r)) :: L0 env) (!(f r).isFalse) (Or.inr ⟨_, rfl⟩)
    refine ⟨fr', ?_⟩
    show loopSt (V.res (f r) :: rest.map fun r => V.res (f r)) _ _
      = .ok { fr := fr', ys := [V.res { b := (f r).b, isFalse := !(f r).isFalse }] ++ rest.map fun r => V.res { b := (f r).b, isFalse := !(f r).isFalse }, ctl := .next }
    exact loopSt_cons_next _ _ _ _ _ _ _ _ _ (not_body lower nd w (f r) env L s hL) h

theorem exec_forIn (lower : CallH) (nd : Node) (w : World) (t it : PE) (body : St) (fr : Frame) :
    exec lower nd w (.forIn t it body) fr = (do
      let (itv, s) ← evalE lower nd w it fr
      let items ← iterV itv
      loopSt items { fr with isFalse := s } fun x fr1 => do
        let fr2 ← bindTarget fr1 t x
        exec lower nd w body fr2) := by
  rfl

/-- what `runNode` makes of the yielded results -/
def conv (nd : Node) (x : V) : R (Env × Val × Bool) :=
  match x with
  | .res r =>
    let value := match r.b.own.lookup .self with
      | some y => y
      | none => match nd.keyOf .self with
        | some k => (r.b.env.lookup k).getD .none
        | none => .none
    pure (r.b.env, value, !r.isFalse)
  | _ => .error (.stuck "yielded a non-result")

theorem runNode_eq (tbl : Table) (nd : Node) (w : World) (env : Env) :
    runNode tbl nd w env = (do
      let (v, _) ← callTop tbl nd w "_evaluate__" [.env { env := env }, .none] false
      let xs ← iterV v
      xs.mapM (conv nd)) := by
  rfl

theorem mapM_conv_not (nd : Node) (hk : nd.keyOf .self = none) (rs : List (Env × Val × Bool)) :
    (rs.map fun r => V.res { b := (wrapC .child { env := env } r).b, isFalse := !(wrapC .child { env := env } r).isFalse }).mapM (conv nd)
      = (pure (rs.map fun a => (a.1, Val.none, !a.2.2)) : R _) := by
  induction rs with
  | nil => rfl
  | cons r rest ih =>
    simp only [List.map_cons, List.mapM_cons, ih]
    simp [conv, wrapC, hk, List.lookup, show (NodeRef.self == NodeRef.child) = false from rfl]

theorem runNode_not (nd : Node) (hcls : nd.cls = "Not") (hk : nd.keyOf .self = none) (w : World) (env : Env) :
    runNode irTable nd w env = (nd.ev .child env >>= fun rs => pure (rs.map fun a => (a.1, Val.none, !a.2.2))) := by
  rw [runNode_eq, callTop, callWith_find _ _ _ _ _ _ _ mNot (by rw [hcls]; exact find_not)]
  simp only [mNot, bindParams]
  rw [prologue, exec_forIn, ← childCall, evalE_childCall]
  cases hF : nd.ev .child env with
  | error e => rfl
  | ok rs =>
    obtain ⟨fr', h⟩ := not_loop (callWith irTable nd w (callWith irTable nd w (callWith irTable nd w call0))) nd w env
      (wrapC .child { env := env }) rs (L0 env) false (Or.inl rfl)
    show (loopSt (rs.map fun r => V.res (wrapC .child { env := env } r)) { locals := L0 env, isFalse := false } _ >>= post >>= _) = _
    rw [h]
    show ((rs.map fun r => V.res { b := (wrapC .child { env := env } r).b, isFalse := !(wrapC .child { env := env } r).isFalse }).mapM (conv nd)) = _
    rw [mapM_conv_not nd hk]
    rfl

/-- the `Not` node, pointwise: if `runIR irTable` agrees with `eval` on the operand under `env`, it agrees on `Not` -/
theorem C01_runIR_eq_eval_not_partial (w : World) (e : Expr) (env : Env)
    (ih : runIR irTable w e env = liftE (eval w e env)) :
    runIR irTable w (.not e) env = liftE (eval w (.not e) env) := by
  rw [runIR, runNode_not _ rfl rfl]
  simp only [ih, eval]
  cases eval w e env with
  | error err => rfl
  | ok rs =>
    simp [liftE, dropVal, addVal, List.map_map, Function.comp_def]
    rfl

/-- `flatMapM` in `R` -/
def flatMapR {α β} (xs : List α) (f : α → R (List β)) : R (List β) :=
  match xs with
  | [] => .ok []
  | x :: r => do
    let a ← f x
    let b ← flatMapR r f
    pure (a ++ b)

/-- a `for` loop whose body, on frames satisfying `Inv`, computes `g a` (possibly failing), yields `ysOf` of it, never
leaves the loop and re-establishes `Inv`: what is yielded is the concatenation, whatever the continuation does with it -/
theorem loopSt_spec {α β γ} (body : V → Frame → R Out) (Inv : Frame → Prop) (g : α → R γ) (ysOf : γ → List V) (toV : α → V)
    (hbody : ∀ a fr, Inv fr → ∃ nxt : γ → Frame, (∀ c, Inv (nxt c)) ∧
      body (toV a) fr = (g a >>= fun c => pure { fr := nxt c, ys := ysOf c, ctl := .next }))
    (xs : List α) : ∀ (fr : Frame) (k : List V → Ctl → R β), Inv fr →
      (loopSt (xs.map toV) fr body >>= fun o => k o.ys o.ctl)
        = (flatMapR xs (fun a => g a >>= fun c => pure (ysOf c)) >>= fun ys => k ys .next) := by
  induction xs with
  | nil => intro fr k _; rfl
  | cons a rest ih =>
    intro fr k hfr
    obtain ⟨nxt, hinv, hb⟩ := hbody a fr hfr
    rw [List.map_cons, loopSt, hb]
    cases hg : g a with
    | error e => rw [flatMapR, hg]; rfl
    | ok c =>
      have h1 := ih (nxt c) (fun ys c' => k (ysOf c ++ ys) c') (hinv c)
      rw [flatMapR, hg]
      show ((loopSt (List.map toV rest) (nxt c) body >>= fun o2 => (pure { fr := o2.fr, ys := ysOf c ++ o2.ys, ctl := o2.ctl } : R Out)) >>= fun o => k o.ys o.ctl)
        = ((flatMapR rest (fun a => g a >>= fun c => pure (ysOf c)) >>= fun b => (pure (ysOf c ++ b) : R (List V))) >>= fun ys => k ys .next)
      rw [bind_assoc, bind_assoc]
      simp only [pure_bind]
      exact h1

/-- a deterministic `for` loop: the final frame is the fold of the per-element step -/
theorem loopSt_det {α} (body : V → Frame → R Out) (Inv : Frame → Prop) (step : α → Frame → Frame) (out : α → List V)
    (toV : α → V)
    (hbody : ∀ a fr, Inv fr → Inv (step a fr) ∧ body (toV a) fr = .ok { fr := step a fr, ys := out a, ctl := .next })
    (xs : List α) : ∀ (fr : Frame), Inv fr →
      loopSt (xs.map toV) fr body = .ok { fr := xs.foldl (fun f a => step a f) fr, ys := xs.flatMap out, ctl := .next } := by
  induction xs with
  | nil => intro fr _; rfl
  | cons a rest ih =>
    intro fr hfr
    obtain ⟨hinv, hb⟩ := hbody a fr hfr
    have h := ih (step a fr) hinv
    rw [List.flatMap_cons, List.foldl_cons]
    exact loopSt_cons_next _ _ _ _ _ _ _ _ _ hb h

theorem exec_seq_assign_nm (lower : CallH) (nd : Node) (w : World) (x : String) (e : PE) (b : St) (fr : Frame) :
    exec lower nd w (.seq (.assign (.nm x) e) b) fr
      = (evalE lower nd w e fr >>= fun p => exec lower nd w b ({ fr with isFalse := p.2 }.set x p.1)) := by
  cases h : evalE lower nd w e fr with
  | error err => rw [exec, exec, h]; rfl
  | ok p =>
    rw [exec_seq_det lower nd w _ _ _ ({ fr with isFalse := p.2 }.set x p.1) (by rw [exec, h]; rfl)]
    rfl

def mAnd : Method :=
  { cls := "AND", name := "_evaluate__", kind := "def", params := ["sources", "parent"],
      body := (.seq (.assign (.att .self "_eval_parent_") (.nm "parent")) (.seq (.assign (.nm "sources") (.bin "or" (.nm "sources") (.dict .nil))) (.seq (.assign (.nm "v0") (.call (.att (.att .self "left") "_evaluate__") (.cons (.nm "sources") (.cons (.kw "parent" .self) .nil)))) (.forIn (.nm "v1") (.nm "v0") (.seq (.assign (.att .self "_is_false_") (.att (.nm "v1") "is_false")) (.ifte (.att .self "_is_false_") (.yld (.call (.nm "OperationResult") (.cons (.att (.nm "v1") "bindings") (.cons (.att .self "_is_false_") (.cons .self .nil))))) (.yldFrom (.call (.att .self "evaluate_right") (.cons (.nm "v1") .nil))))))))) }

theorem find_mAnd : irTable.find "AND" "_evaluate__" = some mAnd := by rfl

def mAndRight : Method :=
  { cls := "AND", name := "evaluate_right", kind := "def", params := ["left_value"],
      body := (.seq (.assign (.nm "v0") (.call (.att (.att .self "right") "_evaluate__") (.cons (.att (.nm "left_value") "bindings") (.cons (.kw "parent" .self) .nil)))) (.forIn (.nm "v1") (.nm "v0") (.seq (.assign (.att .self "_is_false_") (.att (.nm "v1") "is_false")) (.yld (.call (.nm "OperationResult") (.cons (.att (.nm "v1") "bindings") (.cons (.att .self "_is_false_") (.cons .self .nil)))))))) }

theorem find_mAndRight : irTable.find "AND" "evaluate_right" = some mAndRight := by rfl

def mOrLeft : Method :=
  { cls := "OR", name := "evaluate_left", kind := "def", params := ["sources"],
      body := (.seq (.assign (.nm "v0") (.call (.att (.att .self "left") "_evaluate__") (.cons (.nm "sources") (.cons (.kw "parent" .self) .nil)))) (.forIn (.nm "v1") (.nm "v0") (.seq (.assign (.att .self "left_evaluated") (.cst "True")) (.seq (.assign (.nm "v2") (.att (.nm "v1") "is_false")) (.ifte (.nm "v2") (.yldFrom (.call (.att .self "evaluate_right") (.cons (.att (.nm "v1") "bindings") .nil))) (.seq (.assign (.att .self "_is_false_") (.cst "False")) (.yld (.call (.nm "OperationResult") (.cons (.att (.nm "v1") "bindings") (.cons (.att .self "_is_false_") (.cons .self .nil))))))))))) }

theorem find_mOrLeft : irTable.find "ElseIf" "evaluate_left" = some mOrLeft := by rfl

def mOrRight : Method :=
  { cls := "OR", name := "evaluate_right", kind := "def", params := ["sources"],
      body := (.seq (.assign (.att .self "left_evaluated") (.cst "False")) (.seq (.assign (.nm "v0") (.call (.att (.att .self "right") "_evaluate__") (.cons (.nm "sources") (.cons (.kw "parent" .self) .nil)))) (.seq (.forIn (.nm "v1") (.nm "v0") (.seq (.assign (.att .self "_is_false_") (.att (.nm "v1") "is_false")) (.seq (.assign (.att .self "right_evaluated") (.cst "True")) (.yld (.call (.nm "OperationResult") (.cons (.att (.nm "v1") "bindings") (.cons (.att .self "_is_false_") (.cons .self .nil)))))))) (.assign (.att .self "right_evaluated") (.cst "False"))))) }

theorem find_mOrRight : irTable.find "ElseIf" "evaluate_right" = some mOrRight := by rfl

def mElseIf : Method :=
  { cls := "ElseIf", name := "_evaluate__", kind := "def", params := ["sources", "parent"],
      body := (.seq (.assign (.att .self "_eval_parent_") (.nm "parent")) (.seq (.assign (.nm "sources") (.bin "or" (.nm "sources") (.dict .nil))) (.yldFrom (.call (.att .self "evaluate_left") (.cons (.nm "sources") .nil))))) }

theorem find_mElseIf : irTable.find "ElseIf" "_evaluate__" = some mElseIf := by rfl

def mUnion : Method :=
  { cls := "Union", name := "_evaluate__", kind := "def", params := ["sources", "parent"],
      body := (.seq (.assign (.att .self "_eval_parent_") (.nm "parent")) (.seq (.assign (.nm "sources") (.bin "or" (.nm "sources") (.dict .nil))) (.seq (.yldFrom (.call (.att .self "evaluate_left") (.cons (.nm "sources") .nil))) (.yldFrom (.call (.att .self "evaluate_right") (.cons (.nm "sources") .nil)))))) }

theorem find_mUnion : irTable.find "Union" "_evaluate__" = some mUnion := by rfl

theorem find_mOrLeftU : irTable.find "Union" "evaluate_left" = some mOrLeft := by rfl

theorem find_mOrRightU : irTable.find "Union" "evaluate_right" = some mOrRight := by rfl


theorem flatMap_single {α β} (f : α → β) (l : List α) : List.flatMap (fun a => [f a]) l = l.map f := by
  induction l with
  | nil => rfl
  | cons a t ih => simp [List.flatMap_cons, ih]

/-! ### AND -/

theorem evalE_leftCall (lower : CallH) (nd : Node) (w : World) (b : IEnv) (L : List (String × V)) (s : Bool) :
    evalE lower nd w (.call (.att (.att .self "left") "_evaluate__") (.cons (.nm "sources") (.cons (.kw "parent" .self) .nil)))
        { locals := ("sources", .env b) :: L, isFalse := s }
      = (nd.ev .left b.env >>= fun rs => pure (wrapChild b .left rs, s)) := by
  rfl

theorem evalE_rightCall_lv (lower : CallH) (nd : Node) (w : World) (r : IRes) (L : List (String × V)) (s : Bool) :
    evalE lower nd w (.call (.att (.att .self "right") "_evaluate__") (.cons (.att (.nm "left_value") "bindings") (.cons (.kw "parent" .self) .nil)))
        { locals := ("left_value", .res r) :: L, isFalse := s }
      = (nd.ev .right r.b.env >>= fun rs => pure (wrapChild r.b .right rs, s)) := by
  rfl

/-- `self._is_false_ = v1.is_false; yield OperationResult(v1.bindings, self._is_false_, self)` -/
abbrev copyBody : St :=
  (.seq (.assign (.att .self "_is_false_") (.att (.nm "v1") "is_false")) (.yld (.call (.nm "OperationResult") (.cons (.att (.nm "v1") "bindings") (.cons (.att .self "_is_false_") (.cons .self .nil))))))

def copyStep (LB : List (String × V)) (r : IRes) (_ : Frame) : Frame :=
  { locals := ("v1", V.res r) :: LB, isFalse := r.isFalse }

theorem and_right_body (lower : CallH) (nd : Node) (w : World) (X Y : V) (r : IRes) (fr : Frame)
    (hfr : fr.locals = [("v0", X), ("left_value", Y)] ∨ ∃ y, fr.locals = ("v1", y) :: [("v0", X), ("left_value", Y)]) :
    (do let fr2 ← bindTarget fr (.nm "v1") (V.res r); exec lower nd w copyBody fr2)
      = .ok { fr := copyStep [("v0", X), ("left_value", Y)] r fr, ys := [V.res r], ctl := .next } := by
  obtain ⟨L, s⟩ := fr
  rcases hfr with h | ⟨y, h⟩ <;> (simp only at h; subst h; rfl)

theorem and_right_call (nd : Node) (hcls : nd.cls = "AND") (w : World) (lower : CallH) (r : IRes) (s0 : Bool) :
    callWith irTable nd w lower "evaluate_right" [V.res r] s0
      = (nd.ev .right r.b.env >>= fun rs => pure (V.list (rs.map fun a => V.res (wrapC .right r.b a)),
          (rs.foldl (fun f a => copyStep [("v0", wrapChild r.b .right rs), ("left_value", V.res r)] (wrapC .right r.b a) f)
            { locals := [("v0", wrapChild r.b .right rs), ("left_value", V.res r)], isFalse := s0 }).isFalse)) := by
  rw [callWith_find _ _ _ _ _ _ _ mAndRight (by rw [hcls]; exact find_mAndRight)]
  simp only [mAndRight, bindParams]
  rw [exec_seq_assign_nm, evalE_rightCall_lv]
  cases hF : nd.ev .right r.b.env with
  | error e => rfl
  | ok rs =>
    show (exec lower nd w (.forIn (.nm "v1") (.nm "v0") copyBody)
            { locals := [("v0", wrapChild r.b .right rs), ("left_value", V.res r)], isFalse := s0 } >>= post) = _
    rw [exec_forIn]
    show (loopSt (rs.map fun a => V.res (wrapC .right r.b a)) { locals := [("v0", wrapChild r.b .right rs), ("left_value", V.res r)], isFalse := s0 }
            (fun x fr1 => do let fr2 ← bindTarget fr1 (.nm "v1") x; exec lower nd w copyBody fr2) >>= post) = _
    rw [loopSt_det _ (fun fr => fr.locals = [("v0", wrapChild r.b .right rs), ("left_value", V.res r)] ∨ ∃ y, fr.locals = ("v1", y) :: [("v0", wrapChild r.b .right rs), ("left_value", V.res r)])
        (fun a => copyStep [("v0", wrapChild r.b .right rs), ("left_value", V.res r)] (wrapC .right r.b a))
        (fun a => [V.res (wrapC .right r.b a)]) (fun a => V.res (wrapC .right r.b a))
        (fun a fr hfr => ⟨Or.inr ⟨_, rfl⟩, and_right_body lower nd w _ _ _ fr hfr⟩) _ _ (Or.inl rfl)]
    rw [flatMap_single]
    rfl

abbrev andBody : St :=
  (.seq (.assign (.att .self "_is_false_") (.att (.nm "v1") "is_false")) (.ifte (.att .self "_is_false_") (.yld (.call (.nm "OperationResult") (.cons (.att (.nm "v1") "bindings") (.cons (.att .self "_is_false_") (.cons .self .nil))))) (.yldFrom (.call (.att .self "evaluate_right") (.cons (.nm "v1") .nil)))))

def LBo (X S : V) : List (String × V) := [("v0", X), ("sources", S), ("parent", V.none)]

theorem and_body_false (lower : CallH) (nd : Node) (w : World) (X S : V) (b : IEnv) (fr : Frame)
    (hfr : fr.locals = LBo X S ∨ ∃ y, fr.locals = ("v1", y) :: LBo X S) :
    (do let fr2 ← bindTarget fr (.nm "v1") (V.res { b := b, isFalse := true }); exec lower nd w andBody fr2)
      = .ok { fr := { locals := ("v1", V.res { b := b, isFalse := true }) :: LBo X S, isFalse := true },
              ys := [V.res { b := b, isFalse := true }], ctl := .next } := by
  obtain ⟨L, s⟩ := fr
  rcases hfr with h | ⟨y, h⟩ <;> (simp only at h; subst h; rfl)

theorem and_body_true (lower : CallH) (nd : Node) (w : World) (X S : V) (b : IEnv) (fr : Frame)
    (hfr : fr.locals = LBo X S ∨ ∃ y, fr.locals = ("v1", y) :: LBo X S) :
    (do let fr2 ← bindTarget fr (.nm "v1") (V.res { b := b, isFalse := false }); exec lower nd w andBody fr2)
      = (lower "evaluate_right" [V.res { b := b, isFalse := false }] false >>= fun p => iterV p.1 >>= fun xs =>
          pure { fr := { locals := ("v1", V.res { b := b, isFalse := false }) :: LBo X S, isFalse := p.2 }, ys := xs, ctl := .next }) := by
  obtain ⟨L, s⟩ := fr
  have h1 : (do let fr2 ← bindTarget { locals := L, isFalse := s } (.nm "v1") (V.res { b := b, isFalse := false }); exec lower nd w andBody fr2)
      = exec lower nd w andBody { locals := ("v1", V.res { b := b, isFalse := false }) :: LBo X S, isFalse := s } := by
    rcases hfr with h | ⟨y, h⟩ <;> (simp only at h; subst h; rfl)
  rw [h1, exec_seq_det lower nd w _ _ _ { locals := ("v1", V.res { b := b, isFalse := false }) :: LBo X S, isFalse := false } (by rfl)]
  rfl

/-- the continuation of `runNode` after the call of `_evaluate__`, as a function of what was yielded -/
def finish (nd : Node) (ys : List V) (c : Ctl) : R (List (Env × Val × Bool)) :=
  (match c with
    | .ret .none => iterV (.list ys)
    | .ret v => iterV v
    | _ => iterV (.list ys)) >>= fun xs => xs.mapM (conv nd)

theorem post_finish (nd : Node) (o : Out) :
    (post o >>= fun p => iterV p.1 >>= fun xs => xs.mapM (conv nd)) = finish nd o.ys o.ctl := by
  obtain ⟨fr, ys, c⟩ := o
  cases c with
  | ret v => cases v <;> rfl
  | _ => rfl

theorem mapM_conv_right (nd : Node) (hk : nd.keyOf .self = none) (b : IEnv) (hb : b.own.lookup .self = none)
    (rs : List (Env × Val × Bool)) :
    (rs.map fun c => V.res (wrapC .right b c)).mapM (conv nd)
      = (pure (rs.map fun c => (c.1, Val.none, c.2.2)) : R _) := by
  induction rs with
  | nil => rfl
  | cons r rest ih =>
    simp only [List.map_cons, List.mapM_cons, ih]
    simp [conv, wrapC, hk, hb, List.lookup, show (NodeRef.self == NodeRef.right) = false from rfl]

theorem mapM_append_R {α β} (c : α → R β) (xs ys : List α) :
    (xs ++ ys).mapM c = (xs.mapM c >>= fun a => ys.mapM c >>= fun b => pure (a ++ b)) := by
  induction xs with
  | nil => simp
  | cons x t ih => simp [List.mapM_cons, ih, bind_assoc]

theorem and_finish (nd : Node) (hk : nd.keyOf .self = none) (src : IEnv) (hsrc : src.own.lookup .self = none)
    (ls : List (Env × Val × Bool)) :
    (flatMapR ls (fun a => if a.2.2 then
          (nd.ev .right a.1 >>= fun rs => pure (rs.map fun c => V.res (wrapC .right (wrapC .left src a).b c)))
        else pure [V.res (wrapC .left src a)]) >>= fun ys => ys.mapM (conv nd))
      = flatMapR ls fun a =>
          if a.2.2 then (nd.ev .right a.1 >>= fun rs => pure (rs.map fun c => (c.1, Val.none, c.2.2)))
          else pure [(a.1, Val.none, false)] := by
  induction ls with
  | nil => rfl
  | cons a rest ih =>
    obtain ⟨e1, v1, t⟩ := a
    have hl : (wrapC .left src (e1, v1, t)).b.own.lookup .self = none := by
      simp [wrapC, List.lookup, hsrc, show (NodeRef.self == NodeRef.left) = false from rfl]
    cases t with
    | false =>
      simp only [flatMapR, Bool.false_eq_true, if_false, pure_bind, bind_assoc, ← ih]
      simp only [mapM_append_R, List.mapM_cons, List.mapM_nil, bind_assoc, pure_bind]
      simp [conv, hk, wrapC, List.lookup, hsrc, show (NodeRef.self == NodeRef.left) = false from rfl]
    | true =>
      simp only [flatMapR, if_true, bind_assoc, pure_bind, ← ih]
      cases nd.ev .right e1 with
      | error e => rfl
      | ok rs =>
        simp only [mapM_append_R, bind_assoc, pure_bind]
        have := mapM_conv_right nd hk _ hl rs
        show (flatMapR rest _ >>= fun x => (rs.map fun c => V.res (wrapC .right (wrapC .left src (e1, v1, true)).b c)).mapM (conv nd) >>= _) = _
        simp only [this, pure_bind]
        rfl

theorem runNode_and (nd : Node) (hcls : nd.cls = "AND") (hk : nd.keyOf .self = none) (w : World) (env : Env) :
    runNode irTable nd w env = (nd.ev .left env >>= fun ls => flatMapR ls fun a =>
      if a.2.2 then (nd.ev .right a.1 >>= fun rs => pure (rs.map fun c => (c.1, Val.none, c.2.2)))
      else pure [(a.1, Val.none, false)]) := by
  rw [runNode_eq, callTop, callWith_find _ _ _ _ _ _ _ mAnd (by rw [hcls]; exact find_mAnd)]
  simp only [mAnd, bindParams]
  rw [prologue, exec_seq_assign_nm, evalE_leftCall]
  cases hF : nd.ev .left env with
  | error e => rfl
  | ok ls =>
    -- the `for left_value in left_values` loop
    have hloop := loopSt_spec (β := List (Env × Val × Bool)) (γ := List V × Bool)
      (fun x fr1 => do let fr2 ← bindTarget fr1 (.nm "v1") x
                       exec (callWith irTable nd w (callWith irTable nd w (callWith irTable nd w call0))) nd w andBody fr2)
      (fun fr => fr.locals = LBo (wrapChild { env := env } .left ls) (.env { env := env })
        ∨ ∃ y, fr.locals = ("v1", y) :: LBo (wrapChild { env := env } .left ls) (.env { env := env }))
      (fun a => if a.2.2 then
          (callWith irTable nd w (callWith irTable nd w (callWith irTable nd w call0)) "evaluate_right" [V.res (wrapC .left { env := env } a)] false
            >>= fun p => iterV p.1 >>= fun xs => pure (xs, p.2))
        else pure ([V.res (wrapC .left { env := env } a)], true))
      Prod.fst (fun a => V.res (wrapC .left { env := env } a))
      (by
        intro a fr hfr
        obtain ⟨e1, v1, t⟩ := a
        cases t with
        | false =>
          exact ⟨fun c => { locals := ("v1", V.res (wrapC .left { env := env } (e1, v1, false))) :: LBo _ _, isFalse := c.2 },
            fun c => Or.inr ⟨_, rfl⟩, and_body_false _ nd w _ _ _ fr hfr⟩
        | true =>
          refine ⟨fun c => { locals := ("v1", V.res (wrapC .left { env := env } (e1, v1, true))) :: LBo _ _, isFalse := c.2 },
            fun c => Or.inr ⟨_, rfl⟩, ?_⟩
          have := and_body_true (callWith irTable nd w (callWith irTable nd w (callWith irTable nd w call0))) nd w _ _
            (wrapC .left { env := env } (e1, v1, true)).b fr hfr
          refine this.trans ?_
          simp only [bind_assoc, pure_bind, if_true]
          rfl)
      ls { locals := LBo (wrapChild { env := env } .left ls) (.env { env := env }), isFalse := false } (finish nd) (Or.inl rfl)
    show ((exec _ nd w (.forIn (.nm "v1") (.nm "v0") andBody)
            { locals := LBo (wrapChild { env := env } .left ls) (.env { env := env }), isFalse := false } >>= post)
          >>= fun p => iterV p.1 >>= fun xs => xs.mapM (conv nd)) = _
    rw [exec_forIn]
    show ((loopSt (ls.map fun a => V.res (wrapC .left { env := env } a))
            { locals := LBo (wrapChild { env := env } .left ls) (.env { env := env }), isFalse := false } _ >>= post)
          >>= fun p => iterV p.1 >>= fun xs => xs.mapM (conv nd)) = _
    rw [bind_assoc]
    simp only [post_finish]
    rw [hloop]
    show (flatMapR ls _ >>= fun ys => ys.mapM (conv nd)) = flatMapR ls _
    rw [← and_finish nd hk { env := env } rfl ls]
    congr 2
    funext a
    obtain ⟨e1, v1, t⟩ := a
    cases t with
    | false => rfl
    | true =>
      simp only [if_true, bind_assoc, pure_bind]
      rw [and_right_call nd hcls]
      simp only [bind_assoc, pure_bind]
      rfl

theorem and_model (F : Env → Except Err (List (Env × Bool))) (G : Env → R (List (Env × Bool))) (ls : List (Env × Bool))
    (hG : ∀ p ∈ ls, p.2 = true → G p.1 = liftE (F p.1)) :
    (flatMapR (addVal ls) (fun a => if a.2.2 then
        ((G a.1 >>= fun x => pure (addVal x)) >>= fun rs => pure (rs.map fun c => (c.1, Val.none, c.2.2)))
        else pure [(a.1, Val.none, false)]) >>= fun rs => pure (dropVal rs))
      = liftE (flatMapM ls fun p => if p.2 then F p.1 else pure [(p.1, false)]) := by
  induction ls with
  | nil => rfl
  | cons p rest ih =>
    obtain ⟨e, t⟩ := p
    have ih' := ih (fun p hp => hG p (List.mem_cons_of_mem _ hp))
    cases hrest : flatMapM rest (fun p => if p.2 then F p.1 else pure [(p.1, false)]) with
    | error err =>
      rw [hrest] at ih'
      cases t with
      | false =>
        simp only [addVal, List.map_cons, flatMapR, flatMapM, hrest] at ih' ⊢
        cases hx : flatMapR (List.map (fun r => (r.1, Val.none, r.2)) rest) _ with
        | error e2 => rw [hx] at ih'; cases ih'; rfl
        | ok x => rw [hx] at ih'; cases ih'
      | true =>
        have hGe := hG (e, true) (List.mem_cons_self ..) rfl
        simp only [addVal, List.map_cons, flatMapR, flatMapM, hrest, hGe] at ih' ⊢
        cases F e with
        | error e3 => rfl
        | ok fs =>
          cases hx : flatMapR (List.map (fun r => (r.1, Val.none, r.2)) rest) _ with
          | error e2 => rw [hx] at ih'; cases ih'; rfl
          | ok x => rw [hx] at ih'; cases ih'
    | ok rs =>
      rw [hrest] at ih'
      cases t with
      | false =>
        simp only [addVal, List.map_cons, flatMapR, flatMapM, hrest] at ih' ⊢
        cases hx : flatMapR (List.map (fun r => (r.1, Val.none, r.2)) rest) _ with
        | error e2 => rw [hx] at ih'; cases ih'
        | ok x =>
          rw [hx] at ih'
          have : dropVal x = rs := by cases ih'; rfl
          simp [liftE, dropVal, ← this]
          rfl
      | true =>
        have hGe := hG (e, true) (List.mem_cons_self ..) rfl
        simp only [addVal, List.map_cons, flatMapR, flatMapM, hrest, hGe] at ih' ⊢
        cases F e with
        | error e3 => rfl
        | ok fs =>
          cases hx : flatMapR (List.map (fun r => (r.1, Val.none, r.2)) rest) _ with
          | error e2 => rw [hx] at ih'; cases ih'
          | ok x =>
            rw [hx] at ih'
            have : dropVal x = rs := by cases ih'; rfl
            simp [liftE, dropVal, addVal, ← this, List.map_map, Function.comp_def]
            rfl

/-- the `AND` node, pointwise: agreement on the left operand under `env` and on the right operand under the bindings of
every TRUE result of the left operand gives agreement on the conjunction -/
theorem C01_runIR_eq_eval_and_partial (w : World) (l r : Expr) (env : Env)
    (ihl : runIR irTable w l env = liftE (eval w l env))
    (ihr : ∀ ls, eval w l env = .ok ls → ∀ p ∈ ls, p.2 = true → runIR irTable w r p.1 = liftE (eval w r p.1)) :
    runIR irTable w (.and l r) env = liftE (eval w (.and l r) env) := by
  rw [runIR, runNode_and _ rfl rfl]
  simp only [ihl, eval]
  cases hl : eval w l env with
  | error err => rfl
  | ok ls => exact and_model (eval w r) (runIR irTable w r) ls (ihr ls hl)

/-- the class of expressions on which `runIR irTable` agrees with `eval` under EVERY environment is closed under `not_`
and `and_` (corollary of the two pointwise theorems) -/
theorem C01_runIR_eq_eval_closed_partial (w : World) :
    (∀ e, (∀ env, runIR irTable w e env = liftE (eval w e env)) →
      ∀ env, runIR irTable w (.not e) env = liftE (eval w (.not e) env)) ∧
    (∀ l r, (∀ env, runIR irTable w l env = liftE (eval w l env)) → (∀ env, runIR irTable w r env = liftE (eval w r env)) →
      ∀ env, runIR irTable w (.and l r) env = liftE (eval w (.and l r) env)) :=
  ⟨fun e h env => C01_runIR_eq_eval_not_partial w e env (h env),
   fun l r hl hr env => C01_runIR_eq_eval_and_partial w l r env (hl env) (fun _ _ p _ _ => hr p.1)⟩

/-! ### OR: `evaluate_right`, `evaluate_left`, `ElseIf`, `Union` -/

theorem evalE_rightCall_src (lower : CallH) (nd : Node) (w : World) (b : IEnv) (L : List (String × V)) (s : Bool) :
    evalE lower nd w (.call (.att (.att .self "right") "_evaluate__") (.cons (.nm "sources") (.cons (.kw "parent" .self) .nil)))
        { locals := ("sources", .env b) :: L, isFalse := s }
      = (nd.ev .right b.env >>= fun rs => pure (wrapChild b .right rs, s)) := by
  rfl

abbrev orRightBody : St :=
  (.seq (.assign (.att .self "_is_false_") (.att (.nm "v1") "is_false")) (.seq (.assign (.att .self "right_evaluated") (.cst "True")) (.yld (.call (.nm "OperationResult") (.cons (.att (.nm "v1") "bindings") (.cons (.att .self "_is_false_") (.cons .self .nil)))))))

theorem or_right_body (lower : CallH) (nd : Node) (w : World) (X Y : V) (r : IRes) (fr : Frame)
    (hfr : fr.locals = [("v0", X), ("sources", Y)] ∨ ∃ y, fr.locals = ("v1", y) :: [("v0", X), ("sources", Y)]) :
    (do let fr2 ← bindTarget fr (.nm "v1") (V.res r); exec lower nd w orRightBody fr2)
      = .ok { fr := copyStep [("v0", X), ("sources", Y)] r fr, ys := [V.res r], ctl := .next } := by
  obtain ⟨L, s⟩ := fr
  rcases hfr with h | ⟨y, h⟩ <;> (simp only at h; subst h; rfl)

theorem exec_seq_ok (lower : CallH) (nd : Node) (w : World) (a b : St) (fr fr1 : Frame) (ys1 : List V)
    (h : exec lower nd w a fr = .ok { fr := fr1, ys := ys1, ctl := .next }) :
    exec lower nd w (.seq a b) fr
      = (exec lower nd w b fr1 >>= fun o2 => pure { fr := o2.fr, ys := ys1 ++ o2.ys, ctl := o2.ctl }) := by
  rw [exec, h]; rfl

/-- the flag `evaluate_right` leaves behind: the `is_false` of the last right result, or the incoming one -/
def orRightFlag (b : IEnv) (s0 : Bool) (rs : List (Env × Val × Bool)) : Bool :=
  (rs.foldl (fun f a => copyStep [("v0", wrapChild b .right rs), ("sources", V.env b)] (wrapC .right b a) f)
    { locals := [("v0", wrapChild b .right rs), ("sources", V.env b)], isFalse := s0 }).isFalse

theorem or_right_call (nd : Node) (hfind : irTable.find nd.cls "evaluate_right" = some mOrRight) (w : World)
    (lower : CallH) (b : IEnv) (s0 : Bool) :
    callWith irTable nd w lower "evaluate_right" [V.env b] s0
      = (nd.ev .right b.env >>= fun rs => pure (V.list (rs.map fun a => V.res (wrapC .right b a)), orRightFlag b s0 rs)) := by
  rw [callWith_find _ _ _ _ _ _ _ mOrRight hfind]
  simp only [mOrRight, bindParams]
  rw [exec_seq_det lower nd w _ _ _ { locals := [("sources", V.env b)], isFalse := s0 } (by rfl)]
  rw [exec_seq_assign_nm, evalE_rightCall_src]
  cases hF : nd.ev .right b.env with
  | error e => rfl
  | ok rs =>
    have hloop : exec lower nd w (.forIn (.nm "v1") (.nm "v0") orRightBody)
          { locals := [("v0", wrapChild b .right rs), ("sources", V.env b)], isFalse := s0 }
        = .ok { fr := rs.foldl (fun f a => copyStep [("v0", wrapChild b .right rs), ("sources", V.env b)] (wrapC .right b a) f)
                        { locals := [("v0", wrapChild b .right rs), ("sources", V.env b)], isFalse := s0 },
                ys := rs.flatMap (fun a => [V.res (wrapC .right b a)]), ctl := .next } := by
      rw [exec_forIn]
      show loopSt (rs.map fun a => V.res (wrapC .right b a)) { locals := [("v0", wrapChild b .right rs), ("sources", V.env b)], isFalse := s0 }
              (fun x fr1 => do let fr2 ← bindTarget fr1 (.nm "v1") x; exec lower nd w orRightBody fr2) = _
      exact loopSt_det _ (fun fr => fr.locals = [("v0", wrapChild b .right rs), ("sources", V.env b)] ∨ ∃ y, fr.locals = ("v1", y) :: [("v0", wrapChild b .right rs), ("sources", V.env b)])
        (fun a => copyStep [("v0", wrapChild b .right rs), ("sources", V.env b)] (wrapC .right b a))
        (fun a => [V.res (wrapC .right b a)]) (fun a => V.res (wrapC .right b a))
        (fun a fr hfr => ⟨Or.inr ⟨_, rfl⟩, or_right_body lower nd w _ _ _ fr hfr⟩) _ _ (Or.inl rfl)
    show (exec lower nd w (.seq (.forIn (.nm "v1") (.nm "v0") orRightBody) (.assign (.att .self "right_evaluated") (.cst "False")))
            { locals := [("v0", wrapChild b .right rs), ("sources", V.env b)], isFalse := s0 } >>= post) = _
    have hassign : ∀ fr : Frame, exec lower nd w (.assign (.att .self "right_evaluated") (.cst "False")) fr
        = .ok { fr := fr, ys := [], ctl := .next } := fun fr => rfl
    rw [exec_seq_ok lower nd w _ _ _ _ _ hloop, flatMap_single, hassign]
    show (post { fr := _, ys := (rs.map fun a => V.res (wrapC .right b a)) ++ [], ctl := .next }) = _
    rw [List.append_nil]
    rfl

/-- `flatMapM` in `R` with the `_is_false_` flag threaded from one element to the next -/
def flatMapRF {α γ} (xs : List α) (g : α → Bool → R γ) (ysOf : γ → List V) (flagOf : γ → Bool) (s : Bool) :
    R (List V × Bool) :=
  match xs with
  | [] => .ok ([], s)
  | a :: r => do
    let c ← g a s
    let p ← flatMapRF r g ysOf flagOf (flagOf c)
    pure (ysOf c ++ p.1, p.2)

/-- `loopSt_spec` with the flag: the body may read the incoming flag and leaves `flagOf` of its result behind -/
theorem loopSt_specF {α β γ} (body : V → Frame → R Out) (Inv : Frame → Prop) (g : α → Bool → R γ) (ysOf : γ → List V)
    (flagOf : γ → Bool) (toV : α → V)
    (hbody : ∀ a fr, Inv fr → ∃ nxt : γ → Frame, (∀ c, Inv (nxt c) ∧ (nxt c).isFalse = flagOf c) ∧
      body (toV a) fr = (g a fr.isFalse >>= fun c => pure { fr := nxt c, ys := ysOf c, ctl := .next }))
    (xs : List α) : ∀ (fr : Frame) (k : List V → Ctl → Bool → R β), Inv fr →
      (loopSt (xs.map toV) fr body >>= fun o => k o.ys o.ctl o.fr.isFalse)
        = (flatMapRF xs g ysOf flagOf fr.isFalse >>= fun p => k p.1 .next p.2) := by
  induction xs with
  | nil => intro fr k _; rfl
  | cons a rest ih =>
    intro fr k hfr
    obtain ⟨nxt, hinv, hb⟩ := hbody a fr hfr
    rw [List.map_cons, loopSt, hb]
    cases hg : g a fr.isFalse with
    | error e => rw [flatMapRF, hg]; rfl
    | ok c =>
      have h1 := ih (nxt c) (fun ys c' s => k (ysOf c ++ ys) c' s) (hinv c).1
      rw [(hinv c).2] at h1
      rw [flatMapRF, hg]
      show ((loopSt (List.map toV rest) (nxt c) body >>= fun o2 => (pure { fr := o2.fr, ys := ysOf c ++ o2.ys, ctl := o2.ctl } : R Out)) >>= fun o => k o.ys o.ctl o.fr.isFalse)
        = ((flatMapRF rest g ysOf flagOf (flagOf c) >>= fun p => (pure (ysOf c ++ p.1, p.2) : R (List V × Bool))) >>= fun p => k p.1 .next p.2)
      rw [bind_assoc, bind_assoc]
      simp only [pure_bind]
      exact h1

abbrev orLeftBody : St :=
  (.seq (.assign (.att .self "left_evaluated") (.cst "True")) (.seq (.assign (.nm "v2") (.att (.nm "v1") "is_false")) (.ifte (.nm "v2") (.yldFrom (.call (.att .self "evaluate_right") (.cons (.att (.nm "v1") "bindings") .nil))) (.seq (.assign (.att .self "_is_false_") (.cst "False")) (.yld (.call (.nm "OperationResult") (.cons (.att (.nm "v1") "bindings") (.cons (.att .self "_is_false_") (.cons .self .nil)))))))))

def LBl (X S : V) : List (String × V) := [("v0", X), ("sources", S)]

set_option maxHeartbeats 3200000 in
theorem or_left_body_true (lower : CallH) (nd : Node) (w : World) (X S : V) (b : IEnv) (fr : Frame)
    (hfr : fr.locals = LBl X S ∨ ∃ y z, fr.locals = ("v2", z) :: ("v1", y) :: LBl X S) :
    (do let fr2 ← bindTarget fr (.nm "v1") (V.res { b := b, isFalse := false }); exec lower nd w orLeftBody fr2)
      = .ok { fr := { locals := ("v2", .bool false) :: ("v1", V.res { b := b, isFalse := false }) :: LBl X S, isFalse := false },
              ys := [V.res { b := b, isFalse := false }], ctl := .next } := by
  obtain ⟨L, s⟩ := fr
  rcases hfr with h | ⟨y, z, h⟩ <;> (simp only at h; subst h; rfl)

set_option maxHeartbeats 3200000 in
theorem or_left_body_false (lower : CallH) (nd : Node) (w : World) (X S : V) (b : IEnv) (fr : Frame)
    (hfr : fr.locals = LBl X S ∨ ∃ y z, fr.locals = ("v2", z) :: ("v1", y) :: LBl X S) :
    (do let fr2 ← bindTarget fr (.nm "v1") (V.res { b := b, isFalse := true }); exec lower nd w orLeftBody fr2)
      = (lower "evaluate_right" [V.env b] fr.isFalse >>= fun p => iterV p.1 >>= fun xs =>
          pure { fr := { locals := ("v2", .bool true) :: ("v1", V.res { b := b, isFalse := true }) :: LBl X S, isFalse := p.2 },
                 ys := xs, ctl := .next }) := by
  obtain ⟨L, s⟩ := fr
  have h1 : (do let fr2 ← bindTarget { locals := L, isFalse := s } (.nm "v1") (V.res { b := b, isFalse := true }); exec lower nd w orLeftBody fr2)
      = exec lower nd w (.ifte (.nm "v2") (.yldFrom (.call (.att .self "evaluate_right") (.cons (.att (.nm "v1") "bindings") .nil))) (.seq (.assign (.att .self "_is_false_") (.cst "False")) (.yld (.call (.nm "OperationResult") (.cons (.att (.nm "v1") "bindings") (.cons (.att .self "_is_false_") (.cons .self .nil)))))))
          { locals := ("v2", .bool true) :: ("v1", V.res { b := b, isFalse := true }) :: LBl X S, isFalse := s } := by
    rcases hfr with h | ⟨y, z, h⟩ <;>
      (simp only at h; subst h
       rw [show (do let fr2 ← bindTarget { locals := _, isFalse := s } (.nm "v1") (V.res { b := b, isFalse := true }); exec lower nd w orLeftBody fr2)
            = exec lower nd w orLeftBody { locals := ("v1", V.res { b := b, isFalse := true }) :: LBl X S, isFalse := s } from rfl]
       rw [exec_seq_det lower nd w _ _ _ { locals := ("v1", V.res { b := b, isFalse := true }) :: LBl X S, isFalse := s } (by rfl)]
       rw [exec_seq_det lower nd w _ _ _ { locals := ("v2", .bool true) :: ("v1", V.res { b := b, isFalse := true }) :: LBl X S, isFalse := s } (by rfl)])
  rw [h1]
  rfl


/-! ### non-vacuity: the hypotheses of the node and step theorems are satisfiable, and the interpreter runs in the kernel -/

example : ∃ nd : Node, nd.cls = "Not" ∧ nd.keyOf .self = none := ⟨{ cls := "Not" }, rfl, rfl⟩
example : ∃ nd : Node, nd.cls = "AND" ∧ nd.keyOf .self = none := ⟨{ cls := "AND" }, rfl, rfl⟩

def w0 : World := { objs := [], doms := [(0, [.bool true, .bool false])] }

/-- a leaf on which the kernel checks the agreement by evaluation (`Variable._evaluate__` as a condition) -/
theorem leaf0 : runIR irTable w0 (.truth (.var 0)) [] = liftE (eval w0 (.truth (.var 0)) []) := by rfl

example : runIR irTable w0 (.not (.truth (.var 0))) [] = liftE (eval w0 (.not (.truth (.var 0))) []) :=
  C01_runIR_eq_eval_not_partial w0 _ _ leaf0

example : runIR irTable w0 (.and (.truth (.var 0)) (.not (.truth (.var 0)))) []
    = liftE (eval w0 (.and (.truth (.var 0)) (.not (.truth (.var 0)))) []) := by
  refine C01_runIR_eq_eval_and_partial w0 _ _ _ leaf0 ?_
  intro ls hls p hp _
  have : ls = [([(.var 0, .bool true)], true), ([(.var 0, .bool false)], true)] := by
    have h0 : eval w0 (.truth (.var 0)) [] = .ok [([(.var 0, .bool true)], true), ([(.var 0, .bool false)], true)] := by rfl
    rw [h0] at hls; cases hls; rfl
  subst this
  simp only [List.mem_cons, List.mem_nil_iff, or_false] at hp
  rcases hp with rfl | rfl <;> exact C01_runIR_eq_eval_not_partial w0 _ _ (by rfl)

end KrroodVerif.Eql.IR
