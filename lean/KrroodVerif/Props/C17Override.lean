import KrroodVerif.Model.ClassDiagram
/-!
C17 — field overriding: a subclass that re-declares a field name of one of its bases.

`CD.fieldTable` models `dataclasses.fields(cls)` / `typing.get_type_hints(cls)` with `upsert` ("`fields[f.name] = f` on an
insertion-ordered dict"). The theorems below say what that means for a class that declares a name again:

* `C17_fields_names_nodup` — for EVERY world and class, no field name occurs twice among the fields of the class (so the
  hypothesis `WFInput.names_nodup` of `C17_edges` holds for every input: `C17_public_names_nodup`);
* `C17_fieldsOf_unfold` — the fields of a class are its bases' fields (right to left) followed by its own, folded with
  `upsert` (the table of the classes defined before it is not disturbed by later definitions);
* `C17_override_most_derived` — the class' own declaration of a name is the field the class has, whatever its bases
  declare under that name;
* `C17_inherited_unless_redeclared` — a field of the (single) base that the class does not declare again is a field of
  the class, unchanged;
* `C17_override_keeps_position` — re-declaring a name does not move it: the field names of the (single) base are a prefix
  of the field names of the class.
-/
namespace KrroodVerif.CD

theorem upsert_names (fs : List Field) (f : Field) :
    (upsert fs f).map (·.name) =
      if fs.any (fun g => g.name == f.name) then fs.map (·.name) else fs.map (·.name) ++ [f.name] := by
  unfold upsert
  split
  · rw [List.map_map]
    apply List.map_congr_left
    intro g _
    simp only [Function.comp]
    split
    · rename_i h
      exact (beq_iff_eq.mp h).symm
    · rfl
  · simp

theorem upsert_nodup {fs : List Field} {f : Field} (h : (fs.map (·.name)).Nodup) :
    ((upsert fs f).map (·.name)).Nodup := by
  rw [upsert_names]
  split
  · exact h
  · rename_i hn
    refine List.nodup_append.mpr ⟨h, by simp, ?_⟩
    intro a ha b hb hab
    rw [List.mem_singleton] at hb
    obtain ⟨g, hg, hga⟩ := List.mem_map.mp ha
    apply hn
    rw [List.any_eq_true]
    exact ⟨g, hg, beq_iff_eq.mpr (by rw [hga, hab, hb])⟩

theorem foldl_upsert_nodup (xs : List Field) :
    ∀ acc : List Field, (acc.map (·.name)).Nodup → ((xs.foldl upsert acc).map (·.name)).Nodup := by
  induction xs with
  | nil => intro acc h; exact h
  | cons x xs ih => intro acc h; exact ih _ (upsert_nodup h)

/-- one step of `fieldTable` -/
def tableStep (tbl : List (Nat × List Field)) (c : ClassDef) : List (Nat × List Field) :=
  tbl ++ [(c.id, ((c.bases.reverse.flatMap (lookupFields tbl)) ++ c.own).foldl upsert [])]

theorem fieldTable_eq (defs : List ClassDef) : fieldTable defs = defs.foldl tableStep [] := rfl

theorem foldl_tableStep_nodup (ds : List ClassDef) :
    ∀ tbl : List (Nat × List Field), (∀ p ∈ tbl, (p.2.map (·.name)).Nodup) →
      ∀ p ∈ ds.foldl tableStep tbl, (p.2.map (·.name)).Nodup := by
  induction ds with
  | nil => intro tbl h; exact h
  | cons d ds ih =>
    intro tbl h
    apply ih
    intro p hp
    unfold tableStep at hp
    rcases List.mem_append.mp hp with hp | hp
    · exact h p hp
    · rw [List.mem_singleton] at hp
      subst hp
      exact foldl_upsert_nodup _ [] List.nodup_nil

theorem lookupFields_nodup (tbl : List (Nat × List Field)) (h : ∀ p ∈ tbl, (p.2.map (·.name)).Nodup) (c : Nat) :
    ((lookupFields tbl c).map (·.name)).Nodup := by
  unfold lookupFields
  split
  · rename_i p hp
    exact h p (List.mem_of_find?_eq_some hp)
  · exact List.nodup_nil

/-- **C17_fields_names_nodup.** Whatever the classes declare and re-declare: no class has two fields of one name. -/
theorem C17_fields_names_nodup (w : World) (c : Nat) : ((w.fieldsOf c).map (·.name)).Nodup :=
  lookupFields_nodup _ (foldl_tableStep_nodup w.defs [] (fun _ h => nomatch h)) c

/-- the same for the fields the introspector discovers: `WFInput.names_nodup` holds for every world and class list -/
theorem C17_public_names_nodup (w : World) (c : Nat) : ((w.publicFields c).map (·.name)).Nodup :=
  List.Nodup.sublist (List.Sublist.map _ List.filter_sublist) (C17_fields_names_nodup w c)

/-! ### the table of earlier classes is not disturbed by later definitions -/

theorem foldl_tableStep_prefix (ds : List ClassDef) :
    ∀ tbl : List (Nat × List Field), ∃ ext, ds.foldl tableStep tbl = tbl ++ ext ∧ ext.map (·.1) = ds.map (·.id) := by
  induction ds with
  | nil => intro tbl; exact ⟨[], by simp⟩
  | cons d ds ih =>
    intro tbl
    obtain ⟨ext, he, hi⟩ := ih (tableStep tbl d)
    refine ⟨(d.id, ((d.bases.reverse.flatMap (lookupFields tbl)) ++ d.own).foldl upsert []) :: ext, ?_, ?_⟩
    · rw [List.foldl_cons, he]
      unfold tableStep
      simp
    · simp [hi]

theorem lookupFields_append_left (tbl ext : List (Nat × List Field)) (c : Nat) (h : c ∈ tbl.map (·.1)) :
    lookupFields (tbl ++ ext) c = lookupFields tbl c := by
  unfold lookupFields
  obtain ⟨p, hp, hpc⟩ := List.mem_map.mp h
  have : (tbl.find? (fun p => p.1 == c)).isSome := by
    rw [List.find?_isSome]
    exact ⟨p, hp, beq_iff_eq.mpr hpc⟩
  rw [List.find?_append]
  obtain ⟨x, hx⟩ := Option.isSome_iff_exists.mp this
  rw [hx]
  rfl

/-- **C17_fieldsOf_unfold.** `dataclasses.fields` of a class defined once: the fields of the bases as they were when the
class statement ran (right to left), then the own declarations, later declarations of a name replacing earlier ones
in place. -/
theorem C17_fieldsOf_unfold (ds rest : List ClassDef) (d : ClassDef) (hid : d.id ∉ ds.map (·.id)) :
    (World.mk (ds ++ d :: rest)).fieldsOf d.id =
      ((d.bases.reverse.flatMap (lookupFields (fieldTable ds))) ++ d.own).foldl upsert [] := by
  unfold World.fieldsOf
  show lookupFields (fieldTable (ds ++ d :: rest)) d.id = _
  rw [fieldTable_eq, List.foldl_append, List.foldl_cons, ← fieldTable_eq]
  obtain ⟨ext, he, _⟩ := foldl_tableStep_prefix rest (tableStep (fieldTable ds) d)
  rw [he]
  obtain ⟨ext0, he0, hi0⟩ := foldl_tableStep_prefix ds []
  have hids : (fieldTable ds).map (·.1) = ds.map (·.id) := by
    rw [fieldTable_eq, he0]; simpa using hi0
  unfold tableStep
  unfold lookupFields
  rw [List.append_assoc, List.find?_append]
  have hnone : (fieldTable ds).find? (fun p => p.1 == d.id) = none := by
    rw [List.find?_eq_none]
    intro p hp hpc
    apply hid
    rw [← hids]
    exact List.mem_map.mpr ⟨p, hp, beq_iff_eq.mp hpc⟩
  rw [hnone]
  simp

/-! ### which declaration a class ends up with -/

theorem mem_upsert_self (fs : List Field) (f : Field) : f ∈ upsert fs f := by
  unfold upsert
  split
  · rename_i h
    obtain ⟨g, hg, hgf⟩ := List.any_eq_true.mp h
    exact List.mem_map.mpr ⟨g, hg, by simp [hgf]⟩
  · simp

theorem mem_upsert_of_ne {fs : List Field} {f g : Field} (h : f ∈ fs) (hne : g.name ≠ f.name) : f ∈ upsert fs g := by
  unfold upsert
  split
  · refine List.mem_map.mpr ⟨f, h, ?_⟩
    have : (f.name == g.name) = false := beq_eq_false_iff_ne.mpr (fun e => hne e.symm)
    simp [this]
  · exact List.mem_append_left _ h

theorem mem_foldl_upsert (xs : List Field) :
    ∀ (acc : List Field) (f : Field), f ∈ acc → (∀ g ∈ xs, g.name ≠ f.name) → f ∈ xs.foldl upsert acc := by
  induction xs with
  | nil => intro acc f h _; exact h
  | cons x xs ih =>
    intro acc f h hne
    exact ih _ f (mem_upsert_of_ne h (hne x List.mem_cons_self)) (fun g hg => hne g (List.mem_cons_of_mem _ hg))

/-- the last declaration of a name is the one that stays -/
theorem mem_foldl_upsert_last (pre post acc : List Field) (f : Field) (h : ∀ g ∈ post, g.name ≠ f.name) :
    f ∈ (pre ++ f :: post).foldl upsert acc := by
  rw [List.foldl_append, List.foldl_cons]
  exact mem_foldl_upsert post _ f (mem_upsert_self _ f) h

theorem later_names_ne {l : List Field} (hn : (l.map (·.name)).Nodup) {s t : List Field} {f : Field}
    (hl : l = s ++ f :: t) : ∀ g ∈ t, g.name ≠ f.name := by
  subst hl
  intro g hg e
  rw [List.map_append, List.map_cons] at hn
  have h2 := (List.nodup_append.mp hn).2.1
  exact (List.nodup_cons.mp h2).1 (e ▸ List.mem_map.mpr ⟨g, hg, rfl⟩)

/-- **C17_override_most_derived.** A class that declares field `f` itself (each name once in its body) has exactly that
declaration among its fields — whatever annotation its bases give to the same name — and, by `C17_fields_names_nodup`,
no other field of that name. -/
theorem C17_override_most_derived (ds rest : List ClassDef) (d : ClassDef) (hid : d.id ∉ ds.map (·.id))
    (hown : (d.own.map (·.name)).Nodup) (f : Field) (hf : f ∈ d.own) :
    f ∈ (World.mk (ds ++ d :: rest)).fieldsOf d.id ∧
    ∀ g ∈ (World.mk (ds ++ d :: rest)).fieldsOf d.id, g.name = f.name → g = f := by
  have hmem : f ∈ (World.mk (ds ++ d :: rest)).fieldsOf d.id := by
    rw [C17_fieldsOf_unfold ds rest d hid]
    obtain ⟨s, t, hst⟩ := List.append_of_mem hf
    rw [hst, ← List.append_assoc]
    exact mem_foldl_upsert_last _ t [] f (later_names_ne hown hst)
  refine ⟨hmem, ?_⟩
  intro g hg hname
  have hn := C17_fields_names_nodup (World.mk (ds ++ d :: rest)) d.id
  generalize (World.mk (ds ++ d :: rest)).fieldsOf d.id = l at hmem hg hn
  induction l with
  | nil => cases hg
  | cons x l ih =>
    rw [List.map_cons] at hn
    have hc := List.nodup_cons.mp hn
    rcases List.mem_cons.mp hg with rfl | hg' <;> rcases List.mem_cons.mp hmem with rfl | hf'
    · rfl
    · exact absurd (List.mem_map.mpr ⟨f, hf', hname.symm⟩) hc.1
    · exact absurd (List.mem_map.mpr ⟨g, hg', hname⟩) hc.1
    · exact ih hf' hg' hc.2

/-- **C17_inherited_unless_redeclared.** Single inheritance: a field of the base whose name the class does not declare
again is a field of the class, with the base's annotation. -/
theorem C17_inherited_unless_redeclared (ds rest : List ClassDef) (d : ClassDef) (b : Nat)
    (hid : d.id ∉ ds.map (·.id)) (hb : d.bases = [b]) (f : Field) (hf : f ∈ (World.mk ds).fieldsOf b)
    (hno : ∀ g ∈ d.own, g.name ≠ f.name) :
    f ∈ (World.mk (ds ++ d :: rest)).fieldsOf d.id := by
  rw [C17_fieldsOf_unfold ds rest d hid, hb]
  have hn : (((World.mk ds).fieldsOf b).map (·.name)).Nodup := C17_fields_names_nodup _ b
  unfold World.fieldsOf at hf hn
  simp only [List.reverse_cons, List.reverse_nil, List.nil_append, List.flatMap_cons, List.flatMap_nil,
    List.append_nil]
  obtain ⟨s, t, hst⟩ := List.append_of_mem hf
  have ht := later_names_ne hn hst
  show f ∈ (lookupFields (fieldTable ds) b ++ d.own).foldl upsert []
  rw [hst, List.append_assoc, List.cons_append]
  apply mem_foldl_upsert_last
  intro g hg
  rcases List.mem_append.mp hg with hg | hg
  · exact ht g hg
  · exact hno g hg

/-! ### a re-declared field keeps its position -/

theorem foldl_upsert_self (xs : List Field) :
    ∀ acc : List Field, ((acc ++ xs).map (·.name)).Nodup → xs.foldl upsert acc = acc ++ xs := by
  induction xs with
  | nil => intro acc _; simp
  | cons x xs ih =>
    intro acc h
    have hx : ¬ (acc.any (fun g => g.name == x.name) = true) := by
      intro hany
      obtain ⟨g, hg, hgx⟩ := List.any_eq_true.mp hany
      rw [List.map_append, List.map_cons] at h
      exact (List.nodup_append.mp h).2.2 g.name (List.mem_map.mpr ⟨g, hg, rfl⟩) x.name List.mem_cons_self
        (beq_iff_eq.mp hgx)
    have hu : upsert acc x = acc ++ [x] := by
      unfold upsert
      rw [if_neg hx]
    rw [List.foldl_cons, hu, ih (acc ++ [x]) (by simpa using h)]
    simp

theorem foldl_upsert_names_prefix (xs : List Field) :
    ∀ acc : List Field, ∃ ext, (xs.foldl upsert acc).map (·.name) = acc.map (·.name) ++ ext := by
  induction xs with
  | nil => intro acc; exact ⟨[], by simp⟩
  | cons x xs ih =>
    intro acc
    obtain ⟨ext, he⟩ := ih (upsert acc x)
    rw [List.foldl_cons, he, upsert_names]
    split
    · exact ⟨ext, rfl⟩
    · exact ⟨x.name :: ext, by simp⟩

/-- **C17_override_keeps_position.** Single inheritance: the field names of the base, in the base's order, are a prefix of
the field names of the class — a re-declared name stays where the base introduced it (`dataclasses.fields` order),
only its annotation is the new one (`C17_override_most_derived`). -/
theorem C17_override_keeps_position (ds rest : List ClassDef) (d : ClassDef) (b : Nat)
    (hid : d.id ∉ ds.map (·.id)) (hb : d.bases = [b]) :
    ∃ ext, ((World.mk (ds ++ d :: rest)).fieldsOf d.id).map (·.name) =
      ((World.mk ds).fieldsOf b).map (·.name) ++ ext := by
  rw [C17_fieldsOf_unfold ds rest d hid, hb]
  have hn : (((World.mk ds).fieldsOf b).map (·.name)).Nodup := C17_fields_names_nodup _ b
  unfold World.fieldsOf at hn ⊢
  simp only [List.reverse_cons, List.reverse_nil, List.nil_append, List.flatMap_cons, List.flatMap_nil,
    List.append_nil]
  rw [List.foldl_append, foldl_upsert_self _ [] (by simpa using hn)]
  exact foldl_upsert_names_prefix d.own _

/-! ### non-vacuity and the concrete shape: `C0 {f0: C3, f1: int}`, `C1(C0)`, `C2(C1) {f2: int, f0: List[C4]}` -/

def wOverride : World :=
  ⟨[⟨3, [], []⟩, ⟨4, [3], []⟩,
    ⟨0, [], [⟨⟨false, 0⟩, .cls 3⟩, ⟨⟨false, 1⟩, .builtin .int⟩]⟩,
    ⟨1, [0], []⟩,
    ⟨2, [1], [⟨⟨false, 2⟩, .builtin .int⟩, ⟨⟨false, 0⟩, .container .list (.cls 4)⟩]⟩]⟩

/-- the most derived declaration wins and keeps the position of the first introduction; the base keeps its own -/
example : wOverride.fieldsOf 2 =
    [⟨⟨false, 0⟩, .container .list (.cls 4)⟩, ⟨⟨false, 1⟩, .builtin .int⟩, ⟨⟨false, 2⟩, .builtin .int⟩] ∧
    wOverride.fieldsOf 1 = [⟨⟨false, 0⟩, .cls 3⟩, ⟨⟨false, 1⟩, .builtin .int⟩] := by decide

/-- the association edge of the subclass follows its own declaration, the one of the base the base's -/
example : (build .current wOverride [0, 1, 2, 3, 4]).edges.filter (fun e => e.kind == .assoc ⟨false, 0⟩) =
    [⟨0, 3, .assoc ⟨false, 0⟩⟩, ⟨1, 3, .assoc ⟨false, 0⟩⟩, ⟨2, 4, .assoc ⟨false, 0⟩⟩] := by decide

example : (2 : Nat) ∉ ([⟨3, [], []⟩, ⟨4, [3], []⟩] : List ClassDef).map (·.id) := by decide

end KrroodVerif.CD
