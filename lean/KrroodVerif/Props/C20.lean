import KrroodVerif.Props.C13
import KrroodVerif.Drive.SG
/-!
# C20 — krrood never extends the lifetime of user objects

Reachability in the model stands for reclamation (CPython's collector is assumed, see the manifest).
`C20_registry_bounded*`: with the repaired `remove_node`, after a sweep every entry of every SymbolGraph structure
belongs to a live instance, for every history and allocator. `C20_no_pins_no_survivors`: once the expression table
releases dropped query objects, nothing survives the user's references. The two `cex` theorems are the Lean side of
the findings F-C20-1 / F-C20-2 (tests on concrete witnesses).
-/
namespace KrroodVerif.SG

variable {σ : Type}

/-- "no bookkeeping entry left behind": every entry of every index belongs to a live instance -/
structure Clean (h : Heap) (g : SG σ) : Prop where
  nodesLive : ∀ w ∈ g.nodes, h.isLive w.obj = true
  nodesLe : g.nodes.length ≤ h.live.length
  byClass : g.byClass = g.nodes
  instNodes : ∀ kw ∈ g.instIdx, kw.2 ∈ g.nodes
  instLe : g.instIdx.length ≤ g.nodes.length
  edgesLive : ∀ e ∈ g.edges, e.src ∈ g.nodes ∧ e.tgt ∈ g.nodes
  relEdges : ∀ r ∈ g.relIdx, ∃ e ∈ g.edges, r = (e.fld, e.src.idx, e.tgt.idx)

/-- **C20_registry_bounded.** From the invariant: with the repaired `remove_node` (`_relation_index` purged,
`_instance_index` entry removed by the stored id), after `remove_dead_instances` every SymbolGraph structure only
holds entries of live instances, and none is larger than the number of live instances (nodes, class lists, instance
index) or than the set of relations among them (relation index). -/
theorem C20_registry_bounded (q : Quirks) (a : Alloc σ) (st : St σ) (hI : Inv q st)
    (h1 : q.keepDeadIndex = false) (h2 : q.staleRelIndex = false) :
    Clean st.h (sweep q a st.g st.h.isLive) := by
  have hI' : Inv q { st with g := SG.sweep q a st.g st.h.isLive } := hI.sweep
  have hlive : ∀ w ∈ (SG.sweep q a st.g st.h.isLive).nodes, st.h.isLive w.obj = true :=
    fun w hw => ((mem_sweep_nodes hI w).1 hw).2
  constructor
  · exact hlive
  · -- the nodes inject into the live instances through their labels
    have hnd : ((SG.sweep q a st.g st.h.isLive).nodes.map (·.obj)).Nodup :=
      List.Nodup.map_on (fun w1 h1 w2 h2 he => hI'.objInj w1 h1 w2 h2 he) hI'.nodesNodup
    have hsub : (SG.sweep q a st.g st.h.isLive).nodes.map (·.obj) ⊆ st.h.live.map (·.obj) := by
      intro o ho
      obtain ⟨w, hw, rfl⟩ := List.mem_map.1 ho
      obtain ⟨x, hx, hxo⟩ := (isLive_iff _ _).1 (hlive w hw)
      exact List.mem_map.2 ⟨x, hx, hxo⟩
    have := hnd.length_le_of_subset hsub
    simpa using this
  · exact hI'.byClassEq
  · intro kw hkw; exact (hI'.instNode kw hkw (Or.inl h1)).1
  · have hnd : ((SG.sweep q a st.g st.h.isLive).instIdx.map (·.2)).Nodup := by
      refine List.Nodup.map_on ?_ hI'.instNodup
      intro k1 hk1 k2 hk2 he
      have e1 := (hI'.instNode k1 hk1 (Or.inl h1)).2
      have e2 := (hI'.instNode k2 hk2 (Or.inl h1)).2
      exact hI'.instKeys k1 hk1 k2 hk2 (by rw [e1, e2, he])
    have hsub : (SG.sweep q a st.g st.h.isLive).instIdx.map (·.2) ⊆ (SG.sweep q a st.g st.h.isLive).nodes := by
      intro w hw
      obtain ⟨kw, hkw, rfl⟩ := List.mem_map.1 hw
      exact (hI'.instNode kw hkw (Or.inl h1)).1
    have := hnd.length_le_of_subset hsub
    simpa using this
  · exact hI'.edgeNodes
  · exact hI'.relExact h2

/-- **C20_registry_bounded_run.** … after every history, under every valid allocator and every `id()` recycling. -/
theorem C20_registry_bounded_run (q : Quirks) (S : Schema) (a : Alloc σ) (ha : a.Valid) (ops : List Op)
    (h1 : q.keepDeadIndex = false) (h2 : q.staleRelIndex = false) :
    let st := run q S a ops
    Clean st.h (sweep q a st.g st.h.isLive) :=
  C20_registry_bounded q a _ (C13_inv_run q S a ha ops) h1 h2

theorem reach_nil (h : Heap) : ∀ n, h.reach n [] = []
  | 0 => rfl
  | n + 1 => by simp [Heap.reach]

/-- **C20_no_pins_no_survivors.** Once the expression table releases query objects the user dropped (quirk off),
a heap in which the user holds no instance and no query object has no live instance left after `gc.collect()`:
nothing in the model other than the user's references and the user's query objects is a root. -/
theorem C20_no_pins_no_survivors (q : Quirks) (h : Heap) (hq : q.exprTableLeak = false) (hheld : h.held = [])
    (hqv : ∀ v ∈ h.qvars, v.held = false) : (h.collect q).live = [] := by
  have hroots : h.roots q = [] := by
    unfold Heap.roots
    have : h.qvars.filter (fun v => v.held || q.exprTableLeak) = [] := by
      rw [List.filter_eq_nil_iff]; intro v hv; simp [hqv v hv, hq]
    simp [hheld, this]
  unfold Heap.collect Heap.garbage Heap.kill
  simp only [hroots, reach_nil]
  simp only [List.contains_eq_mem, List.not_mem_nil, decide_false, Bool.not_false, List.filter_true,
    List.filter_eq_nil_iff]
  intro x hx
  simp only [List.mem_map, Bool.not_eq_eq_eq_not, Bool.not_true, decide_eq_false_iff_not,
    not_exists, not_and, not_forall, Decidable.not_not]
  simpa using ⟨x, hx, rfl⟩

/-- **C20_current_no_pins_no_survivors.** The code as it is (`Quirks.asIs`: the expression table releases dropped query
objects since the repair of F-C20-1): in every heap in which the user holds no instance and no query object, nothing is
alive after `gc.collect()`. -/
theorem C20_current_no_pins_no_survivors (h : Heap) (hheld : h.held = [])
    (hqv : ∀ v ∈ h.qvars, v.held = false) : (h.collect Quirks.asIs).live = [] :=
  C20_no_pins_no_survivors Quirks.asIs h rfl hheld hqv

/-- **C20_cex_query_cache** (test on a concrete witness = finding F-C20-1, repaired): an instance is created, a query
over its type is built, evaluated and dropped, the instance is dropped. Before the repair (`Quirks.leaky`) it was still
alive (root: expression table → Variable → cached domain), stayed in the census, and the table had grown. The code as it
is reclaims it and the table is back to its size. -/
theorem C20_cex_query_cache :
    let ops := [Op.new 0 0 0, .mkq 1 0 none, .evalq 1, .dropq 1, .drop 0, .sweep]
    ((run Quirks.leaky cexSchema lifo ops).h.isLive 0 = true ∧
     (run Quirks.leaky cexSchema lifo ops).g.nodes.length = 1 ∧
     (run Quirks.leaky cexSchema lifo ops).h.exprs = 1) ∧
    ((run Quirks.asIs cexSchema lifo ops).h.isLive 0 = false ∧
     (run Quirks.asIs cexSchema lifo ops).g.nodes.length = 0 ∧
     (run Quirks.asIs cexSchema lifo ops).h.exprs = 0) := by
  decide

/-- **C20_cex_index_entries** (test on a concrete witness = finding F-C20-2, repaired by c18b52a): two instances are created, related,
dropped, collected and swept: `_instance_index` and `_relation_index` keep their entries; none with the repair. -/
theorem C20_cex_index_entries :
    let ops := [Op.new 0 0 0, .new 1 0 1, .rel 0 0 1, .drop 0, .drop 1, .sweep]
    ((run Quirks.original cexSchema lifo ops).g.nodes.length = 0 ∧
     (run Quirks.original cexSchema lifo ops).g.instIdx.length = 2 ∧
     (run Quirks.original cexSchema lifo ops).g.relIdx.length = 1) ∧
    ((run Quirks.asIs cexSchema lifo ops).g.instIdx.length = 0 ∧
     (run Quirks.asIs cexSchema lifo ops).g.relIdx.length = 0) := by
  decide

/-! Non-vacuity: a non-trivial state meeting the hypotheses of `C20_registry_bounded` (instances related, one of
them dead and not yet swept), and of `C20_no_pins_no_survivors`. -/
example :
    let st := run Quirks.none cexSchema lifo [.new 0 0 0, .new 1 0 1, .new 2 1 2, .rel 0 0 1, .rel 0 1 2, .drop 1]
    st.g.nodes.length = 3 ∧ st.h.live.length = 2 ∧ (sweep Quirks.none lifo st.g st.h.isLive).nodes.length = 2 ∧
    (sweep Quirks.none lifo st.g st.h.isLive).relIdx.length = 0 := by
  decide
example :
    let h := (run Quirks.none cexSchema lifo [.new 0 0 0, .mkq 1 0 none, .evalq 1, .dropq 1]).h
    h.live.length = 1 ∧ ({ h with held := [] } : Heap).qvars = [] := by
  decide


/-- why the repaired `remove_node` compares the index entry with the wrapper before deleting it (a test; the general
fact is `Inv.removeNode`, proved for every `id()` assignment): instance 0 had id 7 and died; before the sweep a new
instance 1 got the recycled id 7 and overwrote the entry; the guarded removal keeps the entry of instance 1, popping
the stored id unconditionally would lose it (and the next `ensure_wrapped_instance` would wrap instance 1 twice).
Sampling cannot reach this: the harness cannot make CPython recycle an id at that moment. -/
example :
    let g1 := (addNode lifo (SG.empty lifo) 0 0 7).1
    let w0 := (addNode lifo (SG.empty lifo) 0 0 7).2
    let g2 := (addNode lifo g1 1 0 7).1
    lookup (removeNode Quirks.asIs lifo g2 w0) 7 = some ⟨1, 0, 1, 7⟩ ∧
    lookup ({ g2 with instIdx := g2.instIdx.filter (fun kw => kw.1 != w0.pid) } : SG (List Nat × Nat)) 7 = none := by
  decide

open KrroodVerif.Drive.SG in
/-- **C20_role_witness** (test on the schema of the harness; the theorems above hold for every history, role classes and
`Op.newrole` included): a role holds its role taker strongly BY DESIGN (`Chair.emp`), and the field contents the
inference writes are references the user can see (`chair.manages = org`; `emp.employer = org` inferred through the role
taker) — the registry adds nothing to that: (1) while the user holds only the chair, the Emp and the Org live on;
(2) once the chair is dropped too, all three are reclaimed and after a sweep no SymbolGraph structure has an entry left;
(3) a chair that is dropped while the user keeps its role taker dies alone (the role taker does not pin its role). -/
theorem C20_role_witness :
    let ops : List Op := [.new 0 2 0, .new 1 1 1, .newrole 2 8 2 0, .set 7 2 1, .drop 0, .drop 1]
    (run Quirks.asIs schema lifo ops).h.live.map (·.obj) = [0, 1, 2] ∧
    (run Quirks.asIs schema lifo (ops ++ [.drop 2, .sweep])).h.live = [] ∧
    (run Quirks.asIs schema lifo (ops ++ [.drop 2, .sweep])).g.nodes = [] ∧
    (run Quirks.asIs schema lifo (ops ++ [.drop 2, .sweep])).g.instIdx = [] ∧
    (run Quirks.asIs schema lifo (ops ++ [.drop 2, .sweep])).g.relIdx = [] ∧
    (run Quirks.asIs schema lifo (ops ++ [.drop 2, .sweep])).g.edges = [] ∧
    (run Quirks.asIs schema lifo [.new 0 2 0, .newrole 2 8 2 0, .drop 2, .sweep]).h.live.map (·.obj) = [0] ∧
    (run Quirks.asIs schema lifo [.new 0 2 0, .newrole 2 8 2 0, .drop 2, .sweep]).g.nodes.map (·.obj) = [0] := by
  decide

end KrroodVerif.SG
