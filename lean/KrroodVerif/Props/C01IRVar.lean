import KrroodVerif.Props.C01IROr
/-!
C01 (c01b) — `runIR irTable = eval`, continued: variables and literals used as CONDITIONS (`Variable._evaluate__` with a
bound value read twice under a stuck `env.lookup`: this one branch is evaluated by `simp` instead of the kernel), and the
hypothesis-free fragment theorem `C01_runIR_eq_eval_frag2_partial`.
-/
open KrroodVerif.Eql KrroodVerif.Eql.IR
namespace KrroodVerif.Eql.IR

def ndKeyC (cls : String) (k : Key) (d : List Val) : Node :=
  { cls := cls, keyOf := fun | .self => some k | _ => none, condPos := true, domain := some d }

theorem ok_bind {α β} (a : α) (f : α → R β) : (Except.ok a >>= f) = f a := rfl

set_option maxHeartbeats 2000000 in
theorem var_bound_c (lower : CallH) (cls : String) (k : Key) (d : List Val) (w : World) (env : Env) (x : Val)
    (h : env.lookup k = some x) :
    (exec lower (ndKeyC cls k d) w varBoundBranch (FRv env) >>= post >>= fun p => (pure p.1 : R V))
      = .ok (.list [V.res { b := { env := env }, isFalse := !truthy x }]) := by
  simp only [varBoundBranch, exec]
  simp (config := { decide := true }) [evalE, FRv, ndKeyC, ok_bind, bindTarget, Frame.set, truthyV, IEnv.get, h, List.lookup, positional, lookupKw, post]
  rfl

theorem var_test_c (lower : CallH) (cls : String) (k : Key) (d : List Val) (w : World) (env : Env) :
    evalE lower (ndKeyC cls k d) w (.bin "in" (.att .self "_id_") (.nm "sources")) (FRv env)
      = .ok (.bool (env.lookup k).isSome, false) := by
  rfl

theorem var_dom_body_c (lower : CallH) (cls : String) (k : Key) (d : List Val) (w : World) (env : Env) (y : Val) (fr : Frame)
    (hfr : fr = FRv env ∨ ∃ z, fr = { locals := ("v1", z) :: (FRv env).locals, isFalse := false }) :
    (do let fr2 ← bindTarget fr (.nm "v1") (V.val y); exec lower (ndKeyC cls k d) w varYield fr2)
      = .ok { fr := { locals := ("v1", V.val y) :: (FRv env).locals, isFalse := false },
              ys := [V.res { b := IEnv.bind (ndKeyC cls k d) (IEnv.merge { env := [] } { env := env }) .self y, isFalse := false }],
              ctl := .next } := by
  rcases hfr with rfl | ⟨z, rfl⟩ <;> rfl

/-- `Variable._evaluate__` (also `Literal`) for a node used as a CONDITION: a bound value is flagged with its truthiness -/
theorem runNode_keyC (cls : String) (hfind : irTable.find cls "_evaluate__" = some mVar) (k : Key) (d : List Val)
    (w : World) (env : Env) :
    runNode irTable (ndKeyC cls k d) w env = .ok (match env.lookup k with
      | some x => [(env, x, truthy x)]
      | none => d.map fun x => ((k, x) :: env, x, true)) := by
  rw [runNode_eq, callTop, callWith_find _ _ _ _ _ _ _ mVar hfind]
  simp only [mVar, bindParams]
  rw [prologue, exec_ifte_eq]
  rw [show ({ locals := [("sources", V.env { env := env }), ("parent", V.none)], isFalse := false } : Frame) = FRv env from rfl,
    var_test_c]
  cases h : env.lookup k with
  | some x =>
    show (exec (L3 (ndKeyC cls k d) w) (ndKeyC cls k d) w varBoundBranch (FRv env) >>= post >>= fun p => iterV p.1 >>= fun xs => xs.mapM (conv (ndKeyC cls k d))) = _
    have hb := var_bound_c (L3 (ndKeyC cls k d) w) cls k d w env x h
    have hk : (exec (L3 (ndKeyC cls k d) w) (ndKeyC cls k d) w varBoundBranch (FRv env) >>= post >>= fun p => iterV p.1 >>= fun xs => xs.mapM (conv (ndKeyC cls k d)))
        = ((exec (L3 (ndKeyC cls k d) w) (ndKeyC cls k d) w varBoundBranch (FRv env) >>= post >>= fun p => (pure p.1 : R V))
            >>= fun v => iterV v >>= fun xs => xs.mapM (conv (ndKeyC cls k d))) := by
      simp only [bind_assoc, pure_bind]
    rw [hk, hb]
    show [V.res { b := { env := env }, isFalse := !truthy x }].mapM (conv (ndKeyC cls k d)) = _
    simp [conv, ndKeyC, h, List.lookup]
    rfl
  | none =>
    show (exec (L3 (ndKeyC cls k d) w) (ndKeyC cls k d) w varDomBranch (FRv env) >>= post >>= fun p => iterV p.1 >>= fun xs => xs.mapM (conv (ndKeyC cls k d))) = _
    have hloop : exec (L3 (ndKeyC cls k d) w) (ndKeyC cls k d) w varDomBranch (FRv env)
        = .ok { fr := d.foldl (fun _ y => { locals := ("v1", V.val y) :: (FRv env).locals, isFalse := false }) (FRv env),
                ys := d.flatMap fun y => [V.res { b := IEnv.bind (ndKeyC cls k d) (IEnv.merge { env := [] } { env := env }) .self y, isFalse := false }],
                ctl := .next } := by
      show exec (L3 (ndKeyC cls k d) w) (ndKeyC cls k d) w (.forIn (.nm "v1") (.att .self "_domain_") varYield) (FRv env) = _
      rw [exec_forIn]
      show loopSt (d.map V.val) (FRv env) (fun x fr1 => do let fr2 ← bindTarget fr1 (.nm "v1") x; exec (L3 (ndKeyC cls k d) w) (ndKeyC cls k d) w varYield fr2) = _
      exact loopSt_det _ (fun fr => fr = FRv env ∨ ∃ z, fr = { locals := ("v1", z) :: (FRv env).locals, isFalse := false })
        (fun y _ => { locals := ("v1", V.val y) :: (FRv env).locals, isFalse := false })
        (fun y => [V.res { b := IEnv.bind (ndKeyC cls k d) (IEnv.merge { env := [] } { env := env }) .self y, isFalse := false }])
        V.val (fun y fr hfr => ⟨Or.inr ⟨_, rfl⟩, var_dom_body_c _ cls k d w env y fr hfr⟩) d (FRv env) (Or.inl rfl)
    rw [hloop, flatMap_single]
    show (d.map fun y => V.res { b := IEnv.bind (ndKeyC cls k d) (IEnv.merge { env := [] } { env := env }) .self y, isFalse := false }).mapM (conv (ndKeyC cls k d)) = _
    rw [mapM_conv_key (ndKeyC cls k d) k rfl]
    rfl

/-- a variable / a literal used as a CONDITION: `runIRTerm irTable` IS `evalTerm` (no hypothesis) -/
theorem C01_runIRTerm_var_cond (w : World) (v : VarId) (env : Env) :
    runIRTerm irTable w true (.var v) env = liftE (evalTerm w true (.var v) env) := by
  rw [runIRTerm]
  show runNode irTable (ndKeyC "Variable" (.var v) (w.dom v)) w env = _
  rw [runNode_keyC _ find_mVar]
  simp only [evalTerm, evalVarAt, boundFlag, liftE]
  cases env.lookup (.var v) <;> rfl

theorem C01_runIRTerm_lit_cond (w : World) (id : VarId) (x : Val) (env : Env) :
    runIRTerm irTable w true (.lit id x) env = liftE (evalTerm w true (.lit id x) env) := by
  rw [runIRTerm]
  show runNode irTable (ndKeyC "Literal" (.lit id) [x]) w env = _
  rw [runNode_keyC _ find_mVarLit]
  simp only [evalTerm, boundFlag, liftE]
  cases env.lookup (.lit id) <;> rfl

/-- the fragment on which `runIR irTable = eval` holds WITHOUT hypotheses: boolean variables / literals as conditions and
`HasType` of a variable or a literal, under `not_` / `and_` / `or_` (both forms) -/
inductive IRFrag2 : Expr → Prop where
  | truthVar (v : VarId) : IRFrag2 (.truth (.var v))
  | truthLit (id : VarId) (x : Val) : IRFrag2 (.truth (.lit id x))
  | hasTypeVar (v : VarId) (c : Nat) : IRFrag2 (.hasType (.var v) c)
  | hasTypeLit (id : VarId) (x : Val) (c : Nat) : IRFrag2 (.hasType (.lit id x) c)
  | not {e} (h : IRFrag2 e) : IRFrag2 (.not e)
  | and {l r} (hl : IRFrag2 l) (hr : IRFrag2 r) : IRFrag2 (.and l r)
  | elseIf {l r} (hl : IRFrag2 l) (hr : IRFrag2 r) : IRFrag2 (.elseIf l r)
  | union {l r} (hl : IRFrag2 l) (hr : IRFrag2 r) : IRFrag2 (.union l r)

/-- PARTIAL form of `∀ e env, runIR irTable w e env = liftE (eval w e env)`: proved on `IRFrag2`, for every world and every
environment (missing: `Comparator`, attribute / index / flatten terms, `Exists`, `ForAll`) -/
theorem C01_runIR_eq_eval_frag2_partial (w : World) : ∀ e, IRFrag2 e → ∀ env, runIR irTable w e env = liftE (eval w e env) := by
  intro e h
  induction h with
  | truthVar v => exact fun env => C01_runIR_eq_eval_truth_partial w _ env (C01_runIRTerm_var_cond w v env)
  | truthLit id x => exact fun env => C01_runIR_eq_eval_truth_partial w _ env (C01_runIRTerm_lit_cond w id x env)
  | hasTypeVar v c => exact fun env => C01_runIR_eq_eval_hasType_partial w _ c env (C01_runIRTerm_var_operand w v env)
  | hasTypeLit id x c => exact fun env => C01_runIR_eq_eval_hasType_partial w _ c env (C01_runIRTerm_lit_operand w id x env)
  | not _ ih => exact fun env => C01_runIR_eq_eval_not_partial w _ env (ih env)
  | and _ _ ihl ihr => exact fun env => C01_runIR_eq_eval_and_partial w _ _ env (ihl env) (fun _ _ p _ _ => ihr p.1)
  | elseIf _ _ ihl ihr => exact fun env => C01_runIR_eq_eval_elseIf_partial w _ _ env (ihl env) (fun _ _ p _ _ => ihr p.1)
  | union _ _ ihl ihr =>
    exact fun env => C01_runIR_eq_eval_union_partial w _ _ env (ihl env) (fun _ _ p _ _ => ihr p.1) (ihr env)

example : IRFrag2 (.and (.truth (.var 0)) (.union (.not (.truth (.var 1))) (.hasType (.var 0) 2))) :=
  .and (.truthVar 0) (.union (.not (.truthVar 1)) (.hasTypeVar 0 2))

end KrroodVerif.Eql.IR
