import KrroodVerif.Lemmas.EqlTyping
import KrroodVerif.Props.C01Union
/-!
# C01 / C02 on the well-typed fragment — no `.ok` hypotheses

Property theorems only (type system and lemmas: `Lemmas/EqlTyping.lean`).

The theorems of `Props/C01.lean`, `Props/C02.lean`, `Props/C01Union.lean` assume that the model of the engine
(`evalQuery`) and the first-order specification (`solutions`) both return `.ok`. Here the two hypotheses are
**discharged** for well-typed inputs: a class signature `sig`, a variable typing `Γ` and a literal-node typing `Λ`
such that the world is well-typed (`World.wt sig Γ w`: objects carry the attributes their class — and its
superclasses — declare, domain values have the type of their variable) and the query is well-typed (`SQuery.wt`:
`==`/`!=` on any two typable terms, `<`/`<=`/`>`/`>=` on numbers or booleans, `in` on a list, attribute access on
an object whose class declares the attribute, `[i]` on a list type that guarantees `i` in range). All the checks
are `Bool`-valued (`decide` works). The statements are otherwise the existing ones, applied, not re-proved.

* `eval_no_error`, `spec_no_error`: type safety of either side (every well-typed quantifier-free query);
* `C02_multiplicity_typed`, `C02_the_typed`: fragment `F2`;
* `C01_cover_typed`, `union_cells_typed`: the cell-level invariants (`Expr.Fc`, `Expr.Fp`);
* `C01_sound_complete_typed`: fragment `Fp1` (the widest proved fragment) — **for every well-typed query in it,
  evaluation raises no exception and returns exactly the rows of the satisfying assignments**.
-/
namespace KrroodVerif.Eql

/-- **eval_no_error.** Type safety of the engine model: a well-typed query over a well-typed world evaluates
without raising (no `AttributeError`, `IndexError`, `TypeError`, `KeyError`). Any quantifier-free condition
(including `Union`, nested `not_`), any typable selection. -/
theorem eval_no_error (sig : Sig) (Γ : VarCtx) (Λ : LitCtx) (w : World) (q : SQuery)
    (hw : World.wt sig Γ w = true) (hq : q.wt sig w Γ Λ = true) :
    ∃ rows, evalQuery w q.toQuery = .ok rows :=
  evalQuery_ok hw hq

/-- **spec_no_error.** Type safety of the first-order specification on the same inputs. -/
theorem spec_no_error (sig : Sig) (Γ : VarCtx) (Λ : LitCtx) (w : World) (q : SQuery)
    (hw : World.wt sig Γ w = true) (hq : q.wt sig w Γ Λ = true) :
    ∃ rows', solutions w q = .ok rows' :=
  solutions_ok hw hq

/-- **C02_multiplicity_typed.** `C02_multiplicity` without the `.ok` hypotheses: on `F2`, for a well-typed query
over a well-typed world, evaluation returns rows, the specification returns rows, and the former are a permutation
of the latter (one result row per satisfying assignment). -/
theorem C02_multiplicity_typed (sig : Sig) (Γ : VarCtx) (Λ : LitCtx) (w : World) (q : SQuery) (c : SExpr)
    (hc : q.cond = some c) (hF : c.F2 = true) (hsel : selOK q.sel c = true)
    (hnd : ∀ v, (w.dom v).Nodup) (hlit : LitNodup (build c))
    (hw : World.wt sig Γ w = true) (hq : q.wt sig w Γ Λ = true) :
    ∃ rows rows', evalQuery w q.toQuery = .ok rows ∧ solutions w q = .ok rows' ∧ rows.Perm rows' := by
  obtain ⟨rows, h1⟩ := evalQuery_ok hw hq
  obtain ⟨rows', h2⟩ := solutions_ok hw hq
  exact ⟨rows, rows', h1, h2, C02_multiplicity w q c hc hF hsel hnd hlit h1 h2⟩

/-- **C02_the_typed.** `C02_the` without the `.ok` hypotheses. -/
theorem C02_the_typed (sig : Sig) (Γ : VarCtx) (Λ : LitCtx) (w : World) (q : SQuery) (c : SExpr)
    (hc : q.cond = some c) (hF : c.F2 = true) (hsel : selOK q.sel c = true)
    (hnd : ∀ v, (w.dom v).Nodup) (hlit : LitNodup (build c))
    (hw : World.wt sig Γ w = true) (hq : q.wt sig w Γ Λ = true) :
    ∃ rows rows', evalQuery w q.toQuery = .ok rows ∧ solutions w q = .ok rows' ∧
      rows.length = rows'.length ∧
      Quant.theRun rows = some (Quant.theSpec rows) ∧
      (Quant.theSpec rows = .noSolution ↔ rows' = []) ∧
      (∀ s, Quant.theSpec rows = .value s ↔ rows' = [s]) ∧
      (Quant.theSpec rows = .multipleSolutions ↔ 2 ≤ rows'.length) := by
  obtain ⟨rows, h1⟩ := evalQuery_ok hw hq
  obtain ⟨rows', h2⟩ := solutions_ok hw hq
  exact ⟨rows, rows', h1, h2, C02_the w q c hc hF hsel hnd hlit h1 h2⟩

/-- **C01_sound_complete_typed.** `C01_sound_complete_union_partial` without the `.ok` hypotheses — the headline:
for every well-typed query of the positive fragment `Fp1` (`and_`, `or_` between conditions over arbitrary variable
sets, `not_` over `F1` sub-conditions; selected attribute/index chains) over a well-typed world with
duplicate-free, non-empty domains (falsy domain values allowed since fix commit `78cb732` repaired F-C01-3), evaluation **raises no exception** and returns **exactly** the rows of the
satisfying assignments (soundness →, completeness ←). -/
theorem C01_sound_complete_typed (sig : Sig) (Γ : VarCtx) (Λ : LitCtx) (w : World) (q : SQuery) (c : SExpr)
    (hc : q.cond = some c) (hF : c.Fp1 = true) (hsel : selF1 q.sel = true) (hms : trigMultiSel q = false)
    (hnd : ∀ v, (w.dom v).Nodup) (hne : ∀ v ∈ q.vars, w.dom v ≠ [])
    (hlit : LitNodup (build c))
    (hw : World.wt sig Γ w = true) (hq : q.wt sig w Γ Λ = true) :
    ∃ rows rows', evalQuery w q.toQuery = .ok rows ∧ solutions w q = .ok rows' ∧ ∀ r, r ∈ rows ↔ r ∈ rows' := by
  obtain ⟨rows, h1⟩ := evalQuery_ok hw hq
  obtain ⟨rows', h2⟩ := solutions_ok hw hq
  exact ⟨rows, rows', h1, h2, C01_sound_complete_union_partial w q c hc hF hsel hms hnd hne hlit h1 h2⟩

/-! ## the cell-level theorems, typed

`C01_cover`, `union_true_sound`, `union_cell_complete` are stated for an arbitrary input environment `env` and total
assignment `τ`; their `.ok` hypotheses are discharged when `env` and `τ` are well-typed (`EnvWt`, `AsgWt`; both hold
for the empty environment and for the assignments `solutions` enumerates). -/

/-- **C01_cover_typed.** `C01_cover` without the `.ok` hypotheses. -/
theorem C01_cover_typed (sig : Sig) (Γ : VarCtx) (Λ : LitCtx) (w : World) (τ : Asg) (e : Expr)
    (hF : e.Fc = true) (hτ : ∀ v ∈ e.vars, ∃ x, τ.lookup v = some x ∧ (w.dom v).count x = 1)
    (hlit : LitNodup e) (env : Env)
    (hfresh : ∀ id, Key.lit id ∈ e.nodes → env.lookup (.lit id) = none)
    (hag : agreesB τ env = true)
    (hww : World.wt sig Γ w = true) (he : e.wt sig w Γ Λ = true) (henv : EnvWt w Γ Λ env) (hτw : AsgWt w Γ τ) :
    ∃ rs b, eval w e env = .ok rs ∧ satE w e τ = .ok b ∧ (rs.filter fun p => agreesB τ p.1).map (·.2) = [b] := by
  obtain ⟨rs, h1, _⟩ := eval_ok hww e he env henv
  obtain ⟨b, h2⟩ := satE_ok hww hτw e he (fun v hv => by obtain ⟨x, hx, _⟩ := hτ v hv; simp [hx])
  exact ⟨rs, b, h1, h2, C01_cover w τ e hF hτ hlit env rs b hfresh hag h1 h2⟩

/-- **union_cells_typed.** `union_true_sound` and `union_cell_complete` without the `.ok` hypotheses: on the positive
fragment every true cell compatible with `τ` is sound, and `τ` lies in some cell flagged with the truth value of `e`. -/
theorem union_cells_typed (sig : Sig) (Γ : VarCtx) (Λ : LitCtx) (w : World) (τ : Asg) (e : Expr)
    (hF : e.Fp = true) (hτ : ∀ v ∈ e.vars, ∃ x, τ.lookup v = some x ∧ (w.dom v).count x = 1)
    (hlit : LitNodup e) (env : Env)
    (hfresh : ∀ id, Key.lit id ∈ e.nodes → env.lookup (.lit id) = none)
    (hag : agreesB τ env = true)
    (hww : World.wt sig Γ w = true) (he : e.wt sig w Γ Λ = true) (henv : EnvWt w Γ Λ env) (hτw : AsgWt w Γ τ) :
    ∃ rs b, eval w e env = .ok rs ∧ satE w e τ = .ok b ∧
      (∀ p ∈ rs, p.2 = true → agreesB τ p.1 = true → b = true) ∧
      (∃ p ∈ rs, p.2 = b ∧ agreesB τ p.1 = true) := by
  obtain ⟨rs, h1, _⟩ := eval_ok hww e he env henv
  obtain ⟨b, h2⟩ := satE_ok hww hτw e he (fun v hv => by obtain ⟨x, hx, _⟩ := hτ v hv; simp [hx])
  exact ⟨rs, b, h1, h2,
    fun p hp hpt hpa => union_true_sound w τ e hF hτ hlit env rs b hfresh h1 p hp hpt hpa h2,
    union_cell_complete w τ e hF hτ hlit env rs b hfresh hag h1 h2⟩

/-! ## non-vacuity (tests, by `decide`)

The 3-object world `c02nvW` of `Props/C02.lean` (class 0 with `a : int`, `f : bool`, `items : list`, `m_dbl : int`;
two variables over the three objects) is well-typed, and so are the queries of the existing non-vacuity examples
(`c02nvQ`: `F2`; `c01nvQ`: `F1`; `c01unQ`, `c01unQ2`: `Fp1` with a `Union`), both with an explicit literal context
and with the inferred one. -/
def tyNvSig : Sig := [(0, [("a", .num), ("f", .bool), ("items", .list 0), ("m_dbl", .num)])]
def tyNvΓ : VarCtx := [(0, .obj 0), (1, .obj 0)]
def tyNvΛ : LitCtx := [(101, .num), (102, .num), (103, .num)]

example :
    World.wt tyNvSig tyNvΓ c02nvW = true ∧
    c02nvQ.wt tyNvSig c02nvW tyNvΓ tyNvΛ = true ∧ c01nvQ.wt tyNvSig c02nvW tyNvΓ tyNvΛ = true ∧
    c01unQ.wt tyNvSig c02nvW tyNvΓ tyNvΛ = true ∧ c01unQ2.wt tyNvSig c02nvW tyNvΓ tyNvΛ = true ∧
    c02nvQ.wtInfer tyNvSig c02nvW tyNvΓ = true ∧ c01nvQ.wtInfer tyNvSig c02nvW tyNvΓ = true ∧
    c01unQ.wtInfer tyNvSig c02nvW tyNvΓ = true ∧ c01unQ2.wtInfer tyNvSig c02nvW tyNvΓ = true :=
  ⟨by decide, by decide, by decide, by decide, by decide, by decide, by decide, by decide, by decide⟩

/-- `C02_multiplicity_typed` applied to the test query: every hypothesis is discharged by `decide` -/
example : ∃ rows rows', evalQuery c02nvW c02nvQ.toQuery = .ok rows ∧ solutions c02nvW c02nvQ = .ok rows' ∧
    rows.Perm rows' :=
  C02_multiplicity_typed tyNvSig tyNvΓ tyNvΛ c02nvW c02nvQ c02nvC rfl (by decide) (by decide)
    (domsNodup_of_B (by decide)) (by decide) (by decide) (by decide)

/-- `C01_sound_complete_typed` applied to the two `Union` test queries -/
example : ∃ rows rows', evalQuery c02nvW c01unQ.toQuery = .ok rows ∧ solutions c02nvW c01unQ = .ok rows' ∧
    ∀ r, r ∈ rows ↔ r ∈ rows' :=
  C01_sound_complete_typed tyNvSig tyNvΓ tyNvΛ c02nvW c01unQ c01unC rfl (by decide) (by decide) (by decide)
    (domsNodup_of_B (by decide)) (by decide) (by decide) (by decide) (by decide)

example : ∃ rows rows', evalQuery c02nvW c01unQ2.toQuery = .ok rows ∧ solutions c02nvW c01unQ2 = .ok rows' ∧
    ∀ r, r ∈ rows ↔ r ∈ rows' :=
  C01_sound_complete_typed tyNvSig tyNvΓ tyNvΛ c02nvW c01unQ2 c01unC2 rfl (by decide) (by decide) (by decide)
    (domsNodup_of_B (by decide)) (by decide) (by decide) (by decide) (by decide)

/-! The discipline is not vacuous in the other direction either: the queries it rejects include the ones that
raise. `x.a < x.items` (`TypeError`), `x.nope == 1` (`AttributeError`), `x.items[0] == 1` over possibly empty lists
(`IndexError`), `1 in x.a` (`TypeError`) are ill-typed, and each raises on `c02nvW` in the engine model. -/
def tyBadQ1 : SQuery := ⟨[.var 0], some (.cmp .lt (.attr (.var 0) "a") (.attr (.var 0) "items"))⟩
def tyBadQ2 : SQuery := ⟨[.var 0], some (.cmp .eq (.attr (.var 0) "nope") (.lit 101 (.int 1)))⟩
def tyBadQ3 : SQuery := ⟨[.var 0], some (.cmp .eq (.index (.attr (.var 0) "items") 0) (.lit 101 (.int 1)))⟩
def tyBadQ4 : SQuery := ⟨[.var 0], some (.contains (.attr (.var 0) "a") (.lit 101 (.int 1)))⟩

example :
    tyBadQ1.wt tyNvSig c02nvW tyNvΓ tyNvΛ = false ∧ evalQuery c02nvW tyBadQ1.toQuery = .error .badOperand ∧
    tyBadQ2.wt tyNvSig c02nvW tyNvΓ tyNvΛ = false ∧ evalQuery c02nvW tyBadQ2.toQuery = .error .attrError ∧
    tyBadQ3.wt tyNvSig c02nvW tyNvΓ tyNvΛ = false ∧ evalQuery c02nvW tyBadQ3.toQuery = .error .indexError ∧
    tyBadQ4.wt tyNvSig c02nvW tyNvΓ tyNvΛ = false ∧ evalQuery c02nvW tyBadQ4.toQuery = .error .badOperand :=
  ⟨by decide, by decide, by decide, by decide, by decide, by decide, by decide, by decide⟩

/-! `Index`, `Optional` and subclassing: a world with a subclass (class 1 ⊂ class 0) whose `items` lists all have
at least one element and whose `next` attribute is an object of class 0 or `None`. `x.items[0] >= 1` is typable
(`items : list 1`) although `x.items[1]` is not; `x.next == None` is typable, `x.next.a` is not
(`AttributeError` on `None`); the object of class 1 is accepted for the variable of type `obj 0`. -/
def tyIxW : World :=
  { objs := [⟨0, [("a", .int 1), ("items", .list [1, 2]), ("next", .obj 1)], false⟩,
             ⟨1, [("a", .int 2), ("items", .list [3]), ("next", .none), ("extra", .bool true)], false⟩],
    doms := [(0, [.obj 0, .obj 1])],
    subclass := [(1, 0)] }
def tyIxSig : Sig := [(0, [("a", .num), ("items", .list 1), ("next", .opt (.obj 0))]), (1, [("extra", .bool)])]
def tyIxΓ : VarCtx := [(0, .obj 0)]
def tyIxQ : SQuery :=
  ⟨[.var 0, .index (.attr (.var 0) "items") 0],
   some (.and (.cmp .ge (.index (.attr (.var 0) "items") 0) (.lit 101 (.int 1)))
              (.or (.cmp .eq (.attr (.var 0) "next") (.lit 102 .none)) (.hasType (.var 0) 1)))⟩
def tyIxBad1 : SQuery := ⟨[.var 0], some (.cmp .ge (.index (.attr (.var 0) "items") 1) (.lit 101 (.int 1)))⟩
def tyIxBad2 : SQuery := ⟨[.var 0], some (.cmp .ge (.attr (.attr (.var 0) "next") "a") (.lit 101 (.int 1)))⟩

example :
    World.wt tyIxSig tyIxΓ tyIxW = true ∧ tyIxQ.wtInfer tyIxSig tyIxW tyIxΓ = true ∧
    evalQuery tyIxW tyIxQ.toQuery = .ok [[.obj 1, .int 3]] ∧ solutions tyIxW tyIxQ = .ok [[.obj 1, .int 3]] ∧
    tyIxBad1.wtInfer tyIxSig tyIxW tyIxΓ = false ∧ evalQuery tyIxW tyIxBad1.toQuery = .error .indexError ∧
    tyIxBad2.wtInfer tyIxSig tyIxW tyIxΓ = false ∧ evalQuery tyIxW tyIxBad2.toQuery = .error .attrError :=
  ⟨by decide, by decide, by decide, by decide, by decide, by decide, by decide, by decide⟩

end KrroodVerif.Eql
