import KrroodVerif.Model.Dao
/-!
# C04 — object → DAO → object round trip preserves structure, types and aliasing

Property theorems about `Dao.copyNode` (the memoised depth-first copy that transcribes both
`DataAccessObject.to_dao` and `DataAccessObject.from_dao`), `Dao.toDao`, `Dao.fromDao`, `Dao.roundTrip`
(`Model/Dao.lean`). Specification: `Dao.Iso` / `Dao.IsoVia` — a one-to-one correspondence of the reachable nodes
preserving class, scalars and every reference field position-wise (order, multiplicity, sharing, cycles).
All theorems are for every finite heap: any size, depth, sharing pattern and cycle structure.
-/
namespace KrroodVerif.Dao

/-! ## Small list facts -/

theorem All2.mono {α β : Type} {R S : α → β → Prop} (hRS : ∀ a b, R a b → S a b) :
    ∀ {xs : List α} {ys : List β}, All2 R xs ys → All2 S xs ys
  | [], [], _ => trivial
  | _ :: _, _ :: _, ⟨h, t⟩ => ⟨hRS _ _ h, All2.mono hRS t⟩
  | [], _ :: _, h => h.elim
  | _ :: _, [], h => h.elim

theorem RefRel.mono {R S : Nat → Nat → Prop} (hRS : ∀ a b, R a b → S a b) :
    ∀ {r s : Ref}, RefRel R r s → RefRel S r s
  | .none, .none, _ => trivial
  | .one _, .one _, h => hRS _ _ h
  | .many _, .many _, h => All2.mono hRS h
  | .none, .one _, h => h.elim
  | .none, .many _, h => h.elim
  | .one _, .none, h => h.elim
  | .one _, .many _, h => h.elim
  | .many _, .none, h => h.elim
  | .many _, .one _, h => h.elim

theorem All2.comp {α β γ : Type} {R : α → β → Prop} {S : β → γ → Prop} :
    ∀ {xs : List α} {ys : List β} {zs : List γ}, All2 R xs ys → All2 S ys zs →
      All2 (fun a c => ∃ b, R a b ∧ S b c) xs zs
  | [], [], [], _, _ => trivial
  | _ :: _, _ :: _, _ :: _, ⟨h1, t1⟩, ⟨h2, t2⟩ => ⟨⟨_, h1, h2⟩, All2.comp t1 t2⟩
  | [], _ :: _, _, h, _ => h.elim
  | _ :: _, [], _, h, _ => h.elim
  | [], [], _ :: _, _, h => h.elim
  | _ :: _, _ :: _, [], _, h => h.elim

theorem RefRel.comp {R S : Nat → Nat → Prop} :
    ∀ {r s t : Ref}, RefRel R r s → RefRel S s t → RefRel (fun a c => ∃ b, R a b ∧ S b c) r t
  | .none, .none, .none, _, _ => trivial
  | .one _, .one _, .one _, h1, h2 => ⟨_, h1, h2⟩
  | .many _, .many _, .many _, h1, h2 => All2.comp h1 h2
  | .none, .one _, _, h, _ => h.elim
  | .none, .many _, _, h, _ => h.elim
  | .one _, .none, _, h, _ => h.elim
  | .one _, .many _, _, h, _ => h.elim
  | .many _, .none, _, h, _ => h.elim
  | .many _, .one _, _, h, _ => h.elim
  | .none, .none, .one _, _, h => h.elim
  | .none, .none, .many _, _, h => h.elim
  | .one _, .one _, .none, _, h => h.elim
  | .one _, .one _, .many _, _, h => h.elim
  | .many _, .many _, .none, _, h => h.elim
  | .many _, .many _, .one _, _, h => h.elim

theorem lookup_some_mem {l : List (Nat × Nat)} {k v : Nat} (h : l.lookup k = some v) : (k, v) ∈ l := by
  induction l with
  | nil => simp at h
  | cons p l ih =>
    obtain ⟨a, b⟩ := p
    simp only [List.lookup_cons] at h
    split at h
    · rename_i heq
      have : k = a := by simpa using heq
      cases h; subst this; exact List.mem_cons_self
    · exact List.mem_cons_of_mem _ (ih h)

theorem lookup_none_not_key {l : List (Nat × Nat)} {k : Nat} (h : l.lookup k = none) : k ∉ l.map Prod.fst := by
  induction l with
  | nil => simp
  | cons p l ih =>
    obtain ⟨a, b⟩ := p
    simp only [List.lookup_cons] at h
    split at h
    · cases h
    · rename_i hne
      have hka : k ≠ a := by simpa using hne
      simp only [List.map_cons, List.mem_cons, not_or]
      exact ⟨hka, ih h⟩

theorem nodup_fst_fun {l : List (Nat × Nat)} (hn : (l.map Prod.fst).Nodup) {a b b' : Nat}
    (h1 : (a, b) ∈ l) (h2 : (a, b') ∈ l) : b = b' := by
  induction l with
  | nil => cases h1
  | cons p l ih =>
    simp only [List.map_cons, List.nodup_cons] at hn
    rcases List.mem_cons.1 h1 with e1 | m1 <;> rcases List.mem_cons.1 h2 with e2 | m2
    · rw [← e1] at e2; cases e2; rfl
    · exfalso; apply hn.1; rw [← e1]; exact List.mem_map.2 ⟨(a, b'), m2, rfl⟩
    · exfalso; apply hn.1; rw [← e2]; exact List.mem_map.2 ⟨(a, b), m1, rfl⟩
    · exact ih hn.2 m1 m2

theorem nodup_snd_inj {l : List (Nat × Nat)} (hn : (l.map Prod.snd).Nodup) {a a' b : Nat}
    (h1 : (a, b) ∈ l) (h2 : (a', b) ∈ l) : a = a' := by
  induction l with
  | nil => cases h1
  | cons p l ih =>
    simp only [List.map_cons, List.nodup_cons] at hn
    rcases List.mem_cons.1 h1 with e1 | m1 <;> rcases List.mem_cons.1 h2 with e2 | m2
    · rw [← e1] at e2; cases e2; rfl
    · exfalso; apply hn.1; rw [← e1]; exact List.mem_map.2 ⟨(a', b), m2, rfl⟩
    · exfalso; apply hn.1; rw [← e2]; exact List.mem_map.2 ⟨(a, b), m1, rfl⟩
    · exact ih hn.2 m1 m2

/-! ## The invariant of the memoised copy -/

/-- the memo is a one-to-one map into allocated slots -/
structure Inv (st : St) : Prop where
  keys : (st.memo.map Prod.fst).Nodup
  vals : (st.memo.map Prod.snd).Nodup
  lt : ∀ p ∈ st.memo, p.2 < st.out.length

/-- `st'` extends `st`: the memo only grows, allocated slots are never touched again -/
structure Ext (st st' : St) : Prop where
  memo : ∃ l, st'.memo = l ++ st.memo
  len : st.out.length ≤ st'.out.length
  old : ∀ i, i < st.out.length → st'.out[i]? = st.out[i]?

theorem Ext.refl (st : St) : Ext st st := ⟨⟨[], rfl⟩, Nat.le_refl _, fun _ _ => rfl⟩

theorem Ext.trans {a b c : St} (h1 : Ext a b) (h2 : Ext b c) : Ext a c := by
  obtain ⟨l1, e1⟩ := h1.memo
  obtain ⟨l2, e2⟩ := h2.memo
  refine ⟨⟨l2 ++ l1, by rw [e2, e1, List.append_assoc]⟩, Nat.le_trans h1.len h2.len, ?_⟩
  intro i hi
  rw [h2.old i (Nat.lt_of_lt_of_le hi h1.len), h1.old i hi]

theorem Ext.mem {a b : St} (h : Ext a b) {p : Nat × Nat} (hp : p ∈ a.memo) : p ∈ b.memo := by
  obtain ⟨l, e⟩ := h.memo
  rw [e]; exact List.mem_append_right _ hp

/-- the pair `(a, b)` of the memo is finished: slot `b` holds the converted node of `a`, and its references
correspond position-wise under the memo -/
def Done (P : Params) (h : Heap) (st : St) (a b : Nat) : Prop :=
  ∃ n rs, h[a]? = some n ∧ st.out[b]? = some ((P.conv n).withRefs rs) ∧
    All2 (RefRel fun x y => (x, y) ∈ st.memo) n.refs rs

theorem Done.ext {P : Params} {h : Heap} {st st' : St} {a b : Nat} (hd : Done P h st a b) (he : Ext st st') :
    Done P h st' a b := by
  obtain ⟨n, rs, hn, ho, hr⟩ := hd
  have hb : b < st.out.length := by
    rcases List.getElem?_eq_some_iff.1 ho with ⟨hlt, _⟩; exact hlt
  refine ⟨n, rs, hn, ?_, All2.mono (fun r s => RefRel.mono (fun x y hxy => he.mem hxy)) hr⟩
  rw [he.old b hb]; exact ho

/-- every pair added between `st` and `st'` is finished and lives in a slot allocated after `st` -/
def NewDone (P : Params) (h : Heap) (st st' : St) : Prop :=
  ∀ a b, (a, b) ∈ st'.memo → (a, b) ∉ st.memo → Done P h st' a b ∧ st.out.length ≤ b

/-- what one call `rec o st = some (d, st')` guarantees -/
structure Post (P : Params) (h : Heap) (st : St) (o d : Nat) (st' : St) : Prop where
  inv : Inv st'
  ext : Ext st st'
  mem : (o, d) ∈ st'.memo
  new : NewDone P h st st'

def Spec (P : Params) (h : Heap) (rec : Rec) : Prop :=
  ∀ o st d st', Inv st → rec o st = some (d, st') → Post P h st o d st'

theorem NewDone.trans {P : Params} {h : Heap} {a b c : St} (h1 : NewDone P h a b) (e1 : Ext a b)
    (h2 : NewDone P h b c) (e2 : Ext b c) : NewDone P h a c := by
  intro x y hc ha
  by_cases hb : (x, y) ∈ b.memo
  · obtain ⟨d, g⟩ := h1 x y hb ha
    exact ⟨d.ext e2, g⟩
  · obtain ⟨d, g⟩ := h2 x y hc hb
    exact ⟨d, Nat.le_trans e1.len g⟩

theorem copyList_spec {P : Params} {h : Heap} {rec : Rec} (hrec : Spec P h rec) :
    ∀ (ts : List Nat) (st : St) (ds : List Nat) (st' : St), Inv st → copyList rec ts st = some (ds, st') →
      Inv st' ∧ Ext st st' ∧ All2 (fun x y => (x, y) ∈ st'.memo) ts ds ∧ NewDone P h st st' := by
  intro ts
  induction ts with
  | nil =>
    intro st ds st' hi hc
    simp only [copyList, Option.some.injEq, Prod.mk.injEq] at hc
    obtain ⟨rfl, rfl⟩ := hc
    exact ⟨hi, Ext.refl _, trivial, fun a b hm hn => (hn hm).elim⟩
  | cons t ts ih =>
    intro st ds st' hi hc
    simp only [copyList] at hc
    split at hc
    · cases hc
    · rename_i d st1 hr
      split at hc
      · cases hc
      · rename_i ds' st2 hl
        simp only [Option.some.injEq, Prod.mk.injEq] at hc
        obtain ⟨rfl, rfl⟩ := hc
        have p1 := hrec t st d st1 hi hr
        obtain ⟨i2, e2, a2, n2⟩ := ih st1 ds' st2 p1.inv hl
        exact ⟨i2, p1.ext.trans e2, ⟨e2.mem p1.mem, a2⟩, NewDone.trans p1.new p1.ext n2 e2⟩

theorem copyRef_spec {P : Params} {h : Heap} {rec : Rec} (hrec : Spec P h rec) :
    ∀ (r : Ref) (st : St) (r' : Ref) (st' : St), Inv st → copyRef rec r st = some (r', st') →
      Inv st' ∧ Ext st st' ∧ RefRel (fun x y => (x, y) ∈ st'.memo) r r' ∧ NewDone P h st st' := by
  intro r st r' st' hi hc
  cases r with
  | none =>
    simp only [copyRef, Option.some.injEq, Prod.mk.injEq] at hc
    obtain ⟨rfl, rfl⟩ := hc
    exact ⟨hi, Ext.refl _, trivial, fun a b hm hn => (hn hm).elim⟩
  | one t =>
    simp only [copyRef] at hc
    split at hc
    · cases hc
    · rename_i d st1 hr
      simp only [Option.some.injEq, Prod.mk.injEq] at hc
      obtain ⟨rfl, rfl⟩ := hc
      have p := hrec t st d st1 hi hr
      exact ⟨p.inv, p.ext, p.mem, p.new⟩
  | many ts =>
    simp only [copyRef] at hc
    split at hc
    · cases hc
    · rename_i ds st1 hl
      simp only [Option.some.injEq, Prod.mk.injEq] at hc
      obtain ⟨rfl, rfl⟩ := hc
      obtain ⟨i, e, a, n⟩ := copyList_spec hrec ts st ds st1 hi hl
      exact ⟨i, e, a, n⟩

theorem copyRefs_spec {P : Params} {h : Heap} {rec : Rec} (hrec : Spec P h rec) :
    ∀ (rs : List Ref) (st : St) (rs' : List Ref) (st' : St), Inv st → copyRefs rec rs st = some (rs', st') →
      Inv st' ∧ Ext st st' ∧ All2 (RefRel fun x y => (x, y) ∈ st'.memo) rs rs' ∧ NewDone P h st st' := by
  intro rs
  induction rs with
  | nil =>
    intro st rs' st' hi hc
    simp only [copyRefs, Option.some.injEq, Prod.mk.injEq] at hc
    obtain ⟨rfl, rfl⟩ := hc
    exact ⟨hi, Ext.refl _, trivial, fun a b hm hn => (hn hm).elim⟩
  | cons r rs ih =>
    intro st rs' st' hi hc
    simp only [copyRefs] at hc
    split at hc
    · cases hc
    · rename_i r1 st1 hr
      split at hc
      · cases hc
      · rename_i rs1 st2 hl
        simp only [Option.some.injEq, Prod.mk.injEq] at hc
        obtain ⟨rfl, rfl⟩ := hc
        obtain ⟨i1, e1, a1, n1⟩ := copyRef_spec hrec r st r1 st1 hi hr
        obtain ⟨i2, e2, a2, n2⟩ := ih st1 rs1 st2 i1 hl
        exact ⟨i2, e1.trans e2, ⟨RefRel.mono (fun x y hxy => e2.mem hxy) a1, a2⟩, NewDone.trans n1 e1 n2 e2⟩


/-- registering a fresh source in a freshly allocated slot keeps the invariant -/
theorem Inv.register {st : St} (hi : Inv st) {o : Nat} (hlook : st.memo.lookup o = none) (d : Nat) (out' : Heap)
    (prog' : List Nat) (hits' : Nat) (hd : st.out.length ≤ d) (hlen : d < out'.length) (hle : st.out.length ≤ out'.length) :
    Inv { memo := (o, d) :: st.memo, out := out', prog := prog', hits := hits' } := by
  refine ⟨?_, ?_, ?_⟩
  · simp only [List.map_cons, List.nodup_cons]
    exact ⟨lookup_none_not_key hlook, hi.keys⟩
  · simp only [List.map_cons, List.nodup_cons]
    refine ⟨?_, hi.vals⟩
    intro hm
    obtain ⟨p, hp, hpe⟩ := List.mem_map.1 hm
    have := hi.lt p hp
    omega
  · intro p hp
    rcases List.mem_cons.1 hp with rfl | hp
    · exact hlen
    · exact Nat.lt_of_lt_of_le (hi.lt p hp) hle

theorem copyNode_spec (P : Params) (hq : P.quirk = false) (h : Heap) :
    ∀ fuel, Spec P h (copyNode P h fuel) := by
  intro fuel
  induction fuel with
  | zero => intro o st d st' _ hc; simp [copyNode] at hc
  | succ fuel ih =>
    intro o st d st' hi hc
    simp only [copyNode] at hc
    split at hc
    · rename_i f hlook
      have hmem := lookup_some_mem hlook
      split at hc
      · simp only [hq, Option.some.injEq, Prod.mk.injEq] at hc
        obtain ⟨rfl, rfl⟩ := hc
        exact ⟨⟨hi.keys, hi.vals, hi.lt⟩, ⟨⟨[], rfl⟩, Nat.le_refl _, fun _ _ => rfl⟩, hmem,
          fun a b hm hn => (hn hm).elim⟩
      · simp only [Option.some.injEq, Prod.mk.injEq] at hc
        obtain ⟨rfl, rfl⟩ := hc
        exact ⟨hi, Ext.refl _, hmem, fun a b hm hn => (hn hm).elim⟩
    · rename_i hlook
      split at hc
      · cases hc
      · rename_i n hn
        split at hc
        · -- one-phase node
          split at hc
          · cases hc
          · rename_i rs st2 hrefs
            simp only [Option.some.injEq, Prod.mk.injEq] at hc
            obtain ⟨rfl, rfl⟩ := hc
            have hi1 : Inv { memo := (o, st.out.length) :: st.memo, out := st.out ++ [(P.conv n).withRefs []],
                             prog := st.prog, hits := st.hits } :=
              hi.register hlook _ _ _ _ (Nat.le_refl _) (by simp) (by simp)
            obtain ⟨i2, e2, a2, n2⟩ := copyRefs_spec ih n.refs _ rs st2 hi1 hrefs
            obtain ⟨l, hl⟩ := e2.memo
            have hlen2 : st.out.length + 1 ≤ st2.out.length := by simpa using e2.len
            have hod : (o, st.out.length) ∈ st2.memo := by rw [hl]; simp
            refine ⟨⟨i2.keys, i2.vals, fun p hp => by simpa using i2.lt p hp⟩, ⟨⟨l ++ [(o, st.out.length)], by simp [hl]⟩,
              by simp; omega, ?_⟩, hod, ?_⟩
            · intro i hi'
              have h1 := e2.old i (by simp; omega)
              simp only [List.getElem?_set]
              rw [if_neg (by omega), h1, List.getElem?_append_left hi']
            · intro a b hm hnm
              by_cases hab : (a, b) = (o, st.out.length)
              · cases hab
                refine ⟨⟨n, rs, hn, ?_, a2⟩, Nat.le_refl _⟩
                simp only [List.getElem?_set, if_true]
                rw [if_pos (by omega)]
              · have hnm1 : (a, b) ∉ ((o, st.out.length) :: st.memo) := by
                  intro hm1
                  rcases List.mem_cons.1 hm1 with e | e
                  · exact hab e
                  · exact hnm e
                obtain ⟨dn, ge⟩ := n2 a b hm hnm1
                have hge : st.out.length + 1 ≤ b := by simpa using ge
                refine ⟨?_, by omega⟩
                obtain ⟨n', rs', hn', ho', hr'⟩ := dn
                refine ⟨n', rs', hn', ?_, hr'⟩
                simp only [List.getElem?_set]
                rw [if_neg (by omega)]; exact ho'
        · -- two-phase node
          rename_i m hinter
          split at hc
          · cases hc
          · rename_i rs st2 hrefs
            simp only [Option.some.injEq, Prod.mk.injEq] at hc
            obtain ⟨rfl, rfl⟩ := hc
            have hi1 : Inv { memo := (o, st.out.length + 1) :: st.memo,
                             out := st.out ++ [m.withRefs [], (P.conv n).withRefs []],
                             prog := (st.out.length + 1) :: st.prog, hits := st.hits } :=
              hi.register hlook _ _ _ _ (by omega) (by simp) (by simp)
            obtain ⟨i2, e2, a2, n2⟩ := copyRefs_spec ih n.refs _ rs st2 hi1 hrefs
            obtain ⟨l, hl⟩ := e2.memo
            have hlen2 : st.out.length + 2 ≤ st2.out.length := by simpa using e2.len
            have hod : (o, st.out.length + 1) ∈ st2.memo := by rw [hl]; simp
            refine ⟨⟨i2.keys, i2.vals, fun p hp => by simpa using i2.lt p hp⟩,
              ⟨⟨l ++ [(o, st.out.length + 1)], by simp [hl]⟩, by simp; omega, ?_⟩, hod, ?_⟩
            · intro i hi'
              have h1 := e2.old i (by simp; omega)
              simp only [List.getElem?_set]
              rw [if_neg (by omega), if_neg (by omega), h1, List.getElem?_append_left hi']
            · intro a b hm hnm
              by_cases hab : (a, b) = (o, st.out.length + 1)
              · cases hab
                refine ⟨⟨n, rs, hn, ?_, a2⟩, by omega⟩
                simp only [List.getElem?_set, List.length_set, if_true]
                rw [if_pos (by omega)]
              · have hnm1 : (a, b) ∉ ((o, st.out.length + 1) :: st.memo) := by
                  intro hm1
                  rcases List.mem_cons.1 hm1 with e | e
                  · exact hab e
                  · exact hnm e
                obtain ⟨dn, ge⟩ := n2 a b hm hnm1
                have hge : st.out.length + 2 ≤ b := by simpa using ge
                refine ⟨?_, by omega⟩
                obtain ⟨n', rs', hn', ho', hr'⟩ := dn
                refine ⟨n', rs', hn', ?_, hr'⟩
                simp only [List.getElem?_set]
                rw [if_neg (by omega), if_neg (by omega)]; exact ho'

theorem Inv.empty : Inv St.empty := ⟨List.nodup_nil, List.nodup_nil, fun _ hp => by cases hp⟩

/-- **C04_copy_iso.** The memoised depth-first copy with registration before the descent — the algorithm of both
`to_dao` and `from_dao` (with the memo entry of a two-phase node being its final object, i.e. without the quirk) —
yields, for EVERY finite heap and every list of roots converted with one shared state, a graph isomorphic to the
source: the memo is a one-to-one correspondence, the image of every node is its conversion, and every reference
field corresponds position-wise (order, multiplicity, sharing, cycles). No bound on size, depth or cycle structure;
`hrun` only says that the run did not stop for lack of fuel or on a dangling reference, which `C04_copy_total`
excludes for well-formed heaps. -/
theorem C04_copy_iso (P : Params) (hq : P.quirk = false) (h : Heap) (roots ds : List Nat) (st : St)
    (hrun : copyRoots P h roots = some (ds, st)) : IsoVia P.conv h roots st.out ds := by
  unfold copyRoots at hrun
  obtain ⟨i, _, a, n⟩ := copyList_spec (copyNode_spec P hq h (h.length + 1)) roots St.empty ds st Inv.empty hrun
  refine ⟨fun x y => (x, y) ∈ st.memo, a, ?_, ?_, ?_⟩
  · intro x y y' h1 h2; exact nodup_fst_fun i.keys h1 h2
  · intro x x' y h1 h2; exact nodup_snd_inj i.vals h1 h2
  · intro x y hxy
    obtain ⟨⟨n', rs, hn, ho, hr⟩, _⟩ := n x y hxy (by simp [St.empty])
    exact ⟨n', rs, hn, ho, hr⟩


/-! ## Termination: fuel = number of nodes + 1 always suffices -/

/-- number of heap nodes not yet registered in the memo -/
def unreg (h : Heap) (st : St) : Nat :=
  ((List.range h.length).filter fun i => (st.memo.lookup i).isNone).length

theorem filter_length_le {l : List Nat} {p q : Nat → Bool} (hpq : ∀ x, q x = true → p x = true) :
    (l.filter q).length ≤ (l.filter p).length := by
  induction l with
  | nil => simp
  | cons a l ih =>
    simp only [List.filter_cons]
    by_cases hq : q a = true
    · simp only [hq, hpq a hq, if_true, List.length_cons]; omega
    · simp only [hq]
      by_cases hp : p a = true
      · simp only [hp, if_true, List.length_cons]; simp; omega
      · simp only [hp]; simpa using ih

theorem filter_length_lt {l : List Nat} {p q : Nat → Bool} (hpq : ∀ x, q x = true → p x = true) {x : Nat}
    (hx : x ∈ l) (hp : p x = true) (hq : q x = false) : (l.filter q).length < (l.filter p).length := by
  induction l with
  | nil => cases hx
  | cons a l ih =>
    simp only [List.filter_cons]
    rcases List.mem_cons.1 hx with rfl | hx
    · simp only [hq, hp, if_true, List.length_cons]
      have := filter_length_le (l := l) hpq
      simp; omega
    · have := ih hx
      by_cases hqa : q a = true
      · simp only [hqa, hpq a hqa, if_true, List.length_cons]; omega
      · simp only [hqa]
        by_cases hpa : p a = true
        · simp only [hpa, if_true, List.length_cons]; simp; omega
        · simp only [hpa]; simpa using this

theorem lookup_append_none {l m : List (Nat × Nat)} {k : Nat} (h : (l ++ m).lookup k = none) : m.lookup k = none := by
  induction l with
  | nil => simpa using h
  | cons p l ih =>
    obtain ⟨a, b⟩ := p
    simp only [List.cons_append, List.lookup_cons] at h
    split at h
    · cases h
    · exact ih h

theorem unreg_mono {h : Heap} {st st' : St} (hm : ∃ l, st'.memo = l ++ st.memo) : unreg h st' ≤ unreg h st := by
  obtain ⟨l, hl⟩ := hm
  unfold unreg
  apply filter_length_le
  intro x hx
  rw [hl] at hx
  cases hlk : (l ++ st.memo).lookup x with
  | none => simp [lookup_append_none hlk]
  | some v => simp [hlk] at hx

def Tot (h : Heap) (rec : Rec) (k : Nat) : Prop :=
  ∀ o st, o < h.length → unreg h st < k → ∃ d st', rec o st = some (d, st') ∧ ∃ l, st'.memo = l ++ st.memo

theorem copyList_tot {h : Heap} {rec : Rec} {k : Nat} (hrec : Tot h rec k) :
    ∀ (ts : List Nat), (∀ t ∈ ts, t < h.length) → ∀ st, unreg h st < k →
      ∃ ds st', copyList rec ts st = some (ds, st') ∧ ∃ l, st'.memo = l ++ st.memo := by
  intro ts
  induction ts with
  | nil => intro _ st _; exact ⟨[], st, rfl, [], rfl⟩
  | cons t ts ih =>
    intro hts st hk
    obtain ⟨d, st1, h1, l1, e1⟩ := hrec t st (hts t List.mem_cons_self) hk
    have hk1 : unreg h st1 < k := Nat.lt_of_le_of_lt (unreg_mono ⟨l1, e1⟩) hk
    obtain ⟨ds, st2, h2, l2, e2⟩ := ih (fun t' ht' => hts t' (List.mem_cons_of_mem _ ht')) st1 hk1
    refine ⟨d :: ds, st2, ?_, l2 ++ l1, by rw [e2, e1, List.append_assoc]⟩
    simp only [copyList, h1, h2]

theorem copyRef_tot {h : Heap} {rec : Rec} {k : Nat} (hrec : Tot h rec k) (r : Ref)
    (hr : ∀ t ∈ r.targets, t < h.length) (st : St) (hk : unreg h st < k) :
    ∃ r' st', copyRef rec r st = some (r', st') ∧ ∃ l, st'.memo = l ++ st.memo := by
  cases r with
  | none => exact ⟨.none, st, rfl, [], rfl⟩
  | one t =>
    obtain ⟨d, st1, h1, l1, e1⟩ := hrec t st (hr t (by simp [Ref.targets])) hk
    exact ⟨.one d, st1, by simp only [copyRef, h1], l1, e1⟩
  | many ts =>
    obtain ⟨ds, st1, h1, l1, e1⟩ := copyList_tot hrec ts (fun t ht => hr t (by simpa [Ref.targets] using ht)) st hk
    exact ⟨.many ds, st1, by simp only [copyRef, h1], l1, e1⟩

theorem copyRefs_tot {h : Heap} {rec : Rec} {k : Nat} (hrec : Tot h rec k) :
    ∀ (rs : List Ref), (∀ r ∈ rs, ∀ t ∈ r.targets, t < h.length) → ∀ st, unreg h st < k →
      ∃ rs' st', copyRefs rec rs st = some (rs', st') ∧ ∃ l, st'.memo = l ++ st.memo := by
  intro rs
  induction rs with
  | nil => intro _ st _; exact ⟨[], st, rfl, [], rfl⟩
  | cons r rs ih =>
    intro hrs st hk
    obtain ⟨r', st1, h1, l1, e1⟩ := copyRef_tot hrec r (hrs r List.mem_cons_self) st hk
    have hk1 : unreg h st1 < k := Nat.lt_of_le_of_lt (unreg_mono ⟨l1, e1⟩) hk
    obtain ⟨rs', st2, h2, l2, e2⟩ := ih (fun r' hr' => hrs r' (List.mem_cons_of_mem _ hr')) st1 hk1
    refine ⟨r' :: rs', st2, ?_, l2 ++ l1, by rw [e2, e1, List.append_assoc]⟩
    simp only [copyRefs, h1, h2]

theorem copyNode_tot (P : Params) (h : Heap) (hwf : h.WF) : ∀ fuel, Tot h (copyNode P h fuel) fuel := by
  intro fuel
  induction fuel with
  | zero => intro o st _ hk; omega
  | succ fuel ih =>
    intro o st ho hk
    simp only [copyNode]
    cases hlook : st.memo.lookup o with
    | some f =>
      simp only
      split
      · exact ⟨_, _, rfl, [], rfl⟩
      · exact ⟨_, _, rfl, [], rfl⟩
    | none =>
      have hn : h[o]? = some h[o] := List.getElem?_eq_getElem ho
      have hnm : h[o] ∈ h := List.getElem_mem ho
      have htg : ∀ r ∈ h[o].refs, ∀ t ∈ r.targets, t < h.length := by
        intro r hr t ht
        exact hwf _ hnm t (by simp only [Node.targets, List.mem_flatMap]; exact ⟨r, hr, ht⟩)
      simp only [hn]
      -- registering `o` strictly decreases the number of unregistered nodes
      have hdec : ∀ (d : Nat) (out' : Heap) (prog' : List Nat),
          unreg h { memo := (o, d) :: st.memo, out := out', prog := prog', hits := st.hits } < fuel := by
        intro d out' prog'
        have : unreg h { memo := (o, d) :: st.memo, out := out', prog := prog', hits := st.hits } < unreg h st := by
          unfold unreg
          apply filter_length_lt (x := o)
          · intro x hx
            simp only [List.lookup_cons] at hx
            split at hx
            · simp at hx
            · exact hx
          · exact List.mem_range.2 ho
          · simp [hlook]
          · simp
        omega
      cases hint : P.inter h[o] with
      | none =>
        obtain ⟨rs, st2, h2, l2, e2⟩ := copyRefs_tot ih h[o].refs htg
          { memo := (o, st.out.length) :: st.memo, out := st.out ++ [(P.conv h[o]).withRefs []], prog := st.prog,
            hits := st.hits } (hdec _ _ _)
        simp only [h2]
        exact ⟨_, _, rfl, l2 ++ [(o, st.out.length)], by simp [e2]⟩
      | some m =>
        obtain ⟨rs, st2, h2, l2, e2⟩ := copyRefs_tot ih h[o].refs htg
          { memo := (o, st.out.length + 1) :: st.memo, out := st.out ++ [m.withRefs [], (P.conv h[o]).withRefs []],
            prog := (st.out.length + 1) :: st.prog, hits := st.hits } (hdec _ _ _)
        simp only [h2]
        exact ⟨_, _, rfl, l2 ++ [(o, st.out.length + 1)], by simp [e2]⟩

/-- **C04_copy_total.** On a heap without dangling references the copy started with fuel = number of nodes + 1
never runs out of fuel: `C04_copy_iso` speaks about every finite heap. -/
theorem C04_copy_total (P : Params) (h : Heap) (hwf : h.WF) (roots : List Nat) (hr : ∀ r ∈ roots, r < h.length) :
    ∃ ds st, copyRoots P h roots = some (ds, st) := by
  have hk : unreg h St.empty < h.length + 1 := by
    unfold unreg
    have := List.length_filter_le (fun i => (St.empty.memo.lookup i).isNone) (List.range h.length)
    simp only [List.length_range] at this
    omega
  obtain ⟨ds, st, hc, _⟩ := copyList_tot (copyNode_tot P h hwf (h.length + 1)) roots hr St.empty hk
  exact ⟨ds, st, hc⟩



/-! ## Today's `from_dao` agrees with the repaired one whenever no reference hits a two-phase node in progress -/

def Params.fixed (P : Params) : Params := { P with quirk := false }

/-- `rec` (quirk on) against `rec'` (quirk off): hits only grow, and a run without a hit is the same run -/
def QSpec (rec rec' : Rec) : Prop :=
  ∀ o st d st', rec o st = some (d, st') → st.hits ≤ st'.hits ∧ (st'.hits = st.hits → rec' o st = some (d, st'))

theorem copyList_q {rec rec' : Rec} (hq : QSpec rec rec') :
    ∀ (ts : List Nat) (st : St) (ds : List Nat) (st' : St), copyList rec ts st = some (ds, st') →
      st.hits ≤ st'.hits ∧ (st'.hits = st.hits → copyList rec' ts st = some (ds, st')) := by
  intro ts
  induction ts with
  | nil =>
    intro st ds st' hc
    simp only [copyList, Option.some.injEq, Prod.mk.injEq] at hc
    obtain ⟨rfl, rfl⟩ := hc
    exact ⟨Nat.le_refl _, fun _ => rfl⟩
  | cons t ts ih =>
    intro st ds st' hc
    simp only [copyList] at hc
    split at hc
    · cases hc
    · rename_i d st1 hr
      split at hc
      · cases hc
      · rename_i ds' st2 hl
        simp only [Option.some.injEq, Prod.mk.injEq] at hc
        obtain ⟨rfl, rfl⟩ := hc
        obtain ⟨l1, e1⟩ := hq t st d st1 hr
        obtain ⟨l2, e2⟩ := ih st1 ds' st2 hl
        refine ⟨Nat.le_trans l1 l2, fun he => ?_⟩
        have h1 : st1.hits = st.hits := by omega
        have h2 : st2.hits = st1.hits := by omega
        simp only [copyList, e1 h1, e2 h2]

theorem copyRef_q {rec rec' : Rec} (hq : QSpec rec rec') (r : Ref) (st : St) (r' : Ref) (st' : St)
    (hc : copyRef rec r st = some (r', st')) :
    st.hits ≤ st'.hits ∧ (st'.hits = st.hits → copyRef rec' r st = some (r', st')) := by
  cases r with
  | none =>
    simp only [copyRef, Option.some.injEq, Prod.mk.injEq] at hc
    obtain ⟨rfl, rfl⟩ := hc
    exact ⟨Nat.le_refl _, fun _ => rfl⟩
  | one t =>
    simp only [copyRef] at hc
    split at hc
    · cases hc
    · rename_i d st1 hr
      simp only [Option.some.injEq, Prod.mk.injEq] at hc
      obtain ⟨rfl, rfl⟩ := hc
      obtain ⟨l1, e1⟩ := hq t st d st1 hr
      exact ⟨l1, fun he => by simp only [copyRef, e1 he]⟩
  | many ts =>
    simp only [copyRef] at hc
    split at hc
    · cases hc
    · rename_i ds st1 hl
      simp only [Option.some.injEq, Prod.mk.injEq] at hc
      obtain ⟨rfl, rfl⟩ := hc
      obtain ⟨l1, e1⟩ := copyList_q hq ts st ds st1 hl
      exact ⟨l1, fun he => by simp only [copyRef, e1 he]⟩

theorem copyRefs_q {rec rec' : Rec} (hq : QSpec rec rec') :
    ∀ (rs : List Ref) (st : St) (rs' : List Ref) (st' : St), copyRefs rec rs st = some (rs', st') →
      st.hits ≤ st'.hits ∧ (st'.hits = st.hits → copyRefs rec' rs st = some (rs', st')) := by
  intro rs
  induction rs with
  | nil =>
    intro st rs' st' hc
    simp only [copyRefs, Option.some.injEq, Prod.mk.injEq] at hc
    obtain ⟨rfl, rfl⟩ := hc
    exact ⟨Nat.le_refl _, fun _ => rfl⟩
  | cons r rs ih =>
    intro st rs' st' hc
    simp only [copyRefs] at hc
    split at hc
    · cases hc
    · rename_i r1 st1 hr
      split at hc
      · cases hc
      · rename_i rs1 st2 hl
        simp only [Option.some.injEq, Prod.mk.injEq] at hc
        obtain ⟨rfl, rfl⟩ := hc
        obtain ⟨l1, e1⟩ := copyRef_q hq r st r1 st1 hr
        obtain ⟨l2, e2⟩ := ih st1 rs1 st2 hl
        refine ⟨Nat.le_trans l1 l2, fun he => ?_⟩
        have h1 : st1.hits = st.hits := by omega
        have h2 : st2.hits = st1.hits := by omega
        simp only [copyRefs, e1 h1, e2 h2]

theorem copyNode_q (P : Params) (h : Heap) : ∀ fuel, QSpec (copyNode P h fuel) (copyNode P.fixed h fuel) := by
  intro fuel
  induction fuel with
  | zero => intro o st d st' hc; simp [copyNode] at hc
  | succ fuel ih =>
    intro o st d st' hc
    simp only [copyNode] at hc ⊢
    split at hc
    · rename_i f hlook
      split at hc
      · rename_i hp
        simp only [Option.some.injEq, Prod.mk.injEq] at hc
        obtain ⟨rfl, rfl⟩ := hc
        exact ⟨Nat.le_succ _, fun he => by simp at he⟩
      · rename_i hp
        simp only [Option.some.injEq, Prod.mk.injEq] at hc
        obtain ⟨rfl, rfl⟩ := hc
        exact ⟨Nat.le_refl _, fun _ => by simp only [hp]; rfl⟩
    · rename_i hlook
      split at hc
      · cases hc
      · rename_i n hn
        split at hc
        · rename_i hinter
          split at hc
          · cases hc
          · rename_i rs st2 hrefs
            simp only [Option.some.injEq, Prod.mk.injEq] at hc
            obtain ⟨rfl, rfl⟩ := hc
            obtain ⟨l1, e1⟩ := copyRefs_q ih n.refs _ rs st2 hrefs
            refine ⟨l1, fun he => ?_⟩
            have e := e1 he
            simp only [Params.fixed] at e ⊢
            simp only [hinter, e]
        · rename_i m hinter
          split at hc
          · cases hc
          · rename_i rs st2 hrefs
            simp only [Option.some.injEq, Prod.mk.injEq] at hc
            obtain ⟨rfl, rfl⟩ := hc
            obtain ⟨l1, e1⟩ := copyRefs_q ih n.refs _ rs st2 hrefs
            refine ⟨l1, fun he => ?_⟩
            have e := e1 he
            simp only [Params.fixed] at e ⊢
            simp only [hinter, e]


/-! ## The property theorems -/

/-- **C04_to_dao_iso.** `to_dao` (any number of roots, one shared `ToDAOState`) yields a DAO graph isomorphic to the
object graph: one DAO per distinct object however often it is referenced, distinct objects get distinct DAOs, each
DAO is the conversion of its object (mapping applied first), references correspond position-wise. -/
theorem C04_to_dao_iso (h : Heap) (roots droots : List Nat) (st : St) (hrun : toDao h roots = some (droots, st)) :
    IsoVia daoMk h roots st.out droots :=
  C04_copy_iso toDaoParams rfl h roots droots st hrun

/-- round-tripping mapping pairs (explicit hypothesis on the user-written `create_instance` / `create_from_dao`):
converting back the DAO of an object gives that object's class and scalars -/
def RoundTrips (unmap : Label → Option Label) (h : Heap) : Prop :=
  ∀ n ∈ h, (objMk unmap (daoMk n)).lab = n.lab

instance (unmap : Label → Option Label) (h : Heap) : Decidable (RoundTrips unmap h) := by
  unfold RoundTrips; infer_instance

theorem objMk_withRefs (unmap : Label → Option Label) (x : Node) (rs : List Ref) :
    objMk unmap (x.withRefs rs) = objMk unmap x := rfl

/-- **C04_full.** For the `from_dao` that never memoises the intermediate mapping instance (quirk off), the round
trip `from_dao(to_dao(g))` is isomorphic to `g` for EVERY finite object graph and every list of roots. -/
theorem C04_full (unmap : Label → Option Label) (h : Heap) (roots rs' : List Nat) (st' : St)
    (hrt : RoundTrips unmap h) (hrun : roundTrip false unmap h roots = some (rs', st')) :
    Iso h roots st'.out rs' := by
  unfold roundTrip at hrun
  split at hrun
  · cases hrun
  · rename_i droots st hto
    obtain ⟨R1, r1, f1, i1, n1⟩ := C04_to_dao_iso h roots droots st hto
    obtain ⟨R2, r2, f2, i2, n2⟩ := C04_copy_iso (fromDaoParams false unmap) rfl st.out droots rs' st' hrun
    refine ⟨fun a c => ∃ b, R1 a b ∧ R2 b c, All2.comp r1 r2, ?_, ?_, ?_⟩
    · rintro a c c' ⟨b, h1, h2⟩ ⟨b', h1', h2'⟩
      have := f1 a b b' h1 h1'; subst this
      exact f2 b c c' h2 h2'
    · rintro a a' c ⟨b, h1, h2⟩ ⟨b', h1', h2'⟩
      have := i2 b b' c h2 h2'; subst this
      exact i1 a a' b h1 h1'
    · rintro a c ⟨b, h1, h2⟩
      obtain ⟨n, rs1, hn, hb, hr1⟩ := n1 a b h1
      obtain ⟨m, rs2, hm, hc, hr2⟩ := n2 b c h2
      rw [hb] at hm
      cases hm
      refine ⟨n, _, hn, hc, ?_, ?_⟩
      · show (objMk unmap ((daoMk n).withRefs rs1)).lab = n.lab
        rw [objMk_withRefs]
        exact hrt n (List.mem_of_getElem? hn)
      · show All2 (RefRel fun a c => ∃ b, R1 a b ∧ R2 b c) n.refs rs2
        have hr2' : All2 (RefRel R2) rs1 rs2 := hr2
        exact All2.mono (fun _ _ ⟨_, x, y⟩ => RefRel.comp x y) (All2.comp hr1 hr2')

/-- **C04_roundtrip_partial.** Today's code (quirk on): the round trip is an isomorphism for every finite object
graph on which no reference to an alternatively mapped DAO is resolved while that DAO is in progress
(`trigStale = false`, i.e. no alternatively mapped object has a depth-first back edge into it). -/
theorem C04_roundtrip_partial (unmap : Label → Option Label) (h : Heap) (roots rs' : List Nat) (st' : St)
    (hrt : RoundTrips unmap h) (hrun : roundTrip true unmap h roots = some (rs', st'))
    (hno : trigStale unmap h roots = false) : Iso h roots st'.out rs' := by
  have hhits : st'.hits = 0 := by
    unfold trigStale at hno
    rw [hrun] at hno
    simpa using hno
  apply C04_full unmap h roots rs' st' hrt
  unfold roundTrip at hrun ⊢
  split at hrun
  · cases hrun
  · rename_i droots st hto

    unfold fromDao copyRoots at hrun ⊢
    exact (copyList_q (copyNode_q (fromDaoParams true unmap) st.out _) droots St.empty rs' st' hrun).2
      (by simp [hhits, St.empty])

/-! ### The counter-example (a test on a concrete witness, = the witness of finding F-C04-1) -/

/-- `back = Backreference({1: 1}, ref); ref = Reference(3, back)` — the dataset's cycle, rooted at `back` -/
def cexHeap : Heap := [
  { lab := ⟨"Backreference", "unmappable={i1:i1}"⟩, kind := .alt, view := ⟨"BackreferenceMapping", "values=[i1]"⟩,
    tabs := ["BackreferenceMappingDAO", "SymbolDAO"], fields := [⟨false, ""⟩], refs := [.one 1] },
  { lab := ⟨"Reference", "value=i3"⟩, kind := .plain, view := noView, tabs := ["ReferenceDAO", "SymbolDAO"],
    fields := [⟨false, ""⟩], refs := [.one 0] }]

def cexUnmap : Label → Option Label := fun l =>
  if l = ⟨"BackreferenceMapping", "values=[i1]"⟩ then some ⟨"Backreference", "unmappable={i1:i1}"⟩ else none

def cexOut : Heap := [
  { lab := ⟨"BackreferenceMapping", "values=[i1]"⟩, kind := .alt, view := noView,
    tabs := ["BackreferenceMappingDAO", "SymbolDAO"], fields := [⟨false, ""⟩], refs := [.one 2] },
  { lab := ⟨"Backreference", "unmappable={i1:i1}"⟩, kind := .alt, view := noView,
    tabs := ["BackreferenceMappingDAO", "SymbolDAO"], fields := [⟨false, ""⟩], refs := [.one 2] },
  { lab := ⟨"Reference", "value=i3"⟩, kind := .plain, view := noView, tabs := ["ReferenceDAO", "SymbolDAO"],
    fields := [⟨false, ""⟩], refs := [.one 0] }]

/-- **C04_cex_altmapped_cycle.** With today's `from_dao`, `to_dao(back).from_dao()` on the two-object cycle started
at the alternatively mapped object is NOT isomorphic to the input: `reference.backreference` is the intermediate
`BackreferenceMapping` instance (slot 0), not the returned `Backreference` (slot 1). The mapping pair round-trips and
the trigger holds, so the restriction in `C04_roundtrip_partial` is necessary. Started at `Reference` the same graph
round-trips. -/
theorem C04_cex_altmapped_cycle :
    RoundTrips cexUnmap cexHeap ∧ trigStale cexUnmap cexHeap [0] = true ∧
    (∃ st', roundTrip true cexUnmap cexHeap [0] = some ([1], st') ∧ st'.out = cexOut ∧
      ¬ Iso cexHeap [0] st'.out [1]) ∧
    trigStale cexUnmap cexHeap [1] = false := by
  refine ⟨by decide, by decide, ?_, by decide⟩
  refine ⟨⟨[(1, 2), (0, 1)], cexOut, [], 1⟩, by decide, rfl, ?_⟩
  rintro ⟨R, hroots, hfun, -, hnode⟩
  have h01 : R 0 1 := hroots.1
  obtain ⟨n, m, hn, hm, -, hr⟩ := hnode 0 1 h01
  have hn' : n = cexHeap[0] := by simpa [cexHeap] using hn.symm
  have hm' : m = cexOut[1] := by simpa [cexOut] using hm.symm
  subst hn' hm'
  have h12 : R 1 2 := hr.1
  obtain ⟨n, m, hn, hm, -, hr⟩ := hnode 1 2 h12
  have hn' : n = cexHeap[1] := by simpa [cexHeap] using hn.symm
  have hm' : m = cexOut[2] := by simpa [cexOut] using hm.symm
  subst hn' hm'
  have h00 : R 0 0 := hr.1
  have := hfun 0 1 0 h01 h00
  omega

/-! Non-vacuity (tests): the hypotheses of the theorems above are met by non-trivial inputs. -/

/-- a shared sub-object, a cycle through a list, a duplicate in a list, `None` -/
def exHeap : Heap := [
  { lab := ⟨"Torso", "name=st"⟩, kind := .plain, view := noView, tabs := [], fields := [⟨false, "a"⟩],
    refs := [.many [1, 1, 0, 2]] },
  { lab := ⟨"KinematicChain", "name=sa"⟩, kind := .plain, view := noView, tabs := [], fields := [], refs := [] },
  { lab := ⟨"Torso", "name=sb"⟩, kind := .plain, view := noView, tabs := [], fields := [⟨false, "a"⟩],
    refs := [.many []] }]

example : exHeap.WF ∧ RoundTrips (fun _ => none) exHeap ∧ trigStale (fun _ => none) exHeap [0] = false ∧
    (roundTrip true (fun _ => none) exHeap [0]).isSome = true := by
  refine ⟨?_, by decide, by decide, by decide⟩
  intro n hn t ht
  have : ∀ n ∈ exHeap, ∀ t ∈ n.targets, t < exHeap.length := by decide
  exact this n hn t ht

/-- an alternatively mapped object on a cycle that is NOT entered at it: hypotheses of `C04_roundtrip_partial` hold -/
example : RoundTrips cexUnmap cexHeap ∧ trigStale cexUnmap cexHeap [1] = false ∧
    (roundTrip true cexUnmap cexHeap [1]).isSome = true := by decide



/-! ## The executable canonical form respects `Iso` (what the driver prints as `spec=` / `model=`) -/

section canon
variable {R : Nat → Nat → Prop}

theorem All2.append {α β : Type} {S : α → β → Prop} : ∀ {xs : List α} {ys : List β} {xs' : List α} {ys' : List β},
    All2 S xs ys → All2 S xs' ys' → All2 S (xs ++ xs') (ys ++ ys')
  | [], [], _, _, _, h => h
  | _ :: _, _ :: _, _, _, ⟨h, t⟩, h' => ⟨h, All2.append t h'⟩
  | [], _ :: _, _, _, h, _ => h.elim
  | _ :: _, [], _, _, h, _ => h.elim

theorem All2.length_eq {α β : Type} {S : α → β → Prop} : ∀ {xs : List α} {ys : List β}, All2 S xs ys →
    xs.length = ys.length
  | [], [], _ => rfl
  | _ :: _, _ :: _, ⟨_, t⟩ => by simp [All2.length_eq t]
  | [], _ :: _, h => h.elim
  | _ :: _, [], h => h.elim

theorem targets_rel : ∀ {rs ss : List Ref}, All2 (RefRel R) rs ss →
    All2 R (rs.flatMap Ref.targets) (ss.flatMap Ref.targets)
  | [], [], _ => trivial
  | r :: rs, s :: ss, ⟨h, t⟩ => by
    simp only [List.flatMap_cons]
    apply All2.append _ (targets_rel t)
    cases r <;> cases s <;> first | exact h.elim | skip
    · trivial
    · exact ⟨h, trivial⟩
    · exact h
  | [], _ :: _, h => h.elim
  | _ :: _, [], h => h.elim

/-- under a one-to-one relation, related lists contain related elements at the same time -/
theorem contains_rel (hf : ∀ a b b', R a b → R a b' → b = b') (hi : ∀ a a' b, R a b → R a' b → a = a')
    {x x' : Nat} (hx : R x x') : ∀ {acc acc' : List Nat}, All2 R acc acc' → acc.contains x = acc'.contains x'
  | [], [], _ => rfl
  | a :: acc, a' :: acc', ⟨h, t⟩ => by
    rw [List.contains_cons, List.contains_cons, contains_rel hf hi hx t]
    have : (x == a) = (x' == a') := by
      by_cases hxa : x = a
      · subst hxa; have := hf x x' a' hx h; subst this; simp
      · have hne : x' ≠ a' := fun e => hxa (by subst e; exact hi x a x' hx h)
        rw [beq_eq_false_iff_ne.2 hxa, beq_eq_false_iff_ne.2 hne]
    rw [this]
  | [], _ :: _, h => h.elim
  | _ :: _, [], h => h.elim

theorem findIdx_rel (hf : ∀ a b b', R a b → R a b' → b = b') (hi : ∀ a a' b, R a b → R a' b → a = a')
    {x x' : Nat} (hx : R x x') : ∀ {acc acc' : List Nat}, All2 R acc acc' →
      acc.findIdx (· == x) = acc'.findIdx (· == x')
  | [], [], _ => rfl
  | a :: acc, a' :: acc', ⟨h, t⟩ => by
    rw [List.findIdx_cons, List.findIdx_cons]
    have : (a == x) = (a' == x') := by
      by_cases hxa : a = x
      · subst hxa; have := hf a a' x' h hx; subst this; simp
      · have hne : a' ≠ x' := fun e => hxa (by subst e; exact hi a x a' h hx)
        rw [beq_eq_false_iff_ne.2 hxa, beq_eq_false_iff_ne.2 hne]
    rw [this, findIdx_rel hf hi hx t]
  | [], _ :: _, h => h.elim
  | _ :: _, [], h => h.elim

theorem numOf_rel (hf : ∀ a b b', R a b → R a b' → b = b') (hi : ∀ a a' b, R a b → R a' b → a = a')
    {order order' : List Nat} (ho : All2 R order order') {x x' : Nat} (hx : R x x') :
    numOf order x = numOf order' x' := by
  unfold numOf
  simp only [findIdx_rel hf hi hx ho, All2.length_eq ho]

theorem map_numOf_rel (hf : ∀ a b b', R a b → R a b' → b = b') (hi : ∀ a a' b, R a b → R a' b → a = a')
    {order order' : List Nat} (ho : All2 R order order') : ∀ {xs xs' : List Nat}, All2 R xs xs' →
      xs.map (numOf order) = xs'.map (numOf order')
  | [], [], _ => rfl
  | _ :: _, _ :: _, ⟨h, t⟩ => by
    simp only [List.map_cons, numOf_rel hf hi ho h, map_numOf_rel hf hi ho t]
  | [], _ :: _, h => h.elim
  | _ :: _, [], h => h.elim

theorem showRefs_rel (hf : ∀ a b b', R a b → R a b' → b = b') (hi : ∀ a a' b, R a b → R a' b → a = a')
    {order order' : List Nat} (ho : All2 R order order') : ∀ {rs ss : List Ref}, All2 (RefRel R) rs ss →
      rs.map (showRef order) = ss.map (showRef order')
  | [], [], _ => rfl
  | r :: rs, s :: ss, ⟨h, t⟩ => by
    simp only [List.map_cons, showRefs_rel hf hi ho t]
    congr 1
    cases r <;> cases s <;> first | exact h.elim | skip
    · rfl
    · simp only [showRef]; exact numOf_rel hf hi ho h
    · simp only [showRef, map_numOf_rel hf hi ho h]
  | [], _ :: _, h => h.elim
  | _ :: _, [], h => h.elim

end canon

/-- the depth-first numbering of isomorphic graphs visits corresponding nodes in the same order -/
theorem dfsOrder_rel {R : Nat → Nat → Prop} {h h' : Heap}
    (hf : ∀ a b b', R a b → R a b' → b = b') (hi : ∀ a a' b, R a b → R a' b → a = a')
    (hn : ∀ a b, R a b → ∃ n m, h[a]? = some n ∧ h'[b]? = some m ∧ m.lab = n.lab ∧ All2 (RefRel R) n.refs m.refs) :
    ∀ (fuel : Nat) (work work' acc acc' : List Nat), All2 R work work' → All2 R acc acc' →
      All2 R (dfsOrder h fuel work acc) (dfsOrder h' fuel work' acc') := by
  intro fuel
  induction fuel with
  | zero => intro work work' acc acc' _ ha; simpa [dfsOrder] using ha
  | succ fuel ih =>
    intro work work' acc acc' hw ha
    cases work with
    | nil => cases work' with
      | nil => simpa [dfsOrder] using ha
      | cons _ _ => exact hw.elim
    | cons x work => cases work' with
      | nil => exact hw.elim
      | cons x' work' =>
        obtain ⟨hx, hw⟩ := hw
        simp only [dfsOrder]
        rw [contains_rel hf hi hx ha]
        split
        · exact ih work work' acc acc' hw ha
        · obtain ⟨n, m, e1, e2, _, hr⟩ := hn x x' hx
          simp only [e1, e2]
          apply ih
          · exact All2.append (targets_rel hr) hw
          · exact All2.append ha ⟨hx, trivial⟩

/-- **Iso_canon_eq.** Isomorphic rooted graphs have the same canonical form: what the theorems state as `Iso` is
what the driver (and the harness, on the real objects) compares as text. -/
theorem Iso_canon_eq {h h' : Heap} {rs rs' : List Nat} (hiso : Iso h rs h' rs') : canon h rs = canon h' rs' := by
  obtain ⟨R, hroots, hf, hi, hn⟩ := hiso
  have ho : All2 R (reachable h rs) (reachable h' rs') :=
    dfsOrder_rel hf hi hn canonFuel rs rs' [] [] hroots trivial
  unfold canon
  simp only []
  rw [map_numOf_rel hf hi ho hroots]
  congr 2
  -- node by node
  have : ∀ (xs xs' : List Nat), All2 R xs xs' →
      xs.map (fun x => match h[x]? with | some n => showNode (reachable h rs) n | none => "?") =
      xs'.map (fun x => match h'[x]? with | some n => showNode (reachable h' rs') n | none => "?") := by
    intro xs
    induction xs with
    | nil => intro xs' hh; cases xs' with
      | nil => rfl
      | cons _ _ => exact hh.elim
    | cons x xs ih => intro xs' hh; cases xs' with
      | nil => exact hh.elim
      | cons x' xs' =>
        obtain ⟨hx, ht⟩ := hh
        obtain ⟨n, m, e1, e2, hl, hr⟩ := hn x x' hx
        simp only [List.map_cons, e1, e2, ih xs' ht]
        congr 1
        simp only [showNode, hl, showRefs_rel hf hi ho hr]
  exact this _ _ ho


/-- **C04_canon_partial.** What the driver prints: outside the trigger of F-C04-1 the canonical form of the model's
round trip (`model=`) IS the canonical form of the input (`spec=`), for every finite object graph. -/
theorem C04_canon_partial (unmap : Label → Option Label) (h : Heap) (roots rs' : List Nat) (st' : St)
    (hrt : RoundTrips unmap h) (hrun : roundTrip true unmap h roots = some (rs', st'))
    (hno : trigStale unmap h roots = false) : canon st'.out rs' = canon h roots :=
  (Iso_canon_eq (C04_roundtrip_partial unmap h roots rs' st' hrt hrun hno)).symm

/-! ## The output of `to_dao` is a well-formed heap whose slots are exactly the memo values -/

/-- for one-phase conversions (`to_dao`): the memo values are exactly the allocated slots, newest first -/
def Onto (st : St) : Prop := st.memo.map Prod.snd = (List.range st.out.length).reverse

def Pres (I : St → Prop) (rec : Rec) : Prop := ∀ o st d st', I st → rec o st = some (d, st') → I st'

theorem copyList_pres {I : St → Prop} {rec : Rec} (hrec : Pres I rec) :
    ∀ (ts : List Nat) (st : St) (ds : List Nat) (st' : St), I st → copyList rec ts st = some (ds, st') → I st' := by
  intro ts
  induction ts with
  | nil =>
    intro st ds st' hi hc
    simp only [copyList, Option.some.injEq, Prod.mk.injEq] at hc
    obtain ⟨-, rfl⟩ := hc; exact hi
  | cons t ts ih =>
    intro st ds st' hi hc
    simp only [copyList] at hc
    split at hc
    · cases hc
    · rename_i d st1 hr
      split at hc
      · cases hc
      · rename_i ds' st2 hl
        simp only [Option.some.injEq, Prod.mk.injEq] at hc
        obtain ⟨-, rfl⟩ := hc
        exact ih st1 ds' st2 (hrec t st d st1 hi hr) hl

theorem copyRef_pres {I : St → Prop} {rec : Rec} (hrec : Pres I rec) (r : Ref) (st : St) (r' : Ref) (st' : St)
    (hi : I st) (hc : copyRef rec r st = some (r', st')) : I st' := by
  cases r with
  | none =>
    simp only [copyRef, Option.some.injEq, Prod.mk.injEq] at hc
    obtain ⟨-, rfl⟩ := hc; exact hi
  | one t =>
    simp only [copyRef] at hc
    split at hc
    · cases hc
    · rename_i d st1 hr
      simp only [Option.some.injEq, Prod.mk.injEq] at hc
      obtain ⟨-, rfl⟩ := hc
      exact hrec t st d st1 hi hr
  | many ts =>
    simp only [copyRef] at hc
    split at hc
    · cases hc
    · rename_i ds st1 hl
      simp only [Option.some.injEq, Prod.mk.injEq] at hc
      obtain ⟨-, rfl⟩ := hc
      exact copyList_pres hrec ts st ds st1 hi hl

theorem copyRefs_pres {I : St → Prop} {rec : Rec} (hrec : Pres I rec) :
    ∀ (rs : List Ref) (st : St) (rs' : List Ref) (st' : St), I st → copyRefs rec rs st = some (rs', st') → I st' := by
  intro rs
  induction rs with
  | nil =>
    intro st rs' st' hi hc
    simp only [copyRefs, Option.some.injEq, Prod.mk.injEq] at hc
    obtain ⟨-, rfl⟩ := hc; exact hi
  | cons r rs ih =>
    intro st rs' st' hi hc
    simp only [copyRefs] at hc
    split at hc
    · cases hc
    · rename_i r1 st1 hr
      split at hc
      · cases hc
      · rename_i rs1 st2 hl
        simp only [Option.some.injEq, Prod.mk.injEq] at hc
        obtain ⟨-, rfl⟩ := hc
        exact ih st1 rs1 st2 (copyRef_pres hrec r st r1 st1 hi hr) hl

theorem copyNode_onto (P : Params) (hp : ∀ n, P.inter n = none) (h : Heap) :
    ∀ fuel, Pres Onto (copyNode P h fuel) := by
  intro fuel
  induction fuel with
  | zero => intro o st d st' _ hc; simp [copyNode] at hc
  | succ fuel ih =>
    intro o st d st' hi hc
    simp only [copyNode] at hc
    split at hc
    · split at hc
      · simp only [Option.some.injEq, Prod.mk.injEq] at hc
        obtain ⟨-, rfl⟩ := hc; exact hi
      · simp only [Option.some.injEq, Prod.mk.injEq] at hc
        obtain ⟨-, rfl⟩ := hc; exact hi
    · split at hc
      · cases hc
      · rename_i n hn
        simp only [hp n] at hc
        split at hc
        · cases hc
        · rename_i rs st2 hrefs
          simp only [Option.some.injEq, Prod.mk.injEq] at hc
          obtain ⟨-, rfl⟩ := hc
          have h1 : Onto { memo := (o, st.out.length) :: st.memo, out := st.out ++ [(P.conv n).withRefs []],
                           prog := st.prog, hits := st.hits } := by
            unfold Onto at hi ⊢
            simp only [List.map_cons, List.length_append, List.length_cons, List.length_nil, Nat.zero_add,
              List.range_succ, List.reverse_append, List.reverse_cons, List.reverse_nil, List.nil_append,
              List.cons_append, hi]
          have h2 := copyRefs_pres ih n.refs _ rs st2 h1 hrefs
          unfold Onto at h2 ⊢
          simpa using h2

/-- the output of `to_dao` has no dangling references, and its roots are allocated slots -/
theorem toDao_wf (h : Heap) (roots droots : List Nat) (st : St) (hrun : toDao h roots = some (droots, st)) :
    st.out.WF ∧ (∀ d ∈ droots, d < st.out.length) ∧ Onto st ∧ Inv st := by
  unfold toDao copyRoots at hrun
  obtain ⟨i, _, a, nd⟩ := copyList_spec (copyNode_spec toDaoParams rfl h (h.length + 1)) roots St.empty droots st
    Inv.empty hrun
  have honto : Onto st :=
    copyList_pres (copyNode_onto toDaoParams (fun _ => rfl) h (h.length + 1)) roots St.empty droots st rfl hrun
  have hall2 : ∀ (xs ys : List Nat), All2 (fun x y => (x, y) ∈ st.memo) xs ys → ∀ y ∈ ys, y < st.out.length := by
    intro xs
    induction xs with
    | nil => intro ys hh y hy; cases ys with
      | nil => cases hy
      | cons _ _ => exact hh.elim
    | cons x xs ih => intro ys hh y hy; cases ys with
      | nil => cases hy
      | cons y' ys =>
        rcases List.mem_cons.1 hy with rfl | hy
        · exact i.lt _ hh.1
        · exact ih ys hh.2 y hy
  refine ⟨?_, hall2 roots droots a, honto, i⟩
  intro m hm t ht
  obtain ⟨b, hb⟩ := List.mem_iff_getElem?.1 hm
  have hblt : b < st.out.length := (List.getElem?_eq_some_iff.1 hb).1
  have hbv : b ∈ st.memo.map Prod.snd := by rw [honto]; simp [hblt]
  obtain ⟨⟨a', b'⟩, hp, hpe⟩ := List.mem_map.1 hbv
  simp only at hpe; subst hpe
  obtain ⟨⟨n, rs, _, ho, hr⟩, _⟩ := nd a' b' hp (by simp [St.empty])
  rw [hb] at ho
  cases ho
  -- every target of rs is a memo value
  have hrefs : ∀ (xs : List Ref) (rs : List Ref), All2 (RefRel fun x y => (x, y) ∈ st.memo) xs rs →
      ∀ t ∈ rs.flatMap Ref.targets, t < st.out.length := by
    intro xs
    induction xs with
    | nil => intro rs hh t ht; cases rs with
      | nil => simp at ht
      | cons _ _ => exact hh.elim
    | cons x xs ih => intro rs hh t ht; cases rs with
      | nil => simp at ht
      | cons r rs =>
        simp only [List.flatMap_cons, List.mem_append] at ht
        obtain ⟨h1, h2⟩ := hh
        rcases ht with ht | ht
        · cases x with
          | none => cases r with
            | none => simp [Ref.targets] at ht
            | one _ => exact h1.elim
            | many _ => exact h1.elim
          | one a => cases r with
            | none => exact h1.elim
            | one b =>
              simp only [Ref.targets, List.mem_singleton] at ht; subst ht; exact i.lt _ h1
            | many _ => exact h1.elim
          | many as => cases r with
            | none => exact h1.elim
            | one _ => exact h1.elim
            | many bs => exact hall2 _ _ h1 t (by simpa [Ref.targets] using ht)
        · exact ih rs h2 t ht
  exact hrefs n.refs rs hr t (by simpa [Node.targets, Node.withRefs] using ht)




/-- **C04_roundtrip_total.** On every object graph without dangling references and for all valid roots, the round
trip (today's `from_dao` or the repaired one) produces a result: the isomorphism theorems are never vacuous. -/
theorem C04_roundtrip_total (quirk : Bool) (unmap : Label → Option Label) (h : Heap) (hwf : h.WF)
    (roots : List Nat) (hr : ∀ r ∈ roots, r < h.length) :
    ∃ rs' st', roundTrip quirk unmap h roots = some (rs', st') := by
  obtain ⟨droots, st, hto⟩ := C04_copy_total toDaoParams h hwf roots hr
  have hto' : toDao h roots = some (droots, st) := hto
  obtain ⟨hwf', hd, _, _⟩ := toDao_wf h roots droots st hto'
  obtain ⟨rs', st', hfrom⟩ := C04_copy_total (fromDaoParams quirk unmap) st.out hwf' droots hd
  exact ⟨rs', st', by unfold roundTrip; simp only [hto']; exact hfrom⟩


/-! ## F-C04-2: id collisions of temporary parent DAOs (nondeterministic at run time) -/

/-- without a collision the result heap is untouched -/
theorem staleParent_nil (out : Heap) : staleParent out [] = out := rfl

/-- **C04_stale_parent_needs_two.** With at most one object below an alternatively mapped DAO in the result there is
no admissible collision: `from_dao` is deterministic and the trigger of F-C04-2 is off, so `C04_roundtrip_partial`
describes today's code exactly. -/
theorem C04_stale_parent_needs_two (out : Heap) (h : (subSlots out).length ≤ 1) :
    staleChoices out [] (subSlots out) = [[]] ∧ trigStaleParent out = false := by
  have hc : staleChoices out [] (subSlots out) = [[]] := by
    cases hs : subSlots out with
    | nil => rfl
    | cons j rest =>
      cases rest with
      | nil => simp [staleChoices]
      | cons k rest' => rw [hs] at h; simp at h
  exact ⟨hc, by simp [trigStaleParent, hc]⟩

def camNode (scal : String) (refs : List Ref) : Node :=
  { lab := ⟨"AuxCamera", scal⟩, kind := .sub, view := noView,
    tabs := ["AuxCameraDAO", "AuxSensorMappingDAO"], fields := [⟨false, ""⟩, ⟨false, "l"⟩, ⟨false, ""⟩], refs := refs,
    pf := (1, 2) }

def leafNode (cls scal : String) : Node :=
  { lab := ⟨cls, scal⟩, kind := .plain, view := noView, tabs := [cls ++ "DAO"], fields := [], refs := [] }

/-- result heap of `AuxRig([a], main=b)`: two cameras with their own names, mounts and tags (finding F-C04-2's witness) -/
def cexRig : Heap := [
  { lab := ⟨"AuxRig", ""⟩, kind := .plain, view := noView, tabs := ["AuxRigDAO"], fields := [⟨false, "s"⟩, ⟨false, ""⟩],
    refs := [.many [1], .one 4] },
  camNode "name=sa,resolution=i1" [.one 2, .many [3], .none],
  leafNode "AuxFrame" "name=sf1", leafNode "AuxTag" "text=st1",
  camNode "name=sb,resolution=i2" [.one 5, .many [6, 7], .one 2],
  leafNode "AuxFrame" "name=sf2", leafNode "AuxTag" "text=st2", leafNode "AuxTag" "text=st3"]

/-- **C04_cex_stale_parent.** (test on the witness) When the second camera's temporary parent DAO is allocated at the
address of the first one's, it comes back with the FIRST camera's mount and tags (slots 2, [3]) instead of its own (5, [6, 7]) and keeps
its own housing — and likewise the first camera's name (string surgery is not kernel-evaluable, so the label is
checked by the correspondence only): not isomorphic to the input. -/
theorem C04_cex_stale_parent :
    trigStaleParent cexRig = true ∧ staleChoices cexRig [] (subSlots cexRig) = [[], [(4, 1)]] ∧
    ((staleParent cexRig [(4, 1)])[4]?).map (·.refs) = some [.one 2, .many [3], .one 2] ∧
    (cexRig[4]?).map (·.refs) = some [.one 5, .many [6, 7], .one 2] := by decide


/-! ## Mapping pairs must separate what they map (function-valued fields, FunctionMapping) -/


/-- **C04_roundtrips_separates.** A round-tripping `create_from_dao` (`unmap`) cannot factor through any projection
`π` of the mapping's columns that identifies the DAO labels of two alternatively mapped objects with different
class/scalars — e.g. a cache keyed by (module, function name) without the owning class for `FunctionMapping`. -/
theorem C04_roundtrips_separates (unmap : Label → Option Label) (h : Heap) (hrt : RoundTrips unmap h)
    {α : Type} (π : Label → α) (hπ : ∀ l l', π l = π l' → unmap l = unmap l')
    (n n' : Node) (hn : n ∈ h) (hn' : n' ∈ h) (ha : n.kind = .alt) (ha' : n'.kind = .alt)
    (hs : (unmap n.view).isSome = true) (hp : π n.view = π n'.view) : n.lab = n'.lab := by
  have e := hπ _ _ hp
  have h1 := hrt n hn
  have h2 := hrt n' hn'
  simp only [objMk, daoMk, ha, ha'] at h1 h2
  rw [← h1, ← h2, e]
  cases hu : unmap n'.view with
  | none => rw [e, hu] at hs; cases hs
  | some x => rfl

/-- two functions with the same module and `__name__` on different owners, as alternatively mapped leaves -/
def fnNode (q cls : String) : Node :=
  { lab := ⟨"function", q⟩, kind := .alt, view := ⟨"FunctionMapping", cls⟩, tabs := ["FunctionMappingDAO"],
    fields := [], refs := [] }

def jobHeap : Heap := [
  { lab := ⟨"AuxPipeline", ""⟩, kind := .plain, view := noView, tabs := ["AuxPipelineDAO"], fields := [⟨false, "j"⟩],
    refs := [.many [1, 3]] },
  { lab := ⟨"AuxJob", "name=sload"⟩, kind := .plain, view := noView, tabs := ["AuxJobDAO"], fields := [⟨false, ""⟩],
    refs := [.one 2] },
  fnNode "AuxLoader.run" "function_name=srun,class_name=sAuxLoader",
  { lab := ⟨"AuxJob", "name=ssave"⟩, kind := .plain, view := noView, tabs := ["AuxJobDAO"], fields := [⟨false, ""⟩],
    refs := [.one 4] },
  fnNode "AuxSaver.run" "function_name=srun,class_name=sAuxSaver"]

/-- the mapping keyed by all columns round-trips; the one that only looks at the first 17 characters of the columns
(the function name) does not (tests) -/
def jobUnmap : Label → Option Label := fun l =>
  if l = ⟨"FunctionMapping", "function_name=srun,class_name=sAuxLoader"⟩ then some ⟨"function", "AuxLoader.run"⟩
  else if l = ⟨"FunctionMapping", "function_name=srun,class_name=sAuxSaver"⟩ then some ⟨"function", "AuxSaver.run"⟩
  else none

def jobUnmapCached : Label → Option Label := fun l =>
  if l.cls = "FunctionMapping" then some ⟨"function", "AuxLoader.run"⟩ else none

example : RoundTrips jobUnmap jobHeap ∧ ¬ RoundTrips jobUnmapCached jobHeap ∧
    trigStale jobUnmap jobHeap [0] = false ∧ (roundTrip true jobUnmap jobHeap [0]).isSome = true := by decide



/-! ## Several roots, one shared state each way -/

theorem All2.getElem? {α β : Type} {R : α → β → Prop} : ∀ {xs : List α} {ys : List β}, All2 R xs ys →
    ∀ (i : Nat) (a : α) (b : β), xs[i]? = some a → ys[i]? = some b → R a b
  | [], [], _, i, a, b, ha, _ => by simp at ha
  | x :: xs, y :: ys, ⟨h, t⟩, 0, a, b, ha, hb => by
    simp only [List.getElem?_cons_zero, Option.some.injEq] at ha hb
    subst ha; subst hb; exact h
  | x :: xs, y :: ys, ⟨h, t⟩, i + 1, a, b, ha, hb => by
    simp only [List.getElem?_cons_succ] at ha hb
    exact All2.getElem? t i a b ha hb
  | [], _ :: _, h, _, _, _, _, _ => h.elim
  | _ :: _, [], h, _, _, _, _, _ => h.elim

/-- **C04_roots_sharing.** In an isomorphic image of a multi-root graph two root positions hold the same object
exactly when they did before: converting the same DAO twice with one state gives one object, sub-objects and roots
shared between several roots stay shared, distinct roots stay distinct. With `C04_full` / `C04_roundtrip_partial`
(which are stated for any list of roots threaded through ONE state, `fromDao … roots`) this is the multi-root
round-trip property. -/
theorem C04_roots_sharing {h h' : Heap} {roots rs' : List Nat} (hiso : Iso h roots h' rs')
    (i j a a' b b' : Nat) (hi : roots[i]? = some a) (hj : roots[j]? = some a')
    (hi' : rs'[i]? = some b) (hj' : rs'[j]? = some b') : a = a' ↔ b = b' := by
  obtain ⟨R, hroots, hf, hinj, _⟩ := hiso
  have r1 := All2.getElem? hroots i a b hi hi'
  have r2 := All2.getElem? hroots j a' b' hj hj'
  constructor
  · intro e; subst e; exact hf a b b' r1 r2
  · intro e; subst e; exact hinj a a' b r1 r2

/-- **C04_drop_deep_noop.** F-C04-3 changes nothing unless some object lies two or more levels below an alternatively
mapped class whose mapping renames constructor arguments: with the trigger off, today's `from_dao` is the modelled
copy and `C04_roundtrip_partial` applies unchanged. -/
theorem C04_drop_deep_noop (out : Heap) (h : trigDeep out = false) : dropDeepParent out = out := by
  unfold dropDeepParent
  have : ∀ n ∈ out, dropParent n = n := by
    intro n hn
    unfold trigDeep at h
    have hn' : (n.deep && n.pf != (0, 0)) = false := by
      have := List.any_eq_false.1 h n hn
      simpa using this
    unfold dropParent
    simp [hn']
  calc out.map dropParent = out.map id := List.map_congr_left this
    _ = out := List.map_id out


/-! ## After the repairs of F-C04-1 (`9a6f576`) and F-C04-2 (`453154d`)

`from_dao` fixes every reference that was resolved to the intermediate mapping instance of an alternatively mapped DAO
in progress once the final object exists, and keeps every converted DAO (also the temporary parent DAOs) alive, so
the code is the copy with `quirk := false` and no collision choice: the driver's `model=` is `roundTrip false`.
`C04_roundtrip_partial`, `C04_cex_altmapped_cycle`, `C04_cex_stale_parent` and `C04_stale_parent_needs_two` remain as
facts about the behaviour BEFORE these commits (regression documentation; the witnesses are in the corpus). -/

/-- **C04_roundtrip.** The round trip `from_dao(to_dao(g))` — any number of roots, one state each way — is isomorphic
to `g` for EVERY finite object graph: no trigger, no restriction on cycles through alternatively mapped objects. The
only hypothesis left is that the user-written mapping pairs round-trip. -/
theorem C04_roundtrip (unmap : Label → Option Label) (h : Heap) (roots rs' : List Nat) (st' : St)
    (hrt : RoundTrips unmap h) (hrun : roundTrip false unmap h roots = some (rs', st')) :
    Iso h roots st'.out rs' := C04_full unmap h roots rs' st' hrt hrun

/-- **C04_canon.** What the driver prints: `model=` IS `spec=` for every finite object graph. -/
theorem C04_canon (unmap : Label → Option Label) (h : Heap) (roots rs' : List Nat) (st' : St)
    (hrt : RoundTrips unmap h) (hrun : roundTrip false unmap h roots = some (rs', st')) :
    canon st'.out rs' = canon h roots :=
  (Iso_canon_eq (C04_roundtrip unmap h roots rs' st' hrt hrun)).symm

/-- the former witness of F-C04-1 now round-trips (test) -/
example : ∃ rs' st', roundTrip false cexUnmap cexHeap [0] = some (rs', st') ∧ Iso cexHeap [0] st'.out rs' := by
  obtain ⟨rs', st', hrun⟩ := C04_roundtrip_total false cexUnmap cexHeap (by
    intro n hn t ht
    have : ∀ n ∈ cexHeap, ∀ t ∈ n.targets, t < cexHeap.length := by decide
    exact this n hn t ht) [0] (by decide)
  exact ⟨rs', st', hrun, C04_roundtrip cexUnmap cexHeap [0] rs' st' (by decide) hrun⟩

end KrroodVerif.Dao
